#!/usr/bin/env python3
"""Development tool (not a registered check): which syntactic mutants of /repo compile and pass the existing suite?
usage: stage1.py <gen-dir> <out.jsonl> [workers]   (gen-dir as written by the mutate tool, one sub-directory per file)"""
import json, os, subprocess, sys, shutil, glob
from concurrent.futures import ThreadPoolExecutor
import threading, queue
gen, outp = sys.argv[1], sys.argv[2]
W = int(sys.argv[3]) if len(sys.argv) > 3 else 6
env = dict(os.environ, GOFLAGS='-mod=mod', GOPROXY='off', GOSUMDB='off', GOTOOLCHAIN='local')
jobs = []
for d in sorted(glob.glob(gen + '/*')):
    for l in open(d + '/index.jsonl'):
        m = json.loads(l)
        b = m['before'].lstrip()
        if b.startswith('klog.') or b.startswith('defer utilruntime') or 'klog.' in b and m['op'].startswith('del-'):
            continue
        m['src'] = f"{d}/{m['n']}.go"
        jobs.append(m)
done = set()
if os.path.exists(outp):
    for l in open(outp):
        r = json.loads(l); done.add((r['file'], r['n']))
jobs = [j for j in jobs if (j['file'], j['n']) not in done]
print(len(jobs), 'mutants to try', flush=True)
wts = queue.Queue()
for i in range(W):
    p = f'/tmp/mut/wt{i}'
    if not os.path.isdir(p + '/policy'):
        subprocess.run(['git', '-C', '/repo', 'worktree', 'add', '-q', '--detach', p, 'HEAD'], check=True)
    subprocess.run(['git', '-C', p, 'checkout', '-q', '--', '.'])
    wts.put(p)
lock = threading.Lock()
out = open(outp, 'a')
def run(m):
    wt = wts.get()
    try:
        dst = os.path.join(wt, m['file'])
        shutil.copy(m['src'], dst)
        pkg = './' + os.path.dirname(m['file']) + '/...'
        res = 'survived'
        try:
            r = subprocess.run('go build ./... && go build -tags verif ./...', shell=True, cwd=wt, env=env, capture_output=True, timeout=300)
            if r.returncode != 0:
                res = 'compile-fail'
            else:
                r = subprocess.run('go test -vet=off -count=1 -timeout 120s ./...', shell=True, cwd=wt, env=env, capture_output=True, timeout=400)
                if r.returncode != 0:
                    res = 'killed-by-suite'
        except subprocess.TimeoutExpired:
            res = 'timeout'
        subprocess.run(['git', '-C', wt, 'checkout', '-q', '--', '.'])
        m2 = dict(m); m2['result'] = res
        with lock:
            out.write(json.dumps(m2) + '\n'); out.flush()
    finally:
        wts.put(wt)
with ThreadPoolExecutor(W) as ex:
    list(ex.map(run, jobs))
print('done')

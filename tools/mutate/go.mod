module mutate

go 1.23

#!/usr/bin/env python3
"""Development tool (not a registered check): run the quick checks a surviving mutant's file maps to, in scratch copies
(tools/iso_run.sh), and record which check flags it. usage: stage2.py <stage1.jsonl> <out.jsonl> [parallel] [max]"""
import json, os, subprocess, sys, threading, re, random
from concurrent.futures import ThreadPoolExecutor
src, outp = sys.argv[1], sys.argv[2]
PAR = int(sys.argv[3]) if len(sys.argv) > 3 else 3
MAX = int(sys.argv[4]) if len(sys.argv) > 4 else 10**9
ADM1, ADM2 = ['C01', 'C07', 'C09', 'C11'], ['C06', 'C08', 'C10', 'C12', 'C18', 'C13', 'C17', 'C15']
def props(m):
    f, fn = m['file'], m.get('func', '')
    if f == 'admission/admission.go':
        if re.search(r'Namespace|prioritize|decorate|PodsIn', fn): return ['C11', 'C12', 'C07'], ['C06', 'C13', 'C15', 'C01']
        if re.search(r'Significant', fn): return ['C10', 'C01'], ['C19', 'C07']
        if re.search(r'Controller|Extract|PodSpecResources|HasPodSpec', fn): return ['C09', 'C07'], ['C08', 'C06', 'C18']
        if re.search(r'exempt', fn): return ['C06', 'C11'], ['C01', 'C09']
        if re.search(r'Configuration', fn): return ['C17', 'C01'], ['C06']
        if fn.endswith('EvaluatePod'): return ['C01', 'C08', 'C09'], ['C06', 'C13', 'C18', 'C07']
        return ADM1, ADM2
    if f.startswith('admission/api/'): return ['C17'], ['C01', 'C05']
    if f == 'admission/response.go': return ['C01', 'C11', 'C07'], ['C15', 'C16', 'C06']
    if f in ('admission/namespace.go', 'admission/pods.go'): return ['C07', 'C15'], ['C11', 'C12', 'C14']
    if f == 'api/helpers.go': return ['C05', 'C04', 'C11'], ['C01', 'C17', 'C18', 'C08']
    if f == 'api/attributes.go': return ['C16', 'C09'], ['C07', 'C01', 'C15']
    if f == 'metrics/metrics.go': return ['C18'], ['C15', 'C14']
    if f.startswith('cmd/webhook/server/'): return ['C16', 'C12'], ['C15', 'C17', 'C09', 'C01']
    if f in ('policy/registry.go', 'policy/checks.go'): return ['C04', 'C13', 'C02'], ['C14', 'C20', 'C03']
    if f.startswith('policy/'): return ['C02', 'C13', 'C19'], ['C03', 'C14', 'C20', 'C01']
    return ['C01'], []
done = set()
if os.path.exists(outp):
    for l in open(outp):
        r = json.loads(l); done.add((r['file'], r['n']))
jobs = [m for m in map(json.loads, open(src)) if m['result'] == 'survived' and (m['file'], m['n']) not in done]
INCL = re.compile(sys.argv[5]) if len(sys.argv) > 5 else None
if INCL:
    jobs = [m for m in jobs if INCL.search(m['file'])]
random.Random(7).shuffle(jobs)
jobs = jobs[:MAX]
print(len(jobs), 'survivors to run', flush=True)
lock = threading.Lock()
out = open(outp, 'a')
def run(m):
    name = 'mut-' + m['file'].replace('/', '_').replace('.go', '') + '-' + str(m['n'])
    patch = f'/tmp/mut/patches/{name}.diff'
    os.makedirs('/tmp/mut/patches', exist_ok=True)
    d = subprocess.run(['diff', '-u', '--label', 'a/' + m['file'], '--label', 'b/' + m['file'], '/repo/' + m['file'], m['src']], capture_output=True, text=True).stdout
    open(patch, 'w').write(d)
    caught, how = [], {}
    for group in props(m):
        if not group or caught:
            continue
        r = subprocess.run(['/verif/tools/iso_run.sh', name, patch, 'quick'] + group, capture_output=True, text=True, env=dict(os.environ, ISO_PAR='4', ISO_SRC=os.environ.get('ISO_SRC', '/verif')))
        for line in r.stdout.splitlines():
            mm = re.search(r'check=(C\d+) rc=(\d+) :: (.*)', line)
            if mm and mm.group(2) != '0':
                caught.append(mm.group(1))
                how[mm.group(1)] = 'no-input' if 'no-failing-input-found' in mm.group(3) else ('input' if 'VIOLATION' in mm.group(3) else 'rc=' + mm.group(2))
    m2 = {k: m[k] for k in ('n', 'file', 'line', 'op', 'before', 'after', 'func')}
    m2['caught'] = caught; m2['how'] = how; m2['ran'] = [p for g in props(m) for p in g] if not caught else None
    with lock:
        out.write(json.dumps(m2) + '\n'); out.flush()
with ThreadPoolExecutor(PAR) as ex:
    list(ex.map(run, jobs))
print('done')

// mutate: development tool (not a registered check). Enumerates small syntactic mutations of one Go source file and
// writes each mutant as a whole file. usage: mutate <file.go> <outdir> [-list]
// Every mutant is <outdir>/<n>.go plus a line in <outdir>/index.jsonl {n, file, line, op, before, after, func}.
package main

import (
	"encoding/json"
	"fmt"
	"go/ast"
	"go/parser"
	"go/token"
	"os"
	"path/filepath"
	"strconv"
	"strings"
)

type edit struct {
	start, end int // byte offsets in src
	repl       string
	op         string
	line       int
	fn         string
}

func main() {
	if len(os.Args) < 3 {
		fmt.Fprintln(os.Stderr, "usage: mutate file.go outdir")
		os.Exit(2)
	}
	path, out := os.Args[1], os.Args[2]
	src, err := os.ReadFile(path)
	if err != nil {
		panic(err)
	}
	fset := token.NewFileSet()
	f, err := parser.ParseFile(fset, path, src, parser.ParseComments)
	if err != nil {
		panic(err)
	}
	off := func(p token.Pos) int { return fset.Position(p).Offset }
	var edits []edit
	curFn := ""
	add := func(s, e token.Pos, repl, op string) {
		edits = append(edits, edit{off(s), off(e), repl, op, fset.Position(s).Line, curFn})
	}
	text := func(n ast.Node) string { return string(src[off(n.Pos()):off(n.End())]) }
	swap := map[token.Token][]string{
		token.EQL: {"!="}, token.NEQ: {"=="}, token.LSS: {"<=", ">"}, token.LEQ: {"<"}, token.GTR: {">=", "<"}, token.GEQ: {">"},
		token.LAND: {"||"}, token.LOR: {"&&"}, token.ADD: {"-"}, token.SUB: {"+"},
	}
	for _, d := range f.Decls {
		fd, ok := d.(*ast.FuncDecl)
		if !ok || fd.Body == nil {
			// package-level var initialisers: literals only
			if gd, ok := d.(*ast.GenDecl); ok && (gd.Tok == token.VAR || gd.Tok == token.CONST) {
				curFn = "<decl>"
				ast.Inspect(gd, func(n ast.Node) bool {
					if bl, ok := n.(*ast.BasicLit); ok && bl.Kind == token.INT {
						if v, err := strconv.Atoi(bl.Value); err == nil {
							add(bl.Pos(), bl.End(), strconv.Itoa(v+1), "int+1")
							if v > 0 {
								add(bl.Pos(), bl.End(), strconv.Itoa(v-1), "int-1")
							}
						}
					}
					return true
				})
			}
			continue
		}
		curFn = fd.Name.Name
		if fd.Recv != nil && len(fd.Recv.List) > 0 {
			curFn = strings.TrimPrefix(text(fd.Recv.List[0].Type), "*") + "." + curFn
		}
		ast.Inspect(fd.Body, func(n ast.Node) bool {
			switch x := n.(type) {
			case *ast.BinaryExpr:
				for _, r := range swap[x.Op] {
					// skip string concatenation + -> -
					if x.Op == token.ADD || x.Op == token.SUB {
						if strings.Contains(text(x), "\"") {
							continue
						}
					}
					add(x.OpPos, x.OpPos+token.Pos(len(x.Op.String())), r, "binop "+x.Op.String()+"->"+r)
				}
			case *ast.UnaryExpr:
				if x.Op == token.NOT {
					add(x.OpPos, x.OpPos+1, "", "drop-not")
				}
			case *ast.IfStmt:
				switch c := x.Cond.(type) {
				case *ast.CallExpr, *ast.Ident, *ast.SelectorExpr, *ast.StarExpr, *ast.ParenExpr:
					add(c.Pos(), c.End(), "!("+text(c)+")", "negate-cond")
				}
				if x.Else != nil {
					if blk, ok := x.Else.(*ast.BlockStmt); ok {
						// drop the else branch
						add(x.Body.End(), blk.End(), "", "drop-else")
					}
				}
			case *ast.BasicLit:
				if x.Kind == token.INT {
					if v, err := strconv.Atoi(x.Value); err == nil {
						add(x.Pos(), x.End(), strconv.Itoa(v+1), "int+1")
						if v > 0 {
							add(x.Pos(), x.End(), strconv.Itoa(v-1), "int-1")
						}
					}
				}
			case *ast.Ident:
				if x.Name == "true" && x.Obj == nil {
					add(x.Pos(), x.End(), "false", "true->false")
				} else if x.Name == "false" && x.Obj == nil {
					add(x.Pos(), x.End(), "true", "false->true")
				}
			case *ast.BlockStmt:
				for _, s := range x.List {
					switch st := s.(type) {
					case *ast.ExprStmt:
						add(st.Pos(), st.End(), "", "del-call")
					case *ast.AssignStmt:
						if st.Tok != token.DEFINE {
							add(st.Pos(), st.End(), "", "del-assign")
						}
					case *ast.IncDecStmt:
						add(st.Pos(), st.End(), "", "del-incdec")
					case *ast.BranchStmt:
						if st.Tok == token.CONTINUE || st.Tok == token.BREAK {
							add(st.Pos(), st.End(), "", "del-"+st.Tok.String())
						}
					case *ast.ReturnStmt:
						add(st.Pos(), st.End(), "", "del-return")
					case *ast.IfStmt:
						if st.Else == nil && st.Init == nil {
							add(st.Pos(), st.End(), "", "del-if")
						}
					case *ast.DeferStmt:
						add(st.Pos(), st.End(), "", "del-defer")
					}
				}
			case *ast.CaseClause:
				if len(x.List) > 1 {
					for i, e := range x.List {
						// remove one expression from a case list
						s, en := e.Pos(), e.End()
						if i+1 < len(x.List) {
							en = x.List[i+1].Pos()
						} else {
							s = x.List[i-1].End()
						}
						add(s, en, "", "case-drop-expr")
					}
				} else if len(x.List) == 1 && len(x.Body) > 0 {
					add(x.Pos(), x.End(), "", "case-drop-clause")
				}
			case *ast.SliceExpr:
				// s[a:b] boundary
				if x.Low != nil {
					add(x.Low.Pos(), x.Low.End(), "("+text(x.Low)+")+1", "slice-low+1")
				}
			}
			return true
		})
	}
	os.MkdirAll(out, 0o755)
	idx, _ := os.Create(filepath.Join(out, "index.jsonl"))
	defer idx.Close()
	enc := json.NewEncoder(idx)
	for i, e := range edits {
		m := string(src[:e.start]) + e.repl + string(src[e.end:])
		os.WriteFile(filepath.Join(out, fmt.Sprintf("%d.go", i)), []byte(m), 0o644)
		before := string(src[e.start:e.end])
		if len(before) > 120 {
			before = before[:120] + "…"
		}
		enc.Encode(map[string]any{"n": i, "file": path, "line": e.line, "op": e.op, "before": before, "after": e.repl, "func": e.fn})
	}
	fmt.Println(len(edits), "mutants of", path)
}

#!/bin/bash
# usage: seed_verify.sh <worktree> <seed-id> <property>
# Confirms a seeded change in a scratch worktree: suite passes with it, demo fails with it, demo passes without it.
set -u
W=$1; ID=$2; PROP=$3
export GOFLAGS=-mod=mod GOPROXY=off GOSUMDB=off GOTOOLCHAIN=local
cd "$W" || exit 2
DEMO=$(cat seed_out/demo_cmd.txt | grep -v '^#' | grep -v '^$' | tail -1)
echo "demo cmd: $DEMO"
# make sure change applied: patch should reverse-apply cleanly
if ! git apply --check -R seed_out/patch.diff 2>/dev/null; then echo "patch not applied in worktree; applying"; git apply seed_out/patch.diff || exit 2; fi
echo "== build+suite WITH change (demo excluded by running the baseline packages with -run of existing tests is not possible; run all and expect only the demo to fail)"
go build ./... || { echo BUILD-FAILS; exit 1; }
go test -vet=off -count=1 ./... > /tmp/seed_suite_$ID.log 2>&1
grep -E "^(FAIL|---|ok)" /tmp/seed_suite_$ID.log | grep -v "^ok" | head -20
echo "== demo WITH change (expect failure)"
( eval "$DEMO" ) > /tmp/seed_demo_with_$ID.log 2>&1; RC_WITH=$?
echo "rc=$RC_WITH"
git apply -R seed_out/patch.diff || exit 2
echo "== demo WITHOUT change (expect pass)"
( eval "$DEMO" ) > /tmp/seed_demo_without_$ID.log 2>&1; RC_WITHOUT=$?
echo "rc=$RC_WITHOUT"
git apply seed_out/patch.diff
# existing suite only: temporarily move demo files away
echo "== existing suite only WITH change"
# untracked files that the patch itself does not create (a change may add source files: those stay)
DEMOFILES=$(git status --porcelain -uall | grep '^??' | awk '{print $2}' | grep -v '^seed_out' | while read f; do grep -q "^+++ b/$f\$" seed_out/patch.diff || echo $f; done)
mkdir -p /tmp/seed_hold_$ID; for f in $DEMOFILES; do mkdir -p /tmp/seed_hold_$ID/$(dirname $f); mv $f /tmp/seed_hold_$ID/$f; done
mv seed_out /tmp/seed_hold_$ID/seed_out
go test -vet=off -count=1 ./... > /tmp/seed_suite_only_$ID.log 2>&1; RC_SUITE=$?
mv /tmp/seed_hold_$ID/seed_out seed_out
for f in $DEMOFILES; do mv /tmp/seed_hold_$ID/$f $f; done; rm -rf /tmp/seed_hold_$ID
echo "suite rc=$RC_SUITE"
if [ $RC_SUITE -eq 0 ] && [ $RC_WITH -ne 0 ] && [ $RC_WITHOUT -eq 0 ]; then
  echo "CONFIRMED"
  mkdir -p /verif/seeded/$ID
  cp seed_out/patch.diff /verif/seeded/$ID/patch.diff
  cp seed_out/NOTES.md /verif/seeded/$ID/NOTES.md 2>/dev/null
  cp seed_out/demo_cmd.txt /verif/seeded/$ID/demo_cmd.txt
  for f in $DEMOFILES; do cp -r $f /verif/seeded/$ID/ ; done
  tail -n 15 /tmp/seed_demo_with_$ID.log > /verif/seeded/$ID/demo_failure.txt
else
  echo "NOT-CONFIRMED suite=$RC_SUITE with=$RC_WITH without=$RC_WITHOUT"; tail -n 5 /tmp/seed_demo_with_$ID.log; tail -n 5 /tmp/seed_demo_without_$ID.log; grep -E "^(FAIL|---)" /tmp/seed_suite_only_$ID.log | head
fi

#!/bin/bash
# usage: iso_run.sh <name> <patch.diff|-> <tier> <prop> [<prop>...]
# Runs checks against a scratch copy of /repo's HEAD (+ optional patch) from a scratch copy of /verif, so that /repo
# and /verif/evidence stay untouched and several runs can go on at once. Development tool only: registered checks and
# committed evidence always come from /verif against /repo itself.
NAME=$1; PATCH=$2; TIER=$3; shift 3
ROOT=/tmp/iso/$NAME
rm -rf $ROOT; mkdir -p $ROOT
git -C /repo worktree prune
for try in 1 2 3 4 5 6; do   # concurrent runs contend for /repo's git lock files
  git -C /repo worktree add -q --detach $ROOT/repo HEAD 2>/dev/null && break
  rm -rf $ROOT/repo; git -C /repo worktree prune 2>/dev/null; sleep $try
done
[ -d $ROOT/repo/policy ] || { echo "iso=$NAME could not create the scratch worktree"; exit 2; }
if [ "$PATCH" != "-" ]; then git -C $ROOT/repo apply "$PATCH" || { echo "patch does not apply"; git -C /repo worktree remove --force $ROOT/repo; exit 2; }; fi
rsync -a --exclude .git --exclude replays --exclude seeded --exclude refactors ${ISO_SRC:-/verif}/ $ROOT/verif/
cd $ROOT/verif
export VERIF_REPO=$ROOT/repo
run_one() {
  P=$1
  ./check $P --tier $TIER > $ROOT/$P.log 2>&1; RC=$?
  echo "iso=$NAME check=$P rc=$RC :: $(grep -E 'VIOLATION|KNOWN' $ROOT/$P.log | head -2 | tr '\n' ' ') $(tail -1 $ROOT/$P.log | sed 's/.*obligations/obligations/')"
}
N=0
for P in "$@"; do
  run_one $P &
  N=$((N+1)); if [ $((N % ${ISO_PAR:-5})) -eq 0 ]; then wait; fi
done
wait
mkdir -p /tmp/iso_out/$NAME; cp $ROOT/*.log /tmp/iso_out/$NAME/ 2>/dev/null; cp -r $ROOT/verif/replays /tmp/iso_out/$NAME/ 2>/dev/null
cd /; git -C /repo worktree remove --force $ROOT/repo; git -C /repo worktree prune; rm -rf $ROOT

#!/bin/bash
# usage: seed_take.sh <prop> <suffix> [<root>=/tmp/seed] [<extra props>...]
# confirm <root>/<prop> (tools/seed_verify.sh), store it as seeded/<prop>-<suffix>, drop the worktree, then run the
# property's quick check (and any extra ones) against a scratch copy of /repo with the patch applied (tools/iso_run.sh)
P=$1; SFX=$2; ROOT=${3:-/tmp/seed}; shift 3 2>/dev/null
ID=$P-$SFX
/verif/tools/seed_verify.sh $ROOT/$P $ID $P 2>&1 | tail -1
git -C /repo worktree remove --force $ROOT/$P 2>/dev/null; git -C /repo worktree prune
[ -d /verif/seeded/$ID ] && /verif/tools/iso_run.sh seed-$ID /verif/seeded/$ID/patch.diff quick $P "$@"

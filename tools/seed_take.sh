#!/bin/bash
# usage: seed_take.sh <prop> <suffix>  -- confirm /tmp/seed/<prop>, store as seeded/<prop>-<suffix>, drop the worktree, run the property's check on it
P=$1; SFX=$2; ID=$P-$SFX
/verif/tools/seed_verify.sh /tmp/seed/$P $ID $P 2>&1 | tail -1
git -C /repo worktree remove --force /tmp/seed/$P 2>/dev/null; git -C /repo worktree prune
[ -d /verif/seeded/$ID ] && /verif/tools/seed_run.sh $ID $P

#!/bin/bash
# usage: regress.sh <out-file> [parallel=3] [seed-id-glob='*']   (development tool)
# every seeded change against its own property's quick check, in scratch copies (tools/iso_run.sh); one line per seed
OUT=$1; PAR=${2:-3}; GLOB=${3:-*}
: > $OUT
ls -d /verif/seeded/$GLOB/ | while read d; do
  id=$(basename $d); prop=${id%%-*}
  [ -f $d/patch.diff ] || continue
  echo "$id $prop"
done | xargs -P $PAR -L 1 bash -c 'ISO_PAR=1 /verif/tools/iso_run.sh re-$0 /verif/seeded/$0/patch.diff quick $1 2>&1 | tail -1 >> '"$OUT"
echo done >> $OUT

#!/usr/bin/env python3
"""Regenerates seeded/README.md from seeded/*/meta.json."""
import json, glob, os
rows = []
for d in sorted(glob.glob('/verif/seeded/C*')):
    m = json.load(open(d + '/meta.json'))
    det = m.get('detected_by', {})
    rows.append(f"| {m['id']} | {m['property']} | {m['needs_to_manifest']} | {', '.join(det.get('checks', []))}{' (' + det['when'] + ')' if det.get('when') else ''} |")
open('/verif/seeded/README.md', 'w').write(
    "# Seeded changes\n\nEach directory: patch.diff (apply with `git -C /repo apply`), the demonstration, meta.json. "
    "Run `tools/seed_run.sh <id> <property>` (in /repo itself) or `tools/iso_run.sh <name> seeded/<id>/patch.diff quick <property>` (scratch copies).\n\n"
    "| id | property | needs in order to manifest | caught by |\n|---|---|---|---|\n" + '\n'.join(rows) + '\n')
print(len(rows), 'seeds')

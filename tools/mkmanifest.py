#!/usr/bin/env python3
"""Regenerates /verif/MANIFEST.json from propsconf.py (claimed properties) and properties.jsonl."""
import json, sys
sys.path.insert(0, '/verif')
import propsconf
ids = [json.loads(l)['id'] for l in open('/verif/properties.jsonl')]
checks = []
for pid in ids:
    c = propsconf.PROPS.get(pid)
    if not c or not c.get('claimed', True):
        continue
    checks.append({
        'property_id': pid,
        'quick_cmd': f'./check {pid} --tier quick',
        'thorough_cmd': f'./check {pid} --tier thorough',
        'evidence_file': f'/verif/evidence/{pid}.json',
        'replay_cmd_template': f'./check {pid} --replay {{path}}',
        'engine': 'lean4-proof+correspondence',
        'level_claimed': {'category': 'proof', 'text': c['level_text'], 'design_ref': 'DESIGN.md section 6, ' + pid},
        'level_note': c['level_note'],
        'technique': c.get('technique', 'Lean 4 theorem over an executable model + Go/Lean differential correspondence'),
    })
na = [{'property_id': pid, 'reason': propsconf.NOT_APPLICABLE.get(pid, 'check not yet built in this commit (planned: Lean 4 proof + correspondence, DESIGN.md section 6)')}
      for pid in ids if pid not in [c['property_id'] for c in checks]]
m = {
    'version': 1,
    'setup_cmd': './setup.sh',
    'hooks': {'guard': 'verif', 'enable': 'go build -tags verif (harness module with replace k8s.io/pod-security-admission => /repo)',
              'baseline_off_cmd': 'cd /repo && go test -vet=off -count=1 ./...', 'source_commits': propsconf.HOOK_COMMITS, 'add_only': True},
    'engines': [{'name': 'lean4-proof+correspondence', 'path': '/verif/check', 'serves_properties': [c['property_id'] for c in checks],
                 'kind_free_text': 'Lean 4 (core only) executable model + kernel-checked theorems in /verif/lean; tables regenerated from /repo by go/factx; Go harness diffs the real code against the compiled Lean driver and runs property oracles on the real code'}],
    'checks': checks,
    'notes': 'see DESIGN.md; every check = FACTS (regenerate tables) -> PROVE (lake build + axiom audit) -> CORR/ORACLE (harness vs driver) -> REPORT',
    'not_applicable': na,
}
json.dump(m, open('/verif/MANIFEST.json', 'w'), indent=1)
print('claimed', [c['property_id'] for c in checks])

#!/bin/bash
# usage: seed_run.sh <seed-id> <prop> [<prop>...]   -- applies seeded/<id>/patch.diff to /repo, runs the checks, reverts
ID=$1; shift
cd /verif
git -C /repo diff --quiet || { echo "/repo not clean"; exit 2; }
rm -rf /tmp/evidence_keep && cp -r /verif/evidence /tmp/evidence_keep
git -C /repo apply /verif/seeded/$ID/patch.diff || exit 2
for P in "$@"; do
  ./check $P --tier quick > /tmp/seedrun_${ID}_$P.log 2>&1; RC=$?
  echo "seed=$ID check=$P rc=$RC :: $(grep -E 'VIOLATION|KNOWN' /tmp/seedrun_${ID}_$P.log | head -2 | tr '\n' ' ')"
done
git -C /repo checkout -- . && git -C /repo clean -fdq -- test/testdata && git -C /repo status --short | head
rm -rf /verif/evidence && mv /tmp/evidence_keep /verif/evidence
# regenerate the facts for the unchanged tree
(cd /verif && ./check --facts > /dev/null)

#!/bin/sh
# setup_cmd: offline build of the fact extractor, the correspondence harness (plain and -race),
# the regenerated Lean tables, every Lean module (all theorems) and the driver executable.
set -e
cd /verif
exec ./check --setup

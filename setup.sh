#!/bin/sh
set -e
cd /verif/lean && lake build

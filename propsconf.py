"""Per-property configuration of ./check (text that goes into the evidence files; which harness build to use)."""

TRUSTED_BASE = [
    "Lean 4.33.0 kernel (thorough tier: leanchecker re-check of the compiled module)",
    "axioms: at most propext, Classical.choice, Quot.sound (audited with #print axioms on every run); no native_decide, bv_decide, sorry, own axioms",
    "correspondence harness /verif/go/harness (projection Go object -> model JSON, canonicalisation, generators)",
    "fact extractor /verif/go/factx (regenerates Psa/Generated/*.lean from /repo's working tree)",
    "Lean compiler + Lean.Data.Json for the driver executable (runs the same definitions the kernel checked)",
]

HOOK_COMMITS = []
NOT_APPLICABLE = {}

PROPS = {
    'C02': {
        'level_text': "Theorems C02_baseline / C02_restricted: for every pod (restricted: every API-valid pod) and every version (latest, every v1.N) the model evaluator's verdict equals the declaratively transcribed Standard; the model goes through the loop-level registry model (C04_resolves). Tables and registration metadata are regenerated from /repo and proved equal to the published ones by decide; every revision and evaluation is differentially compared with the real code.",
        'level_note': "Trusted: Lean kernel; transcription of the Standard; factx; harness projection and generators; Lean compiler for the driver. Strings valid UTF-8; versions latest or v1.N.",
        'rule': "pods from a compliant/bare/windows skeleton + 0-6 field atoms (every listed value, near misses, unlisted values, nil/empty/set), "
                "10% API-invalid stream; each pod: every shipped revision separately (checkRev) and both levels at revision-threshold versions, max+1, max+2, latest (evalPod). "
                "distinct_nontrivial = distinct projected pods on which at least one revision denies and at least one allows",
        'trusted': ["the Standard as transcribed in Psa/Standard.lean, Psa/C02.lean (Std.baseline/Std.restricted) and Psa/StandardTables.lean"],
        'assumptions': ["strings are valid UTF-8 (JSON transport)", "requested versions are latest or v1.N; registered revisions have major version 1"],
    },
    'C03': {
        'level_text': "Theorem C03_order (restricted => baseline for every API-valid pod at every version, via the Standard refinement and two decidable side conditions on the regenerated tables) and C03_privileged (nothing runs); verdict bits compared with the real evaluator, relational oracle on the real code.",
        'level_note': "Same trusted base as C02 except that only the side conditions (hostPath not an allowed volume type; restricted add-list within the baseline list), not the full table equality, are needed.",
        'rule': "same pod generator; both levels at every sampled version on the real evaluator; relational oracle restricted=>baseline on API-valid pods; privileged runs nothing. "
                "distinct_nontrivial = distinct (pod, version) pairs allowed at restricted",
        'assumptions': ["API-valid pods only (the hypothesis is necessary: the API-invalid stream shows counterexamples)"],
    },
    'C04': {
        'level_text': "Theorem C04_resolves, generic in the payload type: for every well-formed check set, level and requested version (latest or v1.N, N unbounded) the loop-level model of populate/inflateVersions/EvaluatePod returns exactly the resolution rule `spec` at the version clamped to the newest revision; C04_privileged; C04_latest_is_newest. Random valid and malformed check sets with marker functions are run through the real NewEvaluator and compared with the model and with an independent Go transcription of the rule and of the malformedness list.",
        'level_note': "Trusted: Lean kernel; harness. Domain: revisions with major version 1 (a revision with another major makes the real NewEvaluator loop forever; outside the property's list). validateChecks <-> WellFormed is compared differentially and against the Go oracle, not yet proved.",
        'rule': "random check sets (0-6 checks, ids with duplicates, valid/invalid levels, 0-4 revisions increasing / equal / decreasing / unset / latest, overrides to baseline / restricted / missing ids / by baseline checks); 60% valid; each accepted set queried at 3 levels x v1.0..v1.14, latest, v1.1000000. distinct_nontrivial = accepted sets with an override and a multi-revision check",
    },
    'C05': {
        'level_text': "Theorems C05_level_iff/roundtrip, C05_version_iff/roundtrip/print_parse (all strings; canonical v1.N within int64), C05_policy and C05_errors (PolicyToEvaluate = the fail-safe rule stated outright, for all label maps and defaults), C05_only_six, fail-closed/open corollaries. Strings and label maps compared with the real ParseLevel/ParseVersion/PolicyToEvaluate and with an independent Go transcription of the rule.",
        'level_note': "Trusted: Lean kernel; harness. Strings are byte lists (valid UTF-8 over the JSON transport). Go's regexp and strconv.Atoi are modelled (canonical decimal, <= 2^63-1) and tied by the differential run, not verified.",
        'rule': "all catalogued valid/malformed version and level strings + mutated strings (delete/insert/replace/append/prepend, huge minors); label maps with each of six labels absent / valid / malformed plus unrelated and near-miss keys x random defaults. distinct_nontrivial = distinct accepted version strings + label maps with > 2 labels",
    },
    'C13': {
        'claimed': False,
        'level_text': "", 'level_note': "",
        'rule': "same pod generator; reason/detail bytes of every revision and of every evaluation compared with the model's rendering; direct oracles on the Go output: "
                "no empty/placeholder/duplicate reason, fixed check order, quoted names are offenders. distinct_nontrivial = (pod, level, version) with >= 2 violated controls",
        'assumptions': ["message text alphabet: printable ASCII, the Go escapes, a few printable non-ASCII runes"],
    },
    'C14': {
        'claimed': False,
        'level_text': "", 'level_note': "",
        'race': True,
        'rule': "pods forced to carry several offending annotations / capabilities / ports; evaluated 1+8 times serially and from 16 goroutines under the race detector; pod deep-equal to its copy; "
                "model evaluated on two iteration orders of the annotation map must give Go's bytes. distinct_nontrivial = pods",
        'assumptions': ["data-race freedom is observed with the Go race detector, not proved"],
    },
    'C19': {
        'level_text': "Theorems C19_off / C19_on_frame / C19_on_three_waived / C19_on_others and their lift to whole evaluations: for every pod, revision, level and version the relaxation switch changes nothing unless hostUsers=false and then only procMount, runAsNonRoot, runAsUser (which allow). Every revision x switch x hostUsers value compared with the real code with the real process-wide switch toggled.",
        'level_note': "Trusted: Lean kernel, harness, that the model's relax parameter is the code's atomic switch (checked by the differential run with the switch toggled).",
        'rule': "every shipped revision x relaxation on/off x hostUsers unset/true/false on generated pods; frame conditions checked relationally on the real code and against the model. "
                "distinct_nontrivial = (pod, control) pairs where the relaxation actually flipped a denial",
    },
}

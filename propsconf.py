"""Per-property configuration of ./check (text that goes into the evidence files; which harness build to use)."""

TRUSTED_BASE = [
    "Lean 4.33.0 kernel (thorough tier: leanchecker re-check of the compiled module)",
    "axioms: at most propext, Classical.choice, Quot.sound (audited with #print axioms on every run); no native_decide, bv_decide, sorry, own axioms",
    "correspondence harness /verif/go/harness (projection Go object -> model JSON, canonicalisation, generators)",
    "fact extractor /verif/go/factx (regenerates Psa/Generated/*.lean from /repo's working tree)",
    "Lean compiler + Lean.Data.Json for the driver executable (runs the same definitions the kernel checked)",
]

HOOK_COMMITS = []
NOT_APPLICABLE = {}

PROPS = {
    'C02': {
        'level_text': "Theorems C02_baseline / C02_restricted: for every pod (restricted: every API-valid pod) and every version (latest, every v1.N) the model evaluator's verdict equals the declaratively transcribed Standard; the model goes through the loop-level registry model (C04_resolves). Tables and registration metadata are regenerated from /repo and proved equal to the published ones by decide; every revision and evaluation is differentially compared with the real code.",
        'level_note': "Trusted: Lean kernel; transcription of the Standard; factx; harness projection and generators; Lean compiler for the driver. Strings valid UTF-8; versions latest or v1.N.",
        'rule': "pods from a compliant/bare/windows skeleton + 0-6 field atoms (every listed value, near misses, unlisted values, nil/empty/set), "
                "10% API-invalid stream; each pod: every shipped revision separately (checkRev) and both levels at revision-threshold versions, max+1, max+2, latest (evalPod). "
                "distinct_nontrivial = distinct projected pods on which at least one revision denies and at least one allows",
        'trusted': ["the Standard as transcribed in Psa/Standard.lean, Psa/C02.lean (Std.baseline/Std.restricted) and Psa/StandardTables.lean"],
        'assumptions': ["strings are valid UTF-8 (JSON transport)", "requested versions are latest or v1.N; registered revisions have major version 1"],
    },
    'C03': {
        'level_text': "Theorem C03_order (restricted => baseline for every API-valid pod at every version, via the Standard refinement and two decidable side conditions on the regenerated tables) and C03_privileged (nothing runs); verdict bits compared with the real evaluator, relational oracle on the real code.",
        'level_note': "Same trusted base as C02 except that only the side conditions (hostPath not an allowed volume type; restricted add-list within the baseline list), not the full table equality, are needed.",
        'rule': "same pod generator; both levels at every sampled version on the real evaluator; relational oracle restricted=>baseline on API-valid pods; privileged runs nothing. "
                "distinct_nontrivial = distinct (pod, version) pairs allowed at restricted",
        'assumptions': ["API-valid pods only (the hypothesis is necessary: the API-invalid stream shows counterexamples)"],
    },
    'C13': {
        'claimed': False,
        'level_text': "", 'level_note': "",
        'rule': "same pod generator; reason/detail bytes of every revision and of every evaluation compared with the model's rendering; direct oracles on the Go output: "
                "no empty/placeholder/duplicate reason, fixed check order, quoted names are offenders. distinct_nontrivial = (pod, level, version) with >= 2 violated controls",
        'assumptions': ["message text alphabet: printable ASCII, the Go escapes, a few printable non-ASCII runes"],
    },
    'C14': {
        'claimed': False,
        'level_text': "", 'level_note': "",
        'race': True,
        'rule': "pods forced to carry several offending annotations / capabilities / ports; evaluated 1+8 times serially and from 16 goroutines under the race detector; pod deep-equal to its copy; "
                "model evaluated on two iteration orders of the annotation map must give Go's bytes. distinct_nontrivial = pods",
        'assumptions': ["data-race freedom is observed with the Go race detector, not proved"],
    },
    'C19': {
        'level_text': "Theorems C19_off / C19_on_frame / C19_on_three_waived / C19_on_others and their lift to whole evaluations: for every pod, revision, level and version the relaxation switch changes nothing unless hostUsers=false and then only procMount, runAsNonRoot, runAsUser (which allow). Every revision x switch x hostUsers value compared with the real code with the real process-wide switch toggled.",
        'level_note': "Trusted: Lean kernel, harness, that the model's relax parameter is the code's atomic switch (checked by the differential run with the switch toggled).",
        'rule': "every shipped revision x relaxation on/off x hostUsers unset/true/false on generated pods; frame conditions checked relationally on the real code and against the model. "
                "distinct_nontrivial = (pod, control) pairs where the relaxation actually flipped a denial",
    },
}

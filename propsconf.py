"""Per-property configuration of ./check (text that goes into the evidence files; which harness build to use)."""

TRUSTED_BASE = [
    "Lean 4.33.0 kernel (thorough tier: leanchecker re-check of the compiled module)",
    "axioms: at most propext, Classical.choice, Quot.sound (audited with #print axioms on every run); no native_decide, bv_decide, sorry, own axioms",
    "correspondence harness /verif/go/harness (projection Go object -> model JSON, canonicalisation, generators)",
    "fact extractor /verif/go/factx (regenerates Psa/Generated/*.lean from /repo's working tree)",
    "Lean compiler + Lean.Data.Json for the driver executable (runs the same definitions the kernel checked)",
]

HOOK_COMMITS = ['29c34ddaf3812206b80b304f6abbacb43e4cae90', '93cc9ce726e1507a1c511438d2de9813e612090d', 'd22ecd6dd600c9f8c9b8a5a371d3a6efae140d03']
NOT_APPLICABLE = {}

PROPS = {
    'C02': {
        'level_text': "Theorems C02_baseline / C02_restricted: for every pod (restricted: every API-valid pod) and every version (latest, every v1.N) the model evaluator's verdict equals the declaratively transcribed Standard; the model goes through the loop-level registry model (C04_resolves). Tables and registration metadata are regenerated from /repo and proved equal to the published ones by decide; every revision and evaluation is differentially compared with the real code.",
        'level_note': "Trusted: Lean kernel; transcription of the Standard; factx; harness projection and generators; Lean compiler for the driver. Strings valid UTF-8; versions latest or v1.N.",
        'rule': "pods from a compliant/bare/windows skeleton + 0-6 field atoms (every listed value, near misses, unlisted values, nil/empty/set), "
                "10% API-invalid stream; each pod: every shipped revision separately (checkRev) and both levels at revision-threshold versions, max+1, max+2, latest (evalPod). "
                "distinct_nontrivial = distinct projected pods on which at least one revision denies and at least one allows",
        'trusted': ["the Standard as transcribed in Psa/Standard.lean, Psa/C02.lean (Std.baseline/Std.restricted) and Psa/StandardTables.lean"],
        'assumptions': ["strings are valid UTF-8 (JSON transport)", "requested versions are latest or v1.N; registered revisions have major version 1"],
    },
    'C03': {
        'level_text': "Theorem C03_order (restricted => baseline for every API-valid pod at every version, via the Standard refinement and two decidable side conditions on the regenerated tables) and C03_privileged (nothing runs); verdict bits compared with the real evaluator, relational oracle on the real code.",
        'level_note': "Same trusted base as C02 except that only the side conditions (hostPath not an allowed volume type; restricted add-list within the baseline list), not the full table equality, are needed.",
        'rule': "same pod generator; both levels at every sampled version on the real evaluator; relational oracle restricted=>baseline on API-valid pods; privileged runs nothing. "
                "distinct_nontrivial = distinct (pod, version) pairs allowed at restricted",
        'assumptions': ["API-valid pods only (the hypothesis is necessary: the API-invalid stream shows counterexamples)"],
    },
    'C04': {
        'level_text': "Theorem C04_resolves, generic in the payload type: for every well-formed check set, level and requested version (latest or v1.N, N unbounded) the loop-level model of populate/inflateVersions/EvaluatePod returns exactly the resolution rule `spec` at the version clamped to the newest revision; C04_privileged; C04_latest_is_newest; C04_refuses: the validator accepts a check set if and only if it is well formed (distinct ids, level baseline/restricted, non-empty strictly increasing proper v1.N revisions, overrides only by restricted checks and only of baseline checks), and C04_accepted_resolves composes the two. Random valid and malformed check sets with marker functions are run through the real NewEvaluator and compared with the model and with an independent Go transcription of the rule and of the malformedness list.",
        'level_note': "Trusted: Lean kernel; harness. Domain: revisions with major version 1 (a revision with another major makes the real NewEvaluator loop forever; outside the property's list). C04_refuses is proved on that same domain (revision versions latest / zero value / v1.N).",
        'rule': "random check sets (0-6 checks, ids with duplicates, valid/invalid levels, 0-4 revisions increasing / equal / decreasing / unset / latest, overrides to baseline / restricted / missing ids / by baseline checks); 60% valid; each accepted set queried at 3 levels x v1.0..v1.14, latest, v1.1000000. distinct_nontrivial = accepted sets with an override and a multi-revision check",
    },
    'C05': {
        'level_text': "Theorems C05_level_iff/roundtrip, C05_version_iff/roundtrip/print_parse (all strings; canonical v1.N within int64), C05_policy and C05_errors (PolicyToEvaluate = the fail-safe rule stated outright, for all label maps and defaults), C05_only_six, fail-closed/open corollaries. Strings and label maps compared with the real ParseLevel/ParseVersion/PolicyToEvaluate and with an independent Go transcription of the rule.",
        'level_note': "Trusted: Lean kernel; harness. Strings are byte lists (valid UTF-8 over the JSON transport). Go's regexp and strconv.Atoi are modelled (canonical decimal, <= 2^63-1) and tied by the differential run, not verified.",
        'rule': "all catalogued valid/malformed version and level strings + mutated strings (delete/insert/replace/append/prepend, huge minors); label maps with each of six labels absent / valid / malformed plus unrelated and near-miss keys x random defaults. distinct_nontrivial = distinct accepted version strings + label maps with > 2 labels",
    },
    'C01': {
        'level_text': "Theorems C01_verdict / C01_status / C01_annotation over the admission model for every configuration, label map, evaluator, request and pod (allowed <=> the enforce policy the labels resolve to allows; a denial is a 403 naming that level:version; the enforce-policy annotation names it), and C01_standard_restricted composing with C02. The model's Validate is compared observably (allowed, code, message, annotations) with the real Admission.Validate on generated requests with real and synthetic evaluators; an independent Go oracle recomputes the expected verdict from PolicyToEvaluate and the evaluator.",
        'level_note': "Trusted: Lean kernel; harness; apierrors.NewForbidden status shape (compared, not verified). Dependencies (namespace getter, decoder) are explicit inputs of the model.",
        'rule': "pod CREATE/UPDATE requests: random defaults, six labels absent/valid/malformed, exemption lists with near misses, old/new pod pairs, 15% subresources, 3% faults, real (70%) or synthetic evaluator. distinct_nontrivial = distinct requests whose response is not the plain shared allow",
    },
    'C06': {
        'level_text': "Theorems C06_exact (exact non-empty membership), C06_only_pod / C06_only_ctl (an exempt annotation implies its own dimension matches), C06_bypass_* (a match allows without evaluating and annotates), C06_dryrun_skips (prioritised pods are a permutation of the non-exempt listing) for all lists and triples; compared with the real code on near-miss, cross-list, empty and nil values.",
        'level_note': "Trusted: Lean kernel; harness. Exemption lists are plain string lists as in the configuration type.",
        'rule': "pods, all controller kinds and namespace dry runs with exemption lists drawn from a pool shared between the three dimensions (so cross-list matches occur), values exact / prefix / extension / case-folded / padded / empty / nil. distinct_nontrivial = distinct requests with a non-plain response",
    },
    'C07': {
        'level_text': "Theorems C07_pod_closed (an allowed pod request is ignored, exempt, fully privileged with clean labels, insignificant, runtime-class exempt or evaluated-and-passed; never a fault), C07_pod_ns_lookup / C07_pod_bad_object (each fault site denies and flags), C07_controller_* (allowed + error annotation), C07_ns_bad_body, C07_ns_never_blocked_by_pods, C07_labels_evaluated; the fault product is enumerated against the real code.",
        'level_note': "Trusted: Lean kernel; harness. A fault is an input of the model (Except values); how a real informer or decoder fails is outside it. Found and fixed: nil controller object panic (known_findings.json).",
        'rule': "60% of requests carry a fault at one of: namespace lookup, object decode, object type (incl. nil), old-object decode, old-object type, pod listing; x pods / controllers / namespaces x policies. distinct_nontrivial = distinct requests with a non-plain response",
    },
    'C08': {
        'level_text': "Theorems C08_nonblocking, C08_audit, C08_warn, C08_denied_no_warning for every evaluator, every policy triple (coinciding level:versions share the modelled cachedResults map) and enforce on/off; compared with the real EvaluatePod through synthetic evaluators whose reasons embed level:version, plus a relational run that changes only audit/warn labels. C08_cache_calls: the evaluator runs once per distinct policy among enforce / audit / warn. Every sweep also replays its requests, in groups, through one long-lived controller and compares with the fresh-controller responses.",
        'level_note': "Trusted: Lean kernel; harness.",
        'rule': "pods and controllers, real and synthetic evaluators, labels with pinned versions so that enforce/audit/warn coincide or differ; each evaluated request re-run with random audit/warn labels. distinct_nontrivial = distinct requests with a non-plain response",
    },
    'C09': {
        'level_text': "Theorems C09_allowed (never denied, no status), C09_same_findings (warnings and audit annotation equal those of the bare pod under the same audit/warn with privileged enforce), C09_quiet_* ; each generated template is wrapped in all eight kinds against the real code and compared with the equivalent bare pod.",
        'level_note': "Trusted: Lean kernel; harness; the model treats the eight kinds uniformly after ExtractPodSpec (the type switch is exercised kind by kind).",
        'rule': "controller requests over the eight kinds (incl. ReplicationController without template), subresources, faults; each compared with the bare pod in a namespace with enforce=privileged. distinct_nontrivial = distinct requests with a non-plain response",
    },
    'C10': {
        'level_text': "Theorems C10_significant_iff (exact characterisation), C10_insignificant, C10_significant (= create), C10_subresource (any non-ignored subresource = main resource), C10_ignored_names; old/new pairs x subresource names compared with the real code and relationally (update vs create, subresource vs none).",
        'level_note': "Trusted: Lean kernel; harness.",
        'rule': "old/new pod pairs: identical, metadata-only, image change in each container kind, containers added/removed, ephemeral renamed/reordered, security field only; 45% with a subresource from the 8 ignored + 6 others. distinct_nontrivial = distinct requests with a non-plain response",
    },
    'C11': {
        'level_text': "Theorems C11_create, C11_update (422 iff), C11_never_pods, C11_dryrun_when, C11_skip_rule, C11_skip_sound (via C03, shipped evaluator), C11_complete (lines = sorted groups with lexically first name and exact count), C11_order_independent (List.Perm of the listing) ; namespace requests with populations compared with the real code, a reference grouping and permuted listings.",
        'level_note': "Trusted: Lean kernel; harness; identity of 'a set of violated controls' is the aggregate reason text the line prints.",
        'rule': "namespace CREATE/UPDATE with old/new label pairs (valid, invalid, same-invalid), populations of 0-14 pods (thorough: also 2999-3100) with owners, runtime classes, duplicate names; synthetic (70%) and real evaluators. distinct_nontrivial = distinct requests with a non-plain response",
    },
    'C12': {
        'race': False,
        'level_text': "Theorems C12_timeout (= min(default, remaining/2)), C12_cap, C12_siblings_after, C12_honest and C12_checked for every expiry index, C12_reports_checked_only; the real dry run is cancelled from inside the k-th evaluation for random k, with populations around the 3000 cap, and its warnings, call count and lister deadline compared with the model and a reference.",
        'level_note': "Trusted: Lean kernel; harness. Not modelled: that the Go runtime fires the deadline on time (the harness only observes the deadline handed to the lister, +-60 ms).",
        'rule': "namespace updates that trigger the dry run; populations 0-12 and 2999/3000/3001/3100; expiry index none / 0..n+1 / around the cap; request deadlines none, 0.2-10 s. distinct_nontrivial = distinct requests with a non-plain response",
    },
    'C15': {
        'race': True,
        'level_text': "Theorems C15_sequence / C15_interleaving (the model controller's only state, the shared response cells, is never written; every history and interleaving gives each request its solo response) and the regenerated structural obligations C15_responses_fresh (F6: every store to an AdmissionResponse field in package admission goes through a fresh response; shared ones are written by init only) C15_no_global_state (F8) and C15_no_receiver_state (F9: no method writes through its receiver or into package-level maps / sync state outside CompleteConfiguration, so the controller keeps no cache between requests). The repository's own client-backed NamespaceGetter / PodLister are run in front of a slow fake API server with overlapping requests, some of which give up early; one real Admission handles random request batches sequentially and from 16 goroutines under the race detector; every response is DeepEqual-compared with a fresh controller's. C15_shared_responses_never_written: in the store machine whose program is the regenerated list of stores to AdmissionResponse fields, every schedule of every number of handlers leaves the shared responses unchanged.",
        'level_note': "Trusted: Lean kernel; factx's go/ssa origin analysis; harness. The model is stateless by construction, so the substance of the tie is the structural facts plus the runtime comparison. Partial: data-race freedom is observed, not proved.",
        'rule': "batches of 48 mixed pod / controller / namespace requests over a 6-namespace cluster (several namespaces share an effective policy, some with fail-open label typos), real evaluator; 2 sequential passes in random order + 16 concurrent passes per batch. distinct_nontrivial = requests",
    },
    'C16': {
        'race': True,
        'level_text': "Theorems C16_uid (interleaving machine of HandleValidate: for every number of in-flight reviews and every schedule each answer carries its own uid, in the `copies` variant), C16_variant_is_copies (fact F6: the code stores the UID through a fresh object), C16_buggy_witness (the pre-fix variant fails on a 5-step schedule), C16_malformed / C16_wellformed (request screening), C16_limit. The real handler is driven over HTTP by 16 concurrent clients under the race detector: pod reviews with unique uids, 1200 mixed reviews (controllers, namespaces with populations, subresources, undecodable / absent objects, request noise) whose whole decision is compared with the library's on the equivalent attributes, every malformed class, and good reviews padded to the size limit sent with a Content-Length and streamed.",
        'level_note': "Trusted: Lean kernel; harness; factx's origin analysis. Partial: net/http, JSON codec and goroutine scheduling are not modelled (sequentially consistent interleaving of three atomic steps per request); data races are observed with the race detector. Two genuine defects were found and fixed (known_findings.json).",
        'rule': "16 clients x N pod CREATE/UPDATE reviews with unique uids over privileged (shared response), exempt, baseline, restricted and malformed-label namespaces; 16 malformed classes (sizes around 3 MiB, content types, undecodable, v1beta1, other kind, no request). distinct_nontrivial = reviews sent",
    },
    'C17': {
        'level_text': "Theorems C17_versions (a document loads identically under each served version), C17_defaults / C17_empty_is_all_defaults, C17_strict_top / C17_strict_version / C17_strict_defaults (unknown or duplicated keys, wrong kind, unserved version are errors), C17_validate_iff (validation accepts exactly: six defaults parse, namespaces are DNS labels, runtime classes DNS subdomains, user names non-empty, no duplicates), C17_chain (accepted => ToPolicy succeeds field for field and an unlabeled namespace resolves to it). Document trees rendered as JSON and YAML are loaded and validated by the real code and compared with the model. Set-up (Psa/Setup.lean): C17_setup_iff (a controller with every dependency completes and validates iff the configuration validates), C17_setup_enforces_stated, C17_webhook_setup (the webhook's LoadConfig+Setup serves iff the file loads and validates, then with the stated policy and exemptions; otherwise it refuses), C17_validate_needs_complete, C17_validate_detects_exchange; the real options -> LoadConfig -> Setup -> HandleValidate chain is run from configuration files against a fake API server and its verdicts compared with the model fed the stated strings.",
        'level_note': "Trusted: Lean kernel; harness. Modelled, not verified: the strict universal decoder's treatment of document trees (known keys, duplicates, null, wrong JSON types, case-sensitive keys) -- tied differentially; the JSON/YAML tokenizers (multi-document YAML, anchors, encodings) are outside the model. One genuine defect found and fixed (known_findings.json).",
        'rule': "structurally valid documents (any subset of fields; valid and invalid values; names around the DNS length limits) plus 0-2 structural defects out of 14 kinds; a mostly-valid stream for the set-up chain (files on disk, JSON and YAML, no file, empty file; six pod reviews per serving webhook: unlabelled namespace, exempt namespace / user / runtime class as stated); hand-assembled controllers over every subset of dependencies, with / without CompleteConfiguration, configuration exchanged after completion; every catalogued served / unserved apiVersion on a minimal and a full document; each document as JSON and YAML and, when served, re-loaded under the other served versions. distinct_nontrivial = distinct documents that load",
    },
    'C18': {
        'race': True,
        'level_text': "Theorems C18_pod / C18_controller (ExactlyOnce: enforce evaluation iff enforce-policy annotation, with the response's decision; exemption iff exempt; error iff flagged; audit/warn denial iff reported; nothing else) and C18_namespace, C18_label_bounded / C18_label_finite, C18_counts / C18_counts_perm / C18_reset; metric event lists of the real code compared with the model; the real PrometheusRecorder is driven from 16 goroutines and gathered. C18_cache_refines / C18_cache_after_reset: the handle-cache machine of the cached counter vectors (CachedInc, Reset + populateCache) refines the plain counter map for every history and every set of cached tuples; the driver runs that machine against the real Prometheus recorder.",
        'level_note': "Trusted: Lean kernel; harness. Not modelled: atomicity of Prometheus counters (observed under the race detector in the recorder run).",
        'rule': "mixed requests with 15% faults; recorder run: random events from 16 goroutines with Reset barriers. distinct_nontrivial = distinct requests with a non-plain response",
    },
    'C13': {
        'level_text': "Theorems C13_fixed_order (revisions and their order depend on level:version only), C13_reason_specific (never empty / placeholder), C13_once (no two violated controls share a reason, for every level, version, pod -- from the decided fact that co-active revisions have distinct reason keys), C13_mk_fields / C13_*_offenders / C13_offenders_are_violators (listed names = names of the objects violating the control's predicate), detail shapes; reason and detail bytes of every revision and evaluation compared with the real code. C13_detail_names_offenders: for all eighteen detail shapes, every revision and every pod, the rendered detail contains between quotes the name of every container / volume the structured result lists. C13_detail_names_only: conversely, when the reported names and values are free of the quote byte, every string between quotes in the detail is a listed offender or one of the values the control quotes (Psa/QuoteShapes, QuoteProofs, QuoteMain: a quote-segment scanner over the rendered bytes, all eighteen shapes).",
        'level_note': "Trusted: Lean kernel; harness; Go's %q modelled for printable ASCII, the named escapes and a few non-ASCII runes. A harmless rewording of a message breaks this correspondence by design (reported with no-failing-input-found).",
        'rule': "same pod generator; reason/detail bytes of every revision and of every evaluation compared with the model's rendering; direct oracles on the Go output: "
                "no empty/placeholder/duplicate reason, fixed check order, quoted names are offenders. distinct_nontrivial = (pod, level, version) with >= 2 violated controls",
        'assumptions': ["message text alphabet: printable ASCII, the Go escapes, a few printable non-ASCII runes"],
    },
    'C14': {
        'level_text': "Theorems C14_rev_order_independent / C14_order_independent: every revision and every evaluation (verdict, reason and detail bytes) is invariant under permutation of the annotation map's entries, the only map the checks iterate; C14_values_canonical (value sets rendered through a sort that forgets order and multiplicity). The real evaluator is run 1+8 times serially and from 16 goroutines under the race detector, the pod compared with a deep copy, and the bytes compared with the model fed two iteration orders. C14_evaluator_immutable (F9: package policy writes no state that outlives a call). Fresh evaluators are hit by bursts of 16 first evaluations and every pod is also evaluated on an evaluator built for it alone. Every slice of an evaluated pod has spare capacity whose content is checked afterwards; the informer-backed PodLister / lister-backed NamespaceGetter are run over cache objects that must stay untouched. F5 also counts append() to a slice reached from the pod.",
        'level_note': "Trusted: Lean kernel; harness. Partial: absence of data races and of writes through the pod pointers is observed (race detector, DeepEqual), not proved in Lean.",
        'race': True,
        'rule': "pods forced to carry several offending annotations / capabilities / ports; evaluated 1+8 times serially and from 16 goroutines under the race detector; pod deep-equal to its copy; "
                "model evaluated on two iteration orders of the annotation map must give Go's bytes. distinct_nontrivial = pods",
        'assumptions': ["data-race freedom is observed with the Go race detector, not proved"],
    },
    'C19': {
        'level_text': "Theorems C19_off / C19_on_frame / C19_on_three_waived / C19_on_others and their lift to whole evaluations: for every pod, revision, level and version the relaxation switch changes nothing unless hostUsers=false and then only procMount, runAsNonRoot, runAsUser (which allow); C19_switch_last_call / C19_off_after_history: after any history of setter calls the switch is what the administrator's last call said, and C19_switch_is_plain_store (F9) ties that to the code. Every revision x switch x hostUsers value compared with the real code with the real process-wide switch toggled, and every setter call sequence up to length 5 run on the real switch.",
        'level_note': "Trusted: Lean kernel, harness, that the model's relax parameter is the code's atomic switch (checked by the differential run with the switch toggled).",
        'rule': "every shipped revision x relaxation on/off x hostUsers unset/true/false on generated pods; frame conditions checked relationally on the real code and against the model. "
                "distinct_nontrivial = (pod, control) pairs where the relaxation actually flipped a denial",
    },
    'C20': {
        'level_text': "Theorem C20_fixtures_agree: every distinct published fixture (level, revision signature of the version, control, pass/fail, pod), re-extracted from package test on every run into Psa/Fixtures/F*.lean, satisfies fixtureOk -- pass fixtures allowed, fail fixtures rejected by the named control or its overrider, after the modelled API defaulting -- by kernel evaluation of the whole finite table (16 chunks). The real evaluator is run on every one of the ~3800 fixtures at its own level and version, the serialized YAML is decoded and compared semantically with the generator's pod, and the file set is compared.",
        'level_note': "Trusted: Lean kernel; harness (projection of the fixture pods into Lean terms, checked by the differential run on the same fixtures); the one API-server defaulting rule modelled (a volume without a source becomes an emptyDir) -- the defaulting code lives in k8s.io/kubernetes, outside this repository.",
        'rule': "all fixtures of all levels x versions v1.0..newest x controls from the in-memory generators (through the verif hook) and from test/testdata; thorough: the newest version's fixtures also at newest+1, newest+2, latest. distinct_nontrivial = distinct (level, signature, control, kind, pod) obligations",
    },
}

import Psa.Str
namespace PSA

/-- most-significant-first decimal digits (as numbers 0..9). -/
def decDigits (n : Nat) : List Nat :=
  if h : n < 10 then [n] else decDigits (n / 10) ++ [n % 10]
termination_by n
decreasing_by omega

def itoa (n : Nat) : Str := (decDigits n).map (· + 48)

/-- strconv.Itoa / %d on signed integers -/
def itoaInt (i : Int) : Str := if i < 0 then 45 :: itoa i.natAbs else itoa i.natAbs

def isDigit (c : Nat) : Bool := 48 ≤ c && c ≤ 57

/-- value of a digit string, left fold. -/
def digitsVal (ds : List Nat) : Nat := ds.foldl (fun a d => a * 10 + (d - 48)) 0

/-- Go's regexp `([0-9]|[1-9][0-9]*)` anchored: canonical decimal. -/
def canonicalDec (s : Str) : Bool :=
  match s with
  | [] => false
  | [d] => isDigit d
  | d :: ds => isDigit d && d != 48 && ds.all isDigit

theorem decDigits_lt (n : Nat) : ∀ d ∈ decDigits n, d < 10 := by
  induction n using Nat.strongRecOn with
  | _ n ih =>
    unfold decDigits
    split
    · intro d hd; simp at hd; omega
    · intro d hd
      simp only [List.mem_append, List.mem_singleton] at hd
      rcases hd with hd | hd
      · exact ih (n / 10) (by omega) d hd
      · omega

theorem digitsVal_append (a : List Nat) (d : Nat) :
    digitsVal (a ++ [d]) = digitsVal a * 10 + (d - 48) := by
  simp [digitsVal, List.foldl_append]

theorem digitsVal_itoa (n : Nat) : digitsVal (itoa n) = n := by
  induction n using Nat.strongRecOn with
  | _ n ih =>
    unfold itoa decDigits
    split
    · simp [digitsVal]
    · rename_i h
      have := ih (n / 10) (by omega)
      unfold itoa at this
      simp only [List.map_append, List.map_cons, List.map_nil]
      rw [digitsVal_append, this]
      omega

theorem decDigits_ne_nil (n : Nat) : decDigits n ≠ [] := by
  unfold decDigits; split <;> simp

theorem decDigits_head_pos (n : Nat) (h : 10 ≤ n) : ∀ d, (decDigits n).head? = some d → d ≠ 0 := by
  induction n using Nat.strongRecOn with
  | _ n ih =>
    intro d hd
    unfold decDigits at hd
    split at hd
    · omega
    · by_cases h2 : n / 10 < 10
      · have : decDigits (n/10) = [n/10] := by unfold decDigits; simp [h2]
        rw [this] at hd; simp at hd; omega
      · have hne := decDigits_ne_nil (n/10)
        cases hdd : decDigits (n/10) with
        | nil => exact absurd hdd hne
        | cons x xs =>
          rw [hdd] at hd
          simp only [List.cons_append, List.head?_cons, Option.some.injEq] at hd
          exact ih (n/10) (by omega) (by omega) d (by rw [hdd]; simp [hd])

end PSA

namespace PSA

/-! ### canonical decimals print back to themselves -/

theorem digitsVal_nil : digitsVal [] = 0 := rfl
theorem digitsVal_single (d : Nat) : digitsVal [d] = d - 48 := by simp [digitsVal]

theorem itoa_digit (d : Nat) (h : isDigit d = true) : itoa (d - 48) = [d] := by
  simp only [isDigit, Bool.and_eq_true, decide_eq_true_eq] at h
  unfold itoa decDigits
  have : d - 48 < 10 := by omega
  simp only [this, ↓reduceDIte, List.map_cons, List.map_nil]
  congr 1; omega

/-- a digit string whose first digit is not '0' has a positive value -/
theorem digitsVal_pos (ds : List Nat) (x : Nat) (hx : isDigit x = true) (hx0 : x ≠ 48) :
    1 ≤ digitsVal (x :: ds) := by
  induction ds using snoc_induction with
  | nil =>
    simp only [isDigit, Bool.and_eq_true, decide_eq_true_eq] at hx
    rw [digitsVal_single]; omega
  | snoc ds d ih =>
    rw [← List.cons_append, digitsVal_append]; omega

theorem itoa_digitsVal_cons (ds : List Nat) (x : Nat) (hx : isDigit x = true) (hx0 : x ≠ 48)
    (hds : ds.all isDigit = true) : itoa (digitsVal (x :: ds)) = x :: ds := by
  induction ds using snoc_induction with
  | nil => rw [digitsVal_single]; exact itoa_digit x hx
  | snoc ds d ih =>
    simp only [List.all_append, List.all_cons, List.all_nil, Bool.and_true, Bool.and_eq_true] at hds
    have hd := hds.2
    have ih' := ih hds.1
    have hpos := digitsVal_pos ds x hx hx0
    simp only [isDigit, Bool.and_eq_true, decide_eq_true_eq] at hd
    rw [← List.cons_append, digitsVal_append]
    have hge : ¬ (digitsVal (x :: ds) * 10 + (d - 48) < 10) := by omega
    have hdiv : (digitsVal (x :: ds) * 10 + (d - 48)) / 10 = digitsVal (x :: ds) := by omega
    have hmod : (digitsVal (x :: ds) * 10 + (d - 48)) % 10 = d - 48 := by omega
    unfold itoa at ih' ⊢
    rw [decDigits]
    simp only [hge, ↓reduceDIte, hdiv, hmod, List.map_append, List.map_cons, List.map_nil, ih']
    congr 2; omega

/-- the regexp's canonical decimals are exactly the strings `itoa` prints -/
theorem itoa_digitsVal (s : Str) (h : canonicalDec s = true) : itoa (digitsVal s) = s := by
  match s, h with
  | [d], h => simp only [canonicalDec] at h; rw [digitsVal_single]; exact itoa_digit d h
  | d :: e :: ds, h =>
    simp only [canonicalDec, Bool.and_eq_true, bne_iff_ne, ne_eq] at h
    exact itoa_digitsVal_cons (e :: ds) d h.1.1 h.1.2 h.2

theorem decDigits_all_lt (n : Nat) : (itoa n).all isDigit = true := by
  simp only [itoa, List.all_map, List.all_eq_true]
  intro d hd
  have := decDigits_lt n d hd
  simp [isDigit]; omega

theorem canonicalDec_itoa (n : Nat) : canonicalDec (itoa n) = true := by
  by_cases h : n < 10
  · have : itoa n = [n + 48] := by unfold itoa decDigits; simp [h]
    rw [this]; simp [canonicalDec, isDigit]; omega
  · have hne := decDigits_ne_nil n
    have hall := decDigits_all_lt n
    have hhead := decDigits_head_pos n (by omega)
    unfold itoa at hall ⊢
    cases hd : decDigits n with
    | nil => exact absurd hd hne
    | cons x xs =>
      have hx0 : x ≠ 0 := hhead x (by rw [hd]; rfl)
      rw [hd] at hall
      simp only [List.map_cons, List.all_cons, Bool.and_eq_true] at hall
      cases xs with
      | nil =>
        exfalso
        unfold decDigits at hd
        simp only [h, ↓reduceDIte] at hd
        have := decDigits_ne_nil (n / 10)
        cases h2 : decDigits (n / 10) with
        | nil => exact this h2
        | cons y ys => rw [h2] at hd; simp at hd
      | cons y ys =>
        simp only [List.map_cons, canonicalDec, Bool.and_eq_true, bne_iff_ne, ne_eq]
        refine ⟨⟨hall.1, by omega⟩, ?_⟩
        simpa using hall.2

end PSA

import Psa.Str
namespace PSA

/-- most-significant-first decimal digits (as numbers 0..9). -/
def decDigits (n : Nat) : List Nat :=
  if h : n < 10 then [n] else decDigits (n / 10) ++ [n % 10]
termination_by n
decreasing_by omega

def itoa (n : Nat) : Str := (decDigits n).map (· + 48)

/-- strconv.Itoa / %d on signed integers -/
def itoaInt (i : Int) : Str := if i < 0 then 45 :: itoa i.natAbs else itoa i.natAbs

def isDigit (c : Nat) : Bool := 48 ≤ c && c ≤ 57

/-- value of a digit string, left fold. -/
def digitsVal (ds : List Nat) : Nat := ds.foldl (fun a d => a * 10 + (d - 48)) 0

/-- Go's regexp `([0-9]|[1-9][0-9]*)` anchored: canonical decimal. -/
def canonicalDec (s : Str) : Bool :=
  match s with
  | [] => false
  | [d] => isDigit d
  | d :: ds => isDigit d && d != 48 && ds.all isDigit

theorem decDigits_lt (n : Nat) : ∀ d ∈ decDigits n, d < 10 := by
  induction n using Nat.strongRecOn with
  | _ n ih =>
    unfold decDigits
    split
    · intro d hd; simp at hd; omega
    · intro d hd
      simp only [List.mem_append, List.mem_singleton] at hd
      rcases hd with hd | hd
      · exact ih (n / 10) (by omega) d hd
      · omega

theorem digitsVal_append (a : List Nat) (d : Nat) :
    digitsVal (a ++ [d]) = digitsVal a * 10 + (d - 48) := by
  simp [digitsVal, List.foldl_append]

theorem digitsVal_itoa (n : Nat) : digitsVal (itoa n) = n := by
  induction n using Nat.strongRecOn with
  | _ n ih =>
    unfold itoa decDigits
    split
    · simp [digitsVal]
    · rename_i h
      have := ih (n / 10) (by omega)
      unfold itoa at this
      simp only [List.map_append, List.map_cons, List.map_nil]
      rw [digitsVal_append, this]
      omega

theorem decDigits_ne_nil (n : Nat) : decDigits n ≠ [] := by
  unfold decDigits; split <;> simp

theorem decDigits_head_pos (n : Nat) (h : 10 ≤ n) : ∀ d, (decDigits n).head? = some d → d ≠ 0 := by
  induction n using Nat.strongRecOn with
  | _ n ih =>
    intro d hd
    unfold decDigits at hd
    split at hd
    · omega
    · by_cases h2 : n / 10 < 10
      · have : decDigits (n/10) = [n/10] := by unfold decDigits; simp [h2]
        rw [this] at hd; simp at hd; omega
      · have hne := decDigits_ne_nil (n/10)
        cases hdd : decDigits (n/10) with
        | nil => exact absurd hdd hne
        | cons x xs =>
          rw [hdd] at hd
          simp only [List.cons_append, List.head?_cons, Option.some.injEq] at hd
          exact ih (n/10) (by omega) (by omega) d (by rw [hdd]; simp [hd])

end PSA

import Psa.Webhook
/-! What `HandleValidate` makes of a request body that is a JSON object: the universal deserializer with the default kind
    admission.k8s.io/v1 AdmissionReview (kind detection through encoding/json — keys matched ignoring ASCII case, `null`
    leaves a field as it is; group/version parsing; defaulting of a missing kind / version), the case-sensitive unmarshalling
    into the AdmissionReview, the kind test and the request test. A body is a list of top-level members (so that repeated keys
    are representable); the tokenizer is not modelled — the correspondence renders these trees as JSON text. -/
namespace PSA.Review
open PSA

/-- a top-level member value: what matters of it to the decoder -/
inductive TV
  | null
  | str (s : Str)
  | obj (typed : Bool)      -- an object; `typed` = every field inside has the JSON type the Go field expects
  | other                   -- number, boolean, array
  deriving DecidableEq, Repr

abbrev Top := List (Str × TV)

def lower (c : Nat) : Nat := if 65 ≤ c ∧ c ≤ 90 then c + 32 else c
/-- encoding/json's key matching for ASCII keys -/
def foldEq (a b : Str) : Bool := a.map lower == b.map lower

/-- encoding/json into `struct{ APIVersion string; Kind string }`: members in order, a matching key assigns (a string) or
    leaves the field alone (null) or fails (anything else) -/
def interpretField (name : Str) : Top → Str → Option Str
  | [], cur => some cur
  | (k, v) :: rest, cur =>
    if foldEq k name then
      match v with
      | .null => interpretField name rest cur
      | .str s => interpretField name rest s
      | _ => none
    else interpretField name rest cur

def splitSlash : Str → List Str
  | [] => [[]]
  | c :: rest =>
    match splitSlash rest with
    | [] => [[c]]          -- unreachable
    | seg :: segs => if c = 47 then [] :: seg :: segs else (c :: seg) :: segs

/-- schema.ParseGroupVersion -/
def parseGV (s : Str) : Option (Str × Str) :=
  if s = [] ∨ s = b!"/" then some ([], [])
  else match splitSlash s with
    | [v] => some ([], v)
    | [g, v] => some (g, v)
    | _ => none

def dGroup : Str := b!"admission.k8s.io"
def dVersion : Str := b!"v1"
def dKind : Str := b!"AdmissionReview"

/-- gvkWithDefaults -/
def withDefaults (g v k : Str) : Str × Str × Str :=
  let k' := if k = [] then dKind else k
  let g' := if v = [] ∧ g = [] then dGroup else g
  let v1 := if v = [] ∧ g = [] then dVersion else v
  let v2 := if v1 = [] ∧ g' = dGroup then dVersion else v1
  (g', v2, k')

/-- the kind the body is decoded as; none = the deserializer reports an error -/
def detectKind (doc : Top) : Option (Str × Str × Str) :=
  match interpretField b!"apiVersion" doc [], interpretField b!"kind" doc [] with
  | some av, some k =>
    match parseGV av with
    | none => none
    | some (g, v) =>
      let r := withDefaults g v k
      if r.2.1 = [] then none else some r          -- "version not set"
  | _, _ => none

/-- case-sensitive unmarshalling into the AdmissionReview: a type error at any member fails the whole decode -/
def typeError (doc : Top) : Bool :=
  doc.any (fun m =>
    (m.1 == b!"request" || m.1 == b!"response") && (match m.2 with | .other => true | .str _ => true | .obj t => !t | .null => false))

/-- review.Request after decoding: the last `request` member decides -/
def hasRequest (doc : Top) : Bool :=
  match (doc.filter (fun m => m.1 == b!"request")).getLast? with
  | some (_, .obj _) => true
  | _ => false

/-- HTTP status for a JSON-object body under the size limit, sent as application/json -/
def status (doc : Top) : Nat :=
  match detectKind doc with
  | none => 400
  | some gvk =>
    if gvk ≠ (dGroup, dVersion, dKind) then 400      -- decodes as something else, or no such kind is registered
    else if typeError doc then 400
    else if hasRequest doc then 200 else 400

/-- the declarative reading: which documents are well-formed v1 reviews with a request -/
def apiVersionOK (av : Str) : Prop := av = [] ∨ av = b!"/" ∨ av = b!"admission.k8s.io/v1" ∨ av = b!"admission.k8s.io/"
def kindOK (k : Str) : Prop := k = [] ∨ k = b!"AdmissionReview"

end PSA.Review

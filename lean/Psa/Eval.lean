import Psa.Render
import Psa.Shipped
/-! The shipped evaluator as the driver runs it: registry resolution (the loop-level model of `populate`),
    then every selected revision on the pod, rendered. -/
namespace PSA

def evalPodModel (T : Tables) (relax : Bool) (lv : LevelVersion) (p : Pod) : List CheckResult :=
  ((populate shipped).evaluate lv.level lv.version).map (fun r => runRev T relax r p)

theorem render_allowed (k : Kind) (o : CheckOut) : (render k o).allowed = o.allowed := by
  unfold render; split <;> simp_all

/-! ### the administrator's switch (`policy.RelaxPolicyForUserNamespacePods`): an atomic.Bool whose setter stores its argument -/

/-- the switch after a sequence of setter calls, starting from `init` (the process starts with `false`) -/
def switchAfter (init : Bool) (calls : List Bool) : Bool := calls.foldl (fun _ b => b) init

theorem switchAfter_append (init : Bool) (calls : List Bool) (b : Bool) : switchAfter init (calls ++ [b]) = b := by
  simp [switchAfter]

theorem switchAfter_last (init : Bool) (calls : List Bool) : switchAfter init calls = calls.getLast?.getD init := by
  induction calls generalizing init with
  | nil => rfl
  | cons c cs ih =>
    simp only [switchAfter, List.foldl_cons] at ih ⊢
    rw [ih c]
    cases cs with
    | nil => rfl
    | cons d ds =>
      have hne : d :: ds ≠ [] := by simp
      rw [List.getLast?_cons_cons, List.getLast?_eq_some_getLast hne]; rfl

end PSA

import Psa.Render
import Psa.Shipped
/-! The shipped evaluator as the driver runs it: registry resolution (the loop-level model of `populate`),
    then every selected revision on the pod, rendered. -/
namespace PSA

def evalPodModel (T : Tables) (relax : Bool) (lv : LevelVersion) (p : Pod) : List CheckResult :=
  ((populate shipped).evaluate lv.level lv.version).map (fun r => runRev T relax r p)

theorem render_allowed (k : Kind) (o : CheckOut) : (render k o).allowed = o.allowed := by
  unfold render; split <;> simp_all

end PSA

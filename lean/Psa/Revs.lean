import Psa.Checks
namespace PSA

inductive RevId
  | allowPrivEsc8 | allowPrivEsc25 | appArmor0 | capsBaseline0 | capsRestricted22 | capsRestricted25
  | hostNamespaces0 | hostPath0 | hostPorts0 | privileged0 | procMount0 | restrictedVolumes0
  | runAsNonRoot0 | runAsUser23 | seLinux0 | seLinux31 | seccompB0 | seccompB19 | seccompR19 | seccompR25
  | sysctls0 | sysctls27 | sysctls29 | sysctls32 | hostProcess0
  deriving DecidableEq, Repr

open RevId in
def run (T : Tables) (relax : Bool) : RevId → Pod → CheckOut
  | allowPrivEsc8 => allowPrivilegeEscalation_1_8
  | allowPrivEsc25 => allowPrivilegeEscalation_1_25 T
  | appArmor0 => appArmorProfile_1_0 T
  | capsBaseline0 => capabilitiesBaseline_1_0 T
  | capsRestricted22 => capabilitiesRestricted_1_22 T
  | capsRestricted25 => capabilitiesRestricted_1_25 T
  | hostNamespaces0 => hostNamespaces_1_0
  | hostPath0 => hostPathVolumes_1_0
  | hostPorts0 => hostPorts_1_0
  | privileged0 => privileged_1_0
  | procMount0 => procMount_1_0 T relax
  | restrictedVolumes0 => restrictedVolumes_1_0 T
  | runAsNonRoot0 => runAsNonRoot_1_0 relax
  | runAsUser23 => runAsUser_1_23 relax
  | seLinux0 => seLinuxOptions_1_0 T
  | seLinux31 => seLinuxOptions_1_31 T
  | seccompB0 => seccompBaseline_1_0 T
  | seccompB19 => seccompBaseline_1_19 T
  | seccompR19 => seccompRestricted_1_19 T
  | seccompR25 => seccompRestricted_1_25 T
  | sysctls0 => sysctls T.sysctls0
  | sysctls27 => sysctls T.sysctls27
  | sysctls29 => sysctls T.sysctls29
  | sysctls32 => sysctls T.sysctls32
  | hostProcess0 => windowsHostProcess_1_0

end PSA

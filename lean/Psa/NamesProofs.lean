import Psa.Render
/-! The rendered detail of every control that is about containers or volumes contains, in quotes, the name of every object
    the structured result lists as an offender (C13 "names the offenders by name", for every detail shape). -/
namespace PSA

/-- `"name"` as joinQuote writes it -/
def quoted (n : Str) : Str := b!"\"" ++ n ++ b!"\""

theorem infix_app_l {a b c : Str} (h : a <:+: b) : a <:+: b ++ c := by
  obtain ⟨s, t, rfl⟩ := h; exact ⟨s, t ++ c, by simp⟩

theorem infix_app_r {a b c : Str} (h : a <:+: c) : a <:+: b ++ c := by
  obtain ⟨s, t, rfl⟩ := h; exact ⟨b ++ s, t, by simp⟩

theorem infix_self (a : Str) : a <:+: a := ⟨[], [], by simp⟩

/-- an element of a joined list occurs in the join, with whatever stands before and after it -/
theorem mem_infix_join (sep : Str) (l : List Str) (x : Str) (hx : x ∈ l) : x <:+: Str.join sep l := by
  induction l with
  | nil => cases hx
  | cons a rest ih =>
    cases rest with
    | nil =>
      have : x = a := by simpa using hx
      subst this; exact infix_self _
    | cons b rest' =>
      simp only [Str.join]
      rcases List.mem_cons.mp hx with rfl | hm
      · exact infix_app_l (infix_app_l (infix_self _))
      · exact infix_app_r (ih hm)

/-- in a quoted, comma-separated list every member appears between its own quotes -/
theorem quoted_infix_joinQuote (l : List Str) (n : Str) (hn : n ∈ l) : quoted n <:+: joinQuote l := by
  have hne : l.isEmpty = false := by cases l <;> simp_all
  simp only [joinQuote, hne, Bool.false_eq_true, ↓reduceIte, quoted]
  induction l with
  | nil => cases hn
  | cons a rest ih =>
    cases rest with
    | nil =>
      have : n = a := by simpa using hn
      subst this; simp only [Str.join]; exact infix_self _
    | cons b rest' =>
      simp only [Str.join]
      rcases List.mem_cons.mp hn with rfl | hm
      · -- "\"" ++ (n ++ "\", \"" ++ tail) ++ "\""  contains  "\"" ++ n ++ "\""
        refine ⟨[], (b!", \"" ++ Str.join b!"\", \"" (b :: rest')) ++ b!"\"", ?_⟩
        simp [List.append_assoc]
      · have h := ih hm (by simp)
        obtain ⟨s, t, hst⟩ := h
        -- the tail's quoted list sits inside the whole after dropping its opening quote
        refine ⟨b!"\"" ++ a ++ b!"\", " ++ s, t, ?_⟩
        have : b!"\"" ++ (a ++ b!"\", \"" ++ Str.join b!"\", \"" (b :: rest')) ++ b!"\"" =
            (b!"\"" ++ a ++ b!"\", ") ++ (b!"\"" ++ Str.join b!"\", \"" (b :: rest') ++ b!"\"") := by
          simp [List.append_assoc]
        rw [this, ← hst]
        simp [List.append_assoc]

theorem quoted_infix_ctrs (cs : List Str) (n : Str) (hn : n ∈ cs) : quoted n <:+: ctrs cs :=
  infix_app_r (quoted_infix_joinQuote cs n hn)

theorem quoted_infix_setters (o : CheckOut) (n : Str) (hn : n ∈ o.containers) (extra : List Str) :
    quoted n <:+: andJoin (setters o ++ extra) := by
  have hne : o.containers.isEmpty = false := by cases h : o.containers <;> simp_all
  have hmem : ctrs o.containers ∈ setters o ++ extra := by
    simp [setters, hne]
  exact (quoted_infix_ctrs _ n hn).trans (mem_infix_join _ _ _ hmem)

/-- the objects a control's detail must name -/
def Kind.named (k : Kind) (o : CheckOut) : List Str :=
  match k with
  | .hostNamespaces | .seccompAnn | .sysctls => []
  | .hostPath | .restrictedVolumes => o.volumes
  | .capsRestricted => o.containers ++ o.containers2
  | .runAsNonRoot | .seccompRestricted => if o.pod || !o.containers.isEmpty then o.containers else o.containers2
  | _ => o.containers

/-- **Every detail shape names its offenders**: for each of the eighteen message shapes, every container / volume the
    structured result lists appears in the detail text between quotes. -/
theorem detail_names (k : Kind) (o : CheckOut) (n : Str) (hn : n ∈ k.named o) : quoted n <:+: k.detail o := by
  cases k <;> simp only [Kind.named, Kind.detail] at hn ⊢
  case privileged => exact infix_app_l (quoted_infix_ctrs _ n hn)
  case hostNamespaces => cases hn
  case hostPorts => exact infix_app_l (infix_app_l (infix_app_l (infix_app_l (infix_app_l (infix_app_l (quoted_infix_ctrs _ n hn))))))
  case hostPath => exact infix_app_r (quoted_infix_joinQuote _ n hn)
  case capsBaseline => exact infix_app_l (infix_app_l (infix_app_l (quoted_infix_ctrs _ n hn)))
  case appArmor => exact infix_app_l (infix_app_l (quoted_infix_setters o n hn _))
  case seLinux => exact infix_app_l (infix_app_l (by simpa using quoted_infix_setters o n hn []))
  case procMount => exact infix_app_l (infix_app_l (quoted_infix_ctrs _ n hn))
  case seccompAnn => cases hn
  case seccompField => exact infix_app_l (infix_app_l (by simpa using quoted_infix_setters o n hn []))
  case sysctls => cases hn
  case hostProcess => exact infix_app_l (by simpa using quoted_infix_setters o n hn [])
  case allowPrivEsc => exact infix_app_l (quoted_infix_ctrs _ n hn)
  case capsRestricted =>
    rcases List.mem_append.mp hn with h1 | h2
    · have hne : o.containers.isEmpty = false := by cases h : o.containers <;> simp_all
      have he : quoted n <:+: ctrs o.containers ++ b!" must set securityContext.capabilities.drop=[\"ALL\"]" :=
        infix_app_l (quoted_infix_ctrs _ n h1)
      exact he.trans (mem_infix_join _ _ _ (by simp [hne]))
    · have hne : o.containers2.isEmpty = false := by cases h : o.containers2 <;> simp_all
      have he : quoted n <:+: ctrs o.containers2 ++ b!" must not include " ++ joinQuote (sortDedup o.values) ++
          b!" in securityContext.capabilities.add" :=
        infix_app_l (infix_app_l (infix_app_l (quoted_infix_ctrs _ n h2)))
      exact he.trans (mem_infix_join _ _ _ (by simp [hne]))
  case restrictedVolumes =>
    exact infix_app_l (infix_app_l (infix_app_l (infix_app_l (infix_app_l (infix_app_l (infix_app_r (quoted_infix_joinQuote _ n hn)))))))
  case runAsNonRoot =>
    split at hn
    · next hc => simp only [hc, ↓reduceIte]; exact infix_app_l (by simpa using quoted_infix_setters o n hn [])
    · next hc => simp only [hc, ↓reduceIte]; exact infix_app_l (infix_app_r (quoted_infix_ctrs _ n hn))
  case runAsUser => exact infix_app_l (by simpa using quoted_infix_setters o n hn [])
  case seccompRestricted =>
    split at hn
    · next hc => simp only [hc, ↓reduceIte]; exact infix_app_l (infix_app_l (by simpa using quoted_infix_setters o n hn []))
    · next hc => simp only [hc, ↓reduceIte]; exact infix_app_l (infix_app_r (quoted_infix_ctrs _ n hn))

end PSA

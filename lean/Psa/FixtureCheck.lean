import Psa.Revs
import Psa.Shipped
import Psa.RegistrySpec
import Psa.Generated.Tables
/-! C20: what it means for a published conformance fixture to agree with the evaluator. -/
namespace PSA

structure Fixture where
  level : Level
  minor : Nat
  check : Str          -- the control the fixture is named for ([] for the minimal valid "base" pods)
  pass : Bool
  pod : Pod

/-- the API-server defaulting that touches what the checks read: a volume with no source becomes an emptyDir -/
def apiDefault (p : Pod) : Pod :=
  { p with volumes := p.volumes.map (fun v => if v.sources.isEmpty then { v with sources := [.emptyDir] } else v) }

def revCheckId (r : RevId) : Str := match revTable.find? (fun e => e.2 = r) with | some e => e.1.1 | none => []

/-- the checks that replace `check` when they are active (they name it in their override list) -/
def overridersOf' (check : Str) : List Str :=
  (shipped.filter (fun c => c.revs.any (fun r => r.overrides.contains check))).map (·.id)

/-- pass fixtures are allowed at their level and version; fail fixtures are rejected by the control they are named for
    (or by the restricted control that overrides it) -/
def fixtureOkWith (relax : Bool) (f : Fixture) : Bool :=
  let rs := (spec shipped f.level f.minor).map (fun r => (r, run Generated.tables relax r (apiDefault f.pod)))
  if f.pass then rs.all (·.2.allowed)
  else rs.any (fun x => !x.2.allowed && (revCheckId x.1 == f.check || (overridersOf' f.check).contains (revCheckId x.1)))

/-- the fixtures are published for the default configuration: the user-namespace switch off -/
def fixtureOk (f : Fixture) : Bool := fixtureOkWith false f

end PSA

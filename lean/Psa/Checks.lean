import Psa.Pod
/-! The seventeen controls, every revision, as total functions `Pod → CheckOut`.
    Allow-lists come from `Tables` (instantiated by the regenerated tables). -/
namespace PSA

structure Tables where
  capsBaseline : List Str
  capsRestrictedAdd : List Str
  capAll : Str
  seccompTypes : List Str
  seccompAnnValues : List Str          -- exact values
  seccompAnnPrefix : Str               -- "localhost/"
  appArmorTypes : List Str
  appArmorAnnValues : List Str         -- "", "runtime/default"
  appArmorAnnPrefix : Str              -- "localhost/"
  procMountDefault : Str
  volAllowed : List VolKind
  sysctls0 : List Str
  sysctls27 : List Str
  sysctls29 : List Str
  sysctls32 : List Str
  selinux0 : List Str
  selinux31 : List Str
  windows : Str
  deriving DecidableEq

def appArmorAnnKeyPrefix : Str := b!"container.apparmor.security.beta.kubernetes.io/"
def seccompPodAnnKey : Str := b!"seccomp.security.alpha.kubernetes.io/pod"
def seccompContainerAnnPrefix : Str := b!"container.seccomp.security.alpha.kubernetes.io/"

def Pod.ann (p : Pod) (k : Str) : Option Str := (p.annotations.find? (fun kv => kv.1 = k)).map (·.2)
def Pod.windowsOS (T : Tables) (p : Pod) : Bool := p.os == some T.windows
def relaxed (relax : Bool) (p : Pod) : Bool := relax && p.hostUsers == some false

def mk (pod : Bool) (cs cs2 vols : List Str) (values flags extra : List Str := []) : CheckOut :=
  if pod || !cs.isEmpty || !cs2.isEmpty || !vols.isEmpty || !flags.isEmpty then
    { allowed := false, pod := pod, containers := cs, containers2 := cs2, volumes := vols, values := values, flags := flags,
      extra := extra }
  else .ok

/-! ## baseline -/

def cPrivileged (c : Container) : Bool := c.get (·.privileged) == some true
def privileged_1_0 (p : Pod) : CheckOut := mk false (offenders p.visit cPrivileged) [] []

def hostNamespaces_1_0 (p : Pod) : CheckOut :=
  mk false [] [] [] [] ((if p.hostNetwork then [b!"hostNetwork=true"] else []) ++
    (if p.hostPID then [b!"hostPID=true"] else []) ++ (if p.hostIPC then [b!"hostIPC=true"] else []))

def cHostPorts (c : Container) : Bool := c.hostPorts.any (· != 0)
def hostPorts_1_0 (p : Pod) : CheckOut :=
  mk false (offenders p.visit cHostPorts) [] [] (p.visit.flatMap (fun c => (c.hostPorts.filter (· != 0)).map itoaInt))

def vHostPath (v : Volume) : Bool := v.sources.contains .hostPath
def hostPathVolumes_1_0 (p : Pod) : CheckOut := mk false [] [] ((p.volumes.filter vHostPath).map (·.name))

def cCapsBaseline (T : Tables) (c : Container) : Bool :=
  match c.get (·.caps) with
  | some k => k.add.any (fun x => !T.capsBaseline.contains x)
  | none => false
def capsAdd (c : Container) : List Str := match c.get (·.caps) with | some k => k.add | none => []
def capabilitiesBaseline_1_0 (T : Tables) (p : Pod) : CheckOut :=
  mk false (offenders p.visit (cCapsBaseline T)) [] []
    (p.visit.flatMap (fun c => (capsAdd c).filter (fun x => !T.capsBaseline.contains x)))

def badOpt (ok : Str → Bool) : Option Str → Bool
  | some t => !ok t
  | none => false

def goodOpt (ok : Str → Bool) : Option Str → Bool
  | some t => ok t
  | none => false

def appArmorAnnOK (T : Tables) (v : Str) : Bool := T.appArmorAnnValues.contains v || T.appArmorAnnPrefix.isPrefixOf v
def badAppArmorAnn (T : Tables) (kv : Str × Str) : Bool := appArmorAnnKeyPrefix.isPrefixOf kv.1 && !appArmorAnnOK T kv.2
def badVal (ok : Str → Bool) (o : Option Str) : List Str := match o with | some t => if ok t then [] else [t] | none => []
def annText (kv : Str × Str) : Str := kv.1 ++ b!"=" ++ goQuote kv.2
def appArmorProfile_1_0 (T : Tables) (p : Pod) : CheckOut :=
  let ok := fun t => T.appArmorTypes.contains t
  mk (badOpt ok (p.get (·.appArmorType))) (offenders p.visit (fun c => badOpt ok (c.get (·.appArmorType)))) [] []
    (badVal ok (p.get (·.appArmorType)) ++ p.visit.flatMap (fun c => badVal ok (c.get (·.appArmorType))))
    ((p.annotations.filter (badAppArmorAnn T)).map annText)

def seLinuxOK (types : List Str) (o : SELinux) : Bool := types.contains o.type && o.user.isEmpty && o.role.isEmpty
def badSELinux (types : List Str) : Option SELinux → Bool
  | some o => !seLinuxOK types o
  | none => false
def seLinuxAll (p : Pod) : List SELinux :=
  (match p.get (·.seLinux) with | some o => [o] | none => []) ++
  p.visit.flatMap (fun c => match c.get (·.seLinux) with | some o => [o] | none => [])
def seLinuxOptions (types : List Str) (p : Pod) : CheckOut :=
  mk (badSELinux types (p.get (·.seLinux))) (offenders p.visit (fun c => badSELinux types (c.get (·.seLinux)))) [] []
    (((seLinuxAll p).filter (fun o => !types.contains o.type)).map (·.type)) []
    ((if (seLinuxAll p).any (fun o => !o.user.isEmpty) then [b!"user may not be set"] else []) ++
     (if (seLinuxAll p).any (fun o => !o.role.isEmpty) then [b!"role may not be set"] else []))
def seLinuxOptions_1_0 (T : Tables) := seLinuxOptions T.selinux0
def seLinuxOptions_1_31 (T : Tables) := seLinuxOptions T.selinux31

def procMount_1_0 (T : Tables) (relax : Bool) (p : Pod) : CheckOut :=
  if relaxed relax p then .ok else
  mk false (offenders p.visit (fun c => badOpt (· == T.procMountDefault) (c.get (·.procMount)))) [] []
    (p.visit.flatMap (fun c => badVal (· == T.procMountDefault) (c.get (·.procMount))))

def seccompAnnOK (T : Tables) (v : Str) : Bool := T.seccompAnnValues.contains v || T.seccompAnnPrefix.isPrefixOf v
def seccompBaseline_1_0 (T : Tables) (p : Pod) : CheckOut :=
  let ok := seccompAnnOK T
  mk (badOpt ok (p.ann seccompPodAnnKey))
     (offenders p.visit (fun c => badOpt ok (p.ann (seccompContainerAnnPrefix ++ c.name)))) [] []
     ((badVal ok (p.ann seccompPodAnnKey)).map (fun v => annText (seccompPodAnnKey, v)) ++
      p.visit.flatMap (fun c => (badVal ok (p.ann (seccompContainerAnnPrefix ++ c.name))).map
        (fun v => annText (seccompContainerAnnPrefix ++ c.name, v))))

def seccompBadValues (T : Tables) (p : Pod) : List Str :=
  let ok := fun t => T.seccompTypes.contains t
  badVal ok (p.get (·.seccompType)) ++ p.visit.flatMap (fun c => badVal ok (c.get (·.seccompType)))
def seccompBaseline_1_19 (T : Tables) (p : Pod) : CheckOut :=
  let ok := fun t => T.seccompTypes.contains t
  mk (badOpt ok (p.get (·.seccompType))) (offenders p.visit (fun c => badOpt ok (c.get (·.seccompType)))) [] []
    (seccompBadValues T p)

def sysctls (allowed : List Str) (p : Pod) : CheckOut :=
  let bad := (match p.sc with | some sc => sc.sysctls | none => []).filter (fun s => !allowed.contains s)
  mk false [] [] [] bad bad

def hostProcessSet : Option (Option Bool) → Bool
  | some (some true) => true
  | _ => false
def windowsHostProcess_1_0 (p : Pod) : CheckOut :=
  mk (hostProcessSet (p.get (·.hostProcess))) (offenders p.visit (fun c => hostProcessSet (c.get (·.hostProcess)))) [] []

/-! ## restricted -/

def cAllowPrivEsc (c : Container) : Bool := !(c.get (·.allowPrivEsc) == some false)
def allowPrivilegeEscalation_1_8 (p : Pod) : CheckOut := mk false (offenders p.visit cAllowPrivEsc) [] []
def allowPrivilegeEscalation_1_25 (T : Tables) (p : Pod) : CheckOut :=
  if p.windowsOS T then .ok else allowPrivilegeEscalation_1_8 p

def cMissingDropAll (T : Tables) (c : Container) : Bool :=
  match c.get (·.caps) with
  | some k => !k.drop.contains T.capAll
  | none => true
def cAddsForbidden (T : Tables) (c : Container) : Bool :=
  match c.get (·.caps) with
  | some k => k.add.any (fun x => !T.capsRestrictedAdd.contains x)
  | none => false
def capabilitiesRestricted_1_22 (T : Tables) (p : Pod) : CheckOut :=
  mk false (offenders p.visit (cMissingDropAll T)) (offenders p.visit (cAddsForbidden T)) []
    (p.visit.flatMap (fun c => (capsAdd c).filter (fun x => !T.capsRestrictedAdd.contains x)))
def capabilitiesRestricted_1_25 (T : Tables) (p : Pod) : CheckOut :=
  if p.windowsOS T then .ok else capabilitiesRestricted_1_22 T p

def vRestricted (T : Tables) (v : Volume) : Bool := !v.sources.any (T.volAllowed.contains ·)
/-- the second switch of restrictedVolumes_1_0: the first non-nil source in this order names the type -/
def badVolKinds : List (VolKind × Str) :=
  [(.hostPath, b!"hostPath"), (.gcePersistentDisk, b!"gcePersistentDisk"), (.awsElasticBlockStore, b!"awsElasticBlockStore"),
   (.gitRepo, b!"gitRepo"), (.nfs, b!"nfs"), (.iscsi, b!"iscsi"), (.glusterfs, b!"glusterfs"), (.rbd, b!"rbd"),
   (.flexVolume, b!"flexVolume"), (.cinder, b!"cinder"), (.cephfs, b!"cephfs"), (.flocker, b!"flocker"), (.fc, b!"fc"),
   (.azureFile, b!"azureFile"), (.vsphereVolume, b!"vsphereVolume"), (.quobyte, b!"quobyte"), (.azureDisk, b!"azureDisk"),
   (.photonPersistentDisk, b!"photonPersistentDisk"), (.portworxVolume, b!"portworxVolume"), (.scaleIO, b!"scaleIO"),
   (.storageos, b!"storageos")]
def volTypeName (v : Volume) : Str :=
  match badVolKinds.find? (fun kn => v.sources.contains kn.1) with
  | some kn => kn.2
  | none => b!"unknown"
def restrictedVolumes_1_0 (T : Tables) (p : Pod) : CheckOut :=
  mk false [] [] ((p.volumes.filter (vRestricted T)).map (·.name)) ((p.volumes.filter (vRestricted T)).map volTypeName)

def runAsNonRoot_1_0 (relax : Bool) (p : Pod) : CheckOut :=
  if relaxed relax p then .ok else
  let podBad : Bool := p.get (·.runAsNonRoot) == some false
  let podGood : Bool := p.get (·.runAsNonRoot) == some true
  let expl := offenders p.visit (fun c => c.get (·.runAsNonRoot) == some false)
  let impl := offenders p.visit (fun c => (c.get (·.runAsNonRoot)).isNone && !podGood)
  if podBad || !expl.isEmpty then { allowed := false, pod := podBad, containers := expl }
  else if !impl.isEmpty then { allowed := false, containers2 := impl }
  else .ok

def runAsUser_1_23 (relax : Bool) (p : Pod) : CheckOut :=
  if relaxed relax p then .ok else
  mk (p.get (·.runAsUser) == some 0) (offenders p.visit (fun c => c.get (·.runAsUser) == some 0)) [] []

def seccompRestricted_1_19 (T : Tables) (p : Pod) : CheckOut :=
  let ok := fun t => T.seccompTypes.contains t
  let podBad : Bool := badOpt ok (p.get (·.seccompType))
  let podSet : Bool := goodOpt ok (p.get (·.seccompType))
  let expl := offenders p.visit (fun c => badOpt ok (c.get (·.seccompType)))
  let impl := offenders p.visit (fun c => (c.get (·.seccompType)).isNone && !podSet)
  if podBad || !expl.isEmpty then { allowed := false, pod := podBad, containers := expl, values := seccompBadValues T p }
  else if !impl.isEmpty then { allowed := false, containers2 := impl }
  else .ok
def seccompRestricted_1_25 (T : Tables) (p : Pod) : CheckOut :=
  if p.windowsOS T then .ok else seccompRestricted_1_19 T p

theorem mk_allowed (pod : Bool) (cs cs2 vols values flags extra : List Str) :
    (mk pod cs cs2 vols values flags extra).allowed = true ↔ pod = false ∧ cs = [] ∧ cs2 = [] ∧ vols = [] ∧ flags = [] := by
  unfold mk
  split
  · rename_i h
    simp only [Bool.false_eq_true, false_iff]
    intro ⟨h1, h2, h3, h4, h5⟩
    simp [h1, h2, h3, h4, h5] at h
  · rename_i h
    simp only [CheckOut.ok, true_iff]
    simp only [Bool.or_eq_true, Bool.not_eq_eq_eq_not, Bool.not_true, List.isEmpty_eq_false_iff, not_or, Bool.not_eq_true,
      Decidable.not_not] at h
    simpa [and_assoc] using h

end PSA

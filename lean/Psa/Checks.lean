import Psa.Pod
/-! The seventeen controls, every revision, as total functions `Pod → CheckOut`.
    Allow-lists come from `Tables` (instantiated by the regenerated tables). -/
namespace PSA

structure Tables where
  capsBaseline : List Str
  capsRestrictedAdd : List Str
  capAll : Str
  seccompTypes : List Str
  seccompAnnValues : List Str          -- exact values
  seccompAnnPrefix : Str               -- "localhost/"
  appArmorTypes : List Str
  appArmorAnnValues : List Str         -- "", "runtime/default"
  appArmorAnnPrefix : Str              -- "localhost/"
  procMountDefault : Str
  volAllowed : List VolKind
  sysctls0 : List Str
  sysctls27 : List Str
  sysctls29 : List Str
  sysctls32 : List Str
  selinux0 : List Str
  selinux31 : List Str
  windows : Str

def appArmorAnnKeyPrefix : Str := b!"container.apparmor.security.beta.kubernetes.io/"
def seccompPodAnnKey : Str := b!"seccomp.security.alpha.kubernetes.io/pod"
def seccompContainerAnnPrefix : Str := b!"container.seccomp.security.alpha.kubernetes.io/"

def Pod.ann (p : Pod) (k : Str) : Option Str := (p.annotations.find? (fun kv => kv.1 = k)).map (·.2)
def Pod.windowsOS (T : Tables) (p : Pod) : Bool := p.os == some T.windows
def relaxed (relax : Bool) (p : Pod) : Bool := relax && p.hostUsers == some false

def mk (pod : Bool) (cs cs2 vols : List Str) (values flags : List Str := []) : CheckOut :=
  if pod || !cs.isEmpty || !cs2.isEmpty || !vols.isEmpty || !flags.isEmpty then
    { allowed := false, pod := pod, containers := cs, containers2 := cs2, volumes := vols, values := values, flags := flags }
  else .ok

/-! ## baseline -/

def cPrivileged (c : Container) : Bool := c.get (·.privileged) == some true
def privileged_1_0 (p : Pod) : CheckOut := mk false (offenders p.visit cPrivileged) [] []

def hostNamespaces_1_0 (p : Pod) : CheckOut :=
  mk false [] [] [] [] ((if p.hostNetwork then [b!"hostNetwork=true"] else []) ++
    (if p.hostPID then [b!"hostPID=true"] else []) ++ (if p.hostIPC then [b!"hostIPC=true"] else []))

def cHostPorts (c : Container) : Bool := c.hostPorts.any (· != 0)
def hostPorts_1_0 (p : Pod) : CheckOut := mk false (offenders p.visit cHostPorts) [] []

def vHostPath (v : Volume) : Bool := v.sources.contains .hostPath
def hostPathVolumes_1_0 (p : Pod) : CheckOut := mk false [] [] ((p.volumes.filter vHostPath).map (·.name))

def cCapsBaseline (T : Tables) (c : Container) : Bool :=
  match c.get (·.caps) with
  | some k => k.add.any (fun x => !T.capsBaseline.contains x)
  | none => false
def capabilitiesBaseline_1_0 (T : Tables) (p : Pod) : CheckOut := mk false (offenders p.visit (cCapsBaseline T)) [] []

def badOpt (ok : Str → Bool) : Option Str → Bool
  | some t => !ok t
  | none => false

def goodOpt (ok : Str → Bool) : Option Str → Bool
  | some t => ok t
  | none => false

def appArmorAnnOK (T : Tables) (v : Str) : Bool := T.appArmorAnnValues.contains v || T.appArmorAnnPrefix.isPrefixOf v
def badAppArmorAnn (T : Tables) (kv : Str × Str) : Bool := appArmorAnnKeyPrefix.isPrefixOf kv.1 && !appArmorAnnOK T kv.2
def appArmorProfile_1_0 (T : Tables) (p : Pod) : CheckOut :=
  let ok := fun t => T.appArmorTypes.contains t
  mk (badOpt ok (p.get (·.appArmorType))) (offenders p.visit (fun c => badOpt ok (c.get (·.appArmorType)))) [] []
    [] ((p.annotations.filter (badAppArmorAnn T)).map (·.1))

def seLinuxOK (types : List Str) (o : SELinux) : Bool := types.contains o.type && o.user.isEmpty && o.role.isEmpty
def badSELinux (types : List Str) : Option SELinux → Bool
  | some o => !seLinuxOK types o
  | none => false
def seLinuxOptions (types : List Str) (p : Pod) : CheckOut :=
  mk (badSELinux types (p.get (·.seLinux))) (offenders p.visit (fun c => badSELinux types (c.get (·.seLinux)))) [] []
def seLinuxOptions_1_0 (T : Tables) := seLinuxOptions T.selinux0
def seLinuxOptions_1_31 (T : Tables) := seLinuxOptions T.selinux31

def procMount_1_0 (T : Tables) (relax : Bool) (p : Pod) : CheckOut :=
  if relaxed relax p then .ok else
  mk false (offenders p.visit (fun c => badOpt (· == T.procMountDefault) (c.get (·.procMount)))) [] []

def seccompAnnOK (T : Tables) (v : Str) : Bool := T.seccompAnnValues.contains v || T.seccompAnnPrefix.isPrefixOf v
def seccompBaseline_1_0 (T : Tables) (p : Pod) : CheckOut :=
  let ok := seccompAnnOK T
  mk (badOpt ok (p.ann seccompPodAnnKey))
     (offenders p.visit (fun c => badOpt ok (p.ann (seccompContainerAnnPrefix ++ c.name)))) [] []

def seccompBaseline_1_19 (T : Tables) (p : Pod) : CheckOut :=
  let ok := fun t => T.seccompTypes.contains t
  mk (badOpt ok (p.get (·.seccompType))) (offenders p.visit (fun c => badOpt ok (c.get (·.seccompType)))) [] []

def sysctls (allowed : List Str) (p : Pod) : CheckOut :=
  let bad := (match p.sc with | some sc => sc.sysctls | none => []).filter (fun s => !allowed.contains s)
  mk false [] [] [] bad bad

def hostProcessSet : Option (Option Bool) → Bool
  | some (some true) => true
  | _ => false
def windowsHostProcess_1_0 (p : Pod) : CheckOut :=
  mk (hostProcessSet (p.get (·.hostProcess))) (offenders p.visit (fun c => hostProcessSet (c.get (·.hostProcess)))) [] []

/-! ## restricted -/

def cAllowPrivEsc (c : Container) : Bool := !(c.get (·.allowPrivEsc) == some false)
def allowPrivilegeEscalation_1_8 (p : Pod) : CheckOut := mk false (offenders p.visit cAllowPrivEsc) [] []
def allowPrivilegeEscalation_1_25 (T : Tables) (p : Pod) : CheckOut :=
  if p.windowsOS T then .ok else allowPrivilegeEscalation_1_8 p

def cMissingDropAll (T : Tables) (c : Container) : Bool :=
  match c.get (·.caps) with
  | some k => !k.drop.contains T.capAll
  | none => true
def cAddsForbidden (T : Tables) (c : Container) : Bool :=
  match c.get (·.caps) with
  | some k => k.add.any (fun x => !T.capsRestrictedAdd.contains x)
  | none => false
def capabilitiesRestricted_1_22 (T : Tables) (p : Pod) : CheckOut :=
  mk false (offenders p.visit (cMissingDropAll T)) (offenders p.visit (cAddsForbidden T)) []
def capabilitiesRestricted_1_25 (T : Tables) (p : Pod) : CheckOut :=
  if p.windowsOS T then .ok else capabilitiesRestricted_1_22 T p

def vRestricted (T : Tables) (v : Volume) : Bool := !v.sources.any (T.volAllowed.contains ·)
def restrictedVolumes_1_0 (T : Tables) (p : Pod) : CheckOut := mk false [] [] ((p.volumes.filter (vRestricted T)).map (·.name))

def runAsNonRoot_1_0 (relax : Bool) (p : Pod) : CheckOut :=
  if relaxed relax p then .ok else
  let podBad : Bool := p.get (·.runAsNonRoot) == some false
  let podGood : Bool := p.get (·.runAsNonRoot) == some true
  let expl := offenders p.visit (fun c => c.get (·.runAsNonRoot) == some false)
  let impl := offenders p.visit (fun c => (c.get (·.runAsNonRoot)).isNone && !podGood)
  if podBad || !expl.isEmpty then { allowed := false, pod := podBad, containers := expl }
  else if !impl.isEmpty then { allowed := false, containers2 := impl }
  else .ok

def runAsUser_1_23 (relax : Bool) (p : Pod) : CheckOut :=
  if relaxed relax p then .ok else
  mk (p.get (·.runAsUser) == some 0) (offenders p.visit (fun c => c.get (·.runAsUser) == some 0)) [] []

def seccompRestricted_1_19 (T : Tables) (p : Pod) : CheckOut :=
  let ok := fun t => T.seccompTypes.contains t
  let podBad : Bool := badOpt ok (p.get (·.seccompType))
  let podSet : Bool := goodOpt ok (p.get (·.seccompType))
  let expl := offenders p.visit (fun c => badOpt ok (c.get (·.seccompType)))
  let impl := offenders p.visit (fun c => (c.get (·.seccompType)).isNone && !podSet)
  if podBad || !expl.isEmpty then { allowed := false, pod := podBad, containers := expl }
  else if !impl.isEmpty then { allowed := false, containers2 := impl }
  else .ok
def seccompRestricted_1_25 (T : Tables) (p : Pod) : CheckOut :=
  if p.windowsOS T then .ok else seccompRestricted_1_19 T p

theorem mk_allowed (pod : Bool) (cs cs2 vols values flags : List Str) :
    (mk pod cs cs2 vols values flags).allowed = true ↔ pod = false ∧ cs = [] ∧ cs2 = [] ∧ vols = [] ∧ flags = [] := by
  unfold mk
  split
  · rename_i h
    simp only [Bool.false_eq_true, false_iff]
    intro ⟨h1, h2, h3, h4, h5⟩
    simp [h1, h2, h3, h4, h5] at h
  · rename_i h
    simp only [CheckOut.ok, true_iff]
    simp only [Bool.or_eq_true, Bool.not_eq_eq_eq_not, Bool.not_true, List.isEmpty_eq_false_iff, not_or, Bool.not_eq_true,
      Decidable.not_not] at h
    simpa [and_assoc] using h

end PSA

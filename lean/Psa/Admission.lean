import Psa.Api
import Psa.Result
namespace PSA

/-- what the admission layer sees of a pod -/
structure PodView (P : Type) where
  pod : P
  runtimeClass : Option Str

structure Config where
  defaults : Policy
  exNamespaces : List Str
  exUsers : List Str
  exRuntimeClasses : List Str

def exempt (s : Str) (l : List Str) : Bool := s ≠ [] && l.contains s
def exemptRC (rc : Option Str) (l : List Str) : Bool := match rc with | some s => exempt s l | none => false

inductive Metric
  | eval (allow : Bool) (lv : LevelVersion) (mode : Nat)   -- 0 enforce 1 audit 2 warn
  | exemption
  | error (fatal : Bool)
  deriving DecidableEq, Repr

structure Response where
  allowed : Bool
  code : Nat := 0
  reason : Str := []
  enforcedLV : Option LevelVersion := none     -- token in the 403 message
  details : Option Agg := none
  warnings : List (LevelVersion × Agg) := []
  annExempt : Option Str := none
  annError : Bool := false
  annEnforce : Option LevelVersion := none
  annAudit : Option (LevelVersion × Agg) := none
  deriving DecidableEq, Repr

structure Out where
  resp : Response
  metrics : List Metric := []
  evalCalls : List LevelVersion := []

abbrev Evaluator (P : Type) := LevelVersion → P → List CheckResult

/-- the `cachedResults` map -/
abbrev Cache := List (LevelVersion × Agg)
def cacheGet (c : Cache) (lv : LevelVersion) : Option Agg := (c.find? (·.1 = lv)).map (·.2)

/-- EvaluatePod (after the runtime-class exemption test) -/
def evaluatePod {P} (ev : Evaluator P) (cfg : Config) (pol : Policy) (polErr : Bool) (pv : PodView P) (enforce : Bool) : Out :=
  if exemptRC pv.runtimeClass cfg.exRuntimeClasses then
    { resp := { allowed := true, annExempt := some b!"runtimeClass" }, metrics := [.exemption] }
  else
    let m0 : List Metric := if polErr then [.error false] else []
    -- enforce
    let (cache, calls, denied, m1) :=
      if enforce then
        let r := aggregate (ev pol.enforce pv.pod)
        (([(pol.enforce, r)] : Cache), [pol.enforce], !r.allowed, [Metric.eval r.allowed pol.enforce 0])
      else (([] : Cache), [], false, [])
    let enfAgg := cacheGet cache pol.enforce
    -- audit
    let (auditR, cache, calls) := match cacheGet cache pol.audit with
      | some r => (r, cache, calls)
      | none => let r := aggregate (ev pol.audit pv.pod); (r, cache ++ [(pol.audit, r)], calls ++ [pol.audit])
    let m2 : List Metric := if auditR.allowed then [] else [.eval false pol.audit 1]
    -- warn
    let (warns, calls, m3) :=
      if denied then (([] : List (LevelVersion × Agg)), calls, ([] : List Metric))
      else
        let (warnR, calls) := match cacheGet cache pol.warn with
          | some r => (r, calls)
          | none => (aggregate (ev pol.warn pv.pod), calls ++ [pol.warn])
        if warnR.allowed then ([], calls, []) else ([(pol.warn, warnR)], calls, [.eval false pol.warn 2])
    { resp :=
        { allowed := !denied
          code := if denied then 403 else 0
          reason := if denied then b!"Forbidden" else []
          enforcedLV := if denied then some pol.enforce else none
          details := if denied then enfAgg else none
          warnings := warns
          annError := polErr
          annEnforce := if enforce then some pol.enforce else none
          annAudit := if auditR.allowed then none else some (pol.audit, auditR) }
      metrics := m0 ++ m1 ++ m2 ++ m3
      evalCalls := calls }

/-! ### C08 on this model -/

variable {P : Type}

theorem C08_nonblocking (ev : Evaluator P) (cfg : Config) (p p' : Policy) (e : Bool) (pv : PodView P) (enf : Bool)
    (h : p.enforce = p'.enforce) :
    (evaluatePod ev cfg p e pv enf).resp.allowed = (evaluatePod ev cfg p' e pv enf).resp.allowed := by
  unfold evaluatePod
  split
  · rfl
  · cases enf <;> simp [h]

theorem C08_audit (ev : Evaluator P) (cfg : Config) (p : Policy) (e : Bool) (pv : PodView P) (enf : Bool)
    (hrc : exemptRC pv.runtimeClass cfg.exRuntimeClasses = false) :
    (evaluatePod ev cfg p e pv enf).resp.annAudit =
      (if (aggregate (ev p.audit pv.pod)).allowed then none else some (p.audit, aggregate (ev p.audit pv.pod))) := by
  unfold evaluatePod
  simp only [hrc, Bool.false_eq_true, ↓reduceIte]
  cases enf
  · simp [cacheGet]
  · by_cases hEq : p.enforce = p.audit
    · simp [cacheGet, hEq]
    · simp [cacheGet, hEq]

theorem C08_warn (ev : Evaluator P) (cfg : Config) (p : Policy) (e : Bool) (pv : PodView P) (enf : Bool)
    (hrc : exemptRC pv.runtimeClass cfg.exRuntimeClasses = false) :
    (evaluatePod ev cfg p e pv enf).resp.warnings =
      (if (evaluatePod ev cfg p e pv enf).resp.allowed ∧ ¬ (aggregate (ev p.warn pv.pod)).allowed
       then [(p.warn, aggregate (ev p.warn pv.pod))] else []) := by
  unfold evaluatePod
  simp only [hrc, Bool.false_eq_true, ↓reduceIte]
  cases enf
  · by_cases h1 : p.audit = p.warn <;> simp [cacheGet, h1] <;> split <;> simp_all
  · by_cases h0 : (aggregate (ev p.enforce pv.pod)).allowed
    · by_cases h1 : p.enforce = p.audit <;> by_cases h2 : p.enforce = p.warn <;> by_cases h3 : p.audit = p.warn <;>
        simp_all [cacheGet] <;> split <;> simp_all
    · simp [h0]
/-- first occurrences, in order -/
def distinctInOrder (l : List LevelVersion) : List LevelVersion :=
  l.foldl (fun acc x => if x ∈ acc then acc else acc ++ [x]) []

/-- **The cache is transparent and saves exactly the repeated evaluations**: the evaluator is called once per *distinct* policy
    among enforce (when enforcing), audit, and warn (unless denied), in that order — never twice for the same level:version. -/
theorem evaluatePod_calls (ev : Evaluator P) (cfg : Config) (p : Policy) (e : Bool) (pv : PodView P) (enf : Bool)
    (hrc : exemptRC pv.runtimeClass cfg.exRuntimeClasses = false) :
    (evaluatePod ev cfg p e pv enf).evalCalls =
      distinctInOrder ((if enf then [p.enforce] else []) ++ [p.audit] ++
          (if (evaluatePod ev cfg p e pv enf).resp.allowed then [p.warn] else [])) := by
  have s12 : (p.audit = p.enforce) = (p.enforce = p.audit) := propext eq_comm
  have s13 : (p.warn = p.enforce) = (p.enforce = p.warn) := propext eq_comm
  have s23 : (p.warn = p.audit) = (p.audit = p.warn) := propext eq_comm
  unfold evaluatePod
  simp only [hrc, Bool.false_eq_true, ↓reduceIte]
  cases enf
  · by_cases h1 : p.audit = p.warn <;> simp [cacheGet, h1, distinctInOrder, s23] <;> (try split) <;> simp_all
  · by_cases h0 : (aggregate (ev p.enforce pv.pod)).allowed
    · by_cases h1 : p.enforce = p.audit <;> by_cases h2 : p.enforce = p.warn <;> by_cases h3 : p.audit = p.warn <;>
        simp_all [cacheGet, distinctInOrder] <;> (try split) <;> simp_all
    · by_cases h1 : p.enforce = p.audit <;> simp_all [cacheGet, distinctInOrder]

end PSA

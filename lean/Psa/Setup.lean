import Psa.Config
import Psa.Generated.Facts
/-!
Model of how a controller comes to its configuration: `(*Admission).CompleteConfiguration`, `(*Admission).ValidateConfiguration`
(admission/admission.go) and the webhook's `Setup` chain (cmd/webhook/server/server.go: load the file, build the controller with
every dependency, complete, validate).

A Go `Admission` value has, as far as configuration goes, the optional `Configuration`, the derived `defaultPolicy` (zero
value until completed; the zero value is no policy any `ToPolicy` can produce, so it is modelled as `none`), the two dry-run
limits (zero until completed) and five dependencies that are either set or nil.
-/
namespace PSA.Setup
open PSA PSA.Config

structure Ctl where
  cfg : Option Cfg := none
  defaultPolicy : Option Policy := none
  maxPods : Nat := 0
  timeoutNs : Nat := 0
  metrics : Bool := false
  extractor : Bool := false
  evaluator : Bool := false
  getter : Bool := false
  lister : Bool := false
  deriving DecidableEq, Repr

inductive Err
  | noConfiguration | invalid | toPolicy | policyMismatch | limitsNotSet
  | noMetrics | noExtractor | noEvaluator | noGetter | noLister
  deriving DecidableEq, Repr

/-- CompleteConfiguration: derives the default policy from the configuration (when there is one; a configuration that does
    not convert is an error and leaves the controller as it was), sets the two limits, supplies the default extractor -/
def complete (c : Ctl) : Except Err Ctl :=
  match c.cfg with
  | some cfg =>
    match toPolicy cfg.defaults with
    | none => .error .toPolicy
    | some p => .ok { c with defaultPolicy := some p, maxPods := Generated.namespaceMaxPodsToCheck,
                             timeoutNs := Generated.namespacePodCheckTimeoutNs, extractor := true }
  | none => .ok { c with maxPods := Generated.namespaceMaxPodsToCheck, timeoutNs := Generated.namespacePodCheckTimeoutNs,
                         extractor := true }

/-- ValidateConfiguration: none = nil error -/
def validateCtl (c : Ctl) : Option Err :=
  match c.cfg with
  | none => some .noConfiguration
  | some cfg =>
    if validate cfg ≠ [] then some .invalid
    else match toPolicy cfg.defaults with
      | none => some .toPolicy
      | some p =>
        if some p ≠ c.defaultPolicy then some .policyMismatch
        else if c.maxPods = 0 ∨ c.timeoutNs = 0 then some .limitsNotSet
        else if !c.metrics then some .noMetrics
        else if !c.extractor then some .noExtractor
        else if !c.evaluator then some .noEvaluator
        else if !c.getter then some .noGetter
        else if !c.lister then some .noLister
        else none

/-- what the webhook's Setup builds before completing: the loaded configuration and every dependency -/
def fresh (cfg : Cfg) : Ctl :=
  { cfg := some cfg, metrics := true, extractor := true, evaluator := true, getter := true, lister := true }

inductive Outcome
  | loadError                 -- the file does not load: LoadConfig fails
  | setupError (e : Err)      -- Setup fails ("configuration error" / "invalid configuration")
  | serving (p : Policy) (ex : Exemptions)   -- the webhook serves, with this default policy and these exemptions
  deriving DecidableEq, Repr

/-- LoadConfig + Setup on a configuration document (none = empty file) -/
def setup (d : Option Doc) : Outcome :=
  match load d with
  | none => .loadError
  | some cfg =>
    match complete (fresh cfg) with
    | .error e => .setupError e
    | .ok c =>
      match validateCtl c with
      | some e => .setupError e
      | none => match c.defaultPolicy with
        | some p => .serving p cfg.exemptions
        | none => .setupError .policyMismatch

end PSA.Setup

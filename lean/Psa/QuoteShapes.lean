import Psa.QuoteProofs
namespace PSA

/-- a part of a text that closes every quote it opens -/
def Balanced (p : Str) : Prop := ∀ r, quotedSegs (p ++ r) = quotedSegs p ++ quotedSegs r

theorem balanced_lit (p : Str) (h : noQ p) : Balanced p := by
  intro r; rw [quotedSegs_lit _ _ h, quotedSegs_lit_end _ h]; rfl

theorem segs_ctrs_end (cs : List Str) (h : ∀ x ∈ cs, noQ x) : quotedSegs (ctrs cs) = cs := by
  have := segs_ctrs cs [] h
  simpa [quotedSegs, segsAux] using this

theorem balanced_ctrs (cs : List Str) (h : ∀ x ∈ cs, noQ x) : Balanced (ctrs cs) := by
  intro r; rw [segs_ctrs _ _ h, segs_ctrs_end _ h]

theorem segs_join_balanced (sep : Str) (hs : noQ sep) (parts : List Str) (rest : Str) (h : ∀ p ∈ parts, Balanced p) :
    quotedSegs (Str.join sep parts ++ rest) = parts.flatMap quotedSegs ++ quotedSegs rest :=
  segs_join_parts sep hs parts quotedSegs rest (fun p hp r => h p hp r)

theorem flatMap_noQ (ex : List Str) (h : ∀ p ∈ ex, noQ p) : ex.flatMap quotedSegs = [] := by
  induction ex with
  | nil => rfl
  | cons a r ih => simp [quotedSegs_lit_end a (h a (by simp)), ih (fun p hp => h p (by simp [hp]))]

/-- `pod and containers "a", "b" [and annotation(s)]` followed by anything: exactly the containers are quoted -/
theorem segs_setters (o : CheckOut) (ex : List Str) (rest : Str) (hc : ∀ x ∈ o.containers, noQ x) (hex : ∀ p ∈ ex, noQ p) :
    quotedSegs (andJoin (setters o ++ ex) ++ rest) = o.containers ++ quotedSegs rest := by
  unfold andJoin
  rw [segs_join_balanced _ (by decide) _ _ ?_]
  · simp only [setters, List.flatMap_append, flatMap_noQ ex hex, List.append_nil]
    cases o.pod <;> cases hce : o.containers with
    | nil => simp [quotedSegs_lit_end _ (show noQ b!"pod" by decide)]
    | cons a r =>
      have hne : o.containers ≠ [] := by simp [hce]
      have hne' : ¬ (a :: r = []) := by simp
      simp only [hce] at hc
      simp [quotedSegs_lit_end _ (show noQ b!"pod" by decide), hne', segs_ctrs_end _ hc]
  · intro p hp
    simp only [setters, List.mem_append] at hp
    rcases hp with (hp | hp) | hp
    · split at hp
      · simp at hp; subst hp; exact balanced_lit _ (by decide)
      · cases hp
    · split at hp
      · cases hp
      · simp at hp; subst hp; exact balanced_ctrs _ hc
    · exact balanced_lit _ (hex p hp)

end PSA

namespace PSA

structure Clean (o : CheckOut) : Prop where
  cs : ∀ x ∈ o.containers, noQ x
  cs2 : ∀ x ∈ o.containers2, noQ x
  vols : ∀ x ∈ o.volumes, noQ x
  vals : ∀ x ∈ o.values, noQ x
  flags : ∀ x ∈ o.flags, noQ x
  extra : ∀ x ∈ o.extra, noQ x

theorem Clean.sd {o : CheckOut} (h : Clean o) : ∀ x ∈ sortDedup o.values, noQ x :=
  fun x hx => h.vals x ((mem_sortDedup x o.values).mp hx)

theorem Clean.sf {o : CheckOut} (h : Clean o) : ∀ x ∈ sortStrs o.flags, noQ x :=
  fun x hx => h.flags x ((sortStrs_perm o.flags).mem_iff.mp hx)

/-- the values a detail shape writes between quotes besides the names of objects -/
def Kind.quotedValues (k : Kind) (o : CheckOut) : List Str :=
  match k with
  | .capsBaseline | .procMount | .seccompField | .seLinux | .restrictedVolumes => sortDedup o.values
  | .appArmor => sortDedup o.values ++ sortStrs o.flags
  | .capsRestricted => b!"ALL" :: sortDedup o.values
  | .seccompRestricted => sortDedup o.values ++ [b!"RuntimeDefault", b!"Localhost"]
  | _ => []

theorem segs_lit_joinQuote (p : Str) (l : List Str) (r : Str) (hp : noQ p) (hl : ∀ x ∈ l, noQ x) :
    quotedSegs (p ++ joinQuote l ++ r) = l ++ quotedSegs r := by
  rw [List.append_assoc, quotedSegs_lit _ _ hp, segs_joinQuote _ _ hl]

theorem segs_dropAll (r : Str) :
    quotedSegs (b!" must set securityContext.capabilities.drop=[\"ALL\"]" ++ r) = b!"ALL" :: quotedSegs r := by
  have : b!" must set securityContext.capabilities.drop=[\"ALL\"]" =
      b!" must set securityContext.capabilities.drop=[" ++ quoted b!"ALL" ++ b!"]" := by decide
  rw [this, List.append_assoc, List.append_assoc, quotedSegs_lit _ _ (by decide), segs_quoted _ _ (by decide),
    quotedSegs_lit _ _ (by decide)]

theorem segs_seccompTypes :
    quotedSegs b!" must set securityContext.seccompProfile.type to \"RuntimeDefault\" or \"Localhost\"" =
      [b!"RuntimeDefault", b!"Localhost"] := by decide

end PSA

namespace PSA

/-! The shape proofs let `simp` scan the literal parts of a detail byte by byte (`segsAux` on a cons with a concrete byte),
    and use the lemmas below, stated for `segsAux false []`, at the places where a rendered list stands. -/

theorem sa_joinQuote (l : List Str) (rest : Str) (h : ∀ x ∈ l, noQ x) :
    segsAux false [] (joinQuote l ++ rest) = l ++ segsAux false [] rest := segs_joinQuote l rest h
theorem sa_joinQuote_end (l : List Str) (h : ∀ x ∈ l, noQ x) : segsAux false [] (joinQuote l) = l := segs_joinQuote_end l h
theorem sa_pluralize (s p : Str) (n : Nat) (rest : Str) (hs : noQ s) (hp : noQ p) :
    segsAux false [] (pluralize s p n ++ rest) = segsAux false [] rest := segs_out_lit _ _ (noQ_pluralize _ _ _ hs hp)
theorem sa_ctrs (cs : List Str) (rest : Str) (h : ∀ x ∈ cs, noQ x) :
    segsAux false [] (ctrs cs ++ rest) = cs ++ segsAux false [] rest := segs_ctrs cs rest h
theorem sa_setters (o : CheckOut) (ex : List Str) (rest : Str) (hc : ∀ x ∈ o.containers, noQ x) (hex : ∀ p ∈ ex, noQ p) :
    segsAux false [] (andJoin (setters o ++ ex) ++ rest) = o.containers ++ segsAux false [] rest := segs_setters o ex rest hc hex
theorem sa_setters0 (o : CheckOut) (rest : Str) (hc : ∀ x ∈ o.containers, noQ x) :
    segsAux false [] (andJoin (setters o) ++ rest) = o.containers ++ segsAux false [] rest := by
  have := segs_setters o [] rest hc (by simp)
  simpa [quotedSegs] using this
theorem sa_lit_end (p : Str) (h : noQ p) : segsAux false [] p = [] := quotedSegs_lit_end p h
theorem sa_join_balanced (sep : Str) (hs : noQ sep) (parts : List Str) (rest : Str) (h : ∀ p ∈ parts, Balanced p) :
    segsAux false [] (Str.join sep parts ++ rest) = parts.flatMap quotedSegs ++ segsAux false [] rest :=
  segs_join_balanced sep hs parts rest h
theorem sa_join_balanced_end (sep : Str) (hs : noQ sep) (parts : List Str) (h : ∀ p ∈ parts, Balanced p) :
    segsAux false [] (Str.join sep parts) = parts.flatMap quotedSegs := by
  have := segs_join_balanced sep hs parts [] h
  simpa [quotedSegs, segsAux] using this

end PSA

import Psa.Eval
import Psa.C02
import Psa.StandardTables
import Psa.Generated.Tables
/-! Bridges between what the driver computes (`evalPodModel`, `aggregate`) and the statements of C02 / C03. -/
namespace PSA

theorem aggregate_allowed_iff (rs : List CheckResult) : (aggregate rs).allowed = true ↔ ∀ r ∈ rs, r.allowed = true := by
  simp [aggregate, List.filter_eq_nil_iff]

theorem evalPodModel_allowed (T : Tables) (relax : Bool) (lv : LevelVersion) (p : Pod) :
    (aggregate (evalPodModel T relax lv p)).allowed = allowedAll (evalShipped T relax lv.level lv.version p) := by
  rw [Bool.eq_iff_iff, aggregate_allowed_iff]
  simp only [evalPodModel, evalShipped, allowedAll, List.all_eq_true, List.mem_map, forall_exists_index, and_imp,
    forall_apply_eq_imp_iff₂, runRev, render_allowed]

theorem apiValid_tables (T : Tables) (hw : T.windows = b!"windows") (p : Pod) : ApiValid p ↔ ApiValidT T p := by
  simp only [ApiValid, ApiValidT, Pod.isWindows, Pod.windowsOS, hw]

/-- a requested version is `latest` or `v1.N` (all `ParseVersion` can produce) -/
def Ver.requestable (v : Ver) : Prop := v = .latest ∨ ∃ n, v = .mm 1 n

end PSA


namespace PSA
theorem C03_privileged_nil (v : Ver) (p : Pod) : evalPodModel Generated.tables false ⟨.privileged, v⟩ p = [] := by
  simp [evalPodModel, Registry.evaluate]
end PSA

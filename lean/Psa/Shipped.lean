import Psa.Standard
import Psa.RegistryProofs
namespace PSA

inductive RevId
  | allowPrivEsc8 | allowPrivEsc25 | appArmor0 | capsBaseline0 | capsRestricted22 | capsRestricted25
  | hostNamespaces0 | hostPath0 | hostPorts0 | privileged0 | procMount0 | restrictedVolumes0
  | runAsNonRoot0 | runAsUser23 | seLinux0 | seLinux31 | seccompB0 | seccompB19 | seccompR19 | seccompR25
  | sysctls0 | sysctls27 | sysctls29 | sysctls32 | hostProcess0
  deriving DecidableEq, Repr

open RevId in
def run (T : Tables) (relax : Bool) : RevId → Pod → CheckOut
  | allowPrivEsc8 => allowPrivilegeEscalation_1_8
  | allowPrivEsc25 => allowPrivilegeEscalation_1_25 T
  | appArmor0 => appArmorProfile_1_0 T
  | capsBaseline0 => capabilitiesBaseline_1_0 T
  | capsRestricted22 => capabilitiesRestricted_1_22 T
  | capsRestricted25 => capabilitiesRestricted_1_25 T
  | hostNamespaces0 => hostNamespaces_1_0
  | hostPath0 => hostPathVolumes_1_0
  | hostPorts0 => hostPorts_1_0
  | privileged0 => privileged_1_0
  | procMount0 => procMount_1_0 T relax
  | restrictedVolumes0 => restrictedVolumes_1_0 T
  | runAsNonRoot0 => runAsNonRoot_1_0 relax
  | runAsUser23 => runAsUser_1_23 relax
  | seLinux0 => seLinuxOptions_1_0 T
  | seLinux31 => seLinuxOptions_1_31 T
  | seccompB0 => seccompBaseline_1_0 T
  | seccompB19 => seccompBaseline_1_19 T
  | seccompR19 => seccompRestricted_1_19 T
  | seccompR25 => seccompRestricted_1_25 T
  | sysctls0 => sysctls T.sysctls0
  | sysctls27 => sysctls T.sysctls27
  | sysctls29 => sysctls T.sysctls29
  | sysctls32 => sysctls T.sysctls32
  | hostProcess0 => windowsHostProcess_1_0

/-- registration metadata (regenerated from policy.DefaultChecks()) with the model revision attached -/
def shipped : List (Check RevId) :=
  [ ⟨b!"allowPrivilegeEscalation", .restricted, [⟨.mm 1 8, .allowPrivEsc8, []⟩, ⟨.mm 1 25, .allowPrivEsc25, []⟩]⟩,
    ⟨b!"appArmorProfile", .baseline, [⟨.mm 1 0, .appArmor0, []⟩]⟩,
    ⟨b!"capabilities_baseline", .baseline, [⟨.mm 1 0, .capsBaseline0, []⟩]⟩,
    ⟨b!"capabilities_restricted", .restricted, [⟨.mm 1 22, .capsRestricted22, [b!"capabilities_baseline"]⟩, ⟨.mm 1 25, .capsRestricted25, [b!"capabilities_baseline"]⟩]⟩,
    ⟨b!"hostNamespaces", .baseline, [⟨.mm 1 0, .hostNamespaces0, []⟩]⟩,
    ⟨b!"hostPathVolumes", .baseline, [⟨.mm 1 0, .hostPath0, []⟩]⟩,
    ⟨b!"hostPorts", .baseline, [⟨.mm 1 0, .hostPorts0, []⟩]⟩,
    ⟨b!"privileged", .baseline, [⟨.mm 1 0, .privileged0, []⟩]⟩,
    ⟨b!"procMount", .baseline, [⟨.mm 1 0, .procMount0, []⟩]⟩,
    ⟨b!"restrictedVolumes", .restricted, [⟨.mm 1 0, .restrictedVolumes0, [b!"hostPathVolumes"]⟩]⟩,
    ⟨b!"runAsNonRoot", .restricted, [⟨.mm 1 0, .runAsNonRoot0, []⟩]⟩,
    ⟨b!"runAsUser", .restricted, [⟨.mm 1 23, .runAsUser23, []⟩]⟩,
    ⟨b!"seLinuxOptions", .baseline, [⟨.mm 1 0, .seLinux0, []⟩, ⟨.mm 1 31, .seLinux31, []⟩]⟩,
    ⟨b!"seccompProfile_baseline", .baseline, [⟨.mm 1 0, .seccompB0, []⟩, ⟨.mm 1 19, .seccompB19, []⟩]⟩,
    ⟨b!"seccompProfile_restricted", .restricted, [⟨.mm 1 19, .seccompR19, [b!"seccompProfile_baseline"]⟩, ⟨.mm 1 25, .seccompR25, [b!"seccompProfile_baseline"]⟩]⟩,
    ⟨b!"sysctls", .baseline, [⟨.mm 1 0, .sysctls0, []⟩, ⟨.mm 1 27, .sysctls27, []⟩, ⟨.mm 1 29, .sysctls29, []⟩, ⟨.mm 1 32, .sysctls32, []⟩]⟩,
    ⟨b!"windowsHostProcess", .baseline, [⟨.mm 1 0, .hostProcess0, []⟩]⟩ ]

theorem shipped_wf : WellFormed shipped where
  ids := by decide
  levels := by decide
  nonempty := by decide
  major := by decide
  increasing := by decide
  overrides := by decide

theorem shipped_max : maxVersionOf shipped = .mm 1 32 := by decide

/-- which revisions run, written the way a reader of the Standard would: by version thresholds -/
def activeBaseline (V : Nat) : List RevId :=
  [.appArmor0, .capsBaseline0, .hostNamespaces0, .hostPath0, .hostPorts0, .privileged0, .procMount0,
   (if V < 31 then .seLinux0 else .seLinux31), (if V < 19 then .seccompB0 else .seccompB19),
   (if V < 27 then .sysctls0 else if V < 29 then .sysctls27 else if V < 32 then .sysctls29 else .sysctls32),
   .hostProcess0]

def activeRestricted (V : Nat) : List RevId :=
  [.appArmor0] ++ (if V < 22 then [.capsBaseline0] else []) ++ [.hostNamespaces0, .hostPorts0, .privileged0, .procMount0,
   (if V < 31 then .seLinux0 else .seLinux31)] ++ (if V < 19 then [.seccompB0] else []) ++
   [(if V < 27 then .sysctls0 else if V < 29 then .sysctls27 else if V < 32 then .sysctls29 else .sysctls32),
   .hostProcess0] ++
   (if V < 8 then [] else if V < 25 then [.allowPrivEsc8] else [.allowPrivEsc25]) ++
   (if V < 22 then [] else if V < 25 then [.capsRestricted22] else [.capsRestricted25]) ++
   [.restrictedVolumes0, .runAsNonRoot0] ++ (if V < 23 then [] else [.runAsUser23]) ++
   (if V < 19 then [] else if V < 25 then [.seccompR19] else [.seccompR25])

theorem spec_baseline_table : ∀ V, V ≤ 32 → spec shipped .baseline V = activeBaseline V := by decide
theorem spec_restricted_table : ∀ V, V ≤ 32 → spec shipped .restricted V = activeRestricted V := by decide

end PSA

import Psa.Revs
import Psa.Registry
import Psa.Generated.Meta
namespace PSA

/-- the model function of a registered revision is found by (check id, minimum minor version) -/
def revTable : List ((Str × Nat) × RevId) :=
  [ ((b!"allowPrivilegeEscalation", 8), .allowPrivEsc8), ((b!"allowPrivilegeEscalation", 25), .allowPrivEsc25),
    ((b!"appArmorProfile", 0), .appArmor0), ((b!"capabilities_baseline", 0), .capsBaseline0),
    ((b!"capabilities_restricted", 22), .capsRestricted22), ((b!"capabilities_restricted", 25), .capsRestricted25),
    ((b!"hostNamespaces", 0), .hostNamespaces0), ((b!"hostPathVolumes", 0), .hostPath0), ((b!"hostPorts", 0), .hostPorts0),
    ((b!"privileged", 0), .privileged0), ((b!"procMount", 0), .procMount0), ((b!"restrictedVolumes", 0), .restrictedVolumes0),
    ((b!"runAsNonRoot", 0), .runAsNonRoot0), ((b!"runAsUser", 23), .runAsUser23),
    ((b!"seLinuxOptions", 0), .seLinux0), ((b!"seLinuxOptions", 31), .seLinux31),
    ((b!"seccompProfile_baseline", 0), .seccompB0), ((b!"seccompProfile_baseline", 19), .seccompB19),
    ((b!"seccompProfile_restricted", 19), .seccompR19), ((b!"seccompProfile_restricted", 25), .seccompR25),
    ((b!"sysctls", 0), .sysctls0), ((b!"sysctls", 27), .sysctls27), ((b!"sysctls", 29), .sysctls29), ((b!"sysctls", 32), .sysctls32),
    ((b!"windowsHostProcess", 0), .hostProcess0) ]

def revOf (id : Str) (minor : Nat) : Option RevId := (revTable.find? (fun e => e.1 = (id, minor))).map (·.2)

/-- registration metadata (regenerated from policy.DefaultChecks() on every run) with the model revision attached -/
def shipped : List (Check RevId) :=
  Generated.metaChecks.map (fun c =>
    ⟨c.1, c.2.1, c.2.2.map (fun r => ⟨.mm r.1 r.2.1, (revOf c.1 r.2.1).getD .privileged0, r.2.2⟩)⟩)

end PSA

import Psa.JsonIO
import Psa.Config
import Psa.Setup
namespace PSA.IO
open Lean PSA PSA.Config

def v0 (j : Json) : R V0 := do
  if j.isNull then return .null
  match j.getObjVal? "s" with
  | .ok s => return .str (← str s)
  | .error _ => return .other

def v1 (j : Json) : R V1 := do
  if j.isNull then return .null
  if let .ok s := j.getObjVal? "s" then return .str (← str s)
  if let .ok l := j.getObjVal? "list" then return .list (← arrOf v0 l)
  if let .ok _ := j.getObjVal? "obj" then return .obj
  return .other

def v2 (j : Json) : R V2 := do
  if j.isNull then return .null
  if let .ok s := j.getObjVal? "s" then return .str (← str s)
  if let .ok l := j.getObjVal? "list" then return .list (← arrOf v0 l)
  if let .ok o := j.getObjVal? "obj" then
    return .obj (← arrOf (fun e => do
      let a ← e.getArr?
      if h : a.size = 2 then return (← str a[0], ← v1 a[1]) else throw "pair expected") o)
  return .other

def docOf (j : Json) : R (Option Doc) := do
  if j.isNull then return none
  return some (← arrOf (fun e => do
    let a ← e.getArr?
    if h : a.size = 2 then return (← str a[0], ← v2 a[1]) else throw "pair expected") j)

def jcfg (c : Cfg) : Json :=
  Json.mkObj [("enforce", jstr c.defaults.enforce), ("enforceVersion", jstr c.defaults.enforceVersion),
    ("audit", jstr c.defaults.audit), ("auditVersion", jstr c.defaults.auditVersion),
    ("warn", jstr c.defaults.warn), ("warnVersion", jstr c.defaults.warnVersion),
    ("usernames", jstrs c.exemptions.usernames), ("namespaces", jstrs c.exemptions.namespaces),
    ("runtimeClasses", jstrs c.exemptions.runtimeClasses)]

def loadConfigOp (j : Json) : R Json := do
  let d ← docOf (fldD j "doc")
  match load d with
  | none => return Json.mkObj [("ok", Json.bool false)]
  | some c =>
    let errs := validate c
    return Json.mkObj [("ok", Json.bool true), ("cfg", jcfg c),
      ("errs", Json.arr (errs.map (fun e => Json.arr #[jstr e.path,
          (match e.index with | some i => Json.num (i : JsonNumber) | none => Json.null),
          Json.str (match e.kind with | .invalid => "invalid" | .duplicate => "duplicate")])).toArray),
      ("policy", match toPolicy c.defaults with | some p => jpolicy p | none => Json.null)]

def errName : Setup.Err → String
  | .noConfiguration => "noConfiguration" | .invalid => "invalid" | .toPolicy => "toPolicy" | .policyMismatch => "policyMismatch"
  | .limitsNotSet => "limitsNotSet" | .noMetrics => "noMetrics" | .noExtractor => "noExtractor" | .noEvaluator => "noEvaluator"
  | .noGetter => "noGetter" | .noLister => "noLister"

/-- LoadConfig + Setup of the webhook on a document -/
def setupOp (j : Json) : R Json := do
  let d ← docOf (fldD j "doc")
  match Setup.setup d with
  | .loadError => return Json.mkObj [("outcome", "loadError")]
  | .setupError e => return Json.mkObj [("outcome", "setupError"), ("err", errName e)]
  | .serving p ex => return Json.mkObj [("outcome", "serving"), ("policy", jpolicy p),
      ("usernames", jstrs ex.usernames), ("namespaces", jstrs ex.namespaces), ("runtimeClasses", jstrs ex.runtimeClasses)]

/-- an embedder may hand the controller a configuration it built itself: fields blanked after loading -/
def blankFields (names : List String) (c : Config.Cfg) : Config.Cfg :=
  names.foldl (fun c n =>
    let d := c.defaults
    { c with defaults := match n with
      | "enforce" => { d with enforce := [] } | "enforceVersion" => { d with enforceVersion := [] }
      | "audit" => { d with audit := [] } | "auditVersion" => { d with auditVersion := [] }
      | "warn" => { d with warn := [] } | "warnVersion" => { d with warnVersion := [] }
      | _ => d }) c

/-- a controller assembled by hand: which dependencies are set, whether CompleteConfiguration is called, whether the
    configuration is exchanged afterwards; answer: the error class of CompleteConfiguration / ValidateConfiguration -/
def controllerOp (j : Json) : R Json := do
  let b1 ← arrOf (fun x => x.getStr?) (fldD j "blank")
  let b2 ← arrOf (fun x => x.getStr?) (fldD j "blankExchange")
  let cfg := (Config.load (← docOf (fldD j "doc"))).map (blankFields b1)
  let cfg' := (Config.load (← docOf (fldD j "exchange"))).map (blankFields b2)
  let cfg0 : Option Config.Cfg := if boolD j "noCfg" then none else cfg
  let c0 : Setup.Ctl := Setup.Ctl.mk cfg0 none 0 0 (boolD j "metrics") (boolD j "extractor") (boolD j "evaluator") (boolD j "getter") (boolD j "lister")
  let c1 ← (if boolD j "complete" then
      match Setup.complete c0 with
      | .ok c => pure (Except.ok c)
      | .error e => pure (Except.error e)
    else pure (Except.ok c0) : R (Except Setup.Err Setup.Ctl))
  match c1 with
  | .error e => return Json.mkObj [("complete", errName e)]
  | .ok c =>
    let c := if boolD j "doExchange" then { c with cfg := cfg' } else c
    return Json.mkObj [("complete", "ok"), ("validate", match Setup.validateCtl c with | none => "ok" | some e => errName e)]

end PSA.IO

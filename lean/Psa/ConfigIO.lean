import Psa.JsonIO
import Psa.Config
namespace PSA.IO
open Lean PSA PSA.Config

def v0 (j : Json) : R V0 := do
  if j.isNull then return .null
  match j.getObjVal? "s" with
  | .ok s => return .str (← str s)
  | .error _ => return .other

def v1 (j : Json) : R V1 := do
  if j.isNull then return .null
  if let .ok s := j.getObjVal? "s" then return .str (← str s)
  if let .ok l := j.getObjVal? "list" then return .list (← arrOf v0 l)
  if let .ok _ := j.getObjVal? "obj" then return .obj
  return .other

def v2 (j : Json) : R V2 := do
  if j.isNull then return .null
  if let .ok s := j.getObjVal? "s" then return .str (← str s)
  if let .ok l := j.getObjVal? "list" then return .list (← arrOf v0 l)
  if let .ok o := j.getObjVal? "obj" then
    return .obj (← arrOf (fun e => do
      let a ← e.getArr?
      if h : a.size = 2 then return (← str a[0], ← v1 a[1]) else throw "pair expected") o)
  return .other

def docOf (j : Json) : R (Option Doc) := do
  if j.isNull then return none
  return some (← arrOf (fun e => do
    let a ← e.getArr?
    if h : a.size = 2 then return (← str a[0], ← v2 a[1]) else throw "pair expected") j)

def jcfg (c : Cfg) : Json :=
  Json.mkObj [("enforce", jstr c.defaults.enforce), ("enforceVersion", jstr c.defaults.enforceVersion),
    ("audit", jstr c.defaults.audit), ("auditVersion", jstr c.defaults.auditVersion),
    ("warn", jstr c.defaults.warn), ("warnVersion", jstr c.defaults.warnVersion),
    ("usernames", jstrs c.exemptions.usernames), ("namespaces", jstrs c.exemptions.namespaces),
    ("runtimeClasses", jstrs c.exemptions.runtimeClasses)]

def loadConfigOp (j : Json) : R Json := do
  let d ← docOf (fldD j "doc")
  match load d with
  | none => return Json.mkObj [("ok", Json.bool false)]
  | some c =>
    let errs := validate c
    return Json.mkObj [("ok", Json.bool true), ("cfg", jcfg c),
      ("errs", Json.arr (errs.map (fun e => Json.arr #[jstr e.path,
          (match e.index with | some i => Json.num (i : JsonNumber) | none => Json.null),
          Json.str (match e.kind with | .invalid => "invalid" | .duplicate => "duplicate")])).toArray),
      ("policy", match toPolicy c.defaults with | some p => jpolicy p | none => Json.null)]

end PSA.IO

import Psa.C03Relax
/-! The order of the levels for EVERY evaluator built from a subset of the shipped checks (`policy.NewEvaluator` takes any
    well-formed check list; embedders do pass subsets). A generic lemma about the resolution rule `spec`: if, at version V,
    every override edge present in the check set is sound for a predicate `ok` on revisions, then `ok` on everything the
    restricted level runs implies `ok` on everything the baseline level runs. Then the edges of the shipped table are
    enumerated by the kernel and each is discharged by the checks' specifications. -/
namespace PSA

section generic
variable {α : Type}

/-- every override edge present at `V`: a restricted check's selected revision `r` names baseline id `o`, whose selected
    revision is `b` -/
def EdgesSound (cs : List (Check α)) (V : Nat) (ok : α → Prop) : Prop :=
  ∀ rid ∈ (cs.filter (fun c => c.level == .restricted)).map (·.id), ∀ r, selById cs V rid = some r →
    ∀ o ∈ r.overrides, ∀ b, selById cs V o = some b → ok r.fn → ok b.fn

theorem spec_order (cs : List (Check α)) (V : Nat) (ok : α → Prop) (hE : EdgesSound cs V ok)
    (h : ∀ x ∈ spec cs .restricted V, ok x) : ∀ x ∈ spec cs .baseline V, ok x := by
  intro x hx
  simp only [spec, List.mem_filterMap, Option.map_eq_some_iff] at hx
  obtain ⟨id, hid, b, hb, rfl⟩ := hx
  by_cases hov : ((sortIds ((cs.filter (fun c => c.level == .restricted)).map (·.id))).flatMap
      (fun id => overridesOf (selById cs V id))).contains id = true
  · -- overridden: some restricted revision present names it
    rw [List.contains_iff_mem, List.mem_flatMap] at hov
    obtain ⟨rid, hrid, hmem⟩ := hov
    rw [mem_sortIds] at hrid
    cases hr : selById cs V rid with
    | none => simp [hr, overridesOf] at hmem
    | some r =>
      simp only [hr, overridesOf] at hmem
      have hokr : ok r.fn := by
        apply h
        simp only [spec, List.mem_append, List.mem_filterMap, Option.map_eq_some_iff]
        exact Or.inr ⟨rid, (mem_sortIds _ _).mpr hrid, r, hr, rfl⟩
      exact hE rid hrid r hr id hmem b hb hokr
  · -- not overridden: the restricted level runs it too
    apply h
    simp only [spec, List.mem_append, List.mem_filterMap, Option.map_eq_some_iff, List.mem_filter]
    refine Or.inl ⟨id, ⟨hid, ?_⟩, b, hb, rfl⟩
    simpa using hov

end generic
end PSA

namespace PSA
section filtered
variable {α : Type}

theorem selById_filter_some (cs : List (Check α)) (keep : Check α → Bool) (V : Nat) (id : Str) (r : Rev α)
    (hn : (cs.map (·.id)).Nodup) (h : selById (cs.filter keep) V id = some r) : selById cs V id = some r := by
  simp only [selById, findCheck_filter cs keep hn id] at h ⊢
  cases hf : findCheck cs id with
  | none => simp [hf, Option.filter] at h
  | some c =>
    rw [hf] at h
    by_cases hk : keep c = true
    · simpa [Option.filter, hk] using h
    · simp [Option.filter, hk] at h

theorem edgesSound_filter (cs : List (Check α)) (keep : Check α → Bool) (V : Nat) (ok : α → Prop)
    (hn : (cs.map (·.id)).Nodup) (h : EdgesSound cs V ok) : EdgesSound (cs.filter keep) V ok := by
  intro rid hrid r hr o ho b hb
  refine h rid ?_ r (selById_filter_some cs keep V rid r hn hr) o ho b (selById_filter_some cs keep V o b hn hb)
  simp only [List.mem_map, List.mem_filter] at hrid ⊢
  obtain ⟨c, ⟨⟨hc, _⟩, hl⟩, rfl⟩ := hrid
  exact ⟨c, ⟨hc, hl⟩, rfl⟩

theorem wellFormed_filter (cs : List (Check α)) (keep : Check α → Bool) (h : WellFormed cs) : WellFormed (cs.filter keep) where
  ids := h.ids.sublist ((List.filter_sublist (l := cs)).map _)
  levels := fun c hc => h.levels c (List.mem_filter.mp hc).1
  nonempty := fun c hc => h.nonempty c (List.mem_filter.mp hc).1
  major := fun c hc => h.major c (List.mem_filter.mp hc).1
  increasing := fun c hc => h.increasing c (List.mem_filter.mp hc).1
  overrides := fun c hc r hr hne =>
    let ⟨h1, h2⟩ := h.overrides c (List.mem_filter.mp hc).1 r hr hne
    ⟨h1, fun o ho c' hc' => h2 o ho c' (List.mem_filter.mp hc').1⟩

end filtered
end PSA

namespace PSA

/-- the override edges of the shipped table: (overriding restricted revision, overridden baseline revision) -/
def edgeList : List (RevId × RevId) :=
  [(.capsRestricted22, .capsBaseline0), (.capsRestricted25, .capsBaseline0), (.restrictedVolumes0, .hostPath0),
   (.seccompR19, .seccompB19), (.seccompR25, .seccompB19)]

/-- each edge is sound for API-valid pods, with the switch in either position -/
theorem edge_sound (T : Tables) (hT : TablesOK T) (relax : Bool) (p : Pod) (hp : ApiValidT T p) :
    ∀ e ∈ edgeList, (run T relax e.1 p).allowed = true → (run T relax e.2 p).allowed = true := by
  have e2 : (run T relax RevId.capsBaseline0 p).allowed = true ↔ Std.capabilities T p := capabilitiesBaseline_spec T p
  have e4 : (run T relax RevId.hostPath0 p).allowed = true ↔ Std.hostPath p := hostPath_spec p
  have e9 : (run T relax RevId.restrictedVolumes0 p).allowed = true ↔ Std.volumeTypes T p := restrictedVolumes_spec T p
  have e13 : (run T relax RevId.capsRestricted22 p).allowed = true ↔ Std.capabilitiesRestricted T p := capabilitiesRestricted_1_22_spec T p
  have e14 : (run T relax RevId.seccompR19 p).allowed = true ↔ Std.seccompRequired T p := seccompRestricted_1_19_spec T p
  have e16 : (run T relax RevId.seccompB19 p).allowed = true ↔ Std.seccompField T p := seccompBaseline_1_19_spec T p
  have w13 : (run T relax RevId.capsRestricted25 p).allowed = true ↔ (p.windowsOS T = true ∨ Std.capabilitiesRestricted T p) := by
    show (capabilitiesRestricted_1_25 T p).allowed = true ↔ _
    unfold capabilitiesRestricted_1_25
    by_cases hw : p.windowsOS T = true
    · simp [hw, CheckOut.ok]
    · simp only [hw, Bool.false_eq_true, ↓reduceIte, false_or]; exact capabilitiesRestricted_1_22_spec T p
  have w14 : (run T relax RevId.seccompR25 p).allowed = true ↔ (p.windowsOS T = true ∨ Std.seccompRequired T p) := by
    show (seccompRestricted_1_25 T p).allowed = true ↔ _
    unfold seccompRestricted_1_25
    by_cases hw : p.windowsOS T = true
    · simp [hw, CheckOut.ok]
    · simp only [hw, Bool.false_eq_true, ↓reduceIte, false_or]; exact seccompRestricted_1_19_spec T p
  have hHP : Std.volumeTypes T p → Std.hostPath p := volumeTypes_hostPath T p hT.hostPathNotAllowed hp.1
  have hCB : Std.capabilitiesRestricted T p → Std.capabilities T p := capsRestricted_baseline T p hT.restrictedAddSub
  have hWC : p.windowsOS T = true → Std.capabilities T p := windows_caps T p hp
  have hWS : p.windowsOS T = true → Std.seccompField T p := windows_seccomp T p hp
  intro e he
  simp only [edgeList, List.mem_cons, List.mem_nil_iff, or_false] at he
  rcases he with rfl | rfl | rfl | rfl | rfl
  · exact fun h => e2.mpr (hCB (e13.mp h))
  · exact fun h => e2.mpr ((w13.mp h).elim hWC hCB)
  · exact fun h => e4.mpr (hHP (e9.mp h))
  · exact fun h => e16.mpr (e14.mp h).1
  · exact fun h => e16.mpr ((w14.mp h).elim hWS (fun h' => h'.1))

/-- the shipped table has no other edges, at any version up to the newest -/
def edgesOK (V : Nat) : Bool :=
  ((shipped.filter (fun c => c.level == .restricted)).map (·.id)).all fun rid =>
    match selById shipped V rid with
    | none => true
    | some r => r.overrides.all fun o =>
        match selById shipped V o with
        | none => true
        | some b => edgeList.contains (r.fn, b.fn)

theorem shipped_edgesOK : ∀ V, V ≤ 32 → edgesOK V = true := by decide +kernel

theorem shipped_mins_le : ∀ c ∈ shipped, ∀ r ∈ c.revs, r.min.minor ≤ 32 := by decide +kernel

theorem selById_shipped_clamp (V : Nat) (id : Str) : selById shipped V id = selById shipped (min V 32) id := by
  by_cases hV : V ≤ 32
  · rw [Nat.min_eq_left hV]
  · have h32 : 32 ≤ V := by omega
    rw [Nat.min_eq_right h32]
    simp only [selById]
    cases hf : findCheck shipped id with
    | none => rfl
    | some c =>
      have hc : c ∈ shipped := List.mem_of_find?_eq_some hf
      simp only [Option.bind_some, selected]
      congr 1
      apply List.filter_congr
      intro r hr
      have := shipped_mins_le c hc r hr
      simp only [decide_eq_decide]
      omega

theorem shipped_edgesSound (T : Tables) (hT : TablesOK T) (relax : Bool) (p : Pod) (hp : ApiValidT T p) (V : Nat) :
    EdgesSound shipped V (fun r => (run T relax r p).allowed = true) := by
  intro rid hrid r hr o ho b hb
  rw [selById_shipped_clamp] at hr hb
  have hok := shipped_edgesOK (min V 32) (Nat.min_le_right V 32)
  simp only [edgesOK, List.all_eq_true] at hok
  have h1 := hok rid hrid
  simp only [hr, List.all_eq_true] at h1
  have h2 := h1 o ho
  simp only [hb] at h2
  exact edge_sound T hT relax p hp (r.fn, b.fn) (List.contains_iff_mem.mp h2)

/-- **C03 for every evaluator built from a subset of the shipped checks**: whatever checks are kept, at every requestable
    version and with the switch in either position, an API-valid pod allowed at restricted is allowed at baseline -/
theorem C03_order_subset (T : Tables) (hT : TablesOK T) (relax : Bool) (keep : Check RevId → Bool) (v : Ver) (p : Pod)
    (hv : v = .latest ∨ ∃ n, v = .mm 1 n) (hp : ApiValidT T p)
    (h : allowedAll (((populate (shipped.filter keep)).evaluate .restricted v).map (fun r => run T relax r p)) = true) :
    allowedAll (((populate (shipped.filter keep)).evaluate .baseline v).map (fun r => run T relax r p)) = true := by
  have hwf := wellFormed_filter shipped keep shipped_wf
  rw [C04_resolves _ hwf _ v hv] at h ⊢
  generalize clampV (maxVersionOf (shipped.filter keep)).minor v = V at h ⊢
  simp only [allowedAll, List.all_map, List.all_eq_true, Function.comp] at h ⊢
  exact spec_order _ V (fun r => (run T relax r p).allowed = true)
    (edgesSound_filter shipped keep V _ shipped_wf.ids (shipped_edgesSound T hT relax p hp V)) h

#print axioms spec_order
#print axioms C03_order_subset
end PSA

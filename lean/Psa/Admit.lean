import Psa.Admission
import Psa.Pod
/-! The admission front end: Validate / ValidateNamespace / ValidatePod / ValidatePodController /
    EvaluatePodsInNamespace / prioritizePods, with dependencies as inputs and effects as outputs. -/
namespace PSA

structure PodObj where
  name : Str
  pod : Pod
  runtimeClass : Option Str := none
  owner : Option Str := none          -- uid of the controller owner reference, if any
  deriving DecidableEq, Repr

inductive Obj
  | pod (p : PodObj)
  | ns (name : Str) (labels : Labels)
  | controller (template : Option PodObj)   -- any of the eight kinds, after ExtractPodSpec
  | other                                   -- a type ExtractPodSpec does not know
  | nil
  deriving Repr

inductive Res | namespaces | pods | other deriving DecidableEq, Repr
inductive Op | create | update | delete | connect deriving DecidableEq, Repr

structure Request where
  res : Res
  sub : Str := []
  op : Op := .create
  name : Str := []
  ns : Str := []
  user : Str := []
  obj : Except Unit Obj := .ok .nil
  old : Except Unit Obj := .ok .nil

structure World (E : Type) where
  getNs : Except Unit Labels
  listPods : Except Unit (List PodObj) := .ok []
  /-- ctx.Err() ≠ nil from the k-th evaluator call of the dry run on (0-based); none = never -/
  expireAfter : Option Nat := none
  /-- request deadline minus now, in ns, when the request context has a deadline -/
  remaining : Option Int := none
  ev : E

inductive Warning
  | policy (lv : LevelVersion) (a : Agg)
  | exemptNamespace (text : Str)
  | listFailed
  | onlyChecked (checked total : Nat)
  | header (ns : Str) (lv : LevelVersion)
  | podLine (text : Str)               -- "<first>[ (and N other pod[s])]: <reasons>", already decorated
  deriving DecidableEq, Repr

def Warning.text : Warning → Str
  | .policy lv a => b!"would violate PodSecurity " ++ goQuote lv.str ++ b!": " ++ a.detailText
  | .exemptNamespace t => t
  | .listFailed => b!"failed to list pods while checking new PodSecurity enforce level"
  | .onlyChecked c t =>
      b!"new PodSecurity enforce level only checked against the first " ++ itoa c ++ b!" of " ++ itoa t ++ b!" existing pods"
  | .header ns lv =>
      b!"existing pods in namespace " ++ goQuote ns ++ b!" violate the new PodSecurity enforce level " ++ goQuote lv.str
  | .podLine t => t

structure Resp where
  allowed : Bool
  code : Nat := 0                      -- 0 = no status; 400, 403, 422, 500
  fieldErrs : List FieldErr := []      -- causes of a 422
  enforcedLV : Option LevelVersion := none
  details : Option Agg := none
  warnings : List Warning := []
  annExempt : Option Str := none
  annError : Bool := false
  annEnforce : Option LevelVersion := none
  annAudit : Option (LevelVersion × Agg) := none
  deriving DecidableEq, Repr

structure Eff where
  metrics : List Metric := []
  evalCalls : List (LevelVersion × Str) := []   -- (policy, pod name)
  listCalls : Nat := 0
  listTimeout : Int := 0                         -- ns; meaningful when listCalls = 1
  deriving DecidableEq, Repr

def allowPlain : Resp := { allowed := true }
def errResp (code : Nat) : Resp := { allowed := false, code := code, annError := true }

def ignoredSubresources : List Str :=
  [b!"exec", b!"attach", b!"binding", b!"eviction", b!"log", b!"portforward", b!"proxy", b!"status"]

abbrev Ev := LevelVersion → PodObj → List CheckResult

/-! ### significance of a pod update -/

def images (cs : List Container) : List Str := cs.map (·.image)

def ephemeralChanged (new old : List Container) : Bool :=
  new.any (fun c => match old.find? (fun oc => oc.name = c.name) with
    | none => true
    | some oc => c.image != oc.image)

def isSignificant (new old : Pod) : Bool :=
  new.containers.length != old.containers.length ||
  new.initContainers.length != old.initContainers.length ||
  images new.containers != images old.containers ||
  images new.initContainers != images old.initContainers ||
  ephemeralChanged new.ephemeralContainers old.ephemeralContainers

/-! ### EvaluatePod on a PodObj -/

def evaluateObj (ev : Ev) (cfg : Config) (pol : Policy) (polErr : Bool) (o : PodObj) (enforce : Bool) : Resp × Eff :=
  let out := evaluatePod (fun lv (x : PodObj) => ev lv x) cfg pol polErr ⟨o, o.runtimeClass⟩ enforce
  ({ allowed := out.resp.allowed, code := out.resp.code, enforcedLV := out.resp.enforcedLV, details := out.resp.details,
     warnings := out.resp.warnings.map (fun w => Warning.policy w.1 w.2), annExempt := out.resp.annExempt,
     annError := out.resp.annError, annEnforce := out.resp.annEnforce, annAudit := out.resp.annAudit },
   { metrics := out.metrics, evalCalls := out.evalCalls.map (fun lv => (lv, o.name)) })

/-! ### ValidatePod -/

def validatePod (pv : Str → Ver × Bool) (cfg : Config) (w : World Ev) (r : Request) : Resp × Eff :=
  if ignoredSubresources.contains r.sub then (allowPlain, {})
  else if exempt r.ns cfg.exNamespaces then ({ allowed := true, annExempt := some b!"namespace" }, { metrics := [.exemption] })
  else if exempt r.user cfg.exUsers then ({ allowed := true, annExempt := some b!"user" }, { metrics := [.exemption] })
  else match w.getNs with
  | .error _ => (errResp 500, { metrics := [.error true] })
  | .ok labels =>
    let (pol, errs) := policyToEvaluate pv labels cfg.defaults
    if errs.isEmpty && pol.fullyPrivileged then
      ({ allowed := true, annEnforce := some ⟨.privileged, .latest⟩ }, { metrics := [.eval true pol.enforce 0] })
    else match r.obj with
    | .ok (.pod p) =>
      if r.op = .update then
        match r.old with
        | .ok (.pod q) =>
          if isSignificant p.pod q.pod then evaluateObj w.ev cfg pol (!errs.isEmpty) p true
          else (allowPlain, {})
        | _ => (errResp 400, { metrics := [.error true] })
      else evaluateObj w.ev cfg pol (!errs.isEmpty) p true
    | _ => (errResp 400, { metrics := [.error true] })

/-! ### ValidatePodController -/

def allowWithError : Resp := { allowed := true, annError := true }

def validateController (pv : Str → Ver × Bool) (cfg : Config) (w : World Ev) (r : Request) : Resp × Eff :=
  if r.sub ≠ [] then (allowPlain, {})
  else if exempt r.ns cfg.exNamespaces then ({ allowed := true, annExempt := some b!"namespace" }, { metrics := [.exemption] })
  else if exempt r.user cfg.exUsers then ({ allowed := true, annExempt := some b!"user" }, { metrics := [.exemption] })
  else match w.getNs with
  | .error _ => (allowWithError, { metrics := [.error true] })
  | .ok labels =>
    let (pol, errs) := policyToEvaluate pv labels cfg.defaults
    if errs.isEmpty && pol.warn.level == .privileged && pol.audit.level == .privileged then (allowPlain, {})
    else match r.obj with
    | .error _ => (allowWithError, { metrics := [.error true] })
    | .ok (.pod p) => evaluateObj w.ev cfg pol (!errs.isEmpty) p false
    | .ok (.controller (some t)) => evaluateObj w.ev cfg pol (!errs.isEmpty) t false
    | .ok (.controller none) => (allowPlain, {})
    | .ok _ => (allowWithError, { metrics := [.error true] })

end PSA

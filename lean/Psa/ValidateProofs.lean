import Psa.RegistrySpec
/-! `validateChecks` accepts exactly the well-formed check sets (on the domain where every registered revision version is
    `latest`, unset, or `v1.N` — the only values `api.MajorMinorVersion(1, _)`, `api.LatestVersion()` and the zero value give). -/
namespace PSA

variable {α : Type}

/-- the domain of one revision: no major version other than 1 -/
def Ver.OneMajor (v : Ver) : Prop := v = .latest ∨ v = .unset ∨ ∃ n, v = .mm 1 n

/-- the domain: no revision with a major version other than 1 -/
def OneMajorDomain (cs : List (Check α)) : Prop := ∀ c ∈ cs, ∀ r ∈ c.revs, r.min.OneMajor

theorem Ver.minor_mm (a b : Nat) : (Ver.mm a b).minor = b := rfl

/-- the per-check revision loop after a `v1.p` revision: accepted iff every later version is v1.N, above p, strictly increasing -/
theorem revsOk_mm_iff (revs : List (Rev α)) (p : Nat) (hd : ∀ r ∈ revs, r.min.OneMajor) :
    validateChecks.revsOk (.mm 1 p) revs = true ↔
      (∀ r ∈ revs, r.min = .mm 1 r.min.minor) ∧ revs.Pairwise (fun r r' => r.min.minor < r'.min.minor) ∧
      (∀ r ∈ revs, p < r.min.minor) := by
  induction revs generalizing p with
  | nil => simp [validateChecks.revsOk]
  | cons r rs ih =>
    have hdr := hd r (by simp)
    have hdrs : ∀ x ∈ rs, x.min.OneMajor := fun x hx => hd x (by simp [hx])
    obtain ⟨m, f, o⟩ := r
    simp only [validateChecks.revsOk, List.mem_cons, forall_eq_or_imp, List.pairwise_cons]
    rcases hdr with hl | hu | ⟨n, hn⟩
    · simp only at hl; subst hl; simp
    · simp only at hu; subst hu; simp [Ver.unset, Ver.minor_mm]
    · simp only at hn; subst hn
      simp only [Ver.minor_mm, Ver.unset, bne_iff_ne, ne_eq, Ver.mm.injEq, Bool.and_eq_true, ih n hdrs, Ver.older,
        not_true_eq_false, ↓reduceIte, decide_eq_true_eq, reduceCtorEq, not_false_eq_true, true_and]
      constructor
      · rintro ⟨⟨_, hlt⟩, h1, h2, h3⟩
        exact ⟨h1, ⟨h3, h2⟩, hlt, fun x hx => Nat.lt_trans hlt (h3 x hx)⟩
      · rintro ⟨h1, ⟨h3, h2⟩, hlt, _⟩
        exact ⟨⟨⟨⟨fun h => h.1, trivial⟩, by omega⟩, hlt⟩, h1, h2, h3⟩

theorem revsOk_unset_iff (revs : List (Rev α)) (hd : ∀ r ∈ revs, r.min.OneMajor) :
    validateChecks.revsOk .unset revs = true ↔
      (∀ r ∈ revs, r.min = .mm 1 r.min.minor) ∧ revs.Pairwise (fun r r' => r.min.minor < r'.min.minor) := by
  cases revs with
  | nil => simp [validateChecks.revsOk]
  | cons r rs =>
    have hdr := hd r (by simp)
    have hdrs : ∀ x ∈ rs, x.min.OneMajor := fun x hx => hd x (by simp [hx])
    obtain ⟨m, f, o⟩ := r
    simp only [validateChecks.revsOk, List.mem_cons, forall_eq_or_imp, List.pairwise_cons]
    rcases hdr with hl | hu | ⟨n, hn⟩
    · simp only at hl; subst hl; simp
    · simp only at hu; subst hu; simp [Ver.unset, Ver.minor_mm]
    · simp only at hn; subst hn
      simp only [Ver.minor_mm, Ver.unset, bne_iff_ne, ne_eq, Ver.mm.injEq, Bool.and_eq_true, revsOk_mm_iff rs n hdrs, Ver.older,
        reduceCtorEq, not_false_eq_true, true_and]
      constructor
      · rintro ⟨_, h1, h2, h3⟩
        exact ⟨h1, h3, h2⟩
      · rintro ⟨h1, h3, h2⟩
        exact ⟨⟨⟨⟨fun h => h.1, trivial⟩, fun h => h.1⟩, by simp⟩, h1, h2, h3⟩

/-- the first pass: ids distinct (and not already seen), level baseline or restricted, revisions non-empty and increasing -/
theorem pass1_iff (cs : List (Check α)) (seen : List Str) (hd : OneMajorDomain cs) :
    validateChecks.pass1 seen cs = true ↔
      ((cs.map (·.id)).Nodup ∧ ∀ c ∈ cs, c.id ∉ seen) ∧
      (∀ c ∈ cs, c.level = .baseline ∨ c.level = .restricted) ∧ (∀ c ∈ cs, c.revs ≠ []) ∧
      (∀ c ∈ cs, ∀ r ∈ c.revs, r.min = .mm 1 r.min.minor) ∧
      (∀ c ∈ cs, c.revs.Pairwise (fun r r' => r.min.minor < r'.min.minor)) := by
  induction cs generalizing seen with
  | nil => simp [validateChecks.pass1]
  | cons c rest ih =>
    have hdc : ∀ r ∈ c.revs, r.min = .latest ∨ r.min = .unset ∨ ∃ n, r.min = .mm 1 n := hd c (by simp)
    have hdr : OneMajorDomain rest := fun x hx => hd x (by simp [hx])
    simp only [validateChecks.pass1, Bool.and_eq_true, Bool.not_eq_eq_eq_not, Bool.not_true, List.contains_eq_mem,
      decide_eq_false_iff_not, Bool.or_eq_true, beq_iff_eq, List.isEmpty_eq_false_iff, revsOk_unset_iff c.revs hdc, ih (c.id :: seen) hdr,
      List.map_cons, List.nodup_cons, List.mem_cons, forall_eq_or_imp, List.mem_map, not_exists, not_and, not_or]
    constructor
    · rintro ⟨⟨⟨⟨h1, h2⟩, h3⟩, h4, h5⟩, ⟨h6, h7⟩, h8, h9, h10, h11⟩
      refine ⟨⟨⟨fun x hx heq => (h7 x hx).1 heq, h6⟩, h1, fun x hx => (h7 x hx).2⟩, ⟨h2, h8⟩, ⟨h3, h9⟩, ⟨h4, h10⟩, h5, h11⟩
    · rintro ⟨⟨⟨h1, h2⟩, h3, h4⟩, ⟨h5, h6⟩, ⟨h7, h8⟩, ⟨h9, h10⟩, h11, h12⟩
      exact ⟨⟨⟨⟨h3, h5⟩, h7⟩, h9, h11⟩, ⟨h2, fun x hx => ⟨fun heq => h1 x hx heq, h4 x hx⟩⟩, h6, h8, h10, h12⟩

theorem find_level_of_nodup (cs : List (Check α)) (hnd : (cs.map (·.id)).Nodup) (c : Check α) (hc : c ∈ cs) :
    (cs.find? (fun x => x.id == c.id)).map (·.level) = some c.level := by
  induction cs with
  | nil => cases hc
  | cons x rest ih =>
    simp only [List.map_cons, List.nodup_cons, List.mem_map, not_exists, not_and] at hnd
    simp only [List.find?_cons]
    rcases List.mem_cons.mp hc with rfl | hm
    · simp
    · have : ¬ x.id = c.id := fun h => hnd.1 c hm h.symm
      have hb : (x.id == c.id) = false := by simpa using this
      rw [hb]
      exact ih hnd.2 hm

/-- **C04 (refusal)**: the validator accepts a check set iff it is well formed. -/
theorem validateChecks_iff (cs : List (Check α)) (hd : OneMajorDomain cs) : validateChecks cs = true ↔ WellFormed cs := by
  unfold validateChecks
  simp only [Bool.and_eq_true, pass1_iff cs [] hd, List.not_mem_nil, not_false_eq_true, implies_true, and_true]
  constructor
  · rintro ⟨⟨h1, h2, h3, h4, h5⟩, h6⟩
    refine ⟨h1, h2, h3, h4, h5, ?_⟩
    intro c hc r hr hne
    have := List.all_eq_true.mp (List.all_eq_true.mp h6 c hc) r hr
    simp only [Bool.or_eq_true, List.isEmpty_iff, Bool.and_eq_true, beq_iff_eq, List.all_eq_true] at this
    rcases this with h | ⟨hl, ho⟩
    · exact absurd h hne
    · refine ⟨hl, fun o ho' c' hc' hid => ?_⟩
      have hf := find_level_of_nodup cs h1 c' hc'
      have := ho o ho'
      rw [← hid, hf] at this
      simpa using this
  · intro hwf
    refine ⟨⟨hwf.ids, hwf.levels, hwf.nonempty, hwf.major, hwf.increasing⟩, ?_⟩
    apply List.all_eq_true.mpr
    intro c hc
    apply List.all_eq_true.mpr
    intro r hr
    by_cases hne : r.overrides = []
    · simp [hne]
    · obtain ⟨hl, ho⟩ := hwf.overrides c hc r hr hne
      simp only [Bool.or_eq_true, List.isEmpty_iff, hne, false_or, Bool.and_eq_true, beq_iff_eq, hl, true_and, List.all_eq_true]
      intro o ho'
      cases hf : (cs.find? (fun x => x.id == o)) with
      | none => simp
      | some c' =>
        have hm : c' ∈ cs := List.mem_of_find?_eq_some hf
        have hid : c'.id = o := by simpa using List.find?_some hf
        simp [ho o ho' c' hm hid]

end PSA

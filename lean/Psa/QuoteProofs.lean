import Psa.NamesProofs
import Psa.SortProofs
/-! What stands between double quotes in a rendered detail: the converse of `detail_names`. For names and values free of
    the double-quote byte (container and volume names of API-valid pods are DNS labels), the quoted segments of every detail
    shape are names of listed offenders or values the control quotes — nothing else is named. -/
namespace PSA

/-- scanner over the bytes of a text: `inQ` = inside a quoted segment, `cur` = its bytes so far (reversed) -/
def segsAux (inQ : Bool) (cur : Str) : Str → List Str
  | [] => []
  | c :: rest =>
    if c = 34 then (if inQ then cur.reverse :: segsAux false [] rest else segsAux true [] rest)
    else segsAux inQ (if inQ then c :: cur else cur) rest

/-- the strings between the 1st and 2nd, 3rd and 4th, … double quote of a text -/
def quotedSegs (s : Str) : List Str := segsAux false [] s

/-- free of the double-quote byte -/
def noQ (s : Str) : Prop := (34 : Nat) ∉ s

instance (s : Str) : Decidable (noQ s) := by unfold noQ; infer_instance

theorem noQ_append {a b : Str} : noQ (a ++ b) ↔ noQ a ∧ noQ b := by simp [noQ, not_or]

theorem segs_out_lit (p rest : Str) (h : noQ p) : segsAux false [] (p ++ rest) = segsAux false [] rest := by
  induction p with
  | nil => rfl
  | cons c p ih =>
    have hc : c ≠ 34 := by intro e; exact h (by simp [e])
    have hp : noQ p := by intro m; exact h (by simp [m])
    simp only [List.cons_append, segsAux, hc, ↓reduceIte, Bool.false_eq_true]
    exact ih hp

theorem segs_in_lit (n rest cur : Str) (h : noQ n) :
    segsAux true cur (n ++ 34 :: rest) = (cur.reverse ++ n) :: segsAux false [] rest := by
  induction n generalizing cur with
  | nil => simp [segsAux]
  | cons c n ih =>
    have hc : c ≠ 34 := by intro e; exact h (by simp [e])
    have hn : noQ n := by intro m; exact h (by simp [m])
    simp only [List.cons_append, segsAux, hc, ↓reduceIte]
    rw [ih (c :: cur) hn]
    simp

theorem segs_quoted (n rest : Str) (h : noQ n) : quotedSegs (quoted n ++ rest) = n :: quotedSegs rest := by
  have : quoted n ++ rest = 34 :: (n ++ 34 :: rest) := by simp [quoted]
  simp only [quotedSegs, this, segsAux, ↓reduceIte, Bool.false_eq_true]
  rw [segs_in_lit n rest [] h]; simp

theorem quotedSegs_lit (p rest : Str) (h : noQ p) : quotedSegs (p ++ rest) = quotedSegs rest := segs_out_lit p rest h

theorem quotedSegs_lit_end (p : Str) (h : noQ p) : quotedSegs p = [] := by
  have := segs_out_lit p [] h
  simpa [quotedSegs, segsAux] using this

theorem joinQuote_cons2 (a b : Str) (r : List Str) : joinQuote (a :: b :: r) = quoted a ++ b!", " ++ joinQuote (b :: r) := by
  simp [joinQuote, Str.join, quoted, List.append_assoc]

theorem joinQuote_single (a : Str) : joinQuote [a] = quoted a := by simp [joinQuote, Str.join, quoted]

/-- a quoted, comma-separated list contributes exactly its members -/
theorem segs_joinQuote (l : List Str) (rest : Str) (h : ∀ x ∈ l, noQ x) :
    quotedSegs (joinQuote l ++ rest) = l ++ quotedSegs rest := by
  induction l with
  | nil => simp [joinQuote]
  | cons a r ih =>
    cases r with
    | nil => rw [joinQuote_single, segs_quoted _ _ (h a (by simp))]; rfl
    | cons b r' =>
      rw [joinQuote_cons2, List.append_assoc, List.append_assoc, segs_quoted _ _ (h a (by simp)),
        quotedSegs_lit _ _ (by decide), ih (fun x hx => h x (by simp [hx]))]
      rfl

theorem segs_joinQuote_end (l : List Str) (h : ∀ x ∈ l, noQ x) : quotedSegs (joinQuote l) = l := by
  have := segs_joinQuote l [] h
  simpa [quotedSegs, segsAux] using this

/-- a separator-joined list of quote-free items has no quoted segment -/
theorem noQ_join (sep : Str) (l : List Str) (hs : noQ sep) (h : ∀ x ∈ l, noQ x) : noQ (Str.join sep l) := by
  induction l with
  | nil => simp [Str.join, noQ]
  | cons a r ih =>
    cases r with
    | nil => simpa [Str.join] using h a (by simp)
    | cons b r' =>
      simp only [Str.join]
      exact noQ_append.mpr ⟨noQ_append.mpr ⟨h a (by simp), hs⟩, ih (fun x hx => h x (by simp [hx]))⟩

theorem noQ_pluralize (s p : Str) (n : Nat) (hs : noQ s) (hp : noQ p) : noQ (pluralize s p n) := by
  unfold pluralize; split <;> assumption

/-- `container(s) "a", "b"` followed by anything: exactly the containers are quoted -/
theorem segs_ctrs (cs : List Str) (rest : Str) (h : ∀ x ∈ cs, noQ x) :
    quotedSegs (ctrs cs ++ rest) = cs ++ quotedSegs rest := by
  simp only [ctrs, List.append_assoc]
  rw [quotedSegs_lit _ _ (noQ_pluralize _ _ _ (by decide) (by decide)), quotedSegs_lit _ _ (by decide), segs_joinQuote _ _ h]

/-- the quoted segments of a text that is a concatenation distribute when the first part closes all its quotes; stated for the
    joins the details use: parts, each of which contributes `f part` and ends outside a quote -/
theorem segs_join_parts (sep : Str) (hs : noQ sep) (parts : List Str) (f : Str → List Str) (rest : Str)
    (h : ∀ p ∈ parts, ∀ r, quotedSegs (p ++ r) = f p ++ quotedSegs r) :
    quotedSegs (Str.join sep parts ++ rest) = parts.flatMap f ++ quotedSegs rest := by
  induction parts with
  | nil => simp [Str.join]
  | cons a r ih =>
    cases r with
    | nil => simp [Str.join, h a (by simp)]
    | cons b r' =>
      simp only [Str.join, List.append_assoc]
      rw [h a (by simp), quotedSegs_lit _ _ hs]
      have := ih (fun p hp r => h p (by simp [hp]) r)
      rw [this]; simp

end PSA

import Psa.Admit
/-! `DefaultPodSpecExtractor.ExtractPodSpec` for the eight pod-bearing workload kinds: where the pod template sits in each and
    which of them can lack one. Only a ReplicationController holds its template through a pointer; everywhere else the template
    is a value, and "absent" is the zero template. -/
namespace PSA.Extract
open PSA

inductive WKind
  | podTemplate | replicationController | replicaSet | deployment | statefulSet | daemonSet | job | cronJob
  deriving DecidableEq, Repr

/-- the resource (plural, lower case) that carries each kind -/
def WKind.resource : WKind → Str
  | .podTemplate => b!"podtemplates" | .replicationController => b!"replicationcontrollers" | .replicaSet => b!"replicasets"
  | .deployment => b!"deployments" | .statefulSet => b!"statefulsets" | .daemonSet => b!"daemonsets" | .job => b!"jobs"
  | .cronJob => b!"cronjobs"

def allKinds : List WKind := [.podTemplate, .replicationController, .replicaSet, .deployment, .statefulSet, .daemonSet, .job, .cronJob]

def WKind.ofResource (r : Str) : Option WKind := allKinds.find? (fun k => k.resource == r)

/-- what `ExtractPodSpec` reads of a workload object: its kind and its template slot (`none` = nothing stated there) -/
structure Workload where
  kind : WKind
  template : Option PodObj
  deriving Repr

/-- a template with nothing in it (what a value-typed template field holds when the object states none) -/
def zeroTemplate : PodObj := { name := [], pod := {} }

/-- `ExtractPodSpec` on a workload: `none` = "no pod template" (the controller is not evaluated at all) -/
def extract (w : Workload) : Option PodObj :=
  match w.kind, w.template with
  | .replicationController, none => none
  | _, none => some zeroTemplate
  | _, some t => some t

/-- the object the admission controller sees -/
def toObj (w : Workload) : Obj := .controller (extract w)

theorem extract_none_iff (w : Workload) : extract w = none ↔ w.kind = .replicationController ∧ w.template = none := by
  cases w with | mk k t => cases k <;> cases t <;> simp [extract]

theorem extract_some (w : Workload) (t : PodObj) (h : w.template = some t) : extract w = some t := by
  cases w with | mk k t' => cases k <;> simp_all [extract]

theorem ofResource_resource (k : WKind) : WKind.ofResource k.resource = some k := by cases k <;> decide

end PSA.Extract

import Psa.Registry
import Psa.Digits
namespace PSA

structure LevelVersion where
  level : Level
  version : Ver
  deriving DecidableEq, Repr

structure Policy where
  enforce : LevelVersion
  audit : LevelVersion
  warn : LevelVersion
  deriving DecidableEq, Repr

def Policy.fullyPrivileged (p : Policy) : Bool :=
  p.enforce.level == .privileged && p.audit.level == .privileged && p.warn.level == .privileged

/-- ParseLevel: (level, ok). On error the level is restricted. -/
def parseLevel (s : Str) : Level × Bool :=
  if s = b!"privileged" then (.privileged, true)
  else if s = b!"baseline" then (.baseline, true)
  else if s = b!"restricted" then (.restricted, true)
  else (.restricted, false)

def Level.str : Level → Str
  | .privileged => b!"privileged"
  | .baseline => b!"baseline"
  | .restricted => b!"restricted"

/-- Version.String -/
def Ver.str : Ver → Str
  | .latest => b!"latest"
  | .mm a b => b!"v" ++ itoa a ++ b!"." ++ itoa b

/-- LevelVersion.String -/
def LevelVersion.str (lv : LevelVersion) : Str := lv.level.str ++ b!":" ++ lv.version.str

def maxInt64 : Nat := 9223372036854775807

/-- ParseVersion: (version, ok). On error the version is latest. `^v1\.([0-9]|[1-9][0-9]*)$` then strconv.Atoi,
    which rejects values above 2^63-1. -/
def parseVersion (s : Str) : Ver × Bool :=
  if s = b!"latest" then (.latest, true)
  else if b!"v1.".isPrefixOf s then
    let d := s.drop 3
    if canonicalDec d && decide (digitsVal d ≤ maxInt64) then (.mm 1 (digitsVal d), true) else (.latest, false)
  else (.latest, false)

/-- CompareLevels on valid levels -/
def compareLevels : Level → Level → Int
  | .privileged, .privileged => 0
  | .baseline, .baseline => 0
  | .restricted, .restricted => 0
  | .privileged, _ => -1
  | .restricted, _ => 1
  | .baseline, .privileged => 1
  | .baseline, .restricted => -1

abbrev Labels := List (Str × Str)
def Labels.get (l : Labels) (k : Str) : Option Str := (l.find? (·.1 = k)).map (·.2)

structure FieldErr where
  key : Str
  bad : Str
  deriving DecidableEq, Repr

def kEnforce := b!"pod-security.kubernetes.io/enforce"
def kEnforceV := b!"pod-security.kubernetes.io/enforce-version"
def kAudit := b!"pod-security.kubernetes.io/audit"
def kAuditV := b!"pod-security.kubernetes.io/audit-version"
def kWarn := b!"pod-security.kubernetes.io/warn"
def kWarnV := b!"pod-security.kubernetes.io/warn-version"

def errOf {α : Type} (k : Str) : Option ((α × Bool) × Str) → List FieldErr
  | some ((_, false), s) => [FieldErr.mk k s]
  | _ => []

def valOf {α : Type} (dflt : α) : Option ((α × Bool) × Str) → α
  | some ((a, _), _) => a
  | none => dflt

def okOf {α : Type} : Option ((α × Bool) × Str) → Bool
  | some ((_, ok), _) => ok
  | none => false

/-- audit / warn levels fail open -/
def openLevel (dflt : Level) : Option ((Level × Bool) × Str) → Level
  | some ((l, true), _) => l
  | some ((_, false), _) => .privileged
  | none => dflt

/-- PolicyToEvaluate, parametrised by the version parser (Ver × ok). -/
def policyToEvaluate (pv : Str → Ver × Bool) (labels : Labels) (d : Policy) : Policy × List FieldErr :=
  let e   := (labels.get kEnforce).map (fun s => (parseLevel s, s))
  let ev  := (labels.get kEnforceV).map (fun s => (pv s, s))
  let a   := (labels.get kAudit).map (fun s => (parseLevel s, s))
  let av  := (labels.get kAuditV).map (fun s => (pv s, s))
  let w   := (labels.get kWarn).map (fun s => (parseLevel s, s))
  let wv  := (labels.get kWarnV).map (fun s => (pv s, s))
  let eL := valOf d.enforce.level e
  let eV := valOf d.enforce.version ev
  let wL := openLevel d.warn.level w
  let wV := valOf d.warn.version wv
  let follow := !w.isSome && okOf e && decide (compareLevels eL wL > 0)
  let pol : Policy :=
    { enforce := ⟨eL, eV⟩
      audit := ⟨openLevel d.audit.level a, valOf d.audit.version av⟩
      warn := ⟨if follow then eL else wL, if follow && !wv.isSome then eV else wV⟩ }
  (pol, errOf kEnforce e ++ errOf kEnforceV ev ++ errOf kAudit a ++ errOf kAuditV av ++ errOf kWarn w ++ errOf kWarnV wv)

/-- fail-closed / fail-open statement -/
theorem enforce_bad_is_restricted (pv) (labels : Labels) (d : Policy) (s : Str)
    (h : labels.get kEnforce = some s) (hbad : (parseLevel s).2 = false) :
    (policyToEvaluate pv labels d).1.enforce.level = .restricted := by
  simp only [policyToEvaluate, h, Option.map_some, valOf]
  unfold parseLevel at *
  split <;> simp_all
  split <;> simp_all
  split <;> simp_all

theorem audit_bad_is_privileged (pv) (labels : Labels) (d : Policy) (s : Str)
    (h : labels.get kAudit = some s) (hbad : (parseLevel s).2 = false) :
    (policyToEvaluate pv labels d).1.audit.level = .privileged := by
  simp only [policyToEvaluate, h, Option.map_some]
  cases hp : parseLevel s with
  | mk l ok => simp_all [openLevel]

end PSA

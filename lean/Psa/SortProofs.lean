import Psa.Str
/-! `sortStrs` (sort.Strings) and `sortDedup` (sets.String.List) are characterised: sorted + permutation / same members,
    so any correct sort agrees with them, and they are invariant under permutation of the input. -/
namespace PSA

theorem insertStr_perm (x : Str) (l : List Str) : (insertStr x l).Perm (x :: l) := by
  induction l with
  | nil => simp [insertStr]
  | cons y ys ih =>
    simp only [insertStr]
    split
    · exact List.Perm.refl _
    · exact (List.Perm.cons y ih).trans (List.Perm.swap x y ys)

theorem sortStrs_perm (l : List Str) : (sortStrs l).Perm l := by
  induction l with
  | nil => simp [sortStrs]
  | cons x xs ih =>
    simp only [sortStrs, List.foldr_cons]
    exact (insertStr_perm x _).trans (List.Perm.cons x ih)

theorem insertStr_sorted (x : Str) (l : List Str) (h : l.Pairwise (· ≤ ·)) : (insertStr x l).Pairwise (· ≤ ·) := by
  induction l with
  | nil => simp [insertStr]
  | cons y ys ih =>
    simp only [insertStr]
    rw [List.pairwise_cons] at h
    split
    · next hlt =>
      rw [List.pairwise_cons]
      refine ⟨?_, List.pairwise_cons.mpr h⟩
      intro z hz
      rcases List.mem_cons.mp hz with rfl | hz
      · exact Std.le_of_lt hlt
      · exact Std.le_trans (Std.le_of_lt hlt) (h.1 z hz)
    · next hge =>
      rw [List.pairwise_cons]
      refine ⟨?_, ih h.2⟩
      intro z hz
      rcases List.mem_cons.mp ((insertStr_perm x ys).mem_iff.mp hz) with rfl | hz
      · exact Std.not_lt.mp hge
      · exact h.1 z hz

theorem sortStrs_sorted (l : List Str) : (sortStrs l).Pairwise (· ≤ ·) := by
  induction l with
  | nil => simp [sortStrs]
  | cons x xs ih => simp only [sortStrs, List.foldr_cons]; exact insertStr_sorted x _ ih

/-- sort.Strings does not depend on the order of its input -/
theorem sortStrs_eq_of_perm (l l' : List Str) (h : l.Perm l') : sortStrs l = sortStrs l' := by
  apply List.Perm.eq_of_pairwise (le := (· ≤ ·))
  · intro a b _ _ hab hba; exact Std.le_antisymm hab hba
  · exact sortStrs_sorted l
  · exact sortStrs_sorted l'
  · exact (sortStrs_perm l).trans (h.trans (sortStrs_perm l').symm)

theorem mem_insertDedup (a x : Str) (l : List Str) : a ∈ insertDedup x l ↔ a = x ∨ a ∈ l := by
  induction l with
  | nil => simp [insertDedup]
  | cons y ys ih =>
    simp only [insertDedup]
    split
    · simp
    · split
      · next heq => subst heq; simp
      · simp [ih]; constructor
        · rintro (h | h | h) <;> simp [h]
        · rintro (h | h | h) <;> simp [h]

theorem mem_sortDedup (a : Str) (l : List Str) : a ∈ sortDedup l ↔ a ∈ l := by
  induction l with
  | nil => simp [sortDedup]
  | cons x xs ih => simp only [sortDedup, List.foldr_cons, mem_insertDedup, List.mem_cons]; rw [← ih]; rfl

theorem insertDedup_sorted (x : Str) (l : List Str) (h : l.Pairwise (· < ·)) : (insertDedup x l).Pairwise (· < ·) := by
  induction l with
  | nil => simp [insertDedup]
  | cons y ys ih =>
    simp only [insertDedup]
    rw [List.pairwise_cons] at h
    split
    · next hlt =>
      rw [List.pairwise_cons]
      refine ⟨?_, List.pairwise_cons.mpr h⟩
      intro z hz
      rcases List.mem_cons.mp hz with rfl | hz
      · exact hlt
      · exact Std.lt_trans hlt (h.1 z hz)
    · next hge =>
      split
      · exact List.pairwise_cons.mpr h
      · next hne =>
        rw [List.pairwise_cons]
        refine ⟨?_, ih h.2⟩
        intro z hz
        rcases (mem_insertDedup z x ys).mp hz with rfl | hz
        · have hle : y ≤ z := Std.not_lt.mp hge
          exact Std.lt_of_le_of_ne hle (fun e => hne e.symm)
        · exact h.1 z hz

theorem sortDedup_sorted (l : List Str) : (sortDedup l).Pairwise (· < ·) := by
  induction l with
  | nil => simp [sortDedup]
  | cons x xs ih => simp only [sortDedup, List.foldr_cons]; exact insertDedup_sorted x _ ih

/-- sets.String.List(): strictly increasing, same members — hence independent of insertion order and multiplicity -/
theorem sortDedup_eq_of_same_members (l l' : List Str) (h : ∀ a, a ∈ l ↔ a ∈ l') : sortDedup l = sortDedup l' := by
  have nd : ∀ m : List Str, (sortDedup m).Nodup := fun m =>
    (sortDedup_sorted m).imp (fun hlt heq => by subst heq; exact Std.lt_irrefl hlt)
  apply List.Perm.eq_of_pairwise (le := (· ≤ ·))
  · intro a b _ _ hab hba; exact Std.le_antisymm hab hba
  · exact (sortDedup_sorted l).imp Std.le_of_lt
  · exact (sortDedup_sorted l').imp Std.le_of_lt
  · rw [List.perm_ext_iff_of_nodup (nd l) (nd l')]
    intro a; rw [mem_sortDedup, mem_sortDedup]; exact h a

theorem sortDedup_eq_of_perm (l l' : List Str) (h : l.Perm l') : sortDedup l = sortDedup l' :=
  sortDedup_eq_of_same_members l l' (fun _ => h.mem_iff)

end PSA

import Psa.Render
import Psa.StandardTables
import Psa.RegistrySpec
/-! The Standard's own evaluator: which control revisions apply at policy version v1.V, written by version thresholds the
    way a reader of the published Standard would, run with the *published* allow-lists. It does not look at anything
    regenerated from /repo; the driver uses it as the oracle of C01 / C02 even when a proof obligation is broken. -/
namespace PSA

/-- which revisions run, written the way a reader of the Standard would: by version thresholds -/
def activeBaseline (V : Nat) : List RevId :=
  [.appArmor0, .capsBaseline0, .hostNamespaces0, .hostPath0, .hostPorts0, .privileged0, .procMount0,
   (if V < 31 then .seLinux0 else .seLinux31), (if V < 19 then .seccompB0 else .seccompB19),
   (if V < 27 then .sysctls0 else if V < 29 then .sysctls27 else if V < 32 then .sysctls29 else .sysctls32),
   .hostProcess0]

def activeRestricted (V : Nat) : List RevId :=
  [.appArmor0] ++ (if V < 22 then [.capsBaseline0] else []) ++ [.hostNamespaces0, .hostPorts0, .privileged0, .procMount0,
   (if V < 31 then .seLinux0 else .seLinux31)] ++ (if V < 19 then [.seccompB0] else []) ++
   [(if V < 27 then .sysctls0 else if V < 29 then .sysctls27 else if V < 32 then .sysctls29 else .sysctls32),
   .hostProcess0] ++
   (if V < 8 then [] else if V < 25 then [.allowPrivEsc8] else [.allowPrivEsc25]) ++
   (if V < 22 then [] else if V < 25 then [.capsRestricted22] else [.capsRestricted25]) ++
   [.restrictedVolumes0, .runAsNonRoot0] ++ (if V < 23 then [] else [.runAsUser23]) ++
   (if V < 19 then [] else if V < 25 then [.seccompR19] else [.seccompR25])


/-- the control revisions the Standard has in force at a level and version -/
def stdRevs (l : Level) (v : Ver) : List RevId :=
  match l with
  | .privileged => []
  | .baseline => activeBaseline (clampV 32 v)
  | .restricted => activeRestricted (clampV 32 v)

/-- the Standard's per-control results for a pod at a level and version -/
def stdEval (l : Level) (v : Ver) (p : Pod) : List CheckResult :=
  match l with
  | .privileged => []
  | .baseline => (activeBaseline (clampV 32 v)).map (fun r => runRev Std.publishedTables false r p)
  | .restricted => (activeRestricted (clampV 32 v)).map (fun r => runRev Std.publishedTables false r p)

theorem stdEval_eq (l : Level) (v : Ver) (p : Pod) :
    stdEval l v p = (stdRevs l v).map (fun r => runRev Std.publishedTables false r p) := by
  cases l <;> rfl

end PSA

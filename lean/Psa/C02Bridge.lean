import Psa.EvalProofs
/-! Statements that need the regenerated tables to be the published ones (used by Props/C01 and Props/C02 only). -/
namespace PSA
theorem C02_restricted_iff (v : Ver) (p : Pod) (hv : v.requestable) (hp : ApiValid p) :
    (aggregate (evalPodModel Generated.tables false ⟨.restricted, v⟩ p)).allowed = true ↔
      Std.restricted Std.publishedTables (clampV 32 v) p := by
  have ht : Generated.tables = Std.publishedTables := by decide
  rw [evalPodModel_allowed, ht]
  exact PSA.C02_restricted _ ⟨by decide, by decide⟩ v p hv ((apiValid_tables _ rfl p).mp hp)
end PSA

namespace PSA
/-- the model evaluator (generated metadata and tables, loop-level registry) is the Standard's evaluator -/
theorem evalPodModel_eq_stdEval (l : Level) (v : Ver) (p : Pod) (hv : v.requestable) :
    evalPodModel Generated.tables false ⟨l, v⟩ p = stdEval l v p := by
  have ht : Generated.tables = Std.publishedTables := by decide
  unfold evalPodModel
  rw [C04_resolves shipped shipped_wf l v hv, shipped_max, ht]
  cases l with
  | privileged => rfl
  | baseline =>
    simp only [stdEval]
    show List.map _ (spec shipped Level.baseline (clampV 32 v)) = _
    rw [spec_baseline_table _ (clampV_le 32 v)]
  | restricted =>
    simp only [stdEval]
    show List.map _ (spec shipped Level.restricted (clampV 32 v)) = _
    rw [spec_restricted_table _ (clampV_le 32 v)]
end PSA

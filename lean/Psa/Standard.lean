import Psa.Checks
/-! The Pod Security Standards, control by control, as plain predicates.  Written from the published
    text (Appendix A of DESIGN.md); `T` supplies the published allow-lists. -/
namespace PSA.Std
open PSA

def hostProcess (p : Pod) : Prop :=
  p.get (·.hostProcess) ≠ some (some true) ∧ ∀ c ∈ p.visit, c.get (·.hostProcess) ≠ some (some true)
def hostNamespaces (p : Pod) : Prop := p.hostNetwork = false ∧ p.hostPID = false ∧ p.hostIPC = false
def privileged (p : Pod) : Prop := ∀ c ∈ p.visit, c.get (·.privileged) ≠ some true
def capabilities (T : Tables) (p : Pod) : Prop :=
  ∀ c ∈ p.visit, ∀ k, c.get (·.caps) = some k → ∀ x ∈ k.add, x ∈ T.capsBaseline
def hostPath (p : Pod) : Prop := ∀ v ∈ p.volumes, VolKind.hostPath ∉ v.sources
def hostPorts (p : Pod) : Prop := ∀ c ∈ p.visit, ∀ port ∈ c.hostPorts, port = 0
def appArmor (T : Tables) (p : Pod) : Prop :=
  (∀ t, p.get (·.appArmorType) = some t → t ∈ T.appArmorTypes) ∧
  (∀ c ∈ p.visit, ∀ t, c.get (·.appArmorType) = some t → t ∈ T.appArmorTypes) ∧
  (∀ kv ∈ p.annotations, appArmorAnnKeyPrefix <+: kv.1 → kv.2 ∈ T.appArmorAnnValues ∨ T.appArmorAnnPrefix <+: kv.2)
def seLinuxOpt (types : List Str) (o : SELinux) : Prop := o.type ∈ types ∧ o.user = [] ∧ o.role = []
def seLinux (types : List Str) (p : Pod) : Prop :=
  (∀ o, p.get (·.seLinux) = some o → seLinuxOpt types o) ∧
  (∀ c ∈ p.visit, ∀ o, c.get (·.seLinux) = some o → seLinuxOpt types o)
def procMount (T : Tables) (p : Pod) : Prop := ∀ c ∈ p.visit, ∀ m, c.get (·.procMount) = some m → m = T.procMountDefault
def seccompAnn (T : Tables) (p : Pod) : Prop :=
  let ok := fun v => v ∈ T.seccompAnnValues ∨ T.seccompAnnPrefix <+: v
  (∀ v, p.ann seccompPodAnnKey = some v → ok v) ∧
  (∀ c ∈ p.visit, ∀ v, p.ann (seccompContainerAnnPrefix ++ c.name) = some v → ok v)
def seccompField (T : Tables) (p : Pod) : Prop :=
  (∀ t, p.get (·.seccompType) = some t → t ∈ T.seccompTypes) ∧
  (∀ c ∈ p.visit, ∀ t, c.get (·.seccompType) = some t → t ∈ T.seccompTypes)
def sysctls (allowed : List Str) (p : Pod) : Prop := ∀ sc, p.sc = some sc → ∀ s ∈ sc.sysctls, s ∈ allowed

def volumeTypes (T : Tables) (p : Pod) : Prop := ∀ v ∈ p.volumes, ∃ k ∈ v.sources, k ∈ T.volAllowed
def privilegeEscalation (p : Pod) : Prop := ∀ c ∈ p.visit, c.get (·.allowPrivEsc) = some false
def runAsNonRoot (p : Pod) : Prop :=
  p.get (·.runAsNonRoot) ≠ some false ∧
  ∀ c ∈ p.visit, c.get (·.runAsNonRoot) = some true ∨ (c.get (·.runAsNonRoot) = none ∧ p.get (·.runAsNonRoot) = some true)
def runAsUser (p : Pod) : Prop := p.get (·.runAsUser) ≠ some 0 ∧ ∀ c ∈ p.visit, c.get (·.runAsUser) ≠ some 0
def seccompRequired (T : Tables) (p : Pod) : Prop :=
  seccompField T p ∧ ∀ c ∈ p.visit, (c.get (·.seccompType)).isSome ∨ (p.get (·.seccompType)).isSome
def capabilitiesRestricted (T : Tables) (p : Pod) : Prop :=
  ∀ c ∈ p.visit, ∃ k, c.get (·.caps) = some k ∧ T.capAll ∈ k.drop ∧ ∀ x ∈ k.add, x ∈ T.capsRestrictedAdd

end PSA.Std

namespace PSA

theorem badOpt_false_iff (ok : Str → Bool) (o : Option Str) : badOpt ok o = false ↔ ∀ t, o = some t → ok t = true := by
  cases o <;> simp [badOpt]

theorem privileged_spec (p : Pod) : (privileged_1_0 p).allowed = true ↔ Std.privileged p := by
  simp only [privileged_1_0, mk_allowed, offenders_nil_iff, and_true, true_and, Std.privileged]
  constructor
  · intro h c hc; simpa [cPrivileged] using h c hc
  · intro h c hc; simpa [cPrivileged] using h c hc

theorem hostNamespaces_spec (p : Pod) : (hostNamespaces_1_0 p).allowed = true ↔ Std.hostNamespaces p := by
  simp only [hostNamespaces_1_0, mk_allowed, Std.hostNamespaces, and_true, true_and]
  cases p.hostNetwork <;> cases p.hostPID <;> cases p.hostIPC <;> simp

theorem hostPorts_spec (p : Pod) : (hostPorts_1_0 p).allowed = true ↔ Std.hostPorts p := by
  simp only [hostPorts_1_0, mk_allowed, offenders_nil_iff, and_true, true_and, Std.hostPorts]
  constructor
  · intro h c hc port hp
    have := h c hc
    simp only [cHostPorts, List.any_eq_false, bne_iff_ne, ne_eq, Decidable.not_not] at this
    exact this port hp
  · intro h c hc
    simp only [cHostPorts, List.any_eq_false, bne_iff_ne, ne_eq, Decidable.not_not]
    exact h c hc

theorem hostPath_spec (p : Pod) : (hostPathVolumes_1_0 p).allowed = true ↔ Std.hostPath p := by
  simp only [hostPathVolumes_1_0, mk_allowed, and_true, true_and, Std.hostPath, List.map_eq_nil_iff,
    List.filter_eq_nil_iff]
  constructor
  · intro h v hv; simpa [vHostPath] using h v hv
  · intro h v hv; simpa [vHostPath] using h v hv

theorem capabilitiesBaseline_spec (T : Tables) (p : Pod) :
    (capabilitiesBaseline_1_0 T p).allowed = true ↔ Std.capabilities T p := by
  simp only [capabilitiesBaseline_1_0, mk_allowed, offenders_nil_iff, and_true, true_and, Std.capabilities]
  constructor
  · intro h c hc k hk x hx
    have := h c hc
    simp only [cCapsBaseline, hk, List.any_eq_false] at this
    simpa using this x hx
  · intro h c hc
    unfold cCapsBaseline
    cases hk : c.get (·.caps) with
    | none => rfl
    | some k =>
      simp only [List.any_eq_false]
      intro x hx
      simpa using h c hc k hk x hx

theorem restrictedVolumes_spec (T : Tables) (p : Pod) :
    (restrictedVolumes_1_0 T p).allowed = true ↔ Std.volumeTypes T p := by
  simp only [restrictedVolumes_1_0, mk_allowed, and_true, true_and, Std.volumeTypes, List.map_eq_nil_iff,
    List.filter_eq_nil_iff]
  constructor
  · intro h v hv; simpa [vRestricted] using h v hv
  · intro h v hv; simpa [vRestricted] using h v hv

theorem allowPrivilegeEscalation_spec (p : Pod) :
    (allowPrivilegeEscalation_1_8 p).allowed = true ↔ Std.privilegeEscalation p := by
  simp only [allowPrivilegeEscalation_1_8, mk_allowed, offenders_nil_iff, and_true, true_and, Std.privilegeEscalation]
  constructor
  · intro h c hc; simpa [cAllowPrivEsc] using h c hc
  · intro h c hc; simpa [cAllowPrivEsc] using h c hc

theorem seccompBaseline_1_19_spec (T : Tables) (p : Pod) :
    (seccompBaseline_1_19 T p).allowed = true ↔ Std.seccompField T p := by
  simp only [seccompBaseline_1_19, mk_allowed, offenders_nil_iff, and_true, Std.seccompField, badOpt_false_iff,
    List.contains_eq_mem, decide_eq_true_eq]

theorem procMount_spec (T : Tables) (p : Pod) :
    (procMount_1_0 T false p).allowed = true ↔ Std.procMount T p := by
  simp only [procMount_1_0, relaxed, Bool.false_and, Bool.false_eq_true, ↓reduceIte, mk_allowed, offenders_nil_iff,
    and_true, true_and, Std.procMount, badOpt_false_iff, beq_iff_eq]

theorem runAsUser_spec (p : Pod) : (runAsUser_1_23 false p).allowed = true ↔ Std.runAsUser p := by
  simp only [runAsUser_1_23, relaxed, Bool.false_and, Bool.false_eq_true, ↓reduceIte, mk_allowed, offenders_nil_iff,
    and_true, Std.runAsUser, beq_eq_false_iff_ne, ne_eq]


theorem hostProcessSet_false_iff (o : Option (Option Bool)) : hostProcessSet o = false ↔ o ≠ some (some true) := by
  cases o with
  | none => simp [hostProcessSet]
  | some x => cases x with
    | none => simp [hostProcessSet]
    | some b => cases b <;> simp [hostProcessSet]

theorem windowsHostProcess_spec (p : Pod) : (windowsHostProcess_1_0 p).allowed = true ↔ Std.hostProcess p := by
  simp only [windowsHostProcess_1_0, mk_allowed, offenders_nil_iff, and_true, Std.hostProcess, hostProcessSet_false_iff]

theorem sysctls_spec (allowed : List Str) (p : Pod) : (sysctls allowed p).allowed = true ↔ Std.sysctls allowed p := by
  simp only [sysctls, mk_allowed, true_and, Std.sysctls, List.filter_eq_nil_iff]
  cases hsc : p.sc with
  | none => simp
  | some sc =>
    simp only [Option.some.injEq, forall_eq', and_self]
    constructor
    · intro h s hs; simpa using h s hs
    · intro h s hs; simpa using h s hs

theorem isPrefixOf_iff (a b : Str) : a.isPrefixOf b = true ↔ a <+: b := List.isPrefixOf_iff_prefix

theorem appArmor_spec (T : Tables) (p : Pod) : (appArmorProfile_1_0 T p).allowed = true ↔ Std.appArmor T p := by
  simp only [appArmorProfile_1_0, mk_allowed, offenders_nil_iff, and_true, Std.appArmor, badOpt_false_iff,
    List.contains_eq_mem, decide_eq_true_eq, List.map_eq_nil_iff, List.filter_eq_nil_iff]
  constructor
  · rintro ⟨h1, h2, _, _, h3⟩
    refine ⟨h1, h2, ?_⟩
    intro kv hkv hpre
    have := h3 kv hkv
    simp only [badAppArmorAnn, (isPrefixOf_iff _ _).mpr hpre, Bool.true_and, Bool.not_eq_true', Bool.not_eq_false,
      appArmorAnnOK, Bool.or_eq_true, List.contains_eq_mem, decide_eq_true_eq, isPrefixOf_iff] at this
    simpa using this
  · rintro ⟨h1, h2, h3⟩
    refine ⟨h1, h2, trivial, trivial, ?_⟩
    intro kv hkv
    simp only [badAppArmorAnn, Bool.and_eq_true, Bool.not_eq_eq_eq_not, Bool.not_true, not_and, Bool.not_eq_false,
      appArmorAnnOK, Bool.or_eq_true, List.contains_eq_mem, decide_eq_true_eq, isPrefixOf_iff]
    intro hpre
    exact h3 kv hkv hpre

theorem badSELinux_false_iff (types : List Str) (o : Option SELinux) :
    badSELinux types o = false ↔ ∀ x, o = some x → Std.seLinuxOpt types x := by
  cases o with
  | none => simp [badSELinux]
  | some x =>
    simp only [badSELinux, seLinuxOK, Bool.not_eq_eq_eq_not, Bool.not_false, Bool.and_eq_true, List.contains_eq_mem,
      decide_eq_true_eq, List.isEmpty_iff, Option.some.injEq, forall_eq', Std.seLinuxOpt, and_assoc]

theorem seLinux_spec (types : List Str) (p : Pod) : (seLinuxOptions types p).allowed = true ↔ Std.seLinux types p := by
  simp only [seLinuxOptions, mk_allowed, offenders_nil_iff, and_true, Std.seLinux, badSELinux_false_iff]

theorem seccompBaseline_1_0_spec (T : Tables) (p : Pod) :
    (seccompBaseline_1_0 T p).allowed = true ↔ Std.seccompAnn T p := by
  simp only [seccompBaseline_1_0, mk_allowed, offenders_nil_iff, and_true, Std.seccompAnn, badOpt_false_iff,
    seccompAnnOK, Bool.or_eq_true, List.contains_eq_mem, decide_eq_true_eq, isPrefixOf_iff]

theorem capabilitiesRestricted_1_22_spec (T : Tables) (p : Pod) :
    (capabilitiesRestricted_1_22 T p).allowed = true ↔ Std.capabilitiesRestricted T p := by
  simp only [capabilitiesRestricted_1_22, mk_allowed, offenders_nil_iff, and_true, true_and, Std.capabilitiesRestricted]
  constructor
  · rintro ⟨h1, h2⟩ c hc
    have a := h1 c hc
    have b := h2 c hc
    unfold cMissingDropAll at a
    unfold cAddsForbidden at b
    cases hk : c.get (·.caps) with
    | none => simp [hk] at a
    | some k =>
      simp only [hk, Bool.not_eq_eq_eq_not, Bool.not_false, List.contains_eq_mem, decide_eq_true_eq] at a
      simp only [hk, List.any_eq_false] at b
      exact ⟨k, rfl, a, fun x hx => by simpa using b x hx⟩
  · intro h
    constructor
    · intro c hc
      obtain ⟨k, hk, hd, _⟩ := h c hc
      simp [cMissingDropAll, hk, hd]
    · intro c hc
      obtain ⟨k, hk, _, ha⟩ := h c hc
      simp only [cAddsForbidden, hk, List.any_eq_false]
      intro x hx; simpa using ha x hx

theorem runAsNonRoot_spec (p : Pod) : (runAsNonRoot_1_0 false p).allowed = true ↔ Std.runAsNonRoot p := by
  simp only [runAsNonRoot_1_0, relaxed, Bool.false_and, Bool.false_eq_true, ↓reduceIte, Std.runAsNonRoot]
  by_cases hpb : p.get (·.runAsNonRoot) = some false
  · simp [hpb]
  · by_cases hex : offenders p.visit (fun c => c.get (·.runAsNonRoot) == some false) = []
    · by_cases him : offenders p.visit (fun c => (c.get (·.runAsNonRoot)).isNone && !(p.get (·.runAsNonRoot) == some true)) = []
      · simp only [hpb, hex, him, beq_iff_eq, List.isEmpty_nil, Bool.not_true, Bool.or_false,
          Bool.false_eq_true, ↓reduceIte, decide_false, CheckOut.ok, true_iff]
        refine ⟨hpb, ?_⟩
        intro c hc
        have e := (offenders_nil_iff _ _).mp hex c hc
        have i := (offenders_nil_iff _ _).mp him c hc
        cases hv : c.get (·.runAsNonRoot) with
        | none => simp [hv] at i; right; exact ⟨rfl, i⟩
        | some b => cases b with
          | true => left; rfl
          | false => simp [hv] at e
      · have : (offenders p.visit (fun c => (c.get (·.runAsNonRoot)).isNone && !(p.get (·.runAsNonRoot) == some true))).isEmpty = false := by
          simpa using him
        simp only [hpb, hex, this, beq_iff_eq, List.isEmpty_nil, Bool.not_true, Bool.or_false,
          Bool.false_eq_true, ↓reduceIte, decide_false, Bool.not_false, false_iff]
        rintro ⟨_, hall⟩
        apply him
        apply (offenders_nil_iff _ _).mpr
        intro c hc
        rcases hall c hc with h | ⟨h1, h2⟩
        · simp [h]
        · simp [h1, h2]
    · have : (offenders p.visit (fun c => c.get (·.runAsNonRoot) == some false)).isEmpty = false := by simpa using hex
      simp only [hpb, this, beq_iff_eq, decide_false, Bool.not_false, Bool.or_true, ↓reduceIte,
        Bool.false_eq_true, false_iff]
      rintro ⟨_, hall⟩
      apply hex
      apply (offenders_nil_iff _ _).mpr
      intro c hc
      rcases hall c hc with h | ⟨h1, _⟩
      · simp [h]
      · simp [h1]


theorem seccompRestricted_1_19_spec (T : Tables) (p : Pod) :
    (seccompRestricted_1_19 T p).allowed = true ↔ Std.seccompRequired T p := by
  simp only [seccompRestricted_1_19, Std.seccompRequired, Std.seccompField]
  generalize hok : (fun t => T.seccompTypes.contains t) = ok
  have hokd : ∀ t, ok t = true ↔ t ∈ T.seccompTypes := by intro t; rw [← hok]; simp
  by_cases hpb : badOpt ok (p.get (·.seccompType)) = true
  · simp only [hpb, Bool.true_or, ↓reduceIte, Bool.false_eq_true, false_iff]
    rintro ⟨⟨h1, _⟩, _⟩
    cases hp : p.get (·.seccompType) with
    | none => simp [hp, badOpt] at hpb
    | some t =>
      have := h1 t hp
      simp [hp, badOpt, (hokd t).mpr this] at hpb
  · have hpb' : badOpt ok (p.get (·.seccompType)) = false := by simpa using hpb
    have hpod : ∀ t, p.get (·.seccompType) = some t → t ∈ T.seccompTypes := by
      intro t ht; exact (hokd t).mp ((badOpt_false_iff ok _).mp hpb' t ht)
    by_cases hex : offenders p.visit (fun c => badOpt ok (c.get (·.seccompType))) = []
    · have hcont : ∀ c ∈ p.visit, ∀ t, c.get (·.seccompType) = some t → t ∈ T.seccompTypes := by
        intro c hc t ht
        exact (hokd t).mp ((badOpt_false_iff ok _).mp ((offenders_nil_iff _ _).mp hex c hc) t ht)
      have hpsv : goodOpt ok (p.get (·.seccompType)) = (p.get (·.seccompType)).isSome := by
        cases hp : p.get (·.seccompType) with
        | none => rfl
        | some t => simp [goodOpt, (hokd t).mpr (hpod t hp)]
      rw [hpsv]
      generalize hps : (p.get (·.seccompType)).isSome = podSet
      by_cases him : offenders p.visit (fun c => (c.get (·.seccompType)).isNone && !podSet) = []
      · simp only [hpb', hex, him, List.isEmpty_nil, Bool.not_true, Bool.or_false, Bool.false_eq_true, ↓reduceIte,
          CheckOut.ok, true_iff]
        refine ⟨⟨hpod, hcont⟩, ?_⟩
        intro c hc
        have i := (offenders_nil_iff _ _).mp him c hc
        cases hv : (c.get (·.seccompType)).isSome with
        | true => left; rfl
        | false =>
          right
          have : (c.get (·.seccompType)).isNone = true := by
            cases h : c.get (·.seccompType) <;> simp_all
          simpa [this] using i
      · have : (offenders p.visit (fun c => (c.get (·.seccompType)).isNone && !podSet)).isEmpty = false := by simpa using him
        simp only [hpb', hex, this, List.isEmpty_nil, Bool.not_true, Bool.or_false, Bool.false_eq_true, ↓reduceIte,
          Bool.not_false, false_iff]
        rintro ⟨_, hall⟩
        apply him
        apply (offenders_nil_iff _ _).mpr
        intro c hc
        rcases hall c hc with h | h
        · cases hx : c.get (·.seccompType) <;> simp_all
        · simp [h]
    · have : (offenders p.visit (fun c => badOpt ok (c.get (·.seccompType)))).isEmpty = false := by simpa using hex
      simp only [hpb', this, Bool.not_false, Bool.or_true, ↓reduceIte, Bool.false_eq_true, false_iff]
      rintro ⟨⟨_, h2⟩, _⟩
      apply hex
      apply (offenders_nil_iff _ _).mpr
      intro c hc
      apply (badOpt_false_iff ok _).mpr
      intro t ht
      exact (hokd t).mpr (h2 c hc t ht)

end PSA

import Psa.Str
namespace PSA.Webhook
open PSA

/-- HandleValidate's request screening, in the order the handler tests: what HTTP status a request is answered with
    before (200) or instead of reaching the admission library -/
def classify (maxSize : Nat) (empty : Bool) (size : Nat) (contentType : Str) (decodes v1review hasRequest : Bool) : Nat :=
  if empty then 400
  else if size ≥ maxSize then 413
  else if contentType ≠ b!"application/json" then 400
  else if !decodes then 400
  else if !v1review then 400
  else if !hasRequest then 400
  else 200


inductive Variant | writesThroughReturned | copies deriving DecidableEq, Repr
inductive Ptr | shared | own deriving DecidableEq, Repr

/-- one in-flight request -/
structure Th where
  uid : Nat
  sharedPath : Bool          -- Validate returns the process-wide shared response for this request
  pc : Nat := 0              -- 0: call Validate; 1: set UID; 2: encode; 3: done
  ptr : Ptr := .own
  own : Nat := 0             -- uid field of this thread's private response object
  out : Option Nat := none   -- uid written to the wire
  deriving DecidableEq, Repr

structure St where
  shared : Nat := 0          -- uid field of the shared response object
  ths : List Th
  deriving DecidableEq, Repr

def stepTh (var : Variant) (shared : Nat) (t : Th) : Nat × Th :=
  match t.pc with
  | 0 => (shared, { t with pc := 1, ptr := if t.sharedPath then .shared else .own })
  | 1 => match var, t.ptr with
    | .copies, _ => (shared, { t with pc := 2, ptr := .own, own := t.uid })        -- copy, then write the copy
    | .writesThroughReturned, .shared => (t.uid, { t with pc := 2 })               -- write the shared object
    | .writesThroughReturned, .own => (shared, { t with pc := 2, own := t.uid })
  | 2 => (shared, { t with pc := 3, out := some (match t.ptr with | .shared => shared | .own => t.own) })
  | _ => (shared, t)

def step (var : Variant) (s : St) (i : Nat) : St :=
  match s.ths[i]? with
  | none => s
  | some t => let (sh, t') := stepTh var s.shared t; { shared := sh, ths := s.ths.set i t' }

def run (var : Variant) (s : St) (sched : List Nat) : St := sched.foldl (step var) s

/-- per-thread invariant of the repaired handler -/
def Good (t : Th) : Prop :=
  (t.pc ≥ 2 → t.ptr = .own ∧ t.own = t.uid) ∧ (∀ u, t.out = some u → u = t.uid) ∧ (t.pc ≤ 1 → t.out = none)

theorem stepTh_good (sh : Nat) (t : Th) (h : Good t) : Good (stepTh .copies sh t).2 := by
  obtain ⟨h1, h2, h3⟩ := h
  unfold stepTh
  split
  · rename_i hpc; refine ⟨by simp, ?_, by simp [h3 (by omega)]⟩; simp [h3 (by omega)]
  · rename_i hpc; refine ⟨by simp, ?_, by simp⟩; simp [h3 (by omega)]
  · rename_i hpc
    have := h1 (by omega)
    refine ⟨by simp [this], ?_, by simp⟩
    intro u hu
    simp only [this.1, Option.some.injEq] at hu
    simp only; rw [← hu]; exact this.2
  · exact ⟨h1, h2, h3⟩

theorem step_good (s : St) (i : Nat) (h : ∀ t ∈ s.ths, Good t) : ∀ t ∈ (step .copies s i).ths, Good t := by
  unfold step
  split
  · exact h
  · rename_i t ht
    intro t' ht'
    simp only at ht'
    rcases List.mem_or_eq_of_mem_set ht' with hm | rfl
    · exact h t' hm
    · exact stepTh_good _ _ (h t (List.mem_of_getElem? ht))

/-- C16 (uid part), repaired handler: under every schedule, whatever is written for a request carries its own uid -/
theorem C16_uid (s : St) (sched : List Nat) (h0 : ∀ t ∈ s.ths, Good t) :
    ∀ t ∈ (run .copies s sched).ths, ∀ u, t.out = some u → u = t.uid := by
  induction sched generalizing s with
  | nil => intro t ht; exact (h0 t ht).2.1
  | cons i rest ih => exact ih (step .copies s i) (step_good s i h0)

/-- the unrepaired handler: two overlapping requests on the shared path, one gets the other's uid -/
theorem C16_buggy_witness :
    ∃ sched, ∃ t ∈ (run .writesThroughReturned ⟨0, [{ uid := 1, sharedPath := true }, { uid := 2, sharedPath := true }]⟩ sched).ths,
      t.out = some 2 ∧ t.uid = 1 :=
  ⟨[0, 1, 0, 1, 0], by decide⟩

end PSA.Webhook

import Psa.NamespaceProofs
import Psa.SortProofs
/-! Order independence, completeness and honesty of the existing-pod dry run. -/
namespace PSA

theorem loopChecked_le (n : Nat) (e : Option Nat) : loopChecked n e ≤ n := by
  unfold loopChecked; split <;> (try split) <;> omega

theorem dryRunEvaluated_length (exRC : List Str) (maxPods : Nat) (pods : List PodObj) (e : Option Nat) :
    (dryRunEvaluated exRC maxPods pods e).length =
      loopChecked (min maxPods (prioritize exRC pods).length) e := by
  simp only [dryRunEvaluated, List.length_take]
  have := loopChecked_le (min maxPods (prioritize exRC pods).length) e
  omega

/-- with no cap hit and no expiry, every non-exempt pod is evaluated -/
theorem dryRunEvaluated_all (exRC : List Str) (maxPods : Nat) (pods : List PodObj)
    (hcap : (prioritize exRC pods).length ≤ maxPods) :
    dryRunEvaluated exRC maxPods pods none = prioritize exRC pods := by
  simp only [dryRunEvaluated, loopChecked]
  rw [List.take_of_length_le hcap, List.take_of_length_le (Nat.le_refl _)]

theorem dryRunViolations_perm (ev : Ev) (lv : LevelVersion) (l l' : List PodObj) (h : l.Perm l') :
    (dryRunViolations ev lv l).Perm (dryRunViolations ev lv l') := h.filterMap _

theorem groupsLoop_perm (W W' : List (Str × Str)) (h : W.Perm W') : (groupsLoop W).Perm (groupsLoop W') := by
  rw [groupsLoop_eq_spec, groupsLoop_eq_spec]; exact groupsSpec_perm W W' h

/-- **Order independence.** When neither the cap nor an expiry cuts the run short, the warnings do not depend on the
    order in which the pods were listed. -/
theorem dryRun_perm (ev : Ev) (exRC : List Str) (maxPods : Nat) (ns : Str) (lv : LevelVersion) (pods pods' : List PodObj)
    (h : pods.Perm pods') (hcap : (pods.filter (fun p => !exemptRC p.runtimeClass exRC)).length ≤ maxPods) :
    (dryRun ev exRC maxPods ns lv pods none).1 = (dryRun ev exRC maxPods ns lv pods' none).1 := by
  have hp : (prioritize exRC pods).Perm (prioritize exRC pods') :=
    (prioritize_perm exRC pods).trans ((h.filter _).trans (prioritize_perm exRC pods').symm)
  have hl : (prioritize exRC pods).length = (prioritize exRC pods').length := hp.length_eq
  have hc1 : (prioritize exRC pods).length ≤ maxPods := by rw [(prioritize_perm exRC pods).length_eq]; exact hcap
  have hc2 : (prioritize exRC pods').length ≤ maxPods := by rw [← hl]; exact hc1
  simp only [dryRun, dryRunEvaluated_all exRC maxPods pods hc1, dryRunEvaluated_all exRC maxPods pods' hc2]
  have hg := groupsLoop_perm _ _ (dryRunViolations_perm ev lv _ _ hp)
  rw [hl, sortStrs_eq_of_perm _ _ (hg.map decorate)]
  have he : (groupsLoop (dryRunViolations ev lv (prioritize exRC pods))).isEmpty =
      (groupsLoop (dryRunViolations ev lv (prioritize exRC pods'))).isEmpty := by
    have := hg.length_eq
    cases h1 : groupsLoop (dryRunViolations ev lv (prioritize exRC pods)) <;>
      cases h2 : groupsLoop (dryRunViolations ev lv (prioritize exRC pods')) <;> simp_all
  rw [he]

/-- **Completeness.** The pod lines are: for each distinct aggregate reason text among the evaluated violating pods, one
    line with the lexically first pod name and the exact number of pods, sorted. -/
theorem dryRun_lines (ev : Ev) (exRC : List Str) (maxPods : Nat) (ns : Str) (lv : LevelVersion) (pods : List PodObj)
    (e : Option Nat) :
    (dryRun ev exRC maxPods ns lv pods e).1.filterMap (fun w => match w with | .podLine t => some t | _ => none) =
      sortStrs ((groupsSpec (dryRunViolations ev lv (dryRunEvaluated exRC maxPods pods e))).map decorate) := by
  simp only [dryRun, groupsLoop_eq_spec, List.filterMap_append, List.filterMap_map]
  have h1 : List.filterMap (fun w => match w with | Warning.podLine t => some t | _ => none)
      (if (dryRunEvaluated exRC maxPods pods e).length < (prioritize exRC pods).length then
        [Warning.onlyChecked (dryRunEvaluated exRC maxPods pods e).length (prioritize exRC pods).length] else []) = [] := by
    split <;> rfl
  have h2 : List.filterMap (fun w => match w with | Warning.podLine t => some t | _ => none)
      (if (groupsSpec (dryRunViolations ev lv (dryRunEvaluated exRC maxPods pods e))).isEmpty = true then []
        else [Warning.header ns lv]) = [] := by
    split <;> rfl
  rw [h1, h2]
  simp only [List.nil_append]
  generalize sortStrs (List.map decorate (groupsSpec (dryRunViolations ev lv (dryRunEvaluated exRC maxPods pods e)))) = L
  induction L with
  | nil => rfl
  | cons a l ih => simp only [List.filterMap_cons, Function.comp_apply, ih]

/-- **Honesty.** The "only checked the first c of t" line is present iff fewer pods were evaluated than exist, and always
    carries exactly the number evaluated and the number of non-exempt pods. -/
theorem dryRun_honest (ev : Ev) (exRC : List Str) (maxPods : Nat) (ns : Str) (lv : LevelVersion) (pods : List PodObj)
    (e : Option Nat) :
    let r := dryRun ev exRC maxPods ns lv pods e
    let total := (prioritize exRC pods).length
    (Warning.onlyChecked r.2.length total ∈ r.1 ↔ r.2.length < total) ∧
    (∀ c t, Warning.onlyChecked c t ∈ r.1 → c = r.2.length ∧ t = total) := by
  simp only [dryRun, List.length_map]
  generalize (dryRunEvaluated exRC maxPods pods e).length = c
  constructor
  · by_cases h : c < (prioritize exRC pods).length
    · simp [h]
    · simp only [h, ↓reduceIte, List.nil_append, List.mem_append, List.mem_map, iff_false, not_or, not_exists, not_and]
      refine ⟨?_, fun x _ hx => by cases hx⟩
      split <;> simp
  · intro c' t' hm
    simp only [List.mem_append, List.mem_map] at hm
    rcases hm with (hm | hm) | ⟨x, _, hx⟩
    · by_cases h : c < (prioritize exRC pods).length
      · simp [h] at hm; exact hm
      · simp [h] at hm
    · split at hm <;> simp at hm
    · cases hx

/-- the evaluator is called for exactly the evaluated pods, in order, and never more than the cap -/
theorem dryRun_calls (ev : Ev) (exRC : List Str) (maxPods : Nat) (ns : Str) (lv : LevelVersion) (pods : List PodObj)
    (e : Option Nat) :
    (dryRun ev exRC maxPods ns lv pods e).2 = (dryRunEvaluated exRC maxPods pods e).map (fun p => (lv, p.name)) ∧
    (dryRun ev exRC maxPods ns lv pods e).2.length ≤ maxPods ∧
    (dryRunEvaluated exRC maxPods pods e) = (prioritize exRC pods).take (dryRunEvaluated exRC maxPods pods e).length := by
  refine ⟨rfl, ?_, ?_⟩
  · simp only [dryRun, List.length_map, dryRunEvaluated_length]
    have := loopChecked_le (min maxPods (prioritize exRC pods).length) e
    omega
  · simp only [dryRunEvaluated, List.take_take, List.length_take]
    have := loopChecked_le (min maxPods (prioritize exRC pods).length) e
    congr 1
    omega

/-- what is reported depends only on the pods actually evaluated (and on how many there are in total) -/
theorem dryRun_depends_on_evaluated (ev : Ev) (exRC exRC' : List Str) (maxPods maxPods' : Nat) (ns : Str) (lv : LevelVersion)
    (pods pods' : List PodObj) (e e' : Option Nat)
    (h : dryRunEvaluated exRC maxPods pods e = dryRunEvaluated exRC' maxPods' pods' e')
    (ht : (prioritize exRC pods).length = (prioritize exRC' pods').length) :
    dryRun ev exRC maxPods ns lv pods e = dryRun ev exRC' maxPods' ns lv pods' e' := by
  simp only [dryRun, h, ht]

end PSA

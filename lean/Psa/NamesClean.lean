import Psa.QuoteMain
/-! The name part of `Clean` follows from the pod: container and volume names without a quote byte (DNS labels have none) give
    offender lists without one, for all twenty-five revisions. -/
namespace PSA

def PodNamesClean (p : Pod) : Prop := (∀ c ∈ p.visit, noQ c.name) ∧ (∀ v ∈ p.volumes, noQ v.name)

theorem offenders_clean (p : Pod) (bad : Container → Bool) (h : ∀ c ∈ p.visit, noQ c.name) : ∀ x ∈ offenders p.visit bad, noQ x := by
  intro x hx
  simp only [offenders, List.mem_map, List.mem_filter] at hx
  obtain ⟨c, ⟨hc, _⟩, rfl⟩ := hx
  exact h c hc

structure NamesOK (o : CheckOut) : Prop where
  cs : ∀ x ∈ o.containers, noQ x
  cs2 : ∀ x ∈ o.containers2, noQ x
  vols : ∀ x ∈ o.volumes, noQ x

theorem namesOK_ok : NamesOK CheckOut.ok := ⟨by simp [CheckOut.ok], by simp [CheckOut.ok], by simp [CheckOut.ok]⟩

theorem namesOK_mk (pod : Bool) (cs cs2 vols values flags extra : List Str)
    (h1 : ∀ x ∈ cs, noQ x) (h2 : ∀ x ∈ cs2, noQ x) (h3 : ∀ x ∈ vols, noQ x) : NamesOK (mk pod cs cs2 vols values flags extra) := by
  unfold mk
  split
  · exact ⟨h1, h2, h3⟩
  · exact namesOK_ok

theorem vols_clean (p : Pod) (f : Volume → Bool) (h : ∀ v ∈ p.volumes, noQ v.name) : ∀ x ∈ (p.volumes.filter f).map (·.name), noQ x := by
  intro x hx
  simp only [List.mem_map, List.mem_filter] at hx
  obtain ⟨v, ⟨hv, _⟩, rfl⟩ := hx
  exact h v hv

theorem nil_clean : ∀ x ∈ ([] : List Str), noQ x := by simp

theorem run_namesOK (T : Tables) (relax : Bool) (r : RevId) (p : Pod) (h : PodNamesClean p) : NamesOK (run T relax r p) := by
  obtain ⟨hc, hv⟩ := h
  cases r <;> simp only [run]
  all_goals first
    | exact namesOK_mk _ _ _ _ _ _ _ (offenders_clean p _ hc) nil_clean nil_clean
    | exact namesOK_mk _ _ _ _ _ _ _ (offenders_clean p _ hc) (offenders_clean p _ hc) nil_clean
    | exact namesOK_mk _ _ _ _ _ _ _ nil_clean nil_clean (vols_clean p _ hv)
    | exact namesOK_mk _ _ _ _ _ _ _ nil_clean nil_clean nil_clean
    | skip
  -- the revisions that return early (windows / user-namespace relaxation) or build the result by hand
  · unfold allowPrivilegeEscalation_1_25; split
    · exact namesOK_ok
    · exact namesOK_mk _ _ _ _ _ _ _ (offenders_clean p _ hc) nil_clean nil_clean
  · unfold capabilitiesRestricted_1_25; split
    · exact namesOK_ok
    · exact namesOK_mk _ _ _ _ _ _ _ (offenders_clean p _ hc) (offenders_clean p _ hc) nil_clean
  · unfold procMount_1_0; split
    · exact namesOK_ok
    · exact namesOK_mk _ _ _ _ _ _ _ (offenders_clean p _ hc) nil_clean nil_clean
  · unfold runAsNonRoot_1_0; split
    · exact namesOK_ok
    · simp only; split
      · exact ⟨offenders_clean p _ hc, nil_clean, nil_clean⟩
      · split
        · exact ⟨nil_clean, offenders_clean p _ hc, nil_clean⟩
        · exact namesOK_ok
  · unfold runAsUser_1_23; split
    · exact namesOK_ok
    · exact namesOK_mk _ _ _ _ _ _ _ (offenders_clean p _ hc) nil_clean nil_clean
  · unfold seccompRestricted_1_19; simp only; split
    · exact ⟨offenders_clean p _ hc, nil_clean, nil_clean⟩
    · split
      · exact ⟨nil_clean, offenders_clean p _ hc, nil_clean⟩
      · exact namesOK_ok
  · unfold seccompRestricted_1_25; split
    · exact namesOK_ok
    · unfold seccompRestricted_1_19; simp only; split
      · exact ⟨offenders_clean p _ hc, nil_clean, nil_clean⟩
      · split
        · exact ⟨nil_clean, offenders_clean p _ hc, nil_clean⟩
        · exact namesOK_ok

/-- the bytes of a DNS label / subdomain (what API validation lets a container or volume name consist of) -/
def dnsByte (c : Nat) : Bool := (97 ≤ c && c ≤ 122) || (48 ≤ c && c ≤ 57) || c == 45 || c == 46

theorem dns_noQ (s : Str) (h : ∀ c ∈ s, dnsByte c = true) : noQ s := by
  intro hq
  have := h 34 hq
  simp [dnsByte] at this

end PSA

import Psa.Admit
/-! The dependency adapters of package admission (admission/namespace.go, admission/pods.go): the namespace getter that asks
    the informer cache first and the API server only on NotFound, and the two pod listers. The answers of the cache and of
    the API server are inputs; which of them was consulted is an output. -/
namespace PSA.Deps
open PSA

/-- what one lookup (informer cache or API server) answers -/
inductive Lookup (α : Type)
  | found (a : α)
  | notFound                 -- an error for which apierrors.IsNotFound holds
  | failed                   -- any other error
  deriving DecidableEq, Repr

structure GetOut (α : Type) where
  result : Lookup α
  listerAsked : Bool
  clientAsked : Bool
  deriving DecidableEq, Repr

/-- `(*namespaceGetter).GetNamespace`: `lister = none` is the getter built by `NamespaceGetterFromClient` -/
def getNamespace {α} (lister : Option (Lookup α)) (client : Lookup α) : GetOut α :=
  match lister with
  | some (.found a) => { result := .found a, listerAsked := true, clientAsked := false }
  | some .failed => { result := .failed, listerAsked := true, clientAsked := false }
  | some .notFound => { result := client, listerAsked := true, clientAsked := true }
  | none => { result := client, listerAsked := false, clientAsked := true }

/-- what the admission controller sees of the answer: labels, or an error -/
def toWorld : Lookup Labels → Except Unit Labels
  | .found l => .ok l
  | _ => .error ()

/-- `clientPodLister.ListPods`: one LIST; the items in the order the server gave them, or the error and no pods -/
def clientListPods {α} (list : Except Unit (List α)) : Except Unit (List α) :=
  match list with
  | .ok items => .ok (items.map id)
  | .error e => .error e

/-- `informerPodLister.ListPods`: the cache's answer, as it is -/
def informerListPods {α} (cache : Except Unit (List α)) : Except Unit (List α) := cache

end PSA.Deps

import Psa.Str
namespace PSA

/-- Go's `a < b` on strings (bytewise lexicographic) -/
def slt (a b : Str) : Bool := decide (a < b)

structure Group where
  warning : Str
  first : Str
  count : Nat
  deriving DecidableEq, Repr

/-- `podWarningsToCount` + `podWarnings`: association list in first-seen order -/
def addPod (gs : List Group) (w name : Str) : List Group :=
  match gs with
  | [] => [⟨w, name, 1⟩]
  | g :: rest =>
    if g.warning = w then { g with first := if slt name g.first then name else g.first, count := g.count + 1 } :: rest
    else g :: addPod rest w name

/-- the loop body over the violating pods (name, aggregate reason text), in evaluation order -/
def groupsLoop (W : List (Str × Str)) : List Group := W.foldl (fun gs x => addPod gs x.2 x.1) []

/-! ### declarative description -/

def keysOf (W : List (Str × Str)) : List Str :=
  W.foldl (fun acc x => if x.2 ∈ acc then acc else acc ++ [x.2]) []

def namesOf (w : Str) (W : List (Str × Str)) : List Str := (W.filter (fun x => x.2 = w)).map (·.1)

def minStr (a : Str) (l : List Str) : Str := l.foldl (fun a b => if slt b a then b else a) a

def firstOf (l : List Str) : Str := match l with | [] => [] | a :: as => minStr a as

def groupFor (W : List (Str × Str)) (w : Str) : Group := ⟨w, firstOf (namesOf w W), (namesOf w W).length⟩

def groupsSpec (W : List (Str × Str)) : List Group := (keysOf W).map (groupFor W)

/-! ### loop = description -/

theorem keysOf_append (W : List (Str × Str)) (x : Str × Str) :
    keysOf (W ++ [x]) = if x.2 ∈ keysOf W then keysOf W else keysOf W ++ [x.2] := by
  unfold keysOf
  rw [List.foldl_append]
  rfl

theorem mem_keysOf (W : List (Str × Str)) (w : Str) : w ∈ keysOf W ↔ ∃ x ∈ W, x.2 = w := by
  induction W using snoc_induction with
  | nil => simp [keysOf]
  | snoc W x ih =>
    rw [keysOf_append]
    by_cases h : x.2 ∈ keysOf W
    · simp only [h, ↓reduceIte, ih, List.mem_append, List.mem_singleton]
      constructor
      · rintro ⟨y, hy, rfl⟩; exact ⟨y, Or.inl hy, rfl⟩
      · rintro ⟨y, hy | rfl, rfl⟩
        · exact ⟨y, hy, rfl⟩
        · exact ih.mp h
    · simp only [h, ↓reduceIte, List.mem_append, ih, List.mem_singleton]
      constructor
      · rintro (⟨y, hy, rfl⟩ | rfl)
        · exact ⟨y, Or.inl hy, rfl⟩
        · exact ⟨x, Or.inr rfl, rfl⟩
      · rintro ⟨y, hy | rfl, rfl⟩
        · exact Or.inl ⟨y, hy, rfl⟩
        · exact Or.inr rfl

theorem nodup_keysOf (W : List (Str × Str)) : (keysOf W).Nodup := by
  induction W using snoc_induction with
  | nil => simp [keysOf]
  | snoc W x ih =>
    rw [keysOf_append]
    by_cases h : x.2 ∈ keysOf W
    · simpa [h] using ih
    · simp only [h, ↓reduceIte]
      rw [List.nodup_append]
      refine ⟨ih, by simp, ?_⟩
      intro a ha b hb
      simp at hb; subst hb
      intro hab; subst hab; exact h ha


def upd (g : Group) (name : Str) : Group :=
  { g with first := if slt name g.first then name else g.first, count := g.count + 1 }

theorem addPod_map_mem (keys : List Str) (g : Str → Group) (hg : ∀ k, (g k).warning = k) (w n : Str)
    (hw : w ∈ keys) (hnd : keys.Nodup) :
    addPod (keys.map g) w n = keys.map (fun k => if k = w then upd (g k) n else g k) := by
  induction keys with
  | nil => simp at hw
  | cons k ks ih =>
    have hnd' := List.nodup_cons.mp hnd
    simp only [List.map_cons, addPod, hg]
    by_cases hk : k = w
    · subst hk
      simp only [↓reduceIte, upd, List.cons.injEq]
      refine ⟨by simp [hg], ?_⟩
      apply List.map_congr_left
      intro a ha
      have : a ≠ k := fun h => hnd'.1 (h ▸ ha)
      simp [this]
    · have hw' : w ∈ ks := by
        rcases List.mem_cons.mp hw with h | h
        · exact absurd h.symm hk
        · exact h
      simp [hk, ih hw' hnd'.2]

theorem addPod_map_not_mem (keys : List Str) (g : Str → Group) (hg : ∀ k, (g k).warning = k) (w n : Str)
    (hw : w ∉ keys) : addPod (keys.map g) w n = keys.map g ++ [⟨w, n, 1⟩] := by
  induction keys with
  | nil => simp [addPod]
  | cons k ks ih =>
    have hk : k ≠ w := fun h => hw (h ▸ List.mem_cons_self ..)
    have hw' : w ∉ ks := fun h => hw (List.mem_cons_of_mem _ h)
    simp [addPod, hg, hk, ih hw']

theorem namesOf_append (k : Str) (W : List (Str × Str)) (n w : Str) :
    namesOf k (W ++ [(n, w)]) = if w = k then namesOf k W ++ [n] else namesOf k W := by
  unfold namesOf
  by_cases h : w = k <;> simp [List.filter_append, h]

theorem firstOf_append (l : List Str) (n : Str) (hl : l ≠ []) :
    firstOf (l ++ [n]) = if slt n (firstOf l) then n else firstOf l := by
  cases l with
  | nil => exact absurd rfl hl
  | cons a as =>
    simp only [List.cons_append, firstOf, minStr, List.foldl_append, List.foldl_cons, List.foldl_nil]
    rfl

theorem namesOf_ne_nil (W : List (Str × Str)) (w : Str) (h : w ∈ keysOf W) : namesOf w W ≠ [] := by
  obtain ⟨x, hx, hxw⟩ := (mem_keysOf W w).mp h
  intro hn
  have : x.1 ∈ namesOf w W := by
    unfold namesOf
    exact List.mem_map.mpr ⟨x, List.mem_filter.mpr ⟨hx, by simpa using hxw⟩, rfl⟩
  simp [hn] at this

theorem namesOf_nil (W : List (Str × Str)) (w : Str) (h : w ∉ keysOf W) : namesOf w W = [] := by
  unfold namesOf
  rw [List.map_eq_nil_iff, List.filter_eq_nil_iff]
  intro x hx hxw
  exact h ((mem_keysOf W w).mpr ⟨x, hx, by simpa using hxw⟩)

theorem groups_step (W : List (Str × Str)) (n w : Str) :
    addPod (groupsSpec W) w n = groupsSpec (W ++ [(n, w)]) := by
  unfold groupsSpec
  rw [keysOf_append]
  by_cases hw : w ∈ keysOf W
  · simp only [hw, ↓reduceIte]
    rw [addPod_map_mem _ _ (fun k => rfl) w n hw (nodup_keysOf W)]
    apply List.map_congr_left
    intro k hk
    by_cases hkw : k = w
    · subst hkw
      simp only [↓reduceIte, upd, groupFor, namesOf_append]
      rw [firstOf_append _ _ (namesOf_ne_nil W k hw)]
      simp
      rfl
    · have : ¬ w = k := fun h => hkw h.symm
      simp [hkw, groupFor, namesOf_append, this]
  · simp only [hw, ↓reduceIte]
    rw [addPod_map_not_mem _ _ (fun k => rfl) w n hw, List.map_append]
    congr 1
    · apply List.map_congr_left
      intro k hk
      have : ¬ w = k := fun h => hw (h ▸ hk)
      simp [groupFor, namesOf_append, this]
    · simp [groupFor, namesOf_append, namesOf_nil W w hw, firstOf, minStr]

/-- C11/C12 core: the incremental bookkeeping of the loop computes exactly, per distinct reason text,
    the lexically first pod name and the number of pods -/
theorem groupsLoop_eq_spec (W : List (Str × Str)) : groupsLoop W = groupsSpec W := by
  have : ∀ W0 W1 : List (Str × Str), W1.foldl (fun gs x => addPod gs x.2 x.1) (groupsSpec W0) = groupsSpec (W0 ++ W1) := by
    intro W0 W1
    induction W1 generalizing W0 with
    | nil => simp
    | cons x xs ih =>
      simp only [List.foldl_cons]
      rw [groups_step, ih]
      simp
  simpa [groupsLoop, groupsSpec, keysOf] using this [] W


/-! ### the first name is the lexically least; everything is order-independent -/

theorem slt_iff (a b : Str) : slt a b = true ↔ a < b := by simp [slt]

theorem minStr_spec (a : Str) (l : List Str) :
    minStr a l ∈ a :: l ∧ ∀ x ∈ a :: l, minStr a l ≤ x := by
  induction l generalizing a with
  | nil => simp [minStr]
  | cons b bs ih =>
    simp only [minStr, List.foldl_cons]
    by_cases h : slt b a = true
    · simp only [h, ↓reduceIte]
      have hb := ih b
      simp only [minStr] at hb
      refine ⟨?_, ?_⟩
      · rcases List.mem_cons.mp hb.1 with h1 | h1
        · simp [h1]
        · exact List.mem_cons_of_mem _ (List.mem_cons_of_mem _ h1)
      · intro x hx
        rcases List.mem_cons.mp hx with rfl | hx'
        · have h1 : List.foldl (fun a b => if slt b a = true then b else a) b bs ≤ b := hb.2 b (by simp)
          exact Std.le_trans h1 (Std.le_of_lt ((slt_iff _ _).mp h))
        · exact hb.2 x hx'
    · simp only [h, ↓reduceIte]
      have ha := ih a
      simp only [minStr] at ha
      refine ⟨?_, ?_⟩
      · rcases List.mem_cons.mp ha.1 with h1 | h1
        · simp [h1]
        · exact List.mem_cons_of_mem _ (List.mem_cons_of_mem _ h1)
      · intro x hx
        rcases List.mem_cons.mp hx with rfl | hx'
        · exact ha.2 _ (by simp)
        · rcases List.mem_cons.mp hx' with rfl | hx''
          · have h1 : List.foldl (fun a b => if slt b a = true then b else a) a bs ≤ a := ha.2 a (by simp)
            have h2 : a ≤ x := by
              have : ¬ x < a := fun hlt => h ((slt_iff _ _).mpr hlt)
              exact Std.not_lt.mp this
            exact Std.le_trans h1 h2
          · exact ha.2 x (List.mem_cons_of_mem _ hx'')

/-- `C11`: the name printed for a group is the lexically first of its pods -/
theorem firstOf_spec (l : List Str) (hl : l ≠ []) : firstOf l ∈ l ∧ ∀ x ∈ l, firstOf l ≤ x := by
  cases l with
  | nil => exact absurd rfl hl
  | cons a as => exact minStr_spec a as

theorem firstOf_perm (l l' : List Str) (h : l.Perm l') : firstOf l = firstOf l' := by
  cases l with
  | nil => have := h.length_eq; cases l' <;> simp_all
  | cons a as =>
    have hne : l' ≠ [] := by intro h'; subst h'; simpa using h.length_eq
    obtain ⟨m1, le1⟩ := firstOf_spec (a :: as) (by simp)
    obtain ⟨m2, le2⟩ := firstOf_spec l' hne
    exact Std.le_antisymm (le1 _ (h.mem_iff.mpr m2)) (le2 _ (h.mem_iff.mp m1))

theorem keysOf_perm (W W' : List (Str × Str)) (h : W.Perm W') : (keysOf W).Perm (keysOf W') := by
  rw [List.perm_ext_iff_of_nodup (nodup_keysOf W) (nodup_keysOf W')]
  intro w
  rw [mem_keysOf, mem_keysOf]
  constructor
  · rintro ⟨x, hx, rfl⟩; exact ⟨x, h.mem_iff.mp hx, rfl⟩
  · rintro ⟨x, hx, rfl⟩; exact ⟨x, h.mem_iff.mpr hx, rfl⟩

theorem groupFor_perm (W W' : List (Str × Str)) (h : W.Perm W') (w : Str) : groupFor W w = groupFor W' w := by
  have hn : (namesOf w W).Perm (namesOf w W') := (h.filter _).map _
  simp [groupFor, firstOf_perm _ _ hn, hn.length_eq]

/-- the set of groups does not depend on the order in which pods were listed -/
theorem groupsSpec_perm (W W' : List (Str × Str)) (h : W.Perm W') : (groupsSpec W).Perm (groupsSpec W') := by
  unfold groupsSpec
  have : (keysOf W').map (groupFor W) = (keysOf W').map (groupFor W') :=
    List.map_congr_left (fun w _ => groupFor_perm W W' h w)
  rw [← this]
  exact (keysOf_perm W W' h).map _

end PSA

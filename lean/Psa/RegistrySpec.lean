import Psa.Registry
namespace PSA

/-- the revision the rule selects at minor `n`: the last one whose minimum is ≤ n -/
def selected (revs : List (Rev α)) (n : Nat) : Option (Rev α) :=
  (revs.filter (fun r => r.min.minor ≤ n)).getLast?

def findCheck (cs : List (Check α)) (id : Str) : Option (Check α) := cs.find? (fun c => c.id == id)

def selById (cs : List (Check α)) (V : Nat) (id : Str) : Option (Rev α) :=
  (findCheck cs id).bind (fun c => selected c.revs V)

/-- The resolution rule of C04, stated outright. -/
def spec (cs : List (Check α)) (l : Level) (V : Nat) : List α :=
  let bids := sortIds ((cs.filter (fun c => c.level == .baseline)).map (·.id))
  let rids := sortIds ((cs.filter (fun c => c.level == .restricted)).map (·.id))
  let ov := rids.flatMap (fun id => overridesOf (selById cs V id))
  match l with
  | .privileged => []
  | .baseline => bids.filterMap (fun id => (selById cs V id).map (·.fn))
  | .restricted =>
      (bids.filter (fun id => !ov.contains id)).filterMap (fun id => (selById cs V id).map (·.fn)) ++
      rids.filterMap (fun id => (selById cs V id).map (·.fn))

def clampV (M : Nat) : Ver → Nat
  | .latest => M
  | .mm _ n => min n M

structure WellFormed (cs : List (Check α)) : Prop where
  ids : (cs.map (·.id)).Nodup
  levels : ∀ c ∈ cs, c.level = .baseline ∨ c.level = .restricted
  nonempty : ∀ c ∈ cs, c.revs ≠ []
  major : ∀ c ∈ cs, ∀ r ∈ c.revs, r.min = .mm 1 r.min.minor
  increasing : ∀ c ∈ cs, c.revs.Pairwise (fun r r' => r.min.minor < r'.min.minor)
  overrides : ∀ c ∈ cs, ∀ r ∈ c.revs, r.overrides ≠ [] →
      c.level = .restricted ∧ ∀ o ∈ r.overrides, ∀ c' ∈ cs, c'.id = o → c'.level = .baseline

/-- a miniature of the shipped table, for sanity `#eval`s -/
def demo : List (Check String) :=
  [ { id := b!"seccompProfile_baseline", level := .baseline, revs := [⟨.mm 1 0, "sb0", []⟩, ⟨.mm 1 19, "sb19", []⟩] },
    { id := b!"hostPathVolumes", level := .baseline, revs := [⟨.mm 1 0, "hp0", []⟩] },
    { id := b!"seccompProfile_restricted", level := .restricted,
      revs := [⟨.mm 1 19, "sr19", [b!"seccompProfile_baseline"]⟩, ⟨.mm 1 25, "sr25", [b!"seccompProfile_baseline"]⟩] },
    { id := b!"restrictedVolumes", level := .restricted, revs := [⟨.mm 1 0, "rv0", [b!"hostPathVolumes"]⟩] },
    { id := b!"allowPrivilegeEscalation", level := .restricted, revs := [⟨.mm 1 8, "ape8", []⟩, ⟨.mm 1 25, "ape25", []⟩] } ]

#eval validateChecks demo
#eval (populate demo).evaluate .restricted (.mm 1 7)
#eval (populate demo).evaluate .restricted (.mm 1 19)
#eval (populate demo).evaluate .restricted .latest
#eval (populate demo).evaluate .baseline (.mm 1 30)
#eval spec demo .restricted (clampV 25 (.mm 1 19))
#eval (List.range 40).all (fun n => [Level.privileged, .baseline, .restricted].all (fun l =>
   (populate demo).evaluate l (.mm 1 n) == spec demo l (clampV 25 (.mm 1 n))))
end PSA

import Psa.Api
/-! admission/api: the configuration document, strict loading, per-version defaulting, validation, ToPolicy.
    A document is a tree of bounded depth (objects as key/value *lists*, so that duplicate keys are representable). The
    tokenizers (JSON / YAML syntax) are not modelled: the correspondence renders these trees in both syntaxes. -/
namespace PSA.Config
open PSA

/-- a value where a string is expected inside a list -/
inductive V0 | null | str (s : Str) | other
  deriving DecidableEq, Repr
/-- a value of a field of `defaults` / `exemptions` -/
inductive V1 | null | str (s : Str) | other | list (l : List V0) | obj
  deriving DecidableEq, Repr
/-- a top-level value -/
inductive V2 | null | str (s : Str) | other | list (l : List V0) | obj (fields : List (Str × V1))
  deriving DecidableEq, Repr

abbrev Doc := List (Str × V2)

structure Defaults where
  enforce : Str := []
  enforceVersion : Str := []
  audit : Str := []
  auditVersion : Str := []
  warn : Str := []
  warnVersion : Str := []
  deriving DecidableEq, Repr

structure Exemptions where
  usernames : List Str := []
  namespaces : List Str := []
  runtimeClasses : List Str := []
  deriving DecidableEq, Repr

structure Cfg where
  defaults : Defaults := {}
  exemptions : Exemptions := {}
  deriving DecidableEq, Repr

def group : Str := b!"pod-security.admission.config.k8s.io"
def servedVersions : List Str := [b!"v1", b!"v1beta1", b!"v1alpha1"]
def kindName : Str := b!"PodSecurityConfiguration"

def keysNodup (l : List Str) : Bool := match l with
  | [] => true
  | k :: rest => !rest.contains k && keysNodup rest

def strOf : V1 → Option Str
  | .null => some []
  | .str s => some s
  | _ => none

def item : V0 → Option Str
  | .null => some []
  | .str s => some s
  | .other => none

def listOf : V1 → Option (List Str)
  | .null => some []
  | .list l => l.mapM item
  | _ => none

def defaultsKeys : List Str := [b!"enforce", b!"enforce-version", b!"audit", b!"audit-version", b!"warn", b!"warn-version"]
def exemptionsKeys : List Str := [b!"usernames", b!"namespaces", b!"runtimeClasses"]
def topKeys : List Str := [b!"apiVersion", b!"kind", b!"defaults", b!"exemptions"]

def lookup {α} (fs : List (Str × α)) (k : Str) : Option α := (fs.find? (·.1 = k)).map (·.2)

/-- strict object: known keys only, no duplicates -/
def strictKeys {α} (known : List Str) (fs : List (Str × α)) : Bool :=
  fs.all (fun f => known.contains f.1) && keysNodup (fs.map (·.1))

def field (fs : List (Str × V1)) (k : Str) : Option Str :=
  match lookup fs k with
  | none => some []
  | some v => strOf v

def listField (fs : List (Str × V1)) (k : Str) : Option (List Str) :=
  match lookup fs k with
  | none => some []
  | some v => listOf v

def decodeDefaults : Option V2 → Option Defaults
  | none => some {}
  | some .null => some {}
  | some (.obj fs) =>
    if strictKeys defaultsKeys fs then do
      return { enforce := ← field fs b!"enforce", enforceVersion := ← field fs b!"enforce-version",
               audit := ← field fs b!"audit", auditVersion := ← field fs b!"audit-version",
               warn := ← field fs b!"warn", warnVersion := ← field fs b!"warn-version" }
    else none
  | some _ => none

def decodeExemptions : Option V2 → Option Exemptions
  | none => some {}
  | some .null => some {}
  | some (.obj fs) =>
    if strictKeys exemptionsKeys fs then do
      return { usernames := ← listField fs b!"usernames", namespaces := ← listField fs b!"namespaces",
               runtimeClasses := ← listField fs b!"runtimeClasses" }
    else none
  | some _ => none

/-- SetDefaults_PodSecurityDefaults (identical in the three served versions) -/
def orElse (s dflt : Str) : Str := if s.isEmpty then dflt else s
def setDefaults (d : Defaults) : Defaults :=
  { enforce := orElse d.enforce b!"privileged", enforceVersion := orElse d.enforceVersion b!"latest",
    audit := orElse d.audit b!"privileged", auditVersion := orElse d.auditVersion b!"latest",
    warn := orElse d.warn b!"privileged", warnVersion := orElse d.warnVersion b!"latest" }

def versionOf (apiVersion : Str) : Option Str :=
  if (group ++ b!"/").isPrefixOf apiVersion then some (apiVersion.drop (group.length + 1)) else none

/-- LoadFromData on a non-empty document -/
def loadDoc (d : Doc) : Option Cfg :=
  if !strictKeys topKeys d then none
  else match lookup d b!"kind", lookup d b!"apiVersion" with
    | some (.str k), some (.str av) =>
      if k ≠ kindName then none
      else match versionOf av with
        | some v =>
          if servedVersions.contains v then do
            let ds ← decodeDefaults (lookup d b!"defaults")
            let es ← decodeExemptions (lookup d b!"exemptions")
            return { defaults := setDefaults ds, exemptions := es }
          else none
        | none => none
    | _, _ => none

/-- LoadFromData: empty input = the all-defaults configuration -/
def load (d : Option Doc) : Option Cfg :=
  match d with
  | none => some { defaults := setDefaults {} }
  | some d => loadDoc d

/-! ### validation -/

def isLower (c : Nat) : Bool := 97 ≤ c && c ≤ 122
def isAlnum (c : Nat) : Bool := isLower c || isDigit c
def isLabelChar (c : Nat) : Bool := isAlnum c || c == 45

/-- RFC 1123 label: [a-z0-9]([-a-z0-9]*[a-z0-9])?, at most 63 bytes -/
def isDNSLabel (s : Str) : Bool :=
  !s.isEmpty && s.length ≤ 63 && s.all isLabelChar &&
  (match s.head? with | some c => isAlnum c | none => false) &&
  (match s.getLast? with | some c => isAlnum c | none => false)

def splitOn (sep : Nat) : Str → List Str
  | [] => [[]]
  | c :: rest =>
    match splitOn sep rest with
    | [] => [[]]
    | cur :: more => if c = sep then [] :: cur :: more else (c :: cur) :: more

/-- RFC 1123 subdomain: labels joined by '.', at most 253 bytes -/
def isDNSSubdomain (s : Str) : Bool :=
  !s.isEmpty && s.length ≤ 253 && (splitOn 46 s).all isDNSLabelNoLen
where
  isDNSLabelNoLen (l : Str) : Bool :=
    !l.isEmpty && l.all isLabelChar &&
    (match l.head? with | some c => isAlnum c | none => false) &&
    (match l.getLast? with | some c => isAlnum c | none => false)

inductive ErrKind | invalid | duplicate deriving DecidableEq, Repr
structure VErr where
  path : Str
  index : Option Nat := none
  kind : ErrKind := .invalid
  deriving DecidableEq, Repr

def validateList (path : Str) (ok : Str → Bool) (l : List Str) : List VErr :=
  let rec go (i : Nat) (seen : List Str) : List Str → List VErr
    | [] => []
    | x :: rest =>
      if !ok x then ⟨path, some i, .invalid⟩ :: go (i + 1) seen rest
      else if seen.contains x then ⟨path, some i, .duplicate⟩ :: go (i + 1) seen rest
      else go (i + 1) (x :: seen) rest
  go 0 [] l

def vLevel (path s : Str) : List VErr := if (parseLevel s).2 then [] else [⟨path, none, .invalid⟩]
def vVersion (path s : Str) : List VErr := if (parseVersion s).2 then [] else [⟨path, none, .invalid⟩]

/-- ValidatePodSecurityConfiguration -/
def validate (c : Cfg) : List VErr :=
  vLevel b!"defaults.enforce" c.defaults.enforce ++ vVersion b!"defaults.enforce-version" c.defaults.enforceVersion ++
  vLevel b!"defaults.warn" c.defaults.warn ++ vVersion b!"defaults.warn-version" c.defaults.warnVersion ++
  vLevel b!"defaults.audit" c.defaults.audit ++ vVersion b!"defaults.audit-version" c.defaults.auditVersion ++
  validateList b!"exemptions.namespaces" isDNSLabel c.exemptions.namespaces ++
  validateList b!"exemptions.runtimeClasses" isDNSSubdomain c.exemptions.runtimeClasses ++
  validateList b!"exemptions.usernames" (fun u => !u.isEmpty) c.exemptions.usernames

/-- ToPolicy: none = error (a field empty or unparsable) -/
def toPolicy (d : Defaults) : Option Policy :=
  let lv (s : Str) : Option Level := if s.isEmpty then none else if (parseLevel s).2 then some (parseLevel s).1 else none
  let vv (s : Str) : Option Ver := if s.isEmpty then none else if (parseVersion s).2 then some (parseVersion s).1 else none
  do
    return ⟨⟨← lv d.enforce, ← vv d.enforceVersion⟩, ⟨← lv d.audit, ← vv d.auditVersion⟩, ⟨← lv d.warn, ← vv d.warnVersion⟩⟩

end PSA.Config

import Psa.Admit
import Psa.DryRun
/-! ValidateNamespace and the existing-pod dry run. -/
namespace PSA

/-- prioritizePods: state = (kept in order, later siblings in order, controller uids seen) -/
def prioStep (exRC : List Str) (st : List PodObj × List PodObj × List Str) (p : PodObj) :
    List PodObj × List PodObj × List Str :=
  if exemptRC p.runtimeClass exRC then st
  else match p.owner with
    | none => (st.1 ++ [p], st.2.1, st.2.2)
    | some uid => if st.2.2.contains uid then (st.1, st.2.1 ++ [p], st.2.2) else (st.1 ++ [p], st.2.1, uid :: st.2.2)

def prioritize (exRC : List Str) (pods : List PodObj) : List PodObj :=
  let st := pods.foldl (prioStep exRC) ([], [], [])
  st.1 ++ st.2.1

/-- the evaluation loop with its `break`: evaluate pod i, then look at ctx.Err() -/
def loopChecked (n : Nat) (expireAfter : Option Nat) : Nat :=
  match expireAfter with
  | some k => if k < n then k + 1 else n
  | none => n

def reasonText (a : Agg) : Str := (a.reasons.intersperse b!", ").flatten    -- strings.Join(reasons, ", ")

def dryRun (ev : Ev) (exRC : List Str) (maxPods : Nat) (nsName : Str) (lv : LevelVersion)
    (pods : List PodObj) (expireAfter : Option Nat) : List Warning × List (LevelVersion × Str) :=
  let pr := prioritize exRC pods
  let total := pr.length
  let capped := pr.take maxPods
  let checked := loopChecked capped.length expireAfter
  let evald := capped.take checked
  let W := evald.filterMap (fun p => let a := aggregate (ev lv p); if a.allowed then none else some (p.name, reasonText a))
  let gs := groupsLoop W
  let lines := gs.map (fun g => (g.first, g.count - 1, g.warning))
  -- decorate, then sort.Strings on the decorated text; here: sort on (first, others, reasons) rendered later
  ((if checked < total then [Warning.onlyChecked checked total] else []) ++
   (if gs.isEmpty then [] else [Warning.header nsName lv]) ++
   lines.map (fun l => Warning.podLine l.1 l.2.1 l.2.2),
   evald.map (fun p => (lv, p.name)))

theorem loopChecked_le (n : Nat) (e : Option Nat) : loopChecked n e ≤ n := by
  unfold loopChecked; split <;> (try split) <;> omega

/-- C12: never more than the cap is evaluated, whatever the population and whenever the context expires -/
theorem C12_cap (ev : Ev) (exRC : List Str) (maxPods : Nat) (ns : Str) (lv : LevelVersion) (pods : List PodObj)
    (e : Option Nat) : (dryRun ev exRC maxPods ns lv pods e).2.length ≤ maxPods := by
  simp only [dryRun, List.length_map, List.length_take]
  have := loopChecked_le (min maxPods (prioritize exRC pods).length) e
  omega

/-- C12: the "only checked the first c of t" line appears exactly when fewer pods were evaluated than exist,
    with exactly the number evaluated and the number of (non-exempt) pods -/
theorem C12_honest (ev : Ev) (exRC : List Str) (maxPods : Nat) (ns : Str) (lv : LevelVersion) (pods : List PodObj)
    (e : Option Nat) :
    let r := dryRun ev exRC maxPods ns lv pods e
    let total := (prioritize exRC pods).length
    (Warning.onlyChecked r.2.length total ∈ r.1 ↔ r.2.length < total) ∧
    (∀ c t, Warning.onlyChecked c t ∈ r.1 → c = r.2.length ∧ t = total) := by
  simp only [dryRun, List.length_map, List.length_take]
  have hle := loopChecked_le (min maxPods (prioritize exRC pods).length) e
  have hmin : min (loopChecked (min maxPods (prioritize exRC pods).length) e) (min maxPods (prioritize exRC pods).length)
      = loopChecked (min maxPods (prioritize exRC pods).length) e := by omega
  rw [hmin]
  generalize loopChecked (min maxPods (prioritize exRC pods).length) e = c at *
  constructor
  · by_cases h : c < (prioritize exRC pods).length <;> simp [h]
  · intro c' t' hm
    by_cases h : c < (prioritize exRC pods).length
    · simp [h] at hm
      exact hm
    · simp [h] at hm
      try (split at hm <;> simp at hm)

#print axioms C12_honest
end PSA

import Psa.Admit
import Psa.DryRun
/-! ValidateNamespace, the existing-pod dry run, and the top-level dispatch `validate`. -/
namespace PSA

/-- prioritizePods: state = (kept in order, later siblings in order, controller uids seen) -/
def prioStep (exRC : List Str) (st : List PodObj × List PodObj × List Str) (p : PodObj) :
    List PodObj × List PodObj × List Str :=
  if exemptRC p.runtimeClass exRC then st
  else match p.owner with
    | none => (st.1 ++ [p], st.2.1, st.2.2)
    | some uid => if st.2.2.contains uid then (st.1, st.2.1 ++ [p], st.2.2) else (st.1 ++ [p], st.2.1, uid :: st.2.2)

def prioritize (exRC : List Str) (pods : List PodObj) : List PodObj :=
  let st := pods.foldl (prioStep exRC) ([], [], [])
  st.1 ++ st.2.1

/-- the evaluation loop with its `break`: evaluate pod i, then look at ctx.Err() -/
def loopChecked (n : Nat) (expireAfter : Option Nat) : Nat :=
  match expireAfter with
  | some k => if k < n then k + 1 else n
  | none => n

/-- decoratePodWarnings -/
def decorate (g : Group) : Str :=
  if g.count = 0 then g.warning
  else if g.count = 1 then g.first ++ b!": " ++ g.warning
  else if g.count = 2 then g.first ++ b!" (and 1 other pod): " ++ g.warning
  else g.first ++ b!" (and " ++ itoa (g.count - 1) ++ b!" other pods): " ++ g.warning

/-- the pods the loop actually evaluates: prioritised, capped, cut at the expiry index -/
def dryRunEvaluated (exRC : List Str) (maxPods : Nat) (pods : List PodObj) (expireAfter : Option Nat) : List PodObj :=
  let capped := (prioritize exRC pods).take maxPods
  capped.take (loopChecked capped.length expireAfter)

/-- (pod name, aggregate reason text) of the evaluated pods that violate -/
def dryRunViolations (ev : Ev) (lv : LevelVersion) (evald : List PodObj) : List (Str × Str) :=
  evald.filterMap (fun p => let a := aggregate (ev lv p); if a.allowed then none else some (p.name, a.reasonText))

/-- EvaluatePodsInNamespace after a successful listing -/
def dryRun (ev : Ev) (exRC : List Str) (maxPods : Nat) (nsName : Str) (lv : LevelVersion)
    (pods : List PodObj) (expireAfter : Option Nat) : List Warning × List (LevelVersion × Str) :=
  let total := (prioritize exRC pods).length
  let evald := dryRunEvaluated exRC maxPods pods expireAfter
  let gs := groupsLoop (dryRunViolations ev lv evald)
  ((if evald.length < total then [Warning.onlyChecked evald.length total] else []) ++
   (if gs.isEmpty then [] else [Warning.header nsName lv]) ++
   (sortStrs (gs.map decorate)).map Warning.podLine,
   evald.map (fun p => (lv, p.name)))

/-- the dry-run timeout: min(default, remaining/2) with Go's truncating division -/
def dryRunTimeout (dflt : Int) (remaining : Option Int) : Int :=
  match remaining with
  | some rem => if dflt > rem.tdiv 2 then rem.tdiv 2 else dflt
  | none => dflt

def LevelVersion.equivalent (a b : LevelVersion) : Bool :=
  (a.level == .privileged && b.level == .privileged) || a == b
def Policy.equivalent (p q : Policy) : Bool :=
  p.enforce.equivalent q.enforce && p.audit.equivalent q.audit && p.warn.equivalent q.warn

/-- exemptNamespaceWarning -/
def exemptNamespaceWarning (defaults : Policy) (nsName : Str) (pol : Policy) (labels : Labels) : Option Str :=
  if pol.fullyPrivileged || pol.equivalent defaults then none
  else
    let has (k : Str) : Bool := (labels.get k).isSome
    let part (tag : Str) (lv : LevelVersion) (k kv : Str) : List Str :=
      if lv.level != .privileged && (has k || has kv) then [tag ++ lv.str] else []
    let parts := part b!"enforce=" pol.enforce kEnforce kEnforceV ++ part b!"audit=" pol.audit kAudit kAuditV ++
      part b!"warn=" pol.warn kWarn kWarnV
    some (b!"namespace " ++ goQuote nsName ++ b!" is exempt from Pod Security, and the policy (" ++ Str.join b!", " parts ++
      b!") will be ignored")

structure Limits where
  maxPods : Nat
  timeout : Int   -- ns

def invalidResp (errs : List FieldErr) : Resp := { allowed := false, code := 422, fieldErrs := errs }
def nsErrResp : Resp := errResp 400

def exemptNsResp (cfg : Config) (nsName : Str) (pol : Policy) (labels : Labels) : Resp :=
  match exemptNamespaceWarning cfg.defaults nsName pol labels with
  | some t => { allowed := true, warnings := [.exemptNamespace t] }
  | none => allowPlain

/-- the four reasons to skip the dry run, in the order the code tests them (the fourth, exemption, is separate) -/
def skipDryRun (newE oldE : LevelVersion) : Bool :=
  newE == oldE || newE.level == .privileged || (newE.version == oldE.version && decide (compareLevels newE.level oldE.level < 1))

def validateNamespace (pv : Str → Ver × Bool) (cfg : Config) (lim : Limits) (w : World Ev) (r : Request) : Resp × Eff :=
  if r.sub ≠ [] then (allowPlain, {})
  else match r.obj with
  | .ok (.ns name labels) =>
    let (newPol, newErrs) := policyToEvaluate pv labels cfg.defaults
    match r.op with
    | .create =>
      if !newErrs.isEmpty then (invalidResp newErrs, {})
      else if exempt r.ns cfg.exNamespaces then (exemptNsResp cfg name newPol labels, {})
      else (allowPlain, {})
    | .update =>
      match r.old with
      | .ok (.ns _ oldLabels) =>
        let (oldPol, oldErrs) := policyToEvaluate pv oldLabels cfg.defaults
        if !newErrs.isEmpty && (oldErrs.isEmpty || newErrs != oldErrs) then (invalidResp newErrs, {})
        else if skipDryRun newPol.enforce oldPol.enforce then (allowPlain, {})
        else if exempt r.ns cfg.exNamespaces then (exemptNsResp cfg name newPol labels, {})
        else
          let t := dryRunTimeout lim.timeout w.remaining
          match w.listPods with
          | .error _ => ({ allowed := true, warnings := [.listFailed] }, { listCalls := 1, listTimeout := t })
          | .ok pods =>
            let (ws, calls) := dryRun w.ev cfg.exRuntimeClasses lim.maxPods name newPol.enforce pods w.expireAfter
            ({ allowed := true, warnings := ws }, { evalCalls := calls, listCalls := 1, listTimeout := t })
      | _ => (nsErrResp, {})
    | _ => (allowPlain, {})
  | _ => (nsErrResp, {})

/-- Admission.Validate -/
def validate (pv : Str → Ver × Bool) (cfg : Config) (lim : Limits) (w : World Ev) (r : Request) : Resp × Eff :=
  match r.res with
  | .namespaces => validateNamespace pv cfg lim w r
  | .pods => validatePod pv cfg w r
  | .other => validateController pv cfg w r

end PSA

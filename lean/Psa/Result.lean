import Psa.Str
namespace PSA

structure CheckResult where
  allowed : Bool
  reason : Str
  detail : Str
  deriving DecidableEq, Repr

structure Agg where
  allowed : Bool
  reasons : List Str
  details : List Str
  deriving DecidableEq, Repr

def unknownReason := b!"unknown forbidden reason"

def aggregate (rs : List CheckResult) : Agg :=
  let bad := rs.filter (fun r => !r.allowed)
  { allowed := bad.isEmpty
    reasons := bad.map (fun r => if r.reason = [] then unknownReason else r.reason)
    details := bad.map (·.detail) }

end PSA

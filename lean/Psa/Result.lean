import Psa.Str
namespace PSA

structure CheckResult where
  allowed : Bool
  reason : Str
  detail : Str
  deriving DecidableEq, Repr

structure Agg where
  allowed : Bool
  reasons : List Str
  details : List Str
  deriving DecidableEq, Repr

def unknownReason := b!"unknown forbidden reason"

def aggregate (rs : List CheckResult) : Agg :=
  let bad := rs.filter (fun r => !r.allowed)
  { allowed := bad.isEmpty
    reasons := bad.map (fun r => if r.reason = [] then unknownReason else r.reason)
    details := bad.map (·.detail) }

/-- AggregateCheckResult.ForbiddenReason -/
def Agg.reasonText (a : Agg) : Str := Str.join b!", " a.reasons

/-- AggregateCheckResult.ForbiddenDetail -/
def Agg.detailText (a : Agg) : Str :=
  Str.join b!", " ((a.reasons.zip a.details).map (fun rd => if rd.2.isEmpty then rd.1 else rd.1 ++ b!" (" ++ rd.2 ++ b!")"))

end PSA

import Psa.JsonIO
import Psa.Namespace
import Psa.Eval
import Psa.Generated.Tables
import Psa.Generated.Facts
import Psa.StdEval
import Psa.Extract
/-! Driver side of the `admit` op: decode configuration / request / world, run `validate`, encode the observables. -/
namespace PSA.IO
open Lean PSA

def podObj (j : Json) : R PodObj := do
  return { name := strD j "name", pod := ← pod (fldD j "pod"), runtimeClass := ← optOf str (fldD j "rc"),
           owner := ← optOf str (fldD j "owner") }

def obj (j : Json) : R (Except Unit Obj) := do
  if j.isNull then return .ok .nil
  if boolD j "err" then return .error ()
  match (fldD j "kind").getStr? with
  | .ok "pod" => return .ok (.pod (← podObj (fldD j "pod")))
  | .ok "namespace" => return .ok (.ns (strD j "name") (← kvs (fldD j "labels")))
  | .ok "controller" =>
    let t ← optOf podObj (fldD j "template")
    -- with the workload kind stated ("ctl": the resource), the template goes through the model's ExtractPodSpec
    match Extract.WKind.ofResource (strD j "ctl") with
    | some k => return .ok (Extract.toObj ⟨k, t⟩)
    | none => return .ok (.controller t)
  | .ok "other" => return .ok .other
  | _ => return .ok .nil

def config (j : Json) : R Config := do
  return { defaults := ← policy (← fld j "defaults"), exNamespaces := ← arrOf str (fldD j "exNs"),
           exUsers := ← arrOf str (fldD j "exUsers"), exRuntimeClasses := ← arrOf str (fldD j "exRC") }

def request (j : Json) : R Request := do
  let res := match (fldD j "res").getStr? with
    | .ok "namespaces" => Res.namespaces
    | .ok "pods" => Res.pods
    | _ => Res.other
  let op := match (fldD j "op").getStr? with
    | .ok "CREATE" => Op.create
    | .ok "UPDATE" => Op.update
    | .ok "DELETE" => Op.delete
    | _ => Op.connect
  return { res := res, sub := strD j "sub", op := op, name := strD j "name", ns := strD j "ns", user := strD j "user",
           obj := ← obj (fldD j "obj"), old := ← obj (fldD j "old") }

/-- FNV-1a, 32 bit -/
def fnv32a (s : Str) : Nat :=
  s.foldl (fun h b => ((h ^^^ b) * 16777619) % 4294967296) 2166136261

/-- the synthetic evaluator shared with the Go harness: an independent pseudo-random verdict per (policy, pod name),
    reasons that embed the policy so that any mix-up between enforce / audit / warn or between pods shows -/
def synEval (salt : Nat) : Ev := fun lv p =>
  if lv.level == .privileged then []
  else
    let x := fnv32a (itoa salt ++ b!"|" ++ lv.str ++ b!"|" ++ p.name)
    (if x % 3 = 0 then [⟨false, b!"r1-" ++ lv.str, b!"d1 " ++ p.name⟩] else []) ++
    (if x % 5 = 0 then [⟨false, b!"r2-" ++ lv.str, []⟩] else []) ++
    (if x % 7 = 0 then [⟨false, b!"shared", []⟩] else []) ++
    (if x % 11 = 0 then [⟨false, [], b!"anon " ++ p.name⟩] else []) ++
    [⟨true, [], []⟩]

def realEval : Ev := fun lv p => evalPodModel Generated.tables false lv p.pod
/-- the Standard's own evaluator (published tables, hand-written version thresholds): the oracle of C01 -/
def stdEvalEv : Ev := fun lv p => stdEval lv.level lv.version p.pod

def world (j : Json) : R (World Ev) := do
  let nsj := fldD j "ns"
  let getNs : Except Unit Labels ← if boolD nsj "err" then pure (.error ()) else do pure (.ok (← kvs (fldD nsj "labels")))
  let pj := fldD j "pods"
  let listPods : Except Unit (List PodObj) ←
    match pj with
    | .arr _ => do pure (.ok (← arrOf podObj pj))
    | _ => if boolD pj "err" then pure (.error ()) else pure (.ok [])
  let evj := fldD j "ev"
  let ev : Ev := match (fldD evj "kind").getStr? with
    | .ok "syn" => synEval ((fldD evj "salt").getNat?.toOption.getD 0)
    | .ok "std" => stdEvalEv
    | _ => realEval
  return { getNs := getNs, listPods := listPods, expireAfter := ← optOf natOf (fldD j "expireAfter"),
           remaining := ← optOf intOf (fldD j "remaining"), ev := ev }

def metricStr : Metric → Str
  | .eval allow lv mode =>
      b!"eval/" ++ (if allow then b!"allow" else b!"deny") ++ b!"/" ++ lv.str ++ b!"/" ++
      (match mode with | 0 => b!"enforce" | 1 => b!"audit" | _ => b!"warn")
  | .exemption => b!"exempt"
  | .error fatal => b!"error/" ++ (if fatal then b!"true" else b!"false")

def jopt (o : Option Str) : Json := match o with | some s => jstr s | none => Json.null

def respJson (r : Resp) (e : Eff) : Json :=
  Json.mkObj [
    ("allowed", Json.bool r.allowed),
    ("code", Json.num (r.code : JsonNumber)),
    ("causes", Json.arr (r.fieldErrs.map (fun fe => Json.arr #[jstr fe.key, jstr fe.bad])).toArray),
    ("message", match r.enforcedLV, r.details with
      | some lv, some a => jstr (b!"violates PodSecurity " ++ goQuote lv.str ++ b!": " ++ a.detailText)
      | _, _ => Json.null),
    ("warnings", jstrs (r.warnings.map Warning.text)),
    ("annExempt", jopt r.annExempt),
    ("annError", Json.bool r.annError),
    ("annEnforce", jopt (r.annEnforce.map LevelVersion.str)),
    ("annAudit", jopt (r.annAudit.map (fun x => b!"would violate PodSecurity " ++ goQuote x.1.str ++ b!": " ++ x.2.detailText))),
    ("metrics", jstrs (e.metrics.map metricStr)),
    ("evalCalls", jstrs (e.evalCalls.map (fun c => c.1.str ++ b!"/" ++ c.2))),
    ("listCalls", Json.num (e.listCalls : JsonNumber)),
    ("listTimeout", Json.num (JsonNumber.fromInt e.listTimeout))]

def admitOp (j : Json) : R Json := do
  let cfg ← config (← fld j "cfg")
  let req ← request (← fld j "req")
  let w ← world (← fld j "world")
  let lim : Limits := { maxPods := Generated.namespaceMaxPodsToCheck, timeout := Generated.namespacePodCheckTimeoutNs }
  let (r, e) := validate parseVersion cfg lim w req
  return respJson r e

end PSA.IO

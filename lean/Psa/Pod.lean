import Psa.Api
namespace PSA

structure Caps where
  add : List Str := []
  drop : List Str := []
  deriving DecidableEq, Repr

structure SELinux where
  type : Str := []
  user : Str := []
  role : Str := []
  deriving DecidableEq, Repr

/-- container-level securityContext: exactly the fields the checks read -/
structure SecCtx where
  privileged : Option Bool := none
  allowPrivEsc : Option Bool := none
  caps : Option Caps := none
  procMount : Option Str := none
  runAsNonRoot : Option Bool := none
  runAsUser : Option Int := none
  seccompType : Option Str := none        -- seccompProfile == nil / .Type
  appArmorType : Option Str := none       -- appArmorProfile == nil / .Type
  seLinux : Option SELinux := none
  hostProcess : Option (Option Bool) := none   -- windowsOptions == nil / hostProcess == nil / value
  deriving DecidableEq, Repr

structure Container where
  name : Str
  image : Str := []
  hostPorts : List Int := []              -- HostPort of every entry of ports (zeros included)
  sc : Option SecCtx := none
  deriving DecidableEq, Repr

structure PodSecCtx where
  runAsNonRoot : Option Bool := none
  runAsUser : Option Int := none
  seccompType : Option Str := none
  appArmorType : Option Str := none
  seLinux : Option SELinux := none
  hostProcess : Option (Option Bool) := none
  sysctls : List Str := []
  deriving DecidableEq, Repr

/-- volume source kinds, in the order of the second switch of restrictedVolumes_1_0; `other` = any
    source field the switch does not name (reported as "unknown") -/
inductive VolKind
  | configMap | csi | downwardAPI | emptyDir | ephemeral | persistentVolumeClaim | projected | secret
  | hostPath | gcePersistentDisk | awsElasticBlockStore | gitRepo | nfs | iscsi | glusterfs | rbd
  | flexVolume | cinder | cephfs | flocker | fc | azureFile | vsphereVolume | quobyte | azureDisk
  | photonPersistentDisk | portworxVolume | scaleIO | storageos | other
  deriving DecidableEq, Repr

structure Volume where
  name : Str
  sources : List VolKind := []            -- the non-nil source fields
  deriving DecidableEq, Repr

structure Pod where
  annotations : List (Str × Str) := []    -- map entries, some iteration order, keys distinct
  hostNetwork : Bool := false
  hostPID : Bool := false
  hostIPC : Bool := false
  hostUsers : Option Bool := none
  os : Option Str := none
  sc : Option PodSecCtx := none
  initContainers : List Container := []
  containers : List Container := []
  ephemeralContainers : List Container := []
  volumes : List Volume := []
  deriving DecidableEq, Repr

/-- visitContainers order -/
def Pod.visit (p : Pod) : List Container := p.initContainers ++ p.containers ++ p.ephemeralContainers

def Pod.isWindows (p : Pod) : Bool := p.os == some b!"windows"

/-- accessors that flatten the nil chain the way the code tests it -/
def Container.get {α} (c : Container) (f : SecCtx → Option α) : Option α := c.sc.bind f
def Pod.get {α} (p : Pod) (f : PodSecCtx → Option α) : Option α := p.sc.bind f

/-- the hypothesis of C02/C03: what API validation guarantees and the checks rely on -/
def ApiValid (p : Pod) : Prop :=
  (∀ v ∈ p.volumes, v.sources.length ≤ 1) ∧
  (p.isWindows = true →
     p.get (·.seccompType) = none ∧
     ∀ c ∈ p.visit, c.get (·.seccompType) = none ∧ c.get (·.caps) = none ∧ c.get (·.allowPrivEsc) = none)

instance (p : Pod) : Decidable (ApiValid p) := by unfold ApiValid; exact inferInstance

/-- structured result of one check revision -/
structure CheckOut where
  allowed : Bool
  pod : Bool := false                    -- the pod-level setting is an offender
  containers : List Str := []            -- offending containers (explicit)
  containers2 : List Str := []           -- second category (implicit / adding forbidden caps)
  volumes : List Str := []
  values : List Str := []                -- offending values, in insertion order (render sorts/dedups)
  flags : List Str := []                 -- hostNetwork=true …, forbidden annotations, forbidden sysctls
  extra : List Str := []                 -- further message parts that never decide the verdict
  deriving DecidableEq, Repr

def CheckOut.ok : CheckOut := { allowed := true }

def offenders (cs : List Container) (bad : Container → Bool) : List Str := (cs.filter bad).map (·.name)

theorem offenders_nil_iff (cs : List Container) (bad : Container → Bool) :
    offenders cs bad = [] ↔ ∀ c ∈ cs, bad c = false := by
  simp [offenders, List.filter_eq_nil_iff]

end PSA

import Psa.Namespace
/-! Path characterisation of ValidatePod / ValidatePodController: the response is exactly one of a few shapes, each
    with its path condition. Property theorems do a case analysis on these instead of unfolding the functions. -/
namespace PSA

inductive PodOutcome (pv : Str → Ver × Bool) (cfg : Config) (w : World Ev) (r : Request) : Resp × Eff → Prop
  | ignored (h : ignoredSubresources.contains r.sub = true) : PodOutcome pv cfg w r (allowPlain, {})
  | exemptNs (h0 : ignoredSubresources.contains r.sub = false) (h : exempt r.ns cfg.exNamespaces = true) :
      PodOutcome pv cfg w r ({ allowed := true, annExempt := some b!"namespace" }, { metrics := [.exemption] })
  | exemptUser (h0 : ignoredSubresources.contains r.sub = false) (h1 : exempt r.ns cfg.exNamespaces = false)
      (h : exempt r.user cfg.exUsers = true) :
      PodOutcome pv cfg w r ({ allowed := true, annExempt := some b!"user" }, { metrics := [.exemption] })
  | nsErr (h0 : ignoredSubresources.contains r.sub = false) (h1 : exempt r.ns cfg.exNamespaces = false)
      (h2 : exempt r.user cfg.exUsers = false) (e : Unit) (h : w.getNs = .error e) :
      PodOutcome pv cfg w r (errResp 500, { metrics := [.error true] })
  | fullyPrivileged (h0 : ignoredSubresources.contains r.sub = false) (h1 : exempt r.ns cfg.exNamespaces = false)
      (h2 : exempt r.user cfg.exUsers = false) (labels : Labels) (h3 : w.getNs = .ok labels)
      (h : ((policyToEvaluate pv labels cfg.defaults).2.isEmpty && (policyToEvaluate pv labels cfg.defaults).1.fullyPrivileged) = true) :
      PodOutcome pv cfg w r ({ allowed := true, annEnforce := some ⟨.privileged, .latest⟩ },
        { metrics := [.eval true (policyToEvaluate pv labels cfg.defaults).1.enforce 0] })
  | badObject (h0 : ignoredSubresources.contains r.sub = false) (h1 : exempt r.ns cfg.exNamespaces = false)
      (h2 : exempt r.user cfg.exUsers = false) (labels : Labels) (h3 : w.getNs = .ok labels)
      (h4 : ((policyToEvaluate pv labels cfg.defaults).2.isEmpty && (policyToEvaluate pv labels cfg.defaults).1.fullyPrivileged) = false)
      (h : ∀ p, r.obj ≠ .ok (.pod p)) :
      PodOutcome pv cfg w r (errResp 400, { metrics := [.error true] })
  | badOldObject (h0 : ignoredSubresources.contains r.sub = false) (h1 : exempt r.ns cfg.exNamespaces = false)
      (h2 : exempt r.user cfg.exUsers = false) (labels : Labels) (h3 : w.getNs = .ok labels)
      (h4 : ((policyToEvaluate pv labels cfg.defaults).2.isEmpty && (policyToEvaluate pv labels cfg.defaults).1.fullyPrivileged) = false)
      (p : PodObj) (h5 : r.obj = .ok (.pod p)) (h6 : r.op = .update) (h : ∀ q, r.old ≠ .ok (.pod q)) :
      PodOutcome pv cfg w r (errResp 400, { metrics := [.error true] })
  | insignificant (h0 : ignoredSubresources.contains r.sub = false) (h1 : exempt r.ns cfg.exNamespaces = false)
      (h2 : exempt r.user cfg.exUsers = false) (labels : Labels) (h3 : w.getNs = .ok labels)
      (h4 : ((policyToEvaluate pv labels cfg.defaults).2.isEmpty && (policyToEvaluate pv labels cfg.defaults).1.fullyPrivileged) = false)
      (p : PodObj) (h5 : r.obj = .ok (.pod p)) (h6 : r.op = .update) (q : PodObj) (h7 : r.old = .ok (.pod q))
      (h : isSignificant p.pod q.pod = false) :
      PodOutcome pv cfg w r (allowPlain, {})
  | evaluated (h0 : ignoredSubresources.contains r.sub = false) (h1 : exempt r.ns cfg.exNamespaces = false)
      (h2 : exempt r.user cfg.exUsers = false) (labels : Labels) (h3 : w.getNs = .ok labels)
      (h4 : ((policyToEvaluate pv labels cfg.defaults).2.isEmpty && (policyToEvaluate pv labels cfg.defaults).1.fullyPrivileged) = false)
      (p : PodObj) (h5 : r.obj = .ok (.pod p))
      (h : r.op ≠ .update ∨ ∃ q, r.old = .ok (.pod q) ∧ isSignificant p.pod q.pod = true) :
      PodOutcome pv cfg w r (evaluateObj w.ev cfg (policyToEvaluate pv labels cfg.defaults).1
        (!(policyToEvaluate pv labels cfg.defaults).2.isEmpty) p true)

theorem validatePod_outcome (pv : Str → Ver × Bool) (cfg : Config) (w : World Ev) (r : Request) :
    PodOutcome pv cfg w r (validatePod pv cfg w r) := by
  unfold validatePod
  by_cases h0 : ignoredSubresources.contains r.sub = true
  · simp only [h0, ↓reduceIte]; exact .ignored h0
  have h0' : ignoredSubresources.contains r.sub = false := by simpa using h0
  by_cases h1 : exempt r.ns cfg.exNamespaces = true
  · simp only [h0', h1, Bool.false_eq_true, ↓reduceIte]; exact .exemptNs h0' h1
  have h1' : exempt r.ns cfg.exNamespaces = false := by simpa using h1
  by_cases h2 : exempt r.user cfg.exUsers = true
  · simp only [h0', h1', h2, Bool.false_eq_true, ↓reduceIte]; exact .exemptUser h0' h1' h2
  have h2' : exempt r.user cfg.exUsers = false := by simpa using h2
  simp only [h0', h1', h2', Bool.false_eq_true, ↓reduceIte]
  cases h3 : w.getNs with
  | error e => exact .nsErr h0' h1' h2' e h3
  | ok labels =>
    simp only
    by_cases h4 : ((policyToEvaluate pv labels cfg.defaults).2.isEmpty && (policyToEvaluate pv labels cfg.defaults).1.fullyPrivileged) = true
    · simp only [h4, ↓reduceIte]; exact .fullyPrivileged h0' h1' h2' labels h3 h4
    have h4' : ((policyToEvaluate pv labels cfg.defaults).2.isEmpty && (policyToEvaluate pv labels cfg.defaults).1.fullyPrivileged) = false := by
      simpa using h4
    simp only [h4', Bool.false_eq_true, ↓reduceIte]
    cases h5 : r.obj with
    | error e => exact .badObject h0' h1' h2' labels h3 h4' (by intro p hp; rw [h5] at hp; cases hp)
    | ok o =>
      cases o with
      | pod p =>
        simp only
        by_cases h6 : r.op = .update
        · simp only [h6, ↓reduceIte]
          cases h7 : r.old with
          | error e => exact .badOldObject h0' h1' h2' labels h3 h4' p h5 h6 (by intro q hq; rw [h7] at hq; cases hq)
          | ok oo =>
            cases oo with
            | pod q =>
              simp only
              by_cases h8 : isSignificant p.pod q.pod = true
              · simp only [h8, ↓reduceIte]
                exact .evaluated h0' h1' h2' labels h3 h4' p h5 (Or.inr ⟨q, h7, h8⟩)
              · simp only [h8, Bool.false_eq_true, ↓reduceIte]
                exact .insignificant h0' h1' h2' labels h3 h4' p h5 h6 q h7 (by simpa using h8)
            | ns n l => exact .badOldObject h0' h1' h2' labels h3 h4' p h5 h6 (by intro q hq; rw [h7] at hq; cases hq)
            | controller t => exact .badOldObject h0' h1' h2' labels h3 h4' p h5 h6 (by intro q hq; rw [h7] at hq; cases hq)
            | other => exact .badOldObject h0' h1' h2' labels h3 h4' p h5 h6 (by intro q hq; rw [h7] at hq; cases hq)
            | nil => exact .badOldObject h0' h1' h2' labels h3 h4' p h5 h6 (by intro q hq; rw [h7] at hq; cases hq)
        · rw [if_neg h6]
          exact .evaluated h0' h1' h2' labels h3 h4' p h5 (Or.inl h6)
      | ns n l => exact .badObject h0' h1' h2' labels h3 h4' (by intro p hp; rw [h5] at hp; cases hp)
      | controller t => exact .badObject h0' h1' h2' labels h3 h4' (by intro p hp; rw [h5] at hp; cases hp)
      | other => exact .badObject h0' h1' h2' labels h3 h4' (by intro p hp; rw [h5] at hp; cases hp)
      | nil => exact .badObject h0' h1' h2' labels h3 h4' (by intro p hp; rw [h5] at hp; cases hp)

inductive CtlOutcome (pv : Str → Ver × Bool) (cfg : Config) (w : World Ev) (r : Request) : Resp × Eff → Prop
  | subresource (h : r.sub ≠ []) : CtlOutcome pv cfg w r (allowPlain, {})
  | exemptNs (h0 : r.sub = []) (h : exempt r.ns cfg.exNamespaces = true) :
      CtlOutcome pv cfg w r ({ allowed := true, annExempt := some b!"namespace" }, { metrics := [.exemption] })
  | exemptUser (h0 : r.sub = []) (h1 : exempt r.ns cfg.exNamespaces = false) (h : exempt r.user cfg.exUsers = true) :
      CtlOutcome pv cfg w r ({ allowed := true, annExempt := some b!"user" }, { metrics := [.exemption] })
  | nsErr (h0 : r.sub = []) (h1 : exempt r.ns cfg.exNamespaces = false) (h2 : exempt r.user cfg.exUsers = false)
      (e : Unit) (h : w.getNs = .error e) : CtlOutcome pv cfg w r (allowWithError, { metrics := [.error true] })
  | quiet (h0 : r.sub = []) (h1 : exempt r.ns cfg.exNamespaces = false) (h2 : exempt r.user cfg.exUsers = false)
      (labels : Labels) (h3 : w.getNs = .ok labels)
      (h : ((policyToEvaluate pv labels cfg.defaults).2.isEmpty && (policyToEvaluate pv labels cfg.defaults).1.warn.level == .privileged &&
            (policyToEvaluate pv labels cfg.defaults).1.audit.level == .privileged) = true) :
      CtlOutcome pv cfg w r (allowPlain, {})
  | badObject (h0 : r.sub = []) (h1 : exempt r.ns cfg.exNamespaces = false) (h2 : exempt r.user cfg.exUsers = false)
      (labels : Labels) (h3 : w.getNs = .ok labels)
      (h4 : ((policyToEvaluate pv labels cfg.defaults).2.isEmpty && (policyToEvaluate pv labels cfg.defaults).1.warn.level == .privileged &&
            (policyToEvaluate pv labels cfg.defaults).1.audit.level == .privileged) = false)
      (h : (∀ p, r.obj ≠ .ok (.pod p)) ∧ (∀ t, r.obj ≠ .ok (.controller t))) :
      CtlOutcome pv cfg w r (allowWithError, { metrics := [.error true] })
  | noTemplate (h0 : r.sub = []) (h1 : exempt r.ns cfg.exNamespaces = false) (h2 : exempt r.user cfg.exUsers = false)
      (labels : Labels) (h3 : w.getNs = .ok labels)
      (h4 : ((policyToEvaluate pv labels cfg.defaults).2.isEmpty && (policyToEvaluate pv labels cfg.defaults).1.warn.level == .privileged &&
            (policyToEvaluate pv labels cfg.defaults).1.audit.level == .privileged) = false)
      (h : r.obj = .ok (.controller none)) : CtlOutcome pv cfg w r (allowPlain, {})
  | evaluated (h0 : r.sub = []) (h1 : exempt r.ns cfg.exNamespaces = false) (h2 : exempt r.user cfg.exUsers = false)
      (labels : Labels) (h3 : w.getNs = .ok labels)
      (h4 : ((policyToEvaluate pv labels cfg.defaults).2.isEmpty && (policyToEvaluate pv labels cfg.defaults).1.warn.level == .privileged &&
            (policyToEvaluate pv labels cfg.defaults).1.audit.level == .privileged) = false)
      (p : PodObj) (h : r.obj = .ok (.pod p) ∨ r.obj = .ok (.controller (some p))) :
      CtlOutcome pv cfg w r (evaluateObj w.ev cfg (policyToEvaluate pv labels cfg.defaults).1
        (!(policyToEvaluate pv labels cfg.defaults).2.isEmpty) p false)

theorem validateController_outcome (pv : Str → Ver × Bool) (cfg : Config) (w : World Ev) (r : Request) :
    CtlOutcome pv cfg w r (validateController pv cfg w r) := by
  unfold validateController
  by_cases h0 : r.sub ≠ []
  · simp only [h0, ne_eq, not_false_eq_true, ↓reduceIte]; exact .subresource h0
  have h0' : r.sub = [] := by simpa using h0
  by_cases h1 : exempt r.ns cfg.exNamespaces = true
  · simp only [h0', h1, ne_eq, not_true_eq_false, ↓reduceIte]; exact .exemptNs h0' h1
  have h1' : exempt r.ns cfg.exNamespaces = false := by simpa using h1
  by_cases h2 : exempt r.user cfg.exUsers = true
  · simp only [h0', h1', h2, ne_eq, not_true_eq_false, Bool.false_eq_true, ↓reduceIte]; exact .exemptUser h0' h1' h2
  have h2' : exempt r.user cfg.exUsers = false := by simpa using h2
  simp only [h0', h1', h2', ne_eq, not_true_eq_false, Bool.false_eq_true, ↓reduceIte]
  cases h3 : w.getNs with
  | error e => exact .nsErr h0' h1' h2' e h3
  | ok labels =>
    simp only
    by_cases h4 : ((policyToEvaluate pv labels cfg.defaults).2.isEmpty && (policyToEvaluate pv labels cfg.defaults).1.warn.level == .privileged &&
            (policyToEvaluate pv labels cfg.defaults).1.audit.level == .privileged) = true
    · simp only [h4, ↓reduceIte]; exact .quiet h0' h1' h2' labels h3 h4
    have h4' : ((policyToEvaluate pv labels cfg.defaults).2.isEmpty && (policyToEvaluate pv labels cfg.defaults).1.warn.level == .privileged &&
            (policyToEvaluate pv labels cfg.defaults).1.audit.level == .privileged) = false := by simpa using h4
    simp only [h4', Bool.false_eq_true, ↓reduceIte]
    cases h5 : r.obj with
    | error e =>
      exact .badObject h0' h1' h2' labels h3 h4' ⟨(by intro p hp; rw [h5] at hp; cases hp), (by intro p hp; rw [h5] at hp; cases hp)⟩
    | ok o =>
      cases o with
      | pod p => exact .evaluated h0' h1' h2' labels h3 h4' p (Or.inl h5)
      | controller t =>
        cases t with
        | some p => exact .evaluated h0' h1' h2' labels h3 h4' p (Or.inr h5)
        | none => exact .noTemplate h0' h1' h2' labels h3 h4' h5
      | ns n l =>
        exact .badObject h0' h1' h2' labels h3 h4' ⟨(by intro p hp; rw [h5] at hp; cases hp), (by intro p hp; rw [h5] at hp; cases hp)⟩
      | other =>
        exact .badObject h0' h1' h2' labels h3 h4' ⟨(by intro p hp; rw [h5] at hp; cases hp), (by intro p hp; rw [h5] at hp; cases hp)⟩
      | nil =>
        exact .badObject h0' h1' h2' labels h3 h4' ⟨(by intro p hp; rw [h5] at hp; cases hp), (by intro p hp; rw [h5] at hp; cases hp)⟩

end PSA

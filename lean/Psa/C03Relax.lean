import Psa.C02
/-! C03 with the user-namespace switch in either position. C02 compares the shipped checks with the Standard with the switch
    off; the order of the levels does not need the Standard for the three checks that read the switch: `procMount` is the same
    term in both levels' lists, `runAsNonRoot` and `runAsUser` are restricted-only. Only the three override edges
    (restricted volumes ⇒ hostPath, restricted capabilities ⇒ baseline capabilities, restricted seccomp ⇒ baseline seccomp)
    need an argument, and none of the six checks involved reads the switch. -/
namespace PSA

theorem C03_order_any_switch (T : Tables) (hT : TablesOK T) (relax : Bool) (v : Ver) (p : Pod)
    (hv : v = .latest ∨ ∃ n, v = .mm 1 n) (hp : ApiValidT T p) :
    allowedAll (evalShipped T relax .restricted v p) = true → allowedAll (evalShipped T relax .baseline v p) = true := by
  rw [evalShipped_eq T relax .restricted v p hv, evalShipped_eq T relax .baseline v p hv,
    spec_restricted_table _ (clampV_le 32 v), spec_baseline_table _ (clampV_le 32 v)]
  generalize clampV 32 v = V
  -- the override edges, for the switch in either position (the checks involved do not take it)
  have e2 : (run T relax RevId.capsBaseline0 p).allowed = true ↔ Std.capabilities T p := capabilitiesBaseline_spec T p
  have e4 : (run T relax RevId.hostPath0 p).allowed = true ↔ Std.hostPath p := hostPath_spec p
  have e9 : (run T relax RevId.restrictedVolumes0 p).allowed = true ↔ Std.volumeTypes T p := restrictedVolumes_spec T p
  have e13 : (run T relax RevId.capsRestricted22 p).allowed = true ↔ Std.capabilitiesRestricted T p := capabilitiesRestricted_1_22_spec T p
  have e14 : (run T relax RevId.seccompR19 p).allowed = true ↔ Std.seccompRequired T p := seccompRestricted_1_19_spec T p
  have e16 : (run T relax RevId.seccompB19 p).allowed = true ↔ Std.seccompField T p := seccompBaseline_1_19_spec T p
  have w13 : (run T relax RevId.capsRestricted25 p).allowed = true ↔ (p.windowsOS T = true ∨ Std.capabilitiesRestricted T p) := by
    show (capabilitiesRestricted_1_25 T p).allowed = true ↔ _
    unfold capabilitiesRestricted_1_25
    by_cases hw : p.windowsOS T = true
    · simp [hw, CheckOut.ok]
    · simp only [hw, Bool.false_eq_true, ↓reduceIte, false_or]; exact capabilitiesRestricted_1_22_spec T p
  have w14 : (run T relax RevId.seccompR25 p).allowed = true ↔ (p.windowsOS T = true ∨ Std.seccompRequired T p) := by
    show (seccompRestricted_1_25 T p).allowed = true ↔ _
    unfold seccompRestricted_1_25
    by_cases hw : p.windowsOS T = true
    · simp [hw, CheckOut.ok]
    · simp only [hw, Bool.false_eq_true, ↓reduceIte, false_or]; exact seccompRestricted_1_19_spec T p
  have hHP : Std.volumeTypes T p → Std.hostPath p := volumeTypes_hostPath T p hT.hostPathNotAllowed hp.1
  have hCB : Std.capabilitiesRestricted T p → Std.capabilities T p := capsRestricted_baseline T p hT.restrictedAddSub
  have hWC : p.windowsOS T = true → Std.capabilities T p := windows_caps T p hp
  have hWS : p.windowsOS T = true → Std.seccompField T p := windows_seccomp T p hp
  have hSR : Std.seccompRequired T p → Std.seccompField T p := fun h => h.1
  simp only [activeRestricted, activeBaseline, List.map_append, allowedAll_append]
  simp only [allowedAll, List.map_cons, List.map_nil, List.all_cons, List.all_nil, Bool.and_true, Bool.and_eq_true]
  generalize (if V < 31 then RevId.seLinux0 else RevId.seLinux31) = sl
  generalize (if V < 27 then RevId.sysctls0 else if V < 29 then RevId.sysctls27 else if V < 32 then RevId.sysctls29 else RevId.sysctls32) = sy
  by_cases h8 : V < 8
  · have : V < 19 := by omega
    have : V < 22 := by omega
    have : V < 23 := by omega
    have : V < 25 := by omega
    simp only [*, ↓reduceIte, List.map_cons, List.map_nil, List.all_cons, List.all_nil, Bool.and_true]
    intro h; simp_all
  · by_cases h19 : V < 19
    · have : V < 22 := by omega
      have : V < 23 := by omega
      have : V < 25 := by omega
      simp only [*, ↓reduceIte, List.map_cons, List.map_nil, List.all_cons, List.all_nil, Bool.and_true]
      intro h; simp_all
    · by_cases h22 : V < 22
      · have : V < 23 := by omega
        have : V < 25 := by omega
        simp only [*, ↓reduceIte, List.map_cons, List.map_nil, List.all_cons, List.all_nil, Bool.and_true]
        intro h; simp_all
      · by_cases h23 : V < 23
        · have : V < 25 := by omega
          simp only [*, ↓reduceIte, List.map_cons, List.map_nil, List.all_cons, List.all_nil, Bool.and_true]
          intro h; simp_all
        · by_cases h25 : V < 25
          · simp only [*, ↓reduceIte, List.map_cons, List.map_nil, List.all_cons, List.all_nil, Bool.and_true]
            intro h; simp_all
          · simp only [*, ↓reduceIte, List.map_cons, List.map_nil, List.all_cons, List.all_nil, Bool.and_true]
            intro h; simp_all
            exact ⟨h.1.1.1.2.elim hWC hCB, h.2.elim hWS hSR⟩

#print axioms C03_order_any_switch
end PSA

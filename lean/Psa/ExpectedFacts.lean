import Psa.Checks
import Psa.Generated.Facts
import Psa.Generated.Tables
/-! Hand-written expectations for the structural facts that factx regenerates from /repo on every run.
    A fact outside these expectations breaks an obligation in Props/* (it is never silently accepted). -/
namespace PSA.Expected
open PSA

/-- F4: the API fields each revision may read — exactly the fields the model pod carries for that control (plus the
    traversal fields and `Container.Name`, used for messages and, in the seccomp-annotation revision, for the key) -/
def readSets : List ((Str × Nat) × List Str) :=
  [
    ((b!"allowPrivilegeEscalation", 8), [b!"Container.Name", b!"Container.SecurityContext", b!"EphemeralContainer.EphemeralContainerCommon", b!"PodSpec.Containers", b!"PodSpec.EphemeralContainers", b!"PodSpec.InitContainers", b!"SecurityContext.AllowPrivilegeEscalation"]),
    ((b!"allowPrivilegeEscalation", 25), [b!"Container.Name", b!"Container.SecurityContext", b!"EphemeralContainer.EphemeralContainerCommon", b!"PodOS.Name", b!"PodSpec.Containers", b!"PodSpec.EphemeralContainers", b!"PodSpec.InitContainers", b!"PodSpec.OS", b!"SecurityContext.AllowPrivilegeEscalation"]),
    ((b!"appArmorProfile", 0), [b!"AppArmorProfile.Type", b!"Container.Name", b!"Container.SecurityContext", b!"EphemeralContainer.EphemeralContainerCommon", b!"ObjectMeta.Annotations", b!"PodSecurityContext.AppArmorProfile", b!"PodSpec.Containers", b!"PodSpec.EphemeralContainers", b!"PodSpec.InitContainers", b!"PodSpec.SecurityContext", b!"SecurityContext.AppArmorProfile"]),
    ((b!"capabilities_baseline", 0), [b!"Capabilities.Add", b!"Container.Name", b!"Container.SecurityContext", b!"EphemeralContainer.EphemeralContainerCommon", b!"PodSpec.Containers", b!"PodSpec.EphemeralContainers", b!"PodSpec.InitContainers", b!"SecurityContext.Capabilities"]),
    ((b!"capabilities_restricted", 22), [b!"Capabilities.Add", b!"Capabilities.Drop", b!"Container.Name", b!"Container.SecurityContext", b!"EphemeralContainer.EphemeralContainerCommon", b!"PodSpec.Containers", b!"PodSpec.EphemeralContainers", b!"PodSpec.InitContainers", b!"SecurityContext.Capabilities"]),
    ((b!"capabilities_restricted", 25), [b!"Capabilities.Add", b!"Capabilities.Drop", b!"Container.Name", b!"Container.SecurityContext", b!"EphemeralContainer.EphemeralContainerCommon", b!"PodOS.Name", b!"PodSpec.Containers", b!"PodSpec.EphemeralContainers", b!"PodSpec.InitContainers", b!"PodSpec.OS", b!"SecurityContext.Capabilities"]),
    ((b!"hostNamespaces", 0), [b!"PodSpec.HostIPC", b!"PodSpec.HostNetwork", b!"PodSpec.HostPID"]),
    ((b!"hostPathVolumes", 0), [b!"PodSpec.Volumes", b!"Volume.Name", b!"Volume.VolumeSource", b!"VolumeSource.HostPath"]),
    ((b!"hostPorts", 0), [b!"Container.Name", b!"Container.Ports", b!"ContainerPort.HostPort", b!"EphemeralContainer.EphemeralContainerCommon", b!"PodSpec.Containers", b!"PodSpec.EphemeralContainers", b!"PodSpec.InitContainers"]),
    ((b!"privileged", 0), [b!"Container.Name", b!"Container.SecurityContext", b!"EphemeralContainer.EphemeralContainerCommon", b!"PodSpec.Containers", b!"PodSpec.EphemeralContainers", b!"PodSpec.InitContainers", b!"SecurityContext.Privileged"]),
    ((b!"procMount", 0), [b!"Container.Name", b!"Container.SecurityContext", b!"EphemeralContainer.EphemeralContainerCommon", b!"PodSpec.Containers", b!"PodSpec.EphemeralContainers", b!"PodSpec.HostUsers", b!"PodSpec.InitContainers", b!"SecurityContext.ProcMount"]),
    ((b!"restrictedVolumes", 0), [b!"PodSpec.Volumes", b!"Volume.Name", b!"Volume.VolumeSource", b!"VolumeSource.AWSElasticBlockStore", b!"VolumeSource.AzureDisk", b!"VolumeSource.AzureFile", b!"VolumeSource.CSI", b!"VolumeSource.CephFS", b!"VolumeSource.Cinder", b!"VolumeSource.ConfigMap", b!"VolumeSource.DownwardAPI", b!"VolumeSource.EmptyDir", b!"VolumeSource.Ephemeral", b!"VolumeSource.FC", b!"VolumeSource.FlexVolume", b!"VolumeSource.Flocker", b!"VolumeSource.GCEPersistentDisk", b!"VolumeSource.GitRepo", b!"VolumeSource.Glusterfs", b!"VolumeSource.HostPath", b!"VolumeSource.ISCSI", b!"VolumeSource.NFS", b!"VolumeSource.PersistentVolumeClaim", b!"VolumeSource.PhotonPersistentDisk", b!"VolumeSource.PortworxVolume", b!"VolumeSource.Projected", b!"VolumeSource.Quobyte", b!"VolumeSource.RBD", b!"VolumeSource.ScaleIO", b!"VolumeSource.Secret", b!"VolumeSource.StorageOS", b!"VolumeSource.VsphereVolume"]),
    ((b!"runAsNonRoot", 0), [b!"Container.Name", b!"Container.SecurityContext", b!"EphemeralContainer.EphemeralContainerCommon", b!"PodSecurityContext.RunAsNonRoot", b!"PodSpec.Containers", b!"PodSpec.EphemeralContainers", b!"PodSpec.HostUsers", b!"PodSpec.InitContainers", b!"PodSpec.SecurityContext", b!"SecurityContext.RunAsNonRoot"]),
    ((b!"runAsUser", 23), [b!"Container.Name", b!"Container.SecurityContext", b!"EphemeralContainer.EphemeralContainerCommon", b!"PodSecurityContext.RunAsUser", b!"PodSpec.Containers", b!"PodSpec.EphemeralContainers", b!"PodSpec.HostUsers", b!"PodSpec.InitContainers", b!"PodSpec.SecurityContext", b!"SecurityContext.RunAsUser"]),
    ((b!"seLinuxOptions", 0), [b!"Container.Name", b!"Container.SecurityContext", b!"EphemeralContainer.EphemeralContainerCommon", b!"PodSecurityContext.SELinuxOptions", b!"PodSpec.Containers", b!"PodSpec.EphemeralContainers", b!"PodSpec.InitContainers", b!"PodSpec.SecurityContext", b!"SELinuxOptions.Role", b!"SELinuxOptions.Type", b!"SELinuxOptions.User", b!"SecurityContext.SELinuxOptions"]),
    ((b!"seLinuxOptions", 31), [b!"Container.Name", b!"Container.SecurityContext", b!"EphemeralContainer.EphemeralContainerCommon", b!"PodSecurityContext.SELinuxOptions", b!"PodSpec.Containers", b!"PodSpec.EphemeralContainers", b!"PodSpec.InitContainers", b!"PodSpec.SecurityContext", b!"SELinuxOptions.Role", b!"SELinuxOptions.Type", b!"SELinuxOptions.User", b!"SecurityContext.SELinuxOptions"]),
    ((b!"seccompProfile_baseline", 0), [b!"Container.Name", b!"EphemeralContainer.EphemeralContainerCommon", b!"ObjectMeta.Annotations", b!"PodSpec.Containers", b!"PodSpec.EphemeralContainers", b!"PodSpec.InitContainers"]),
    ((b!"seccompProfile_baseline", 19), [b!"Container.Name", b!"Container.SecurityContext", b!"EphemeralContainer.EphemeralContainerCommon", b!"PodSecurityContext.SeccompProfile", b!"PodSpec.Containers", b!"PodSpec.EphemeralContainers", b!"PodSpec.InitContainers", b!"PodSpec.SecurityContext", b!"SeccompProfile.Type", b!"SecurityContext.SeccompProfile"]),
    ((b!"seccompProfile_restricted", 19), [b!"Container.Name", b!"Container.SecurityContext", b!"EphemeralContainer.EphemeralContainerCommon", b!"PodSecurityContext.SeccompProfile", b!"PodSpec.Containers", b!"PodSpec.EphemeralContainers", b!"PodSpec.InitContainers", b!"PodSpec.SecurityContext", b!"SeccompProfile.Type", b!"SecurityContext.SeccompProfile"]),
    ((b!"seccompProfile_restricted", 25), [b!"Container.Name", b!"Container.SecurityContext", b!"EphemeralContainer.EphemeralContainerCommon", b!"PodOS.Name", b!"PodSecurityContext.SeccompProfile", b!"PodSpec.Containers", b!"PodSpec.EphemeralContainers", b!"PodSpec.InitContainers", b!"PodSpec.OS", b!"PodSpec.SecurityContext", b!"SeccompProfile.Type", b!"SecurityContext.SeccompProfile"]),
    ((b!"sysctls", 0), [b!"PodSecurityContext.Sysctls", b!"PodSpec.SecurityContext", b!"Sysctl.Name"]),
    ((b!"sysctls", 27), [b!"PodSecurityContext.Sysctls", b!"PodSpec.SecurityContext", b!"Sysctl.Name"]),
    ((b!"sysctls", 29), [b!"PodSecurityContext.Sysctls", b!"PodSpec.SecurityContext", b!"Sysctl.Name"]),
    ((b!"sysctls", 32), [b!"PodSecurityContext.Sysctls", b!"PodSpec.SecurityContext", b!"Sysctl.Name"]),
    ((b!"windowsHostProcess", 0), [b!"Container.Name", b!"Container.SecurityContext", b!"EphemeralContainer.EphemeralContainerCommon", b!"PodSecurityContext.WindowsOptions", b!"PodSpec.Containers", b!"PodSpec.EphemeralContainers", b!"PodSpec.InitContainers", b!"PodSpec.SecurityContext", b!"SecurityContext.WindowsOptions", b!"WindowsSecurityContextOptions.HostProcess"])
  ]

def subsetOf (a b : List Str) : Bool := a.all (b.contains ·)

/-- every generated read-set is within the expected one for the same (check id, minimum version) -/
def readsWithin (gen exp : List ((Str × Nat) × List Str)) : Bool :=
  gen.all (fun g => match exp.find? (fun e => e.1 = g.1) with
    | some e => subsetOf g.2 e.2
    | none => false)

/-- which revisions read PodSpec.HostUsers (C19): exactly the three waived controls -/
def readsHostUsers (gen : List ((Str × Nat) × List Str)) : List Str :=
  (gen.filter (fun g => g.2.contains b!"PodSpec.HostUsers")).map (·.1.1)

/-- F6: acceptable origins of a pointer through which an AdmissionResponse field is stored: a fresh allocation or the
    result of one of the constructors (possibly merged by a phi) -/
def freshOrigins : List Str :=
  [b!"fresh:alloc", b!"call:allowedResponse", b!"call:forbiddenResponse", b!"call:invalidResponse", b!"call:errorResponse",
   b!"phi{call:allowedResponse,call:forbiddenResponse}", b!"phi{call:allowedResponse,phi{call:allowedResponse,call:forbiddenResponse}}"]

/-- stores to the shared responses are allowed only in the package initialiser -/
def responseStoreOK (s : Str × Str × Str × Str) : Bool :=
  freshOrigins.contains s.2.2.2 || (b!"init".isPrefixOf s.2.1 && b!"shared:".isPrefixOf s.2.2.2)

/-- F8: the only stores to package-level variables outside `init` functions: check registration, called from init -/
def globalStores : List (Str × Str × Str) :=
  [(b!"policy", b!"addCheck", b!"defaultChecks"), (b!"policy", b!"addCheck", b!"experimentalChecks")]

/-- F9: the only writes, outside init, to state that outlives a request: `CompleteConfiguration` filling in defaults of the
    controller before it serves, and the administrator's setter of the user-namespace switch (an atomic.Bool) -/
def stateWrites : List (Str × Str × Str) :=
  [(b!"admission", b!"admission.Admission).CompleteConfiguration", b!"store through receiver"),
   (b!"policy", b!"policy.RelaxPolicyForUserNamespacePods", b!"call atomic.Bool).Store on shared:relaxPolicyForUserNamespacePods")]

def podSpecResources : List Str :=
  [b!"corev1/pods", b!"corev1/replicationcontrollers", b!"corev1/podtemplates", b!"appsv1/replicasets", b!"appsv1/deployments",
   b!"appsv1/statefulsets", b!"appsv1/daemonsets", b!"batchv1/jobs", b!"batchv1/cronjobs"]

end PSA.Expected

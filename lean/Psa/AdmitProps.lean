import Psa.Admit
namespace PSA
variable (pv : Str → Ver × Bool) (cfg : Config) (w : World Ev) (r : Request)

/-- what "the request was evaluated against the enforce policy and passed" means -/
def enforcedOK (ev : Ev) (pol : Policy) (p : PodObj) : Prop := (aggregate (ev pol.enforce p)).allowed = true

theorem evaluateObj_allowed (ev : Ev) (pol : Policy) (e : Bool) (p : PodObj)
    (hrc : exemptRC p.runtimeClass cfg.exRuntimeClasses = false) :
    (evaluateObj ev cfg pol e p true).1.allowed = (aggregate (ev pol.enforce p)).allowed := by
  simp [evaluateObj, evaluatePod, hrc]

theorem evaluateObj_controller_allowed (ev : Ev) (pol : Policy) (e : Bool) (p : PodObj) :
    (evaluateObj ev cfg pol e p false).1.allowed = true := by
  simp only [evaluateObj, evaluatePod]
  split <;> simp

/-- with enforce = true the evaluator is called with the enforce policy -/
theorem evaluateObj_calls_enforce (ev : Ev) (pol : Policy) (e : Bool) (p : PodObj)
    (hrc : exemptRC p.runtimeClass cfg.exRuntimeClasses = false) :
    pol.enforce ∈ (evaluateObj ev cfg pol e p true).2.evalCalls.map (·.1) := by
  simp only [evaluateObj, evaluatePod, hrc, Bool.false_eq_true, ↓reduceIte, List.map_map]
  by_cases h1 : pol.enforce = pol.audit <;> by_cases h0 : (aggregate (ev pol.enforce p)).allowed <;>
    by_cases h2 : pol.enforce = pol.warn <;> by_cases h3 : pol.audit = pol.warn <;> simp_all [cacheGet] <;>
    (split <;> simp)

theorem evaluateObj_rc_bypass' (ev : Ev) (pol : Policy) (e : Bool) (p : PodObj) (enf : Bool)
    (h : exemptRC p.runtimeClass cfg.exRuntimeClasses = true) :
    evaluateObj ev cfg pol e p enf = ({ allowed := true, annExempt := some b!"runtimeClass" }, { metrics := [.exemption] }) := by
  simp [evaluateObj, evaluatePod, h]

/-- the metric events of one EvaluatePod call, in terms of what the response shows -/
theorem evaluateObj_metrics (ev : Ev) (pol : Policy) (e : Bool) (p : PodObj) (enf : Bool)
    (hrc : exemptRC p.runtimeClass cfg.exRuntimeClasses = false) :
    (evaluateObj ev cfg pol e p enf).2.metrics =
      (if e then [Metric.error false] else []) ++
      (if enf then [Metric.eval (evaluateObj ev cfg pol e p enf).1.allowed pol.enforce 0] else []) ++
      (if (evaluateObj ev cfg pol e p enf).1.annAudit.isSome then [Metric.eval false pol.audit 1] else []) ++
      (if (evaluateObj ev cfg pol e p enf).1.warnings.isEmpty then [] else [Metric.eval false pol.warn 2]) := by
  simp only [evaluateObj, evaluatePod, hrc, Bool.false_eq_true, ↓reduceIte]
  cases enf <;>
  by_cases h1 : pol.enforce = pol.audit <;> by_cases h0 : (aggregate (ev pol.enforce p)).allowed <;>
    by_cases h2 : pol.enforce = pol.warn <;> by_cases h3 : pol.audit = pol.warn <;>
    by_cases h4 : (aggregate (ev pol.audit p)).allowed <;> by_cases h5 : (aggregate (ev pol.warn p)).allowed <;>
    simp_all [cacheGet]

/-- C09: a pod-controller request is never denied -/
theorem C09_allowed : (validateController pv cfg w r).1.allowed = true := by
  unfold validateController
  repeat' split
  all_goals first | rfl | exact evaluateObj_controller_allowed cfg _ _ _ _

/-- C07 (pods): whatever fails, a pod request is only ever allowed for one of these reasons -/
theorem C07_pod_closed (h : (validatePod pv cfg w r).1.allowed = true) :
    ignoredSubresources.contains r.sub = true ∨ exempt r.ns cfg.exNamespaces = true ∨ exempt r.user cfg.exUsers = true ∨
    ∃ labels, w.getNs = .ok labels ∧
      let pe := policyToEvaluate pv labels cfg.defaults
      ((pe.2.isEmpty = true ∧ pe.1.fullyPrivileged = true) ∨
       ∃ p, r.obj = .ok (.pod p) ∧
         ((r.op = .update ∧ ∃ q, r.old = .ok (.pod q) ∧ isSignificant p.pod q.pod = false) ∨
          exemptRC p.runtimeClass cfg.exRuntimeClasses = true ∨
          enforcedOK w.ev pe.1 p)) := by
  unfold validatePod at h
  by_cases h1 : ignoredSubresources.contains r.sub = true
  · exact Or.inl h1
  · by_cases h2 : exempt r.ns cfg.exNamespaces = true
    · exact Or.inr (Or.inl h2)
    · by_cases h3 : exempt r.user cfg.exUsers = true
      · exact Or.inr (Or.inr (Or.inl h3))
      · refine Or.inr (Or.inr (Or.inr ?_))
        simp only [h1, h2, h3, Bool.false_eq_true, ↓reduceIte] at h
        cases hns : w.getNs with
        | error e => simp [hns, errResp] at h
        | ok labels =>
          refine ⟨labels, rfl, ?_⟩
          simp only [hns] at h
          generalize hpe : policyToEvaluate pv labels cfg.defaults = pe at h ⊢
          obtain ⟨pol, errs⟩ := pe
          simp only at h ⊢
          by_cases hfp : (errs.isEmpty && pol.fullyPrivileged) = true
          · left; simpa using hfp
          · right
            simp only [hfp, Bool.false_eq_true, ↓reduceIte] at h
            cases hobj : r.obj with
            | error e => simp [hobj, errResp] at h
            | ok o =>
              cases o with
              | pod p =>
                refine ⟨p, rfl, ?_⟩
                simp only [hobj] at h
                by_cases hrc : exemptRC p.runtimeClass cfg.exRuntimeClasses = true
                · exact Or.inr (Or.inl hrc)
                · have hrc' : exemptRC p.runtimeClass cfg.exRuntimeClasses = false := by simpa using hrc
                  by_cases hop : r.op = .update
                  · simp only [hop, ↓reduceIte] at h
                    cases hold : r.old with
                    | error e => simp [hold, errResp] at h
                    | ok oo =>
                      cases oo with
                      | pod q =>
                        simp only [hold] at h
                        by_cases hsig : isSignificant p.pod q.pod = true
                        · simp only [hsig, ↓reduceIte] at h
                          rw [evaluateObj_allowed cfg w.ev pol _ p hrc'] at h
                          exact Or.inr (Or.inr h)
                        · exact Or.inl ⟨hop, q, rfl, by simpa using hsig⟩
                      | _ => simp [hold, errResp] at h
                  · simp only [hop, ↓reduceIte] at h
                    rw [evaluateObj_allowed cfg w.ev pol _ p hrc'] at h
                    exact Or.inr (Or.inr h)
              | _ => simp [hobj, errResp] at h

/-- C10: an update that leaves containers and images alone is allowed whatever the policy, without evaluation -/
theorem C10_insignificant (p q : PodObj) (hobj : r.obj = .ok (.pod p)) (hold : r.old = .ok (.pod q))
    (hop : r.op = .update) (hsig : isSignificant p.pod q.pod = false)
    (labels : Labels) (hns : w.getNs = .ok labels) :
    (validatePod pv cfg w r).1.allowed = true ∧ (validatePod pv cfg w r).2.evalCalls = [] := by
  unfold validatePod
  repeat' split
  all_goals simp_all [allowPlain, errResp]

#print axioms C07_pod_closed
#print axioms C09_allowed
#print axioms C10_insignificant
end PSA

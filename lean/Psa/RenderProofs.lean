import Psa.Render
import Psa.ShippedProofs
import Psa.Eval
/-! Facts about the rendered messages (used by Props/C13). -/
namespace PSA

/-- one key per control family: the three seccomp revisions share theirs -/
def Kind.reasonKey : Kind → Str
  | .appArmor => b!"forbidden AppArmor profile"
  | k => k.reason CheckOut.ok

theorem reason_key (k k' : Kind) (o o' : CheckOut) (h : k.reason o = k'.reason o') : k.reasonKey = k'.reasonKey := by
  cases k <;> cases k' <;>
    simp only [Kind.reason, Kind.reasonKey, pluralize] at h ⊢ <;> (try rfl) <;> (try (split at h <;> simp at h)) <;>
    (try (simp at h))

theorem reason_specific (k : Kind) (o : CheckOut) : k.reason o ≠ [] ∧ k.reason o ≠ unknownReason := by
  cases k <;> simp only [Kind.reason, pluralize] <;> (try split) <;> decide

theorem runRev_reason (T : Tables) (relax : Bool) (r : RevId) (p : Pod) (h : (runRev T relax r p).allowed = false) :
    (runRev T relax r p).reason = r.kind.reason (run T relax r p) := by
  simp only [runRev, render] at h ⊢
  split
  · next ha => simp [ha] at h
  · rfl

/-- co-active revisions never share a reason key (the seccomp baseline / restricted revisions are never active together) -/
theorem shipped_keys_nodup_table : ∀ V, V ≤ 32 →
    ((spec shipped .baseline V).map (fun r => r.kind.reasonKey)).Nodup ∧
    ((spec shipped .restricted V).map (fun r => r.kind.reasonKey)).Nodup := by
  decide

theorem shipped_keys_nodup (V : Nat) (hV : V ≤ 32) (l : Level) : ((spec shipped l V).map (fun r => r.kind.reasonKey)).Nodup := by
  cases l with
  | privileged => simp [spec]
  | baseline => exact (shipped_keys_nodup_table V hV).1
  | restricted => exact (shipped_keys_nodup_table V hV).2

end PSA

import Psa.Namespace
/-! Lemmas about prioritizePods and the dry run. -/
namespace PSA

/-- invariant of the prioritisation fold: kept ++ siblings is a permutation of the non-exempt pods seen so far -/
theorem prioStep_perm (exRC : List Str) (st : List PodObj × List PodObj × List Str) (p : PodObj) (seen : List PodObj)
    (h : (st.1 ++ st.2.1).Perm (seen.filter (fun p => !exemptRC p.runtimeClass exRC))) :
    ((prioStep exRC st p).1 ++ (prioStep exRC st p).2.1).Perm ((seen ++ [p]).filter (fun p => !exemptRC p.runtimeClass exRC)) := by
  unfold prioStep
  rw [List.filter_append]
  by_cases hex : exemptRC p.runtimeClass exRC = true
  · simp only [hex, ↓reduceIte, List.filter_cons, Bool.not_true, Bool.false_eq_true, List.filter_nil, List.append_nil]
    exact h
  · have hex' : exemptRC p.runtimeClass exRC = false := by simpa using hex
    simp only [hex', Bool.false_eq_true, ↓reduceIte, List.filter_cons, Bool.not_false, List.filter_nil]
    cases p.owner with
    | none =>
      simp only
      have : (st.1 ++ [p] ++ st.2.1).Perm (st.1 ++ st.2.1 ++ [p]) := by
        rw [List.append_assoc, List.append_assoc]
        exact List.Perm.append_left _ List.perm_append_comm
      exact this.trans (List.Perm.append_right _ h)
    | some uid =>
      simp only
      split
      · simp only
        rw [← List.append_assoc]
        exact List.Perm.append_right _ h
      · simp only
        have : (st.1 ++ [p] ++ st.2.1).Perm (st.1 ++ st.2.1 ++ [p]) := by
          rw [List.append_assoc, List.append_assoc]
          exact List.Perm.append_left _ List.perm_append_comm
        exact this.trans (List.Perm.append_right _ h)

theorem prioritize_fold_perm (exRC : List Str) (pods seen : List PodObj) (st : List PodObj × List PodObj × List Str)
    (h : (st.1 ++ st.2.1).Perm (seen.filter (fun p => !exemptRC p.runtimeClass exRC))) :
    ((pods.foldl (prioStep exRC) st).1 ++ (pods.foldl (prioStep exRC) st).2.1).Perm
      ((seen ++ pods).filter (fun p => !exemptRC p.runtimeClass exRC)) := by
  induction pods generalizing st seen with
  | nil => simpa using h
  | cons p ps ih =>
    simp only [List.foldl_cons]
    have := ih (seen ++ [p]) (prioStep exRC st p) (prioStep_perm exRC st p seen h)
    simpa [List.append_assoc] using this

theorem prioritize_perm (exRC : List Str) (pods : List PodObj) :
    (prioritize exRC pods).Perm (pods.filter (fun p => !exemptRC p.runtimeClass exRC)) := by
  have := prioritize_fold_perm exRC pods [] ([], [], []) (by simp)
  simpa [prioritize] using this

theorem prioritize_length_le (exRC : List Str) (pods : List PodObj) : (prioritize exRC pods).length ≤ pods.length := by
  rw [(prioritize_perm exRC pods).length_eq]
  exact List.length_filter_le _ _

end PSA

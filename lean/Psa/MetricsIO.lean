import Psa.JsonIO
import Psa.Metrics
import Psa.MetricsCache
namespace PSA.IO
open Lean PSA

def reqLabels (j : Json) : ReqLabels := { op := strD j "rop", group := strD j "group", resource := strD j "resource", sub := strD j "sub" }

/-- events: eval / exempt / error / reset, in one total order; output: the three counter vectors after the last event -/
def metricCountsOp (j : Json) : R Json := do
  let server ← ver (← fld j "server")
  let evs ← (← fld j "events").getArr?
  let mut ce : Counters := []
  let mut cx : Counters := []
  let mut cr : Counters := []
  for e in evs do
    match (fldD e "kind").getStr? with
    | .ok "eval" =>
      let lv : LevelVersion := ⟨← level (← fld e "level"), ← ver (← fld e "version")⟩
      ce := ce.inc (evalSeries server (strD e "decision") lv (strD e "mode") (reqLabels e))
    | .ok "exempt" => cx := cx.inc (exemptSeries (reqLabels e))
    | .ok "error" => cr := cr.inc (errorSeries (boolD e "fatal") (reqLabels e))
    | .ok "reset" => ce := ce.reset; cx := cx.reset; cr := cr.reset
    | _ => throw "bad event"
  -- the two cached vectors are answered by the handle-cache machine (Psa/MetricsCache.lean) run over the same history; the
  -- plain counter maps only supply the list of tuples to report (the two agree: C18_cache_refines)
  let evalToCache : List (List Str) :=
    [[b!"allow", b!"privileged", b!"latest", b!"enforce", b!"create", b!"pod", b!""],
     [b!"allow", b!"privileged", b!"latest", b!"enforce", b!"update", b!"pod", b!""]]
  let exemptToCache : List (List Str) :=
    [[b!"create", b!"pod", b!""], [b!"update", b!"pod", b!""], [b!"create", b!"controller", b!""], [b!"update", b!"controller", b!""]]
  let mut ve := MetricsCache.init evalToCache
  let mut vx := MetricsCache.init exemptToCache
  for e in evs do
    match (fldD e "kind").getStr? with
    | .ok "eval" =>
      let lv : LevelVersion := ⟨← level (← fld e "level"), ← ver (← fld e "version")⟩
      ve := MetricsCache.inc ve (evalSeries server (strD e "decision") lv (strD e "mode") (reqLabels e))
    | .ok "exempt" => vx := MetricsCache.inc vx (exemptSeries (reqLabels e))
    | .ok "reset" => ve := MetricsCache.reset evalToCache ve; vx := MetricsCache.reset exemptToCache vx
    | _ => pure ()
  let enc (c : Counters) : Json := Json.arr (c.map (fun kv => Json.arr #[jstrs kv.1, Json.num (kv.2 : JsonNumber)])).toArray
  let encV (c : Counters) (v : MetricsCache.Vec) : Json :=
    Json.arr (c.map (fun kv => Json.arr #[jstrs kv.1, Json.num (MetricsCache.count v kv.1 : JsonNumber)])).toArray
  return Json.mkObj [("evaluations", encV ce ve), ("exemptions", encV cx vx), ("errors", enc cr)]

end PSA.IO

import Psa.JsonIO
import Psa.Metrics
namespace PSA.IO
open Lean PSA

def reqLabels (j : Json) : ReqLabels := { op := strD j "rop", group := strD j "group", resource := strD j "resource", sub := strD j "sub" }

/-- events: eval / exempt / error / reset, in one total order; output: the three counter vectors after the last event -/
def metricCountsOp (j : Json) : R Json := do
  let server ← ver (← fld j "server")
  let evs ← (← fld j "events").getArr?
  let mut ce : Counters := []
  let mut cx : Counters := []
  let mut cr : Counters := []
  for e in evs do
    match (fldD e "kind").getStr? with
    | .ok "eval" =>
      let lv : LevelVersion := ⟨← level (← fld e "level"), ← ver (← fld e "version")⟩
      ce := ce.inc (evalSeries server (strD e "decision") lv (strD e "mode") (reqLabels e))
    | .ok "exempt" => cx := cx.inc (exemptSeries (reqLabels e))
    | .ok "error" => cr := cr.inc (errorSeries (boolD e "fatal") (reqLabels e))
    | .ok "reset" => ce := ce.reset; cx := cx.reset; cr := cr.reset
    | _ => throw "bad event"
  let enc (c : Counters) : Json := Json.arr (c.map (fun kv => Json.arr #[jstrs kv.1, Json.num (kv.2 : JsonNumber)])).toArray
  return Json.mkObj [("evaluations", enc ce), ("exemptions", enc cx), ("errors", enc cr)]

end PSA.IO

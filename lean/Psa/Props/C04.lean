import Psa.RegistryProofs
import Psa.Shipped
import Psa.ValidateProofs
/-! # C04 — a pinned policy version runs exactly the check revisions of that version
`populate` / `inflate` / `evaluate` are the loop-level model of policy/registry.go; `spec` (Psa/RegistrySpec.lean) is the
resolution rule stated outright: per check introduced at or before V the last revision with minimum ≤ V; baseline ids
(sorted) then restricted ids (sorted); baseline ids overridden by a selected restricted revision dropped. -/
namespace PSA.Props
open PSA

/-- For every well-formed check set, level and requested version: the registry returns what the rule says,
    at the version clamped to the newest registered revision. Generic in the payload type. -/
theorem C04_resolves {α : Type} (cs : List (Check α)) (hwf : WellFormed cs) (l : Level) (v : Ver)
    (hv : v = .latest ∨ ∃ n, v = .mm 1 n) :
    (populate cs).evaluate l v = spec cs l (clampV (maxVersionOf cs).minor v) := PSA.C04_resolves cs hwf l v hv

/-- privileged runs nothing -/
theorem C04_privileged {α : Type} (cs : List (Check α)) (v : Ver) : (populate cs).evaluate .privileged v = [] := rfl

/-- `latest` and every version at or beyond the newest registered revision behave as that newest version -/
theorem C04_latest_is_newest {α : Type} (cs : List (Check α)) (hwf : WellFormed cs) (l : Level) (n : Nat)
    (hn : (maxVersionOf cs).minor ≤ n) :
    (populate cs).evaluate l (.mm 1 n) = (populate cs).evaluate l .latest := by
  rw [C04_resolves cs hwf l _ (Or.inr ⟨n, rfl⟩), C04_resolves cs hwf l _ (Or.inl rfl)]
  simp only [clampV]
  congr 1
  omega

/-- a version with a later major number (`api.MajorMinorVersion(2, n)`, what `api.GetAPIVersion` would return for a v2 server) is
    newer than every registered revision and behaves as the newest registered version … -/
theorem C04_later_major {α : Type} (cs : List (Check α)) (hwf : WellFormed cs) (l : Level) (a n : Nat) (ha : 1 < a) :
    (populate cs).evaluate l (.mm a n) = (populate cs).evaluate l .latest := PSA.C04_later_major cs hwf l a n ha

/-- … and one with major 0 is older than every registered revision: no check was introduced yet, nothing runs -/
theorem C04_earlier_major {α : Type} (cs : List (Check α)) (hwf : WellFormed cs) (l : Level) (n : Nat) :
    (populate cs).evaluate l (.mm 0 n) = [] := PSA.C04_earlier_major cs hwf l n

/-- the shipped check set is accepted by the (model of the) validator -/
theorem C04_shipped_accepted : validateChecks shipped = true := by decide

/-- **refusal**: on the domain where every registered revision version is `latest`, the zero value or `v1.N` (all that
    `api.LatestVersion`, `api.Version{}` and `api.MajorMinorVersion(1, _)` can produce), the validator accepts a check set
    if and only if it is well formed: distinct ids, level baseline or restricted, at least one revision, every revision
    version a proper `v1.N` (not unset, not latest), strictly increasing, overrides only on restricted checks and only
    of baseline checks (or of ids that are not registered). -/
theorem C04_refuses {α : Type} (cs : List (Check α)) (hd : OneMajorDomain cs) : validateChecks cs = true ↔ WellFormed cs :=
  validateChecks_iff cs hd

/-- so that whatever the validator accepts resolves by the rule -/
theorem C04_accepted_resolves {α : Type} (cs : List (Check α)) (hd : OneMajorDomain cs) (hok : validateChecks cs = true)
    (l : Level) (v : Ver) (hv : v = .latest ∨ ∃ n, v = .mm 1 n) :
    (populate cs).evaluate l v = spec cs l (clampV (maxVersionOf cs).minor v) :=
  PSA.C04_resolves cs ((validateChecks_iff cs hd).mp hok) l v hv

/-- non-vacuity: the demo set is in the domain and accepted; each kind of malformed set of the property text is refused -/
example : validateChecks demo = true := by decide
example : validateChecks (demo ++ demo.take 1) = false := by decide                                             -- duplicate id
example : validateChecks [({ id := b!"x", level := .baseline, revs := [] } : Check String)] = false := by decide  -- no revision
example : validateChecks [({ id := b!"x", level := .baseline, revs := [⟨.unset, "f", []⟩] } : Check String)] = false := by decide
example : validateChecks [({ id := b!"x", level := .baseline, revs := [⟨.latest, "f", []⟩] } : Check String)] = false := by decide
example : validateChecks [({ id := b!"x", level := .baseline, revs := [⟨.mm 1 3, "f", []⟩, ⟨.mm 1 3, "g", []⟩] } : Check String)] = false := by decide
example : validateChecks [({ id := b!"x", level := .baseline, revs := [⟨.mm 1 3, "f", []⟩, ⟨.mm 1 2, "g", []⟩] } : Check String)] = false := by decide
example : validateChecks [({ id := b!"x", level := .privileged, revs := [⟨.mm 1 0, "f", []⟩] } : Check String)] = false := by decide
example : validateChecks [({ id := b!"x", level := .other, revs := [⟨.mm 1 0, "f", []⟩] } : Check String)] = false := by decide
example : validateChecks [({ id := b!"x", level := .baseline, revs := [⟨.mm 1 0, "f", [b!"y"]⟩] } : Check String)] = false := by decide  -- override by baseline
example : validateChecks [({ id := b!"x", level := .restricted, revs := [⟨.mm 1 0, "f", [b!"y"]⟩] } : Check String),
                          { id := b!"y", level := .restricted, revs := [⟨.mm 1 0, "g", []⟩] }] = false := by decide  -- override of restricted

/-- non-vacuity: a well-formed set with an override, and what it resolves to -/
example : (populate demo).evaluate .restricted (.mm 1 19) = spec demo .restricted 19 := by decide


/-- **`Older` is a strict order with `latest` on top** (the comparison every clamp and every revision look-up rests on):
    `latest` is older than nothing, every other version is older than `latest`; nothing is older than itself; the relation is
    transitive; and any two different non-latest versions are comparable. -/
theorem C04_older_order :
    (∀ v, Ver.older .latest v = false) ∧ (∀ a b, Ver.older (.mm a b) .latest = true) ∧ (∀ v, Ver.older v v = false) ∧
    (∀ u v w, Ver.older u v = true → Ver.older v w = true → Ver.older u w = true) ∧
    (∀ u v, u ≠ v → Ver.older u v = true ∨ Ver.older v u = true) := by
  refine ⟨fun v => rfl, fun a b => rfl, ?_, ?_, ?_⟩
  · intro v; cases v <;> simp [Ver.older]
  · intro u v w huv hvw
    cases u <;> cases v <;> cases w <;> simp_all [Ver.older]
    rename_i a b c d e f
    by_cases h1 : a = c <;> by_cases h2 : c = e <;> by_cases h3 : a = e <;> simp_all <;> omega
  · intro u v hne
    cases u with
    | latest =>
      cases v with
      | latest => exact absurd rfl hne
      | mm c d => right; rfl
    | mm a b =>
      cases v with
      | latest => left; rfl
      | mm c d =>
        simp only [Ver.older]
        by_cases h1 : a = c
        · subst h1
          have hbd : b ≠ d := fun h => hne (by rw [h])
          simp only [ne_eq, not_true_eq_false, ↓reduceIte, decide_eq_true_eq]
          omega
        · have h2 : ¬ c = a := fun h => h1 h.symm
          simp only [ne_eq, h1, h2, not_false_eq_true, ↓reduceIte, decide_eq_true_eq]
          omega

#print axioms C04_older_order
#print axioms C04_resolves
#print axioms C04_privileged
#print axioms C04_latest_is_newest
#print axioms C04_later_major
#print axioms C04_earlier_major
#print axioms C04_shipped_accepted
#print axioms C04_refuses
#print axioms C04_accepted_resolves
end PSA.Props

import Psa.RegistryProofs
import Psa.Shipped
/-! # C04 — a pinned policy version runs exactly the check revisions of that version
`populate` / `inflate` / `evaluate` are the loop-level model of policy/registry.go; `spec` (Psa/RegistrySpec.lean) is the
resolution rule stated outright: per check introduced at or before V the last revision with minimum ≤ V; baseline ids
(sorted) then restricted ids (sorted); baseline ids overridden by a selected restricted revision dropped. -/
namespace PSA.Props
open PSA

/-- For every well-formed check set, level and requested version: the registry returns what the rule says,
    at the version clamped to the newest registered revision. Generic in the payload type. -/
theorem C04_resolves {α : Type} (cs : List (Check α)) (hwf : WellFormed cs) (l : Level) (v : Ver)
    (hv : v = .latest ∨ ∃ n, v = .mm 1 n) :
    (populate cs).evaluate l v = spec cs l (clampV (maxVersionOf cs).minor v) := PSA.C04_resolves cs hwf l v hv

/-- privileged runs nothing -/
theorem C04_privileged {α : Type} (cs : List (Check α)) (v : Ver) : (populate cs).evaluate .privileged v = [] := rfl

/-- `latest` and every version at or beyond the newest registered revision behave as that newest version -/
theorem C04_latest_is_newest {α : Type} (cs : List (Check α)) (hwf : WellFormed cs) (l : Level) (n : Nat)
    (hn : (maxVersionOf cs).minor ≤ n) :
    (populate cs).evaluate l (.mm 1 n) = (populate cs).evaluate l .latest := by
  rw [C04_resolves cs hwf l _ (Or.inr ⟨n, rfl⟩), C04_resolves cs hwf l _ (Or.inl rfl)]
  simp only [clampV]
  congr 1
  omega

/-- the shipped check set is accepted by the (model of the) validator -/
theorem C04_shipped_accepted : validateChecks shipped = true := by decide

/-- non-vacuity: a well-formed set with an override, and what it resolves to -/
example : (populate demo).evaluate .restricted (.mm 1 19) = spec demo .restricted 19 := by decide

#print axioms C04_resolves
#print axioms C04_privileged
#print axioms C04_latest_is_newest
#print axioms C04_shipped_accepted
end PSA.Props

import Psa.Namespace
import Psa.ExpectedFacts
import Psa.StoreMachine
import Psa.Examples
/-! # C15 — admission responses are independent of other requests
In the model, `validate` is a function of (configuration, world, request): there is no controller state for a request to
leave behind. What makes that a faithful model of the Go code is *structural*, and is regenerated from the source on every
run: F6 — every store to a field of an AdmissionResponse in package `admission` goes through a freshly allocated response
(the five process-wide shared responses are written only by the package initialiser); F8 — outside `init` functions no
function of `api`, `policy`, `admission`, `metrics` stores to a package-level variable (check registration, reached only from
init, excepted; the user-namespace switch is an atomic.Bool with its own setter). The theorems below lift the functional
model to request histories and interleavings; the obligations are the tie. Data-race freedom is observed (race detector). -/
namespace PSA.Props
open PSA

/-- the controller as a state machine: its state is the shared response cells; one request = one atomic step -/
structure Ctl where
  shared : List Resp

def handle (cfg : Config) (lim : Limits) (s : Ctl) (x : World Ev × Request) : Ctl × (Resp × Eff) :=
  (s, validate parseVersion cfg lim x.1 x.2)

def runSeq (cfg : Config) (lim : Limits) (s : Ctl) : List (World Ev × Request) → Ctl × List (Resp × Eff)
  | [] => (s, [])
  | x :: xs =>
    let (s1, o) := handle cfg lim s x
    let (s2, os) := runSeq cfg lim s1 xs
    (s2, o :: os)

/-- **Sequences**: every request of every history gets the response it would get alone from a fresh controller, and the
    shared cells are never changed. -/
theorem C15_sequence (cfg : Config) (lim : Limits) (s : Ctl) (xs : List (World Ev × Request)) :
    (runSeq cfg lim s xs).2 = xs.map (fun x => (handle cfg lim ⟨[]⟩ x).2) ∧ (runSeq cfg lim s xs).1.shared = s.shared := by
  induction xs generalizing s with
  | nil => exact ⟨rfl, rfl⟩
  | cons x xs ih =>
    simp only [runSeq, List.map_cons]
    have h1 : (handle cfg lim s x).1 = s := rfl
    rw [h1]
    exact ⟨by rw [(ih s).1]; rfl, (ih s).2⟩

/-- **Interleavings**: requests in flight take their (atomic) step in any order given by a schedule of request indices;
    the response recorded for request i does not depend on the schedule. -/
def runSched (cfg : Config) (lim : Limits) (xs : List (World Ev × Request)) (sched : List Nat) : List (Nat × (Resp × Eff)) :=
  sched.filterMap (fun i => (xs[i]?).map (fun x => (i, (handle cfg lim ⟨[]⟩ x).2)))

theorem C15_interleaving (cfg : Config) (lim : Limits) (xs : List (World Ev × Request)) (sched : List Nat) :
    ∀ e ∈ runSched cfg lim xs sched, ∃ x, xs[e.1]? = some x ∧ e.2 = validate parseVersion cfg lim x.1 x.2 := by
  intro e he
  simp only [runSched, List.mem_filterMap] at he
  obtain ⟨i, _, hi⟩ := he
  cases hx : xs[i]? with
  | none => simp [hx] at hi
  | some x =>
    simp only [hx, Option.map_some, Option.some.injEq] at hi
    subst hi
    exact ⟨x, hx, rfl⟩

/-- tie obligation (F6): in package `admission`, every store to an AdmissionResponse field goes through a fresh response
    (or is the initialiser filling a shared one) -/
theorem C15_responses_fresh :
    ∀ s ∈ Generated.responseStores, s.1 = b!"admission" → Expected.responseStoreOK s = true := by decide

/-- tie obligation (F8): no function outside init stores to package-level state in api / policy / admission / metrics,
    other than check registration -/
theorem C15_no_global_state : Generated.globalStores = Expected.globalStores := by decide

/-- tie obligation (F9): no method writes through its receiver, into a package-level map or struct, or calls a
    sync / atomic mutator on such state — other than `CompleteConfiguration` (before serving); in particular the controller
    keeps no cache between requests. What the administrator's setter of the user-namespace switch does inside is C19's
    business (`C19_switch_is_plain_store`), it is not on any request path. -/
theorem C15_no_receiver_state :
    Generated.stateWrites.filter (fun w => w.2.1 ≠ b!"policy.RelaxPolicyForUserNamespacePods") =
    Expected.stateWrites.filter (fun w => w.2.1 ≠ b!"policy.RelaxPolicyForUserNamespacePods") := by decide

/-- the store instructions of the request-handling code (everything factx found outside package initialisers) -/
def requestStores : List StoreMachine.Instr :=
  (Generated.responseStores.filter (fun s => !(b!"init".isPrefixOf s.2.1))).map (fun s => ⟨s.2.1, s.2.2.1, s.2.2.2⟩)

/-- **The shared responses are never written by request handling**, whatever the requests and however they interleave: in
    the store machine whose program is the regenerated list of stores to AdmissionResponse fields (admission package and
    webhook handler), every schedule of every number of handlers leaves the shared state as it was. This is F6 turned into
    the statement the property needs; it is re-proved against the current source on every run. -/
theorem C15_shared_responses_never_written (s : StoreMachine.Shared) (sched : List (Nat × Nat)) :
    StoreMachine.run requestStores s sched = s :=
  StoreMachine.run_fresh requestStores (by decide) s sched

/-- non-vacuity: a history of three different requests (a denied pod, an exempt pod, a warned controller) through `runSeq`:
    three different answers, each the answer of the request alone -/
example : ((runSeq Ex.cfg Ex.lim ⟨[]⟩ [(Ex.world Ex.restrictedLabels, Ex.podCreate Ex.privPod), (Ex.world Ex.restrictedLabels, Ex.podCreate Ex.kataPod),
      (Ex.world Ex.restrictedLabels, Ex.ctlCreate Ex.privPod)]).2.map (fun o => (o.1.allowed, o.1.code, o.1.warnings.length))) =
    [(false, 403, 0), (true, 0, 0), (true, 0, 1)] := by decide +kernel

#print axioms C15_sequence
#print axioms C15_interleaving
#print axioms C15_responses_fresh
#print axioms C15_no_global_state
#print axioms C15_no_receiver_state
#print axioms C15_shared_responses_never_written
end PSA.Props

import Psa.DryRunProofs
import Psa.EvalProofs
import Psa.Examples
/-! # C11 — namespace label changes are validated and dry-run against existing pods -/
namespace PSA.Props
open PSA

/-- **Create**: rejected (422 Invalid, one cause per bad label) iff the labels are invalid. -/
theorem C11_create (pv) (cfg : Config) (lim : Limits) (w : World Ev) (r : Request) (name : Str) (labels : Labels)
    (h0 : r.sub = []) (hobj : r.obj = .ok (.ns name labels)) (hop : r.op = .create) :
    ((validateNamespace pv cfg lim w r).1.allowed = false ↔ (policyToEvaluate pv labels cfg.defaults).2 ≠ []) ∧
    ((validateNamespace pv cfg lim w r).1.allowed = false →
      (validateNamespace pv cfg lim w r).1.code = 422 ∧
      (validateNamespace pv cfg lim w r).1.fieldErrs = (policyToEvaluate pv labels cfg.defaults).2) := by
  simp only [validateNamespace, h0, hobj, hop, ne_eq, not_true_eq_false, ↓reduceIte]
  cases he : (policyToEvaluate pv labels cfg.defaults).2 with
  | nil =>
    simp only [List.isEmpty_nil, Bool.not_true, Bool.false_eq_true, ↓reduceIte, not_true_eq_false, iff_false,
      Bool.not_eq_false]
    split
    · simp only [exemptNsResp]; split <;> simp [allowPlain]
    · simp [allowPlain]
  | cons a l => simp [invalidResp]

/-- **Update**: rejected iff the new labels are invalid and were not invalid in exactly the same way before. -/
theorem C11_update (pv) (cfg : Config) (lim : Limits) (w : World Ev) (r : Request) (name oname : Str) (labels oldLabels : Labels)
    (h0 : r.sub = []) (hobj : r.obj = .ok (.ns name labels)) (hold : r.old = .ok (.ns oname oldLabels)) (hop : r.op = .update) :
    (validateNamespace pv cfg lim w r).1.allowed = false ↔
      ((policyToEvaluate pv labels cfg.defaults).2 ≠ [] ∧
       ((policyToEvaluate pv oldLabels cfg.defaults).2 = [] ∨
        (policyToEvaluate pv labels cfg.defaults).2 ≠ (policyToEvaluate pv oldLabels cfg.defaults).2)) := by
  simp only [validateNamespace, h0, hobj, hold, hop, ne_eq, not_true_eq_false, ↓reduceIte]
  by_cases hc : (!(policyToEvaluate pv labels cfg.defaults).2.isEmpty &&
      ((policyToEvaluate pv oldLabels cfg.defaults).2.isEmpty ||
        (policyToEvaluate pv labels cfg.defaults).2 != (policyToEvaluate pv oldLabels cfg.defaults).2)) = true
  · simp only [hc, ↓reduceIte, invalidResp, true_iff]
    simpa [List.isEmpty_iff] using hc
  · simp only [hc, Bool.false_eq_true, ↓reduceIte]
    have hc' : ¬ ((policyToEvaluate pv labels cfg.defaults).2 ≠ [] ∧
       ((policyToEvaluate pv oldLabels cfg.defaults).2 = [] ∨
        (policyToEvaluate pv labels cfg.defaults).2 ≠ (policyToEvaluate pv oldLabels cfg.defaults).2)) := by
      simpa [List.isEmpty_iff] using hc
    simp only [hc', iff_false, Bool.not_eq_false]
    split
    · rfl
    · split
      · simp only [exemptNsResp]; split <;> rfl
      · split <;> rfl

/-- **Never rejected because of the pods it contains** (nor because of listing faults, expiry or remaining time). -/
theorem C11_never_pods (pv) (cfg : Config) (lim : Limits) (w w' : World Ev) (r : Request) :
    (validateNamespace pv cfg lim w r).1.allowed = (validateNamespace pv cfg lim w' r).1.allowed ∧
    (validateNamespace pv cfg lim w r).1.code = (validateNamespace pv cfg lim w' r).1.code := by
  unfold validateNamespace
  constructor <;> (repeat' split) <;> rfl

/-- **When the dry run runs**: the pods are listed iff the labels are acceptable, the enforce policy changed, the new level
    is not privileged, it is not a relaxation at the same version, and the namespace is not exempt. -/
theorem C11_dryrun_when (pv) (cfg : Config) (lim : Limits) (w : World Ev) (r : Request) (name oname : Str) (labels oldLabels : Labels)
    (h0 : r.sub = []) (hobj : r.obj = .ok (.ns name labels)) (hold : r.old = .ok (.ns oname oldLabels)) (hop : r.op = .update)
    (hvalid : (validateNamespace pv cfg lim w r).1.allowed = true) :
    (validateNamespace pv cfg lim w r).2.listCalls = 1 ↔
      (skipDryRun (policyToEvaluate pv labels cfg.defaults).1.enforce (policyToEvaluate pv oldLabels cfg.defaults).1.enforce = false ∧
       exempt r.ns cfg.exNamespaces = false) := by
  simp only [validateNamespace, h0, hobj, hold, hop, ne_eq, not_true_eq_false, ↓reduceIte] at hvalid ⊢
  split at hvalid
  · simp [invalidResp] at hvalid
  · next hc =>
    simp only [hc, Bool.false_eq_true, ↓reduceIte]
    by_cases hs : skipDryRun (policyToEvaluate pv labels cfg.defaults).1.enforce (policyToEvaluate pv oldLabels cfg.defaults).1.enforce = true
    · simp [hs]
    · simp only [hs, Bool.false_eq_true, ↓reduceIte]
      by_cases hx : exempt r.ns cfg.exNamespaces = true
      · simp [hx]
      · simp only [hx, Bool.false_eq_true, ↓reduceIte]
        have : skipDryRun (policyToEvaluate pv labels cfg.defaults).1.enforce (policyToEvaluate pv oldLabels cfg.defaults).1.enforce = false := by
          simpa using hs
        simp only [this, true_and]
        split <;> simp_all

/-- the skip rule, spelled out as in the property -/
theorem C11_skip_rule (newE oldE : LevelVersion) :
    skipDryRun newE oldE = true ↔
      newE = oldE ∨ newE.level = .privileged ∨ (newE.version = oldE.version ∧ compareLevels newE.level oldE.level ≤ 0) := by
  simp only [skipDryRun, Bool.or_eq_true, beq_iff_eq, Bool.and_eq_true, decide_eq_true_eq, or_assoc]
  constructor <;> (rintro (h | h | ⟨h1, h2⟩) <;> simp_all <;> omega)

/-- **Skipping is sound** (with C03): whenever the rule skips the dry run, no existing API-valid pod that satisfied the
    old enforce policy can violate the new one (shipped evaluator; versions as `ParseVersion` produces them). -/
theorem C11_skip_sound (newE oldE : LevelVersion) (p : Pod)
    (hs : skipDryRun newE oldE = true) (hv : oldE.version.requestable) (hp : ApiValid p)
    (hold : (aggregate (evalPodModel Generated.tables false oldE p)).allowed = true) :
    (aggregate (evalPodModel Generated.tables false newE p)).allowed = true := by
  rcases (C11_skip_rule newE oldE).mp hs with h | h | ⟨hver, hlv⟩
  · rw [h]; exact hold
  · have : newE = ⟨.privileged, newE.version⟩ := by cases newE; simp_all
    rw [this, C03_privileged_nil]; rfl
  · cases newE with
    | mk nl nv =>
    cases oldE with
    | mk ol ov =>
    simp only at hver hlv hv
    subst hver
    cases nl <;> cases ol <;> simp only [compareLevels] at hlv <;> first
      | exact hold
      | (rw [C03_privileged_nil]; rfl)
      | omega
      | (-- baseline ≤ restricted
         rw [evalPodModel_allowed] at hold ⊢
         exact PSA.C03_order _ ⟨by decide, by decide⟩ nv p hv ((apiValid_tables _ (by decide) p).mp hp) hold)

/-- **Completeness**: the pod lines are one per distinct aggregate reason text among the evaluated violating pods, with the
    lexically first pod name and the exact count, sorted; and the first name really is a least element of the group. -/
theorem C11_complete (ev : Ev) (exRC : List Str) (maxPods : Nat) (ns : Str) (lv : LevelVersion) (pods : List PodObj)
    (e : Option Nat) :
    (dryRun ev exRC maxPods ns lv pods e).1.filterMap (fun w => match w with | .podLine t => some t | _ => none) =
      sortStrs ((groupsSpec (dryRunViolations ev lv (dryRunEvaluated exRC maxPods pods e))).map decorate) :=
  dryRun_lines ev exRC maxPods ns lv pods e

theorem C11_first_is_least (l : List Str) (hl : l ≠ []) : firstOf l ∈ l ∧ ∀ x ∈ l, firstOf l ≤ x := firstOf_spec l hl

/-- with no cap hit and no expiry every non-exempt pod is evaluated … -/
theorem C11_all_evaluated (exRC : List Str) (maxPods : Nat) (pods : List PodObj)
    (hcap : (prioritize exRC pods).length ≤ maxPods) :
    (dryRunEvaluated exRC maxPods pods none).Perm (pods.filter (fun p => !exemptRC p.runtimeClass exRC)) := by
  rw [dryRunEvaluated_all exRC maxPods pods hcap]; exact prioritize_perm exRC pods

/-- … and the warnings are **independent of the listing order**. -/
theorem C11_order_independent (ev : Ev) (exRC : List Str) (maxPods : Nat) (ns : Str) (lv : LevelVersion) (pods pods' : List PodObj)
    (h : pods.Perm pods') (hcap : (pods.filter (fun p => !exemptRC p.runtimeClass exRC)).length ≤ maxPods) :
    (dryRun ev exRC maxPods ns lv pods none).1 = (dryRun ev exRC maxPods ns lv pods' none).1 :=
  dryRun_perm ev exRC maxPods ns lv pods pods' h hcap

/-- non-vacuity: a namespace update from no labels to enforce=restricted:v1.25 over a population of a privileged and a plain pod:
    allowed, one listing, a header and two pod lines; the same update to a malformed level is a 422 -/
example : (validateNamespace parseVersion Ex.cfg Ex.lim (Ex.world [] [Ex.privPod, Ex.plainPod]) (Ex.nsUpdate Ex.restrictedLabels [])).1.allowed = true ∧
    (validateNamespace parseVersion Ex.cfg Ex.lim (Ex.world [] [Ex.privPod, Ex.plainPod]) (Ex.nsUpdate Ex.restrictedLabels [])).2.listCalls = 1 ∧
    (validateNamespace parseVersion Ex.cfg Ex.lim (Ex.world [] [Ex.privPod, Ex.plainPod]) (Ex.nsUpdate Ex.restrictedLabels [])).1.warnings.length = 3 := by
  decide +kernel
example : (validateNamespace parseVersion Ex.cfg Ex.lim (Ex.world []) (Ex.nsUpdate Ex.badLabels [])).1.code = 422 := by decide +kernel

#print axioms C11_create
#print axioms C11_update
#print axioms C11_never_pods
#print axioms C11_dryrun_when
#print axioms C11_skip_rule
#print axioms C11_skip_sound
#print axioms C11_complete
#print axioms C11_first_is_least
#print axioms C11_all_evaluated
#print axioms C11_order_independent
end PSA.Props

import Psa.AdmitProps
import Psa.Deps
/-! # C08 — audit and warn never block and are reported exactly when violated
Stated on `evaluateObj` (EvaluatePod), for every evaluator, including policies that coincide and share the cached result. -/
namespace PSA.Props
open PSA

theorem evaluateObj_resp (ev : Ev) (cfg : Config) (pol : Policy) (e : Bool) (p : PodObj) (enf : Bool) :
    (evaluateObj ev cfg pol e p enf).1.allowed = (evaluatePod (fun lv (x : PodObj) => ev lv x) cfg pol e ⟨p, p.runtimeClass⟩ enf).resp.allowed ∧
    (evaluateObj ev cfg pol e p enf).1.annAudit = (evaluatePod (fun lv (x : PodObj) => ev lv x) cfg pol e ⟨p, p.runtimeClass⟩ enf).resp.annAudit ∧
    (evaluateObj ev cfg pol e p enf).1.warnings =
      (evaluatePod (fun lv (x : PodObj) => ev lv x) cfg pol e ⟨p, p.runtimeClass⟩ enf).resp.warnings.map (fun w => Warning.policy w.1 w.2) :=
  ⟨rfl, rfl, rfl⟩

/-- **Non-blocking.** Two policies with the same enforce part give the same verdict, whatever audit and warn are. -/
theorem C08_nonblocking (ev : Ev) (cfg : Config) (pol pol' : Policy) (e e' : Bool) (p : PodObj) (enf : Bool)
    (h : pol.enforce = pol'.enforce) :
    (evaluateObj ev cfg pol e p enf).1.allowed = (evaluateObj ev cfg pol' e' p enf).1.allowed := by
  simp only [evaluateObj, evaluatePod]
  split
  · rfl
  · cases enf <;> simp [h]

/-- **Audit iff.** The audit-violations annotation is present iff the object violates the audit policy — allowed or denied,
    enforce on or off — and it carries the audit policy and that policy's own findings. -/
theorem C08_audit (ev : Ev) (cfg : Config) (pol : Policy) (e : Bool) (p : PodObj) (enf : Bool)
    (hrc : exemptRC p.runtimeClass cfg.exRuntimeClasses = false) :
    (evaluateObj ev cfg pol e p enf).1.annAudit =
      (if (aggregate (ev pol.audit p)).allowed then none else some (pol.audit, aggregate (ev pol.audit p))) :=
  PSA.C08_audit (fun lv (x : PodObj) => ev lv x) cfg pol e ⟨p, p.runtimeClass⟩ enf hrc

/-- **Warn iff.** A warning is present iff the request is allowed and the object violates the warn policy; it carries the
    warn policy and that policy's own findings; a denied request carries none. -/
theorem C08_warn (ev : Ev) (cfg : Config) (pol : Policy) (e : Bool) (p : PodObj) (enf : Bool)
    (hrc : exemptRC p.runtimeClass cfg.exRuntimeClasses = false) :
    (evaluateObj ev cfg pol e p enf).1.warnings =
      (if (evaluateObj ev cfg pol e p enf).1.allowed ∧ ¬ (aggregate (ev pol.warn p)).allowed
       then [Warning.policy pol.warn (aggregate (ev pol.warn p))] else []) := by
  have := PSA.C08_warn (fun lv (x : PodObj) => ev lv x) cfg pol e ⟨p, p.runtimeClass⟩ enf hrc
  simp only [evaluateObj]
  rw [this]
  split <;> simp_all

theorem C08_denied_no_warning (ev : Ev) (cfg : Config) (pol : Policy) (e : Bool) (p : PodObj) (enf : Bool)
    (hrc : exemptRC p.runtimeClass cfg.exRuntimeClasses = false) (hd : (evaluateObj ev cfg pol e p enf).1.allowed = false) :
    (evaluateObj ev cfg pol e p enf).1.warnings = [] := by
  rw [C08_warn ev cfg pol e p enf hrc]; simp [hd]

/-- **The result cache is transparent**: the evaluator runs once per *distinct* level:version among enforce (when
    enforcing), audit, and warn (unless the request was denied), in that order and on this pod — policies that coincide share
    one evaluation, and (C08_audit / C08_warn) what is reported is what evaluating each of them afresh would report. -/
theorem C08_cache_calls (ev : Ev) (cfg : Config) (pol : Policy) (e : Bool) (p : PodObj) (enf : Bool)
    (hrc : exemptRC p.runtimeClass cfg.exRuntimeClasses = false) :
    (evaluateObj ev cfg pol e p enf).2.evalCalls =
      (distinctInOrder ((if enf then [pol.enforce] else []) ++ [pol.audit] ++
          (if (evaluateObj ev cfg pol e p enf).1.allowed then [pol.warn] else []))).map (fun lv => (lv, p.name)) := by
  have := PSA.evaluatePod_calls (fun lv (x : PodObj) => ev lv x) cfg pol e ⟨p, p.runtimeClass⟩ enf hrc
  simp only [evaluateObj]
  rw [this]
  rfl

/-- non-vacuity: a pod that passes enforce but violates a different warn policy gets exactly one warning naming warn -/
example (ev : Ev) (cfg : Config) (p : PodObj) (e w : LevelVersion) (hne : e ≠ w)
    (hrc : exemptRC p.runtimeClass cfg.exRuntimeClasses = false)
    (he : (aggregate (ev e p)).allowed = true) (hw : (aggregate (ev w p)).allowed = false) :
    (evaluateObj ev cfg ⟨e, e, w⟩ false p true).1.warnings = [Warning.policy w (aggregate (ev w p))] := by
  rw [C08_warn ev cfg _ _ p _ hrc, evaluateObj_allowed cfg ev _ _ p hrc]
  simp [he, hw]

open PSA.Deps in
/-- **With the repository's own namespace getters the findings are those of the namespace's labels**: whenever the API server
    has the namespace with labels `L`, and the informer cache (if there is one) either holds the same object or has not seen it
    yet, the controller decides pod and controller requests in the world in which the lookup yields `L` — for every request,
    evaluator and configuration; in particular the audit annotation and the warnings are those of `L`'s policies, never those of
    a label-less namespace. -/
theorem C08_real_getters (pv) (cfg : Config) (w : World Ev) (r : Request) (L : Labels)
    (lister : Option (Lookup Labels)) (hl : lister = none ∨ lister = some .notFound ∨ lister = some (.found L)) :
    toWorld (getNamespace lister (.found L)).result = .ok L ∧
    validatePod pv cfg { w with getNs := toWorld (getNamespace lister (.found L)).result } r = validatePod pv cfg { w with getNs := .ok L } r ∧
    validateController pv cfg { w with getNs := toWorld (getNamespace lister (.found L)).result } r =
      validateController pv cfg { w with getNs := .ok L } r := by
  have h : toWorld (getNamespace lister (.found L)).result = .ok L := by
    rcases hl with rfl | rfl | rfl <;> rfl
  exact ⟨h, by rw [h], by rw [h]⟩

#print axioms C08_real_getters
#print axioms C08_nonblocking
#print axioms C08_audit
#print axioms C08_warn
#print axioms C08_denied_no_warning
#print axioms C08_cache_calls
end PSA.Props

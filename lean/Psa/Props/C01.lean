import Psa.AdmitProps
import Psa.Namespace
import Psa.C02Bridge
import Psa.Examples
/-! # C01 — the pod admission verdict equals the namespace's enforce-policy verdict -/
namespace PSA.Props
open PSA

/-- the requests C01 speaks about: a pod CREATE, or a pod UPDATE that changes an image or the set of containers,
    on a non-ignored subresource, not exempt by namespace / user / runtime class, with no dependency fault -/
structure Evaluated (cfg : Config) (w : World Ev) (r : Request) (labels : Labels) (p : PodObj) : Prop where
  sub : ignoredSubresources.contains r.sub = false
  ns : exempt r.ns cfg.exNamespaces = false
  user : exempt r.user cfg.exUsers = false
  getNs : w.getNs = .ok labels
  obj : r.obj = .ok (.pod p)
  op : r.op = .create ∨ (r.op = .update ∧ ∃ q, r.old = .ok (.pod q) ∧ isSignificant p.pod q.pod = true)
  rc : exemptRC p.runtimeClass cfg.exRuntimeClasses = false

/-- the shared tail of the three theorems: such a request reaches EvaluatePod with enforce = true,
    unless the namespace is fully privileged with clean labels -/
theorem validatePod_evaluated (pv) (cfg : Config) (w : World Ev) (r : Request) (labels : Labels) (p : PodObj)
    (h : Evaluated cfg w r labels p) :
    let pe := policyToEvaluate pv labels cfg.defaults
    validatePod pv cfg w r =
      if pe.2.isEmpty && pe.1.fullyPrivileged then
        ({ allowed := true, annEnforce := some ⟨.privileged, .latest⟩ }, { metrics := [.eval true pe.1.enforce 0] })
      else evaluateObj w.ev cfg pe.1 (!pe.2.isEmpty) p true := by
  intro pe
  unfold validatePod
  simp only [h.sub, h.ns, h.user, h.getNs, h.obj, Bool.false_eq_true, ↓reduceIte]
  rcases h.op with hc | ⟨hu, q, hq, hs⟩
  · simp only [hc]
    split <;> rfl
  · simp only [hu, hq, hs, ↓reduceIte]
    rfl

/-- **Verdict.** For every configuration, label map, evaluator (that runs nothing at privileged) and request of the kind
    above: allowed ⇔ the pod passes the enforce level at the enforce version the labels and defaults resolve to. -/
theorem C01_verdict (pv) (cfg : Config) (w : World Ev) (r : Request) (labels : Labels) (p : PodObj)
    (h : Evaluated cfg w r labels p) (hpriv : ∀ v x, w.ev ⟨.privileged, v⟩ x = []) :
    (validatePod pv cfg w r).1.allowed =
      (aggregate (w.ev (policyToEvaluate pv labels cfg.defaults).1.enforce p)).allowed := by
  have := validatePod_evaluated pv cfg w r labels p h
  simp only at this
  rw [this]
  split
  · next hfp =>
    simp only [Bool.and_eq_true, Policy.fullyPrivileged, beq_iff_eq] at hfp
    have hl : (policyToEvaluate pv labels cfg.defaults).1.enforce.level = .privileged := hfp.2.1.1
    have : (policyToEvaluate pv labels cfg.defaults).1.enforce =
        ⟨.privileged, (policyToEvaluate pv labels cfg.defaults).1.enforce.version⟩ := by
      cases hpe : (policyToEvaluate pv labels cfg.defaults).1.enforce with
      | mk l v => rw [hpe] at hl; simp only at hl; rw [hl]
    rw [this, hpriv]
    rfl
  · exact evaluateObj_allowed cfg w.ev _ _ p h.rc

/-- **Status.** A policy denial is a 403 whose message names exactly the enforced level:version. -/
theorem C01_status (pv) (cfg : Config) (w : World Ev) (r : Request) (labels : Labels) (p : PodObj)
    (h : Evaluated cfg w r labels p) (hd : (validatePod pv cfg w r).1.allowed = false) :
    (validatePod pv cfg w r).1.code = 403 ∧
    (validatePod pv cfg w r).1.enforcedLV = some (policyToEvaluate pv labels cfg.defaults).1.enforce := by
  have := validatePod_evaluated pv cfg w r labels p h
  simp only at this
  rw [this] at hd ⊢
  split at hd
  · simp at hd
  · next hfp =>
    simp only [hfp, Bool.false_eq_true, ↓reduceIte]
    simp only [evaluateObj, evaluatePod, h.rc, Bool.false_eq_true, ↓reduceIte] at hd ⊢
    simp only [Bool.not_eq_eq_eq_not, Bool.not_false] at hd
    simp [hd]

/-- **Annotation.** Every such request carries the enforce-policy annotation naming the enforced level and,
    below privileged, the enforced version. -/
theorem C01_annotation (pv) (cfg : Config) (w : World Ev) (r : Request) (labels : Labels) (p : PodObj)
    (h : Evaluated cfg w r labels p) :
    ∃ lv, (validatePod pv cfg w r).1.annEnforce = some lv ∧
      lv.level = (policyToEvaluate pv labels cfg.defaults).1.enforce.level ∧
      (lv.level ≠ .privileged → lv = (policyToEvaluate pv labels cfg.defaults).1.enforce) := by
  have := validatePod_evaluated pv cfg w r labels p h
  simp only at this
  rw [this]
  split
  · next hfp =>
    simp only [Bool.and_eq_true, Policy.fullyPrivileged, beq_iff_eq] at hfp
    exact ⟨⟨.privileged, .latest⟩, rfl, hfp.2.1.1.symm, fun hne => absurd rfl hne⟩
  · refine ⟨(policyToEvaluate pv labels cfg.defaults).1.enforce, ?_, rfl, fun _ => rfl⟩
    simp [evaluateObj, evaluatePod, h.rc]

/-- **Composition with C02** (shipped evaluator, API-valid pod, restricted enforce level): allowed ⇔ the Standard. -/
theorem C01_standard_restricted (cfg : Config) (w : World Ev) (r : Request) (labels : Labels) (p : PodObj)
    (h : Evaluated cfg w r labels p)
    (hev : w.ev = fun lv x => evalPodModel Generated.tables false lv x.pod)
    (hl : (policyToEvaluate parseVersion labels cfg.defaults).1.enforce.level = .restricted)
    (hv : (policyToEvaluate parseVersion labels cfg.defaults).1.enforce.version.requestable)
    (hp : ApiValid p.pod) :
    (validatePod parseVersion cfg w r).1.allowed = true ↔
      Std.restricted Std.publishedTables (clampV 32 (policyToEvaluate parseVersion labels cfg.defaults).1.enforce.version) p.pod := by
  rw [C01_verdict parseVersion cfg w r labels p h (by intro v x; rw [hev]; exact (C03_privileged_nil v x.pod))]
  rw [hev]
  have : (policyToEvaluate parseVersion labels cfg.defaults).1.enforce =
      ⟨.restricted, (policyToEvaluate parseVersion labels cfg.defaults).1.enforce.version⟩ := by
    cases hpe : (policyToEvaluate parseVersion labels cfg.defaults).1.enforce with
    | mk l v => rw [hpe] at hl; simp only at hl; rw [hl]
  rw [this]
  exact C02_restricted_iff _ p.pod hv hp

/-- non-vacuity: a privileged pod created in a namespace labelled enforce=restricted:v1.25 (all-privileged defaults, shipped
    evaluator) meets `Evaluated`; it is denied with 403 and carries the enforce-policy annotation restricted:v1.25 -/
example : Evaluated Ex.cfg (Ex.world Ex.restrictedLabels) (Ex.podCreate Ex.privPod) Ex.restrictedLabels Ex.privPod :=
  ⟨by decide, by decide, by decide, rfl, rfl, Or.inl rfl, by decide⟩
example : (validatePod parseVersion Ex.cfg (Ex.world Ex.restrictedLabels) (Ex.podCreate Ex.privPod)).1.allowed = false ∧
    (validatePod parseVersion Ex.cfg (Ex.world Ex.restrictedLabels) (Ex.podCreate Ex.privPod)).1.code = 403 ∧
    (validatePod parseVersion Ex.cfg (Ex.world Ex.restrictedLabels) (Ex.podCreate Ex.privPod)).1.annEnforce = some ⟨.restricted, .mm 1 25⟩ := by
  decide +kernel

#print axioms C01_verdict
#print axioms C01_status
#print axioms C01_annotation
#print axioms C01_standard_restricted
end PSA.Props

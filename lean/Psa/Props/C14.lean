import Psa.SortProofs
import Psa.Eval
import Psa.Generated.Tables
import Psa.Generated.Facts
/-! # C14 — evaluating a pod is pure and deterministic
The model is a function of the pod. The one place where the Go code iterates a map — the pod's annotations — is an explicit
list in the model, presented in *some* order; these theorems show the order is irrelevant to every verdict and every byte of
message text. (Non-mutation of the pod is a fact extracted from the code, F5; data-race freedom is observed, not proved.) -/
namespace PSA.Props
open PSA

/-- looking a key up does not depend on the order of a map's entries (keys are distinct) -/
theorem find_perm (l l' : List (Str × Str)) (h : l.Perm l') (hnd : (l.map (·.1)).Nodup) (k : Str) :
    l.find? (fun kv => kv.1 = k) = l'.find? (fun kv => kv.1 = k) := by
  induction h with
  | nil => rfl
  | cons x _ ih =>
    simp only [List.map_cons, List.nodup_cons] at hnd
    simp only [List.find?_cons]
    split
    · rfl
    · exact ih hnd.2
  | swap x y l =>
    simp only [List.map_cons, List.nodup_cons, List.mem_cons, not_or] at hnd
    simp only [List.find?_cons]
    by_cases hx : x.1 = k <;> by_cases hy : y.1 = k <;> simp [hx, hy]
    exact absurd (hy.trans hx.symm) hnd.1.1
  | trans h1 _ ih1 ih2 =>
    exact (ih1 hnd).trans (ih2 ((h1.map _).nodup_iff.mp hnd))

theorem ann_perm (p : Pod) (anns : List (Str × Str)) (h : p.annotations.Perm anns) (hnd : (p.annotations.map (·.1)).Nodup) (k : Str) :
    ({ p with annotations := anns } : Pod).ann k = p.ann k := by
  simp only [Pod.ann]
  rw [find_perm p.annotations anns h hnd k]

/-- rendering the AppArmor result depends on the forbidden annotations only as a multiset -/
theorem render_appArmor_perm (b : Bool) (cs vals F F' : List Str) (h : F.Perm F') :
    render .appArmor (mk b cs [] [] vals F) = render .appArmor (mk b cs [] [] vals F') := by
  have he : F.isEmpty = F'.isEmpty := by
    have := h.length_eq
    cases F <;> cases F' <;> simp_all
  have hs : sortStrs F = sortStrs F' := sortStrs_eq_of_perm F F' h
  have hl : F.length = F'.length := h.length_eq
  unfold mk
  simp only [he]
  split
  · simp only [render, Bool.false_eq_true, ↓reduceIte, Kind.reason, Kind.detail, setters, hs, hl, he]
  · rfl

/-- **Every revision** gives the same result — verdict, reason and detail bytes — whatever the iteration order of the
    annotation map. -/
theorem C14_rev_order_independent (T : Tables) (relax : Bool) (r : RevId) (p : Pod) (anns : List (Str × Str))
    (h : p.annotations.Perm anns) (hnd : (p.annotations.map (·.1)).Nodup) :
    runRev T relax r { p with annotations := anns } = runRev T relax r p := by
  cases r
  case appArmor0 =>
    simp only [runRev, run, appArmorProfile_1_0, RevId.kind]
    exact render_appArmor_perm _ _ _ _ _ (((h.symm).filter _).map _)
  case seccompB0 =>
    simp only [runRev, run, seccompBaseline_1_0]
    have := ann_perm p anns h hnd
    simp only [this]
    rfl
  all_goals rfl

/-- **Whole evaluations** likewise, at every level and version. -/
theorem C14_order_independent (relax : Bool) (lv : LevelVersion) (p : Pod) (anns : List (Str × Str))
    (h : p.annotations.Perm anns) (hnd : (p.annotations.map (·.1)).Nodup) :
    evalPodModel Generated.tables relax lv { p with annotations := anns } = evalPodModel Generated.tables relax lv p := by
  simp only [evalPodModel, C14_rev_order_independent _ _ _ p anns h hnd]

/-- sets of offending values are rendered through a sort that forgets insertion order and multiplicity -/
theorem C14_values_canonical (l l' : List Str) (h : ∀ a, a ∈ l ↔ a ∈ l') : sortDedup l = sortDedup l' :=
  sortDedup_eq_of_same_members l l' h

-- non-vacuity: two different orders of two offending annotations give the same bytes
set_option maxRecDepth 8000 in
example :
    runRev Generated.tables false .appArmor0
      { annotations := [(b!"container.apparmor.security.beta.kubernetes.io/b", b!"unconfined"),
                        (b!"container.apparmor.security.beta.kubernetes.io/a", b!"bad")] } =
    runRev Generated.tables false .appArmor0
      { annotations := [(b!"container.apparmor.security.beta.kubernetes.io/a", b!"bad"),
                        (b!"container.apparmor.security.beta.kubernetes.io/b", b!"unconfined")] } := by decide

/-- tie obligation (F5): no shipped revision stores through, updates a map of, or sorts in place anything reached from the
    pod metadata / spec parameters -/
theorem C14_no_pod_writes : Generated.podWrites = [] := by decide

/-- tie obligation (F9): evaluating writes no state that outlives the call — nothing in package `policy` stores through a
    method receiver (the registry is immutable once `NewEvaluator` returned), updates a package-level map or calls a sync /
    atomic mutator, apart from the administrator's setter of the user-namespace switch (C19). An evaluator therefore cannot
    answer differently because of what, or how many goroutines at once, it evaluated before. -/
theorem C14_evaluator_immutable :
    Generated.stateWrites.filter (fun w => w.1 = b!"policy" ∧ w.2.1 ≠ b!"policy.RelaxPolicyForUserNamespacePods") = [] := by
  decide

#print axioms C14_rev_order_independent
#print axioms C14_order_independent
#print axioms C14_values_canonical
#print axioms C14_no_pod_writes
#print axioms C14_evaluator_immutable
end PSA.Props

import Psa.AdmitProps
import Psa.AdmitCases
import Psa.Deps
import Psa.Examples
import Psa.Namespace
/-! # C07 — dependency failures fail closed for pods and open for advisory paths
Faults are inputs of the model (`w.getNs`, `r.obj`, `r.old`, `w.listPods`, `w.expireAfter`); every theorem quantifies over
every placement of them. -/
namespace PSA.Props
open PSA

/-- **Pods fail closed.** Whatever fails, a pod request is allowed only for one of these reasons — never because of a fault. -/
theorem C07_pod_closed (pv) (cfg : Config) (w : World Ev) (r : Request) (h : (validatePod pv cfg w r).1.allowed = true) :
    ignoredSubresources.contains r.sub = true ∨ exempt r.ns cfg.exNamespaces = true ∨ exempt r.user cfg.exUsers = true ∨
    ∃ labels, w.getNs = .ok labels ∧
      let pe := policyToEvaluate pv labels cfg.defaults
      ((pe.2.isEmpty = true ∧ pe.1.fullyPrivileged = true) ∨
       ∃ p, r.obj = .ok (.pod p) ∧
         ((r.op = .update ∧ ∃ q, r.old = .ok (.pod q) ∧ isSignificant p.pod q.pod = false) ∨
          exemptRC p.runtimeClass cfg.exRuntimeClasses = true ∨
          enforcedOK w.ev pe.1 p)) := PSA.C07_pod_closed pv cfg w r h

/-- each pod fault site, spelled out: the request is denied with an error status and flagged -/
theorem C07_pod_ns_lookup (pv) (cfg : Config) (w : World Ev) (r : Request)
    (h0 : ignoredSubresources.contains r.sub = false) (h1 : exempt r.ns cfg.exNamespaces = false)
    (h2 : exempt r.user cfg.exUsers = false) (e : Unit) (h : w.getNs = .error e) :
    (validatePod pv cfg w r).1.allowed = false ∧ (validatePod pv cfg w r).1.code = 500 ∧
    (validatePod pv cfg w r).1.annError = true ∧ (validatePod pv cfg w r).2.evalCalls = [] := by
  simp only [validatePod, h0, h1, h2, h, errResp, Bool.false_eq_true, ↓reduceIte, and_self]

theorem C07_pod_bad_object (pv) (cfg : Config) (w : World Ev) (r : Request) (labels : Labels)
    (h0 : ignoredSubresources.contains r.sub = false) (h1 : exempt r.ns cfg.exNamespaces = false)
    (h2 : exempt r.user cfg.exUsers = false) (h3 : w.getNs = .ok labels)
    (h4 : ((policyToEvaluate pv labels cfg.defaults).2.isEmpty && (policyToEvaluate pv labels cfg.defaults).1.fullyPrivileged) = false)
    (h : (∀ p, r.obj ≠ .ok (.pod p)) ∨ (r.op = .update ∧ ∀ q, r.old ≠ .ok (.pod q))) :
    (validatePod pv cfg w r).1.allowed = false ∧ (validatePod pv cfg w r).1.code = 400 ∧
    (validatePod pv cfg w r).1.annError = true := by
  generalize hout : validatePod pv cfg w r = out
  have ho := validatePod_outcome pv cfg w r
  rw [hout] at ho
  cases ho with
  | ignored hh => rw [h0] at hh; cases hh
  | exemptNs _ hh => rw [h1] at hh; cases hh
  | exemptUser _ _ hh => rw [h2] at hh; cases hh
  | nsErr _ _ _ e hh => rw [h3] at hh; cases hh
  | fullyPrivileged _ _ _ l hl hh => rw [h3] at hl; cases hl; rw [h4] at hh; cases hh
  | badObject => simp [errResp]
  | badOldObject => simp [errResp]
  | insignificant _ _ _ l hl _ p hp hop q hq _ =>
    rcases h with h | ⟨_, h⟩
    · exact absurd hp (h p)
    · exact absurd hq (h q)
  | evaluated _ _ _ l hl _ p hp hop =>
    rcases h with h | ⟨hu, h⟩
    · exact absurd hp (h p)
    · rcases hop with hop | ⟨q, hq, _⟩
      · exact absurd hu hop
      · exact absurd hq (h q)

/-- **Controllers fail open**: always allowed (C09_allowed), and every fault site yields the `error` annotation. -/
theorem C07_controller_open (pv) (cfg : Config) (w : World Ev) (r : Request) :
    (validateController pv cfg w r).1.allowed = true := PSA.C09_allowed pv cfg w r

theorem C07_controller_ns_lookup (pv) (cfg : Config) (w : World Ev) (r : Request)
    (h0 : r.sub = []) (h1 : exempt r.ns cfg.exNamespaces = false) (h2 : exempt r.user cfg.exUsers = false)
    (e : Unit) (h : w.getNs = .error e) :
    (validateController pv cfg w r).1.annError = true := by
  simp [validateController, h0, h1, h2, h, allowWithError]

theorem C07_controller_bad_object (pv) (cfg : Config) (w : World Ev) (r : Request) (labels : Labels)
    (h0 : r.sub = []) (h1 : exempt r.ns cfg.exNamespaces = false) (h2 : exempt r.user cfg.exUsers = false)
    (h3 : w.getNs = .ok labels)
    (h4 : ((policyToEvaluate pv labels cfg.defaults).2.isEmpty && (policyToEvaluate pv labels cfg.defaults).1.warn.level == .privileged &&
            (policyToEvaluate pv labels cfg.defaults).1.audit.level == .privileged) = false)
    (h : (∀ p, r.obj ≠ .ok (.pod p)) ∧ (∀ t, r.obj ≠ .ok (.controller t))) :
    (validateController pv cfg w r).1.annError = true := by
  generalize hout : validateController pv cfg w r = out
  have ho := validateController_outcome pv cfg w r
  rw [hout] at ho
  cases ho with
  | subresource hh => exact absurd h0 hh
  | exemptNs _ hh => rw [h1] at hh; cases hh
  | exemptUser _ _ hh => rw [h2] at hh; cases hh
  | nsErr _ _ _ e hh => rw [h3] at hh; cases hh
  | quiet _ _ _ l hl hh => rw [h3] at hl; cases hl; rw [h4] at hh; cases hh
  | badObject => simp [allowWithError]
  | noTemplate _ _ _ _ _ _ hh => exact absurd hh (h.2 none)
  | evaluated _ _ _ _ _ _ p hh =>
    rcases hh with hh | hh
    · exact absurd hh (h.1 p)
    · exact absurd hh (h.2 (some p))

/-- **Namespaces.** An undecodable body (or one of the wrong type) is denied … -/
theorem C07_ns_bad_body (pv) (cfg : Config) (lim : Limits) (w : World Ev) (r : Request)
    (h0 : r.sub = []) (h : ∀ n l, r.obj ≠ .ok (.ns n l)) :
    (validateNamespace pv cfg lim w r).1.allowed = false ∧ (validateNamespace pv cfg lim w r).1.code = 400 := by
  unfold validateNamespace
  simp only [h0, ne_eq, not_true_eq_false, ↓reduceIte]
  cases hobj : r.obj with
  | error e => simp [nsErrResp, errResp]
  | ok o =>
    cases o with
    | ns n l => exact absurd hobj (h n l)
    | pod p => simp [nsErrResp, errResp]
    | controller t => simp [nsErrResp, errResp]
    | other => simp [nsErrResp, errResp]
    | nil => simp [nsErrResp, errResp]

/-- … but once the labels are valid, nothing about the pods — listing failure, population, evaluator verdicts, expiry at
    any index, remaining time — can make the response a denial. -/
theorem C07_ns_never_blocked_by_pods (pv) (cfg : Config) (lim : Limits) (w w' : World Ev) (r : Request) :
    (validateNamespace pv cfg lim w r).1.allowed = (validateNamespace pv cfg lim w' r).1.allowed := by
  unfold validateNamespace
  repeat' split
  all_goals rfl

/-- **Malformed labels never skip evaluation**: with label errors the privileged short cut is not taken, the pod is
    evaluated under the fail-safe policy, and the response is flagged. -/
theorem C07_labels_evaluated (pv) (cfg : Config) (w : World Ev) (r : Request) (labels : Labels) (p : PodObj)
    (h0 : ignoredSubresources.contains r.sub = false) (h1 : exempt r.ns cfg.exNamespaces = false)
    (h2 : exempt r.user cfg.exUsers = false) (h3 : w.getNs = .ok labels)
    (herr : (policyToEvaluate pv labels cfg.defaults).2 ≠ [])
    (h5 : r.obj = .ok (.pod p)) (hop : r.op = .create) (hrc : exemptRC p.runtimeClass cfg.exRuntimeClasses = false) :
    (validatePod pv cfg w r).1.annError = true ∧
    (validatePod pv cfg w r).1.allowed = (aggregate (w.ev (policyToEvaluate pv labels cfg.defaults).1.enforce p)).allowed ∧
    (policyToEvaluate pv labels cfg.defaults).1.enforce ∈ (validatePod pv cfg w r).2.evalCalls.map (·.1) := by
  have hne : (policyToEvaluate pv labels cfg.defaults).2.isEmpty = false := by
    cases hx : (policyToEvaluate pv labels cfg.defaults).2 with
    | nil => exact absurd hx herr
    | cons a b => rfl
  simp only [validatePod, h0, h1, h2, h3, hne, h5, hop, Bool.false_and, Bool.false_eq_true, ↓reduceIte, reduceCtorEq]
  refine ⟨?_, ?_, ?_⟩
  · simp [evaluateObj, evaluatePod, hrc]
  · exact evaluateObj_allowed cfg w.ev _ _ p hrc
  · exact evaluateObj_calls_enforce cfg w.ev _ _ p hrc

/-- **A failed listing is reported, not hidden, and blocks nothing.** Whenever a namespace update calls the pod lister and the
    listing fails, the answer is: allowed, exactly the one warning "failed to list pods …", no pod evaluated — for every
    configuration, evaluator, remaining deadline and label pair that leads to a dry run. -/
theorem C07_ns_list_failure (pv) (cfg : Config) (lim : Limits) (w : World Ev) (r : Request) (e : Unit)
    (hcalls : (validateNamespace pv cfg lim w r).2.listCalls = 1) (hlist : w.listPods = .error e) :
    (validateNamespace pv cfg lim w r).1.allowed = true ∧ (validateNamespace pv cfg lim w r).1.warnings = [.listFailed] ∧
    (validateNamespace pv cfg lim w r).2.evalCalls = [] := by
  revert hcalls
  unfold validateNamespace
  repeat' split
  all_goals (intro hcalls; first | (simp at hcalls; done) | skip)
  all_goals simp_all

/-- non-vacuity: an update to enforce=restricted whose listing fails does call the lister once -/
example : (validateNamespace parseVersion Ex.cfg Ex.lim { Ex.world [] with listPods := .error () } (Ex.nsUpdate Ex.restrictedLabels [])).2.listCalls = 1 := by
  decide +kernel

/-! ## The dependency adapters (admission/namespace.go, admission/pods.go) -/
open PSA.Deps in
/-- **The namespace getter.** It answers "found" exactly when the cache has the namespace, or the cache is absent or says
    NotFound and the API server has it; a cache failure of any other kind is *not* retried at the API server. -/
theorem C07_getter_found_iff {α} (lister : Option (Lookup α)) (client : Lookup α) (a : α) :
    (getNamespace lister client).result = .found a ↔
      lister = some (.found a) ∨ ((lister = none ∨ lister = some .notFound) ∧ client = .found a) := by
  cases lister with
  | none => simp [getNamespace]
  | some l => cases l <;> simp [getNamespace]

open PSA.Deps in
/-- the API server is asked exactly when there is no cache or the cache says NotFound -/
theorem C07_getter_asks_client_iff {α} (lister : Option (Lookup α)) (client : Lookup α) :
    (getNamespace lister client).clientAsked = true ↔ (lister = none ∨ lister = some .notFound) := by
  cases lister with
  | none => simp [getNamespace]
  | some l => cases l <;> simp [getNamespace]

open PSA.Deps in
/-- **Composed with the pod path**: whatever the cache and the API server answer, if the getter does not find the namespace,
    a pod request that is neither ignored nor exempt is denied (500, flagged, nothing evaluated) — for every evaluator,
    configuration and request. -/
theorem C07_pod_getter_closed (pv) (cfg : Config) (w : World Ev) (r : Request)
    (lister : Option (Lookup Labels)) (client : Lookup Labels)
    (hw : w.getNs = toWorld (getNamespace lister client).result)
    (h0 : ignoredSubresources.contains r.sub = false) (h1 : exempt r.ns cfg.exNamespaces = false)
    (h2 : exempt r.user cfg.exUsers = false)
    (hnf : ∀ l, (getNamespace lister client).result ≠ .found l) :
    (validatePod pv cfg w r).1.allowed = false ∧ (validatePod pv cfg w r).1.code = 500 ∧
    (validatePod pv cfg w r).2.evalCalls = [] := by
  have he : w.getNs = .error () := by
    rw [hw]
    cases hres : (getNamespace lister client).result with
    | found l => exact absurd hres (hnf l)
    | notFound => rfl
    | failed => rfl
  have := C07_pod_ns_lookup pv cfg w r h0 h1 h2 () he
  exact ⟨this.1, this.2.1, this.2.2.2⟩

open PSA.Deps in
/-- … and a controller request in the same situation is allowed and flagged -/
theorem C07_controller_getter_open (pv) (cfg : Config) (w : World Ev) (r : Request)
    (lister : Option (Lookup Labels)) (client : Lookup Labels)
    (hw : w.getNs = toWorld (getNamespace lister client).result)
    (h0 : r.sub = []) (h1 : exempt r.ns cfg.exNamespaces = false) (h2 : exempt r.user cfg.exUsers = false)
    (hnf : ∀ l, (getNamespace lister client).result ≠ .found l) :
    (validateController pv cfg w r).1.allowed = true ∧ (validateController pv cfg w r).1.annError = true := by
  have he : w.getNs = .error () := by
    rw [hw]
    cases hres : (getNamespace lister client).result with
    | found l => exact absurd hres (hnf l)
    | notFound => rfl
    | failed => rfl
  exact ⟨C07_controller_open pv cfg w r, C07_controller_ns_lookup pv cfg w r h0 h1 h2 () he⟩

open PSA.Deps in
/-- **The pod listers are faithful**: what the dry run sees is exactly what the API server (or the cache) listed, in that
    order, and a failed listing is a failed listing (never an empty or partial population). -/
theorem C07_listers_faithful {α} (x : Except Unit (List α)) :
    clientListPods x = x ∧ informerListPods x = x := by
  cases x with
  | ok items => simp [clientListPods, informerListPods]
  | error e => simp [clientListPods, informerListPods]

open PSA.Deps in
/-- non-vacuity: a cache that fails (not NotFound) while the API server has the namespace: not found, server not asked -/
example : (getNamespace (some Lookup.failed) (Lookup.found (1 : Nat))) = { result := .failed, listerAsked := true, clientAsked := false } := by
  decide

#print axioms C07_pod_closed
#print axioms C07_pod_ns_lookup
#print axioms C07_pod_bad_object
#print axioms C07_controller_open
#print axioms C07_controller_ns_lookup
#print axioms C07_controller_bad_object
#print axioms C07_ns_bad_body
#print axioms C07_ns_never_blocked_by_pods
#print axioms C07_labels_evaluated
#print axioms C07_ns_list_failure
#print axioms C07_getter_found_iff
#print axioms C07_getter_asks_client_iff
#print axioms C07_pod_getter_closed
#print axioms C07_controller_getter_open
#print axioms C07_listers_faithful
end PSA.Props

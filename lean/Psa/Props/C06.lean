import Psa.AdmitProps
import Psa.NamespaceProofs
import Psa.AdmitCases
import Psa.Examples
/-! # C06 — exemptions match exactly and are the only configured bypass -/
namespace PSA.Props
open PSA

/-- exact, non-empty match: no prefix, case-folded or cross-list match (each list is consulted only for its own dimension) -/
theorem C06_exact (s : Str) (l : List Str) : exempt s l = true ↔ s ≠ [] ∧ s ∈ l := by
  simp [exempt]

theorem C06_exact_rc (rc : Option Str) (l : List Str) : exemptRC rc l = true ↔ ∃ s, rc = some s ∧ s ≠ [] ∧ s ∈ l := by
  cases rc <;> simp [exemptRC, exempt]

/-- evaluateObj marks "runtimeClass" only on a runtime-class match, and then allows without evaluating -/
theorem evaluateObj_exempt (ev : Ev) (cfg : Config) (pol : Policy) (e : Bool) (p : PodObj) (enf : Bool) (d : Str)
    (h : (evaluateObj ev cfg pol e p enf).1.annExempt = some d) :
    d = b!"runtimeClass" ∧ exemptRC p.runtimeClass cfg.exRuntimeClasses = true := by
  simp only [evaluateObj, evaluatePod] at h
  split at h
  · next hrc => simp at h; exact ⟨h.symm, hrc⟩
  · simp at h

theorem evaluateObj_rc_bypass (ev : Ev) (cfg : Config) (pol : Policy) (e : Bool) (p : PodObj) (enf : Bool)
    (h : exemptRC p.runtimeClass cfg.exRuntimeClasses = true) :
    (evaluateObj ev cfg pol e p enf).1.allowed = true ∧ (evaluateObj ev cfg pol e p enf).2.evalCalls = [] ∧
    (evaluateObj ev cfg pol e p enf).1.annExempt = some b!"runtimeClass" ∧
    (evaluateObj ev cfg pol e p enf).2.metrics = [.exemption] := by
  simp [evaluateObj, evaluatePod, h]

/-- **Only bypass (pods).** An `exempt` annotation appears only when the named dimension matches exactly. -/
theorem C06_only_pod (pv) (cfg : Config) (w : World Ev) (r : Request) (d : Str)
    (h : (validatePod pv cfg w r).1.annExempt = some d) :
    (d = b!"namespace" ∧ exempt r.ns cfg.exNamespaces = true) ∨ (d = b!"user" ∧ exempt r.user cfg.exUsers = true) ∨
    (d = b!"runtimeClass" ∧ ∃ p, r.obj = .ok (.pod p) ∧ exemptRC p.runtimeClass cfg.exRuntimeClasses = true) := by
  generalize hout : validatePod pv cfg w r = out at h
  have ho := validatePod_outcome pv cfg w r
  rw [hout] at ho
  cases ho with
  | ignored => simp [allowPlain] at h
  | exemptNs _ hn => simp at h; exact Or.inl ⟨h.symm, hn⟩
  | exemptUser _ _ hu => simp at h; exact Or.inr (Or.inl ⟨h.symm, hu⟩)
  | nsErr => simp [errResp] at h
  | fullyPrivileged => simp at h
  | badObject => simp [errResp] at h
  | badOldObject => simp [errResp] at h
  | insignificant => simp [allowPlain] at h
  | evaluated _ _ _ labels _ _ p h5 _ =>
    have := evaluateObj_exempt _ _ _ _ _ _ _ h
    exact Or.inr (Or.inr ⟨this.1, p, h5, this.2⟩)

/-- **Bypass (pods).** A matching namespace, or else a matching user, on a non-ignored subresource: allowed, never
    evaluated, annotated with the matching dimension, one exemption recorded. -/
theorem C06_bypass_pod_ns (pv) (cfg : Config) (w : World Ev) (r : Request)
    (hs : ignoredSubresources.contains r.sub = false) (h : exempt r.ns cfg.exNamespaces = true) :
    validatePod pv cfg w r = ({ allowed := true, annExempt := some b!"namespace" }, { metrics := [.exemption] }) := by
  simp only [validatePod, hs, h, Bool.false_eq_true, ↓reduceIte]

theorem C06_bypass_pod_user (pv) (cfg : Config) (w : World Ev) (r : Request)
    (hs : ignoredSubresources.contains r.sub = false) (hn : exempt r.ns cfg.exNamespaces = false)
    (h : exempt r.user cfg.exUsers = true) :
    validatePod pv cfg w r = ({ allowed := true, annExempt := some b!"user" }, { metrics := [.exemption] }) := by
  simp only [validatePod, hs, hn, h, Bool.false_eq_true, ↓reduceIte]

/-- **Bypass (controllers).** -/
theorem C06_bypass_ctl_ns (pv) (cfg : Config) (w : World Ev) (r : Request)
    (hs : r.sub = []) (h : exempt r.ns cfg.exNamespaces = true) :
    validateController pv cfg w r = ({ allowed := true, annExempt := some b!"namespace" }, { metrics := [.exemption] }) := by
  simp [validateController, hs, h]

theorem C06_bypass_ctl_user (pv) (cfg : Config) (w : World Ev) (r : Request)
    (hs : r.sub = []) (hn : exempt r.ns cfg.exNamespaces = false) (h : exempt r.user cfg.exUsers = true) :
    validateController pv cfg w r = ({ allowed := true, annExempt := some b!"user" }, { metrics := [.exemption] }) := by
  simp [validateController, hs, hn, h]

/-- **Only bypass (controllers).** -/
theorem C06_only_ctl (pv) (cfg : Config) (w : World Ev) (r : Request) (d : Str)
    (h : (validateController pv cfg w r).1.annExempt = some d) :
    (d = b!"namespace" ∧ exempt r.ns cfg.exNamespaces = true) ∨ (d = b!"user" ∧ exempt r.user cfg.exUsers = true) ∨
    (d = b!"runtimeClass" ∧ ∃ p, (r.obj = .ok (.pod p) ∨ r.obj = .ok (.controller (some p))) ∧
        exemptRC p.runtimeClass cfg.exRuntimeClasses = true) := by
  generalize hout : validateController pv cfg w r = out at h
  have ho := validateController_outcome pv cfg w r
  rw [hout] at ho
  cases ho with
  | subresource => simp [allowPlain] at h
  | exemptNs _ hn => simp at h; exact Or.inl ⟨h.symm, hn⟩
  | exemptUser _ _ hu => simp at h; exact Or.inr (Or.inl ⟨h.symm, hu⟩)
  | nsErr => simp [allowWithError] at h
  | quiet => simp [allowPlain] at h
  | badObject => simp [allowWithError] at h
  | noTemplate => simp [allowPlain] at h
  | evaluated _ _ _ labels _ _ p h5 =>
    have := evaluateObj_exempt _ _ _ _ _ _ _ h
    exact Or.inr (Or.inr ⟨this.1, p, h5, this.2⟩)

/-- **Runtime class.** From inside EvaluatePod: allowed, not evaluated, annotated `runtimeClass`. -/
theorem C06_bypass_rc (ev : Ev) (cfg : Config) (pol : Policy) (e : Bool) (p : PodObj) (enf : Bool)
    (h : exemptRC p.runtimeClass cfg.exRuntimeClasses = true) :
    (evaluateObj ev cfg pol e p enf).1.allowed = true ∧ (evaluateObj ev cfg pol e p enf).2.evalCalls = [] ∧
    (evaluateObj ev cfg pol e p enf).1.annExempt = some b!"runtimeClass" := by
  have := evaluateObj_rc_bypass ev cfg pol e p enf h
  exact ⟨this.1, this.2.1, this.2.2.1⟩

/-- **Dry runs skip exactly the pods with an exempt runtime class**: the prioritised list is a permutation of the
    non-exempt pods of the listing. -/
theorem C06_dryrun_skips (exRC : List Str) (pods : List PodObj) :
    (prioritize exRC pods).Perm (pods.filter (fun p => !exemptRC p.runtimeClass exRC)) := prioritize_perm exRC pods

/-- non-vacuity: a request in the exempt namespace meets the premises of C06_bypass_pod_ns; a pod with the exempt runtime class
    is annotated `runtimeClass` (the premise of C06_only_pod) -/
example : ignoredSubresources.contains (Ex.podCreate Ex.privPod b!"kube-system").sub = false ∧
    exempt (Ex.podCreate Ex.privPod b!"kube-system").ns Ex.cfg.exNamespaces = true := by decide
example : (validatePod parseVersion Ex.cfg (Ex.world Ex.restrictedLabels) (Ex.podCreate Ex.kataPod)).1.annExempt = some b!"runtimeClass" := by
  decide +kernel

#print axioms C06_exact
#print axioms C06_exact_rc
#print axioms C06_only_pod
#print axioms C06_bypass_pod_ns
#print axioms C06_bypass_pod_user
#print axioms C06_bypass_ctl_ns
#print axioms C06_bypass_ctl_user
#print axioms C06_only_ctl
#print axioms C06_bypass_rc
#print axioms C06_dryrun_skips
end PSA.Props

import Psa.C02Bridge
import Psa.ExpectedFacts
import Psa.Examples
/-! # C02 — the built-in checks implement the Pod Security Standards at every version
Property theorems only; helper lemmas live in `Psa/Standard.lean`, `Psa/C02.lean`, `Psa/RegistryProofs.lean`. -/
namespace PSA.Props
open PSA

/-- tie obligation: the allow-lists regenerated from /repo are the published ones -/
theorem C02_tables_published : Generated.tables = Std.publishedTables := by decide

/-- tie obligation: every registered revision has a model function; the registration metadata is well formed
    and its newest revision is v1.32 -/
theorem C02_meta_modelled : ∀ c ∈ Generated.metaChecks, ∀ r ∈ c.2.2, (revOf c.1 r.2.1).isSome = true := meta_all_modelled
theorem C02_meta_wellformed : WellFormed shipped := shipped_wf

/-- Baseline, every version (latest and every v1.N, N unbounded), every pod: the evaluator's aggregate verdict
    is the Standard's. -/
theorem C02_baseline (v : Ver) (p : Pod) (hv : v.requestable) :
    (aggregate (evalPodModel Generated.tables false ⟨.baseline, v⟩ p)).allowed = true ↔
      Std.baseline Std.publishedTables (clampV 32 v) p := by
  rw [evalPodModel_allowed, C02_tables_published]
  exact PSA.C02_baseline _ v p hv

/-- Restricted, every version, every pod the API server accepts. -/
theorem C02_restricted (v : Ver) (p : Pod) (hv : v.requestable) (hp : ApiValid p) :
    (aggregate (evalPodModel Generated.tables false ⟨.restricted, v⟩ p)).allowed = true ↔
      Std.restricted Std.publishedTables (clampV 32 v) p := by
  rw [evalPodModel_allowed, C02_tables_published]
  exact PSA.C02_restricted _ ⟨by decide, by decide⟩ v p hv ((apiValid_tables _ rfl p).mp hp)

/-- tie obligation (F4): every registered revision reads only the API fields the model pod carries for that control, so
    "fields the standard does not mention never change a verdict" transfers from the model to the code -/
theorem C02_reads_modelled : Expected.readsWithin Generated.readSets Expected.readSets = true := by decide

/-- tie obligation: the annotation keys and the volume-type names of the code are the model's -/
theorem C02_keys : Generated.seccompPodAnnKey = seccompPodAnnKey ∧ Generated.seccompContainerAnnPrefix = seccompContainerAnnPrefix ∧
    Generated.appArmorAnnKeyPrefix = appArmorAnnKeyPrefix := by decide

/-- the model evaluator is the Standard's own evaluator (`stdEval`, used as the oracle by the correspondence run) -/
theorem C02_model_is_standard (l : Level) (v : Ver) (p : Pod) (hv : v.requestable) :
    evalPodModel Generated.tables false ⟨l, v⟩ p = stdEval l v p := evalPodModel_eq_stdEval l v p hv

/-- non-vacuity: the hypotheses of C02_restricted are met by a concrete pod and version, on both sides of the verdict -/
example : Ver.requestable (.mm 1 25) ∧ Ver.requestable .latest := ⟨Or.inr ⟨25, rfl⟩, Or.inl rfl⟩
example : ApiValid Ex.compliantPod ∧ ApiValid Ex.privPod.pod := by decide
example : (aggregate (evalPodModel Generated.tables false ⟨.restricted, .mm 1 25⟩ Ex.compliantPod)).allowed = true ∧
    (aggregate (evalPodModel Generated.tables false ⟨.restricted, .mm 1 25⟩ Ex.plainPod.pod)).allowed = false ∧
    (aggregate (evalPodModel Generated.tables false ⟨.baseline, .mm 1 25⟩ Ex.plainPod.pod)).allowed = true ∧
    (aggregate (evalPodModel Generated.tables false ⟨.baseline, .mm 1 25⟩ Ex.privPod.pod)).allowed = false := by decide +kernel

#print axioms C02_model_is_standard
#print axioms C02_tables_published
#print axioms C02_meta_modelled
#print axioms C02_meta_wellformed
#print axioms C02_baseline
#print axioms C02_restricted
#print axioms C02_reads_modelled
#print axioms C02_keys
end PSA.Props

import Psa.NamesProofs
import Psa.QuoteMain
import Psa.NamesClean
import Psa.RenderProofs
import Psa.EvalProofs
import Psa.Generated.Tables
/-! # C13 — violation messages list every violated control once and name the offenders -/
namespace PSA.Props
open PSA

/-- **Fixed order**: which revisions run, and in which order, depends on (level, version) only — never on the pod. -/
theorem C13_fixed_order (T : Tables) (relax : Bool) (l : Level) (v : Ver) (p : Pod) (hv : v.requestable) :
    evalPodModel T relax ⟨l, v⟩ p = (spec shipped l (clampV 32 v)).map (fun r => runRev T relax r p) := by
  unfold evalPodModel
  rw [C04_resolves shipped shipped_wf l v hv, shipped_max]
  rfl

/-- **Specific reason**: a built-in control that denies never has an empty reason nor the placeholder. -/
theorem C13_reason_specific (T : Tables) (relax : Bool) (r : RevId) (p : Pod) (h : (runRev T relax r p).allowed = false) :
    (runRev T relax r p).reason ≠ [] ∧ (runRev T relax r p).reason ≠ unknownReason := by
  rw [runRev_reason T relax r p h]; exact reason_specific _ _

/-- **Exactly once**: in any evaluation (every level, version, pod) no two violated controls carry the same reason. -/
theorem C13_once (T : Tables) (relax : Bool) (l : Level) (v : Ver) (p : Pod) (hv : v.requestable) :
    (((evalPodModel T relax ⟨l, v⟩ p).filter (fun r => !r.allowed)).map (·.reason)).Nodup := by
  rw [C13_fixed_order T relax l v p hv]
  have hk := shipped_keys_nodup (clampV 32 v) (clampV_le 32 v) l
  generalize spec shipped l (clampV 32 v) = L at hk
  rw [List.filter_map, List.map_map]
  rw [List.nodup_iff_pairwise_ne, List.pairwise_map] at hk ⊢
  apply (hk.filter _).imp_of_mem
  intro a b ha hb hab heq
  simp only [List.mem_filter, Function.comp_apply, Bool.not_eq_eq_eq_not, Bool.not_true] at ha hb
  simp only [Function.comp_apply] at heq
  rw [runRev_reason T relax a p ha.2, runRev_reason T relax b p hb.2] at heq
  exact hab (reason_key _ _ _ _ heq)

/-- the aggregate's reasons are exactly those failing reasons, in order -/
theorem C13_aggregate_reasons (rs : List CheckResult) (h : ∀ r ∈ rs, r.allowed = false → r.reason ≠ []) :
    (aggregate rs).reasons = (rs.filter (fun r => !r.allowed)).map (·.reason) := by
  simp only [aggregate]
  apply List.map_congr_left
  intro r hr
  have := h r (List.mem_filter.mp hr).1 (by simpa using (List.mem_filter.mp hr).2)
  simp [this]

/-- **Offenders** of a container/volume control built with `mk`: the listed names are exactly the names of the visited
    containers (volumes) for which the control's predicate fails — never a compliant one. -/
theorem C13_mk_fields (pod : Bool) (cs cs2 vols values flags extra : List Str) :
    (mk pod cs cs2 vols values flags extra).containers = cs ∧ (mk pod cs cs2 vols values flags extra).containers2 = cs2 ∧
    (mk pod cs cs2 vols values flags extra).volumes = vols := by
  unfold mk
  split
  · exact ⟨rfl, rfl, rfl⟩
  · next h =>
    simp only [Bool.or_eq_true, Bool.not_eq_eq_eq_not, Bool.not_true, List.isEmpty_eq_false_iff, not_or, Bool.not_eq_true,
      Decidable.not_not] at h
    simp [CheckOut.ok, h]

theorem C13_offenders_are_violators (cs : List Container) (bad : Container → Bool) (n : Str) :
    n ∈ offenders cs bad ↔ ∃ c ∈ cs, bad c = true ∧ c.name = n := by
  simp [offenders, and_assoc]

/-- instances: the offenders of the container controls … -/
theorem C13_privileged_offenders (p : Pod) : (privileged_1_0 p).containers = offenders p.visit cPrivileged :=
  (C13_mk_fields _ _ _ _ _ _ _).1
theorem C13_hostPorts_offenders (p : Pod) : (hostPorts_1_0 p).containers = offenders p.visit cHostPorts :=
  (C13_mk_fields _ _ _ _ _ _ _).1
theorem C13_capsBaseline_offenders (T : Tables) (p : Pod) :
    (capabilitiesBaseline_1_0 T p).containers = offenders p.visit (cCapsBaseline T) := (C13_mk_fields _ _ _ _ _ _ _).1
theorem C13_allowPrivEsc_offenders (p : Pod) : (allowPrivilegeEscalation_1_8 p).containers = offenders p.visit cAllowPrivEsc :=
  (C13_mk_fields _ _ _ _ _ _ _).1
theorem C13_capsRestricted_offenders (T : Tables) (p : Pod) :
    (capabilitiesRestricted_1_22 T p).containers = offenders p.visit (cMissingDropAll T) ∧
    (capabilitiesRestricted_1_22 T p).containers2 = offenders p.visit (cAddsForbidden T) :=
  ⟨(C13_mk_fields _ _ _ _ _ _ _).1, (C13_mk_fields _ _ _ _ _ _ _).2.1⟩
/-- … and of the volume controls -/
theorem C13_hostPath_offenders (p : Pod) : (hostPathVolumes_1_0 p).volumes = (p.volumes.filter vHostPath).map (·.name) :=
  (C13_mk_fields _ _ _ _ _ _ _).2.2
theorem C13_restrictedVolumes_offenders (T : Tables) (p : Pod) :
    (restrictedVolumes_1_0 T p).volumes = (p.volumes.filter (vRestricted T)).map (·.name) := (C13_mk_fields _ _ _ _ _ _ _).2.2

/-- the detail text names exactly those offenders (shape of the rendered detail, two representative controls) -/
theorem C13_privileged_detail (T : Tables) (relax : Bool) (p : Pod) (h : (runRev T relax .privileged0 p).allowed = false) :
    (runRev T relax .privileged0 p).detail =
      ctrs (offenders p.visit cPrivileged) ++ b!" must not set securityContext.privileged=true" := by
  have ho : (run T relax .privileged0 p).allowed = false := by rw [← render_allowed RevId.privileged0.kind]; exact h
  simp only [runRev, render, ho, Bool.false_eq_true, ↓reduceIte, RevId.kind, Kind.detail]
  rw [show run T relax .privileged0 p = privileged_1_0 p from rfl, C13_privileged_offenders]

theorem C13_restrictedVolumes_detail_names (T : Tables) (relax : Bool) (p : Pod)
    (h : (runRev T relax .restrictedVolumes0 p).allowed = false) :
    ∃ tail, (runRev T relax .restrictedVolumes0 p).detail =
      pluralize b!"volume" b!"volumes" ((p.volumes.filter (vRestricted T)).map (·.name)).length ++ b!" " ++
      joinQuote ((p.volumes.filter (vRestricted T)).map (·.name)) ++ tail := by
  have ho : (run T relax .restrictedVolumes0 p).allowed = false := by rw [← render_allowed RevId.restrictedVolumes0.kind]; exact h
  simp only [runRev, render, ho, Bool.false_eq_true, ↓reduceIte, RevId.kind, Kind.detail]
  rw [show run T relax .restrictedVolumes0 p = restrictedVolumes_1_0 T p from rfl, C13_restrictedVolumes_offenders]
  exact ⟨_, by simp only [List.append_assoc]; rfl⟩

/-- **Every detail shape names its offenders by name**: whenever a revision of a container- or volume-related control
    forbids a pod, the detail text it returns contains, between quotes, the name of every container / volume the structured
    result lists (`Kind.named`: the offenders, by C13_mk_fields and the per-control offender lemmas above) — for all eighteen
    message shapes, every pod, every revision, relaxation on or off. -/
theorem C13_detail_names_offenders (T : Tables) (relax : Bool) (r : RevId) (p : Pod)
    (h : (runRev T relax r p).allowed = false) (n : Str) (hn : n ∈ r.kind.named (run T relax r p)) :
    quoted n <:+: (runRev T relax r p).detail := by
  have ho : (run T relax r p).allowed = false := by rw [← render_allowed r.kind]; exact h
  simp only [runRev, render, ho, Bool.false_eq_true, ↓reduceIte]
  exact detail_names r.kind _ n hn

/-- **Nothing else is named**: when the names and values a revision reports are free of the double-quote byte (container and
    volume names of API-valid pods are DNS labels; the values are capability names, profile types, volume types, …), every
    string that stands between quotes in the detail text is the name of a listed offender (`Kind.named`) or one of the values
    the control quotes (`Kind.quotedValues`: the forbidden values found, and the fixed words "ALL", "RuntimeDefault",
    "Localhost") — for all eighteen message shapes, every pod, every revision, relaxation on or off. With
    `C13_detail_names_offenders` the quoted object names of a detail are exactly the offenders. -/
theorem C13_detail_names_only (T : Tables) (relax : Bool) (r : RevId) (p : Pod)
    (h : (runRev T relax r p).allowed = false) (hc : Clean (run T relax r p)) (s : Str)
    (hs : s ∈ quotedSegs (runRev T relax r p).detail) :
    s ∈ r.kind.named (run T relax r p) ∨ s ∈ r.kind.quotedValues (run T relax r p) := by
  have ho : (run T relax r p).allowed = false := by rw [← render_allowed r.kind]; exact h
  simp only [runRev, render, ho, Bool.false_eq_true, ↓reduceIte] at hs
  exact detail_segs r.kind _ hc s hs

/-- **The name half of `Clean` comes from the pod.** Container and volume names that contain no quote byte — DNS labels, which
    is what API validation admits (`dns_noQ`) — give offender lists without one, for all twenty-five revisions, every pod,
    relaxation on or off. What remains a hypothesis of `C13_detail_names_only` is only that the *values* a control quotes
    (capability names, profile types, sysctl names, … taken verbatim from the pod) contain no quote byte. -/
theorem C13_names_clean (T : Tables) (relax : Bool) (r : RevId) (p : Pod) (h : PodNamesClean p) : NamesOK (run T relax r p) :=
  run_namesOK T relax r p h

theorem C13_detail_names_only_of_pod (T : Tables) (relax : Bool) (r : RevId) (p : Pod)
    (h : (runRev T relax r p).allowed = false) (hn : PodNamesClean p)
    (hv : (∀ x ∈ (run T relax r p).values, noQ x) ∧ (∀ x ∈ (run T relax r p).flags, noQ x) ∧ (∀ x ∈ (run T relax r p).extra, noQ x))
    (s : Str) (hs : s ∈ quotedSegs (runRev T relax r p).detail) :
    s ∈ r.kind.named (run T relax r p) ∨ s ∈ r.kind.quotedValues (run T relax r p) :=
  C13_detail_names_only T relax r p h
    ⟨(run_namesOK T relax r p hn).cs, (run_namesOK T relax r p hn).cs2, (run_namesOK T relax r p hn).vols, hv.1, hv.2.1, hv.2.2⟩ s hs

/-- non-vacuity: DNS-label names are clean -/
example : PodNamesClean { containers := [{ name := b!"app-1" }, { name := b!"side.car" }], volumes := [{ name := b!"data" }] } := by
  refine ⟨?_, ?_⟩ <;> (intro x hx; simp [Pod.visit] at hx; rcases hx with rfl | rfl <;> decide)

/-- non-vacuity: the quoted segments of a concrete detail, computed; the compliant container "ok" is not among them -/
example : quotedSegs (runRev Generated.tables false .capsBaseline0
      { containers := [{ name := b!"a", sc := some { caps := some { add := [b!"NET_ADMIN", b!"CHOWN"] } } }, { name := b!"ok" },
                       { name := b!"b", sc := some { caps := some { add := [b!"SYS_TIME"] } } }] }).detail =
    [b!"a", b!"b", b!"NET_ADMIN", b!"SYS_TIME"] := by decide

/-- non-vacuity: a pod with two privileged containers; both names are in the text -/
example : quoted b!"a" <:+: (runRev Generated.tables false .privileged0
      { containers := [{ name := b!"a", sc := some { privileged := some true } }, { name := b!"ok" },
                       { name := b!"b", sc := some { privileged := some true } }] }).detail ∧
    (runRev Generated.tables false .privileged0
      { containers := [{ name := b!"a", sc := some { privileged := some true } }, { name := b!"ok" },
                       { name := b!"b", sc := some { privileged := some true } }] }).detail =
      b!"containers \"a\", \"b\" must not set securityContext.privileged=true" := by
  refine ⟨C13_detail_names_offenders _ _ _ _ (by decide) _ (by decide), by decide⟩

/-- tie obligation: the volume-type names (nested switch of restrictedVolumes_1_0, in source order) are the model's -/
theorem C13_volume_names : Generated.volBadKinds = badVolKinds ∧ Generated.volBadDefault = b!"unknown" := by decide

#print axioms C13_fixed_order
#print axioms C13_reason_specific
#print axioms C13_once
#print axioms C13_aggregate_reasons
#print axioms C13_mk_fields
#print axioms C13_offenders_are_violators
#print axioms C13_capsRestricted_offenders
#print axioms C13_restrictedVolumes_offenders
#print axioms C13_privileged_detail
#print axioms C13_restrictedVolumes_detail_names
#print axioms C13_detail_names_offenders
#print axioms C13_detail_names_only
#print axioms C13_names_clean
#print axioms C13_detail_names_only_of_pod
#print axioms C13_volume_names
end PSA.Props

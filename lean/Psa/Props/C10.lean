import Psa.AdmitProps
import Psa.AdmitCases
import Psa.Generated.Facts
/-! # C10 — only security-relevant pod updates and subresources are re-evaluated -/
namespace PSA.Props
open PSA

/-- the significance test, characterised: the container or init-container count differs, an image differs position-wise,
    or some new ephemeral container has no same-named old one or a different image than the first same-named old one -/
theorem C10_significant_iff (new old : Pod) :
    isSignificant new old = true ↔
      new.containers.length ≠ old.containers.length ∨ new.initContainers.length ≠ old.initContainers.length ∨
      new.containers.map (·.image) ≠ old.containers.map (·.image) ∨
      new.initContainers.map (·.image) ≠ old.initContainers.map (·.image) ∨
      ∃ c ∈ new.ephemeralContainers, ∀ oc, old.ephemeralContainers.find? (fun oc => oc.name = c.name) = some oc → c.image ≠ oc.image := by
  simp only [isSignificant, images, ephemeralChanged, Bool.or_eq_true, bne_iff_ne, ne_eq, List.any_eq_true, or_assoc]
  constructor
  · rintro (h | h | h | h | ⟨c, hc, h⟩)
    · exact Or.inl h
    · exact Or.inr (Or.inl h)
    · exact Or.inr (Or.inr (Or.inl h))
    · exact Or.inr (Or.inr (Or.inr (Or.inl h)))
    · refine Or.inr (Or.inr (Or.inr (Or.inr ⟨c, hc, ?_⟩)))
      intro oc hoc
      rw [hoc] at h
      simpa using h
  · rintro (h | h | h | h | ⟨c, hc, h⟩)
    · exact Or.inl h
    · exact Or.inr (Or.inl h)
    · exact Or.inr (Or.inr (Or.inl h))
    · exact Or.inr (Or.inr (Or.inr (Or.inl h)))
    · refine Or.inr (Or.inr (Or.inr (Or.inr ⟨c, hc, ?_⟩)))
      cases hf : old.ephemeralContainers.find? (fun oc => oc.name = c.name) with
      | none => rfl
      | some oc => simpa using h oc hf

/-- **Insignificant updates are allowed** whatever the policy, the evaluator and the labels, and are not evaluated. -/
theorem C10_insignificant (pv) (cfg : Config) (w : World Ev) (r : Request) (p q : PodObj) (labels : Labels)
    (hobj : r.obj = .ok (.pod p)) (hold : r.old = .ok (.pod q)) (hop : r.op = .update)
    (hsig : isSignificant p.pod q.pod = false) (hns : w.getNs = .ok labels) :
    (validatePod pv cfg w r).1.allowed = true ∧ (validatePod pv cfg w r).2.evalCalls = [] :=
  PSA.C10_insignificant pv cfg w r p q hobj hold hop hsig labels hns

/-- **Significant updates are evaluated like a create** of the new pod. -/
theorem C10_significant (pv) (cfg : Config) (w : World Ev) (r : Request) (p q : PodObj)
    (hobj : r.obj = .ok (.pod p)) (hold : r.old = .ok (.pod q)) (hop : r.op = .update)
    (hsig : isSignificant p.pod q.pod = true) :
    validatePod pv cfg w r = validatePod pv cfg w { r with op := .create } := by
  simp only [validatePod, hobj, hold, hop, hsig, ↓reduceIte, reduceCtorEq]

/-- **Every subresource outside the eight ignored names is handled exactly like the main resource.** -/
theorem C10_subresource (pv) (cfg : Config) (w : World Ev) (r : Request)
    (h : ignoredSubresources.contains r.sub = false) :
    validatePod pv cfg w r = validatePod pv cfg w { r with sub := [] } := by
  have h' : ignoredSubresources.contains ([] : Str) = false := by decide
  simp only [validatePod, h, h', Bool.false_eq_true, ↓reduceIte]

/-- the names are matched byte for byte: a spelling that differs in letter case, is padded, or is empty names another
    subresource (or none), which `C10_subresource` says is handled like the main resource -/
example : [b!"Status", b!"STATUS", b!"portForward", b!"Exec", b!"status ", b!"statuses", b!"ephemeralcontainers", b!"resize"].all
    (fun s => !ignoredSubresources.contains s) = true := by decide

/-- the ignored set is exactly the eight names of the property -/
theorem C10_ignored_names : ignoredSubresources =
    [b!"exec", b!"attach", b!"binding", b!"eviction", b!"log", b!"portforward", b!"proxy", b!"status"] := rfl

example : ignoredSubresources.contains b!"ephemeralcontainers" = false ∧ ignoredSubresources.contains b!"resize" = false := by decide

/-- tie obligation (F7): the ignored set of the code is the model's — as a set: the harness reads it off the running
    controller (every string literal of package admission and every pod subresource Kubernetes has, tried as the subresource
    of a request that would otherwise be denied), so the order and representation in the source do not matter -/
theorem C10_ignored_tied :
    (Generated.ignoredPodSubresources.all (ignoredSubresources.contains ·) &&
     ignoredSubresources.all (Generated.ignoredPodSubresources.contains ·)) = true := by decide

#print axioms C10_significant_iff
#print axioms C10_insignificant
#print axioms C10_significant
#print axioms C10_subresource
#print axioms C10_ignored_names
#print axioms C10_ignored_tied
end PSA.Props

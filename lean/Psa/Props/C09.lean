import Psa.AdmitProps
import Psa.Extract
import Psa.AdmitCases
import Psa.Props.C08
import Psa.ExpectedFacts
import Psa.Examples
/-! # C09 — pod controllers are never denied and their template is judged like the pod
All eight kinds are `Obj.controller template` after ExtractPodSpec (the resource table and type switch are tied by
fact F7 and by the correspondence, which wraps one pod in every kind). -/
namespace PSA.Props
open PSA

/-- never denied: every fault, every policy, every evaluator -/
theorem C09_allowed (pv) (cfg : Config) (w : World Ev) (r : Request) :
    (validateController pv cfg w r).1.allowed = true ∧ (validateController pv cfg w r).1.code = 0 := by
  refine ⟨PSA.C09_allowed pv cfg w r, ?_⟩
  generalize hout : validateController pv cfg w r = out
  have ho := validateController_outcome pv cfg w r
  rw [hout] at ho
  cases ho <;> simp [allowPlain, allowWithError, evaluateObj, evaluatePod]
  split <;> simp

/-- with enforce = false: allowed, never a 403, no enforce-policy annotation, no enforce evaluation metric -/
theorem evaluateObj_unenforced (ev : Ev) (cfg : Config) (pol : Policy) (e : Bool) (p : PodObj) :
    (evaluateObj ev cfg pol e p false).1.annEnforce = none ∧ (evaluateObj ev cfg pol e p false).1.details = none := by
  simp only [evaluateObj, evaluatePod]
  split <;> simp

/-- **Same findings as the bare pod** under the two advisory policies: the warnings and the audit annotation of the
    controller request are those of the pod request in a namespace with the same audit / warn and a privileged enforce
    policy (for any evaluator that runs nothing at privileged). -/
theorem C09_same_findings (ev : Ev) (cfg : Config) (pol : Policy) (e : Bool) (p : PodObj) (v : Ver)
    (hpriv : ∀ v x, ev ⟨.privileged, v⟩ x = [])
    (hrc : exemptRC p.runtimeClass cfg.exRuntimeClasses = false) :
    (evaluateObj ev cfg pol e p false).1.warnings = (evaluateObj ev cfg { pol with enforce := ⟨.privileged, v⟩ } e p true).1.warnings ∧
    (evaluateObj ev cfg pol e p false).1.annAudit = (evaluateObj ev cfg { pol with enforce := ⟨.privileged, v⟩ } e p true).1.annAudit := by
  have hallow : (evaluateObj ev cfg { pol with enforce := ⟨.privileged, v⟩ } e p true).1.allowed = true := by
    rw [evaluateObj_allowed cfg ev _ _ p hrc]; simp [hpriv, aggregate]
  have hallow' : (evaluateObj ev cfg pol e p false).1.allowed = true := evaluateObj_controller_allowed cfg ev pol e p
  refine ⟨?_, ?_⟩
  · rw [C08_warn ev cfg pol e p false hrc, C08_warn ev cfg _ e p true hrc, hallow, hallow']
  · rw [C08_audit ev cfg pol e p false hrc, C08_audit ev cfg _ e p true hrc]

/-- **Quiet cases**: no template, any subresource, or warn and audit both privileged with clean labels ⇒ the plain allowed
    response (no warning, no annotation, no metric, no evaluation). -/
theorem C09_quiet_subresource (pv) (cfg : Config) (w : World Ev) (r : Request) (h : r.sub ≠ []) :
    validateController pv cfg w r = (allowPlain, {}) := by
  simp [validateController, h]

theorem C09_quiet_no_template (pv) (cfg : Config) (w : World Ev) (r : Request) (labels : Labels)
    (h0 : r.sub = []) (h1 : exempt r.ns cfg.exNamespaces = false) (h2 : exempt r.user cfg.exUsers = false)
    (h3 : w.getNs = .ok labels) (h : r.obj = .ok (.controller none)) :
    validateController pv cfg w r = (allowPlain, {}) := by
  simp only [validateController, h0, h1, h2, h3, h, ne_eq, not_true_eq_false, Bool.false_eq_true, ↓reduceIte]
  split <;> rfl

theorem C09_quiet_privileged (pv) (cfg : Config) (w : World Ev) (r : Request) (labels : Labels)
    (h0 : r.sub = []) (h1 : exempt r.ns cfg.exNamespaces = false) (h2 : exempt r.user cfg.exUsers = false)
    (h3 : w.getNs = .ok labels)
    (h : (policyToEvaluate pv labels cfg.defaults).2 = [] ∧ (policyToEvaluate pv labels cfg.defaults).1.warn.level = .privileged ∧
         (policyToEvaluate pv labels cfg.defaults).1.audit.level = .privileged) :
    validateController pv cfg w r = (allowPlain, {}) := by
  simp only [validateController, h0, h1, h2, h3, ne_eq, not_true_eq_false, Bool.false_eq_true, ↓reduceIte, h.1, h.2.1, h.2.2,
    List.isEmpty_nil, beq_self_eq_true, Bool.and_self]

open PSA.Extract in
/-- **Every kind is judged by its template**: whatever the workload kind, an object that states template `t` reaches the admission
    controller as that template, so `validateController` decides it as it decides any other kind holding `t` (and
    `C09_same_findings` compares that with the bare pod). -/
theorem C09_any_kind (pv) (cfg : Config) (w : World Ev) (r : Request) (k k' : WKind) (t : PodObj) :
    toObj ⟨k, some t⟩ = .controller (some t) ∧
    validateController pv cfg w { r with obj := .ok (toObj ⟨k, some t⟩) } = validateController pv cfg w { r with obj := .ok (toObj ⟨k', some t⟩) } := by
  have h : ∀ k, toObj ⟨k, some t⟩ = .controller (some t) := fun k => by simp [toObj, extract_some ⟨k, some t⟩ t rfl]
  exact ⟨h k, by rw [h k, h k']⟩

open PSA.Extract in
/-- "objects without a template": only a ReplicationController can be one (its template is a pointer); every other kind always
    has a template, if only the empty one -/
theorem C09_no_template_only_rc (w : Workload) :
    toObj w = .controller none ↔ w.kind = .replicationController ∧ w.template = none := by
  simp only [toObj, Obj.controller.injEq]; exact extract_none_iff w

/-- the part of a resource name after the API group prefix the fact extractor writes ("appsv1/deployments") -/
def afterSlash (s : Str) : Str := match s.dropWhile (fun c => c != 47) with | [] => s | _ :: rest => rest

open PSA.Extract in
/-- tie obligation (F7): the model's eight kinds are exactly the controller resources of the running code (and `pods`) -/
theorem C09_kinds_tied :
    (Generated.podSpecResources.all (fun r => afterSlash r == b!"pods" || (WKind.ofResource (afterSlash r)).isSome) &&
     allKinds.all (fun k => Generated.podSpecResources.any (fun r => afterSlash r == k.resource))) = true := by decide

/-- tie obligation (F7): the pod-bearing resources are pods and the eight controller kinds -/
theorem C09_resources :
    (Generated.podSpecResources.all (Expected.podSpecResources.contains ·) &&
     Expected.podSpecResources.all (Generated.podSpecResources.contains ·)) = true := by decide

/-- non-vacuity: a controller whose template is a privileged pod, in a namespace with audit=baseline and warn=restricted: allowed,
    with a warning and an audit annotation (the premises of C09_same_findings hold for it: `shipped` runs nothing at privileged) -/
example : exemptRC Ex.privPod.runtimeClass Ex.cfg.exRuntimeClasses = false := by decide
example : (validateController parseVersion Ex.cfg (Ex.world Ex.restrictedLabels) (Ex.ctlCreate Ex.privPod)).1.allowed = true ∧
    (validateController parseVersion Ex.cfg (Ex.world Ex.restrictedLabels) (Ex.ctlCreate Ex.privPod)).1.warnings ≠ [] ∧
    (validateController parseVersion Ex.cfg (Ex.world Ex.restrictedLabels) (Ex.ctlCreate Ex.privPod)).1.annAudit.isSome = true := by decide +kernel

#print axioms C09_allowed
#print axioms C09_same_findings
#print axioms C09_quiet_subresource
#print axioms C09_quiet_no_template
#print axioms C09_quiet_privileged
#print axioms C09_resources
#print axioms C09_any_kind
#print axioms C09_no_template_only_rc
#print axioms C09_kinds_tied
end PSA.Props

import Psa.Eval
import Psa.Generated.Tables
import Psa.ExpectedFacts
/-! # C19 — the user-namespace relaxation is opt-in and limited to three controls
The switch (`relaxPolicyForUserNamespacePods`) is the `relax` parameter of every model revision. -/
namespace PSA.Props
open PSA

/-- Switch off: `hostUsers` has no effect on any revision's result (structured result and message). -/
theorem C19_off (T : Tables) (r : RevId) (p : Pod) (h : Option Bool) :
    runRev T false r { p with hostUsers := h } = runRev T false r p := by
  cases r <;> rfl

/-- Switch on, `hostUsers` unset or true: every revision behaves exactly as with the switch off. -/
theorem C19_on_frame (T : Tables) (r : RevId) (p : Pod) (h : p.hostUsers ≠ some false) :
    runRev T true r p = runRev T false r p := by
  have hr : relaxed true p = false := by
    simp only [relaxed, Bool.true_and, beq_eq_false_iff_ne, ne_eq]; exact h
  cases r <;> first
    | rfl
    | (simp only [runRev, run, procMount_1_0, runAsNonRoot_1_0, runAsUser_1_23]; rw [hr]; rfl)

/-- Switch on, `hostUsers = false`: the three controls are waived … -/
theorem C19_on_three_waived (T : Tables) (p : Pod) (h : p.hostUsers = some false) :
    (runRev T true .procMount0 p).allowed = true ∧ (runRev T true .runAsNonRoot0 p).allowed = true ∧
    (runRev T true .runAsUser23 p).allowed = true := by
  have hr : relaxed true p = true := by simp [relaxed, h]
  simp [runRev, run, render_allowed, procMount_1_0, runAsNonRoot_1_0, runAsUser_1_23, hr, CheckOut.ok]

/-- … and every other revision is untouched, whatever `hostUsers` is. -/
theorem C19_on_others (T : Tables) (r : RevId) (p : Pod)
    (hr : r ≠ .procMount0 ∧ r ≠ .runAsNonRoot0 ∧ r ≠ .runAsUser23) :
    runRev T true r p = runRev T false r p := by
  obtain ⟨h1, h2, h3⟩ := hr
  cases r <;> first | rfl | contradiction

/-- Lifted to whole evaluations (every level, every version): without opt-in, `hostUsers` is irrelevant;
    with opt-in, pods that do not set `hostUsers=false` are evaluated exactly as without. -/
theorem C19_eval_off (lv : LevelVersion) (p : Pod) (h : Option Bool) :
    evalPodModel Generated.tables false lv { p with hostUsers := h } = evalPodModel Generated.tables false lv p := by
  simp only [evalPodModel, C19_off]

theorem C19_eval_on_frame (lv : LevelVersion) (p : Pod) (h : p.hostUsers ≠ some false) :
    evalPodModel Generated.tables true lv p = evalPodModel Generated.tables false lv p := by
  simp only [evalPodModel, C19_on_frame _ _ p h]

/-- **Opt-in means the administrator's last word**: whatever was set before, after `RelaxPolicyForUserNamespacePods(b)` the
    switch is `b` — the setting is not a count of requests, and earlier calls leave nothing behind. -/
theorem C19_switch_last_call (init : Bool) (calls : List Bool) (b : Bool) : switchAfter init (calls ++ [b]) = b :=
  switchAfter_append init calls b

/-- never opted in: the switch is off (the process starts with it off) -/
theorem C19_switch_initial : switchAfter false [] = false := rfl

/-- so, once the administrator's last call was `false`, `hostUsers` has no effect on any evaluation, whatever the history -/
theorem C19_off_after_history (calls : List Bool) (lv : LevelVersion) (p : Pod) (h : Option Bool) :
    evalPodModel Generated.tables (switchAfter false (calls ++ [false])) lv { p with hostUsers := h } =
    evalPodModel Generated.tables (switchAfter false (calls ++ [false])) lv p := by
  rw [switchAfter_append]; exact C19_eval_off lv p h

/-- non-vacuity: set twice, then unset: off -/
example : switchAfter false [true, true, false] = false := by decide

/-- non-vacuity: a pod on which the relaxation changes a verdict -/
example : (runRev Generated.tables false .runAsUser23 { hostUsers := some false, sc := some { runAsUser := some 0 } }).allowed = false ∧
          (runRev Generated.tables true .runAsUser23 { hostUsers := some false, sc := some { runAsUser := some 0 } }).allowed = true := by decide

/-- tie obligation (F4): exactly the three waived controls read `hostUsers` (through the gated helper) -/
theorem C19_only_three_read_hostUsers :
    Expected.readsHostUsers Generated.readSets = [b!"procMount", b!"runAsNonRoot", b!"runAsUser"] := by decide

/-- tie obligation (F9): in package `policy` the only write to long-lived state outside init is the setter storing its
    argument into the atomic.Bool (no counter, no compare-and-swap, no second variable) -/
theorem C19_switch_is_plain_store :
    Generated.stateWrites.filter (fun w => w.1 = b!"policy") =
      [(b!"policy", b!"policy.RelaxPolicyForUserNamespacePods", b!"call atomic.Bool).Store on shared:relaxPolicyForUserNamespacePods")] := by
  decide

#print axioms C19_off
#print axioms C19_switch_last_call
#print axioms C19_switch_initial
#print axioms C19_off_after_history
#print axioms C19_switch_is_plain_store
#print axioms C19_on_frame
#print axioms C19_on_three_waived
#print axioms C19_on_others
#print axioms C19_eval_off
#print axioms C19_eval_on_frame
#print axioms C19_only_three_read_hostUsers
end PSA.Props

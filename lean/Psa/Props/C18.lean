import Psa.MetricsCache
import Psa.AdmitProps
import Psa.AdmitCases
import Psa.Metrics
import Psa.Examples
/-! # C18 — metrics count every decision exactly once, with bounded label values
`Eff.metrics` is the list of Recorder calls of one request. -/
namespace PSA.Props
open PSA

def isEnforceEval : Metric → Bool | .eval _ _ m => m == 0 | .exemption => false | .error _ => false
def isAuditDeny : Metric → Bool | .eval a _ m => !a && m == 1 | .exemption => false | .error _ => false
def isWarnDeny : Metric → Bool | .eval a _ m => !a && m == 2 | .exemption => false | .error _ => false
def isExemption : Metric → Bool | .eval _ _ _ => false | .exemption => true | .error _ => false
def isError : Metric → Bool | .eval _ _ _ => false | .exemption => false | .error _ => true
@[simp] theorem isEnforceEval_eval (a lv m) : isEnforceEval (.eval a lv m) = (m == 0) := rfl
@[simp] theorem isEnforceEval_ex : isEnforceEval .exemption = false := rfl
@[simp] theorem isEnforceEval_err (f) : isEnforceEval (.error f) = false := rfl
@[simp] theorem isAuditDeny_eval (a lv m) : isAuditDeny (.eval a lv m) = (!a && m == 1) := rfl
@[simp] theorem isAuditDeny_ex : isAuditDeny .exemption = false := rfl
@[simp] theorem isAuditDeny_err (f) : isAuditDeny (.error f) = false := rfl
@[simp] theorem isWarnDeny_eval (a lv m) : isWarnDeny (.eval a lv m) = (!a && m == 2) := rfl
@[simp] theorem isWarnDeny_ex : isWarnDeny .exemption = false := rfl
@[simp] theorem isWarnDeny_err (f) : isWarnDeny (.error f) = false := rfl
@[simp] theorem isExemption_eval (a lv m) : isExemption (.eval a lv m) = false := rfl
@[simp] theorem isExemption_ex : isExemption .exemption = true := rfl
@[simp] theorem isExemption_err (f) : isExemption (.error f) = false := rfl
@[simp] theorem isError_eval (a lv m) : isError (.eval a lv m) = false := rfl
@[simp] theorem isError_ex : isError .exemption = false := rfl
@[simp] theorem isError_err (f) : isError (.error f) = true := rfl
def cnt (f : Metric → Bool) (ms : List Metric) : Nat := (ms.filter f).length
def b2n (b : Bool) : Nat := if b then 1 else 0

/-- what one request must have recorded, given what its response shows -/
structure ExactlyOnce (resp : Resp) (ms : List Metric) : Prop where
  enforce : cnt isEnforceEval ms = b2n resp.annEnforce.isSome
  decision : ∀ a lv, Metric.eval a lv 0 ∈ ms → a = resp.allowed
  exemption : cnt isExemption ms = b2n resp.annExempt.isSome
  error : cnt isError ms = b2n resp.annError
  audit : cnt isAuditDeny ms = b2n resp.annAudit.isSome
  warn : cnt isWarnDeny ms = b2n (!resp.warnings.isEmpty)
  nothingElse : ms.length = cnt isEnforceEval ms + cnt isExemption ms + cnt isError ms + cnt isAuditDeny ms + cnt isWarnDeny ms

theorem evaluateObj_exactlyOnce (ev : Ev) (cfg : Config) (pol : Policy) (e : Bool) (p : PodObj) (enf : Bool) :
    ExactlyOnce (evaluateObj ev cfg pol e p enf).1 (evaluateObj ev cfg pol e p enf).2.metrics := by
  by_cases hrc : exemptRC p.runtimeClass cfg.exRuntimeClasses = true
  · have := evaluateObj_rc_bypass' cfg ev pol e p enf hrc
    rw [this]
    constructor <;> simp [cnt, b2n, List.filter_cons]
  · have hrc' : exemptRC p.runtimeClass cfg.exRuntimeClasses = false := by simpa using hrc
    have hm := evaluateObj_metrics cfg ev pol e p enf hrc'
    have hann : (evaluateObj ev cfg pol e p enf).1.annEnforce.isSome = enf ∧ (evaluateObj ev cfg pol e p enf).1.annExempt = none ∧
        (evaluateObj ev cfg pol e p enf).1.annError = e := by
      simp only [evaluateObj, evaluatePod, hrc', Bool.false_eq_true, ↓reduceIte]
      cases enf <;> simp
    generalize (evaluateObj ev cfg pol e p enf).2.metrics = ms at hm
    generalize (evaluateObj ev cfg pol e p enf).1 = resp at hm hann
    obtain ⟨h1, h2, h3⟩ := hann
    subst hm
    cases e <;> cases enf <;> cases ha : resp.annAudit.isSome <;> cases hw : resp.warnings.isEmpty <;>
      constructor <;> simp_all [cnt, b2n, List.filter_cons]

/-- **Pods**: every pod request records exactly what its response shows — one enforce evaluation (with the response's
    decision) iff the enforce-policy annotation is present, one exemption iff exempted, one error iff flagged, an audit
    (warn) denial iff the audit annotation (a warning) is present, and nothing else; in particular nothing for ignored ones. -/
theorem C18_pod (pv) (cfg : Config) (w : World Ev) (r : Request) :
    ExactlyOnce (validatePod pv cfg w r).1 (validatePod pv cfg w r).2.metrics := by
  generalize hout : validatePod pv cfg w r = out
  have ho := validatePod_outcome pv cfg w r
  rw [hout] at ho
  cases ho with
  | evaluated => exact evaluateObj_exactlyOnce _ _ _ _ _ _
  | _ => constructor <;> simp [cnt, b2n, List.filter_cons, allowPlain, errResp]

/-- **Controllers** likewise (never an enforce evaluation). -/
theorem C18_controller (pv) (cfg : Config) (w : World Ev) (r : Request) :
    ExactlyOnce (validateController pv cfg w r).1 (validateController pv cfg w r).2.metrics := by
  generalize hout : validateController pv cfg w r = out
  have ho := validateController_outcome pv cfg w r
  rw [hout] at ho
  cases ho with
  | evaluated => exact evaluateObj_exactlyOnce _ _ _ _ _ _
  | _ => constructor <;> simp [cnt, b2n, List.filter_cons, allowPlain, allowWithError]

/-- **Namespaces** record nothing. -/
theorem C18_namespace (pv) (cfg : Config) (lim : Limits) (w : World Ev) (r : Request) :
    (validateNamespace pv cfg lim w r).2.metrics = [] := by
  unfold validateNamespace
  repeat' split
  all_goals rfl

/-- **Bounded label**: whatever level:version a namespace chose, the policy_version label is `latest`, `future`, or the
    string of a version not newer than the server's. -/
theorem C18_label_bounded (server : Ver) (lv : LevelVersion) :
    versionLabel server lv = b!"latest" ∨ versionLabel server lv = b!"future" ∨
    (versionLabel server lv = lv.version.str ∧ server.older lv.version = false) := by
  unfold versionLabel
  split
  · exact Or.inl rfl
  · split
    · next h => exact Or.inr (Or.inr ⟨rfl, by simpa using h⟩)
    · exact Or.inr (Or.inl rfl)

/-- for a server at v1.M that means at most M+3 distinct values -/
theorem C18_label_finite (M : Nat) (lv : LevelVersion) (hv : lv.version = .latest ∨ ∃ n, lv.version = .mm 1 n) :
    versionLabel (.mm 1 M) lv ∈ b!"latest" :: b!"future" :: (List.range (M + 1)).map (fun n => (Ver.mm 1 n).str) := by
  rcases C18_label_bounded (.mm 1 M) lv with h | h | ⟨h, hold⟩
  · simp [h]
  · simp [h]
  · rcases hv with hl | ⟨n, hn⟩
    · rw [h, hl]; simp [Ver.str]
    · rw [h, hn]
      rw [hn] at hold
      simp only [Ver.older, ne_eq, not_true_eq_false, ↓reduceIte, decide_eq_false_iff_not, Nat.not_lt] at hold
      refine List.mem_cons_of_mem _ (List.mem_cons_of_mem _ (List.mem_map.mpr ⟨n, ?_, rfl⟩))
      simp; omega

/-- **Exact counts under any interleaving**: each series' total is its number of recordings, so totals are invariant under
    permutation of the recordings; and after a reset every series is zero. -/
theorem C18_counts (c : Counters) (events : List (List Str)) (k : List Str) :
    (recordAll c events).get k = c.get k + (events.filter (· = k)).length := recordAll_get c events k

theorem C18_counts_perm (c : Counters) (e₁ e₂ : List (List Str)) (h : e₁.Perm e₂) (k : List Str) :
    (recordAll c e₁).get k = (recordAll c e₂).get k := by
  rw [recordAll_get, recordAll_get, (h.filter _).length_eq]

theorem C18_reset (c : Counters) (k : List Str) : (c.reset).get k = 0 := rfl

/-- the label tuples the two cached counter vectors pre-populate (metrics.go `populateCache`) -/
def evalToCache : List (List Str) :=
  [[b!"allow", b!"privileged", b!"latest", b!"enforce", b!"create", b!"pod", b!""],
   [b!"allow", b!"privileged", b!"latest", b!"enforce", b!"update", b!"pod", b!""]]
def exemptToCache : List (List Str) :=
  [[b!"create", b!"pod", b!""], [b!"update", b!"pod", b!""], [b!"create", b!"controller", b!""], [b!"update", b!"controller", b!""]]

/-- **The handle cache is transparent**: the counter vector behind a cache of pre-created handles (`CachedInc`, `Reset` with
    `populateCache`) shows, after every history of recordings and resets and for every label tuple — cached or not — exactly
    what a plain counter map emptied by each reset shows. Whatever tuples are cached. -/
theorem C18_cache_refines (toCache : List (List Str)) (ops : List MetricsCache.Op) (k : List Str) :
    MetricsCache.count (MetricsCache.run toCache (MetricsCache.init toCache) ops) k = (MetricsCache.specRun [] ops).get k :=
  MetricsCache.run_init toCache ops k

/-- so after a reset a series restarts from zero and then counts every later recording exactly once -/
theorem C18_cache_after_reset (toCache : List (List Str)) (before after : List (List Str)) (k : List Str) :
    MetricsCache.count (MetricsCache.run toCache (MetricsCache.init toCache)
      (before.map .inc ++ [.reset] ++ after.map .inc)) k = (after.filter (· = k)).length := by
  rw [C18_cache_refines]
  simp only [MetricsCache.specRun, List.foldl_append, List.foldl_cons, List.foldl_nil, MetricsCache.specStep]
  have h : ∀ (c : Counters) (l : List (List Str)), List.foldl MetricsCache.specStep c (l.map .inc) = recordAll c l := by
    intro c l
    induction l generalizing c with
    | nil => rfl
    | cons x xs ih => simp only [List.map_cons, List.foldl_cons, MetricsCache.specStep, recordAll]; exact ih _
  rw [h, h, recordAll_get]
  simp [Counters.reset, Counters.get]

/-- a cache that survived a reset would lose recordings (the shape of seeded change C18-b): record, reset, record shows 0 -/
theorem C18_stale_cache_witness :
    let k : List Str := [b!"create", b!"pod", b!""]
    MetricsCache.count (MetricsCache.inc (MetricsCache.resetKeepingCache (MetricsCache.inc (MetricsCache.init [k]) k)) k) k = 0 ∧
    (MetricsCache.specRun [] [.inc k, .reset, .inc k]).get k = 1 := MetricsCache.keepingCache_loses

/-- non-vacuity: the denial of a privileged pod under enforce=restricted records exactly one enforce evaluation (deny), one
    audit denial and no warning denial (denied requests carry no warning); the exempt-runtime-class pod records one exemption -/
example : (validatePod parseVersion Ex.cfg (Ex.world Ex.restrictedLabels) (Ex.podCreate Ex.privPod)).2.metrics =
    [.eval false ⟨.restricted, .mm 1 25⟩ 0, .eval false ⟨.baseline, .latest⟩ 1] ∧
    (validatePod parseVersion Ex.cfg (Ex.world Ex.restrictedLabels) (Ex.podCreate Ex.kataPod)).2.metrics = [.exemption] := by decide +kernel
example : versionLabel (.mm 1 30) ⟨.restricted, .mm 1 25⟩ = b!"v1.25" ∧ versionLabel (.mm 1 30) ⟨.restricted, .mm 1 99⟩ = b!"future" ∧
    versionLabel (.mm 1 30) ⟨.privileged, .mm 1 99⟩ = b!"latest" := by decide +kernel

#print axioms C18_pod
#print axioms C18_controller
#print axioms C18_namespace
#print axioms C18_label_bounded
#print axioms C18_label_finite
#print axioms C18_counts
#print axioms C18_counts_perm
#print axioms C18_reset
#print axioms C18_cache_refines
#print axioms C18_cache_after_reset
#print axioms C18_stale_cache_witness
end PSA.Props

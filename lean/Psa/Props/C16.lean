import Psa.Webhook
import Psa.ReviewProofs
import Psa.ExpectedFacts
/-! # C16 — the webhook answers each review with its own UID and rejects malformed ones
`Psa/Webhook.lean`: an interleaving machine for HandleValidate (each in-flight request takes atomic steps: obtain the pointer
returned by Validate — the process-wide shared response on the common allow paths, or a fresh one — set the UID, encode) under
an arbitrary schedule, in two variants: `writesThroughReturned` (the handler as it was) and `copies` (the handler after the
fix). Which variant the code is, is fact F6 (origin of the pointer through which `UID` is stored). -/
namespace PSA.Props
open PSA PSA.Webhook

/-- **Own UID, every schedule**: in the repaired handler, whatever is written for a request carries that request's uid, for
    every number of requests in flight and every interleaving. -/
theorem C16_uid (s : St) (sched : List Nat) (h0 : ∀ t ∈ s.ths, Good t) :
    ∀ t ∈ (run .copies s sched).ths, ∀ u, t.out = some u → u = t.uid := Webhook.C16_uid s sched h0

/-- fresh requests satisfy the invariant, so the theorem applies to every start state -/
theorem C16_initial_good (uids : List (Nat × Bool)) :
    ∀ t ∈ uids.map (fun x => ({ uid := x.1, sharedPath := x.2 } : Th)), Good t := by
  intro t ht
  obtain ⟨x, _, rfl⟩ := List.mem_map.mp ht
  exact ⟨by intro h; simp at h, by intro u h; simp at h, by intro _; rfl⟩

/-- the handler as it was: two overlapping requests on the shared path, one is answered with the other's uid
    (kept as documentation of the defect that was found and fixed) -/
theorem C16_buggy_witness :
    ∃ sched, ∃ t ∈ (run .writesThroughReturned ⟨0, [{ uid := 1, sharedPath := true }, { uid := 2, sharedPath := true }]⟩ sched).ths,
      t.out = some 2 ∧ t.uid = 1 := Webhook.C16_buggy_witness

/-- tie obligation (F6): in the webhook, every store to a field of an AdmissionResponse goes through a fresh object —
    i.e. the code is the `copies` variant -/
theorem C16_variant_is_copies :
    ∀ s ∈ Generated.responseStores, s.1 = b!"cmd/webhook/server" → Expected.freshOrigins.contains s.2.2.2 = true := by decide

/-- tie obligation (F9): the webhook server package writes no state that outlives a request — no store through a method
    receiver, no package-level map / pool / cache, no sync or atomic mutator on such state — so nothing one review leaves
    behind can reach another review's answer -/
theorem C16_handler_keeps_no_state :
    Generated.stateWrites.filter (fun w => w.1 = b!"cmd/webhook/server") = [] := by decide

/-- **Malformed requests** are answered with an HTTP error status and never reach the admission library: empty body,
    3 MiB or more, a content type other than application/json, undecodable, not a v1 AdmissionReview, no request. -/
theorem C16_malformed (maxSize size : Nat) (empty : Bool) (ct : Str) (decodes v1review hasRequest : Bool)
    (h : empty = true ∨ size ≥ maxSize ∨ ct ≠ b!"application/json" ∨ decodes = false ∨ v1review = false ∨ hasRequest = false) :
    400 ≤ classify maxSize empty size ct decodes v1review hasRequest := by
  unfold classify
  repeat' split
  all_goals first | omega | (simp_all)

/-- and a well-formed one is let through -/
theorem C16_wellformed (maxSize size : Nat) (h : size < maxSize) :
    classify maxSize false size b!"application/json" true true true = 200 := by
  simp [classify]; omega

/-! ## Review documents (Psa/Review.lean): every JSON-object body, as a list of top-level members -/
open PSA.Review in
/-- **A body is answered 200 exactly when it is a well-formed v1 AdmissionReview with a request**: what kind detection reads
    as its apiVersion (last string among the members spelled `apiVersion` in any ASCII case; `null` leaves it) is absent/empty,
    `/`, `admission.k8s.io/v1` or `admission.k8s.io/`; what it reads as its kind is absent/empty or `AdmissionReview`; no
    `request` / `response` member has the wrong JSON type; and the last member spelled exactly `request` is an object. For all
    documents: any number of members, repeated keys, any order. -/
theorem C16_review_200_iff (doc : Top) :
    status doc = 200 ↔
      (∃ av k, interpretField b!"apiVersion" doc [] = some av ∧ interpretField b!"kind" doc [] = some k ∧
        apiVersionOK av ∧ kindOK k) ∧ typeError doc = false ∧ hasRequest doc = true := status_200_iff doc

open PSA.Review in
/-- … and every other body gets 400: an HTTP error status, never an allow -/
theorem C16_review_else_400 (doc : Top) : status doc = 200 ∨ status doc = 400 := status_cases doc

open PSA.Review in
/-- **Reviews without a request**: no member spelled exactly `request` holding an object — absent, null, misspelled
    (`Request`), or of another type — means 400, whatever else the body contains -/
theorem C16_review_needs_request (doc : Top) (h : ∀ m ∈ doc, m.1 = b!"request" → ∀ t, m.2 ≠ .obj t) : status doc = 400 :=
  no_request_400 doc h

open PSA.Review in
/-- **Non-v1 reviews**: a body whose detected apiVersion is anything but the four accepted spellings (v1beta1, another
    group, ...) or whose detected kind is another kind is answered 400 -/
theorem C16_review_non_v1 (doc : Top) (av k : Str) (ha : interpretField b!"apiVersion" doc [] = some av)
    (hk : interpretField b!"kind" doc [] = some k) (h : ¬ apiVersionOK av ∨ ¬ kindOK k) : status doc = 400 := by
  rcases status_cases doc with h2 | h4
  · exfalso
    obtain ⟨⟨av', k', ha', hk', hav, hkk⟩, _⟩ := (status_200_iff doc).mp h2
    rw [ha] at ha'; rw [hk] at hk'
    cases ha'; cases hk'
    rcases h with h | h
    · exact h hav
    · exact h hkk
  · exact h4

open PSA.Review in
/-- non-vacuity: the two sides of the line, computed — a review with upper-case `KIND`, a trailing-slash apiVersion and a
    request is accepted; the same with `v1beta1`, with the request misspelled, or with the request overwritten by null is not -/
example : status [(b!"KIND", .str b!"AdmissionReview"), (b!"apiVersion", .str b!"admission.k8s.io/"), (b!"request", .obj true)] = 200 ∧
    status [(b!"apiVersion", .str b!"admission.k8s.io/v1beta1"), (b!"kind", .str b!"AdmissionReview"), (b!"request", .obj true)] = 400 ∧
    status [(b!"Request", .obj true)] = 400 ∧
    status [(b!"request", .obj true), (b!"request", .null)] = 400 ∧
    status [(b!"request", .null), (b!"request", .obj true)] = 200 := by decide

open PSA.Review in
/-- **The two layers composed**: screening (empty body, size, content type) over the document model. For a body that is a JSON
    object, the handler's status is 400 for an empty body, 413 at or over the limit, 400 for another content type, and the
    document's own status otherwise — so an answer of 200 needs all of: a body, under the limit, `application/json`, a well-formed v1
    review with a request. -/
def handlerStatus (maxSize : Nat) (empty : Bool) (size : Nat) (ct : Str) (doc : Top) : Nat :=
  classify maxSize empty size ct ((detectKind doc).isSome && !typeError doc) (detectKind doc == some (dGroup, dVersion, dKind)) (hasRequest doc)

open PSA.Review in
theorem C16_handler_status (maxSize : Nat) (empty : Bool) (size : Nat) (ct : Str) (doc : Top) :
    handlerStatus maxSize empty size ct doc =
      if empty then 400 else if size ≥ maxSize then 413 else if ct ≠ b!"application/json" then 400 else status doc := by
  unfold handlerStatus classify status
  cases hd : detectKind doc with
  | none => simp
  | some gvk =>
    by_cases hg : gvk = (dGroup, dVersion, dKind)
    · subst hg
      cases typeError doc <;> cases hasRequest doc <;> simp
    · have : (some gvk == some (dGroup, dVersion, dKind)) = false := by simp [hg]
      simp [this, hg]

open PSA.Review in
theorem C16_handler_200_iff (maxSize : Nat) (empty : Bool) (size : Nat) (ct : Str) (doc : Top) :
    handlerStatus maxSize empty size ct doc = 200 ↔
      empty = false ∧ size < maxSize ∧ ct = b!"application/json" ∧ status doc = 200 := by
  rw [C16_handler_status]
  by_cases he : empty = true
  · simp [he]
  · have he' : empty = false := by cases empty <;> simp_all
    by_cases hs : size ≥ maxSize
    · simp [he', hs]; omega
    · by_cases hc : ct = b!"application/json"
      · simp [he', hs, hc]; omega
      · simp [he', hs, hc]

/-- tie obligation (F7): the size limit is 3 MiB -/
theorem C16_limit : Generated.maxRequestSize = 3 * 1024 * 1024 := by decide

#print axioms C16_uid
#print axioms C16_initial_good
#print axioms C16_buggy_witness
#print axioms C16_variant_is_copies
#print axioms C16_handler_keeps_no_state
#print axioms C16_malformed
#print axioms C16_wellformed
#print axioms C16_limit
#print axioms C16_review_200_iff
#print axioms C16_review_else_400
#print axioms C16_review_needs_request
#print axioms C16_review_non_v1
#print axioms C16_handler_status
#print axioms C16_handler_200_iff
end PSA.Props

import Psa.ApiProofs
/-! # C05 — namespace labels always resolve to a complete, fail-safe policy -/
namespace PSA.Props
open PSA

/-- levels parse only as the three exact names, and print back -/
theorem C05_level_iff (s : Str) :
    (parseLevel s).2 = true ↔ s = b!"privileged" ∨ s = b!"baseline" ∨ s = b!"restricted" := parseLevel_ok_iff s
theorem C05_level_roundtrip (s : Str) (h : (parseLevel s).2 = true) : (parseLevel s).1.str = s := parseLevel_str s h
theorem C05_level_print_parse (l : Level) : parseLevel l.str = (l, true) := parseLevel_of_str l
theorem C05_level_error_restricted (s : Str) (h : (parseLevel s).2 = false) : (parseLevel s).1 = .restricted :=
  parseLevel_err s h

/-- versions parse only as `latest` or canonical `v1.N` (N within int64, as strconv.Atoi demands) -/
theorem C05_version_iff (s : Str) :
    (parseVersion s).2 = true ↔ s = b!"latest" ∨ ∃ n, n ≤ maxInt64 ∧ s = b!"v1." ++ itoa n := parseVersion_ok_iff s
/-- … and print back to the string they were parsed from -/
theorem C05_version_roundtrip (s : Str) (h : (parseVersion s).2 = true) : (parseVersion s).1.str = s :=
  parseVersion_print s h
theorem C05_version_print_parse (n : Nat) (hn : n ≤ maxInt64) : parseVersion (Ver.mm 1 n).str = (.mm 1 n, true) :=
  parseVersion_of_str_v1 n hn
theorem C05_version_error_latest (s : Str) (h : (parseVersion s).2 = false) : (parseVersion s).1 = .latest :=
  parseVersion_err s h

/-- The resolved policy, for all label maps and all defaults, is the one the property describes:
    absent label ⇒ default; unparsable enforce level ⇒ restricted; unparsable version ⇒ latest; unparsable audit / warn
    level ⇒ privileged; warn follows a valid, stricter enforce label when no warn level label exists (and its version
    unless a warn version label exists). (`policySpec`, `resolveLevel`, `resolveVersion`, `warnFollows` in ApiProofs.) -/
theorem C05_policy (labels : Labels) (d : Policy) :
    (policyToEvaluate parseVersion labels d).1 = policySpec labels d := policyToEvaluate_policy labels d

/-- The error list is exactly the present-but-unparsable labels, each on its own key with its own value,
    in the fixed key order. -/
theorem C05_errors (labels : Labels) (d : Policy) :
    (policyToEvaluate parseVersion labels d).2 = errsSpec labels := policyToEvaluate_errs labels d

/-- Labels other than the six keys are irrelevant. -/
theorem C05_only_six (l₁ l₂ : Labels) (d : Policy)
    (h : ∀ k ∈ [kEnforce, kEnforceV, kAudit, kAuditV, kWarn, kWarnV], l₁.get k = l₂.get k) :
    policyToEvaluate parseVersion l₁ d = policyToEvaluate parseVersion l₂ d := by
  have h1 := h kEnforce (by simp); have h2 := h kEnforceV (by simp); have h3 := h kAudit (by simp)
  have h4 := h kAuditV (by simp); have h5 := h kWarn (by simp); have h6 := h kWarnV (by simp)
  simp only [policyToEvaluate, h1, h2, h3, h4, h5, h6]

/-- fail closed / fail open, spelled out -/
theorem C05_bad_enforce_restricted (labels : Labels) (d : Policy) (s : Str)
    (h : labels.get kEnforce = some s) (hb : (parseLevel s).2 = false) :
    (policyToEvaluate parseVersion labels d).1.enforce.level = .restricted := by
  rw [C05_policy]; simp [policySpec, resolveLevel, h, hb]

theorem C05_bad_enforce_version_latest (labels : Labels) (d : Policy) (s : Str)
    (h : labels.get kEnforceV = some s) (hb : (parseVersion s).2 = false) :
    (policyToEvaluate parseVersion labels d).1.enforce.version = .latest := by
  rw [C05_policy]; simp [policySpec, resolveVersion, h, hb]

theorem C05_bad_audit_privileged (labels : Labels) (d : Policy) (s : Str)
    (h : labels.get kAudit = some s) (hb : (parseLevel s).2 = false) :
    (policyToEvaluate parseVersion labels d).1.audit.level = .privileged := by
  rw [C05_policy]; simp [policySpec, resolveLevel, h, hb]

theorem C05_bad_warn_privileged (labels : Labels) (d : Policy) (s : Str)
    (h : labels.get kWarn = some s) (hb : (parseLevel s).2 = false) :
    (policyToEvaluate parseVersion labels d).1.warn.level = .privileged := by
  rw [C05_policy]; simp [policySpec, resolveLevel, warnFollows, h, hb]

theorem C05_no_labels (d : Policy) : policyToEvaluate parseVersion [] d = (d, []) := by
  rfl

/-- non-vacuity: enforce=restricted with default warn=baseline and no warn label: warn follows enforce and its version -/
example : (policyToEvaluate parseVersion [(kEnforce, b!"restricted"), (kEnforceV, b!"v1.25")]
    ⟨⟨.privileged, .latest⟩, ⟨.privileged, .latest⟩, ⟨.baseline, .latest⟩⟩).1.warn = ⟨.restricted, .mm 1 25⟩ := by
  rw [C05_policy]; decide


/-- **`CompareLevels` is the strictness order** privileged < baseline < restricted: it is the comparison of the ranks 0, 1, 2
    (so it is antisymmetric and transitive, and "warn follows a stricter enforce" means exactly "a higher rank") -/
def levelRank : Level → Int
  | .privileged => 0 | .baseline => 1 | .restricted => 2

theorem C05_compare_is_rank (a b : Level) :
    (compareLevels a b < 0 ↔ levelRank a < levelRank b) ∧ (compareLevels a b = 0 ↔ a = b) ∧
    (compareLevels a b > 0 ↔ levelRank a > levelRank b) ∧ compareLevels b a = - compareLevels a b := by
  cases a <;> cases b <;> simp [compareLevels, levelRank]

#print axioms C05_level_iff
#print axioms C05_level_roundtrip
#print axioms C05_level_print_parse
#print axioms C05_level_error_restricted
#print axioms C05_version_iff
#print axioms C05_version_roundtrip
#print axioms C05_version_print_parse
#print axioms C05_version_error_latest
#print axioms C05_policy
#print axioms C05_errors
#print axioms C05_only_six
#print axioms C05_bad_enforce_restricted
#print axioms C05_bad_enforce_version_latest
#print axioms C05_bad_audit_privileged
#print axioms C05_bad_warn_privileged
#print axioms C05_no_labels
#print axioms C05_compare_is_rank
end PSA.Props


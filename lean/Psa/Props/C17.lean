import Psa.ExpectedFacts
import Psa.Config
import Psa.ApiProofs
import Psa.Setup
/-! # C17 — configuration loads strictly, defaults safely, and is version-independent
The strict universal decoder is modelled at the level of document trees (`Psa/Config.lean`) and tied by the correspondence on
JSON and YAML renderings; the tokenizers themselves are outside the model. -/
namespace PSA.Props
open PSA PSA.Config

/-- replace the value of the `apiVersion` key -/
def withVersion (v : Str) (d : Doc) : Doc := d.map (fun f => if f.1 = b!"apiVersion" then (f.1, V2.str (group ++ b!"/" ++ v)) else f)

theorem lookup_withVersion_other (v : Str) (d : Doc) (k : Str) (hk : k ≠ b!"apiVersion") :
    lookup (withVersion v d) k = lookup d k := by
  induction d with
  | nil => rfl
  | cons f rest ih =>
    simp only [withVersion, List.map_cons, lookup, List.find?_cons] at ih ⊢
    by_cases h1 : f.1 = b!"apiVersion"
    · have h2 : ¬ f.1 = k := fun h => hk (h ▸ h1)
      simp only [h1, ↓reduceIte] at ih ⊢
      have h3 : ¬ (b!"apiVersion" = k) := fun h => hk h.symm
      simp only [h3, decide_false]
      exact ih
    · simp only [h1, ↓reduceIte]
      by_cases h2 : f.1 = k
      · simp [h2]
      · simp only [h2, decide_false]
        exact ih

theorem lookup_withVersion_self (v : Str) (d : Doc) :
    lookup (withVersion v d) b!"apiVersion" = (lookup d b!"apiVersion").map (fun _ => V2.str (group ++ b!"/" ++ v)) := by
  induction d with
  | nil => rfl
  | cons f rest ih =>
    simp only [withVersion, List.map_cons, lookup, List.find?_cons] at ih ⊢
    by_cases h1 : f.1 = b!"apiVersion"
    · simp [h1]
    · simp only [h1, ↓reduceIte, decide_false]
      exact ih

theorem keys_withVersion (v : Str) (d : Doc) : (withVersion v d).map (·.1) = d.map (·.1) := by
  simp only [withVersion, List.map_map]
  apply List.map_congr_left
  intro f _
  simp only [Function.comp_apply]
  split <;> rfl

theorem versionOf_group (v : Str) : versionOf (group ++ b!"/" ++ v) = some v := by
  simp only [versionOf]
  have h1 : (group ++ b!"/").isPrefixOf (group ++ b!"/" ++ v) = true := by
    rw [List.isPrefixOf_iff_prefix]; exact ⟨v, rfl⟩
  simp only [h1, ↓reduceIte]
  have : (group ++ b!"/" ++ v).drop (group.length + 1) = v := by
    have : group.length + 1 = (group ++ b!"/").length := by simp
    rw [this, List.drop_left]
  rw [this]

/-- what a document with a served version loads to: the version itself no longer occurs -/
def loadServed (d : Doc) : Option Cfg :=
  if !strictKeys topKeys d then none
  else match lookup d b!"kind" with
    | some (.str k) =>
      if k ≠ kindName then none
      else do
        let ds ← decodeDefaults (lookup d b!"defaults")
        let es ← decodeExemptions (lookup d b!"exemptions")
        return { defaults := setDefaults ds, exemptions := es }
    | _ => none

theorem loadDoc_withVersion (d : Doc) (w : Str) (hw : w ∈ servedVersions)
    (hav : ∃ s, lookup d b!"apiVersion" = some (.str s)) : loadDoc (withVersion w d) = loadServed d := by
  obtain ⟨s, hs⟩ := hav
  have hk : strictKeys topKeys (withVersion w d) = strictKeys topKeys d := by
    have hall : ∀ l : Doc, l.all (fun f => topKeys.contains f.1) = (l.map (·.1)).all (fun k => topKeys.contains k) := by
      intro l; rw [List.all_map]; rfl
    simp only [strictKeys, hall, keys_withVersion]
  have hc : servedVersions.contains w = true := by simpa using hw
  unfold loadDoc loadServed
  rw [hk, lookup_withVersion_other _ d _ (by decide : b!"kind" ≠ b!"apiVersion"),
    lookup_withVersion_other _ d _ (by decide : b!"defaults" ≠ b!"apiVersion"),
    lookup_withVersion_other _ d _ (by decide : b!"exemptions" ≠ b!"apiVersion"), lookup_withVersion_self, hs]
  split
  · rfl
  · cases hkind : lookup d b!"kind" with
    | none => rfl
    | some kv =>
      cases kv with
      | str k =>
        simp only [Option.map_some]
        split
        · rfl
        · rw [versionOf_group]
          simp only [hc, ↓reduceIte]
      | _ => rfl

/-- **Version independence**: a document that carries a string `apiVersion` loads to the same effective configuration
    under each of the served versions. -/
theorem C17_versions (d : Doc) (v v' : Str) (hv : v ∈ servedVersions) (hv' : v' ∈ servedVersions)
    (hav : ∃ s, lookup d b!"apiVersion" = some (.str s)) :
    loadDoc (withVersion v d) = loadDoc (withVersion v' d) := by
  rw [loadDoc_withVersion d v hv hav, loadDoc_withVersion d v' hv' hav]

/-- **Safe defaults**: every omitted or empty default becomes privileged / latest, and the empty input equals the
    all-defaults document. -/
theorem C17_defaults (d : Defaults) :
    (setDefaults d).enforce = (if d.enforce.isEmpty then b!"privileged" else d.enforce) ∧
    (setDefaults d).enforceVersion = (if d.enforceVersion.isEmpty then b!"latest" else d.enforceVersion) ∧
    (setDefaults d).audit = (if d.audit.isEmpty then b!"privileged" else d.audit) ∧
    (setDefaults d).auditVersion = (if d.auditVersion.isEmpty then b!"latest" else d.auditVersion) ∧
    (setDefaults d).warn = (if d.warn.isEmpty then b!"privileged" else d.warn) ∧
    (setDefaults d).warnVersion = (if d.warnVersion.isEmpty then b!"latest" else d.warnVersion) := by
  simp [setDefaults, orElse]

theorem C17_empty_is_all_defaults :
    ∀ v ∈ servedVersions, load none = load (some [(b!"apiVersion", .str (group ++ b!"/" ++ v)), (b!"kind", .str kindName)]) := by
  decide

/-- **Strictness**: an unknown or duplicated top-level key, a wrong kind, or an unserved version is an error … -/
theorem C17_strict_top (d : Doc) (h : (∃ f ∈ d, f.1 ∉ topKeys) ∨ ¬ (d.map (·.1)).Nodup) : loadDoc d = none := by
  have : strictKeys topKeys d = false := by
    simp only [strictKeys, Bool.and_eq_false_iff, List.all_eq_false]
    rcases h with ⟨f, hf, hk⟩ | h
    · left; exact ⟨f, hf, by simpa using hk⟩
    · right
      have : ∀ l : List Str, keysNodup l = true → l.Nodup := by
        intro l
        induction l with
        | nil => intro _; exact List.nodup_nil
        | cons a t ih =>
          intro hh
          simp only [keysNodup, Bool.and_eq_true, Bool.not_eq_eq_eq_not, Bool.not_true, List.contains_eq_mem,
            decide_eq_false_iff_not] at hh
          exact List.nodup_cons.mpr ⟨hh.1, ih hh.2⟩
      cases hn : keysNodup (d.map (·.1)) with
      | false => rfl
      | true => exact absurd (this _ hn) h
  simp [loadDoc, this]

theorem C17_strict_version (d : Doc) (av : Str) (h : lookup d b!"apiVersion" = some (.str av))
    (hu : ∀ v ∈ servedVersions, av ≠ group ++ b!"/" ++ v) : loadDoc d = none := by
  unfold loadDoc
  split
  · rfl
  · rw [h]
    cases hk : lookup d b!"kind" with
    | none => rfl
    | some kv =>
      cases kv with
      | str k =>
        simp only
        split
        · rfl
        · cases hv : versionOf av with
          | none => rfl
          | some v =>
            simp only
            by_cases hc : servedVersions.contains v = true
            · exfalso
              have hm : v ∈ servedVersions := by simpa using hc
              apply hu v hm
              simp only [versionOf] at hv
              split at hv
              · next hp =>
                rw [List.isPrefixOf_iff_prefix] at hp
                obtain ⟨t, ht⟩ := hp
                simp only [Option.some.injEq] at hv
                rw [← ht] at hv ⊢
                have : (group ++ b!"/" ++ t).drop (group.length + 1) = t := by
                  have : group.length + 1 = (group ++ b!"/").length := by simp
                  rw [this, List.drop_left]
                rw [this] at hv
                rw [hv]
              · cases hv
            · have hc' : servedVersions.contains v = false := by simpa using hc
              simp only [hc', Bool.false_eq_true, ↓reduceIte]
      | _ => rfl

/-- … and so is an unknown or duplicated key inside `defaults` (likewise `exemptions`). -/
theorem C17_strict_defaults (fs : List (Str × V1)) (h : (∃ f ∈ fs, f.1 ∉ defaultsKeys) ∨ keysNodup (fs.map (·.1)) = false) :
    decodeDefaults (some (.obj fs)) = none := by
  have : strictKeys defaultsKeys fs = false := by
    simp only [strictKeys, Bool.and_eq_false_iff, List.all_eq_false]
    rcases h with ⟨f, hf, hk⟩ | h
    · left; exact ⟨f, hf, by simpa using hk⟩
    · right; exact h
  simp [decodeDefaults, this]

/-- **Validation accepts exactly** the configurations whose six defaults parse and whose exemption entries are well formed
    and unique. -/
theorem validateList_nil_iff (path : Str) (ok : Str → Bool) (l : List Str) :
    validateList path ok l = [] ↔ (∀ x ∈ l, ok x = true) ∧ l.Nodup := by
  have : ∀ (i : Nat) (seen : List Str), validateList.go path ok i seen l = [] ↔
      (∀ x ∈ l, ok x = true ∧ x ∉ seen) ∧ l.Nodup := by
    induction l with
    | nil => intro i seen; simp [validateList.go]
    | cons x rest ih =>
      intro i seen
      simp only [validateList.go]
      by_cases hok : ok x = true
      · by_cases hs : seen.contains x = true
        · simp only [hok, Bool.not_true, Bool.false_eq_true, ↓reduceIte, hs, List.cons_ne_nil, false_iff]
          intro ⟨h, _⟩
          have := (h x (by simp)).2
          exact this (by simpa using hs)
        · simp only [hok, Bool.not_true, Bool.false_eq_true, ↓reduceIte, hs]
          rw [ih]
          simp only [List.mem_cons, List.nodup_cons]
          constructor
          · rintro ⟨h1, h2⟩
            refine ⟨?_, ?_, h2⟩
            · intro y hy
              rcases hy with rfl | hy
              · exact ⟨hok, by simpa using hs⟩
              · exact ⟨(h1 y hy).1, fun hm => (h1 y hy).2 (Or.inr hm)⟩
            · intro hm; exact (h1 x hm).2 (Or.inl rfl)
          · rintro ⟨h1, h2, h3⟩
            refine ⟨?_, h3⟩
            intro y hy
            refine ⟨(h1 y (Or.inr hy)).1, ?_⟩
            rintro (rfl | hm)
            · exact h2 hy
            · exact (h1 y (Or.inr hy)).2 hm
      · simp only [hok, Bool.not_false, ↓reduceIte, List.cons_ne_nil, false_iff]
        intro ⟨h, _⟩
        exact hok (h x (by simp)).1
  have := this 0 []
  simp only [validateList]
  rw [this]
  simp

theorem C17_validate_iff (c : Cfg) :
    validate c = [] ↔
      ((parseLevel c.defaults.enforce).2 = true ∧ (parseVersion c.defaults.enforceVersion).2 = true ∧
       (parseLevel c.defaults.warn).2 = true ∧ (parseVersion c.defaults.warnVersion).2 = true ∧
       (parseLevel c.defaults.audit).2 = true ∧ (parseVersion c.defaults.auditVersion).2 = true) ∧
      ((∀ x ∈ c.exemptions.namespaces, isDNSLabel x = true) ∧ c.exemptions.namespaces.Nodup) ∧
      ((∀ x ∈ c.exemptions.runtimeClasses, isDNSSubdomain x = true) ∧ c.exemptions.runtimeClasses.Nodup) ∧
      ((∀ x ∈ c.exemptions.usernames, x ≠ []) ∧ c.exemptions.usernames.Nodup) := by
  simp only [validate, List.append_eq_nil_iff, validateList_nil_iff, vLevel, vVersion]
  constructor
  · rintro ⟨⟨⟨⟨⟨⟨⟨⟨h1, h2⟩, h3⟩, h4⟩, h5⟩, h6⟩, h7⟩, h8⟩, h9⟩
    have e1 : (parseLevel c.defaults.enforce).2 = true := by split at h1 <;> simp_all
    have e2 : (parseVersion c.defaults.enforceVersion).2 = true := by split at h2 <;> simp_all
    have e3 : (parseLevel c.defaults.warn).2 = true := by split at h3 <;> simp_all
    have e4 : (parseVersion c.defaults.warnVersion).2 = true := by split at h4 <;> simp_all
    have e5 : (parseLevel c.defaults.audit).2 = true := by split at h5 <;> simp_all
    have e6 : (parseVersion c.defaults.auditVersion).2 = true := by split at h6 <;> simp_all
    exact ⟨⟨e1, e2, e3, e4, e5, e6⟩, h7, h8, fun x hx => by simpa using h9.1 x hx, h9.2⟩
  · rintro ⟨⟨h1, h2, h3, h4, h5, h6⟩, h7, h8, h9⟩
    simp only [h1, h2, h3, h4, h5, h6, ↓reduceIte, and_self, true_and]
    exact ⟨⟨h7, h8⟩, fun x hx => by simpa using h9.1 x hx, h9.2⟩

/-- **Chain**: an accepted configuration converts, field for field, to the policy it states, and an admission controller
    completed from it resolves an unlabeled namespace to exactly that policy. -/
theorem C17_chain (c : Cfg) (h : validate c = []) :
    ∃ p, toPolicy c.defaults = some p ∧
      p.enforce = ⟨(parseLevel c.defaults.enforce).1, (parseVersion c.defaults.enforceVersion).1⟩ ∧
      p.audit = ⟨(parseLevel c.defaults.audit).1, (parseVersion c.defaults.auditVersion).1⟩ ∧
      p.warn = ⟨(parseLevel c.defaults.warn).1, (parseVersion c.defaults.warnVersion).1⟩ ∧
      policyToEvaluate parseVersion [] p = (p, []) := by
  obtain ⟨⟨h1, h2, h3, h4, h5, h6⟩, _⟩ := (C17_validate_iff c).mp h
  have ne : ∀ s : Str, (parseLevel s).2 = true → s.isEmpty = false := by
    intro s hs; cases s with
    | nil => simp [parseLevel] at hs
    | cons _ _ => rfl
  have nv : ∀ s : Str, (parseVersion s).2 = true → s.isEmpty = false := by
    intro s hs; cases s with
    | nil => simp [parseVersion] at hs
    | cons _ _ => rfl
  refine ⟨⟨⟨(parseLevel c.defaults.enforce).1, (parseVersion c.defaults.enforceVersion).1⟩,
    ⟨(parseLevel c.defaults.audit).1, (parseVersion c.defaults.auditVersion).1⟩,
    ⟨(parseLevel c.defaults.warn).1, (parseVersion c.defaults.warnVersion).1⟩⟩, ?_, rfl, rfl, rfl, rfl⟩
  simp [toPolicy, ne _ h1, ne _ h3, ne _ h5, nv _ h2, nv _ h4, nv _ h6, h1, h2, h3, h4, h5, h6]


/-! ## The controller's set-up (CompleteConfiguration / ValidateConfiguration, the webhook's LoadConfig + Setup) -/
section setup
open PSA.Setup

theorem limits_pos : Generated.namespaceMaxPodsToCheck ≠ 0 ∧ Generated.namespacePodCheckTimeoutNs ≠ 0 := by decide

/-- **Set-up accepts exactly the valid configurations**: a controller given every dependency and a configuration is
    completed and validated without error iff the configuration passes validation — and then the default policy it
    enforces is the one the configuration states, field for field. -/
theorem C17_setup_iff (cfg : Cfg) :
    (∃ c, complete (fresh cfg) = .ok c ∧ validateCtl c = none) ↔ validate cfg = [] := by
  constructor
  · rintro ⟨c, hc, hv⟩
    simp only [complete, fresh] at hc
    split at hc
    · exact absurd hc (by simp)
    · injection hc with hc
      subst hc
      simp only [validateCtl] at hv
      by_cases h : validate cfg = []
      · exact h
      · simp [h] at hv
  · intro h
    obtain ⟨p, hp, _⟩ := C17_chain cfg h
    refine ⟨_, by simp only [complete, fresh, hp]; rfl, ?_⟩
    simp [validateCtl, h, hp, limits_pos.1, limits_pos.2]

theorem C17_setup_enforces_stated (cfg : Cfg) (c : Ctl) (hc : complete (fresh cfg) = .ok c) (hv : validateCtl c = none) :
    c.defaultPolicy = some
      ⟨⟨(parseLevel cfg.defaults.enforce).1, (parseVersion cfg.defaults.enforceVersion).1⟩,
       ⟨(parseLevel cfg.defaults.audit).1, (parseVersion cfg.defaults.auditVersion).1⟩,
       ⟨(parseLevel cfg.defaults.warn).1, (parseVersion cfg.defaults.warnVersion).1⟩⟩ ∧ c.cfg = some cfg := by
  have hval : validate cfg = [] := (C17_setup_iff cfg).mp ⟨c, hc, hv⟩
  obtain ⟨p, hp, he, ha, hw, _⟩ := C17_chain cfg hval
  simp only [complete, fresh, hp] at hc
  injection hc with hc
  subst hc
  refine ⟨?_, rfl⟩
  show some p = _
  congr 1
  cases p
  simp_all

/-- the whole chain from the file: the webhook serves iff the document loads and validates, and then with the stated policy
    and the stated exemptions; otherwise it refuses to start -/
theorem C17_webhook_setup (d : Option Doc) :
    (∀ p ex, setup d = .serving p ex → ∃ cfg, load d = some cfg ∧ validate cfg = [] ∧ toPolicy cfg.defaults = some p ∧ ex = cfg.exemptions) ∧
    (∀ cfg, load d = some cfg → validate cfg = [] → ∃ p, setup d = .serving p cfg.exemptions ∧ toPolicy cfg.defaults = some p) ∧
    (load d = none → setup d = .loadError) ∧
    (∀ cfg, load d = some cfg → validate cfg ≠ [] → ∃ e, setup d = .setupError e) := by
  refine ⟨?_, ?_, ?_, ?_⟩
  · intro p ex h
    simp only [setup] at h
    split at h
    · exact absurd h (by simp)
    · rename_i cfg hl
      refine ⟨cfg, hl, ?_⟩
      split at h
      · exact absurd h (by simp)
      · rename_i c hc
        split at h
        · exact absurd h (by simp)
        · rename_i hv
          have hval := (C17_setup_iff cfg).mp ⟨c, hc, hv⟩
          obtain ⟨q, hq, _⟩ := C17_chain cfg hval
          simp only [complete, fresh, hq] at hc
          injection hc with hc
          subst hc
          simp only [Outcome.serving.injEq] at h
          exact ⟨hval, by rw [hq, h.1], h.2.symm⟩
  · intro cfg hl hval
    obtain ⟨c, hc, hv⟩ := (C17_setup_iff cfg).mpr hval
    obtain ⟨q, hq, _⟩ := C17_chain cfg hval
    refine ⟨q, ?_, hq⟩
    have hdp : c.defaultPolicy = some q := by
      simp only [complete, fresh, hq] at hc
      injection hc with hc
      subst hc
      rfl
    simp only [setup, hl, hc, hv, hdp]
  · intro hl
    simp [setup, hl]
  · intro cfg hl hbad
    simp only [setup, hl]
    cases hc : complete (fresh cfg) with
    | error e => exact ⟨e, rfl⟩
    | ok c =>
      cases hv : validateCtl c with
      | some e => exact ⟨e, by simp only [hv]⟩
      | none => exact absurd ((C17_setup_iff cfg).mp ⟨c, hc, hv⟩) hbad

/-- ValidateConfiguration notices a controller that was never completed, and one whose configuration was exchanged after
    completion for one that states another policy -/
theorem C17_validate_needs_complete (c : Ctl) (h : c.defaultPolicy = none) : validateCtl c ≠ none := by
  simp only [validateCtl]
  cases c.cfg with
  | none => simp
  | some cfg =>
    by_cases hv : validate cfg = []
    · simp only [hv, ne_eq, not_true_eq_false, ↓reduceIte]
      cases toPolicy cfg.defaults with
      | none => simp
      | some p => simp [h]
    · simp [hv]

theorem C17_validate_detects_exchange (cfg cfg' : Cfg) (c : Ctl) (hc : complete (fresh cfg) = .ok c)
    (hdiff : toPolicy cfg'.defaults ≠ toPolicy cfg.defaults) : validateCtl { c with cfg := some cfg' } ≠ none := by
  simp only [complete, fresh] at hc
  split at hc
  · exact absurd hc (by simp)
  · rename_i p hp
    injection hc with hc
    subst hc
    simp only [validateCtl]
    by_cases hv : validate cfg' = []
    · simp only [hv, ne_eq, not_true_eq_false, ↓reduceIte]
      cases hq : toPolicy cfg'.defaults with
      | none => simp
      | some q =>
        have : q ≠ p := by intro e; apply hdiff; rw [hq, hp, e]
        simp [this]
    · simp [hv]

/-- non-vacuity: a concrete document for which the webhook serves with a non-trivial policy, and one it refuses -/
example : setup (some [(b!"apiVersion", .str (group ++ b!"/v1")), (b!"kind", .str kindName),
    (b!"defaults", .obj [(b!"enforce", .str b!"baseline"), (b!"audit-version", .str b!"v1.25")]),
    (b!"exemptions", .obj [(b!"namespaces", .list [.str b!"kube-system"])])]) =
    .serving ⟨⟨.baseline, .latest⟩, ⟨.privileged, .mm 1 25⟩, ⟨.privileged, .latest⟩⟩ ⟨[], [b!"kube-system"], []⟩ := by decide
example : setup (some [(b!"apiVersion", .str (group ++ b!"/v1")), (b!"kind", .str kindName),
    (b!"exemptions", .obj [(b!"runtimeClasses", .list [.str b!"a", .str b!"a"])])]) = .setupError .invalid := by decide
end setup

/-- tie obligation (F9): loading, defaulting, validating and converting a configuration write no state that outlives the
    call (no package-level cache, no sync.Once, nothing through a receiver) — two loads cannot influence each other -/
theorem C17_loader_keeps_no_state :
    Generated.stateWrites.filter (fun w => w.1 = b!"admission/api" ∨ w.1 = b!"admission/api/load" ∨ w.1 = b!"admission/api/validation") = [] := by
  decide

#print axioms loadDoc_withVersion
#print axioms C17_versions
#print axioms C17_defaults
#print axioms C17_empty_is_all_defaults
#print axioms C17_strict_top
#print axioms C17_strict_version
#print axioms C17_strict_defaults
#print axioms validateList_nil_iff
#print axioms C17_validate_iff
#print axioms C17_chain
#print axioms C17_loader_keeps_no_state
#print axioms C17_setup_iff
#print axioms C17_setup_enforces_stated
#print axioms C17_webhook_setup
#print axioms C17_validate_needs_complete
#print axioms C17_validate_detects_exchange
end PSA.Props
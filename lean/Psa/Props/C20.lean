import Psa.Eval
import Psa.Fixtures.F0
import Psa.Fixtures.F1
import Psa.Fixtures.F2
import Psa.Fixtures.F3
import Psa.Fixtures.F4
import Psa.Fixtures.F5
import Psa.Fixtures.F6
import Psa.Fixtures.F7
import Psa.Fixtures.F8
import Psa.Fixtures.F9
import Psa.Fixtures.F10
import Psa.Fixtures.F11
import Psa.Fixtures.F12
import Psa.Fixtures.F13
import Psa.Fixtures.F14
import Psa.Fixtures.F15
/-! # C20 — the published conformance fixtures agree with the evaluator
The fixture table is finite: every (level, version v1.0 … newest tested, control, pass/fail, pod) produced by the generators
of package `test`, de-duplicated by the revision signature of the version (versions that run the same revisions are one
obligation). It is re-extracted from /repo on every run (`Psa/Fixtures/F*.lean`), and each chunk is decided by the kernel. -/
namespace PSA.Props
open PSA

def allFixtures : List Fixture := Fixtures.chunk0 ++ Fixtures.chunk1 ++ Fixtures.chunk2 ++ Fixtures.chunk3 ++ Fixtures.chunk4 ++ Fixtures.chunk5 ++ Fixtures.chunk6 ++ Fixtures.chunk7 ++ Fixtures.chunk8 ++ Fixtures.chunk9 ++ Fixtures.chunk10 ++ Fixtures.chunk11 ++ Fixtures.chunk12 ++ Fixtures.chunk13 ++ Fixtures.chunk14 ++ Fixtures.chunk15

/-- **Every** published fixture: pass fixtures are allowed at their level and version, fail fixtures are rejected there by
    the control they are named for (or the restricted control overriding it), after API-server defaulting. -/
theorem C20_fixtures_agree : ∀ f ∈ allFixtures, fixtureOk f = true := by
  intro f hf
  simp only [allFixtures, List.mem_append] at hf
  rcases hf with (((((((((((((((h | h) | h) | h) | h) | h) | h) | h) | h) | h) | h) | h) | h) | h) | h) | h)
  · exact List.all_eq_true.mp Fixtures.chunk0_ok f h
  · exact List.all_eq_true.mp Fixtures.chunk1_ok f h
  · exact List.all_eq_true.mp Fixtures.chunk2_ok f h
  · exact List.all_eq_true.mp Fixtures.chunk3_ok f h
  · exact List.all_eq_true.mp Fixtures.chunk4_ok f h
  · exact List.all_eq_true.mp Fixtures.chunk5_ok f h
  · exact List.all_eq_true.mp Fixtures.chunk6_ok f h
  · exact List.all_eq_true.mp Fixtures.chunk7_ok f h
  · exact List.all_eq_true.mp Fixtures.chunk8_ok f h
  · exact List.all_eq_true.mp Fixtures.chunk9_ok f h
  · exact List.all_eq_true.mp Fixtures.chunk10_ok f h
  · exact List.all_eq_true.mp Fixtures.chunk11_ok f h
  · exact List.all_eq_true.mp Fixtures.chunk12_ok f h
  · exact List.all_eq_true.mp Fixtures.chunk13_ok f h
  · exact List.all_eq_true.mp Fixtures.chunk14_ok f h
  · exact List.all_eq_true.mp Fixtures.chunk15_ok f h

/-- … and in a process whose user-namespace switch has any history of calls that ends with it switched off (the process starts
    with it off): the fixtures are judged with what is in force, which is the default configuration again -/
theorem C20_after_switch_history (calls : List Bool) : ∀ f ∈ allFixtures, fixtureOkWith (switchAfter false (calls ++ [false])) f = true := by
  intro f hf
  rw [switchAfter_append]
  exact C20_fixtures_agree f hf

/-- the history matters: with the switch left ON the published procMount fail fixture is no longer rejected (it sets
    hostUsers: false) — which is why "switched off again" must really switch it off -/
example :
    let f : Fixture := { level := .baseline, minor := 0, check := b!"procMount", pass := false,
                         pod := { hostUsers := some false, containers := [{ name := b!"c", sc := some { procMount := some b!"Unmasked" } }] } }
    fixtureOkWith false f = true ∧ fixtureOkWith true f = false := by decide +kernel

/-- the defaulting clause is needed: the published pass fixture "implicit empty dir" (a volume with no source) is rejected
    by the raw evaluator at restricted and accepted once the API server's defaulting (no source ⇒ emptyDir) is applied -/
example :
    let p : Pod := { volumes := [{ name := b!"volume-implicit-emptydir" }] }
    (run Generated.tables false .restrictedVolumes0 p).allowed = false ∧
    (run Generated.tables false .restrictedVolumes0 (apiDefault p)).allowed = true := by decide

-- non-vacuity: the chunks are not empty and contain both kinds
example : Fixtures.chunk0.length ≥ 30 ∧ Fixtures.chunk0.any (·.pass) = true ∧ Fixtures.chunk0.any (fun f => !f.pass) = true := by
  refine ⟨by decide, ?_, ?_⟩ <;> rfl

#print axioms C20_fixtures_agree
#print axioms C20_after_switch_history
#print axioms Fixtures.chunk0_ok
#print axioms Fixtures.chunk1_ok
#print axioms Fixtures.chunk2_ok
#print axioms Fixtures.chunk3_ok
#print axioms Fixtures.chunk4_ok
#print axioms Fixtures.chunk5_ok
#print axioms Fixtures.chunk6_ok
#print axioms Fixtures.chunk7_ok
#print axioms Fixtures.chunk8_ok
#print axioms Fixtures.chunk9_ok
#print axioms Fixtures.chunk10_ok
#print axioms Fixtures.chunk11_ok
#print axioms Fixtures.chunk12_ok
#print axioms Fixtures.chunk13_ok
#print axioms Fixtures.chunk14_ok
#print axioms Fixtures.chunk15_ok
end PSA.Props

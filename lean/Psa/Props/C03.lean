import Psa.EvalProofs
import Psa.C03Relax
import Psa.Examples
/-! # C03 — restricted ⇒ baseline ⇒ privileged, at every version -/
namespace PSA.Props
open PSA

/-- side conditions on the regenerated tables that the override edges rely on (not the full table equality of C02) -/
theorem C03_tables_ok : TablesOK Generated.tables := ⟨by decide, by decide⟩
theorem C03_windows_name : Generated.tables.windows = b!"windows" := by decide

theorem C03_order (v : Ver) (p : Pod) (hv : v.requestable) (hp : ApiValid p)
    (h : (aggregate (evalPodModel Generated.tables false ⟨.restricted, v⟩ p)).allowed = true) :
    (aggregate (evalPodModel Generated.tables false ⟨.baseline, v⟩ p)).allowed = true := by
  rw [evalPodModel_allowed] at h ⊢
  exact PSA.C03_order _ C03_tables_ok v p hv ((apiValid_tables _ C03_windows_name p).mp hp) h

/-- the same with the user-namespace switch (C19) in either position: none of the override edges reads it -/
theorem C03_order_any_switch (relax : Bool) (v : Ver) (p : Pod) (hv : v.requestable) (hp : ApiValid p)
    (h : (aggregate (evalPodModel Generated.tables relax ⟨.restricted, v⟩ p)).allowed = true) :
    (aggregate (evalPodModel Generated.tables relax ⟨.baseline, v⟩ p)).allowed = true := by
  rw [evalPodModel_allowed] at h ⊢
  exact PSA.C03_order_any_switch _ C03_tables_ok relax v p hv ((apiValid_tables _ C03_windows_name p).mp hp) h

/-- "relaxing a namespace's level at an unchanged version can never make an existing pod newly non-compliant": for any two
    levels of which the second is no stricter than the first (`CompareLevels l₂ l₁ ≤ 0`), at one version and one switch
    setting, a pod allowed at the first is allowed at the second -/
theorem C03_relaxing_level (relax : Bool) (l₁ l₂ : Level) (v : Ver) (p : Pod) (hv : v.requestable) (hp : ApiValid p)
    (hl : compareLevels l₂ l₁ ≤ 0)
    (h : (aggregate (evalPodModel Generated.tables relax ⟨l₁, v⟩ p)).allowed = true) :
    (aggregate (evalPodModel Generated.tables relax ⟨l₂, v⟩ p)).allowed = true := by
  have priv : (aggregate (evalPodModel Generated.tables relax ⟨.privileged, v⟩ p)).allowed = true := by
    have : evalPodModel Generated.tables relax ⟨.privileged, v⟩ p = [] := by simp [evalPodModel, Registry.evaluate]
    rw [this]; decide
  cases l₁ <;> cases l₂ <;> first
    | exact h
    | exact priv
    | exact C03_order_any_switch relax v p hv hp h
    | (simp [compareLevels] at hl)

/-- every pod is allowed at privileged: nothing runs -/
theorem C03_privileged (relax : Bool) (v : Ver) (p : Pod) :
    evalPodModel Generated.tables relax ⟨.privileged, v⟩ p = [] ∧
    (aggregate (evalPodModel Generated.tables relax ⟨.privileged, v⟩ p)).allowed = true := by
  have : evalPodModel Generated.tables relax ⟨.privileged, v⟩ p = [] := by simp [evalPodModel, Registry.evaluate]
  rw [this]; exact ⟨rfl, by decide⟩

/-- non-vacuity: a pod that is allowed at restricted exists (C03_order's premise is satisfiable), and the order is strict -/
example : ApiValid Ex.compliantPod ∧ (aggregate (evalPodModel Generated.tables false ⟨.restricted, .latest⟩ Ex.compliantPod)).allowed = true ∧
    (aggregate (evalPodModel Generated.tables false ⟨.baseline, .latest⟩ Ex.plainPod.pod)).allowed = true ∧
    (aggregate (evalPodModel Generated.tables false ⟨.restricted, .latest⟩ Ex.plainPod.pod)).allowed = false := by decide +kernel

/-- non-vacuity with the switch on: a pod in a user namespace that runs as root is allowed at restricted only because of the
    switch — and then at baseline too -/
example :
    let p : Pod := { hostUsers := some false,
                     containers := [{ name := b!"c", sc := some { Ex.compliantSC with runAsNonRoot := none, runAsUser := some 0 } }] }
    ApiValid p ∧ (aggregate (evalPodModel Generated.tables true ⟨.restricted, .latest⟩ p)).allowed = true ∧
    (aggregate (evalPodModel Generated.tables false ⟨.restricted, .latest⟩ p)).allowed = false ∧
    (aggregate (evalPodModel Generated.tables true ⟨.baseline, .latest⟩ p)).allowed = true := by decide +kernel

#print axioms C03_tables_ok
#print axioms C03_order
#print axioms C03_order_any_switch
#print axioms C03_relaxing_level
#print axioms C03_privileged
end PSA.Props

import Psa.EvalProofs
import Psa.C03Relax
import Psa.SubsetOrder
import Psa.Examples
/-! # C03 — restricted ⇒ baseline ⇒ privileged, at every version -/
namespace PSA.Props
open PSA

/-- side conditions on the regenerated tables that the override edges rely on (not the full table equality of C02) -/
theorem C03_tables_ok : TablesOK Generated.tables := ⟨by decide, by decide⟩
theorem C03_windows_name : Generated.tables.windows = b!"windows" := by decide

theorem C03_order (v : Ver) (p : Pod) (hv : v.requestable) (hp : ApiValid p)
    (h : (aggregate (evalPodModel Generated.tables false ⟨.restricted, v⟩ p)).allowed = true) :
    (aggregate (evalPodModel Generated.tables false ⟨.baseline, v⟩ p)).allowed = true := by
  rw [evalPodModel_allowed] at h ⊢
  exact PSA.C03_order _ C03_tables_ok v p hv ((apiValid_tables _ C03_windows_name p).mp hp) h

/-- the same with the user-namespace switch (C19) in either position: none of the override edges reads it -/
theorem C03_order_any_switch (relax : Bool) (v : Ver) (p : Pod) (hv : v.requestable) (hp : ApiValid p)
    (h : (aggregate (evalPodModel Generated.tables relax ⟨.restricted, v⟩ p)).allowed = true) :
    (aggregate (evalPodModel Generated.tables relax ⟨.baseline, v⟩ p)).allowed = true := by
  rw [evalPodModel_allowed] at h ⊢
  exact PSA.C03_order_any_switch _ C03_tables_ok relax v p hv ((apiValid_tables _ C03_windows_name p).mp hp) h

/-- "relaxing a namespace's level at an unchanged version can never make an existing pod newly non-compliant": for any two
    levels of which the second is no stricter than the first (`CompareLevels l₂ l₁ ≤ 0`), at one version and one switch
    setting, a pod allowed at the first is allowed at the second -/
theorem C03_relaxing_level (relax : Bool) (l₁ l₂ : Level) (v : Ver) (p : Pod) (hv : v.requestable) (hp : ApiValid p)
    (hl : compareLevels l₂ l₁ ≤ 0)
    (h : (aggregate (evalPodModel Generated.tables relax ⟨l₁, v⟩ p)).allowed = true) :
    (aggregate (evalPodModel Generated.tables relax ⟨l₂, v⟩ p)).allowed = true := by
  have priv : (aggregate (evalPodModel Generated.tables relax ⟨.privileged, v⟩ p)).allowed = true := by
    have : evalPodModel Generated.tables relax ⟨.privileged, v⟩ p = [] := by simp [evalPodModel, Registry.evaluate]
    rw [this]; decide
  cases l₁ <;> cases l₂ <;> first
    | exact h
    | exact priv
    | exact C03_order_any_switch relax v p hv hp h
    | (simp [compareLevels] at hl)

/-- what an evaluator built from a subset of the shipped checks (`policy.NewEvaluator` on some of `DefaultChecks()`) computes -/
def evalSubset (keep : Check RevId → Bool) (relax : Bool) (lv : LevelVersion) (p : Pod) : List CheckOut :=
  ((populate (shipped.filter keep)).evaluate lv.level lv.version).map (fun r => run Generated.tables relax r p)

/-- **the order holds for every evaluator built from a subset of the shipped checks**, at every requestable version, with the
    switch in either position: the resolution rule (C04) keeps a baseline check at restricted unless a restricted check that is
    present overrides it, and each of the five override edges of the shipped table is sound for API-valid pods -/
theorem C03_order_every_subset (keep : Check RevId → Bool) (relax : Bool) (v : Ver) (p : Pod) (hv : v.requestable) (hp : ApiValid p)
    (h : allowedAll (evalSubset keep relax ⟨.restricted, v⟩ p) = true) :
    allowedAll (evalSubset keep relax ⟨.baseline, v⟩ p) = true :=
  PSA.C03_order_subset _ C03_tables_ok relax keep v p hv ((apiValid_tables _ C03_windows_name p).mp hp) h

/-- keeping every check is the shipped evaluator: `C03_order_every_subset` contains `C03_order_any_switch` -/
theorem C03_subset_all (relax : Bool) (lv : LevelVersion) (p : Pod) :
    allowedAll (evalSubset (fun _ => true) relax lv p) = (aggregate (evalPodModel Generated.tables relax lv p)).allowed := by
  rw [evalPodModel_allowed]
  have h : shipped.filter (fun _ => true) = shipped := List.filter_eq_self.mpr (fun _ _ => rfl)
  simp only [evalSubset, evalShipped, h]

/-- the edges that argument rests on are all the override edges there are (re-derived from the regenerated metadata) -/
theorem C03_edges_complete : ∀ V, V ≤ 32 → edgesOK V = true := shipped_edgesOK

/-- non-vacuity: the evaluator built from the baseline checks and `seccompProfile_restricted` alone allows, at restricted, a pod
    that the full evaluator denies there — subsets are different evaluators — and the pod is allowed at its baseline -/
example :
    let keep : Check RevId → Bool := fun c => c.level == .baseline || c.id == b!"seccompProfile_restricted"
    let p : Pod := { containers := [{ name := b!"c", sc := some { seccompType := some b!"RuntimeDefault" } }] }
    ApiValid p ∧ allowedAll (evalSubset keep false ⟨.restricted, .latest⟩ p) = true ∧
    (aggregate (evalPodModel Generated.tables false ⟨.restricted, .latest⟩ p)).allowed = false ∧
    allowedAll (evalSubset keep false ⟨.baseline, .latest⟩ p) = true := by decide +kernel

/-- every pod is allowed at privileged: nothing runs -/
theorem C03_privileged (relax : Bool) (v : Ver) (p : Pod) :
    evalPodModel Generated.tables relax ⟨.privileged, v⟩ p = [] ∧
    (aggregate (evalPodModel Generated.tables relax ⟨.privileged, v⟩ p)).allowed = true := by
  have : evalPodModel Generated.tables relax ⟨.privileged, v⟩ p = [] := by simp [evalPodModel, Registry.evaluate]
  rw [this]; exact ⟨rfl, by decide⟩

/-- non-vacuity: a pod that is allowed at restricted exists (C03_order's premise is satisfiable), and the order is strict -/
example : ApiValid Ex.compliantPod ∧ (aggregate (evalPodModel Generated.tables false ⟨.restricted, .latest⟩ Ex.compliantPod)).allowed = true ∧
    (aggregate (evalPodModel Generated.tables false ⟨.baseline, .latest⟩ Ex.plainPod.pod)).allowed = true ∧
    (aggregate (evalPodModel Generated.tables false ⟨.restricted, .latest⟩ Ex.plainPod.pod)).allowed = false := by decide +kernel

/-- non-vacuity with the switch on: a pod in a user namespace that runs as root is allowed at restricted only because of the
    switch — and then at baseline too -/
example :
    let p : Pod := { hostUsers := some false,
                     containers := [{ name := b!"c", sc := some { Ex.compliantSC with runAsNonRoot := none, runAsUser := some 0 } }] }
    ApiValid p ∧ (aggregate (evalPodModel Generated.tables true ⟨.restricted, .latest⟩ p)).allowed = true ∧
    (aggregate (evalPodModel Generated.tables false ⟨.restricted, .latest⟩ p)).allowed = false ∧
    (aggregate (evalPodModel Generated.tables true ⟨.baseline, .latest⟩ p)).allowed = true := by decide +kernel

#print axioms C03_tables_ok
#print axioms C03_order
#print axioms C03_order_any_switch
#print axioms C03_relaxing_level
#print axioms C03_order_every_subset
#print axioms C03_edges_complete
#print axioms C03_subset_all
#print axioms C03_privileged
end PSA.Props

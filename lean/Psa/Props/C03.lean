import Psa.EvalProofs
import Psa.Examples
/-! # C03 — restricted ⇒ baseline ⇒ privileged, at every version -/
namespace PSA.Props
open PSA

/-- side conditions on the regenerated tables that the override edges rely on (not the full table equality of C02) -/
theorem C03_tables_ok : TablesOK Generated.tables := ⟨by decide, by decide⟩
theorem C03_windows_name : Generated.tables.windows = b!"windows" := by decide

theorem C03_order (v : Ver) (p : Pod) (hv : v.requestable) (hp : ApiValid p)
    (h : (aggregate (evalPodModel Generated.tables false ⟨.restricted, v⟩ p)).allowed = true) :
    (aggregate (evalPodModel Generated.tables false ⟨.baseline, v⟩ p)).allowed = true := by
  rw [evalPodModel_allowed] at h ⊢
  exact PSA.C03_order _ C03_tables_ok v p hv ((apiValid_tables _ C03_windows_name p).mp hp) h

/-- every pod is allowed at privileged: nothing runs -/
theorem C03_privileged (relax : Bool) (v : Ver) (p : Pod) :
    evalPodModel Generated.tables relax ⟨.privileged, v⟩ p = [] ∧
    (aggregate (evalPodModel Generated.tables relax ⟨.privileged, v⟩ p)).allowed = true := by
  have : evalPodModel Generated.tables relax ⟨.privileged, v⟩ p = [] := by simp [evalPodModel, Registry.evaluate]
  rw [this]; exact ⟨rfl, by decide⟩

/-- non-vacuity: a pod that is allowed at restricted exists (C03_order's premise is satisfiable), and the order is strict -/
example : ApiValid Ex.compliantPod ∧ (aggregate (evalPodModel Generated.tables false ⟨.restricted, .latest⟩ Ex.compliantPod)).allowed = true ∧
    (aggregate (evalPodModel Generated.tables false ⟨.baseline, .latest⟩ Ex.plainPod.pod)).allowed = true ∧
    (aggregate (evalPodModel Generated.tables false ⟨.restricted, .latest⟩ Ex.plainPod.pod)).allowed = false := by decide +kernel

#print axioms C03_tables_ok
#print axioms C03_order
#print axioms C03_privileged
end PSA.Props

import Psa.DryRunProofs
import Psa.Generated.Facts
/-! # C12 — the existing-pod dry run is bounded and honest about partial coverage
Expiry is an index `e : Option Nat` (the context reports an error from the e-th evaluation on); every theorem quantifies
over every `e`. That the Go runtime cancels on time is not modelled (wall clock): the harness observes the deadline. -/
namespace PSA.Props
open PSA

/-- **Time bound**: the dry-run budget is the lesser of the default and half of the remaining request time
    (Go's truncating division), hence never more than either. -/
theorem C12_timeout (dflt rem : Int) :
    dryRunTimeout dflt (some rem) = min dflt (rem.tdiv 2) ∧ dryRunTimeout dflt none = dflt := by
  simp only [dryRunTimeout, and_true]
  split <;> omega

theorem C12_timeout_le (dflt : Int) (rem : Option Int) :
    dryRunTimeout dflt rem ≤ dflt ∧ (∀ x, rem = some x → dryRunTimeout dflt rem ≤ x.tdiv 2) := by
  cases rem with
  | none => simp [dryRunTimeout]
  | some x => simp only [dryRunTimeout]; split <;> constructor <;> (try intro y hy; cases hy) <;> omega

/-- the budget is what the lister is given, and the default is one second -/
theorem C12_lister_deadline (pv) (cfg : Config) (lim : Limits) (w : World Ev) (r : Request)
    (h : (validateNamespace pv cfg lim w r).2.listCalls = 1) :
    (validateNamespace pv cfg lim w r).2.listTimeout = dryRunTimeout lim.timeout w.remaining := by
  revert h
  unfold validateNamespace
  repeat' split
  all_goals simp

/-- **Cap**: never more evaluations than the cap, whatever the population and whenever the context expires. -/
theorem C12_cap (ev : Ev) (exRC : List Str) (maxPods : Nat) (ns : Str) (lv : LevelVersion) (pods : List PodObj) (e : Option Nat) :
    (dryRun ev exRC maxPods ns lv pods e).2.length ≤ maxPods := (dryRun_calls ev exRC maxPods ns lv pods e).2.1

/-- one step of prioritizePods keeps: every recorded controller uid has a kept pod; every pod pushed behind has a kept
    pod of the same controller -/
theorem prioStep_inv (exRC : List Str) (st : List PodObj × List PodObj × List Str) (x : PodObj)
    (hseen : ∀ u ∈ st.2.2, ∃ q ∈ st.1, q.owner = some u)
    (hsib : ∀ p ∈ st.2.1, ∃ q ∈ st.1, q.owner = p.owner ∧ p.owner ≠ none) :
    (∀ u ∈ (prioStep exRC st x).2.2, ∃ q ∈ (prioStep exRC st x).1, q.owner = some u) ∧
    (∀ p ∈ (prioStep exRC st x).2.1, ∃ q ∈ (prioStep exRC st x).1, q.owner = p.owner ∧ p.owner ≠ none) := by
  unfold prioStep
  by_cases hex : exemptRC x.runtimeClass exRC = true
  · simp only [hex, ↓reduceIte]; exact ⟨hseen, hsib⟩
  · simp only [hex, Bool.false_eq_true, ↓reduceIte]
    cases hx : x.owner with
    | none =>
      simp only
      exact ⟨fun u hu => (hseen u hu).elim fun q hq => ⟨q, List.mem_append_left _ hq.1, hq.2⟩,
             fun p hp => (hsib p hp).elim fun q hq => ⟨q, List.mem_append_left _ hq.1, hq.2⟩⟩
    | some uid =>
      simp only
      by_cases hc : st.2.2.contains uid = true
      · simp only [hc, ↓reduceIte]
        refine ⟨hseen, fun p hp => ?_⟩
        rcases List.mem_append.mp hp with hp' | hp'
        · exact hsib p hp'
        · simp only [List.mem_singleton] at hp'; subst hp'
          obtain ⟨q, hq, ho⟩ := hseen uid (by simpa using hc)
          exact ⟨q, hq, by rw [ho, hx], by rw [hx]; simp⟩
      · simp only [hc, Bool.false_eq_true, ↓reduceIte]
        refine ⟨fun u hu => ?_, fun p hp => (hsib p hp).elim fun q hq => ⟨q, List.mem_append_left _ hq.1, hq.2⟩⟩
        rcases List.mem_cons.mp hu with rfl | hu'
        · exact ⟨x, by simp, hx⟩
        · exact (hseen u hu').elim fun q hq => ⟨q, List.mem_append_left _ hq.1, hq.2⟩

/-- **Prioritisation**: every pod pushed behind is a later sibling — some kept pod of the same controller precedes it
    (the kept pods are all evaluated before any pushed-back pod: `prioritize = kept ++ pushedBack`). -/
theorem C12_siblings_after (exRC : List Str) (pods : List PodObj) :
    ∀ p ∈ (pods.foldl (prioStep exRC) ([], [], [])).2.1,
      ∃ q ∈ (pods.foldl (prioStep exRC) ([], [], [])).1, q.owner = p.owner ∧ p.owner ≠ none := by
  have : ∀ (l : List PodObj) (st : List PodObj × List PodObj × List Str),
      (∀ u ∈ st.2.2, ∃ q ∈ st.1, q.owner = some u) → (∀ p ∈ st.2.1, ∃ q ∈ st.1, q.owner = p.owner ∧ p.owner ≠ none) →
      (∀ p ∈ (l.foldl (prioStep exRC) st).2.1, ∃ q ∈ (l.foldl (prioStep exRC) st).1, q.owner = p.owner ∧ p.owner ≠ none) := by
    intro l
    induction l with
    | nil => intro st _ h; simpa using h
    | cons x xs ih =>
      intro st h1 h2
      simp only [List.foldl_cons]
      exact ih _ (prioStep_inv exRC st x h1 h2).1 (prioStep_inv exRC st x h1 h2).2
  exact this pods _ (by simp) (by simp)

/-- **Honest cut-off**, for every expiry index: the "only checked the first c of t" line is present iff fewer pods were
    evaluated than exist, with exactly those two numbers … -/
theorem C12_honest (ev : Ev) (exRC : List Str) (maxPods : Nat) (ns : Str) (lv : LevelVersion) (pods : List PodObj) (e : Option Nat) :
    let r := dryRun ev exRC maxPods ns lv pods e
    let total := (prioritize exRC pods).length
    (Warning.onlyChecked r.2.length total ∈ r.1 ↔ r.2.length < total) ∧
    (∀ c t, Warning.onlyChecked c t ∈ r.1 → c = r.2.length ∧ t = total) := dryRun_honest ev exRC maxPods ns lv pods e

/-- … the number checked is min(k+1, total, cap) when the context expires at index k … -/
theorem C12_checked (ev : Ev) (exRC : List Str) (maxPods : Nat) (ns : Str) (lv : LevelVersion) (pods : List PodObj) (k : Nat) :
    (dryRun ev exRC maxPods ns lv pods (some k)).2.length = min (k + 1) (min maxPods (prioritize exRC pods).length) ∧
    (dryRun ev exRC maxPods ns lv pods none).2.length = min maxPods (prioritize exRC pods).length := by
  simp only [dryRun, List.length_map, dryRunEvaluated_length, loopChecked]
  constructor
  · split <;> omega
  · trivial

/-- … the pods evaluated are exactly the first `checked` prioritised pods, and the violations reported are exactly those of
    the pods actually checked: they are a function of that prefix alone. -/
theorem C12_reports_checked_only (ev : Ev) (exRC : List Str) (maxPods : Nat) (ns : Str) (lv : LevelVersion) (pods : List PodObj) (e : Option Nat) :
    (dryRun ev exRC maxPods ns lv pods e).2 = (dryRunEvaluated exRC maxPods pods e).map (fun p => (lv, p.name)) ∧
    dryRunEvaluated exRC maxPods pods e = (prioritize exRC pods).take (dryRunEvaluated exRC maxPods pods e).length ∧
    (dryRun ev exRC maxPods ns lv pods e).1.filterMap (fun w => match w with | .podLine t => some t | _ => none) =
      sortStrs ((groupsSpec (dryRunViolations ev lv (dryRunEvaluated exRC maxPods pods e))).map decorate) :=
  ⟨(dryRun_calls ev exRC maxPods ns lv pods e).1, (dryRun_calls ev exRC maxPods ns lv pods e).2.2,
   dryRun_lines ev exRC maxPods ns lv pods e⟩

/-- non-vacuity: three pods, expiry at index 0: one evaluation, "1 of 3" -/
example : (dryRun (fun _ _ => []) [] 3000 b!"ns" ⟨.baseline, .latest⟩
    [{ name := b!"a", pod := {} }, { name := b!"b", pod := {} }, { name := b!"c", pod := {} }] (some 0)).1 =
    [Warning.onlyChecked 1 3] := by decide

/-- tie obligation (F7): the cap is 3000 pods and the default budget one second -/
theorem C12_constants : Generated.namespaceMaxPodsToCheck = 3000 ∧ Generated.namespacePodCheckTimeoutNs = 1000000000 := by decide

#print axioms C12_timeout
#print axioms C12_timeout_le
#print axioms C12_lister_deadline
#print axioms C12_cap
#print axioms C12_siblings_after
#print axioms C12_honest
#print axioms C12_checked
#print axioms C12_reports_checked_only
#print axioms C12_constants
end PSA.Props

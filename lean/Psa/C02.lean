import Psa.ShippedProofs
namespace PSA

def allowedAll (rs : List CheckOut) : Bool := rs.all (·.allowed)

/-- the shipped evaluator: registry resolution, then every selected revision on the pod -/
def evalShipped (T : Tables) (relax : Bool) (l : Level) (v : Ver) (p : Pod) : List CheckOut :=
  ((populate shipped).evaluate l v).map (fun r => run T relax r p)

namespace Std
/-- baseline profile at policy version v1.V -/
def baseline (T : Tables) (V : Nat) (p : Pod) : Prop :=
  appArmor T p ∧ capabilities T p ∧ hostNamespaces p ∧ hostPath p ∧ hostPorts p ∧ privileged p ∧ procMount T p ∧
  seLinux (if V < 31 then T.selinux0 else T.selinux31) p ∧
  (if V < 19 then seccompAnn T p else seccompField T p) ∧
  sysctls (if V < 27 then T.sysctls0 else if V < 29 then T.sysctls27 else if V < 32 then T.sysctls29 else T.sysctls32) p ∧
  hostProcess p

/-- the three Linux-only restricted controls are waived for windows pods from v1.25 -/
def linuxOnly (T : Tables) (V : Nat) (p : Pod) (c : Prop) : Prop := (25 ≤ V ∧ p.windowsOS T = true) ∨ c

def restricted (T : Tables) (V : Nat) (p : Pod) : Prop :=
  baseline T V p ∧ volumeTypes T p ∧ runAsNonRoot p ∧
  (8 ≤ V → linuxOnly T V p (privilegeEscalation p)) ∧
  (19 ≤ V → linuxOnly T V p (seccompRequired T p)) ∧
  (22 ≤ V → linuxOnly T V p (capabilitiesRestricted T p)) ∧
  (23 ≤ V → runAsUser p)
end Std

theorem evalShipped_eq (T : Tables) (relax : Bool) (l : Level) (v : Ver) (p : Pod)
    (hv : v = .latest ∨ ∃ n, v = .mm 1 n) :
    evalShipped T relax l v p = (spec shipped l (clampV 32 v)).map (fun r => run T relax r p) := by
  unfold evalShipped
  rw [C04_resolves shipped shipped_wf l v hv, shipped_max]
  rfl

theorem clampV_le (M : Nat) (v : Ver) : clampV M v ≤ M := by
  cases v <;> simp [clampV]; omega

theorem C02_baseline (T : Tables) (v : Ver) (p : Pod) (hv : v = .latest ∨ ∃ n, v = .mm 1 n) :
    allowedAll (evalShipped T false .baseline v p) = true ↔ Std.baseline T (clampV 32 v) p := by
  rw [evalShipped_eq T false .baseline v p hv, spec_baseline_table _ (clampV_le 32 v)]
  generalize clampV 32 v = V
  simp only [allowedAll, activeBaseline, List.map_cons, List.map_nil, List.all_cons, List.all_nil, Bool.and_true,
    Bool.and_eq_true, Std.baseline]
  have e1 : (run T false RevId.appArmor0 p).allowed = true ↔ Std.appArmor T p := appArmor_spec T p
  have e2 : (run T false RevId.capsBaseline0 p).allowed = true ↔ Std.capabilities T p := capabilitiesBaseline_spec T p
  have e3 : (run T false RevId.hostNamespaces0 p).allowed = true ↔ Std.hostNamespaces p := hostNamespaces_spec p
  have e4 : (run T false RevId.hostPath0 p).allowed = true ↔ Std.hostPath p := hostPath_spec p
  have e5 : (run T false RevId.hostPorts0 p).allowed = true ↔ Std.hostPorts p := hostPorts_spec p
  have e6 : (run T false RevId.privileged0 p).allowed = true ↔ Std.privileged p := privileged_spec p
  have e7 : (run T false RevId.procMount0 p).allowed = true ↔ Std.procMount T p := procMount_spec T p
  have e8 : (run T false RevId.hostProcess0 p).allowed = true ↔ Std.hostProcess p := windowsHostProcess_spec p
  rw [e1, e2, e3, e4, e5, e6, e7, e8]
  have h1 : (run T false (if V < 31 then RevId.seLinux0 else RevId.seLinux31) p).allowed = true ↔
      Std.seLinux (if V < 31 then T.selinux0 else T.selinux31) p := by
    split
    · exact seLinux_spec T.selinux0 p
    · exact seLinux_spec T.selinux31 p
  have h2 : (run T false (if V < 19 then RevId.seccompB0 else RevId.seccompB19) p).allowed = true ↔
      (if V < 19 then Std.seccompAnn T p else Std.seccompField T p) := by
    split
    · exact seccompBaseline_1_0_spec T p
    · exact seccompBaseline_1_19_spec T p
  have h3 : (run T false (if V < 27 then RevId.sysctls0 else if V < 29 then RevId.sysctls27 else if V < 32 then RevId.sysctls29 else RevId.sysctls32) p).allowed = true ↔
      Std.sysctls (if V < 27 then T.sysctls0 else if V < 29 then T.sysctls27 else if V < 32 then T.sysctls29 else T.sysctls32) p := by
    split
    · exact sysctls_spec _ p
    · split
      · exact sysctls_spec _ p
      · split
        · exact sysctls_spec _ p
        · exact sysctls_spec _ p
  rw [h1, h2, h3]


/-- side conditions on the (regenerated) tables that the override edges need; `decide`d for the concrete tables -/
structure TablesOK (T : Tables) : Prop where
  hostPathNotAllowed : VolKind.hostPath ∉ T.volAllowed
  restrictedAddSub : ∀ x ∈ T.capsRestrictedAdd, x ∈ T.capsBaseline

/-- ApiValid in terms of the tables' notion of a windows pod -/
def ApiValidT (T : Tables) (p : Pod) : Prop :=
  (∀ v ∈ p.volumes, v.sources.length ≤ 1) ∧
  (p.windowsOS T = true →
     p.get (·.seccompType) = none ∧
     ∀ c ∈ p.visit, c.get (·.seccompType) = none ∧ c.get (·.caps) = none ∧ c.get (·.allowPrivEsc) = none)

theorem volumeTypes_hostPath (T : Tables) (p : Pod) (hT : VolKind.hostPath ∉ T.volAllowed)
    (hv : ∀ v ∈ p.volumes, v.sources.length ≤ 1) : Std.volumeTypes T p → Std.hostPath p := by
  intro h v hvm hhp
  obtain ⟨k, hk, hka⟩ := h v hvm
  have h1 := hv v hvm
  match hs : v.sources, h1, hk, hhp with
  | [x], _, hk, hhp =>
    simp only [hs, List.mem_singleton] at *
    subst hk; subst hhp; exact hT hka
  | [], _, hk, _ => simp at hk
  | _ :: _ :: _, h1, _, _ => simp at h1

theorem capsRestricted_baseline (T : Tables) (p : Pod) (hT : ∀ x ∈ T.capsRestrictedAdd, x ∈ T.capsBaseline) :
    Std.capabilitiesRestricted T p → Std.capabilities T p := by
  intro h c hc k hk x hx
  obtain ⟨k', hk', _, hadd⟩ := h c hc
  rw [hk] at hk'; cases hk'
  exact hT x (hadd x hx)

theorem windows_caps (T : Tables) (p : Pod) (hv : ApiValidT T p) (hw : p.windowsOS T = true) : Std.capabilities T p := by
  intro c hc k hk
  have := ((hv.2 hw).2 c hc).2.1
  rw [this] at hk; cases hk

theorem windows_seccomp (T : Tables) (p : Pod) (hv : ApiValidT T p) (hw : p.windowsOS T = true) : Std.seccompField T p := by
  refine ⟨fun t ht => ?_, fun c hc t ht => ?_⟩
  · rw [(hv.2 hw).1] at ht; cases ht
  · rw [((hv.2 hw).2 c hc).1] at ht; cases ht

theorem allowedAll_append (a b : List CheckOut) : allowedAll (a ++ b) = true ↔ allowedAll a = true ∧ allowedAll b = true := by
  simp [allowedAll, List.all_append]

theorem C02_restricted (T : Tables) (hT : TablesOK T) (v : Ver) (p : Pod) (hv : v = .latest ∨ ∃ n, v = .mm 1 n)
    (hp : ApiValidT T p) :
    allowedAll (evalShipped T false .restricted v p) = true ↔ Std.restricted T (clampV 32 v) p := by
  rw [evalShipped_eq T false .restricted v p hv, spec_restricted_table _ (clampV_le 32 v)]
  generalize clampV 32 v = V
  have e1 : (run T false RevId.appArmor0 p).allowed = true ↔ Std.appArmor T p := appArmor_spec T p
  have e2 : (run T false RevId.capsBaseline0 p).allowed = true ↔ Std.capabilities T p := capabilitiesBaseline_spec T p
  have e3 : (run T false RevId.hostNamespaces0 p).allowed = true ↔ Std.hostNamespaces p := hostNamespaces_spec p
  have e5 : (run T false RevId.hostPorts0 p).allowed = true ↔ Std.hostPorts p := hostPorts_spec p
  have e6 : (run T false RevId.privileged0 p).allowed = true ↔ Std.privileged p := privileged_spec p
  have e7 : (run T false RevId.procMount0 p).allowed = true ↔ Std.procMount T p := procMount_spec T p
  have e8 : (run T false RevId.hostProcess0 p).allowed = true ↔ Std.hostProcess p := windowsHostProcess_spec p
  have e9 : (run T false RevId.restrictedVolumes0 p).allowed = true ↔ Std.volumeTypes T p := restrictedVolumes_spec T p
  have e10 : (run T false RevId.runAsNonRoot0 p).allowed = true ↔ Std.runAsNonRoot p := runAsNonRoot_spec p
  have e11 : (run T false RevId.runAsUser23 p).allowed = true ↔ Std.runAsUser p := runAsUser_spec p
  have e12 : (run T false RevId.allowPrivEsc8 p).allowed = true ↔ Std.privilegeEscalation p := allowPrivilegeEscalation_spec p
  have e13 : (run T false RevId.capsRestricted22 p).allowed = true ↔ Std.capabilitiesRestricted T p := capabilitiesRestricted_1_22_spec T p
  have e14 : (run T false RevId.seccompR19 p).allowed = true ↔ Std.seccompRequired T p := seccompRestricted_1_19_spec T p
  have e15 : (run T false RevId.seccompB0 p).allowed = true ↔ Std.seccompAnn T p := seccompBaseline_1_0_spec T p
  have w12 : (run T false RevId.allowPrivEsc25 p).allowed = true ↔ (p.windowsOS T = true ∨ Std.privilegeEscalation p) := by
    show (allowPrivilegeEscalation_1_25 T p).allowed = true ↔ _
    unfold allowPrivilegeEscalation_1_25
    by_cases hw : p.windowsOS T = true
    · simp [hw, CheckOut.ok]
    · simp only [hw, Bool.false_eq_true, ↓reduceIte, false_or]; exact allowPrivilegeEscalation_spec p
  have w13 : (run T false RevId.capsRestricted25 p).allowed = true ↔ (p.windowsOS T = true ∨ Std.capabilitiesRestricted T p) := by
    show (capabilitiesRestricted_1_25 T p).allowed = true ↔ _
    unfold capabilitiesRestricted_1_25
    by_cases hw : p.windowsOS T = true
    · simp [hw, CheckOut.ok]
    · simp only [hw, Bool.false_eq_true, ↓reduceIte, false_or]; exact capabilitiesRestricted_1_22_spec T p
  have w14 : (run T false RevId.seccompR25 p).allowed = true ↔ (p.windowsOS T = true ∨ Std.seccompRequired T p) := by
    show (seccompRestricted_1_25 T p).allowed = true ↔ _
    unfold seccompRestricted_1_25
    by_cases hw : p.windowsOS T = true
    · simp [hw, CheckOut.ok]
    · simp only [hw, Bool.false_eq_true, ↓reduceIte, false_or]; exact seccompRestricted_1_19_spec T p
  have h1 : (run T false (if V < 31 then RevId.seLinux0 else RevId.seLinux31) p).allowed = true ↔
      Std.seLinux (if V < 31 then T.selinux0 else T.selinux31) p := by
    split
    · exact seLinux_spec T.selinux0 p
    · exact seLinux_spec T.selinux31 p
  have h3 : (run T false (if V < 27 then RevId.sysctls0 else if V < 29 then RevId.sysctls27 else if V < 32 then RevId.sysctls29 else RevId.sysctls32) p).allowed = true ↔
      Std.sysctls (if V < 27 then T.sysctls0 else if V < 29 then T.sysctls27 else if V < 32 then T.sysctls29 else T.sysctls32) p := by
    split
    · exact sysctls_spec _ p
    · split
      · exact sysctls_spec _ p
      · split
        · exact sysctls_spec _ p
        · exact sysctls_spec _ p
  have hHP : Std.volumeTypes T p → Std.hostPath p := volumeTypes_hostPath T p hT.hostPathNotAllowed hp.1
  simp only [activeRestricted, List.map_append, allowedAll_append]
  simp only [allowedAll, List.map_cons, List.map_nil, List.all_cons, List.all_nil, Bool.and_true, Bool.and_eq_true,
    Std.restricted, Std.baseline, Std.linuxOnly]
  rw [e1, e3, e5, e6, e7, e8, e9, e10, h1, h3]
  -- the version-dependent segments
  have hCB : Std.capabilitiesRestricted T p → Std.capabilities T p := capsRestricted_baseline T p hT.restrictedAddSub
  have hWC : p.windowsOS T = true → Std.capabilities T p := windows_caps T p hp
  have hWS : p.windowsOS T = true → Std.seccompField T p := windows_seccomp T p hp
  have hSR : Std.seccompRequired T p → Std.seccompField T p := fun h => h.1
  by_cases h8 : V < 8
  · have : V < 19 := by omega
    have : V < 22 := by omega
    have : V < 23 := by omega
    have : V < 25 := by omega
    simp only [*, ↓reduceIte, List.map_cons, List.map_nil, List.all_cons, List.all_nil, Bool.and_true, e2, e15]
    grind
  · by_cases h19 : V < 19
    · have : V < 22 := by omega
      have : V < 23 := by omega
      have : V < 25 := by omega
      simp only [*, ↓reduceIte, List.map_cons, List.map_nil, List.all_cons, List.all_nil, Bool.and_true, e2, e15, e12]
      grind
    · by_cases h22 : V < 22
      · have : V < 23 := by omega
        have : V < 25 := by omega
        simp only [*, ↓reduceIte, List.map_cons, List.map_nil, List.all_cons, List.all_nil, Bool.and_true, e2, e12, e14]
        grind
      · by_cases h23 : V < 23
        · have : V < 25 := by omega
          simp only [*, ↓reduceIte, List.map_cons, List.map_nil, List.all_cons, List.all_nil, Bool.and_true, e12, e13, e14]
          grind
        · by_cases h25 : V < 25
          · simp only [*, ↓reduceIte, List.map_cons, List.map_nil, List.all_cons, List.all_nil, Bool.and_true, e11, e12, e13, e14]
            grind
          · simp only [*, ↓reduceIte, List.map_cons, List.map_nil, List.all_cons, List.all_nil, Bool.and_true, e11, w12, w13, w14]
            grind

#print axioms C02_restricted
end PSA

namespace PSA
/-- C03: at every version, restricted ⇒ baseline, for every API-valid pod; needs only the two table side conditions -/
theorem C03_order (T : Tables) (hT : TablesOK T) (v : Ver) (p : Pod) (hv : v = .latest ∨ ∃ n, v = .mm 1 n)
    (hp : ApiValidT T p) :
    allowedAll (evalShipped T false .restricted v p) = true → allowedAll (evalShipped T false .baseline v p) = true := by
  intro h
  exact (C02_baseline T v p hv).mpr ((C02_restricted T hT v p hv hp).mp h).1

theorem C03_privileged (T : Tables) (r : Bool) (v : Ver) (p : Pod) : evalShipped T r .privileged v p = [] := by
  simp [evalShipped, Registry.evaluate]
#print axioms C03_order
end PSA

import Psa.Metrics
/-! metrics/metrics.go, `evaluationsCounter` / `exemptionsCounter`: a Prometheus counter vector behind a cache of counter
    handles for the hottest label tuples.

    * the vector maps a label tuple to a *handle* (a cell holding a count); `WithLabelValues` gets or creates the handle;
    * `CachedInc` increments the cached handle of the tuple if there is one, the vector's handle otherwise;
    * `Reset` empties the vector (old handles stay alive but are no longer gathered) and re-populates the cache with
      *fresh* handles of the tuples to cache.

    What is gathered for a tuple is the count of the vector's current handle. The machine refines the plain counter map of
    `Psa/Metrics.lean` (`Counters`) as long as the cache is *coherent* — every cached handle is the vector's current handle
    for its tuple — which `reset` establishes and `inc` preserves. A variant that keeps the cache across a reset is not: its
    witness is below. Each operation is one atomic step (increments under the read lock commute, `Reset` holds the write
    lock), so a history is a list of operations. -/
namespace PSA.MetricsCache
open PSA

abbrev Key := List Str

structure Vec where
  cells : List Nat               -- handle i holds cells[i]
  cur : List (Key × Nat)         -- the vector: label tuple → current handle
  cache : List (Key × Nat)       -- cached handles
  deriving Repr

def lookup (m : List (Key × Nat)) (k : Key) : Option Nat := (m.find? (·.1 = k)).map (·.2)

/-- `WithLabelValues`: the current handle of `k`, created (with count 0) if there is none -/
def getOrCreate (v : Vec) (k : Key) : Vec × Nat :=
  match lookup v.cur k with
  | some h => (v, h)
  | none => ({ v with cells := v.cells ++ [0], cur := v.cur ++ [(k, v.cells.length)] }, v.cells.length)

def bump (cells : List Nat) (h : Nat) : List Nat := cells.modify h (· + 1)

/-- `CachedInc` -/
def inc (v : Vec) (k : Key) : Vec :=
  match lookup v.cache k with
  | some h => { v with cells := bump v.cells h }
  | none => let (v', h) := getOrCreate v k; { v' with cells := bump v'.cells h }

/-- `populateCache` -/
def populate (toCache : List Key) (v : Vec) : Vec :=
  toCache.foldl (fun v k => let (v', h) := getOrCreate v k; { v' with cache := (k, h) :: v'.cache.filter (·.1 ≠ k) }) v

/-- `Reset`: the vector forgets every series, the cache is rebuilt from fresh handles -/
def reset (toCache : List Key) (v : Vec) : Vec := populate toCache { v with cur := [], cache := [] }

/-- the variant of seeded change C18-b: the cache survives the reset -/
def resetKeepingCache (v : Vec) : Vec := { v with cur := [] }

def init (toCache : List Key) : Vec := reset toCache ⟨[], [], []⟩

/-- what a scrape shows for a tuple -/
def count (v : Vec) (k : Key) : Nat := match lookup v.cur k with | some h => v.cells.getD h 0 | none => 0

/-- coherence: cached handles are the vector's current ones; handles are valid and not shared between tuples -/
structure Inv (v : Vec) : Prop where
  coherent : ∀ k h, lookup v.cache k = some h → lookup v.cur k = some h
  valid : ∀ k h, lookup v.cur k = some h → h < v.cells.length
  inj : ∀ k k' h, lookup v.cur k = some h → lookup v.cur k' = some h → k = k'

inductive Op | inc (k : Key) | reset
def step (toCache : List Key) (v : Vec) : Op → Vec
  | .inc k => inc v k
  | .reset => reset toCache v
def run (toCache : List Key) (v : Vec) (ops : List Op) : Vec := ops.foldl (step toCache) v

/-- the specification: a plain counter map, emptied by a reset -/
def specStep (c : Counters) : Op → Counters
  | .inc k => c.inc k
  | .reset => c.reset
def specRun (c : Counters) (ops : List Op) : Counters := ops.foldl specStep c

/-! ### lemmas -/

theorem lookup_append_ne (m : List (Key × Nat)) (k k' : Key) (h : Nat) (hne : k' ≠ k) :
    lookup (m ++ [(k', h)]) k = lookup m k := by
  unfold lookup
  rw [List.find?_append]
  cases hf : m.find? (fun x => decide (x.1 = k)) with
  | some x => simp
  | none => simp [hne]

theorem lookup_append_self (m : List (Key × Nat)) (k : Key) (h : Nat) (hnone : lookup m k = none) :
    lookup (m ++ [(k, h)]) k = some h := by
  unfold lookup at *
  rw [List.find?_append]
  cases hf : m.find? (fun x => decide (x.1 = k)) with
  | some x => simp [hf] at hnone
  | none => simp

theorem getD_bump (cells : List Nat) (h i : Nat) (hv : h < cells.length) :
    (bump cells h).getD i 0 = cells.getD i 0 + (if i = h then 1 else 0) := by
  unfold bump
  simp only [List.getD_eq_getElem?_getD, List.getElem?_modify]
  by_cases hi : i = h
  · subst hi
    simp [List.getElem?_eq_getElem hv]
  · have : ¬ h = i := fun e => hi e.symm
    simp [hi, this]

theorem length_bump (cells : List Nat) (h : Nat) : (bump cells h).length = cells.length := by simp [bump]

/-- `getOrCreate` keeps the invariant, leaves every count unchanged, and returns the current, valid handle of `k` -/
theorem getOrCreate_spec (v : Vec) (k : Key) (hi : Inv v) :
    Inv (getOrCreate v k).1 ∧ lookup (getOrCreate v k).1.cur k = some (getOrCreate v k).2 ∧
    (getOrCreate v k).2 < (getOrCreate v k).1.cells.length ∧
    (∀ k', count (getOrCreate v k).1 k' = count v k') ∧ (getOrCreate v k).1.cache = v.cache := by
  cases hl : lookup v.cur k with
  | some h =>
    simp only [getOrCreate, hl]
    refine ⟨hi, ?_, hi.valid k h hl, ?_, ?_⟩ <;> first | trivial | exact hl | (intro _; trivial) | rfl
  | none =>
    simp only [getOrCreate, hl]
    have hself := lookup_append_self v.cur k v.cells.length hl
    refine ⟨⟨?_, ?_, ?_⟩, hself, by simp, ?_, trivial⟩
    · intro k' h' hc
      have h1 := hi.coherent k' h' hc
      by_cases hk : k = k'
      · subst hk; rw [hl] at h1; cases h1
      · rw [lookup_append_ne _ _ _ _ hk]; exact h1
    · intro k' h' hc
      by_cases hk : k = k'
      · subst hk; rw [hself] at hc; cases hc; simp
      · rw [lookup_append_ne _ _ _ _ hk] at hc
        have := hi.valid k' h' hc
        simp; omega
    · intro k1 k2 h' h1 h2
      by_cases e1 : k = k1 <;> by_cases e2 : k = k2
      · rw [← e1, ← e2]
      · subst e1
        rw [hself] at h1; cases h1
        rw [lookup_append_ne _ _ _ _ e2] at h2
        have := hi.valid k2 _ h2
        omega
      · subst e2
        rw [hself] at h2; cases h2
        rw [lookup_append_ne _ _ _ _ e1] at h1
        have := hi.valid k1 _ h1
        omega
      · rw [lookup_append_ne _ _ _ _ e1] at h1
        rw [lookup_append_ne _ _ _ _ e2] at h2
        exact hi.inj k1 k2 h' h1 h2
    · intro k'
      unfold count
      by_cases hk : k = k'
      · subst hk
        simp only [hself, hl]
        simp [List.getD_eq_getElem?_getD]
      · rw [lookup_append_ne _ _ _ _ hk]
        cases hc : lookup v.cur k' with
        | none => rfl
        | some h' =>
          have := hi.valid k' h' hc
          simp [List.getD_eq_getElem?_getD, List.getElem?_append_left this]

/-- incrementing a valid handle `h` that is the current handle of `k` adds one to `k` and to nothing else -/
theorem count_bump (v : Vec) (k : Key) (h : Nat) (hi : Inv v) (hk : lookup v.cur k = some h) (k' : Key) :
    count { v with cells := bump v.cells h } k' = count v k' + (if k = k' then 1 else 0) := by
  unfold count
  simp only
  cases hc : lookup v.cur k' with
  | none =>
    have : ¬ k = k' := by intro e; subst e; rw [hk] at hc; cases hc
    simp [this]
  | some h' =>
    simp only
    rw [getD_bump _ _ _ (hi.valid k h hk)]
    by_cases e : k = k'
    · subst e; rw [hk] at hc; cases hc; simp
    · have : ¬ h' = h := by intro eh; subst eh; exact e (hi.inj k k' h' hk hc)
      simp [e, this]

theorem inv_bump (v : Vec) (h : Nat) (hi : Inv v) : Inv { v with cells := bump v.cells h } :=
  ⟨hi.coherent, fun k h' hc => by simpa [length_bump] using hi.valid k h' hc, hi.inj⟩

/-- **one increment**: adds exactly one to its own tuple, and the cache stays coherent — whether the tuple was cached or not -/
theorem inc_spec (v : Vec) (k : Key) (hi : Inv v) :
    Inv (inc v k) ∧ ∀ k', count (inc v k) k' = count v k' + (if k = k' then 1 else 0) := by
  unfold inc
  cases hc : lookup v.cache k with
  | some h =>
    have hk := hi.coherent k h hc
    exact ⟨inv_bump v h hi, count_bump v k h hi hk⟩
  | none =>
    obtain ⟨hi', hk', _, hcnt, _⟩ := getOrCreate_spec v k hi
    simp only
    refine ⟨inv_bump _ _ hi', fun k' => ?_⟩
    rw [count_bump _ k _ hi' hk' k', hcnt k']

theorem lookup_cons (m : List (Key × Nat)) (k k' : Key) (h : Nat) :
    lookup ((k, h) :: m) k' = if k = k' then some h else lookup m k' := by
  unfold lookup
  by_cases e : k = k' <;> simp [List.find?_cons, e]

theorem lookup_filter_ne (m : List (Key × Nat)) (k k' : Key) (hne : k ≠ k') :
    lookup (m.filter (·.1 ≠ k)) k' = lookup m k' := by
  unfold lookup
  induction m with
  | nil => rfl
  | cons x xs ih =>
    simp only [List.filter_cons]
    by_cases hx : x.1 = k
    · have h1 : decide (x.1 ≠ k) = false := by simp [hx]
      have h2 : decide (x.1 = k') = false := by
        simp only [decide_eq_false_iff_not]; intro e; exact hne (hx.symm.trans e)
      rw [h1]
      simp only [Bool.false_eq_true, ↓reduceIte, List.find?_cons, h2]
      exact ih
    · have h1 : decide (x.1 ≠ k) = true := by simp [hx]
      rw [h1]
      simp only [↓reduceIte, List.find?_cons]
      cases hd : decide (x.1 = k') with
      | true => rfl
      | false => exact ih

/-- `populateCache` keeps the invariant and changes no count -/
theorem populate_spec (toCache : List Key) (v : Vec) (hi : Inv v) :
    Inv (populate toCache v) ∧ ∀ k', count (populate toCache v) k' = count v k' := by
  induction toCache generalizing v with
  | nil => exact ⟨hi, fun _ => rfl⟩
  | cons k ks ih =>
    simp only [populate, List.foldl_cons]
    obtain ⟨hi', hk', hv', hcnt, hcache⟩ := getOrCreate_spec v k hi
    have hi2 : Inv { (getOrCreate v k).1 with cache := (k, (getOrCreate v k).2) :: (getOrCreate v k).1.cache.filter (·.1 ≠ k) } := by
      refine ⟨?_, hi'.valid, hi'.inj⟩
      intro k' h' hc
      simp only at hc
      rw [lookup_cons] at hc
      by_cases e : k = k'
      · subst e; simp at hc; rw [← hc]; exact hk'
      · simp only [e, ↓reduceIte] at hc
        rw [lookup_filter_ne _ _ _ e] at hc
        exact hi'.coherent k' h' hc
    have := ih _ hi2
    refine ⟨this.1, fun k' => ?_⟩
    have h2 := this.2 k'
    simp only [populate] at h2
    rw [h2]
    exact hcnt k'

theorem inv_empty (cells : List Nat) : Inv ⟨cells, [], []⟩ :=
  ⟨fun _ _ h => by simp [lookup] at h, fun _ _ h => by simp [lookup] at h, fun _ _ _ h => by simp [lookup] at h⟩

/-- **reset**: afterwards every tuple shows zero and the cache is coherent again (with fresh handles) -/
theorem reset_spec (toCache : List Key) (v : Vec) : Inv (reset toCache v) ∧ ∀ k, count (reset toCache v) k = 0 := by
  unfold reset
  have := populate_spec toCache { v with cur := [], cache := [] } (inv_empty v.cells)
  exact ⟨this.1, fun k => by rw [this.2 k]; simp [count, lookup]⟩

/-- **Refinement**: from a coherent state whose scrape equals a counter map, every history of increments and resets ends in a
    coherent state whose scrape equals the plain counter map run over the same history. -/
theorem run_refines (toCache : List Key) (v : Vec) (c : Counters) (ops : List Op) (hi : Inv v)
    (h0 : ∀ k, count v k = c.get k) :
    Inv (run toCache v ops) ∧ ∀ k, count (run toCache v ops) k = (specRun c ops).get k := by
  induction ops generalizing v c with
  | nil => exact ⟨hi, h0⟩
  | cons op ops ih =>
    simp only [run, specRun, List.foldl_cons]
    cases op with
    | inc k =>
      obtain ⟨hi', hc⟩ := inc_spec v k hi
      exact ih (inc v k) (c.inc k) hi' (fun k' => by rw [hc k', Counters.get_inc, h0 k'])
    | reset =>
      obtain ⟨hi', hc⟩ := reset_spec toCache v
      exact ih (reset toCache v) c.reset hi' (fun k' => by rw [hc k']; rfl)

/-- from the initial state -/
theorem run_init (toCache : List Key) (ops : List Op) (k : Key) :
    count (run toCache (init toCache) ops) k = (specRun [] ops).get k := by
  obtain ⟨hi, hc⟩ := reset_spec toCache ⟨[], [], []⟩
  exact (run_refines toCache (init toCache) [] ops hi (fun k' => by rw [init, hc k']; rfl)).2 k

/-- the variant that keeps the cache across a reset loses increments: record, reset, record — the scrape shows 0, not 1 -/
theorem keepingCache_loses :
    let k : Key := [b!"create", b!"pod", b!""]
    let v0 := init [k]
    let v1 := inc v0 k
    let v2 := resetKeepingCache v1
    let v3 := inc v2 k
    count v3 k = 0 ∧ (specRun [] [Op.inc k, Op.reset, Op.inc k]).get k = 1 := by decide

end PSA.MetricsCache

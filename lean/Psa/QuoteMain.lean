import Psa.QuoteShapes
namespace PSA


theorem typesPart_segs (o : CheckOut) (h : Clean o) (r : Str) :
    quotedSegs (pluralize b!"type" b!"types" (sortDedup o.values).length ++ b!" " ++ joinQuote (sortDedup o.values) ++ r) =
      sortDedup o.values ++ quotedSegs r := by
  rw [List.append_assoc, List.append_assoc]
  show segsAux false [] _ = _
  rw [sa_pluralize _ _ _ _ (by decide) (by decide), segs_out_lit _ _ (show noQ b!" " by decide), sa_joinQuote _ _ h.sd]
  rfl

theorem typesPart_balanced (o : CheckOut) (h : Clean o) :
    Balanced (pluralize b!"type" b!"types" (sortDedup o.values).length ++ b!" " ++ joinQuote (sortDedup o.values)) := by
  intro r
  have a := typesPart_segs o h r
  have b := typesPart_segs o h []
  have hq : quotedSegs ([] : Str) = [] := rfl
  simp only [List.append_nil, hq] at b
  rw [a, b]

theorem segs_seLinux (o : CheckOut) (h : Clean o) (s : Str)
    (hs : s ∈ segsAux false [] (andJoin (setters o) ++ b!" set forbidden securityContext.seLinuxOptions: " ++
      Str.join b!"; " ((if (sortDedup o.values).isEmpty then [] else
          [pluralize b!"type" b!"types" (sortDedup o.values).length ++ b!" " ++ joinQuote (sortDedup o.values)]) ++ o.extra))) :
    s ∈ o.containers ∨ s ∈ sortDedup o.values := by
  have hbal : ∀ p ∈ ((if (sortDedup o.values).isEmpty then [] else
        [pluralize b!"type" b!"types" (sortDedup o.values).length ++ b!" " ++ joinQuote (sortDedup o.values)]) ++ o.extra), Balanced p := by
    intro p hp
    rcases List.mem_append.mp hp with hp | hp
    · split at hp
      · cases hp
      · have := List.mem_singleton.mp hp; subst this; exact typesPart_balanced o h
    · exact balanced_lit _ (h.extra p hp)
  rw [List.append_assoc, sa_setters0 o _ h.cs, segs_out_lit _ _ (by decide), sa_join_balanced_end _ (by decide) _ hbal,
    List.flatMap_append, flatMap_noQ _ h.extra, List.append_nil] at hs
  rcases List.mem_append.mp hs with hs | hs
  · left; exact hs
  · right
    split at hs
    · cases hs
    · have b := typesPart_segs o h []
      have hq : quotedSegs ([] : Str) = [] := rfl
      simp only [List.append_nil, hq] at b
      simp only [List.flatMap_cons, List.flatMap_nil, List.append_nil] at hs
      rw [b] at hs
      exact hs

theorem segs_appArmor (o : CheckOut) (h : Clean o) (s : Str)
    (hs : s ∈ segsAux false [] (andJoin (setters o ++ (if o.flags.isEmpty then [] else [pluralize b!"annotation" b!"annotations" o.flags.length])) ++
      b!" must not set AppArmor profile type to " ++ joinQuote (sortDedup o.values ++ sortStrs o.flags))) :
    s ∈ o.containers ∨ s ∈ sortDedup o.values ++ sortStrs o.flags := by
  have hex : ∀ p ∈ (if o.flags.isEmpty then [] else [pluralize b!"annotation" b!"annotations" o.flags.length]), noQ p := by
    intro p hp; split at hp
    · cases hp
    · have := List.mem_singleton.mp hp; subst this; exact noQ_pluralize _ _ _ (by decide) (by decide)
  have hall : ∀ x ∈ sortDedup o.values ++ sortStrs o.flags, noQ x := by
    intro x hx; rcases List.mem_append.mp hx with hx | hx
    · exact h.sd x hx
    · exact h.sf x hx
  rw [List.append_assoc, sa_setters o _ _ h.cs hex, segs_out_lit _ _ (by decide), sa_joinQuote_end _ hall] at hs
  exact List.mem_append.mp hs

theorem dropAllPart_segs (o : CheckOut) (h : Clean o) (r : Str) :
    quotedSegs (ctrs o.containers ++ b!" must set securityContext.capabilities.drop=[\"ALL\"]" ++ r) =
      o.containers ++ b!"ALL" :: quotedSegs r := by
  rw [List.append_assoc]
  show segsAux false [] _ = _
  rw [sa_ctrs _ _ h.cs]
  exact congrArg _ (segs_dropAll r)

theorem addPart_segs (o : CheckOut) (h : Clean o) (r : Str) :
    quotedSegs (ctrs o.containers2 ++ b!" must not include " ++ joinQuote (sortDedup o.values) ++
          b!" in securityContext.capabilities.add" ++ r) = o.containers2 ++ (sortDedup o.values ++ quotedSegs r) := by
  rw [List.append_assoc, List.append_assoc, List.append_assoc]
  show segsAux false [] _ = _
  rw [sa_ctrs _ _ h.cs2, segs_out_lit _ _ (by decide), sa_joinQuote _ _ h.sd, segs_out_lit _ _ (by decide)]
  rfl

theorem segs_capsRestricted (o : CheckOut) (h : Clean o) (s : Str)
    (hs : s ∈ segsAux false [] (Str.join b!"; " ((if o.containers.isEmpty then [] else
          [ctrs o.containers ++ b!" must set securityContext.capabilities.drop=[\"ALL\"]"]) ++
        (if o.containers2.isEmpty then [] else
          [ctrs o.containers2 ++ b!" must not include " ++ joinQuote (sortDedup o.values) ++
            b!" in securityContext.capabilities.add"])))) :
    s ∈ o.containers ++ o.containers2 ∨ s ∈ b!"ALL" :: sortDedup o.values := by
  have hq : quotedSegs ([] : Str) = [] := rfl
  have b1 := dropAllPart_segs o h []
  have b2 := addPart_segs o h []
  simp only [List.append_nil, hq] at b1 b2
  have hbal : ∀ p ∈ ((if o.containers.isEmpty then [] else
        [ctrs o.containers ++ b!" must set securityContext.capabilities.drop=[\"ALL\"]"]) ++
      (if o.containers2.isEmpty then [] else
        [ctrs o.containers2 ++ b!" must not include " ++ joinQuote (sortDedup o.values) ++
          b!" in securityContext.capabilities.add"])), Balanced p := by
    intro p hp
    rcases List.mem_append.mp hp with hp | hp
    · split at hp
      · cases hp
      · have := List.mem_singleton.mp hp; subst this
        intro r; rw [dropAllPart_segs o h r, b1]; simp
    · split at hp
      · cases hp
      · have := List.mem_singleton.mp hp; subst this
        intro r; rw [addPart_segs o h r, b2]; simp
  rw [sa_join_balanced_end _ (by decide) _ hbal, List.flatMap_append] at hs
  rcases List.mem_append.mp hs with hs | hs
  · split at hs
    · cases hs
    · simp only [List.flatMap_cons, List.flatMap_nil, List.append_nil, b1] at hs
      rcases List.mem_append.mp hs with hs | hs
      · left; exact List.mem_append_left _ hs
      · right; simp at hs; simp [hs]
  · split at hs
    · cases hs
    · simp only [List.flatMap_cons, List.flatMap_nil, List.append_nil, b2] at hs
      rcases List.mem_append.mp hs with hs | hs
      · left; exact List.mem_append_right _ hs
      · right; exact List.mem_cons_of_mem _ hs

theorem detail_segs (k : Kind) (o : CheckOut) (h : Clean o) :
    ∀ s ∈ quotedSegs (k.detail o), s ∈ k.named o ∨ s ∈ k.quotedValues o := by
  intro s hs
  have hcs := h.cs; have hcs2 := h.cs2; have hv := h.vols; have hsd := h.sd; have hsf := h.sf
  have pUses := fun n rest => sa_pluralize b!"uses" b!"use" n rest (by decide) (by decide)
  have pPort := fun n rest => sa_pluralize b!"hostPort" b!"hostPorts" n rest (by decide) (by decide)
  have pVol := fun n rest => sa_pluralize b!"volume" b!"volumes" n rest (by decide) (by decide)
  have pAnn := fun n rest => sa_pluralize b!"annotation" b!"annotations" n rest (by decide) (by decide)
  have pRvt := fun n rest => sa_pluralize b!"restricted volume type" b!"restricted volume types" n rest (by decide) (by decide)
  cases k <;> simp only [Kind.detail, Kind.named, Kind.quotedValues, quotedSegs] at hs ⊢
  case privileged =>
    simp [sa_ctrs _ _ hcs, segsAux] at hs
    left; exact hs
  case allowPrivEsc =>
    simp [sa_ctrs _ _ hcs, segsAux] at hs
    left; exact hs
  case capsBaseline =>
    simp [sa_ctrs _ _ hcs, segsAux, sa_joinQuote _ _ hsd] at hs
    exact hs
  case procMount =>
    simp [sa_ctrs _ _ hcs, segsAux, sa_joinQuote_end _ hsd] at hs
    exact hs
  case hostNamespaces =>
    rw [sa_lit_end _ (noQ_join _ _ (by decide) h.flags)] at hs; cases hs
  case sysctls =>
    rw [sa_lit_end _ (noQ_join _ _ (by decide) h.flags)] at hs; cases hs
  case hostPorts =>
    have hj : noQ (Str.join b!", " (sortDedup o.values)) := noQ_join _ _ (by decide) hsd
    simp [sa_ctrs _ _ hcs, segsAux, pUses, pPort, sa_lit_end _ hj] at hs
    left; exact hs
  case hostPath =>
    simp [segsAux, pVol, sa_joinQuote_end _ hv] at hs
    left; exact hs
  case seccompAnn =>
    have hj : noQ (Str.join b!", " (sortDedup o.values)) := noQ_join _ _ (by decide) hsd
    simp [segsAux, pAnn, sa_lit_end _ hj] at hs
  case seccompField =>
    simp [sa_setters0 _ _ hcs, segsAux, sa_joinQuote_end _ hsd] at hs
    exact hs
  case hostProcess =>
    simp [sa_setters0 _ _ hcs, segsAux] at hs
    left; exact hs
  case runAsUser =>
    simp [sa_setters0 _ _ hcs, segsAux] at hs
    left; exact hs
  case restrictedVolumes =>
    simp [segsAux, pVol, pUses, pRvt, sa_joinQuote _ _ hv, sa_joinQuote_end _ hsd] at hs
    exact hs
  case runAsNonRoot =>
    split at hs
    · next hc =>
      simp only [hc, ↓reduceIte]
      simp [sa_setters0 _ _ hcs, segsAux] at hs
      left; exact hs
    · next hc =>
      simp only [hc, ↓reduceIte]
      simp [sa_ctrs _ _ hcs2, segsAux] at hs
      left; exact hs
  case seccompRestricted =>
    split at hs
    · next hc =>
      simp only [hc, ↓reduceIte]
      simp [sa_setters0 _ _ hcs, segsAux, sa_joinQuote_end _ hsd] at hs
      rcases hs with hs | hs
      · left; exact hs
      · right; exact List.mem_append_left _ hs
    · next hc =>
      simp only [hc, ↓reduceIte]
      simp [sa_ctrs _ _ hcs2, segsAux] at hs
      rcases hs with hs | hs | hs
      · left; exact hs
      · right; simp [hs]
      · right; simp [hs]
  case appArmor => exact segs_appArmor o h s hs
  case seLinux => exact segs_seLinux o h s hs
  case capsRestricted => exact segs_capsRestricted o h s hs

end PSA

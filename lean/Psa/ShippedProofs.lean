import Psa.Shipped
import Psa.Standard
import Psa.RegistryProofs
namespace PSA

/-- tie obligation: every registered revision has a model function -/
theorem meta_all_modelled : ∀ c ∈ Generated.metaChecks, ∀ r ∈ c.2.2, (revOf c.1 r.2.1).isSome = true := by decide

theorem shipped_wf : WellFormed shipped where
  ids := by decide
  levels := by decide
  nonempty := by decide
  major := by decide
  increasing := by decide
  overrides := by decide

theorem shipped_max : maxVersionOf shipped = .mm 1 32 := by decide

/-- which revisions run, written the way a reader of the Standard would: by version thresholds -/
def activeBaseline (V : Nat) : List RevId :=
  [.appArmor0, .capsBaseline0, .hostNamespaces0, .hostPath0, .hostPorts0, .privileged0, .procMount0,
   (if V < 31 then .seLinux0 else .seLinux31), (if V < 19 then .seccompB0 else .seccompB19),
   (if V < 27 then .sysctls0 else if V < 29 then .sysctls27 else if V < 32 then .sysctls29 else .sysctls32),
   .hostProcess0]

def activeRestricted (V : Nat) : List RevId :=
  [.appArmor0] ++ (if V < 22 then [.capsBaseline0] else []) ++ [.hostNamespaces0, .hostPorts0, .privileged0, .procMount0,
   (if V < 31 then .seLinux0 else .seLinux31)] ++ (if V < 19 then [.seccompB0] else []) ++
   [(if V < 27 then .sysctls0 else if V < 29 then .sysctls27 else if V < 32 then .sysctls29 else .sysctls32),
   .hostProcess0] ++
   (if V < 8 then [] else if V < 25 then [.allowPrivEsc8] else [.allowPrivEsc25]) ++
   (if V < 22 then [] else if V < 25 then [.capsRestricted22] else [.capsRestricted25]) ++
   [.restrictedVolumes0, .runAsNonRoot0] ++ (if V < 23 then [] else [.runAsUser23]) ++
   (if V < 19 then [] else if V < 25 then [.seccompR19] else [.seccompR25])

theorem spec_baseline_table : ∀ V, V ≤ 32 → spec shipped .baseline V = activeBaseline V := by decide
theorem spec_restricted_table : ∀ V, V ≤ 32 → spec shipped .restricted V = activeRestricted V := by decide

end PSA

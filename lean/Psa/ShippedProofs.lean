import Psa.Shipped
import Psa.Standard
import Psa.RegistryProofs
import Psa.StdEval
namespace PSA

/-- tie obligation: every registered revision has a model function -/
theorem meta_all_modelled : ∀ c ∈ Generated.metaChecks, ∀ r ∈ c.2.2, (revOf c.1 r.2.1).isSome = true := by decide

theorem shipped_wf : WellFormed shipped where
  ids := by decide
  levels := by decide
  nonempty := by decide
  major := by decide
  increasing := by decide
  overrides := by decide

theorem shipped_max : maxVersionOf shipped = .mm 1 32 := by decide

theorem spec_baseline_table : ∀ V, V ≤ 32 → spec shipped .baseline V = activeBaseline V := by decide
theorem spec_restricted_table : ∀ V, V ≤ 32 → spec shipped .restricted V = activeRestricted V := by decide

end PSA

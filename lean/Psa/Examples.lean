import Psa.Namespace
import Psa.Eval
import Psa.Generated.Tables
/-! Concrete configurations, pods, requests and worlds that the non-vacuity `example`s of Psa/Props use: each property theorem
    with hypotheses gets a concrete, non-trivial instance that meets them. Nothing here is used by a theorem. -/
namespace PSA.Ex
open PSA

def privileged3 : Policy := ⟨⟨.privileged, .latest⟩, ⟨.privileged, .latest⟩, ⟨.privileged, .latest⟩⟩
def cfg : Config := { defaults := privileged3, exNamespaces := [b!"kube-system"], exUsers := [b!"system:admin"], exRuntimeClasses := [b!"kata"] }
def restrictedLabels : Labels :=
  [(b!"pod-security.kubernetes.io/enforce", b!"restricted"), (b!"pod-security.kubernetes.io/enforce-version", b!"v1.25"),
   (b!"pod-security.kubernetes.io/audit", b!"baseline"), (b!"pod-security.kubernetes.io/warn", b!"restricted")]
def badLabels : Labels := [(b!"pod-security.kubernetes.io/enforce", b!"bogus")]
/-- a pod with one privileged container: violates baseline and restricted -/
def privPod : PodObj := { name := b!"p", pod := { containers := [{ name := b!"c", sc := some { privileged := some true } }] } }
/-- a plain pod: passes baseline, fails restricted -/
def plainPod : PodObj := { name := b!"q", pod := { containers := [{ name := b!"c" }] } }
def kataPod : PodObj := { privPod with name := b!"k", runtimeClass := some b!"kata" }
/-- a pod that meets the restricted level at every version -/
def compliantSC : SecCtx := { allowPrivEsc := some false, caps := some { drop := [b!"ALL"] }, runAsNonRoot := some true, seccompType := some b!"RuntimeDefault" }
def compliantPod : Pod := { containers := [{ name := b!"c", sc := some compliantSC }] }
def lim : Limits := { maxPods := 3000, timeout := 1000000000 }
def shipped : Ev := fun lv x => evalPodModel Generated.tables false lv x.pod
def world (labels : Labels) (pods : List PodObj := []) : World Ev := { getNs := .ok labels, listPods := .ok pods, ev := shipped }
def podCreate (p : PodObj) (ns : Str := b!"team") : Request :=
  { res := .pods, op := .create, name := p.name, ns := ns, user := b!"alice", obj := .ok (.pod p) }
def ctlCreate (p : PodObj) : Request :=
  { res := .other, op := .create, name := p.name, ns := b!"team", user := b!"alice", obj := .ok (.controller (some p)) }
def nsUpdate (newL oldL : Labels) : Request :=
  { res := .namespaces, op := .update, name := b!"team", ns := b!"team", user := b!"alice", obj := .ok (.ns b!"team" newL), old := .ok (.ns b!"team" oldL) }

end PSA.Ex

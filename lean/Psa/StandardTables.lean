import Psa.Checks
/-! The allow-lists of the Pod Security Standards as published (DESIGN.md Appendix A), written by hand and
    independently of `Psa/Generated/Tables.lean` (set-valued lists in sorted order, as sets.List() prints them), which is regenerated from /repo on every run.
    `Props/C02.lean` proves the two equal. -/
namespace PSA.Std
open PSA

def publishedTables : Tables where
  capsBaseline := [b!"AUDIT_WRITE", b!"CHOWN", b!"DAC_OVERRIDE", b!"FOWNER", b!"FSETID", b!"KILL", b!"MKNOD", b!"NET_BIND_SERVICE", b!"SETFCAP", b!"SETGID", b!"SETPCAP", b!"SETUID", b!"SYS_CHROOT"]
  capsRestrictedAdd := [b!"NET_BIND_SERVICE"]
  capAll := b!"ALL"
  seccompTypes := [b!"Localhost", b!"RuntimeDefault"]
  seccompAnnValues := [b!"docker/default", b!"runtime/default"]
  seccompAnnPrefix := b!"localhost/"
  appArmorTypes := [b!"Localhost", b!"RuntimeDefault"]
  appArmorAnnValues := [b!"", b!"runtime/default"]
  appArmorAnnPrefix := b!"localhost/"
  procMountDefault := b!"Default"
  volAllowed := [.configMap, .csi, .downwardAPI, .emptyDir, .ephemeral, .persistentVolumeClaim, .projected, .secret]
  sysctls0 := [b!"kernel.shm_rmid_forced", b!"net.ipv4.ip_local_port_range", b!"net.ipv4.ip_unprivileged_port_start", b!"net.ipv4.ping_group_range", b!"net.ipv4.tcp_syncookies"]
  sysctls27 := [b!"kernel.shm_rmid_forced", b!"net.ipv4.ip_local_port_range", b!"net.ipv4.ip_local_reserved_ports", b!"net.ipv4.ip_unprivileged_port_start", b!"net.ipv4.ping_group_range", b!"net.ipv4.tcp_syncookies"]
  sysctls29 := [b!"kernel.shm_rmid_forced", b!"net.ipv4.ip_local_port_range", b!"net.ipv4.ip_local_reserved_ports", b!"net.ipv4.ip_unprivileged_port_start", b!"net.ipv4.ping_group_range", b!"net.ipv4.tcp_fin_timeout", b!"net.ipv4.tcp_keepalive_intvl", b!"net.ipv4.tcp_keepalive_probes", b!"net.ipv4.tcp_keepalive_time", b!"net.ipv4.tcp_syncookies"]
  sysctls32 := [b!"kernel.shm_rmid_forced", b!"net.ipv4.ip_local_port_range", b!"net.ipv4.ip_local_reserved_ports", b!"net.ipv4.ip_unprivileged_port_start", b!"net.ipv4.ping_group_range", b!"net.ipv4.tcp_fin_timeout", b!"net.ipv4.tcp_keepalive_intvl", b!"net.ipv4.tcp_keepalive_probes", b!"net.ipv4.tcp_keepalive_time", b!"net.ipv4.tcp_rmem", b!"net.ipv4.tcp_syncookies", b!"net.ipv4.tcp_wmem"]
  selinux0 := [b!"", b!"container_init_t", b!"container_kvm_t", b!"container_t"]
  selinux31 := [b!"", b!"container_engine_t", b!"container_init_t", b!"container_kvm_t", b!"container_t"]
  windows := b!"windows"

end PSA.Std

import Psa.Revs
import Psa.Result
/-! Message rendering: the exact `ForbiddenReason` / `ForbiddenDetail` bytes of every check revision,
    from the structured result. -/
namespace PSA

def ctrs (cs : List Str) : Str := pluralize b!"container" b!"containers" cs.length ++ b!" " ++ joinQuote cs

/-- `badSetters`: "pod", then `container(s) "a", "b"` -/
def setters (o : CheckOut) : List Str :=
  (if o.pod then [b!"pod"] else []) ++ (if o.containers.isEmpty then [] else [ctrs o.containers])

def andJoin (l : List Str) : Str := Str.join b!" and " l

inductive Kind
  | privileged | hostNamespaces | hostPorts | hostPath | capsBaseline | appArmor | seLinux | procMount
  | seccompAnn | seccompField | sysctls | hostProcess | allowPrivEsc | capsRestricted | restrictedVolumes
  | runAsNonRoot | runAsUser | seccompRestricted
  deriving DecidableEq, Repr

open RevId in
def RevId.kind : RevId → Kind
  | allowPrivEsc8 | allowPrivEsc25 => .allowPrivEsc
  | appArmor0 => .appArmor
  | capsBaseline0 => .capsBaseline
  | capsRestricted22 | capsRestricted25 => .capsRestricted
  | hostNamespaces0 => .hostNamespaces
  | hostPath0 => .hostPath
  | hostPorts0 => .hostPorts
  | privileged0 => .privileged
  | procMount0 => .procMount
  | restrictedVolumes0 => .restrictedVolumes
  | runAsNonRoot0 => .runAsNonRoot
  | runAsUser23 => .runAsUser
  | seLinux0 | seLinux31 => .seLinux
  | seccompB0 => .seccompAnn
  | seccompB19 => .seccompField
  | seccompR19 | seccompR25 => .seccompRestricted
  | sysctls0 | sysctls27 | sysctls29 | sysctls32 => .sysctls
  | hostProcess0 => .hostProcess

def Kind.reason (k : Kind) (o : CheckOut) : Str :=
  match k with
  | .privileged => b!"privileged"
  | .hostNamespaces => b!"host namespaces"
  | .hostPorts => b!"hostPort"
  | .hostPath => b!"hostPath volumes"
  | .capsBaseline => b!"non-default capabilities"
  | .appArmor => pluralize b!"forbidden AppArmor profile" b!"forbidden AppArmor profiles"
      ((sortDedup o.values).length + o.flags.length)
  | .seLinux => b!"seLinuxOptions"
  | .procMount => b!"procMount"
  | .seccompAnn | .seccompField | .seccompRestricted => b!"seccompProfile"
  | .sysctls => b!"forbidden sysctls"
  | .hostProcess => b!"hostProcess"
  | .allowPrivEsc => b!"allowPrivilegeEscalation != false"
  | .capsRestricted => b!"unrestricted capabilities"
  | .restrictedVolumes => b!"restricted volume types"
  | .runAsNonRoot => b!"runAsNonRoot != true"
  | .runAsUser => b!"runAsUser=0"

def Kind.detail (k : Kind) (o : CheckOut) : Str :=
  match k with
  | .privileged => ctrs o.containers ++ b!" must not set securityContext.privileged=true"
  | .hostNamespaces => Str.join b!", " o.flags
  | .hostPorts =>
      ctrs o.containers ++ b!" " ++ pluralize b!"uses" b!"use" o.containers.length ++ b!" " ++
      pluralize b!"hostPort" b!"hostPorts" (sortDedup o.values).length ++ b!" " ++ Str.join b!", " (sortDedup o.values)
  | .hostPath => pluralize b!"volume" b!"volumes" o.volumes.length ++ b!" " ++ joinQuote o.volumes
  | .capsBaseline =>
      ctrs o.containers ++ b!" must not include " ++ joinQuote (sortDedup o.values) ++ b!" in securityContext.capabilities.add"
  | .appArmor =>
      andJoin (setters o ++ (if o.flags.isEmpty then [] else [pluralize b!"annotation" b!"annotations" o.flags.length])) ++
      b!" must not set AppArmor profile type to " ++ joinQuote (sortDedup o.values ++ sortStrs o.flags)
  | .seLinux =>
      andJoin (setters o) ++ b!" set forbidden securityContext.seLinuxOptions: " ++
      Str.join b!"; " ((if (sortDedup o.values).isEmpty then [] else
          [pluralize b!"type" b!"types" (sortDedup o.values).length ++ b!" " ++ joinQuote (sortDedup o.values)]) ++ o.extra)
  | .procMount => ctrs o.containers ++ b!" must not set securityContext.procMount to " ++ joinQuote (sortDedup o.values)
  | .seccompAnn =>
      b!"forbidden " ++ pluralize b!"annotation" b!"annotations" (sortDedup o.values).length ++ b!" " ++
      Str.join b!", " (sortDedup o.values)
  | .seccompField =>
      andJoin (setters o) ++ b!" must not set securityContext.seccompProfile.type to " ++ joinQuote (sortDedup o.values)
  | .sysctls => Str.join b!", " o.flags
  | .hostProcess => andJoin (setters o) ++ b!" must not set securityContext.windowsOptions.hostProcess=true"
  | .allowPrivEsc => ctrs o.containers ++ b!" must set securityContext.allowPrivilegeEscalation=false"
  | .capsRestricted =>
      Str.join b!"; " ((if o.containers.isEmpty then [] else
          [ctrs o.containers ++ b!" must set securityContext.capabilities.drop=[\"ALL\"]"]) ++
        (if o.containers2.isEmpty then [] else
          [ctrs o.containers2 ++ b!" must not include " ++ joinQuote (sortDedup o.values) ++
            b!" in securityContext.capabilities.add"]))
  | .restrictedVolumes =>
      pluralize b!"volume" b!"volumes" o.volumes.length ++ b!" " ++ joinQuote o.volumes ++ b!" " ++
      pluralize b!"uses" b!"use" o.volumes.length ++ b!" " ++
      pluralize b!"restricted volume type" b!"restricted volume types" (sortDedup o.values).length ++ b!" " ++
      joinQuote (sortDedup o.values)
  | .runAsNonRoot =>
      if o.pod || !o.containers.isEmpty then andJoin (setters o) ++ b!" must not set securityContext.runAsNonRoot=false"
      else b!"pod or " ++ ctrs o.containers2 ++ b!" must set securityContext.runAsNonRoot=true"
  | .runAsUser => andJoin (setters o) ++ b!" must not set runAsUser=0"
  | .seccompRestricted =>
      if o.pod || !o.containers.isEmpty then
        andJoin (setters o) ++ b!" must not set securityContext.seccompProfile.type to " ++ joinQuote (sortDedup o.values)
      else b!"pod or " ++ ctrs o.containers2 ++
        b!" must set securityContext.seccompProfile.type to \"RuntimeDefault\" or \"Localhost\""

/-- which objects the detail text names: "containers", "volumes" or nothing -/
def Kind.objects : Kind → Str
  | .hostPath | .restrictedVolumes => b!"volumes"
  | .hostNamespaces | .seccompAnn | .sysctls => []
  | _ => b!"containers"

def render (k : Kind) (o : CheckOut) : CheckResult :=
  if o.allowed then { allowed := true, reason := [], detail := [] }
  else { allowed := false, reason := k.reason o, detail := k.detail o }

/-- one revision of one check, as the Go `CheckPodFn` -/
def runRev (T : Tables) (relax : Bool) (r : RevId) (p : Pod) : CheckResult := render r.kind (run T relax r p)

end PSA

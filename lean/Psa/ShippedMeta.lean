import Psa.RegistrySpec
namespace PSA
/-- registration metadata as dumped from policy.DefaultChecks() (payload = revision index) -/
def shippedMeta : List (Check Nat) :=
  [ ⟨b!"allowPrivilegeEscalation", .restricted, [⟨.mm 1 8, 0, []⟩, ⟨.mm 1 25, 1, []⟩]⟩,
    ⟨b!"appArmorProfile", .baseline, [⟨.mm 1 0, 2, []⟩]⟩,
    ⟨b!"capabilities_baseline", .baseline, [⟨.mm 1 0, 3, []⟩]⟩,
    ⟨b!"capabilities_restricted", .restricted, [⟨.mm 1 22, 4, [b!"capabilities_baseline"]⟩, ⟨.mm 1 25, 5, [b!"capabilities_baseline"]⟩]⟩,
    ⟨b!"hostNamespaces", .baseline, [⟨.mm 1 0, 6, []⟩]⟩,
    ⟨b!"hostPathVolumes", .baseline, [⟨.mm 1 0, 7, []⟩]⟩,
    ⟨b!"hostPorts", .baseline, [⟨.mm 1 0, 8, []⟩]⟩,
    ⟨b!"privileged", .baseline, [⟨.mm 1 0, 9, []⟩]⟩,
    ⟨b!"procMount", .baseline, [⟨.mm 1 0, 10, []⟩]⟩,
    ⟨b!"restrictedVolumes", .restricted, [⟨.mm 1 0, 11, [b!"hostPathVolumes"]⟩]⟩,
    ⟨b!"runAsNonRoot", .restricted, [⟨.mm 1 0, 12, []⟩]⟩,
    ⟨b!"runAsUser", .restricted, [⟨.mm 1 23, 13, []⟩]⟩,
    ⟨b!"seLinuxOptions", .baseline, [⟨.mm 1 0, 14, []⟩, ⟨.mm 1 31, 15, []⟩]⟩,
    ⟨b!"seccompProfile_baseline", .baseline, [⟨.mm 1 0, 16, []⟩, ⟨.mm 1 19, 17, []⟩]⟩,
    ⟨b!"seccompProfile_restricted", .restricted, [⟨.mm 1 19, 18, [b!"seccompProfile_baseline"]⟩, ⟨.mm 1 25, 19, [b!"seccompProfile_baseline"]⟩]⟩,
    ⟨b!"sysctls", .baseline, [⟨.mm 1 0, 20, []⟩, ⟨.mm 1 27, 21, []⟩, ⟨.mm 1 29, 22, []⟩, ⟨.mm 1 32, 23, []⟩]⟩,
    ⟨b!"windowsHostProcess", .baseline, [⟨.mm 1 0, 24, []⟩]⟩ ]

theorem shipped_valid : validateChecks shippedMeta = true := by decide
theorem shipped_max : maxVersionOf shippedMeta = .mm 1 32 := by decide
theorem spec_r25 : spec shippedMeta .restricted 25 = [2, 6, 8, 9, 10, 14, 20, 24, 1, 5, 11, 12, 13, 19] := by decide
#eval spec shippedMeta .restricted 25
#eval (populate shippedMeta).evaluate .restricted .latest
end PSA

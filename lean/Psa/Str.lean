/-! Strings as UTF-8 byte lists; Go-compatible helpers. -/
namespace PSA
abbrev Str := List Nat

open Lean in
macro:max "b!" s:str : term => do
  let bytes := s.getString.toUTF8.toList.map (·.toNat)
  let lits ← bytes.mapM (fun n => `($(Syntax.mkNumLit (toString n))))
  `(([$[$(lits.toArray)],*] : List Nat))

def Str.ofString (s : String) : Str := s.toUTF8.toList.map (·.toNat)
def Str.toString (s : Str) : String :=
  (String.fromUTF8? (ByteArray.mk (s.map (·.toUInt8)).toArray)).getD "<invalid utf8>"

end PSA

namespace PSA

/-- strings.Join -/
def Str.join (sep : Str) : List Str → Str
  | [] => []
  | [a] => a
  | a :: b :: rest => a ++ sep ++ Str.join sep (b :: rest)

/-- insertion into a list sorted by Go's bytewise `<`, dropping duplicates (sets.String.List()) -/
def insertDedup (x : Str) : List Str → List Str
  | [] => [x]
  | y :: ys => if x < y then x :: y :: ys else if x = y then y :: ys else y :: insertDedup x ys
def sortDedup (l : List Str) : List Str := l.foldr insertDedup []

/-- sort.Strings -/
def insertStr (x : Str) : List Str → List Str
  | [] => [x]
  | y :: ys => if x < y then x :: y :: ys else y :: insertStr x ys
def sortStrs (l : List Str) : List Str := l.foldr insertStr []

def pluralize (s p : Str) (n : Nat) : Str := if n = 1 then s else p

/-- policy.joinQuote -/
def joinQuote (l : List Str) : Str :=
  if l.isEmpty then [] else b!"\"" ++ Str.join b!"\", \"" l ++ b!"\""

def hexDigit (n : Nat) : Nat := if n < 10 then 48 + n else 87 + n

/-- strconv.Quote on bytes: printable ASCII, the named escapes, \xNN for other control bytes; bytes ≥ 0x80 pass
    through (valid, printable UTF-8 is assumed there — the text-comparing generators stay inside that alphabet). -/
def quoteByte (c : Nat) : Str :=
  if c = 34 then b!"\\\"" else if c = 92 then b!"\\\\"
  else if c = 7 then b!"\\a" else if c = 8 then b!"\\b" else if c = 12 then b!"\\f" else if c = 10 then b!"\\n"
  else if c = 13 then b!"\\r" else if c = 9 then b!"\\t" else if c = 11 then b!"\\v"
  else if c < 32 ∨ c = 127 then [92, 120, hexDigit (c / 16), hexDigit (c % 16)]
  else [c]
def goQuote (s : Str) : Str := b!"\"" ++ s.flatMap quoteByte ++ b!"\""

theorem snoc_induction {α : Type} {motive : List α → Prop} (nil : motive [])
    (snoc : ∀ l x, motive l → motive (l ++ [x])) : ∀ l, motive l := by
  intro l
  have : ∀ r : List α, motive r.reverse := by
    intro r
    induction r with
    | nil => simpa using nil
    | cons x xs ih => simpa using snoc _ x ih
  simpa using this l.reverse



end PSA

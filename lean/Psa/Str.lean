/-! Strings as UTF-8 byte lists; Go-compatible helpers. -/
namespace PSA
abbrev Str := List Nat

open Lean in
macro:max "b!" s:str : term => do
  let bytes := s.getString.toUTF8.toList.map (·.toNat)
  let lits ← bytes.mapM (fun n => `($(Syntax.mkNumLit (toString n))))
  `(([$[$(lits.toArray)],*] : List Nat))

def Str.ofString (s : String) : Str := s.toUTF8.toList.map (·.toNat)
def Str.toString (s : Str) : String :=
  (String.fromUTF8? (ByteArray.mk (s.map (·.toUInt8)).toArray)).getD "<invalid utf8>"

/-- decimal digits of a natural number, most significant first (Go's strconv.Itoa for n ≥ 0). -/
def digitsAux : Nat → Nat → List Nat → List Nat
  | 0, _, acc => acc
  | fuel+1, n, acc =>
    if n < 10 then (48 + n) :: acc else digitsAux fuel (n / 10) ((48 + n % 10) :: acc)

def itoaNat (n : Nat) : Str := digitsAux (n+1) n []

/-- parse a non-empty list of ASCII digits (no sign), any length. -/
def parseDigits : List Nat → Option Nat
  | [] => none
  | ds => ds.foldl (fun acc d => match acc with
      | none => none
      | some a => if 48 ≤ d ∧ d ≤ 57 then some (a * 10 + (d - 48)) else none) (some 0)

end PSA

import Psa.Api
/-! Lemmas about level / version parsing and label resolution (used by Props/C05). -/
namespace PSA

theorem parseLevel_ok_iff (s : Str) :
    (parseLevel s).2 = true ↔ s = b!"privileged" ∨ s = b!"baseline" ∨ s = b!"restricted" := by
  unfold parseLevel
  split
  · simp_all
  · split
    · simp_all
    · split <;> simp_all

theorem parseLevel_str (s : Str) (h : (parseLevel s).2 = true) : (parseLevel s).1.str = s := by
  unfold parseLevel at *
  split
  · next h1 => simp [h1, Level.str]
  · split
    · next h1 => simp [h1, Level.str]
    · split
      · next h1 => simp [h1, Level.str]
      · simp_all

theorem parseLevel_err (s : Str) (h : (parseLevel s).2 = false) : (parseLevel s).1 = .restricted := by
  unfold parseLevel at *
  split <;> (try simp_all) ; split <;> (try simp_all) ; split <;> simp_all

theorem parseLevel_of_str (l : Level) : parseLevel l.str = (l, true) := by cases l <;> decide

theorem itoa_one : itoa 1 = [49] := by unfold itoa decDigits; simp

theorem ver_str_v1 (n : Nat) : (Ver.mm 1 n).str = b!"v1." ++ itoa n := by
  simp [Ver.str, itoa_one]

theorem v1_prefix (s : Str) : b!"v1.".isPrefixOf s = true ↔ ∃ d, s = b!"v1." ++ d := by
  rw [List.isPrefixOf_iff_prefix]
  constructor
  · rintro ⟨t, ht⟩; exact ⟨t, ht.symm⟩
  · rintro ⟨d, hd⟩; exact ⟨d, hd.symm⟩

theorem latest_not_v1 : b!"v1.".isPrefixOf b!"latest" = false := by decide

theorem parseVersion_ok_iff (s : Str) :
    (parseVersion s).2 = true ↔ s = b!"latest" ∨ ∃ n, n ≤ maxInt64 ∧ s = b!"v1." ++ itoa n := by
  unfold parseVersion
  split
  · simp_all
  · next hl =>
    split
    · next hp =>
      obtain ⟨d, hd⟩ := (v1_prefix s).mp hp
      have hdrop : List.drop 3 s = d := by rw [hd]; rfl
      simp only [hdrop]
      split
      · next hc =>
        simp only [Bool.and_eq_true, decide_eq_true_eq] at hc
        simp only [true_iff]
        right
        exact ⟨digitsVal d, hc.2, by rw [itoa_digitsVal d hc.1]; exact hd⟩
      · next hc =>
        simp only [Bool.false_eq_true, false_iff, not_or, not_exists, not_and]
        refine ⟨hl, fun n hn hs => hc ?_⟩
        have : d = itoa n := by
          rw [hd] at hs
          exact List.append_cancel_left hs
        simp only [Bool.and_eq_true, decide_eq_true_eq]
        rw [this, digitsVal_itoa]
        exact ⟨canonicalDec_itoa n, hn⟩
    · next hp =>
      simp only [Bool.false_eq_true, false_iff, not_or, not_exists, not_and]
      refine ⟨hl, fun n _ hs => hp ?_⟩
      exact (v1_prefix s).mpr ⟨itoa n, hs⟩

theorem parseVersion_cases (s : Str) :
    (s = b!"latest" ∧ parseVersion s = (.latest, true)) ∨
    (s ≠ b!"latest" ∧ ∃ d, s = b!"v1." ++ d ∧ canonicalDec d = true ∧ digitsVal d ≤ maxInt64 ∧
        parseVersion s = (.mm 1 (digitsVal d), true)) ∨
    parseVersion s = (.latest, false) := by
  by_cases hl : s = b!"latest"
  · left; exact ⟨hl, by simp [parseVersion, hl]⟩
  · by_cases hp : b!"v1.".isPrefixOf s = true
    · obtain ⟨d, hd⟩ := (v1_prefix s).mp hp
      have hdrop : List.drop 3 s = d := by rw [hd]; rfl
      by_cases hc : (canonicalDec d && decide (digitsVal d ≤ maxInt64)) = true
      · right; left
        have hc' := hc
        simp only [Bool.and_eq_true, decide_eq_true_eq] at hc'
        refine ⟨hl, d, hd, hc'.1, hc'.2, ?_⟩
        simp only [parseVersion, hl, ↓reduceIte, hp, hdrop, hc]
      · right; right
        simp only [parseVersion, hl, ↓reduceIte, hp, hdrop, hc]
        rfl
    · right; right
      simp only [parseVersion, hl, ↓reduceIte, hp]
      rfl

theorem parseVersion_print (s : Str) (h : (parseVersion s).2 = true) : (parseVersion s).1.str = s := by
  rcases parseVersion_cases s with ⟨hl, he⟩ | ⟨_, d, hd, hc, _, he⟩ | he
  · rw [he, hl]; rfl
  · rw [he]; simp only; rw [ver_str_v1, itoa_digitsVal d hc, hd]
  · rw [he] at h; simp at h

theorem parseVersion_err (s : Str) (h : (parseVersion s).2 = false) : (parseVersion s).1 = .latest := by
  rcases parseVersion_cases s with ⟨_, he⟩ | ⟨_, d, _, _, _, he⟩ | he
  · rw [he]
  · rw [he] at h; simp at h
  · rw [he]

theorem parseVersion_of_str_latest : parseVersion Ver.latest.str = (.latest, true) := by decide

theorem parseVersion_of_str_v1 (n : Nat) (hn : n ≤ maxInt64) : parseVersion (Ver.mm 1 n).str = (.mm 1 n, true) := by
  rw [ver_str_v1]
  unfold parseVersion
  have h1 : ¬ (b!"v1." ++ itoa n = b!"latest") := by intro h; simp at h
  have h2 : b!"v1.".isPrefixOf (b!"v1." ++ itoa n) = true := (v1_prefix _).mpr ⟨_, rfl⟩
  have h3 : List.drop 3 (b!"v1." ++ itoa n) = itoa n := rfl
  simp only [h1, ↓reduceIte, h2, h3, canonicalDec_itoa, digitsVal_itoa, Bool.true_and, decide_eq_true_eq, hn]

/-! ### label resolution -/

/-- the declarative description of the error list: one entry per present-but-unparsable label, in the fixed key order -/
def labelBad (labels : Labels) (k : Str) (isLevel : Bool) : List FieldErr :=
  match labels.get k with
  | none => []
  | some s => if (if isLevel then (parseLevel s).2 else (parseVersion s).2) then [] else [⟨k, s⟩]

def errsSpec (labels : Labels) : List FieldErr :=
  labelBad labels kEnforce true ++ labelBad labels kEnforceV false ++ labelBad labels kAudit true ++
  labelBad labels kAuditV false ++ labelBad labels kWarn true ++ labelBad labels kWarnV false

theorem errOf_level (labels : Labels) (k : Str) :
    errOf k ((labels.get k).map (fun s => (parseLevel s, s))) = labelBad labels k true := by
  unfold labelBad
  cases labels.get k with
  | none => rfl
  | some s =>
    simp only [Option.map_some, ↓reduceIte]
    cases hp : parseLevel s with
    | mk l ok => cases ok <;> simp [errOf]

theorem errOf_version (labels : Labels) (k : Str) :
    errOf k ((labels.get k).map (fun s => (parseVersion s, s))) = labelBad labels k false := by
  unfold labelBad
  cases labels.get k with
  | none => rfl
  | some s =>
    simp only [Option.map_some, Bool.false_eq_true, ↓reduceIte]
    cases hp : parseVersion s with
    | mk l ok => cases ok <;> simp [errOf]

theorem policyToEvaluate_errs (labels : Labels) (d : Policy) :
    (policyToEvaluate parseVersion labels d).2 = errsSpec labels := by
  simp only [policyToEvaluate, errsSpec, errOf_level, errOf_version]

/-- what a level label resolves to when it is used for enforce (fail closed) / audit, warn (fail open) -/
def resolveLevel (closed : Bool) (dflt : Level) : Option Str → Level
  | none => dflt
  | some s => if (parseLevel s).2 then (parseLevel s).1 else if closed then .restricted else .privileged

def resolveVersion (dflt : Ver) : Option Str → Ver
  | none => dflt
  | some s => if (parseVersion s).2 then (parseVersion s).1 else .latest

theorem valOf_level (dflt : Level) (o : Option Str) :
    valOf dflt (o.map (fun s => (parseLevel s, s))) = resolveLevel true dflt o := by
  cases o with
  | none => rfl
  | some s =>
    simp only [Option.map_some, valOf, resolveLevel]
    split
    · rfl
    · next h => exact parseLevel_err s (by simpa using h)

theorem openLevel_level (dflt : Level) (o : Option Str) :
    openLevel dflt (o.map (fun s => (parseLevel s, s))) = resolveLevel false dflt o := by
  cases o with
  | none => rfl
  | some s =>
    simp only [Option.map_some, resolveLevel]
    cases hp : parseLevel s with
    | mk l ok => cases ok <;> simp [openLevel]

theorem valOf_version (dflt : Ver) (o : Option Str) :
    valOf dflt (o.map (fun s => (parseVersion s, s))) = resolveVersion dflt o := by
  cases o with
  | none => rfl
  | some s =>
    simp only [Option.map_some, valOf, resolveVersion]
    split
    · rfl
    · next h => exact parseVersion_err s (by simpa using h)

/-- warn follows enforce: no warn level label, a *valid* enforce level label, stricter than the default warn level -/
def warnFollows (labels : Labels) (d : Policy) : Bool :=
  (labels.get kWarn).isNone &&
  (match labels.get kEnforce with
   | some s => (parseLevel s).2 && decide (compareLevels (parseLevel s).1 d.warn.level > 0)
   | none => false)

/-- `PolicyToEvaluate`, stated outright -/
def policySpec (labels : Labels) (d : Policy) : Policy :=
  let e : LevelVersion := ⟨resolveLevel true d.enforce.level (labels.get kEnforce), resolveVersion d.enforce.version (labels.get kEnforceV)⟩
  { enforce := e
    audit := ⟨resolveLevel false d.audit.level (labels.get kAudit), resolveVersion d.audit.version (labels.get kAuditV)⟩
    warn :=
      if warnFollows labels d then
        ⟨e.level, if (labels.get kWarnV).isNone then e.version else resolveVersion d.warn.version (labels.get kWarnV)⟩
      else ⟨resolveLevel false d.warn.level (labels.get kWarn), resolveVersion d.warn.version (labels.get kWarnV)⟩ }

theorem policyToEvaluate_policy (labels : Labels) (d : Policy) :
    (policyToEvaluate parseVersion labels d).1 = policySpec labels d := by
  simp only [policyToEvaluate, policySpec, valOf_level, valOf_version, openLevel_level, warnFollows]
  cases hw : labels.get kWarn with
  | some w => simp
  | none =>
    cases he : labels.get kEnforce with
    | none => simp [okOf, resolveLevel]
    | some s =>
      cases hp : parseLevel s with
      | mk l ok =>
        cases ok with
        | false => simp [okOf, resolveLevel, hp]
        | true =>
          simp only [Option.map_none, Option.isSome_none, Bool.not_false, Option.map_some, okOf, hp, Bool.and_self, resolveLevel,
            ↓reduceIte, Bool.true_and, Option.isNone_none]
          by_cases hc : compareLevels l d.warn.level > 0
          · simp only [hc, decide_true, ↓reduceIte, Bool.true_and]
            cases labels.get kWarnV <;> simp
          · simp [hc]

end PSA

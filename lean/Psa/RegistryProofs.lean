import Psa.RegistrySpec

namespace PSA

theorem mem_vrange' (lo hi : Ver) (n : Nat) (hlo : lo = .mm 1 lo.minor) (hhi : hi = .mm 1 hi.minor) :
    Ver.mm 1 n ∈ vrange lo hi ↔ lo.minor ≤ n ∧ n < hi.minor := by
  cases lo with
  | latest => simp [Ver.minor] at hlo
  | mm a b =>
    cases hi with
    | latest => simp [Ver.minor] at hhi
    | mm c d =>
      simp only [Ver.minor, Ver.mm.injEq, and_true] at hlo hhi
      subst hlo hhi
      simpa [Ver.minor] using mem_vrange 1 b d n

def OneMajor (revs : List (Rev α)) : Prop := ∀ r ∈ revs, r.min = .mm 1 r.min.minor
def Increasing (revs : List (Rev α)) : Prop := revs.Pairwise (fun r r' => r.min.minor < r'.min.minor)

theorem selected_cons_of_lt (r : Rev α) (rest : List (Rev α)) (n : Nat)
    (hinc : Increasing (r :: rest)) (h : n < r.min.minor) : selected (r :: rest) n = none := by
  unfold selected
  have : (r :: rest).filter (fun r => r.min.minor ≤ n) = [] := by
    apply List.filter_eq_nil_iff.mpr
    intro x hx
    simp only [List.mem_cons] at hx
    rcases hx with rfl | hx
    · simp; omega
    · have := (List.pairwise_cons.mp hinc).1 x hx
      simp; omega
  simp [this]

theorem selected_cons_of_le (r : Rev α) (rest : List (Rev α)) (n : Nat) (h : r.min.minor ≤ n) :
    selected (r :: rest) n = (selected rest n).or (some r) := by
  unfold selected
  simp only [List.filter_cons, h, decide_true, ↓reduceIte]
  cases hf : rest.filter (fun r => decide (r.min.minor ≤ n)) with
  | nil => simp
  | cons a as =>
    rw [List.getLast?_cons_cons]
    cases hl : (a :: as).getLast? with
    | none => simp at hl
    | some x => simp

/-- After `inflateVersions`, the entry for `id` at `v1.n` (n ≤ max) is the last revision whose minimum is
    ≤ n when there is one; every other entry is untouched. -/
theorem inflate_apply (id : Str) (M : Nat) (revs : List (Rev α)) (m : VMap α)
    (hmaj : OneMajor revs) (hinc : Increasing revs) (hM : ∀ r ∈ revs, r.min.minor ≤ M)
    (n : Nat) (i : Str) :
    inflate id (.mm 1 M) revs m (.mm 1 n) i =
      if i = id ∧ n ≤ M then (selected revs n).or (m (.mm 1 n) i) else m (.mm 1 n) i := by
  induction revs generalizing m with
  | nil => simp [inflate, selected]
  | cons r rest ih =>
    have hr : r.min = .mm 1 r.min.minor := hmaj r (List.mem_cons_self ..)
    cases rest with
    | nil =>
      have hmx : nextMinor (.mm 1 M) = .mm 1 (nextMinor (.mm 1 M)).minor := by simp [nextMinor, Ver.minor]
      have hnm : (nextMinor (.mm 1 M)).minor = M + 1 := by simp [nextMinor, Ver.minor]
      simp only [inflate, fill_apply, mem_vrange' _ _ n hr hmx, hnm]
      by_cases hle : r.min.minor ≤ n
      · rw [selected_cons_of_le r [] n hle]
        by_cases hi : i = id <;> by_cases hn : n ≤ M <;> simp [hle, hi, hn, selected]
        all_goals omega
      · rw [selected_cons_of_lt r [] n hinc (by omega)]
        simp [hle]
    | cons r' rest' =>
      have hr' : r'.min = .mm 1 r'.min.minor := hmaj r' (by simp)
      have hlt : r.min.minor < r'.min.minor := (List.pairwise_cons.mp hinc).1 r' (by simp)
      have hM' : r'.min.minor ≤ M := hM r' (by simp)
      have hinc' := (List.pairwise_cons.mp hinc).2
      simp only [inflate]
      rw [ih _ (fun x hx => hmaj x (List.mem_cons_of_mem _ hx)) hinc'
            (fun x hx => hM x (List.mem_cons_of_mem _ hx))]
      simp only [fill_apply, mem_vrange' _ _ n hr hr']
      by_cases hle : r.min.minor ≤ n
      · rw [selected_cons_of_le r _ n hle]
        by_cases hn' : r'.min.minor ≤ n
        · have hs : ∃ x, selected (r' :: rest') n = some x := by
            rw [selected_cons_of_le r' _ n hn']
            cases selected rest' n <;> simp
          obtain ⟨x, hx⟩ := hs
          have hnot : ¬ (r.min.minor ≤ n ∧ n < r'.min.minor) := by omega
          by_cases hi : i = id <;> by_cases hn : n ≤ M <;> simp [hx, hi, hn, hnot]
        · have hs : selected (r' :: rest') n = none :=
            selected_cons_of_lt r' rest' n hinc' (by omega)
          have hyes : r.min.minor ≤ n ∧ n < r'.min.minor := by omega
          by_cases hi : i = id <;> by_cases hn : n ≤ M <;> simp [hs, hi, hn, hyes]
          omega
      · have hs : selected (r' :: rest') n = none :=
            selected_cons_of_lt r' rest' n hinc' (by omega)
        have hs2 : selected (r :: r' :: rest') n = none :=
            selected_cons_of_lt r _ n hinc (by omega)
        have hnot : ¬ (r.min.minor ≤ n ∧ n < r'.min.minor) := by omega
        simp [hs, hs2, hnot]

/-! ### all checks of one level -/

theorem findCheck_cons (c : Check α) (cs : List (Check α)) (i : Str) :
    findCheck (c :: cs) i = if c.id = i then some c else findCheck cs i := by
  simp only [findCheck, List.find?_cons]
  by_cases h : c.id = i
  · simp [h]
  · have : (c.id == i) = false := by simpa using h
    simp [h, this]

theorem findCheck_none_of_not_mem (cs : List (Check α)) (i : Str) (h : i ∉ cs.map (·.id)) :
    findCheck cs i = none := by
  simp only [findCheck, List.find?_eq_none]
  intro c hc
  simp only [beq_iff_eq]
  intro hid
  exact h (List.mem_map.mpr ⟨c, hc, hid⟩)

theorem inflateAll_fold (cs : List (Check α)) (M : Nat) (m : VMap α)
    (hids : (cs.map (·.id)).Nodup)
    (hmaj : ∀ c ∈ cs, OneMajor c.revs) (hinc : ∀ c ∈ cs, Increasing c.revs)
    (hM : ∀ c ∈ cs, ∀ r ∈ c.revs, r.min.minor ≤ M) (n : Nat) (i : Str) :
    cs.foldl (fun m c => inflate c.id (.mm 1 M) c.revs m) m (.mm 1 n) i =
      if n ≤ M then (selById cs n i).or (m (.mm 1 n) i) else m (.mm 1 n) i := by
  induction cs generalizing m with
  | nil => simp [selById, findCheck]
  | cons c cs ih =>
    simp only [List.foldl_cons]
    have hnd : c.id ∉ cs.map (·.id) ∧ (cs.map (·.id)).Nodup := by
      rw [List.map_cons] at hids; exact List.nodup_cons.mp hids
    rw [ih _ hnd.2 (fun x hx => hmaj x (List.mem_cons_of_mem _ hx))
          (fun x hx => hinc x (List.mem_cons_of_mem _ hx))
          (fun x hx => hM x (List.mem_cons_of_mem _ hx))]
    rw [inflate_apply c.id M c.revs m (hmaj c (by simp)) (hinc c (by simp)) (hM c (by simp))]
    simp only [selById, findCheck_cons]
    by_cases hn : n ≤ M
    · by_cases hi : c.id = i
      · have : findCheck cs i = none := findCheck_none_of_not_mem cs i (by rw [← hi]; exact hnd.1)
        simp [hn, hi, this]
      · have hi' : ¬ i = c.id := fun h => hi h.symm
        simp [hn, hi, hi']
    · simp [hn]

theorem inflateAll_apply (cs : List (Check α)) (M : Nat)
    (hids : (cs.map (·.id)).Nodup)
    (hmaj : ∀ c ∈ cs, OneMajor c.revs) (hinc : ∀ c ∈ cs, Increasing c.revs)
    (hM : ∀ c ∈ cs, ∀ r ∈ c.revs, r.min.minor ≤ M) (n : Nat) (i : Str) :
    inflateAll cs (.mm 1 M) (.mm 1 n) i = if n ≤ M then selById cs n i else none := by
  unfold inflateAll
  rw [inflateAll_fold cs M _ hids hmaj hinc hM]
  by_cases hn : n ≤ M <;> simp [hn]


/-! ### maxVersion -/

def Check.lastMinor (c : Check α) : Nat := c.lastMin.minor

def maxMinorFrom (k : Nat) (cs : List (Check α)) : Nat := cs.foldl (fun k c => max k c.lastMinor) k

theorem le_maxMinorFrom (k : Nat) (cs : List (Check α)) : k ≤ maxMinorFrom k cs := by
  induction cs generalizing k with
  | nil => simp [maxMinorFrom]
  | cons c cs ih =>
    simp only [maxMinorFrom, List.foldl_cons]
    exact Nat.le_trans (Nat.le_max_left _ _) (ih _)

theorem mem_le_maxMinorFrom (k : Nat) (cs : List (Check α)) (c : Check α) (hc : c ∈ cs) :
    c.lastMinor ≤ maxMinorFrom k cs := by
  induction cs generalizing k with
  | nil => simp at hc
  | cons d cs ih =>
    simp only [maxMinorFrom, List.foldl_cons]
    rcases List.mem_cons.mp hc with rfl | h
    · exact Nat.le_trans (Nat.le_max_right _ _) (le_maxMinorFrom _ _)
    · exact ih _ h

theorem fold_max_mm (k : Nat) (cs : List (Check α)) (h : ∀ c ∈ cs, c.lastMin = .mm 1 c.lastMinor) :
    cs.foldl (fun m c => if m.older c.lastMin then c.lastMin else m) (.mm 1 k) = .mm 1 (maxMinorFrom k cs) := by
  induction cs generalizing k with
  | nil => simp [maxMinorFrom]
  | cons c cs ih =>
    simp only [List.foldl_cons, maxMinorFrom]
    rw [h c (by simp)]
    have : (if (Ver.mm 1 k).older (.mm 1 c.lastMinor) then Ver.mm 1 c.lastMinor else .mm 1 k)
        = .mm 1 (max k c.lastMinor) := by
      simp only [Ver.older, ne_eq, not_true_eq_false, ↓reduceIte, decide_eq_true_eq]
      by_cases hk : k < c.lastMinor
      · simp [hk]; omega
      · simp [hk]; omega
    rw [this]
    exact ih _ (fun x hx => h x (List.mem_cons_of_mem _ hx))

theorem maxVersionOf_cons (c : Check α) (cs : List (Check α))
    (h : ∀ x ∈ c :: cs, x.lastMin = .mm 1 x.lastMinor) :
    maxVersionOf (c :: cs) = .mm 1 (maxMinorFrom c.lastMinor cs) := by
  simp only [maxVersionOf, List.foldl_cons]
  rw [h c (by simp)]
  have : (if Ver.unset.older (.mm 1 c.lastMinor) then Ver.mm 1 c.lastMinor else Ver.unset) = .mm 1 c.lastMinor := by
    simp [Ver.unset, Ver.older]
  rw [this]
  exact fold_max_mm _ _ (fun x hx => h x (List.mem_cons_of_mem _ hx))

theorem lastMin_of_wf (c : Check α) (hne : c.revs ≠ []) (hmaj : OneMajor c.revs) :
    c.lastMin = .mm 1 c.lastMinor := by
  unfold Check.lastMinor Check.lastMin
  cases h : c.revs.getLast? with
  | none => simp [List.getLast?_eq_none_iff] at h; exact absurd h hne
  | some r =>
    have : r ∈ c.revs := List.mem_of_getLast? h
    simpa using hmaj r this

theorem minor_le_lastMinor (c : Check α) (hinc : Increasing c.revs) (r : Rev α) (hr : r ∈ c.revs) :
    r.min.minor ≤ c.lastMinor := by
  unfold Check.lastMinor Check.lastMin
  cases h : c.revs.getLast? with
  | none => simp [List.getLast?_eq_none_iff] at h; simp [h] at hr
  | some l =>
    simp only
    -- split revs as init ++ [l]
    obtain ⟨ini, hini⟩ := List.getLast?_eq_some_iff.mp h
    rw [hini] at hr hinc
    rcases List.mem_append.mp hr with hm | hm
    · have := (List.pairwise_append.mp hinc).2.2 r hm l (by simp)
      omega
    · simp at hm; subst hm; exact Nat.le_refl _


/-! ### ids, sorting, lookup -/

theorem mem_insertId (a x : Str) (l : List Str) : a ∈ insertId x l ↔ a = x ∨ a ∈ l := by
  induction l with
  | nil => simp [insertId]
  | cons y ys ih =>
    simp only [insertId]
    split
    · simp
    · simp only [List.mem_cons, ih]
      constructor
      · rintro (h | h | h) <;> simp [h]
      · rintro (h | h | h) <;> simp [h]

theorem mem_sortIds (a : Str) (l : List Str) : a ∈ sortIds l ↔ a ∈ l := by
  induction l with
  | nil => simp [sortIds]
  | cons x xs ih =>
    have : sortIds (x :: xs) = insertId x (sortIds xs) := rfl
    rw [this, mem_insertId, ih]; simp

theorem findCheck_some (cs : List (Check α)) (i : Str) (c : Check α) (h : findCheck cs i = some c) :
    c ∈ cs ∧ c.id = i := by
  unfold findCheck at h
  exact ⟨List.mem_of_find?_eq_some h, by simpa using List.find?_some h⟩

theorem findCheck_of_mem (cs : List (Check α)) (hnd : (cs.map (·.id)).Nodup) (c : Check α) (hc : c ∈ cs) :
    findCheck cs c.id = some c := by
  induction cs with
  | nil => simp at hc
  | cons d ds ih =>
    rw [List.map_cons] at hnd
    have hnd' := List.nodup_cons.mp hnd
    rw [findCheck_cons]
    rcases List.mem_cons.mp hc with rfl | h
    · simp
    · have : d.id ≠ c.id := by
        intro he; exact hnd'.1 (he ▸ List.mem_map.mpr ⟨c, h, rfl⟩)
      simp [this, ih hnd'.2 h]

theorem findCheck_filter (cs : List (Check α)) (p : Check α → Bool) (hnd : (cs.map (·.id)).Nodup) (i : Str) :
    findCheck (cs.filter p) i = (findCheck cs i).filter p := by
  induction cs with
  | nil => simp [findCheck]
  | cons d ds ih =>
    rw [List.map_cons] at hnd
    have hnd' := List.nodup_cons.mp hnd
    rw [findCheck_cons]
    by_cases hp : p d
    · rw [List.filter_cons_of_pos hp, findCheck_cons]
      by_cases hi : d.id = i
      · simp [hi, Option.filter, hp]
      · simp [hi, ih hnd'.2]
    · rw [List.filter_cons_of_neg hp, ih hnd'.2]
      by_cases hi : d.id = i
      · have : findCheck ds i = none := findCheck_none_of_not_mem ds i (hi ▸ hnd'.1)
        simp [hi, this, Option.filter, hp]
      · simp [hi]

theorem filterMap_all_none {β γ : Type} (l : List β) (f : β → Option γ) (h : ∀ x ∈ l, f x = none) :
    l.filterMap f = [] := by
  induction l with
  | nil => rfl
  | cons x xs ih =>
    rw [List.filterMap_cons, h x (by simp)]
    exact ih (fun y hy => h y (List.mem_cons_of_mem _ hy))

theorem filterMap_cond {β γ : Type} (l : List β) (p : β → Bool) (f : β → Option γ) :
    l.filterMap (fun x => if p x then none else f x) = (l.filter (fun x => !p x)).filterMap f := by
  induction l with
  | nil => rfl
  | cons x xs ih =>
    by_cases hp : p x
    · simp [List.filterMap_cons, hp, ih]
    · simp [List.filterMap_cons, hp, ih]


theorem flatMap_congr' {β γ : Type} (l : List β) (f g : β → List γ) (h : ∀ x ∈ l, f x = g x) :
    l.flatMap f = l.flatMap g := by
  induction l with
  | nil => rfl
  | cons x xs ih =>
    simp only [List.flatMap_cons]
    rw [h x (by simp), ih (fun y hy => h y (List.mem_cons_of_mem _ hy))]

theorem filterMap_congr' {β γ : Type} (l : List β) (f g : β → Option γ) (h : ∀ x ∈ l, f x = g x) :
    l.filterMap f = l.filterMap g := by
  induction l with
  | nil => rfl
  | cons x xs ih =>
    simp only [List.filterMap_cons]
    rw [h x (by simp), ih (fun y hy => h y (List.mem_cons_of_mem _ hy))]

/-! ### the main refinement theorem (C04) -/

theorem filter_levels (cs : List (Check α)) (hl : ∀ c ∈ cs, c.level = .baseline ∨ c.level = .restricted) :
    cs.filter (fun c => !(c.level == .restricted)) = cs.filter (fun c => c.level == .baseline) := by
  apply List.filter_congr
  intro c hc
  rcases hl c hc with h | h <;> simp [h]

theorem sublist_nodup_ids (cs : List (Check α)) (p : Check α → Bool) (h : (cs.map (·.id)).Nodup) :
    ((cs.filter p).map (·.id)).Nodup :=
  List.Nodup.sublist ((List.filter_sublist).map _) h

/-- the version actually looked up -/
theorem clamp_lookup (M : Nat) (v : Ver) (hv : v = .latest ∨ ∃ n, v = .mm 1 n) :
    (if (Ver.mm 1 M).older v then Ver.mm 1 M else v) = .mm 1 (clampV M v) ∧ clampV M v ≤ M := by
  rcases hv with rfl | ⟨n, rfl⟩
  · simp [Ver.older, clampV]
  · simp only [Ver.older, ne_eq, not_true_eq_false, ↓reduceIte, decide_eq_true_eq, clampV]
    by_cases h : M < n
    · simp [h]; omega
    · simp [h]; omega

theorem C04_resolves (cs : List (Check α)) (hwf : WellFormed cs) (l : Level) (v : Ver)
    (hv : v = .latest ∨ ∃ n, v = .mm 1 n) :
    (populate cs).evaluate l v = spec cs l (clampV (maxVersionOf cs).minor v) := by
  cases cs with
  | nil =>
    cases l <;> simp [populate, Registry.evaluate, spec, maxVersionOf, vrange, nextMinor, Ver.unset,
      sortIds, mapFns]
  | cons c0 rest =>
    -- abbreviations
    have hlast : ∀ x ∈ c0 :: rest, x.lastMin = .mm 1 x.lastMinor := fun x hx =>
      lastMin_of_wf x (hwf.nonempty x hx) (hwf.major x hx)
    have hmax : maxVersionOf (c0 :: rest) = .mm 1 (maxMinorFrom c0.lastMinor rest) := maxVersionOf_cons c0 rest hlast
    generalize hM : maxMinorFrom c0.lastMinor rest = M at hmax
    have hbound : ∀ x ∈ c0 :: rest, ∀ r ∈ x.revs, r.min.minor ≤ M := by
      intro x hx r hr
      have h1 := minor_le_lastMinor x (hwf.increasing x hx) r hr
      have h2 : x.lastMinor ≤ M := by
        rw [← hM]
        rcases List.mem_cons.mp hx with rfl | h
        · exact le_maxMinorFrom _ _
        · exact mem_le_maxMinorFrom _ _ _ h
      omega
    generalize hcs : c0 :: rest = cs at *
    obtain ⟨hlook, hVM⟩ := clamp_lookup M v hv
    generalize hV : clampV M v = V at *
    -- lookups in the two inflated maps
    have hb : ∀ i, inflateAll (cs.filter (fun c => !(c.level == .restricted))) (.mm 1 M) (.mm 1 V) i
        = selById (cs.filter (fun c => c.level == .baseline)) V i := by
      intro i
      rw [filter_levels cs hwf.levels]
      rw [inflateAll_apply _ M (sublist_nodup_ids cs _ hwf.ids)
        (fun x hx => hwf.major x ((List.mem_filter.mp hx).1))
        (fun x hx => hwf.increasing x ((List.mem_filter.mp hx).1))
        (fun x hx => hbound x ((List.mem_filter.mp hx).1))]
      simp [hVM]
    have hr : ∀ i, inflateAll (cs.filter (fun c => c.level == .restricted)) (.mm 1 M) (.mm 1 V) i
        = selById (cs.filter (fun c => c.level == .restricted)) V i := by
      intro i
      rw [inflateAll_apply _ M (sublist_nodup_ids cs _ hwf.ids)
        (fun x hx => hwf.major x ((List.mem_filter.mp hx).1))
        (fun x hx => hwf.increasing x ((List.mem_filter.mp hx).1))
        (fun x hx => hbound x ((List.mem_filter.mp hx).1))]
      simp [hVM]
    have hsel : ∀ (p : Check α → Bool) i, selById (cs.filter p) V i = ((findCheck cs i).filter p).bind (fun c => selected c.revs V) := by
      intro p i; simp [selById, findCheck_filter cs p hwf.ids i]
    -- ids of one level resolve to a check of that level
    have hbid : ∀ i ∈ sortIds ((cs.filter (fun c => c.level == .baseline)).map (·.id)),
        ∃ c, findCheck cs i = some c ∧ c.level = .baseline := by
      intro i hi
      rw [mem_sortIds] at hi
      obtain ⟨c, hc, rfl⟩ := List.mem_map.mp hi
      have hc' := List.mem_filter.mp hc
      exact ⟨c, findCheck_of_mem cs hwf.ids c hc'.1, by simpa using hc'.2⟩
    have hrid : ∀ i ∈ sortIds ((cs.filter (fun c => c.level == .restricted)).map (·.id)),
        ∃ c, findCheck cs i = some c ∧ c.level = .restricted := by
      intro i hi
      rw [mem_sortIds] at hi
      obtain ⟨c, hc, rfl⟩ := List.mem_map.mp hi
      have hc' := List.mem_filter.mp hc
      exact ⟨c, findCheck_of_mem cs hwf.ids c hc'.1, by simpa using hc'.2⟩
    have hmem : Ver.mm 1 V ∈ vrange (.mm 1 0) (nextMinor (.mm 1 M)) := by
      simp only [nextMinor]; rw [mem_vrange]; omega
    simp only [Registry.evaluate, populate, hmax, hlook, hmem, ↓reduceIte, spec, Ver.minor, hV, mapFns]
    rw [filter_levels cs hwf.levels] at hb
    simp only [filter_levels cs hwf.levels, hb, hr]
    generalize hbids : sortIds (List.map (fun x => x.id) (List.filter (fun c => c.level == CLevel.baseline) cs)) = bids at *
    generalize hrids : sortIds (List.map (fun x => x.id) (List.filter (fun c => c.level == CLevel.restricted) cs)) = rids at *
    -- per-id facts
    have b_b : ∀ i ∈ bids, selById (cs.filter (fun c => c.level == .baseline)) V i = selById cs V i := by
      intro i hi; obtain ⟨c, hc, hl⟩ := hbid i hi
      rw [hsel]; simp [selById, hc, Option.filter, hl]
    have b_r : ∀ i ∈ bids, selById (cs.filter (fun c => c.level == .restricted)) V i = none := by
      intro i hi; obtain ⟨c, hc, hl⟩ := hbid i hi
      rw [hsel]; simp [hc, Option.filter, hl]
    have r_b : ∀ i ∈ rids, selById (cs.filter (fun c => c.level == .baseline)) V i = none := by
      intro i hi; obtain ⟨c, hc, hl⟩ := hrid i hi
      rw [hsel]; simp [hc, Option.filter, hl]
    have r_r : ∀ i ∈ rids, selById (cs.filter (fun c => c.level == .restricted)) V i = selById cs V i := by
      intro i hi; obtain ⟨c, hc, hl⟩ := hrid i hi
      rw [hsel]; simp [selById, hc, Option.filter, hl]
    have hov : (rids.flatMap (fun id => overridesOf (selById (cs.filter (fun c => c.level == .restricted)) V id)))
             = (rids.flatMap (fun id => overridesOf (selById cs V id))) := by
      apply flatMap_congr'
      intro i hi; rw [r_r i hi]
    rw [hov]
    generalize hovs : (rids.flatMap (fun id => overridesOf (selById cs V id))) = ov
    cases l with
    | privileged => rfl
    | baseline =>
      simp only [List.filterMap_append]
      rw [filterMap_all_none rids _ (fun i hi => by simp [r_b i hi]), List.append_nil]
      exact filterMap_congr' _ _ _ (fun i hi => by rw [b_b i hi])
    | restricted =>
      simp only [List.filterMap_append]
      congr 1
      · rw [← filterMap_cond bids (fun id => ov.contains id) (fun id => Option.map (fun x => x.fn) (selById cs V id))]
        apply filterMap_congr'
        intro i hi
        rw [b_b i hi, b_r i hi]
        cases hs : selById cs V i with
        | none => simp [pickRestricted]
        | some c =>
          by_cases ho : i ∈ ov
          · simp [ho, pickRestricted]
          · simp [ho, pickRestricted]
      · apply filterMap_congr'
        intro i hi
        rw [r_b i hi, r_r i hi]; simp [pickRestricted]
end PSA


namespace PSA
variable {α : Type}

/-- the newest registered version of a well-formed set is the unset zero value (no checks) or a `v1.M` -/
theorem maxVersionOf_shape (cs : List (Check α)) (hwf : WellFormed cs) :
    maxVersionOf cs = .unset ∨ ∃ M, maxVersionOf cs = .mm 1 M := by
  cases cs with
  | nil => exact Or.inl rfl
  | cons c0 rest =>
    have hlast : ∀ x ∈ c0 :: rest, x.lastMin = .mm 1 x.lastMinor := fun x hx =>
      lastMin_of_wf x (hwf.nonempty x hx) (hwf.major x hx)
    exact Or.inr ⟨_, maxVersionOf_cons c0 rest hlast⟩

/-- **A later major version is newer than every registered revision**: it behaves as the newest registered version. -/
theorem C04_later_major (cs : List (Check α)) (hwf : WellFormed cs) (l : Level) (a n : Nat) (ha : 1 < a) :
    (populate cs).evaluate l (.mm a n) = (populate cs).evaluate l .latest := by
  have hmv : (populate cs).maxVersion = maxVersionOf cs := rfl
  rcases maxVersionOf_shape cs hwf with hu | ⟨M, hM⟩
  · simp only [Registry.evaluate, hmv, hu, Ver.unset, Ver.older]
    have : (0 : Nat) ≠ a := by omega
    have hpos : 0 < a := by omega
    simp [this, hpos]
  · simp only [Registry.evaluate, hmv, hM, Ver.older]
    have : (1 : Nat) ≠ a := by omega
    simp [this, ha]

/-- **An earlier major version is older than every registered revision**: nothing was introduced yet, nothing runs. -/
theorem C04_earlier_major (cs : List (Check α)) (hwf : WellFormed cs) (l : Level) (n : Nat) :
    (populate cs).evaluate l (.mm 0 n) = [] := by
  have hmv : (populate cs).maxVersion = maxVersionOf cs := rfl
  have hnot : ∀ (lo hi : Ver) (k : Nat), lo = .mm 1 0 → Ver.mm 0 k ∉ vrange lo hi := by
    intro lo hi k hlo
    subst hlo
    cases hi with
    | latest => simp [vrange]
    | mm c d =>
      simp only [vrange]
      split
      · simp
      · simp
  cases l with
  | privileged => rfl
  | baseline =>
    rcases maxVersionOf_shape cs hwf with hu | ⟨M, hM⟩
    · simp only [Registry.evaluate, hmv, hu, Ver.unset, Ver.older, populate]
      split <;> simp [hnot, vrange, nextMinor, hu, Ver.unset]
    · simp only [Registry.evaluate, hmv, hM, Ver.older, populate]
      simp [hnot]
  | restricted =>
    rcases maxVersionOf_shape cs hwf with hu | ⟨M, hM⟩
    · simp only [Registry.evaluate, hmv, hu, Ver.unset, Ver.older, populate]
      split <;> simp [hnot, vrange, nextMinor, hu, Ver.unset]
    · simp only [Registry.evaluate, hmv, hM, Ver.older, populate]
      simp [hnot]

end PSA

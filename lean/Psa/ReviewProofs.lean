import Psa.Review
namespace PSA.Review
open PSA

def joinSlash : List Str → Str
  | [] => []
  | [x] => x
  | x :: y :: r => x ++ 47 :: joinSlash (y :: r)

theorem splitSlash_ne_nil (s : Str) : splitSlash s ≠ [] := by
  induction s with
  | nil => simp [splitSlash]
  | cons c rest ih =>
    unfold splitSlash
    split
    · simp
    · split <;> simp

theorem joinSlash_splitSlash (s : Str) : joinSlash (splitSlash s) = s := by
  induction s with
  | nil => rfl
  | cons c rest ih =>
    unfold splitSlash
    split
    · rename_i h; exact absurd h (splitSlash_ne_nil rest)
    · rename_i seg segs h
      rw [h] at ih
      split
      · rename_i hc
        subst hc
        show joinSlash ([] :: seg :: segs) = 47 :: rest
        simp only [joinSlash, List.nil_append]
        rw [ih]
      · cases segs with
        | nil => simp only [joinSlash] at ih ⊢; rw [ih]
        | cons y r => simp only [joinSlash, List.cons_append] at ih ⊢; rw [ih]

theorem parseGV_two (s g v : Str) (h : splitSlash s = [g, v]) : s = g ++ 47 :: v := by
  have := joinSlash_splitSlash s
  rw [h] at this
  simpa [joinSlash] using this.symm

theorem parseGV_one (s v : Str) (h : splitSlash s = [v]) : s = v := by
  have := joinSlash_splitSlash s
  rw [h] at this
  simpa [joinSlash] using this.symm

theorem wd_kind (g v k : Str) : (withDefaults g v k).2.2 = if k = [] then dKind else k := rfl
theorem wd_group (g v k : Str) : (withDefaults g v k).1 = if v = [] ∧ g = [] then dGroup else g := rfl
theorem wd_version (g v k : Str) : (withDefaults g v k).2.1 =
    if (if v = [] ∧ g = [] then dVersion else v) = [] ∧ (if v = [] ∧ g = [] then dGroup else g) = dGroup then dVersion
    else (if v = [] ∧ g = [] then dVersion else v) := rfl

theorem wd_eq_iff (g v k : Str) :
    withDefaults g v k = (dGroup, dVersion, dKind) ↔
      (k = [] ∨ k = dKind) ∧ ((g = [] ∧ v = []) ∨ (g = dGroup ∧ (v = [] ∨ v = dVersion))) := by
  have e : withDefaults g v k = (dGroup, dVersion, dKind) ↔
      (withDefaults g v k).1 = dGroup ∧ (withDefaults g v k).2.1 = dVersion ∧ (withDefaults g v k).2.2 = dKind := by
    constructor
    · intro h; rw [h]; exact ⟨rfl, rfl, rfl⟩
    · rintro ⟨a, b, c⟩
      exact Prod.ext a (Prod.ext b c)
  rw [e, wd_kind, wd_group, wd_version]
  have dg : dGroup ≠ [] := by decide
  have dv : dVersion ≠ [] := by decide
  by_cases hk : k = [] <;> by_cases hg : g = [] <;> by_cases hv : v = [] <;> simp [hk, hg, hv, dg, dv]
  all_goals (try (subst_vars; simp_all))
  all_goals (try (constructor <;> (intro h; (try (rcases h with ⟨a, b⟩)); simp_all)))

/-- which apiVersion / kind strings are detected as the v1 AdmissionReview -/
theorem detect_iff (av k : Str) :
    (∃ g v, parseGV av = some (g, v) ∧ withDefaults g v k = (dGroup, dVersion, dKind)) ↔ apiVersionOK av ∧ kindOK k := by
  simp only [wd_eq_iff]
  constructor
  · rintro ⟨g, v, hp, hk, hgv⟩
    refine ⟨?_, hk⟩
    unfold parseGV at hp
    split at hp
    · rename_i h0
      rcases h0 with h0 | h0
      · exact Or.inl h0
      · exact Or.inr (Or.inl h0)
    · rename_i h0
      split at hp
      · rename_i v' hs
        simp only [Option.some.injEq, Prod.mk.injEq] at hp
        obtain ⟨rfl, rfl⟩ := hp
        have hav := parseGV_one av v' hs
        subst hav
        have hne : ¬ (av = []) := fun h => h0 (Or.inl h)
        rcases hgv with ⟨_, h⟩ | ⟨h, _⟩
        · exact absurd h hne
        · exact absurd h.symm (by decide)
      · rename_i g' v' hs
        simp only [Option.some.injEq, Prod.mk.injEq] at hp
        obtain ⟨rfl, rfl⟩ := hp
        have hav := parseGV_two av g' v' hs
        rcases hgv with ⟨rfl, rfl⟩ | ⟨rfl, rfl | rfl⟩
        · right; left; simpa using hav
        · right; right; right; rw [hav]; decide
        · right; right; left; rw [hav]; decide
      · cases hp
  · rintro ⟨hav, hk⟩
    rcases hav with h | h | h | h <;> subst h
    · exact ⟨[], [], by decide, hk, Or.inl ⟨rfl, rfl⟩⟩
    · exact ⟨[], [], by decide, hk, Or.inl ⟨rfl, rfl⟩⟩
    · exact ⟨dGroup, dVersion, by decide, hk, Or.inr ⟨rfl, Or.inr rfl⟩⟩
    · exact ⟨dGroup, [], by decide, hk, Or.inr ⟨rfl, Or.inl rfl⟩⟩

end PSA.Review

namespace PSA.Review
open PSA

theorem status_cases (doc : Top) : status doc = 200 ∨ status doc = 400 := by
  unfold status
  repeat' split
  all_goals simp

theorem detectKind_target_iff (doc : Top) :
    detectKind doc = some (dGroup, dVersion, dKind) ↔
      ∃ av k, interpretField b!"apiVersion" doc [] = some av ∧ interpretField b!"kind" doc [] = some k ∧
        apiVersionOK av ∧ kindOK k := by
  unfold detectKind
  cases ha : interpretField b!"apiVersion" doc [] with
  | none => simp
  | some av =>
    cases hk : interpretField b!"kind" doc [] with
    | none => simp
    | some k =>
      simp only [Option.some.injEq, exists_and_left, exists_eq_left']
      rw [← detect_iff av k]
      cases hp : parseGV av with
      | none => simp
      | some gv =>
        obtain ⟨g, v⟩ := gv
        constructor
        · intro h
          simp only at h
          by_cases hv : (withDefaults g v k).2.1 = []
          · simp [hv] at h
          · simp only [hv, ↓reduceIte] at h
            exact ⟨g, v, rfl, Option.some.inj h⟩
        · rintro ⟨g', v', he, h⟩
          have he' := Option.some.inj he
          simp only [Prod.mk.injEq] at he'
          obtain ⟨rfl, rfl⟩ := he'
          simp only
          rw [h]
          simp [dVersion]

/-- **200 exactly for well-formed v1 reviews with a request** -/
theorem status_200_iff (doc : Top) :
    status doc = 200 ↔
      (∃ av k, interpretField b!"apiVersion" doc [] = some av ∧ interpretField b!"kind" doc [] = some k ∧
        apiVersionOK av ∧ kindOK k) ∧ typeError doc = false ∧ hasRequest doc = true := by
  rw [← detectKind_target_iff]
  unfold status
  cases hd : detectKind doc with
  | none => simp
  | some gvk =>
    by_cases hg : gvk = (dGroup, dVersion, dKind)
    · subst hg
      cases ht : typeError doc <;> cases hr : hasRequest doc <;> simp
    · simp [hg]

/-- a body with no member spelled exactly `request` that holds an object is never answered 200 -/
theorem no_request_400 (doc : Top) (h : ∀ m ∈ doc, m.1 = b!"request" → ∀ t, m.2 ≠ .obj t) : status doc = 400 := by
  rcases status_cases doc with h2 | h4
  · exfalso
    have hr := ((status_200_iff doc).mp h2).2.2
    unfold hasRequest at hr
    split at hr
    · rename_i k t hl
      have hm : (k, TV.obj t) ∈ doc.filter (fun m => m.1 == b!"request") := List.mem_of_getLast? hl
      have := List.mem_filter.mp hm
      exact h _ this.1 (by simpa using this.2) t rfl
    · cases hr
  · exact h4

end PSA.Review

import Psa.Admission
/-! metrics/metrics.go: label bucketing and counter bookkeeping. -/
namespace PSA

/-- the `policy_version` label of RecordEvaluation -/
def versionLabel (server : Ver) (lv : LevelVersion) : Str :=
  if lv.version == .latest || lv.level == .privileged then b!"latest"
  else if !server.older lv.version then lv.version.str
  else b!"future"

/-- counter vector as an association list label-tuple → count -/
abbrev Counters := List (List Str × Nat)

def Counters.get (c : Counters) (k : List Str) : Nat := match c.find? (·.1 = k) with | some e => e.2 | none => 0

def Counters.inc : Counters → List Str → Counters
  | [], k => [(k, 1)]
  | (k', n) :: rest, k => if k' = k then (k', n + 1) :: rest else (k', n) :: Counters.inc rest k

def recordAll (c : Counters) (events : List (List Str)) : Counters := events.foldl Counters.inc c

/-- Reset: every series starts again from zero -/
def Counters.reset (_ : Counters) : Counters := []

theorem Counters.get_inc (c : Counters) (k k' : List Str) :
    (c.inc k).get k' = c.get k' + (if k = k' then 1 else 0) := by
  induction c with
  | nil => by_cases h : k = k' <;> simp [Counters.inc, Counters.get, h]
  | cons e rest ih =>
    obtain ⟨ek, en⟩ := e
    simp only [Counters.inc]
    by_cases h1 : ek = k
    · subst h1
      by_cases h2 : ek = k' <;> simp [Counters.get, h2]
    · simp only [h1, ↓reduceIte]
      by_cases h2 : ek = k'
      · subst h2
        have : ¬ k = ek := fun h => h1 h.symm
        simp [Counters.get, this]
      · simp only [Counters.get, List.find?_cons, h2, decide_false] at ih ⊢
        exact ih

theorem recordAll_get (c : Counters) (events : List (List Str)) (k : List Str) :
    (recordAll c events).get k = c.get k + (events.filter (· = k)).length := by
  induction events generalizing c with
  | nil => simp [recordAll]
  | cons e es ih =>
    simp only [recordAll, List.foldl_cons] at ih ⊢
    rw [ih, Counters.get_inc]
    by_cases h : e = k <;> simp [h, List.filter_cons] <;> omega

end PSA

namespace PSA

def lowerByte (c : Nat) : Nat := if 65 ≤ c ∧ c ≤ 90 then c + 32 else c
/-- operationLabel -/
def operationLabel (op : Str) : Str := op.map lowerByte
/-- resourceLabel: group "" + resource pods / namespaces, everything else is a controller -/
def resourceLabel (group resource : Str) : Str :=
  if group = [] ∧ resource = b!"pods" then b!"pod"
  else if group = [] ∧ resource = b!"namespaces" then b!"namespace"
  else b!"controller"

structure ReqLabels where
  op : Str
  group : Str
  resource : Str
  sub : Str

/-- the label tuple RecordEvaluation increments -/
def evalSeries (server : Ver) (decision : Str) (lv : LevelVersion) (mode : Str) (r : ReqLabels) : List Str :=
  [decision, lv.level.str, versionLabel server lv, mode, operationLabel r.op, resourceLabel r.group r.resource, r.sub]
def exemptSeries (r : ReqLabels) : List Str := [operationLabel r.op, resourceLabel r.group r.resource, r.sub]
def errorSeries (fatal : Bool) (r : ReqLabels) : List Str :=
  [if fatal then b!"true" else b!"false", operationLabel r.op, resourceLabel r.group r.resource, r.sub]

end PSA

import Psa.Str
namespace PSA

inductive Level | privileged | baseline | restricted deriving DecidableEq, Repr
/-- level field of a registered check: an arbitrary Go string. -/
inductive CLevel | privileged | baseline | restricted | other deriving DecidableEq, Repr

/-- api.Version: `latest`, or major.minor (the zero value `mm 0 0` is "unset"). -/
inductive Ver | latest | mm (major minor : Nat) deriving DecidableEq, Repr

def Ver.unset : Ver := .mm 0 0

/-- (*Version).Older -/
def Ver.older : Ver → Ver → Bool
  | .latest, _ => false
  | .mm _ _, .latest => true
  | .mm a b, .mm c d => if a ≠ c then a < c else b < d

def nextMinor : Ver → Ver
  | .latest => .latest
  | .mm a b => .mm a (b + 1)

structure Rev (α : Type) where
  min : Ver
  fn : α
  overrides : List Str

structure Check (α : Type) where
  id : Str
  level : CLevel
  revs : List (Rev α)

/-- `for v := lo; v.Older(hi); v = nextMinor(v)`. Total only when both have the same major
    (Go diverges otherwise; excluded by well-formedness: "assumes only 1 major version"). -/
def vrange : Ver → Ver → List Ver
  | .mm a b, .mm c d => if a = c then (List.range' b (d - b)).map (Ver.mm a) else []
  | _, _ => []

abbrev VMap (α : Type) := Ver → Str → Option (Rev α)

def VMap.set (m : VMap α) (v : Ver) (id : Str) (r : Rev α) : VMap α :=
  fun v' id' => if v' = v ∧ id' = id then some r else m v' id'

def fill (id : Str) (r : Rev α) (vs : List Ver) (m : VMap α) : VMap α :=
  vs.foldl (fun m v => m.set v id r) m

/-- inflateVersions -/
def inflate (id : Str) (maxV : Ver) : List (Rev α) → VMap α → VMap α
  | [], m => m
  | [r], m => fill id r (vrange r.min (nextMinor maxV)) m
  | r :: r' :: rest, m => inflate id maxV (r' :: rest) (fill id r (vrange r.min r'.min) m)

theorem fill_apply (id : Str) (r : Rev α) (vs : List Ver) (m : VMap α) (v : Ver) (i : Str) :
    fill id r vs m v i = if v ∈ vs ∧ i = id then some r else m v i := by
  induction vs generalizing m with
  | nil => simp [fill]
  | cons a vs ih =>
    simp only [fill, List.foldl_cons] at *
    rw [ih]
    simp only [VMap.set, List.mem_cons]
    by_cases h1 : v ∈ vs ∧ i = id
    · simp [h1]
    · by_cases h2 : v = a ∧ i = id
      · simp [h2]
      · have : ¬ ((v = a ∨ v ∈ vs) ∧ i = id) := by
          intro h; rcases h with ⟨h | h, hi⟩
          · exact h2 ⟨h, hi⟩
          · exact h1 ⟨h, hi⟩
        simp [h1, h2, this]

theorem mem_vrange (a b d n : Nat) : Ver.mm a n ∈ vrange (.mm a b) (.mm a d) ↔ b ≤ n ∧ n < d := by
  simp only [vrange, ↓reduceIte, List.mem_map, List.mem_range'_1]
  constructor
  · rintro ⟨x, ⟨h1, h2⟩, h3⟩
    injection h3 with _ h4
    omega
  · intro h; exact ⟨n, ⟨h.1, by omega⟩, rfl⟩

end PSA

namespace PSA

def Ver.minor : Ver → Nat | .latest => 0 | .mm _ b => b

structure Registry (α : Type) where
  baseline : Ver → List α
  restricted : Ver → List α
  maxVersion : Ver

/-- `c.Versions[len(c.Versions)-1].MinimumVersion` (validated non-empty) -/
def Check.lastMin (c : Check α) : Ver := match c.revs.getLast? with | some r => r.min | none => .unset

def maxVersionOf (cs : List (Check α)) : Ver :=
  cs.foldl (fun m c => if m.older c.lastMin then c.lastMin else m) .unset

def inflateAll (cs : List (Check α)) (maxV : Ver) : VMap α :=
  cs.foldl (fun m c => inflate c.id maxV c.revs m) (fun _ _ => none)

/-- insertion sort by Go's `<` on check ids -/
def insertId (x : Str) : List Str → List Str
  | [] => [x]
  | y :: ys => if x < y then x :: y :: ys else y :: insertId x ys
def sortIds (l : List Str) : List Str := l.foldr insertId []

/-- mapCheckPodFns -/
def mapFns (m : Str → Option (Rev α)) (ordered : List Str) : List α :=
  ordered.filterMap (fun id => (m id).map (·.fn))

def overridesOf (r : Option (Rev α)) : List Str := match r with | some r => r.overrides | none => []

/-- entry of `restrictedVersionedChecks[v]` after the baseline entries were merged in -/
def pickRestricted (b : Option (Rev α)) (overridden : Bool) (r : Option (Rev α)) : Option (Rev α) :=
  match b with
  | some c => if overridden then r else some c
  | none => r

def populate (cs : List (Check α)) : Registry α :=
  let maxV := maxVersionOf cs
  let rcs := cs.filter (fun c => c.level == .restricted)
  let bcs := cs.filter (fun c => !(c.level == .restricted))
  let rmap := inflateAll rcs maxV
  let bmap := inflateAll bcs maxV
  let rids := sortIds (rcs.map (·.id))
  let bids := sortIds (bcs.map (·.id))
  let ordered := bids ++ rids
  let vs := vrange (.mm 1 0) (nextMinor maxV)
  let overrides (v : Ver) : List Str :=
    rids.flatMap (fun id => overridesOf (rmap v id))
  let rfull (v : Ver) (id : Str) : Option (Rev α) :=
    pickRestricted (bmap v id) ((overrides v).contains id) (rmap v id)
  { baseline := fun v => if v ∈ vs then mapFns (bmap v) ordered else []
    restricted := fun v => if v ∈ vs then mapFns (rfull v) ordered else []
    maxVersion := maxV }

def Registry.evaluate (r : Registry α) (l : Level) (v : Ver) : List α :=
  let v' := if r.maxVersion.older v then r.maxVersion else v
  match l with
  | .privileged => []
  | .baseline => r.baseline v'
  | .restricted => r.restricted v'

/-- validateChecks: `true` = accepted -/
def validateChecks (cs : List (Check α)) : Bool :=
  let rec revsOk (prev : Ver) : List (Rev α) → Bool
    | [] => true
    | r :: rs => r.min != .unset && r.min != .latest && prev != r.min && prev.older r.min && revsOk r.min rs
  let rec pass1 (seen : List Str) : List (Check α) → Bool
    | [] => true
    | c :: rest =>
      !seen.contains c.id && (c.level == .baseline || c.level == .restricted) && !c.revs.isEmpty &&
      revsOk .unset c.revs && pass1 (c.id :: seen) rest
  let levelOf (id : Str) : Option CLevel := (cs.find? (fun c => c.id == id)).map (·.level)
  let pass2 := cs.all (fun c => c.revs.all (fun r =>
    r.overrides.isEmpty ||
      (c.level == .restricted && r.overrides.all (fun o => match levelOf o with | some l => l == .baseline | none => true))))
  pass1 [] cs && pass2

end PSA

import Lean.Data.Json
import Psa.Pod
import Psa.Result
/-! JSON decoding / encoding for the driver's line protocol. Not part of any theorem. -/
namespace PSA.IO
open Lean PSA

abbrev R := Except String

def str (j : Json) : R Str := do return Str.ofString (← j.getStr?)
def fld (j : Json) (k : String) : R Json := j.getObjVal? k
def fldD (j : Json) (k : String) : Json := (j.getObjVal? k).toOption.getD Json.null
def optOf {α} (f : Json → R α) (j : Json) : R (Option α) := if j.isNull then pure none else some <$> f j
def arrOf {α} (f : Json → R α) (j : Json) : R (List α) := do
  if j.isNull then return []
  let a ← j.getArr?
  a.toList.mapM f
def boolD (j : Json) (k : String) : Bool := ((fldD j k).getBool?).toOption.getD false
def natOf (j : Json) : R Nat := j.getNat?
def intOf (j : Json) : R Int := j.getInt?
def strD (j : Json) (k : String) : Str := match (fldD j k).getStr? with | .ok s => Str.ofString s | .error _ => []

def jstr (s : Str) : Json := Json.str s.toString
def jstrs (l : List Str) : Json := Json.arr (l.map jstr).toArray

def kvs (j : Json) : R (List (Str × Str)) :=
  arrOf (fun e => do
    let a ← e.getArr?
    if h : a.size = 2 then return (← str a[0], ← str a[1]) else throw "kv pair expected") j

def caps (j : Json) : R Caps := do
  return { add := ← arrOf str (fldD j "add"), drop := ← arrOf str (fldD j "drop") }

def selinux (j : Json) : R SELinux := return { type := strD j "type", user := strD j "user", role := strD j "role" }

/-- 0 = windowsOptions nil, 1 = hostProcess nil, 2 = false, 3 = true -/
def hostProcess (j : Json) : R (Option (Option Bool)) := do
  if j.isNull then return none
  match ← j.getNat? with
  | 0 => return none
  | 1 => return some none
  | 2 => return some (some false)
  | _ => return some (some true)

def secCtx (j : Json) : R SecCtx := do
  return { privileged := ← optOf (·.getBool?) (fldD j "privileged")
           allowPrivEsc := ← optOf (·.getBool?) (fldD j "ape")
           caps := ← optOf caps (fldD j "caps")
           procMount := ← optOf str (fldD j "procMount")
           runAsNonRoot := ← optOf (·.getBool?) (fldD j "runAsNonRoot")
           runAsUser := ← optOf intOf (fldD j "runAsUser")
           seccompType := ← optOf str (fldD j "seccomp")
           appArmorType := ← optOf str (fldD j "appArmor")
           seLinux := ← optOf selinux (fldD j "seLinux")
           hostProcess := ← hostProcess (fldD j "hostProcess") }

def container (j : Json) : R Container := do
  return { name := strD j "name", image := strD j "image"
           hostPorts := ← arrOf intOf (fldD j "hostPorts")
           sc := ← optOf secCtx (fldD j "sc") }

def podSecCtx (j : Json) : R PodSecCtx := do
  return { runAsNonRoot := ← optOf (·.getBool?) (fldD j "runAsNonRoot")
           runAsUser := ← optOf intOf (fldD j "runAsUser")
           seccompType := ← optOf str (fldD j "seccomp")
           appArmorType := ← optOf str (fldD j "appArmor")
           seLinux := ← optOf selinux (fldD j "seLinux")
           hostProcess := ← hostProcess (fldD j "hostProcess")
           sysctls := ← arrOf str (fldD j "sysctls") }

def volKind (s : String) : VolKind :=
  match s with
  | "configMap" => .configMap | "csi" => .csi | "downwardAPI" => .downwardAPI | "emptyDir" => .emptyDir
  | "ephemeral" => .ephemeral | "persistentVolumeClaim" => .persistentVolumeClaim | "projected" => .projected
  | "secret" => .secret | "hostPath" => .hostPath | "gcePersistentDisk" => .gcePersistentDisk
  | "awsElasticBlockStore" => .awsElasticBlockStore | "gitRepo" => .gitRepo | "nfs" => .nfs | "iscsi" => .iscsi
  | "glusterfs" => .glusterfs | "rbd" => .rbd | "flexVolume" => .flexVolume | "cinder" => .cinder | "cephfs" => .cephfs
  | "flocker" => .flocker | "fc" => .fc | "azureFile" => .azureFile | "vsphereVolume" => .vsphereVolume
  | "quobyte" => .quobyte | "azureDisk" => .azureDisk | "photonPersistentDisk" => .photonPersistentDisk
  | "portworxVolume" => .portworxVolume | "scaleIO" => .scaleIO | "storageos" => .storageos
  | _ => .other

def volume (j : Json) : R Volume := do
  return { name := strD j "name", sources := ← arrOf (fun s => volKind <$> s.getStr?) (fldD j "sources") }

def pod (j : Json) : R Pod := do
  return { annotations := ← kvs (fldD j "ann")
           hostNetwork := boolD j "hostNetwork", hostPID := boolD j "hostPID", hostIPC := boolD j "hostIPC"
           hostUsers := ← optOf (·.getBool?) (fldD j "hostUsers")
           os := ← optOf str (fldD j "os")
           sc := ← optOf podSecCtx (fldD j "sc")
           initContainers := ← arrOf container (fldD j "init")
           containers := ← arrOf container (fldD j "ctrs")
           ephemeralContainers := ← arrOf container (fldD j "eph")
           volumes := ← arrOf volume (fldD j "vols") }

def level (j : Json) : R Level := do
  match ← j.getStr? with
  | "privileged" => return .privileged
  | "baseline" => return .baseline
  | "restricted" => return .restricted
  | s => throw s!"bad level {s}"

/-- "latest" or [major, minor] -/
def ver (j : Json) : R Ver := do
  match j with
  | .str "latest" => return .latest
  | _ =>
    let a ← j.getArr?
    if h : a.size = 2 then return .mm (← a[0].getNat?) (← a[1].getNat?) else throw "bad version"

def jver : Ver → Json
  | .latest => Json.str "latest"
  | .mm a b => Json.arr #[Json.num (a : JsonNumber), Json.num (b : JsonNumber)]

def jlevel (l : Level) : Json := jstr l.str

def lv (j : Json) : R LevelVersion := do return ⟨← level (← fld j "level"), ← ver (← fld j "version")⟩
def jlv (x : LevelVersion) : Json := Json.mkObj [("level", jlevel x.level), ("version", jver x.version)]

def policy (j : Json) : R Policy := do
  return ⟨← lv (← fld j "enforce"), ← lv (← fld j "audit"), ← lv (← fld j "warn")⟩
def jpolicy (p : Policy) : Json := Json.mkObj [("enforce", jlv p.enforce), ("audit", jlv p.audit), ("warn", jlv p.warn)]

def jresult (r : CheckResult) : Json :=
  Json.mkObj [("allowed", Json.bool r.allowed), ("reason", jstr r.reason), ("detail", jstr r.detail)]

end PSA.IO

import Psa.Str
/-! What fact F6 buys, as a machine. The program is the list of *store instructions to fields of an AdmissionResponse* that
    factx finds in the request-handling code, each with the origin of the pointer it stores through. A request handler
    executes any of these instructions, any number of times, with any values; any number of handlers run interleaved. A
    store through a freshly allocated response (or a constructor's result) lands in a cell only that handler can reach and is
    not part of the shared state; a store through `shared:<object>` lands in the process-wide object every handler returns on
    the common allow paths. -/
namespace PSA.StoreMachine
open PSA

structure Instr where
  fn : Str
  field : Str
  origin : Str
  deriving DecidableEq, Repr

def sharedPrefix : Str := b!"shared:"

/-- the shared object a store goes to, if it goes to one -/
def sharedTarget (i : Instr) : Option Str :=
  if sharedPrefix.isPrefixOf i.origin then some (i.origin.drop sharedPrefix.length) else none

/-- the shared state: (object, field) ↦ value -/
abbrev Shared := List ((Str × Str) × Nat)

def write (s : Shared) (k : Str × Str) (v : Nat) : Shared := (k, v) :: s.filter (·.1 ≠ k)

/-- one handler step: execute instruction number `i` of the program with value `v` -/
def step (prog : List Instr) (s : Shared) (iv : Nat × Nat) : Shared :=
  match prog[iv.1]? with
  | none => s
  | some ins => match sharedTarget ins with
    | none => s                                  -- a private cell: invisible to everyone else
    | some obj => write s (obj, ins.field) iv.2

/-- any interleaving of any number of handlers = any sequence of (instruction, value) pairs -/
def run (prog : List Instr) (s : Shared) (sched : List (Nat × Nat)) : Shared := sched.foldl (step prog) s

theorem step_fresh (prog : List Instr) (h : ∀ i ∈ prog, sharedTarget i = none) (s : Shared) (iv : Nat × Nat) :
    step prog s iv = s := by
  unfold step
  cases hp : prog[iv.1]? with
  | none => rfl
  | some ins =>
    have := h ins (List.mem_of_getElem? hp)
    simp [this]

/-- if no instruction of the program stores through a shared object, no schedule changes the shared state -/
theorem run_fresh (prog : List Instr) (h : ∀ i ∈ prog, sharedTarget i = none) (s : Shared) (sched : List (Nat × Nat)) :
    run prog s sched = s := by
  induction sched generalizing s with
  | nil => rfl
  | cons iv rest ih => simp only [run, List.foldl_cons] at ih ⊢; rw [step_fresh prog h s iv]; exact ih s

/-- and one instruction that does is enough to change it -/
example : run [⟨b!"HandleValidate", b!"UID", b!"shared:sharedAllowedResponse"⟩] [] [(0, 7)] ≠ [] := by decide

end PSA.StoreMachine

import Psa.JsonIO
import Psa.Render
import Psa.Eval
import Psa.RegistrySpec
import Psa.AdmitIO
import Psa.StdEval
import Psa.Webhook
import Psa.ConfigIO
import Psa.FixtureCheck
import Psa.MetricsIO
import Psa.Generated.Tables
import Psa.Deps
import Psa.Review
/-! psa-driver: one JSON object per input line, one JSON object per output line. -/
open Lean PSA PSA.IO

def shippedRegistry : Registry RevId := populate shipped

def revName (r : RevId) : Str :=
  match revTable.find? (fun e => e.2 = r) with
  | some e => e.1.1 ++ b!"@" ++ itoa e.1.2
  | none => b!"?"

/-- control id of a revision for the Standard's evaluator: from the hand-written naming below, not from regenerated metadata -/
def stdRevName : RevId → Str
  | .allowPrivEsc8 => b!"allowPrivilegeEscalation@8" | .allowPrivEsc25 => b!"allowPrivilegeEscalation@25"
  | .appArmor0 => b!"appArmorProfile@0" | .capsBaseline0 => b!"capabilities_baseline@0"
  | .capsRestricted22 => b!"capabilities_restricted@22" | .capsRestricted25 => b!"capabilities_restricted@25"
  | .hostNamespaces0 => b!"hostNamespaces@0" | .hostPath0 => b!"hostPathVolumes@0" | .hostPorts0 => b!"hostPorts@0"
  | .privileged0 => b!"privileged@0" | .procMount0 => b!"procMount@0" | .restrictedVolumes0 => b!"restrictedVolumes@0"
  | .runAsNonRoot0 => b!"runAsNonRoot@0" | .runAsUser23 => b!"runAsUser@23" | .seLinux0 => b!"seLinuxOptions@0"
  | .seLinux31 => b!"seLinuxOptions@31" | .seccompB0 => b!"seccompProfile_baseline@0" | .seccompB19 => b!"seccompProfile_baseline@19"
  | .seccompR19 => b!"seccompProfile_restricted@19" | .seccompR25 => b!"seccompProfile_restricted@25"
  | .sysctls0 => b!"sysctls@0" | .sysctls27 => b!"sysctls@27" | .sysctls29 => b!"sysctls@29" | .sysctls32 => b!"sysctls@32"
  | .hostProcess0 => b!"windowsHostProcess@0"

def clevel (j : Json) : R CLevel := do
  match ← j.getStr? with
  | "privileged" => return .privileged
  | "baseline" => return .baseline
  | "restricted" => return .restricted
  | _ => return .other

def regCheck (j : Json) : R (Check Nat) := do
  let revs ← arrOf (fun r => do
    return ({ min := ← ver (← fld r "min"), fn := ← natOf (← fld r "mark"), overrides := ← arrOf str (fldD r "overrides") } : Rev Nat))
    (fldD j "revs")
  return { id := strD j "id", level := ← clevel (← fld j "level"), revs := revs }

def handle (j : Json) : R Json := do
  let op ← (← fld j "op").getStr?
  match op with
  | "parseLevel" =>
    let (l, ok) := parseLevel (strD j "s")
    return Json.mkObj [("level", jlevel l), ("ok", Json.bool ok)]
  | "parseVersion" =>
    let (v, ok) := parseVersion (strD j "s")
    return Json.mkObj [("version", jver v), ("ok", Json.bool ok), ("str", jstr v.str)]
  | "policyToEvaluate" =>
    let labels ← kvs (fldD j "labels")
    let d ← policy (← fld j "defaults")
    let (p, errs) := policyToEvaluate parseVersion labels d
    return Json.mkObj [("policy", jpolicy p), ("errs", Json.arr (errs.map (fun e => Json.arr #[jstr e.key, jstr e.bad])).toArray)]
  | "switch" =>
    let calls ← arrOf (fun b => b.getBool?) (fldD j "calls")
    return Json.mkObj [("on", Json.bool (switchAfter false calls))]
  | "checkRev" =>
    let p ← pod (← fld j "pod")
    match revOf (strD j "id") (← natOf (← fld j "minor")) with
    | none => return Json.mkObj [("error", Json.str "unmodelled revision")]
    | some r =>
      let o := run Generated.tables (boolD j "relax") r p
      return ((jresult (render r.kind o)).setObjVal! "offenders"
        (Json.mkObj [("pod", Json.bool o.pod), ("containers", jstrs o.containers), ("containers2", jstrs o.containers2),
          ("volumes", jstrs o.volumes)])).setObjVal! "objects" (jstr r.kind.objects)
  | "evalPod" =>
    let p ← pod (← fld j "pod")
    let l ← level (← fld j "level")
    let v ← ver (← fld j "version")
    let revs := shippedRegistry.evaluate l v
    let rs := evalPodModel Generated.tables (boolD j "relax") ⟨l, v⟩ p
    return Json.mkObj [("results", Json.arr ((revs.zip rs).map (fun (r, x) =>
      (jresult x).setObjVal! "rev" (jstr (revName r)))).toArray)]
  | "evalSubset" =>
    -- an evaluator built from the shipped checks whose ids are listed (policy.NewEvaluator on a subset of DefaultChecks())
    let p ← pod (← fld j "pod")
    let l ← level (← fld j "level")
    let v ← ver (← fld j "version")
    let keep ← arrOf str (← fld j "keep")
    let revs := (populate (shipped.filter (fun c => keep.contains c.id))).evaluate l v
    let rs := revs.map (fun r => runRev Generated.tables (boolD j "relax") r p)
    return Json.mkObj [("results", Json.arr ((revs.zip rs).map (fun (r, x) =>
      (jresult x).setObjVal! "rev" (jstr (revName r)))).toArray)]
  | "stdEval" =>
    let p ← pod (← fld j "pod")
    let l ← level (← fld j "level")
    let v ← ver (← fld j "version")
    return Json.mkObj [("results", Json.arr (((stdRevs l v).zip (stdEval l v p)).map (fun (r, x) =>
      (jresult x).setObjVal! "rev" (jstr (stdRevName r)))).toArray)]
  | "webhookClassify" =>
    let st := Webhook.classify Generated.maxRequestSize (boolD j "empty") (← natOf (← fld j "size")) (strD j "contentType")
      (boolD j "decodes") (boolD j "v1review") (boolD j "hasRequest")
    return Json.mkObj [("status", Json.num (st : JsonNumber))]
  | "fixture" =>
    let p ← pod (← fld j "pod")
    let l ← level (← fld j "level")
    let v ← ver (← fld j "version")
    let f : Fixture := { level := l, minor := v.minor, check := strD j "check", pass := boolD j "pass", pod := p }
    let rs := evalPodModel Generated.tables false ⟨l, v⟩ (apiDefault p)
    let revs := shippedRegistry.evaluate l v
    return Json.mkObj [("ok", Json.bool (fixtureOk f)), ("results", Json.arr ((revs.zip rs).map (fun (r, x) =>
      (jresult x).setObjVal! "rev" (jstr (revName r)))).toArray)]
  | "metricCounts" => metricCountsOp j
  | "loadConfig" => loadConfigOp j
  | "setup" => setupOp j
  | "controller" => controllerOp j
  | "registry" =>
    let cs ← arrOf regCheck (fldD j "checks")
    let valid := validateChecks cs
    if !valid then return Json.mkObj [("valid", Json.bool false)]
    let reg := populate cs
    let qs ← arrOf (fun q => do return (← level (← fld q "level"), ← ver (← fld q "version"))) (fldD j "queries")
    let nums (l : List Nat) : Json := Json.arr (l.map (fun (n : Nat) => Json.num (n : JsonNumber))).toArray
    return Json.mkObj [("valid", Json.bool true),
      ("results", Json.arr (qs.map (fun q => nums (reg.evaluate q.1 q.2))).toArray),
      -- the resolution rule at every version: v1.N and latest by C04_resolves, other majors by C04_later_major / C04_earlier_major
      ("spec", Json.arr (qs.map (fun q => nums (match q.2 with
        | .mm 0 _ => []
        | .mm 1 _ | .latest => spec cs q.1 (clampV reg.maxVersion.minor q.2)
        | .mm _ _ => spec cs q.1 reg.maxVersion.minor))).toArray)]
  | "apiHelpers" =>
    -- the exported helpers of package api on which the registry, the dry-run skip and warn defaulting rest
    let a ← ver (← fld j "a")
    let b ← ver (← fld j "b")
    let la ← level (← fld j "la")
    let lb ← level (← fld j "lb")
    return Json.mkObj [("older", Json.bool (a.older b)), ("compare", Json.str (if compareLevels la lb < 0 then "lt" else if compareLevels la lb = 0 then "eq" else "gt")),
      ("fullyPrivileged", Json.bool (Policy.fullyPrivileged ⟨⟨la, a⟩, ⟨lb, b⟩, ⟨la, b⟩⟩))]
  | "review" =>
    -- a JSON-object review body as a list of top-level members [key, type, string?]
    let doc ← arrOf (fun m => do
      let k := strD m "k"
      let v : Review.TV ← match (← (← fld m "t").getStr?) with
        | "null" => pure .null | "str" => pure (.str (strD m "s")) | "obj" => pure (.obj true) | "objBad" => pure (.obj false)
        | "other" => pure .other | x => throw s!"review: unknown member type {x}"
      return (k, v)) (fldD j "doc")
    return Json.mkObj [("status", Json.num (Review.status doc : JsonNumber))]
  | "getNs" =>
    -- the namespace getter of admission/namespace.go: lister ∈ none | found | notFound | failed (found answers carry a marker)
    let look (s : String) (mark : Nat) : R (Deps.Lookup Nat) := match s with
      | "found" => pure (.found mark) | "notFound" => pure .notFound | "failed" => pure .failed
      | x => throw s!"getNs: unknown answer {x}"
    let lister ← match (← (← fld j "lister").getStr?) with
      | "none" => pure none
      | s => do pure (some (← look s 1))
    let client ← look (← (← fld j "client").getStr?) 2
    let o := Deps.getNamespace lister client
    let res := match o.result with
      | .found 1 => "found:lister" | .found _ => "found:client" | .notFound => "notFound" | .failed => "failed"
    return Json.mkObj [("result", Json.str res), ("clientAsked", Json.bool o.clientAsked), ("listerAsked", Json.bool o.listerAsked)]
  | "admit" => admitOp j
  | _ => throw s!"unknown op {op}"

partial def loop (hin hout : IO.FS.Stream) : IO Unit := do
  let line ← hin.getLine
  if line.isEmpty then return ()
  let out := match Json.parse line >>= handle with
    | .ok j => j
    | .error e => Json.mkObj [("driverError", Json.str e)]
  hout.putStrLn out.compress
  loop hin hout

def main : IO Unit := do
  let hin ← IO.getStdin
  let hout ← IO.getStdout
  loop hin hout
  hout.flush

package main

import (
	"context"
	"encoding/json"
	"errors"
	"fmt"
	"net/http"
	"net/http/httptest"
	"strings"

	admissionv1 "k8s.io/api/admission/v1"
	corev1 "k8s.io/api/core/v1"
	apierrors "k8s.io/apimachinery/pkg/api/errors"
	metav1 "k8s.io/apimachinery/pkg/apis/meta/v1"
	"k8s.io/apimachinery/pkg/labels"
	"k8s.io/apimachinery/pkg/runtime"
	"k8s.io/apimachinery/pkg/runtime/schema"
	"k8s.io/client-go/kubernetes"
	corev1listers "k8s.io/client-go/listers/core/v1"
	"k8s.io/client-go/rest"
	"k8s.io/pod-security-admission/admission"
	admissionapi "k8s.io/pod-security-admission/admission/api"
	"k8s.io/pod-security-admission/api"
)

// stubNSLister: an informer cache that answers Get the way the case says
type stubNSLister struct {
	ns  *corev1.Namespace
	err error
	n   int
}

func (s *stubNSLister) List(labels.Selector) ([]*corev1.Namespace, error) { return nil, nil }
func (s *stubNSLister) Get(name string) (*corev1.Namespace, error) {
	s.n++
	return s.ns, s.err
}

var _ corev1listers.NamespaceLister = &stubNSLister{}

// runC07Getter: the repository's namespace getter (admission/namespace.go) in front of a stub cache and a fake API server,
// over the product of their answers (found / NotFound in several wrappings / other failures), compared with the model
// `Deps.getNamespace`: which answer comes back, and whether the API server was asked at all.
func runC07Getter(c *Ctx) {
	gr := schema.GroupResource{Resource: "namespaces"}
	type ans struct {
		kind string // none | found | notFound | failed
		err  error
		code int // client side: HTTP status; 0 = connection refused
	}
	listerAns := []ans{{kind: "none"}, {kind: "found"},
		{kind: "notFound", err: apierrors.NewNotFound(gr, "team")}, {kind: "notFound", err: fmt.Errorf("cache lookup: %w", apierrors.NewNotFound(gr, "team"))},
		{kind: "failed", err: errors.New("informer cache not synced")}, {kind: "failed", err: apierrors.NewTimeoutError("slow", 1)}, {kind: "failed", err: apierrors.NewInternalError(errors.New("boom"))},
		{kind: "failed", err: context.DeadlineExceeded}, {kind: "failed", err: apierrors.NewForbidden(gr, "team", errors.New("no"))}, {kind: "failed", err: apierrors.NewGone("gone")}}
	clientAns := []ans{{kind: "found", code: 200}, {kind: "notFound", code: 404}, {kind: "failed", code: 500}, {kind: "failed", code: 403}, {kind: "failed", code: 410}, {kind: "failed", code: 0}}
	var ops []J
	type obs struct {
		in                J
		result            string
		clientAsked       bool
		listerCalls, reqs int
	}
	var all []obs
	for _, la := range listerAns {
		for _, ca := range clientAns {
			reqs := 0
			ts := httptest.NewServer(http.HandlerFunc(func(w http.ResponseWriter, rq *http.Request) {
				reqs++
				w.Header().Set("Content-Type", "application/json")
				if ca.code == 200 {
					json.NewEncoder(w).Encode(&corev1.Namespace{TypeMeta: metav1.TypeMeta{Kind: "Namespace", APIVersion: "v1"}, ObjectMeta: metav1.ObjectMeta{Name: "team", Labels: map[string]string{"src": "client"}}})
					return
				}
				reason := map[int]metav1.StatusReason{404: metav1.StatusReasonNotFound, 500: metav1.StatusReasonInternalError, 403: metav1.StatusReasonForbidden, 410: metav1.StatusReasonGone}[ca.code]
				w.WriteHeader(ca.code)
				json.NewEncoder(w).Encode(&metav1.Status{TypeMeta: metav1.TypeMeta{Kind: "Status", APIVersion: "v1"}, Status: "Failure", Reason: reason, Code: int32(ca.code), Message: "no",
					Details: &metav1.StatusDetails{Name: "team", Kind: "namespaces"}})
			}))
			url := ts.URL
			if ca.code == 0 {
				ts.Close() // nothing listens any more
			}
			cs, err := kubernetes.NewForConfig(&rest.Config{Host: url, QPS: -1})
			if err != nil {
				panic(err)
			}
			var getter admission.NamespaceGetter
			stub := &stubNSLister{err: la.err}
			if la.kind == "found" {
				stub.ns = &corev1.Namespace{ObjectMeta: metav1.ObjectMeta{Name: "team", Labels: map[string]string{"src": "lister"}}}
			}
			if la.kind == "none" {
				getter = admission.NamespaceGetterFromClient(cs)
			} else {
				getter = admission.NamespaceGetterFromListerAndClient(stub, cs)
			}
			ns, gerr := getter.GetNamespace(context.Background(), "team")
			// the property's own words, end to end: when neither the cache nor the API server has the namespace it cannot be
			// fetched, and a pod request there is denied; a controller request is allowed and flagged
			if la.kind != "found" && ca.kind != "found" {
				adm := &admission.Admission{
					Configuration: &admissionapi.PodSecurityConfiguration{Defaults: admissionapi.PodSecurityDefaults{Enforce: "privileged", EnforceVersion: "latest", Audit: "privileged", AuditVersion: "latest", Warn: "privileged", WarnVersion: "latest"}},
					Evaluator:     realEvaluator, Metrics: &recorder{}, PodSpecExtractor: admission.DefaultPodSpecExtractor{}, NamespaceGetter: getter, PodLister: clusterLister{}}
				if err := adm.CompleteConfiguration(); err != nil {
					panic(err)
				}
				pod := &corev1.Pod{ObjectMeta: metav1.ObjectMeta{Name: "p", Namespace: "team"}, Spec: corev1.PodSpec{Containers: []corev1.Container{{Name: "c", Image: "i"}}}}
				for _, res := range []string{"pods", "deployments"} {
					var obj runtime.Object = pod
					if res != "pods" {
						obj = wrapController(res, pod, false)
					}
					var resp *admissionv1.AdmissionResponse
					panicked := ""
					func() {
						defer func() {
							if rec := recover(); rec != nil {
								panicked = fmt.Sprint(rec)
							}
						}()
						resp = adm.Validate(context.Background(), &api.AttributesRecord{Name: "p", Namespace: "team", Resource: schema.GroupVersionResource{Group: groupOf(res), Version: "v1", Resource: res},
							Operation: admissionv1.Create, Object: obj, Username: "u"})
					}()
					c.Eval(1)
					in := J{"cache": la.kind, "cacheError": fmt.Sprint(la.err), "apiServer": ca.kind, "apiServerStatus": ca.code, "resource": res}
					switch {
					case panicked != "":
						c.Violate(Finding{Desc: "Validate panicked on a namespace that cannot be fetched: " + panicked, Key: "getter-panic", Input: in})
					case res == "pods" && resp.Allowed:
						c.Violate(Finding{Desc: "neither the cache nor the API server has the namespace, and the pod is admitted", Key: "unfetchable-namespace-pod-admitted", Input: in, Go: resp})
					case res != "pods" && (!resp.Allowed || resp.AuditAnnotations["error"] == ""):
						c.Violate(Finding{Desc: "neither the cache nor the API server has the namespace: the controller request must be allowed and carry an error annotation", Key: "unfetchable-namespace-controller", Input: in, Go: resp})
					}
				}
			}
			if ca.code != 0 {
				ts.Close()
			}
			c.Eval(1)
			c.Tag("c07.getter." + la.kind + "/" + ca.kind)
			o := obs{in: J{"cache": la.kind, "cacheError": fmt.Sprint(la.err), "apiServer": ca.kind, "apiServerStatus": ca.code}, clientAsked: reqs > 0 || (ca.code == 0 && gerr != nil && !strings.Contains(fmt.Sprint(gerr), fmt.Sprint(la.err))), listerCalls: stub.n, reqs: reqs}
			switch {
			case gerr == nil && ns != nil:
				o.result = "found:" + ns.Labels["src"]
			case gerr == nil:
				o.result = "found:nothing"
			case apierrors.IsNotFound(gerr):
				o.result = "notFound"
			default:
				o.result = "failed"
			}
			if ca.code == 0 { // a refused connection leaves no request count: the client was asked iff the error is a dial error
				o.clientAsked = gerr != nil && (strings.Contains(gerr.Error(), "connect") || strings.Contains(gerr.Error(), "refused") || strings.Contains(gerr.Error(), "dial"))
			}
			all = append(all, o)
			ops = append(ops, J{"op": "getNs", "lister": la.kind, "client": ca.kind})
			// the property's own words, on the real getter: a lookup that did not find the namespace is an error for the caller
			if (o.result == "found:lister") != (la.kind == "found") && la.kind != "none" && la.kind != "notFound" {
				c.Violate(Finding{Desc: "namespace getter: the cache's answer is not what the caller gets", Key: "getter-cache-answer", Input: o.in, Go: o.result})
			}
		}
	}
	outs := c.Lean(ops)
	for i, o := range all {
		lr, _ := outs[i]["result"].(string)
		la, _ := outs[i]["clientAsked"].(bool)
		if lr != o.result || la != o.clientAsked {
			c.Disagree(Finding{Desc: fmt.Sprintf("namespace getter: real code answers %s (API server asked: %v), the model %s (asked: %v)", o.result, o.clientAsked, lr, la), Input: o.in, Go: J{"result": o.result, "apiServerRequests": o.reqs, "cacheCalls": o.listerCalls}, Lean: outs[i]})
		}
	}
}

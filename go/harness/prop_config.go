package main

import (
	"bytes"
	"encoding/json"
	"fmt"
	"io"
	"math/big"
	mbits "math/bits"
	"os"
	"regexp"
	"strconv"
	"strings"
	"syscall"
	"time"

	admissionapi "k8s.io/pod-security-admission/admission/api"
	"k8s.io/pod-security-admission/admission/api/load"
	"k8s.io/pod-security-admission/admission/api/validation"
	"k8s.io/pod-security-admission/api"
)

func init() { props["C17"] = runC17 }

// a document value: nil (JSON null) | string | otherVal | []any (list) | *objVal
type otherVal struct{ n int }
type objVal struct{ fields [][2]any } // key string, value

func renderJSON(v any) string {
	switch x := v.(type) {
	case nil:
		return "null"
	case string:
		b, _ := json.Marshal(x)
		return string(b)
	case otherVal:
		if x.n%2 == 0 {
			return strconv.Itoa(x.n)
		}
		return "true"
	case []any:
		parts := []string{}
		for _, e := range x {
			parts = append(parts, renderJSON(e))
		}
		return "[" + strings.Join(parts, ",") + "]"
	case *objVal:
		parts := []string{}
		for _, f := range x.fields {
			parts = append(parts, renderJSON(f[0].(string))+":"+renderJSON(f[1]))
		}
		return "{" + strings.Join(parts, ",") + "}"
	}
	panic(fmt.Sprintf("%T", v))
}

// renderYAML: block mappings with JSON-style scalars and flow sequences (JSON scalars are valid YAML)
func renderYAML(v any, indent string) string {
	switch x := v.(type) {
	case *objVal:
		if len(x.fields) == 0 {
			return " {}\n"
		}
		var b strings.Builder
		b.WriteString("\n")
		for _, f := range x.fields {
			b.WriteString(indent + renderJSON(f[0].(string)) + ":")
			if o, ok := f[1].(*objVal); ok {
				b.WriteString(renderYAML(o, indent+"  "))
			} else {
				b.WriteString(" " + renderJSON(f[1]) + "\n")
			}
		}
		return b.String()
	}
	return " " + renderJSON(v) + "\n"
}

func leanV0(v any) any {
	switch x := v.(type) {
	case nil:
		return nil
	case string:
		return J{"s": x}
	}
	return J{"other": true}
}

func leanV1(v any) any {
	switch x := v.(type) {
	case nil:
		return nil
	case string:
		return J{"s": x}
	case []any:
		l := []any{}
		for _, e := range x {
			l = append(l, leanV0(e))
		}
		return J{"list": l}
	case *objVal:
		return J{"obj": true}
	}
	return J{"other": true}
}

func leanV2(v any) any {
	if o, ok := v.(*objVal); ok {
		fs := []any{}
		for _, f := range o.fields {
			fs = append(fs, []any{f[0], leanV1(f[1])})
		}
		return J{"obj": fs}
	}
	return leanV1(v)
}

func leanDoc(d *objVal) any {
	fs := []any{}
	for _, f := range d.fields {
		fs = append(fs, []any{f[0], leanV2(f[1])})
	}
	return fs
}

var cfgNames = []string{"kube-system", "a", "a-b", "A", "-a", "a-", "a.b", "a..b", "", "0", "x_y", strings.Repeat("a", 63), strings.Repeat("a", 64), "a.b-c.d", ".a", "system:admin", "user name", strings.Repeat("a.", 126) + "a", strings.Repeat("a.", 127) + "a"}

func genScalarValue(r *Rng, level bool) any {
	if r.Chance(1, 6) {
		if level {
			return pick(r, malformedLevels)
		}
		return pick(r, malformedVersions)
	}
	if level {
		return pick(r, validLevels)
	}
	return pick(r, validVersions)
}

func genListValue(r *Rng) any {
	l := []any{}
	for n := r.Intn(4); n > 0; n-- {
		if r.Chance(1, 4) {
			l = append(l, pick(r, cfgNames))
		} else {
			l = append(l, pick(r, []string{"kube-system", "a", "a-b", "a.b", "system:admin", "gvisor", "ns1"}))
		}
	}
	if r.Chance(1, 6) && len(l) > 0 {
		l = append(l, l[0]) // duplicate entry
	}
	return l
}

var apiVersions = []string{"pod-security.admission.config.k8s.io/v1", "pod-security.admission.config.k8s.io/v1beta1", "pod-security.admission.config.k8s.io/v1alpha1"}
var badAPIVersions = []string{"pod-security.admission.config.k8s.io/v2", "pod-security.admission.config.k8s.io/v1beta2", "pod-security.admission.config.k8s.io/", "pod-security.admission.config.k8s.io",
	"v1", "", "apiserver.config.k8s.io/v1", "pod-security.admission.config.k8s.io/V1", "pod-security.admission.config.k8s.io/__internal", "Pod-Security.admission.config.k8s.io/v1"}

func find(o *objVal, k string) int {
	for i, f := range o.fields {
		if f[0] == k {
			return i
		}
	}
	return -1
}

// genDoc: a structurally valid document (any subset of fields, valid or invalid *values*), then 0-2 structural defects
func genDoc(r *Rng) (*objVal, []string) {
	d := &objVal{}
	add := func(o *objVal, k string, v any) { o.fields = append(o.fields, [2]any{k, v}) }
	add(d, "apiVersion", pick(r, apiVersions))
	add(d, "kind", "PodSecurityConfiguration")
	if r.Chance(4, 5) {
		o := &objVal{}
		for i, k := range []string{"enforce", "enforce-version", "audit", "audit-version", "warn", "warn-version"} {
			if r.Chance(3, 5) {
				add(o, k, genScalarValue(r, i%2 == 0))
			} else if r.Chance(1, 6) {
				add(o, k, pick(r, []any{"", nil}))
			}
		}
		add(d, "defaults", o)
	}
	if r.Chance(3, 4) {
		o := &objVal{}
		for _, k := range []string{"usernames", "namespaces", "runtimeClasses"} {
			if r.Chance(3, 5) {
				add(o, k, genListValue(r))
			} else if r.Chance(1, 6) {
				add(o, k, nil)
			}
		}
		add(d, "exemptions", o)
	}
	var defects []string
	sub := func(k string) *objVal {
		if i := find(d, k); i >= 0 {
			if o, ok := d.fields[i][1].(*objVal); ok {
				return o
			}
		}
		return nil
	}
	for n := pick(r, []int{0, 0, 0, 1, 1, 2}); n > 0; n-- {
		switch r.Intn(14) {
		case 0:
			if i := find(d, "apiVersion"); i >= 0 {
				d.fields[i][1] = pick(r, badAPIVersions)
				defects = append(defects, "badApiVersion")
			}
		case 1:
			if i := find(d, "apiVersion"); i >= 0 {
				d.fields = append(d.fields[:i], d.fields[i+1:]...)
				defects = append(defects, "noApiVersion")
			}
		case 2:
			if i := find(d, "kind"); i >= 0 {
				d.fields[i][1] = pick(r, []any{"PodSecurityConfigurations", "podsecurityconfiguration", "Pod", "", nil, otherVal{1}})
				defects = append(defects, "badKind")
			}
		case 3:
			add(d, pick(r, []string{"Defaults", "exemption", "metadata", "spec", "Kind", "apiversion"}), pick(r, []any{"x", nil, &objVal{}}))
			defects = append(defects, "unknownTopKey")
		case 4:
			d.fields = append(d.fields, d.fields[r.Intn(len(d.fields))])
			defects = append(defects, "dupTopKey")
		case 5:
			if o := sub("defaults"); o != nil {
				add(o, pick(r, []string{"Enforce", "enforceVersion", "enforce_version", "unknown", "ENFORCE", "warnversion"}), "baseline")
				defects = append(defects, "unknownDefaultsKey")
			}
		case 6:
			if o := sub("defaults"); o != nil && len(o.fields) > 0 {
				o.fields = append(o.fields, o.fields[r.Intn(len(o.fields))])
				defects = append(defects, "dupDefaultsKey")
			}
		case 7:
			if o := sub("defaults"); o != nil && len(o.fields) > 0 {
				o.fields[r.Intn(len(o.fields))][1] = pick(r, []any{otherVal{2}, otherVal{1}, []any{"x"}, &objVal{}})
				defects = append(defects, "wrongTypeDefaults")
			}
		case 8:
			if o := sub("exemptions"); o != nil {
				add(o, pick(r, []string{"runtimeclasses", "Namespaces", "users", "runtimeClassNames"}), []any{"x"})
				defects = append(defects, "unknownExemptionsKey")
			}
		case 9:
			if o := sub("exemptions"); o != nil && len(o.fields) > 0 {
				o.fields = append(o.fields, o.fields[r.Intn(len(o.fields))])
				defects = append(defects, "dupExemptionsKey")
			}
		case 10:
			if o := sub("exemptions"); o != nil && len(o.fields) > 0 {
				o.fields[r.Intn(len(o.fields))][1] = pick(r, []any{"notalist", otherVal{2}, &objVal{}, []any{otherVal{3}}, []any{"a", nil}})
				defects = append(defects, "wrongTypeExemptions")
			}
		case 11:
			if i := find(d, "defaults"); i >= 0 {
				d.fields[i][1] = pick(r, []any{nil, "x", otherVal{2}, []any{}})
				defects = append(defects, "defaultsNotObject")
			}
		case 12:
			if i := find(d, "exemptions"); i >= 0 {
				d.fields[i][1] = pick(r, []any{nil, "x", otherVal{1}})
				defects = append(defects, "exemptionsNotObject")
			}
		default:
			if i := find(d, "kind"); i >= 0 {
				d.fields = append(d.fields[:i], d.fields[i+1:]...)
				defects = append(defects, "noKind")
			}
		}
	}
	p := r.Perm(len(d.fields))
	fs := make([][2]any, len(d.fields))
	for i, j := range p {
		fs[i] = d.fields[j]
	}
	d.fields = fs
	return d, defects
}

type cfgOut struct {
	OK     bool    `json:"ok"`
	Cfg    J       `json:"cfg,omitempty"`
	Errs   [][]any `json:"errs,omitempty"`
	Policy any     `json:"policy"`
	// not compared with the model: the property's own expectation for ToPolicy, computed from the stated strings
	statedMismatch string
}

var (
	dnsLabelRe     = regexp.MustCompile(`^[a-z0-9]([-a-z0-9]*[a-z0-9])?$`)
	dnsSubdomainRe = regexp.MustCompile(`^[a-z0-9]([-a-z0-9]*[a-z0-9])?(\.[a-z0-9]([-a-z0-9]*[a-z0-9])?)*$`)
	cfgVersionRe   = regexp.MustCompile(`^v1\.(0|[1-9][0-9]*)$`)
)

// cfgShouldValidate: the property's acceptance condition for a loaded configuration, written out independently
func cfgShouldValidate(cfg J) (bool, string) {
	str := func(k string) string { s, _ := cfg[k].(string); return s }
	for _, k := range []string{"enforce", "audit", "warn"} {
		switch str(k) {
		case "privileged", "baseline", "restricted":
		default:
			return false, fmt.Sprintf("default %s=%q is not a level", k, str(k))
		}
		v := str(k + "Version")
		if v != "latest" {
			if !cfgVersionRe.MatchString(v) {
				return false, fmt.Sprintf("default %s-version=%q is not latest or v1.N", k, v)
			}
			if n, ok := new(big.Int).SetString(v[3:], 10); !ok || !n.IsInt64() {
				return false, "abstain" // a number no machine integer holds: whether that "parses" is C05's business, not decided here
			}
		}
	}
	for _, l := range []struct {
		key string
		ok  func(string) bool
	}{
		{"namespaces", func(e string) bool { return len(e) <= 63 && dnsLabelRe.MatchString(e) }},
		{"runtimeClasses", func(e string) bool { return len(e) <= 253 && dnsSubdomainRe.MatchString(e) }},
		{"usernames", func(e string) bool { return e != "" }},
	} {
		entries, _ := cfg[l.key].([]string)
		seen := map[string]bool{}
		for _, e := range entries {
			if !l.ok(e) {
				return false, fmt.Sprintf("exemptions.%s entry %q is malformed", l.key, e)
			}
			if seen[e] {
				return false, fmt.Sprintf("exemptions.%s repeats %q", l.key, e)
			}
			seen[e] = true
		}
	}
	return true, ""
}

var idxRe = regexp.MustCompile(`^(.*)\[(\d+)\]$`)

func goLoad(data []byte) cfgOut {
	c, err := load.LoadFromData(data)
	if err != nil {
		return cfgOut{OK: false}
	}
	return describeCfg(c)
}

func describeCfg(c *admissionapi.PodSecurityConfiguration) cfgOut {
	nn := func(l []string) []string {
		if l == nil {
			return []string{}
		}
		return l
	}
	out := cfgOut{OK: true, Cfg: J{"enforce": c.Defaults.Enforce, "enforceVersion": c.Defaults.EnforceVersion, "audit": c.Defaults.Audit, "auditVersion": c.Defaults.AuditVersion,
		"warn": c.Defaults.Warn, "warnVersion": c.Defaults.WarnVersion, "usernames": nn(c.Exemptions.Usernames), "namespaces": nn(c.Exemptions.Namespaces), "runtimeClasses": nn(c.Exemptions.RuntimeClasses)},
		Errs: [][]any{}}
	for _, e := range validation.ValidatePodSecurityConfiguration(c) {
		var idx any
		path := e.Field
		if m := idxRe.FindStringSubmatch(path); m != nil {
			path = m[1]
			n, _ := strconv.Atoi(m[2])
			idx = n
		}
		kind := "invalid"
		if string(e.Type) == "FieldValueDuplicate" {
			kind = "duplicate"
		}
		out.Errs = append(out.Errs, []any{path, idx, kind})
	}
	if p, err := admissionapi.ToPolicy(c.Defaults); err == nil {
		out.Policy = polJSON(p)
		// "an accepted configuration is enforced with exactly the default policy it states": each stated string parsed on its own
		for _, m := range []struct {
			mode, level, version string
			got                  api.LevelVersion
		}{{"enforce", c.Defaults.Enforce, c.Defaults.EnforceVersion, p.Enforce}, {"audit", c.Defaults.Audit, c.Defaults.AuditVersion, p.Audit}, {"warn", c.Defaults.Warn, c.Defaults.WarnVersion, p.Warn}} {
			l, e1 := api.ParseLevel(m.level)
			v, e2 := api.ParseVersion(m.version)
			if e1 != nil || e2 != nil {
				continue
			}
			if m.got.Level != l || m.got.Version != v {
				out.statedMismatch = fmt.Sprintf("%s: stated %s:%s, ToPolicy gives %s", m.mode, m.level, m.version, m.got.String())
			}
			// and what a controller configured with it applies in a namespace without labels / with only a level label
			ns, errs := api.PolicyToEvaluate(map[string]string{"pod-security.kubernetes.io/" + m.mode: "baseline"}, p)
			var gotNs api.LevelVersion
			switch m.mode {
			case "enforce":
				gotNs = ns.Enforce
			case "audit":
				gotNs = ns.Audit
			default:
				gotNs = ns.Warn
			}
			if len(errs) == 0 && (gotNs.Level != api.LevelBaseline || gotNs.Version != v) {
				out.statedMismatch = fmt.Sprintf("%s: stated default version %s, a namespace labelled %s=baseline is judged at %s", m.mode, m.version, m.mode, gotNs.String())
			}
		}
	}
	return out
}

func runC17(c *Ctx) {
	runC17Setup(c)
	defer c17Layouts(c)
	n := sizes(c, 4000, 80000)
	r := NewRng(c.Seed)
	var ops []J
	type obs struct {
		doc      *objVal
		jsonText string
		yamlText string
		goJ, goY cfgOut
	}
	var all []obs
	// empty inputs
	ops = append(ops, J{"op": "loadConfig", "doc": nil})
	all = append(all, obs{jsonText: "", yamlText: "", goJ: goLoad(nil), goY: goLoad([]byte{})})
	allDefaults := &objVal{fields: [][2]any{{"apiVersion", apiVersions[0]}, {"kind", "PodSecurityConfiguration"}}}
	if canon(goLoad(nil)) != canon(goLoad([]byte(renderJSON(allDefaults)))) {
		c.Violate(Finding{Desc: "empty input does not load as the all-defaults document", Key: "empty-vs-defaults"})
	}
	// what a load returns belongs to the caller: changing it must not change what later loads return
	for _, data := range [][]byte{nil, {}, []byte(renderJSON(allDefaults)), []byte(`{"apiVersion":"pod-security.admission.config.k8s.io/v1","kind":"PodSecurityConfiguration","defaults":{"enforce":"baseline"},"exemptions":{"namespaces":["kube-system"]}}`)} {
		before := canon(goLoad(data))
		if cfg, err := load.LoadFromData(data); err == nil && cfg != nil {
			cfg.Defaults.Enforce, cfg.Defaults.EnforceVersion, cfg.Defaults.Warn = "restricted", "v1.25", "restricted"
			cfg.Exemptions.Namespaces = append(cfg.Exemptions.Namespaces, "tailored")
			cfg.Exemptions.Usernames = append(cfg.Exemptions.Usernames, "tailored")
		}
		c.Eval(2)
		if after := canon(goLoad(data)); after != before {
			c.Violate(Finding{Desc: "a configuration returned by an earlier load was modified by its caller, and a later load of the same input returns the modified content", Key: "load-shares-state",
				Input: J{"data": string(data)}, Go: J{"firstLoad": before, "loadAfterTheCallerModifiedTheFirstResult": after}})
		}
	}
	// the three entry points (data, reader, file) load the same bytes the same way — also for large documents (a configuration
	// with tens of thousands of exemptions is legal), with `defaults` stated after the long list
	{
		tmp, _ := os.MkdirTemp("", "c17")
		defer os.RemoveAll(tmp)
		mkBig := func(n int, yamlForm bool) []byte {
			var names []string
			for i := 0; i < n; i++ {
				names = append(names, fmt.Sprintf("team-%06d-namespace-with-a-long-name-%06d", i, i))
			}
			if yamlForm {
				var b strings.Builder
				b.WriteString("apiVersion: pod-security.admission.config.k8s.io/v1\nkind: PodSecurityConfiguration\nexemptions:\n  namespaces:\n")
				for _, nm := range names {
					b.WriteString("  - " + nm + "\n")
				}
				b.WriteString("defaults:\n  enforce: restricted\n  enforce-version: v1.25\n")
				return []byte(b.String())
			}
			doc := map[string]any{"apiVersion": "pod-security.admission.config.k8s.io/v1", "kind": "PodSecurityConfiguration",
				"exemptions": map[string]any{"namespaces": names}, "defaults": map[string]any{"enforce": "restricted", "enforce-version": "v1.25"}}
			b, _ := json.Marshal(doc)
			return b
		}
		docs := [][]byte{nil, []byte(renderJSON(allDefaults)), mkBig(10, true), mkBig(10, false)}
		for _, n := range []int{2000, 19000, 19100, 22000, 45000} { // ~100 KiB, just under / over 1 MiB, well over 1 MiB, over 2 MiB
			docs = append(docs, mkBig(n, true), mkBig(n, false))
		}
		for i, data := range docs {
			want := goLoad(data)
			path := fmt.Sprintf("%s/doc-%d", tmp, i)
			os.WriteFile(path, data, 0o644)
			viaReader, viaFile := cfgOut{OK: false}, cfgOut{OK: false}
			if cfg, err := load.LoadFromReader(struct{ io.Reader }{bytes.NewReader(data)}); err == nil {
				viaReader = describeCfg(cfg)
			}
			if data == nil {
				path = ""
			}
			if cfg, err := load.LoadFromFile(path); err == nil {
				viaFile = describeCfg(cfg)
			}
			c.Eval(3)
			c.Tag(fmt.Sprintf("entryPoints.bytes~2^%d", mbits.Len(uint(len(data)))))
			in := J{"bytes": len(data), "head": trunc(string(data), 200)}
			if canon(viaReader) != canon(want) || canon(viaFile) != canon(want) {
				c.Violate(Finding{Desc: fmt.Sprintf("the same %d bytes load differently through LoadFromData, LoadFromReader and LoadFromFile", len(data)), Key: "entry-points-differ", Input: in,
					Go: J{"data": trunc(canon(want), 600), "reader": trunc(canon(viaReader), 600), "file": trunc(canon(viaFile), 600)}})
			}
			// a reader that fails is not a document: whatever it delivered before failing (nothing, half of the document, all of it
			// without an end of file) must not be loaded
			if data != nil {
				for _, at := range []int{0, len(data) / 2, len(data)} {
					cfg, err := load.LoadFromReader(&failingReader{data: data, failAt: at})
					c.Eval(1)
					c.Tag("entryPoints.failingReader")
					if err == nil {
						got := cfgOut{OK: false}
						if cfg != nil {
							got = describeCfg(cfg)
						}
						c.Violate(Finding{Desc: fmt.Sprintf("LoadFromReader returns a configuration although the reader failed after %d of %d bytes", at, len(data)), Key: "reader-error-ignored",
							Input: J{"bytes": len(data), "readerFailsAfterBytes": at, "head": trunc(string(data), 200)}, Go: trunc(canon(got), 400)})
					}
				}
			}
			// a configuration file need not be a regular file: a symbolic link (how a mounted ConfigMap presents its keys), a
			// named pipe (process substitution, a secrets agent) — whatever can be opened and read to the end is the document
			if data != nil && len(data) < 400000 {
				link, fifo := path+".link", path+".fifo"
				viaLink, viaFifo := cfgOut{OK: false}, cfgOut{OK: false}
				if os.Symlink(path, link) == nil {
					if cfg, err := load.LoadFromFile(link); err == nil {
						viaLink = describeCfg(cfg)
					}
				} else {
					viaLink = want
				}
				if syscall.Mkfifo(fifo, 0o600) == nil {
					wrote := make(chan struct{})
					go func() {
						defer close(wrote)
						if f, err := os.OpenFile(fifo, os.O_WRONLY, 0); err == nil {
							f.Write(data)
							f.Close()
						}
					}()
					res := make(chan cfgOut, 1)
					go func() {
						out := cfgOut{OK: false}
						if cfg, err := load.LoadFromFile(fifo); err == nil {
							out = describeCfg(cfg)
						}
						res <- out
					}()
					select {
					case viaFifo = <-res:
					case <-time.After(20 * time.Second):
						viaFifo = cfgOut{OK: false}
					}
					// a loader that gave up without opening the pipe leaves the writer waiting: let it go
					select {
					case <-wrote:
					default:
						if f, err := os.OpenFile(fifo, os.O_RDONLY|syscall.O_NONBLOCK, 0); err == nil {
							io.Copy(io.Discard, f)
							<-wrote
							f.Close()
						}
					}
				} else {
					viaFifo = want
				}
				c.Eval(2)
				c.Tag("entryPoints.link+fifo")
				if canon(viaLink) != canon(want) || canon(viaFifo) != canon(want) {
					c.Violate(Finding{Desc: fmt.Sprintf("the same %d bytes load differently from a regular file, through a symbolic link and from a named pipe", len(data)), Key: "entry-points-differ-special-file", Input: in,
						Go: J{"data": trunc(canon(want), 600), "symlink": trunc(canon(viaLink), 600), "namedPipe": trunc(canon(viaFifo), 600)}})
				}
			}
			if len(data) > 1000 && (!want.OK || want.Cfg["enforce"] != "restricted" || want.Cfg["enforceVersion"] != "v1.25" || len(want.Cfg["namespaces"].([]string)) < 10) {
				c.Violate(Finding{Desc: "a large, well-formed configuration is not loaded with the content it states", Key: "large-config", Input: in, Go: trunc(canon(want), 600)})
			}
		}
	}
	// directed documents: every catalogued apiVersion (served and unserved) on a minimal and on a full document
	var directed []*objVal
	for _, av := range append(append([]string{}, apiVersions...), badAPIVersions...) {
		directed = append(directed, &objVal{fields: [][2]any{{"apiVersion", av}, {"kind", "PodSecurityConfiguration"}}})
		directed = append(directed, &objVal{fields: [][2]any{{"kind", "PodSecurityConfiguration"}, {"apiVersion", av},
			{"defaults", &objVal{fields: [][2]any{{"enforce", "baseline"}, {"enforce-version", "v1.25"}, {"audit-version", "v1.1"}}}},
			{"exemptions", &objVal{fields: [][2]any{{"namespaces", []any{"kube-system"}}, {"usernames", []any{"admin"}}}}}}})
	}
	n += len(directed)
	for i := 0; i < n; i++ {
		d, defects := genDoc(r.Fork())
		if i < len(directed) {
			d, defects = directed[i], []string{"directed"}
		}
		for _, df := range defects {
			c.Tag("defect." + df)
		}
		if len(defects) == 0 {
			c.Tag("defect.none")
		}
		jt := renderJSON(d)
		yt := strings.TrimPrefix(renderYAML(d, ""), "\n")
		o := obs{doc: d, jsonText: jt, yamlText: yt, goJ: goLoad([]byte(jt)), goY: goLoad([]byte(yt))}
		c.Eval(2)
		ops = append(ops, J{"op": "loadConfig", "doc": leanDoc(d)})
		all = append(all, o)
		if o.goJ.OK {
			c.Tag("load.ok")
			c.Nontrivial(jt)
			if len(o.goJ.Errs) == 0 {
				c.Tag("validate.ok")
			} else {
				c.Tag("validate.errs")
			}
		} else {
			c.Tag("load.err")
		}
		if i < 2 {
			c.Sample(J{"json": jt, "yaml": yt})
		}
		in := J{"json": jt, "yaml": yt}
		if canon(o.goJ) != canon(o.goY) {
			c.Violate(Finding{Desc: "the same document loads differently as JSON and as YAML", Key: "json-vs-yaml", Input: in, Go: J{"json": o.goJ, "yaml": o.goY}})
		}
		// the same content under every served version gives the same configuration
		var av string
		for _, f := range d.fields {
			if f[0] == "apiVersion" {
				av, _ = f[1].(string)
			}
		}
		served := false
		for _, v := range apiVersions {
			served = served || v == av
		}
		if o.goJ.OK && !served {
			c.Violate(Finding{Desc: fmt.Sprintf("document with apiVersion %q (not a served version) was accepted", av), Key: "unserved-accepted:" + av, Input: in})
		}
		if served {
			for _, v := range apiVersions {
				if v == av {
					continue
				}
				d2 := &objVal{}
				for _, f := range d.fields {
					if f[0] == "apiVersion" {
						d2.fields = append(d2.fields, [2]any{"apiVersion", v})
					} else {
						d2.fields = append(d2.fields, f)
					}
				}
				g2 := goLoad([]byte(renderJSON(d2)))
				c.Eval(1)
				if canon(g2) != canon(o.goJ) {
					c.Violate(Finding{Desc: fmt.Sprintf("same content loads differently under %s and %s", av, v), Key: "version-dependent", Input: in, Go: J{av: o.goJ, v: g2}})
				}
			}
		}
		if o.goJ.OK {
			// accepted configuration enforces exactly the defaults it states
			if len(o.goJ.Errs) == 0 && o.goJ.Policy == nil {
				c.Violate(Finding{Desc: "configuration passes validation but ToPolicy fails", Key: "validate-topolicy", Input: in})
			}
			// "exemption entries are ... unique": a repeated entry must be reported, wherever its first occurrence stands
			for _, list := range []string{"namespaces", "usernames", "runtimeClasses"} {
				entries, _ := o.goJ.Cfg[list].([]string)
				suffix := strings.ToLower(list[:1]) + list[1:]
				invalidAt := map[int]bool{} // a malformed entry is reported as such, not as a duplicate
				reported := 0
				for _, e := range o.goJ.Errs {
					if len(e) == 3 && strings.HasSuffix(fmt.Sprint(e[0]), suffix) {
						if e[2] == "duplicate" {
							reported++
						} else if idx, ok := e[1].(int); ok {
							invalidAt[idx] = true
						}
					}
				}
				seen := map[string]bool{}
				dups := 0
				for i, e := range entries {
					if invalidAt[i] {
						continue
					}
					if seen[e] {
						dups++
					}
					seen[e] = true
				}
				if dups > 0 && reported == 0 {
					c.Violate(Finding{Desc: fmt.Sprintf("exemptions.%s repeats an entry (%v) but validation reports no duplicate", list, entries), Key: "duplicate-accepted", Input: in, Go: o.goJ})
				}
			}
			// "validation accepts exactly the configurations whose six defaults parse and whose exemption entries are well-formed
			// and unique", with well-formedness spelled out here (RFC 1123 label for a namespace, RFC 1123 subdomain for a
			// RuntimeClass, a non-empty user name), not taken from the validation code
			if want, why := cfgShouldValidate(o.goJ.Cfg); why != "abstain" && want != (len(o.goJ.Errs) == 0) {
				if want {
					c.Violate(Finding{Desc: "validation rejects a configuration whose six defaults parse and whose exemption entries are well-formed and unique", Key: "validation-rejects-valid", Input: in, Go: o.goJ})
				} else {
					c.Violate(Finding{Desc: "validation accepts a configuration it must reject: " + why, Key: "validation-accepts-invalid", Input: in, Go: o.goJ})
				}
			}
			if len(o.goJ.Errs) == 0 && o.goJ.statedMismatch != "" {
				c.Violate(Finding{Desc: "accepted configuration is not enforced with the default policy it states: " + o.goJ.statedMismatch, Key: "stated-defaults", Input: in, Go: o.goJ})
			}
		}
	}
	outs := c.Lean(ops)
	for i, o := range outs {
		if _, bad := o["driverError"]; bad {
			continue
		}
		g := all[i].goJ
		var l cfgOut
		b, _ := json.Marshal(o)
		json.Unmarshal(b, &l)
		if l.Errs == nil && l.OK {
			l.Errs = [][]any{}
		}
		if canon(g) != canon(l) {
			in := J{"json": all[i].jsonText}
			// strictness / defaulting / validation are fully determined by the property: a difference is a violation when the
			// model rejects (unknown / duplicate / unserved) and the code accepts, or when the accepted configuration differs
			if g.OK && !l.OK {
				c.Violate(Finding{Desc: "document accepted although the property (served version, known unique fields, string / string-list types) rejects it", Key: "strictness", Input: in, Go: g})
			} else {
				c.Disagree(Finding{Desc: "configuration loading / validation differs from the model", Input: in, Go: g, Lean: l})
			}
		}
	}
}

// failingReader delivers data[:failAt] and then fails (never an end of file)
type failingReader struct {
	data   []byte
	failAt int
	pos    int
}

func (f *failingReader) Read(p []byte) (int, error) {
	if f.pos >= f.failAt {
		return 0, fmt.Errorf("read: connection reset by peer")
	}
	n := copy(p, f.data[f.pos:f.failAt])
	f.pos += n
	return n, nil
}

package main

import (
	"fmt"

	corev1 "k8s.io/api/core/v1"
	metav1 "k8s.io/apimachinery/pkg/apis/meta/v1"
)

// catalogPods: the deterministic part of the pod stream — a pod compliant with restricted at every version, plus exactly
// one atom: one modelled field, at one location, set to one catalogued value (every listed value, every near miss, every
// unlisted value). A change of any single allow-list element or per-field rule shows up on one of these pods in isolation.
func catalogPods() []PodCase {
	var out []PodCase
	base := func() *corev1.Pod {
		mk := func(n string) corev1.Container {
			return corev1.Container{Name: n, Image: "img-" + n, SecurityContext: compliantSC()}
		}
		e := mk("eph")
		return &corev1.Pod{ObjectMeta: metav1.ObjectMeta{Name: "cat", Namespace: "ns"}, Spec: corev1.PodSpec{
			InitContainers:      []corev1.Container{mk("init")},
			Containers:          []corev1.Container{mk("ctr")},
			EphemeralContainers: []corev1.EphemeralContainer{{EphemeralContainerCommon: corev1.EphemeralContainerCommon{Name: e.Name, Image: e.Image, SecurityContext: e.SecurityContext}}},
			SecurityContext:     &corev1.PodSecurityContext{RunAsNonRoot: bp(true), SeccompProfile: &corev1.SeccompProfile{Type: "RuntimeDefault"}},
		}}
	}
	add := func(name string, f func(p *corev1.Pod)) {
		p := base()
		f(p)
		p.Name = fmt.Sprintf("cat-%d", len(out))
		out = append(out, PodCase{Pod: p, Base: "catalog", Atoms: []string{"cat." + name}})
	}
	add("base", func(p *corev1.Pod) {})
	locs := []struct {
		name string
		sc   func(p *corev1.Pod) *corev1.SecurityContext
		ports func(p *corev1.Pod) *[]corev1.ContainerPort
	}{
		{"init", func(p *corev1.Pod) *corev1.SecurityContext { return p.Spec.InitContainers[0].SecurityContext }, func(p *corev1.Pod) *[]corev1.ContainerPort { return &p.Spec.InitContainers[0].Ports }},
		{"ctr", func(p *corev1.Pod) *corev1.SecurityContext { return p.Spec.Containers[0].SecurityContext }, func(p *corev1.Pod) *[]corev1.ContainerPort { return &p.Spec.Containers[0].Ports }},
		{"eph", func(p *corev1.Pod) *corev1.SecurityContext { return p.Spec.EphemeralContainers[0].SecurityContext }, func(p *corev1.Pod) *[]corev1.ContainerPort { return &p.Spec.EphemeralContainers[0].Ports }},
	}
	for _, l := range locs {
		l := l
		for _, b := range []*bool{bp(true), bp(false)} {
			b := b
			add(l.name+".privileged", func(p *corev1.Pod) { l.sc(p).Privileged = b })
		}
		for _, b := range []*bool{nil, bp(true)} {
			b := b
			add(l.name+".ape", func(p *corev1.Pod) { l.sc(p).AllowPrivilegeEscalation = b })
		}
		for _, cp := range capUniverse {
			cp := cp
			add(l.name+".caps.add", func(p *corev1.Pod) { l.sc(p).Capabilities.Add = []corev1.Capability{corev1.Capability(cp)} })
			add(l.name+".caps.drop", func(p *corev1.Pod) { l.sc(p).Capabilities.Drop = []corev1.Capability{corev1.Capability(cp)} })
		}
		add(l.name+".caps=nil", func(p *corev1.Pod) { l.sc(p).Capabilities = nil })
		add(l.name+".caps.drop=[]", func(p *corev1.Pod) { l.sc(p).Capabilities.Drop = nil })
		add(l.name+".sc=nil", func(p *corev1.Pod) {
			switch l.name {
			case "init":
				p.Spec.InitContainers[0].SecurityContext = nil
			case "ctr":
				p.Spec.Containers[0].SecurityContext = nil
			default:
				p.Spec.EphemeralContainers[0].SecurityContext = nil
			}
		})
		for _, pm := range procMounts {
			pm := pm
			add(l.name+".procMount", func(p *corev1.Pod) { l.sc(p).ProcMount = &pm })
		}
		for _, b := range []*bool{bp(false), bp(true)} {
			b := b
			add(l.name+".runAsNonRoot", func(p *corev1.Pod) { l.sc(p).RunAsNonRoot = b })
		}
		for _, u := range runAsUserVals {
			u := u
			add(l.name+".runAsUser", func(p *corev1.Pod) { l.sc(p).RunAsUser = u })
		}
		for _, t := range seccompTypes {
			t := t
			add(l.name+".seccomp", func(p *corev1.Pod) { l.sc(p).SeccompProfile = &corev1.SeccompProfile{Type: t} })
		}
		for _, t := range appArmorTypes {
			t := t
			add(l.name+".appArmor", func(p *corev1.Pod) { l.sc(p).AppArmorProfile = &corev1.AppArmorProfile{Type: t} })
		}
		for _, t := range selTypes {
			t := t
			add(l.name+".seLinux.type", func(p *corev1.Pod) { l.sc(p).SELinuxOptions = &corev1.SELinuxOptions{Type: t} })
		}
		add(l.name+".seLinux.user", func(p *corev1.Pod) { l.sc(p).SELinuxOptions = &corev1.SELinuxOptions{User: "u"} })
		add(l.name+".seLinux.role", func(p *corev1.Pod) { l.sc(p).SELinuxOptions = &corev1.SELinuxOptions{Role: "r"} })
		add(l.name+".seLinux.level", func(p *corev1.Pod) { l.sc(p).SELinuxOptions = &corev1.SELinuxOptions{Level: "s0"} })
		for _, b := range []*bool{nil, bp(true), bp(false)} {
			b := b
			add(l.name+".hostProcess", func(p *corev1.Pod) { l.sc(p).WindowsOptions = &corev1.WindowsSecurityContextOptions{HostProcess: b} })
		}
		for _, hp := range hostPortVals {
			hp := hp
			add(l.name+".hostPort", func(p *corev1.Pod) { *l.ports(p) = []corev1.ContainerPort{{ContainerPort: 80, HostPort: hp}} })
		}
	}
	// pod level
	for _, b := range []*bool{nil, bp(false)} {
		b := b
		add("pod.runAsNonRoot", func(p *corev1.Pod) { p.Spec.SecurityContext.RunAsNonRoot = b })
	}
	add("pod.runAsNonRoot=nil,containers=true", func(p *corev1.Pod) {
		p.Spec.SecurityContext.RunAsNonRoot = nil
		visit(&p.Spec, func(c *corev1.Container) { c.SecurityContext.RunAsNonRoot = bp(true) })
	})
	for _, u := range runAsUserVals {
		u := u
		add("pod.runAsUser", func(p *corev1.Pod) { p.Spec.SecurityContext.RunAsUser = u })
	}
	add("pod.seccomp=nil", func(p *corev1.Pod) { p.Spec.SecurityContext.SeccompProfile = nil })
	add("pod.seccomp=nil,containers=set", func(p *corev1.Pod) {
		p.Spec.SecurityContext.SeccompProfile = nil
		visit(&p.Spec, func(c *corev1.Container) { c.SecurityContext.SeccompProfile = &corev1.SeccompProfile{Type: "Localhost"} })
	})
	for _, t := range seccompTypes {
		t := t
		add("pod.seccomp", func(p *corev1.Pod) { p.Spec.SecurityContext.SeccompProfile = &corev1.SeccompProfile{Type: t} })
	}
	for _, t := range appArmorTypes {
		t := t
		add("pod.appArmor", func(p *corev1.Pod) { p.Spec.SecurityContext.AppArmorProfile = &corev1.AppArmorProfile{Type: t} })
	}
	for _, t := range selTypes {
		t := t
		add("pod.seLinux.type", func(p *corev1.Pod) { p.Spec.SecurityContext.SELinuxOptions = &corev1.SELinuxOptions{Type: t} })
	}
	add("pod.seLinux.user", func(p *corev1.Pod) { p.Spec.SecurityContext.SELinuxOptions = &corev1.SELinuxOptions{User: "u"} })
	add("pod.seLinux.role", func(p *corev1.Pod) { p.Spec.SecurityContext.SELinuxOptions = &corev1.SELinuxOptions{Role: "r"} })
	for _, b := range []*bool{nil, bp(true), bp(false)} {
		b := b
		add("pod.hostProcess", func(p *corev1.Pod) { p.Spec.SecurityContext.WindowsOptions = &corev1.WindowsSecurityContextOptions{HostProcess: b} })
	}
	for _, s := range sysctlNames {
		s := s
		add("pod.sysctl", func(p *corev1.Pod) { p.Spec.SecurityContext.Sysctls = []corev1.Sysctl{{Name: s, Value: "1"}} })
	}
	add("pod.sc=nil", func(p *corev1.Pod) { p.Spec.SecurityContext = nil })
	add("hostNetwork", func(p *corev1.Pod) { p.Spec.HostNetwork = true })
	add("hostPID", func(p *corev1.Pod) { p.Spec.HostPID = true })
	add("hostIPC", func(p *corev1.Pod) { p.Spec.HostIPC = true })
	for _, b := range []*bool{bp(true), bp(false)} {
		b := b
		add("hostUsers", func(p *corev1.Pod) { p.Spec.HostUsers = b })
	}
	for _, os := range []string{"linux", "windows", "Windows", "", "windows "} {
		os := os
		add("os", func(p *corev1.Pod) { p.Spec.OS = &corev1.PodOS{Name: corev1.OSName(os)} })
		// an API-valid windows-style pod: no Linux-only fields
		add("os.bare", func(p *corev1.Pod) {
			p.Spec.OS = &corev1.PodOS{Name: corev1.OSName(os)}
			p.Spec.SecurityContext.SeccompProfile = nil
			visit(&p.Spec, func(c *corev1.Container) { c.SecurityContext = &corev1.SecurityContext{} })
		})
	}
	keys := []string{"seccomp.security.alpha.kubernetes.io/pod", "container.seccomp.security.alpha.kubernetes.io/ctr", "container.seccomp.security.alpha.kubernetes.io/init",
		"container.seccomp.security.alpha.kubernetes.io/eph", "container.seccomp.security.alpha.kubernetes.io/nosuch", "container.apparmor.security.beta.kubernetes.io/ctr",
		"container.apparmor.security.beta.kubernetes.io/zz", "container.apparmor.security.beta.kubernetes.io/", "container.apparmor.security.beta.kubernetes.io", "seccomp.security.alpha.kubernetes.io/pod2"}
	for _, k := range keys {
		for _, v := range annVals {
			k, v := k, v
			add("annotation", func(p *corev1.Pod) { p.Annotations = map[string]string{k: v} })
		}
	}
	for _, vs := range volSources {
		vs := vs
		add("volume", func(p *corev1.Pod) { p.Spec.Volumes = []corev1.Volume{{Name: "vol", VolumeSource: vs()}} })
	}
	// noise fields in isolation: must not change anything
	add("noise.nodeSelector.windows", func(p *corev1.Pod) { p.Spec.NodeSelector = map[string]string{"kubernetes.io/os": "windows"} })
	add("noise.all", func(p *corev1.Pod) { podNoise(NewRng(7), p) })
	return out
}

package main

import (
	"fmt"
	"strings"

	corev1 "k8s.io/api/core/v1"
	metav1 "k8s.io/apimachinery/pkg/apis/meta/v1"
)

// catalogPods: the deterministic part of the pod stream — a pod compliant with restricted at every version, plus exactly
// one atom: one modelled field, at one location, set to one catalogued value (every listed value, every near miss, every
// unlisted value). A change of any single allow-list element or per-field rule shows up on one of these pods in isolation.
func catalogPods() []PodCase {
	var out []PodCase
	base := func() *corev1.Pod {
		mk := func(n string) corev1.Container {
			return corev1.Container{Name: n, Image: "img-" + n, SecurityContext: compliantSC()}
		}
		e := mk("eph")
		// every catalogue pod carries the same uid and resourceVersion: an object identity says nothing about its content
		return &corev1.Pod{ObjectMeta: metav1.ObjectMeta{Name: "cat", Namespace: "ns", UID: "1b4e28ba-2fa1-11d2-883f-0016d3cca427", ResourceVersion: "4711", Generation: 3}, Spec: corev1.PodSpec{
			InitContainers:      []corev1.Container{mk("init")},
			Containers:          []corev1.Container{mk("ctr")},
			EphemeralContainers: []corev1.EphemeralContainer{{EphemeralContainerCommon: corev1.EphemeralContainerCommon{Name: e.Name, Image: e.Image, SecurityContext: e.SecurityContext}}},
			SecurityContext:     &corev1.PodSecurityContext{RunAsNonRoot: bp(true), SeccompProfile: &corev1.SeccompProfile{Type: "RuntimeDefault"}},
		}}
	}
	add := func(name string, f func(p *corev1.Pod)) {
		p := base()
		f(p)
		p.Name = fmt.Sprintf("cat-%d", len(out))
		out = append(out, PodCase{Pod: p, Base: "catalog", Atoms: []string{"cat." + name}})
	}
	add("base", func(p *corev1.Pod) {})
	locs := []struct {
		name  string
		sc    func(p *corev1.Pod) *corev1.SecurityContext
		ports func(p *corev1.Pod) *[]corev1.ContainerPort
	}{
		{"init", func(p *corev1.Pod) *corev1.SecurityContext { return p.Spec.InitContainers[0].SecurityContext }, func(p *corev1.Pod) *[]corev1.ContainerPort { return &p.Spec.InitContainers[0].Ports }},
		{"ctr", func(p *corev1.Pod) *corev1.SecurityContext { return p.Spec.Containers[0].SecurityContext }, func(p *corev1.Pod) *[]corev1.ContainerPort { return &p.Spec.Containers[0].Ports }},
		{"eph", func(p *corev1.Pod) *corev1.SecurityContext { return p.Spec.EphemeralContainers[0].SecurityContext }, func(p *corev1.Pod) *[]corev1.ContainerPort { return &p.Spec.EphemeralContainers[0].Ports }},
	}
	for _, l := range locs {
		l := l
		for _, b := range []*bool{bp(true), bp(false)} {
			b := b
			add(l.name+".privileged", func(p *corev1.Pod) { l.sc(p).Privileged = b })
		}
		for _, b := range []*bool{nil, bp(true)} {
			b := b
			add(l.name+".ape", func(p *corev1.Pod) { l.sc(p).AllowPrivilegeEscalation = b })
		}
		for _, cp := range capUniverse {
			cp := cp
			add(l.name+".caps.add", func(p *corev1.Pod) { l.sc(p).Capabilities.Add = []corev1.Capability{corev1.Capability(cp)} })
			add(l.name+".caps.drop", func(p *corev1.Pod) { l.sc(p).Capabilities.Drop = []corev1.Capability{corev1.Capability(cp)} })
		}
		// the same capability added AND dropped by one container (drop keeps ALL, so only the add can matter), and dropped by
		// the neighbouring list entry only: the two fields are separate inputs of separate controls
		for _, cp := range capUniverse {
			cp := cp
			add(l.name+".caps.add+drop", func(p *corev1.Pod) {
				l.sc(p).Capabilities.Add = []corev1.Capability{corev1.Capability(cp)}
				l.sc(p).Capabilities.Drop = []corev1.Capability{"ALL", corev1.Capability(cp)}
			})
		}
		add(l.name+".caps.add+drop.two", func(p *corev1.Pod) {
			l.sc(p).Capabilities.Add = []corev1.Capability{"NET_BIND_SERVICE", "SYS_ADMIN", "NET_RAW"}
			l.sc(p).Capabilities.Drop = []corev1.Capability{"SYS_ADMIN", "ALL", "NET_RAW"}
		})
		add(l.name+".caps=nil", func(p *corev1.Pod) { l.sc(p).Capabilities = nil })
		add(l.name+".caps.drop=[]", func(p *corev1.Pod) { l.sc(p).Capabilities.Drop = nil })
		add(l.name+".sc=nil", func(p *corev1.Pod) {
			switch l.name {
			case "init":
				p.Spec.InitContainers[0].SecurityContext = nil
			case "ctr":
				p.Spec.Containers[0].SecurityContext = nil
			default:
				p.Spec.EphemeralContainers[0].SecurityContext = nil
			}
		})
		for _, pm := range procMounts {
			pm := pm
			add(l.name+".procMount", func(p *corev1.Pod) { l.sc(p).ProcMount = &pm })
		}
		for _, b := range []*bool{bp(false), bp(true)} {
			b := b
			add(l.name+".runAsNonRoot", func(p *corev1.Pod) { l.sc(p).RunAsNonRoot = b })
		}
		for _, u := range runAsUserVals {
			u := u
			add(l.name+".runAsUser", func(p *corev1.Pod) { l.sc(p).RunAsUser = u })
		}
		for _, t := range seccompTypes {
			t := t
			add(l.name+".seccomp", func(p *corev1.Pod) { l.sc(p).SeccompProfile = &corev1.SeccompProfile{Type: t} })
		}
		for _, t := range appArmorTypes {
			t := t
			add(l.name+".appArmor", func(p *corev1.Pod) { l.sc(p).AppArmorProfile = &corev1.AppArmorProfile{Type: t} })
		}
		for _, t := range selTypes {
			t := t
			add(l.name+".seLinux.type", func(p *corev1.Pod) { l.sc(p).SELinuxOptions = &corev1.SELinuxOptions{Type: t} })
		}
		add(l.name+".seLinux.user", func(p *corev1.Pod) { l.sc(p).SELinuxOptions = &corev1.SELinuxOptions{User: "u"} })
		add(l.name+".seLinux.role", func(p *corev1.Pod) { l.sc(p).SELinuxOptions = &corev1.SELinuxOptions{Role: "r"} })
		add(l.name+".seLinux.level", func(p *corev1.Pod) { l.sc(p).SELinuxOptions = &corev1.SELinuxOptions{Level: "s0"} })
		for _, b := range []*bool{nil, bp(true), bp(false)} {
			b := b
			add(l.name+".hostProcess", func(p *corev1.Pod) { l.sc(p).WindowsOptions = &corev1.WindowsSecurityContextOptions{HostProcess: b} })
		}
		for _, hp := range hostPortVals {
			hp := hp
			add(l.name+".hostPort", func(p *corev1.Pod) { *l.ports(p) = []corev1.ContainerPort{{ContainerPort: 80, HostPort: hp}} })
		}
	}
	// pod level
	for _, b := range []*bool{nil, bp(false)} {
		b := b
		add("pod.runAsNonRoot", func(p *corev1.Pod) { p.Spec.SecurityContext.RunAsNonRoot = b })
	}
	add("pod.runAsNonRoot=nil,containers=true", func(p *corev1.Pod) {
		p.Spec.SecurityContext.RunAsNonRoot = nil
		visit(&p.Spec, func(c *corev1.Container) { c.SecurityContext.RunAsNonRoot = bp(true) })
	})
	for _, u := range runAsUserVals {
		u := u
		add("pod.runAsUser", func(p *corev1.Pod) { p.Spec.SecurityContext.RunAsUser = u })
	}
	add("pod.seccomp=nil", func(p *corev1.Pod) { p.Spec.SecurityContext.SeccompProfile = nil })
	add("pod.seccomp=nil,containers=set", func(p *corev1.Pod) {
		p.Spec.SecurityContext.SeccompProfile = nil
		visit(&p.Spec, func(c *corev1.Container) {
			c.SecurityContext.SeccompProfile = &corev1.SeccompProfile{Type: "Localhost"}
		})
	})
	for _, t := range seccompTypes {
		t := t
		add("pod.seccomp", func(p *corev1.Pod) { p.Spec.SecurityContext.SeccompProfile = &corev1.SeccompProfile{Type: t} })
	}
	for _, t := range appArmorTypes {
		t := t
		add("pod.appArmor", func(p *corev1.Pod) { p.Spec.SecurityContext.AppArmorProfile = &corev1.AppArmorProfile{Type: t} })
	}
	for _, t := range selTypes {
		t := t
		add("pod.seLinux.type", func(p *corev1.Pod) { p.Spec.SecurityContext.SELinuxOptions = &corev1.SELinuxOptions{Type: t} })
	}
	add("pod.seLinux.user", func(p *corev1.Pod) { p.Spec.SecurityContext.SELinuxOptions = &corev1.SELinuxOptions{User: "u"} })
	add("pod.seLinux.role", func(p *corev1.Pod) { p.Spec.SecurityContext.SELinuxOptions = &corev1.SELinuxOptions{Role: "r"} })
	for _, b := range []*bool{nil, bp(true), bp(false)} {
		b := b
		add("pod.hostProcess", func(p *corev1.Pod) {
			p.Spec.SecurityContext.WindowsOptions = &corev1.WindowsSecurityContextOptions{HostProcess: b}
		})
	}
	for _, s := range sysctlNames {
		s := s
		add("pod.sysctl", func(p *corev1.Pod) { p.Spec.SecurityContext.Sysctls = []corev1.Sysctl{{Name: s, Value: "1"}} })
	}
	// pod level x container level: every pair (pod-level value, value set on the containers), with the containers' value set
	// on every container ("all") or on every container but one ("butInit" / "butEph" leave that one to inherit) — a pod-level
	// value must be judged on its own where the standard restricts the pod-level field, and may be covered / cover only
	// where the standard says so
	scopes := []struct {
		name string
		skip string
	}{{"all", ""}, {"butInit", "init"}, {"butEph", "eph"}}
	each := func(p *corev1.Pod, skip string, f func(sc *corev1.SecurityContext)) {
		visit(&p.Spec, func(c *corev1.Container) {
			if c.Name != skip {
				f(c.SecurityContext)
			}
		})
	}
	for _, sc := range scopes {
		sc := sc
		for _, pt := range append([]corev1.SeccompProfileType{"<nil>"}, seccompTypes[:5]...) {
			for _, ct := range seccompTypes[:4] {
				pt, ct := pt, ct
				add("pair.seccomp."+sc.name, func(p *corev1.Pod) {
					p.Spec.SecurityContext.SeccompProfile = &corev1.SeccompProfile{Type: pt}
					if pt == "<nil>" {
						p.Spec.SecurityContext.SeccompProfile = nil
					}
					each(p, sc.skip, func(s *corev1.SecurityContext) { s.SeccompProfile = &corev1.SeccompProfile{Type: ct} })
				})
			}
		}
		for _, pb := range []*bool{nil, bp(true), bp(false)} {
			for _, cb := range []*bool{bp(true), bp(false)} {
				pb, cb := pb, cb
				add("pair.runAsNonRoot."+sc.name, func(p *corev1.Pod) {
					p.Spec.SecurityContext.RunAsNonRoot = pb
					each(p, sc.skip, func(s *corev1.SecurityContext) { s.RunAsNonRoot = cb })
				})
			}
		}
		for _, pu := range []*int64{nil, ip(0), ip(1000)} {
			for _, cu := range []*int64{ip(0), ip(1000)} {
				pu, cu := pu, cu
				add("pair.runAsUser."+sc.name, func(p *corev1.Pod) {
					p.Spec.SecurityContext.RunAsUser = pu
					each(p, sc.skip, func(s *corev1.SecurityContext) { s.RunAsUser = cu })
				})
			}
		}
		for _, pt := range append([]corev1.AppArmorProfileType{"<nil>"}, appArmorTypes[:4]...) {
			for _, ct := range appArmorTypes[:4] {
				pt, ct := pt, ct
				add("pair.appArmor."+sc.name, func(p *corev1.Pod) {
					if pt != "<nil>" {
						p.Spec.SecurityContext.AppArmorProfile = &corev1.AppArmorProfile{Type: pt}
					}
					each(p, sc.skip, func(s *corev1.SecurityContext) { s.AppArmorProfile = &corev1.AppArmorProfile{Type: ct} })
				})
			}
		}
		for _, pt := range []string{"<nil>", "", "container_t", "spc_t", "container_engine_t"} {
			for _, ct := range []string{"", "container_t", "spc_t", "container_engine_t"} {
				pt, ct := pt, ct
				add("pair.seLinux."+sc.name, func(p *corev1.Pod) {
					if pt != "<nil>" {
						p.Spec.SecurityContext.SELinuxOptions = &corev1.SELinuxOptions{Type: pt}
					}
					each(p, sc.skip, func(s *corev1.SecurityContext) { s.SELinuxOptions = &corev1.SELinuxOptions{Type: ct} })
				})
			}
		}
		for _, pb := range []*bool{nil, bp(true), bp(false)} {
			for _, cb := range []*bool{bp(true), bp(false)} {
				pb, cb := pb, cb
				add("pair.hostProcess."+sc.name, func(p *corev1.Pod) {
					if pb != nil {
						p.Spec.SecurityContext.WindowsOptions = &corev1.WindowsSecurityContextOptions{HostProcess: pb}
					}
					each(p, sc.skip, func(s *corev1.SecurityContext) {
						s.WindowsOptions = &corev1.WindowsSecurityContextOptions{HostProcess: cb}
					})
				})
			}
		}
	}
	add("pod.sc=nil", func(p *corev1.Pod) { p.Spec.SecurityContext = nil })
	add("hostNetwork", func(p *corev1.Pod) { p.Spec.HostNetwork = true })
	add("hostPID", func(p *corev1.Pod) { p.Spec.HostPID = true })
	add("hostIPC", func(p *corev1.Pod) { p.Spec.HostIPC = true })
	for _, b := range []*bool{bp(true), bp(false)} {
		b := b
		add("hostUsers", func(p *corev1.Pod) { p.Spec.HostUsers = b })
	}
	for _, os := range []string{"linux", "windows", "Windows", "", "windows "} {
		os := os
		add("os", func(p *corev1.Pod) { p.Spec.OS = &corev1.PodOS{Name: corev1.OSName(os)} })
		// an API-valid windows-style pod: no Linux-only fields
		add("os.bare", func(p *corev1.Pod) {
			p.Spec.OS = &corev1.PodOS{Name: corev1.OSName(os)}
			p.Spec.SecurityContext.SeccompProfile = nil
			visit(&p.Spec, func(c *corev1.Container) { c.SecurityContext = &corev1.SecurityContext{} })
		})
	}
	keys := []string{"seccomp.security.alpha.kubernetes.io/pod", "container.seccomp.security.alpha.kubernetes.io/ctr", "container.seccomp.security.alpha.kubernetes.io/init",
		"container.seccomp.security.alpha.kubernetes.io/eph", "container.seccomp.security.alpha.kubernetes.io/nosuch", "container.apparmor.security.beta.kubernetes.io/ctr",
		"container.apparmor.security.beta.kubernetes.io/zz", "container.apparmor.security.beta.kubernetes.io/", "container.apparmor.security.beta.kubernetes.io", "seccomp.security.alpha.kubernetes.io/pod2"}
	for _, k := range keys {
		for _, v := range annVals {
			k, v := k, v
			add("annotation", func(p *corev1.Pod) { p.Annotations = map[string]string{k: v} })
		}
	}
	for _, vs := range volSources {
		vs := vs
		add("volume", func(p *corev1.Pod) { p.Spec.Volumes = []corev1.Volume{{Name: "vol", VolumeSource: vs()}} })
	}
	// cross-control pairs: two representative atoms (mostly one violating value per control, at different locations) applied
	// to the same compliant pod — what one control reports must not depend on what another control sees. Sampled at a
	// few versions each (FewMinors), round-robin, because there are several hundred of them.
	type rep struct {
		name string
		f    func(p *corev1.Pod)
	}
	ctr := func(p *corev1.Pod) *corev1.SecurityContext { return p.Spec.Containers[0].SecurityContext }
	ini := func(p *corev1.Pod) *corev1.SecurityContext { return p.Spec.InitContainers[0].SecurityContext }
	eph := func(p *corev1.Pod) *corev1.SecurityContext { return p.Spec.EphemeralContainers[0].SecurityContext }
	unmasked := corev1.ProcMountType("Unmasked")
	reps := []rep{
		{"ctr.privileged", func(p *corev1.Pod) { ctr(p).Privileged = bp(true) }},
		{"init.ape", func(p *corev1.Pod) { ini(p).AllowPrivilegeEscalation = bp(true) }},
		{"eph.caps.add=SYS_ADMIN", func(p *corev1.Pod) { eph(p).Capabilities.Add = []corev1.Capability{"SYS_ADMIN"} }},
		{"ctr.caps.add=NET_BIND_SERVICE", func(p *corev1.Pod) { ctr(p).Capabilities.Add = []corev1.Capability{"NET_BIND_SERVICE"} }},
		{"ctr.caps.add=CHOWN", func(p *corev1.Pod) { ctr(p).Capabilities.Add = []corev1.Capability{"CHOWN"} }},
		{"init.caps.drop=nil", func(p *corev1.Pod) { ini(p).Capabilities.Drop = nil }},
		{"eph.sc=nil", func(p *corev1.Pod) { p.Spec.EphemeralContainers[0].SecurityContext = nil }},
		{"ctr.procMount", func(p *corev1.Pod) { ctr(p).ProcMount = &unmasked }},
		{"init.runAsNonRoot=false", func(p *corev1.Pod) { ini(p).RunAsNonRoot = bp(false) }},
		{"pod.runAsNonRoot=nil", func(p *corev1.Pod) { p.Spec.SecurityContext.RunAsNonRoot = nil }},
		{"ctr.runAsUser=0", func(p *corev1.Pod) { ctr(p).RunAsUser = ip(0) }},
		{"pod.runAsUser=0", func(p *corev1.Pod) { p.Spec.SecurityContext.RunAsUser = ip(0) }},
		{"ctr.seccomp=Unconfined", func(p *corev1.Pod) { ctr(p).SeccompProfile = &corev1.SeccompProfile{Type: "Unconfined"} }},
		{"pod.seccomp=Unconfined", func(p *corev1.Pod) {
			p.Spec.SecurityContext.SeccompProfile = &corev1.SeccompProfile{Type: "Unconfined"}
		}},
		{"pod.seccomp=nil", func(p *corev1.Pod) { p.Spec.SecurityContext.SeccompProfile = nil }},
		{"eph.appArmor=Unconfined", func(p *corev1.Pod) { eph(p).AppArmorProfile = &corev1.AppArmorProfile{Type: "Unconfined"} }},
		{"pod.appArmor=Unconfined", func(p *corev1.Pod) {
			p.Spec.SecurityContext.AppArmorProfile = &corev1.AppArmorProfile{Type: "Unconfined"}
		}},
		{"ctr.seLinux=spc_t", func(p *corev1.Pod) { ctr(p).SELinuxOptions = &corev1.SELinuxOptions{Type: "spc_t"} }},
		{"pod.seLinux.user", func(p *corev1.Pod) { p.Spec.SecurityContext.SELinuxOptions = &corev1.SELinuxOptions{User: "u"} }},
		{"init.hostProcess", func(p *corev1.Pod) {
			ini(p).WindowsOptions = &corev1.WindowsSecurityContextOptions{HostProcess: bp(true)}
		}},
		{"pod.hostProcess", func(p *corev1.Pod) {
			p.Spec.SecurityContext.WindowsOptions = &corev1.WindowsSecurityContextOptions{HostProcess: bp(true)}
		}},
		{"ctr.hostPort=containerPort", func(p *corev1.Pod) {
			p.Spec.Containers[0].Ports = []corev1.ContainerPort{{ContainerPort: 8080, HostPort: 8080}}
		}},
		{"init.hostPort", func(p *corev1.Pod) {
			p.Spec.InitContainers[0].Ports = []corev1.ContainerPort{{ContainerPort: 80, HostPort: 81}}
		}},
		{"hostNetwork", func(p *corev1.Pod) { p.Spec.HostNetwork = true }},
		{"hostPID", func(p *corev1.Pod) { p.Spec.HostPID = true }},
		{"hostIPC", func(p *corev1.Pod) { p.Spec.HostIPC = true }},
		{"hostUsers=false", func(p *corev1.Pod) { p.Spec.HostUsers = bp(false) }},
		{"os=windows", func(p *corev1.Pod) { p.Spec.OS = &corev1.PodOS{Name: "windows"} }},
		{"os=linux", func(p *corev1.Pod) { p.Spec.OS = &corev1.PodOS{Name: "linux"} }},
		{"sysctl=kernel.msgmax", func(p *corev1.Pod) {
			p.Spec.SecurityContext.Sysctls = []corev1.Sysctl{{Name: "kernel.msgmax", Value: "1"}}
		}},
		{"sysctl=tcp_rmem", func(p *corev1.Pod) {
			p.Spec.SecurityContext.Sysctls = []corev1.Sysctl{{Name: "net.ipv4.tcp_rmem", Value: "1"}}
		}},
		{"volume=hostPath", func(p *corev1.Pod) {
			p.Spec.Volumes = append(p.Spec.Volumes, corev1.Volume{Name: "hp", VolumeSource: corev1.VolumeSource{HostPath: &corev1.HostPathVolumeSource{Path: "/"}}})
		}},
		{"volume=nfs", func(p *corev1.Pod) {
			p.Spec.Volumes = append(p.Spec.Volumes, corev1.Volume{Name: "nfs", VolumeSource: corev1.VolumeSource{NFS: &corev1.NFSVolumeSource{Server: "s", Path: "/"}}})
		}},
		{"ann.seccomp.pod=unconfined", func(p *corev1.Pod) {
			if p.Annotations == nil {
				p.Annotations = map[string]string{}
			}
			p.Annotations["seccomp.security.alpha.kubernetes.io/pod"] = "unconfined"
		}},
		{"ann.apparmor.ctr=unconfined", func(p *corev1.Pod) {
			if p.Annotations == nil {
				p.Annotations = map[string]string{}
			}
			p.Annotations["container.apparmor.security.beta.kubernetes.io/ctr"] = "unconfined"
		}},
		{"nodeSelector.windows", func(p *corev1.Pod) { p.Spec.NodeSelector = map[string]string{"kubernetes.io/os": "windows"} }},
	}
	for i := range reps {
		for j := i + 1; j < len(reps); j++ {
			a, b := reps[i], reps[j]
			p := base()
			if a.name == "eph.sc=nil" { // removes the struct the other atom may write into: apply it last
				a, b = b, a
			}
			a.f(p)
			b.f(p)
			p.Name = fmt.Sprintf("cat-%d", len(out))
			out = append(out, PodCase{Pod: p, Base: "catalog", Atoms: []string{"cross." + a.name, "cross." + b.name}, FewMinors: true})
		}
	}
	// long messages: many containers with 63-byte names, every one violating four restricted controls — the aggregate detail runs
	// to several KiB (4 KiB, 8 KiB and 64 KiB are the sizes buffers and pools are tuned around); the ordinary pods that follow in
	// the catalogue are the "next message"
	for _, n := range []int{14, 30, 60, 250} {
		n := n
		add(fmt.Sprintf("longMessage.%d", n), func(p *corev1.Pod) {
			p.Spec.InitContainers, p.Spec.EphemeralContainers = nil, nil
			p.Spec.Containers = nil
			for i := 0; i < n; i++ {
				name := fmt.Sprintf("c%03d-", i) + strings.Repeat("x", 58)
				p.Spec.Containers = append(p.Spec.Containers, corev1.Container{Name: name, Image: "img", SecurityContext: &corev1.SecurityContext{
					Privileged: bp(true), Capabilities: &corev1.Capabilities{Add: []corev1.Capability{"SYS_ADMIN"}}, SeccompProfile: &corev1.SeccompProfile{Type: "Unconfined"}}})
			}
		})
		add("longMessage.next", func(p *corev1.Pod) { p.Spec.Containers[0].SecurityContext.Privileged = bp(true) })
	}
	// wide pods: 16 to 40 containers spread over the three kinds, with two to four controls violated on some of them — the
	// listing of controls must not depend on how many containers a pod has
	for _, width := range []int{16, 17, 24, 40} {
		for variant := 0; variant < 3; variant++ {
			width, variant := width, variant
			add(fmt.Sprintf("wide.%d", width), func(p *corev1.Pod) {
				mk := func(n string, bad int) corev1.Container {
					c := corev1.Container{Name: n, Image: "img", SecurityContext: compliantSC()}
					switch bad {
					case 1:
						c.SecurityContext.Privileged = bp(true)
					case 2:
						c.SecurityContext.Capabilities.Add = []corev1.Capability{"SYS_ADMIN"}
					case 3:
						c.Ports = []corev1.ContainerPort{{ContainerPort: 80, HostPort: 80}}
					case 4:
						c.SecurityContext.SeccompProfile = &corev1.SeccompProfile{Type: "Unconfined"}
					}
					return c
				}
				p.Spec.InitContainers, p.Spec.Containers, p.Spec.EphemeralContainers = nil, nil, nil
				for i := 0; i < width; i++ {
					bad := 0
					if i%5 == variant {
						bad = 1 + (i/5+variant)%4
					}
					c := mk(fmt.Sprintf("w%02d", i), bad)
					switch i % 4 {
					case 0:
						p.Spec.InitContainers = append(p.Spec.InitContainers, c)
					case 3:
						p.Spec.EphemeralContainers = append(p.Spec.EphemeralContainers, corev1.EphemeralContainer{EphemeralContainerCommon: corev1.EphemeralContainerCommon{Name: c.Name, Image: c.Image, SecurityContext: c.SecurityContext, Ports: c.Ports}})
					default:
						p.Spec.Containers = append(p.Spec.Containers, c)
					}
				}
				if variant == 2 {
					p.Spec.HostNetwork = true
				}
			})
		}
	}
	// empty but non-nil lists and maps where the pod otherwise leaves them unset (what an in-memory constructor or a decoder
	// of `"drop": []` may produce): an empty list is an absent list
	for _, l := range locs {
		l := l
		add(l.name+".caps.drop=[]nonNil", func(p *corev1.Pod) { l.sc(p).Capabilities.Drop = []corev1.Capability{} })
		add(l.name+".caps.add=[]nonNil", func(p *corev1.Pod) { l.sc(p).Capabilities.Add = []corev1.Capability{} })
		add(l.name+".caps={[],[]}", func(p *corev1.Pod) {
			l.sc(p).Capabilities = &corev1.Capabilities{Add: []corev1.Capability{}, Drop: []corev1.Capability{}}
		})
		add(l.name+".ports=[]nonNil", func(p *corev1.Pod) { *l.ports(p) = []corev1.ContainerPort{} })
	}
	add("pod.sysctls=[]nonNil", func(p *corev1.Pod) { p.Spec.SecurityContext.Sysctls = []corev1.Sysctl{} })
	add("pod.volumes=[]nonNil", func(p *corev1.Pod) { p.Spec.Volumes = []corev1.Volume{} })
	add("pod.annotations={}nonNil", func(p *corev1.Pod) { p.Annotations = map[string]string{} })
	add("pod.initContainers=[]nonNil", func(p *corev1.Pod) { p.Spec.InitContainers = []corev1.Container{} })
	add("pod.ephemeralContainers=[]nonNil", func(p *corev1.Pod) { p.Spec.EphemeralContainers = []corev1.EphemeralContainer{} })
	add("pod.nodeSelector={}nonNil", func(p *corev1.Pod) { p.Spec.NodeSelector = map[string]string{} })
	// long lists: many items of one kind on an otherwise compliant pod, with the offending item first, last, in the middle,
	// repeated, or absent — a verdict or a message must not depend on how long a list is
	for _, n := range []int{8, 9, 16, 17, 33, 64} {
		for _, where := range []string{"none", "first", "last", "middle", "twice"} {
			n, where := n, where
			at := func(i int) bool {
				switch where {
				case "first":
					return i == 0
				case "last":
					return i == n-1
				case "middle":
					return i == n/2
				case "twice":
					return i == 1 || i == n-2
				}
				return false
			}
			add(fmt.Sprintf("many.caps.%d", n), func(p *corev1.Pod) {
				var adds []corev1.Capability
				for i := 0; i < n; i++ {
					c := corev1.Capability(capUniverse[i%13]) // the first 13 are the baseline-allowed ones
					if at(i) {
						c = "SYS_ADMIN"
					}
					adds = append(adds, c)
				}
				p.Spec.Containers[0].SecurityContext.Capabilities.Add = adds
			})
			add(fmt.Sprintf("many.sysctls.%d", n), func(p *corev1.Pod) {
				var l []corev1.Sysctl
				for i := 0; i < n; i++ {
					nm := sysctlNames[i%5]
					if at(i) {
						nm = "kernel.msgmax"
					}
					l = append(l, corev1.Sysctl{Name: nm, Value: "1"})
				}
				p.Spec.SecurityContext.Sysctls = l
			})
			add(fmt.Sprintf("many.volumes.%d", n), func(p *corev1.Pod) {
				for i := 0; i < n; i++ {
					v := corev1.Volume{Name: fmt.Sprintf("vol%02d", i), VolumeSource: corev1.VolumeSource{EmptyDir: &corev1.EmptyDirVolumeSource{}}}
					if at(i) {
						v.VolumeSource = corev1.VolumeSource{HostPath: &corev1.HostPathVolumeSource{Path: "/"}}
					}
					p.Spec.Volumes = append(p.Spec.Volumes, v)
				}
			})
			add(fmt.Sprintf("many.ports.%d", n), func(p *corev1.Pod) {
				var l []corev1.ContainerPort
				for i := 0; i < n; i++ {
					cp := corev1.ContainerPort{ContainerPort: int32(8000 + i)}
					if at(i) {
						cp.HostPort = int32(9000 + i)
					}
					l = append(l, cp)
				}
				p.Spec.InitContainers[0].Ports = l
			})
			add(fmt.Sprintf("many.annotations.%d", n), func(p *corev1.Pod) {
				p.Annotations = map[string]string{}
				for i := 0; i < n; i++ {
					k, v := fmt.Sprintf("example.com/note-%02d", i), "x"
					if at(i) {
						k, v = fmt.Sprintf("container.apparmor.security.beta.kubernetes.io/c%02d", i), "unconfined"
					}
					p.Annotations[k] = v
				}
			})
		}
	}
	// noise fields in isolation: must not change anything
	add("noise.nodeSelector.windows", func(p *corev1.Pod) { p.Spec.NodeSelector = map[string]string{"kubernetes.io/os": "windows"} })
	add("noise.all", func(p *corev1.Pod) { podNoise(NewRng(7), p) })
	// fields some revision reads although no expected read-set mentions them, set to the constants that revision mentions
	out = append(out, dictPods(base)...)
	return out
}

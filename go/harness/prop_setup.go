package main

import (
	"bytes"
	"encoding/json"
	"fmt"
	"io"
	"net"
	"net/http"
	"net/http/httptest"
	"os"
	"strings"

	admissionv1 "k8s.io/api/admission/v1"
	corev1 "k8s.io/api/core/v1"
	metav1 "k8s.io/apimachinery/pkg/apis/meta/v1"
	"k8s.io/pod-security-admission/admission"
	admissionapi "k8s.io/pod-security-admission/admission/api"
	"k8s.io/pod-security-admission/admission/api/load"
	"k8s.io/pod-security-admission/cmd/webhook/server"
	"k8s.io/pod-security-admission/cmd/webhook/server/options"
)

// runC17Setup: the production chain from a configuration FILE to the decisions of a running webhook — options -> LoadConfig
// (reads the file, builds the client configuration) -> Setup (clients, evaluator, recorder, controller, CompleteConfiguration,
// ValidateConfiguration) -> HandleValidate — in front of a small fake API server. Nothing is assembled by the harness: the
// Server is the one `Setup` returns. For every document:
//   - whether the webhook refuses to load, refuses to start, or serves must be what the model's `setup` says (C17_webhook_setup)
//     and what the property says (served version, strict fields; six defaults parse, entries well-formed and unique);
//   - a serving webhook must judge pods in an unlabelled namespace, in an exempt namespace, by an exempt user and with an
//     exempt runtime class exactly as the model does from the strings the file states.
func runC17Setup(c *Ctx) {
	r := NewRng(c.Seed + 1717)
	tmp, err := os.MkdirTemp("", "c17setup")
	if err != nil {
		panic(err)
	}
	defer os.RemoveAll(tmp)
	api := httptest.NewServer(http.HandlerFunc(func(w http.ResponseWriter, rq *http.Request) {
		w.Header().Set("Content-Type", "application/json")
		parts := strings.Split(strings.Trim(rq.URL.Path, "/"), "/")
		switch {
		case len(parts) == 4 && parts[2] == "namespaces": // every namespace exists and carries no labels
			json.NewEncoder(w).Encode(&corev1.Namespace{TypeMeta: metav1.TypeMeta{Kind: "Namespace", APIVersion: "v1"}, ObjectMeta: metav1.ObjectMeta{Name: parts[3]}})
		case len(parts) == 5 && parts[4] == "pods":
			json.NewEncoder(w).Encode(&corev1.PodList{TypeMeta: metav1.TypeMeta{Kind: "PodList", APIVersion: "v1"}})
		default:
			w.WriteHeader(404)
		}
	}))
	defer api.Close()
	kubeconfig := tmp + "/kubeconfig"
	os.WriteFile(kubeconfig, []byte(fmt.Sprintf("apiVersion: v1\nkind: Config\nclusters:\n- name: fake\n  cluster:\n    server: %s\ncontexts:\n- name: fake\n  context:\n    cluster: fake\n    user: fake\ncurrent-context: fake\nusers:\n- name: fake\n  user: {}\n", api.URL)), 0o600)
	ln, err := net.Listen("tcp", "127.0.0.1:0") // handed to the serving options; never served from
	if err != nil {
		c.Note("setup chain skipped: cannot open a listener: " + err.Error())
		return
	}
	defer ln.Close()

	// documents: the generator of the loading sweep, a mostly-valid stream (so that many webhooks do start), an empty file and
	// no file at all
	type docCase struct {
		doc  *objVal
		text []byte
		yaml bool
		none bool // no --config at all
	}
	var docs []docCase
	docs = append(docs, docCase{none: true}, docCase{text: []byte{}})
	n := sizes(c, 160, 2400)
	for i := 0; i < n; i++ {
		var d *objVal
		if i%2 == 0 {
			d, _ = genDoc(r)
		} else {
			d = genMostlyValidDoc(r)
		}
		dc := docCase{doc: d, yaml: i%4 >= 2}
		if dc.yaml {
			dc.text = []byte(renderYAML(d, ""))
		} else {
			dc.text = []byte(renderJSON(d))
		}
		docs = append(docs, dc)
	}
	var ops []J
	type result struct {
		outcome string
		errText string
		srv     *server.Server
		cfg     cfgOut
	}
	results := make([]result, len(docs))
	for i, dc := range docs {
		opts := options.NewOptions()
		opts.Kubeconfig = kubeconfig
		opts.SecureServing.Listener = ln
		if !dc.none {
			opts.Config = fmt.Sprintf("%s/config-%d", tmp, i)
			os.WriteFile(opts.Config, dc.text, 0o600)
		}
		if dc.doc != nil {
			ops = append(ops, J{"op": "setup", "doc": leanDoc(dc.doc)})
		} else {
			ops = append(ops, J{"op": "setup", "doc": nil})
		}
		res := &results[i]
		res.cfg = goLoad(dc.text)
		cfg, err := server.LoadConfig(opts)
		c.Eval(1)
		if err != nil {
			res.outcome, res.errText = "loadError", err.Error()
			continue
		}
		srv, err := server.Setup(cfg)
		if err != nil {
			res.outcome, res.errText = "setupError", err.Error()
			continue
		}
		res.outcome, res.srv = "serving", srv
	}
	outs := c.Lean(ops)
	var aops []J
	type probe struct {
		doc  int
		a    *AdmitCase
		got  AdmitOut
		fail string
	}
	var probes []*probe
	for i, dc := range docs {
		res := results[i]
		in := J{"config": string(dc.text), "noConfigFlag": dc.none}
		c.Tag("setup." + res.outcome)
		want, _ := outs[i]["outcome"].(string)
		// the property's own expectation
		propWant := "loadError"
		if res.cfg.OK { // (strictness of loading itself is the business of the loading sweep; here: given that it loads)
			propWant = "setupError"
			if ok, why := cfgShouldValidate(res.cfg.Cfg); ok {
				propWant = "serving"
			} else if why == "abstain" {
				propWant = ""
			}
		}
		if propWant != "" && res.cfg.OK && res.outcome != propWant {
			if res.outcome == "serving" {
				c.Violate(Finding{Desc: "the webhook starts serving with a configuration that validation must reject", Key: "setup-serves-invalid", Input: in, Go: res.cfg})
			} else {
				c.Violate(Finding{Desc: fmt.Sprintf("the webhook does not start (%s: %s) with a configuration whose six defaults parse and whose exemption entries are well-formed and unique", res.outcome, res.errText), Key: "setup-refuses-valid", Input: in, Go: res.cfg})
			}
		} else if want != res.outcome {
			c.Disagree(Finding{Desc: "outcome of LoadConfig + Setup differs from the model", Input: in, Go: J{"outcome": res.outcome, "error": res.errText}, Lean: outs[i]})
		}
		if res.outcome != "serving" || !res.cfg.OK {
			continue
		}
		if ok, _ := cfgShouldValidate(res.cfg.Cfg); !ok {
			continue
		}
		c.Nontrivial(J{"doc": i})
		// what the file states, as strings
		str := func(k string) string { s, _ := res.cfg.Cfg[k].(string); return s }
		list := func(k string) []string { l, _ := res.cfg.Cfg[k].([]string); return l }
		stated := admissionapi.PodSecurityDefaults{Enforce: str("enforce"), EnforceVersion: str("enforceVersion"), Audit: str("audit"), AuditVersion: str("auditVersion"), Warn: str("warn"), WarnVersion: str("warnVersion")}
		ts := httptest.NewServer(http.HandlerFunc(res.srv.HandleValidate))
		for k := 0; k < 6; k++ {
			a := &AdmitCase{Defaults: stated, ExNS: list("namespaces"), ExUsers: list("usernames"), ExRC: list("runtimeClasses"),
				Res: "pods", Op: admissionv1.Create, Name: fmt.Sprintf("p-%d-%d", i, k), NS: "plain", User: "someone", ExpireAfter: -1, NSLabels: map[string]string{}}
			var pod *corev1.Pod
			switch k % 3 {
			case 0:
				pod = versionSensitivePod(r, a.Name)
			case 1:
				pod = genPod(r.Fork(), i*7+k).Pod
			default:
				pod = &corev1.Pod{Spec: corev1.PodSpec{HostNetwork: r.Bool(), Containers: []corev1.Container{{Name: "c", Image: "i", SecurityContext: &corev1.SecurityContext{Privileged: bp(r.Bool())}}}}}
			}
			pod.Name, pod.Namespace = a.Name, a.NS
			// exemptions the file states, used as stated: a namespace, a user, a runtime class from its lists
			switch k {
			case 3:
				if l := a.ExNS; len(l) > 0 {
					a.NS = l[r.Intn(len(l))]
					pod.Namespace = a.NS
				}
			case 4:
				if l := a.ExUsers; len(l) > 0 {
					a.User = l[r.Intn(len(l))]
				}
			case 5:
				if l := a.ExRC; len(l) > 0 {
					rc := l[r.Intn(len(l))]
					pod.Spec.RuntimeClassName = &rc
				}
			}
			a.Obj = ObjSpec{Kind: "pod", Pod: pod}
			p := &probe{doc: i, a: a}
			resp, err := http.Post(ts.URL, "application/json", bytes.NewReader(a.review(a.Name, 0)))
			c.Eval(1)
			if err != nil {
				p.fail = err.Error()
			} else {
				b, _ := io.ReadAll(resp.Body)
				resp.Body.Close()
				var rv admissionv1.AdmissionReview
				if resp.StatusCode == 200 && json.Unmarshal(b, &rv) == nil && rv.Response != nil {
					p.got = projectResponse(rv.Response, nil, nil, nil)
				} else {
					p.fail = fmt.Sprintf("status %d: %s", resp.StatusCode, string(b[:min(len(b), 200)]))
				}
			}
			probes = append(probes, p)
			aops = append(aops, a.opJSON())
		}
		ts.Close()
	}
	for k, o := range c.Lean(aops) {
		p := probes[k]
		in := J{"config": string(docs[p.doc].text), "request": aops[k]["req"]}
		if p.fail != "" {
			c.Violate(Finding{Desc: "a webhook set up from an accepted configuration does not answer a well-formed pod review: " + p.fail, Key: "setup-webhook-dead", Input: in})
			continue
		}
		l := leanAdmit(o)
		if d := diffAdmit(p.got, l, "allowed code causes message warnings ann audit"); len(d) > 0 {
			f := Finding{Desc: "a webhook set up from this configuration file does not judge the request by the default policy and the exemptions the file states: " + strings.Join(d, "; "),
				Key: "setup-not-enforced-as-stated", Input: in, Go: p.got, Lean: l}
			if p.got.Allowed != l.Allowed || sptr(p.got.AnnEnforce) != sptr(l.AnnEnforce) || sptr(p.got.AnnExempt) != sptr(l.AnnExempt) {
				c.Violate(f) // verdict, applied enforce policy or exemption differ from what the file states: the property's own words
			} else {
				c.Disagree(f)
			}
		}
		if p.got.AnnExempt != nil {
			c.Tag("setup.probe.exempt")
		} else if p.got.Allowed {
			c.Tag("setup.probe.allowed")
		} else {
			c.Tag("setup.probe.denied")
		}
	}

	// ---- controllers assembled by hand: CompleteConfiguration / ValidateConfiguration over every subset of dependencies,
	// with and without completion, with the configuration exchanged after completion
	var cops []J
	var cgot []J
	var cin []J
	nn := sizes(c, 300, 4000)
	for i := 0; i < nn; i++ {
		d1, d2 := genMostlyValidDoc(r), genMostlyValidDoc(r)
		if r.Chance(1, 3) {
			d1, _ = genDoc(r)
		}
		load1, err1 := load.LoadFromData([]byte(renderJSON(d1)))
		load2, err2 := load.LoadFromData([]byte(renderJSON(d2)))
		if err1 != nil || err2 != nil {
			continue
		}
		// a configuration need not come out of the loader: an embedder may build the struct itself, so fields the loader would
		// have defaulted can be empty
		blank := func(cfg *admissionapi.PodSecurityConfiguration) []string {
			names := []string{}
			if !r.Chance(1, 5) {
				return names
			}
			for k := 1 + r.Intn(2); k > 0; k-- {
				switch n := pick(r, []string{"enforce", "enforceVersion", "audit", "auditVersion", "warn", "warnVersion"}); n {
				case "enforce":
					cfg.Defaults.Enforce = ""
					names = append(names, n)
				case "enforceVersion":
					cfg.Defaults.EnforceVersion = ""
					names = append(names, n)
				case "audit":
					cfg.Defaults.Audit = ""
					names = append(names, n)
				case "auditVersion":
					cfg.Defaults.AuditVersion = ""
					names = append(names, n)
				case "warn":
					cfg.Defaults.Warn = ""
					names = append(names, n)
				default:
					cfg.Defaults.WarnVersion = ""
					names = append(names, n)
				}
			}
			return names
		}
		blank1, blank2 := blank(load1), blank(load2)
		flags := map[string]bool{}
		for _, k := range []string{"metrics", "extractor", "evaluator", "getter", "lister"} {
			flags[k] = !r.Chance(1, 7)
		}
		noCfg, complete, exchange := r.Chance(1, 12), !r.Chance(1, 6), r.Chance(1, 4)
		adm := &admission.Admission{}
		if !noCfg {
			adm.Configuration = load1
		}
		if flags["metrics"] {
			adm.Metrics = &recorder{}
		}
		if flags["extractor"] {
			adm.PodSpecExtractor = admission.DefaultPodSpecExtractor{}
		}
		if flags["evaluator"] {
			adm.Evaluator = realEvaluator
		}
		if flags["getter"] {
			adm.NamespaceGetter = fakeNS{}
		}
		if flags["lister"] {
			adm.PodLister = &fakeLister{}
		}
		got := J{"complete": "ok"}
		if complete {
			if err := adm.CompleteConfiguration(); err != nil {
				got = J{"complete": "toPolicy"}
			}
		}
		if got["complete"] == "ok" {
			if exchange {
				adm.Configuration = load2
			}
			got["validate"] = classifySetupErr(adm.ValidateConfiguration())
		}
		c.Eval(1)
		op := J{"op": "controller", "doc": leanDoc(d1), "exchange": leanDoc(d2), "noCfg": noCfg, "complete": complete, "doExchange": exchange, "blank": blank1, "blankExchange": blank2}
		for k, v := range flags {
			op[k] = v
		}
		cops = append(cops, op)
		cgot = append(cgot, got)
		cin = append(cin, J{"configuration": renderJSON(d1), "exchangedFor": renderJSON(d2), "noConfiguration": noCfg, "completeCalled": complete, "exchangedAfterComplete": exchange, "dependenciesSet": flags, "fieldsEmptiedAfterLoading": blank1, "fieldsEmptiedInExchanged": blank2})
		c.Tag(fmt.Sprintf("controller.validate=%v", got["validate"]))
		// the property's own words: a configuration that does not validate is never accepted by a controller
		if got["validate"] == "ok" && !noCfg {
			final := load1
			if exchange {
				final = load2
			}
			if ok, why := cfgShouldValidate(describeCfg(final).Cfg); !ok && why != "abstain" {
				c.Violate(Finding{Desc: "ValidateConfiguration accepts a controller whose configuration must be rejected: " + why, Key: "controller-accepts-invalid", Input: cin[len(cin)-1]})
			}
		}
	}
	for k, o := range c.Lean(cops) {
		want := J{"complete": o["complete"]}
		if v, ok := o["validate"]; ok {
			want["validate"] = v
		}
		if canon(want) != canon(cgot[k]) {
			c.Disagree(Finding{Desc: "CompleteConfiguration / ValidateConfiguration differ from the model", Input: cin[k], Go: cgot[k], Lean: want})
		}
	}
}

// classifySetupErr: the error classes of ValidateConfiguration, by what they say
func classifySetupErr(err error) string {
	if err == nil {
		return "ok"
	}
	m := err.Error()
	switch {
	case strings.Contains(m, "configuration required"):
		return "noConfiguration"
	case strings.Contains(m, "default policy does not match"):
		return "policyMismatch"
	case strings.Contains(m, "namespace configuration not set"):
		return "limitsNotSet"
	case strings.Contains(m, "Metrics recorder required"):
		return "noMetrics"
	case strings.Contains(m, "PodSpecExtractor required"):
		return "noExtractor"
	case strings.Contains(m, "Evaluator required"):
		return "noEvaluator"
	case strings.Contains(m, "NamespaceGetter required"):
		return "noGetter"
	case strings.Contains(m, "PodLister required"):
		return "noLister"
	}
	return "invalid"
}

// genMostlyValidDoc: a document whose defaults and exemptions are usually all valid (so that set-up succeeds and the
// configuration gets enforced), with now and then one malformed or repeated entry
func genMostlyValidDoc(r *Rng) *objVal {
	d := &objVal{}
	add := func(o *objVal, k string, v any) { o.fields = append(o.fields, [2]any{k, v}) }
	add(d, "apiVersion", pick(r, apiVersions))
	add(d, "kind", "PodSecurityConfiguration")
	o := &objVal{}
	for i, k := range []string{"enforce", "enforce-version", "audit", "audit-version", "warn", "warn-version"} {
		if r.Chance(2, 3) {
			if i%2 == 0 {
				add(o, k, pick(r, []string{"privileged", "baseline", "restricted", "baseline", "restricted"}))
			} else {
				add(o, k, pick(r, []string{"latest", "v1.0", "v1.8", "v1.19", "v1.22", "v1.24", "v1.25", "v1.27", "v1.31", "v1.33", "v1.99"}))
			}
		}
	}
	if r.Chance(1, 12) {
		add(o, pick(r, []string{"enforce", "warn-version", "audit"}), pick(r, []string{"Baseline", "v1", "1.25", ""}))
	}
	if len(o.fields) > 0 || r.Bool() {
		add(d, "defaults", o)
	}
	e := &objVal{}
	for _, k := range []string{"usernames", "namespaces", "runtimeClasses"} {
		if r.Chance(2, 3) {
			l := []any{}
			for _, nm := range subset(r, []string{"kube-system", "team-a", "a", "gvisor", "kata", "ci", "ops", "x-1"}) {
				l = append(l, nm)
			}
			if k == "runtimeClasses" && r.Chance(1, 3) {
				l = append(l, pick(r, []string{"kata.containers.example.com", "a.b", strings.Repeat("r", 64), strings.Repeat("a.", 100) + "a"}))
			}
			if k == "usernames" && r.Chance(1, 3) {
				l = append(l, pick(r, []string{"system:serviceaccount:kube-system:replicaset-controller", "alice@example.com", "User Name", "a.b"}))
			}
			if r.Chance(1, 14) && len(l) > 0 {
				l = append(l, l[0])
			}
			if r.Chance(1, 14) {
				l = append(l, pick(r, []string{"", "A", "a_b", "-a"}))
			}
			add(e, k, l)
		}
	}
	if len(e.fields) > 0 {
		add(d, "exemptions", e)
	}
	return d
}

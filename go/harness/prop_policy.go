package main

import (
	"fmt"
	"reflect"
	"sort"
	"strings"
	"sync"

	corev1 "k8s.io/api/core/v1"
	"k8s.io/pod-security-admission/api"
	"k8s.io/pod-security-admission/policy"
)

func init() {
	props["C02"] = runC02
	props["C03"] = runC03
	props["C13"] = runC13
	props["C14"] = runC14
	props["C19"] = runC19
}

// interestingMinors: each revision threshold t and t-1, 0, max+1, max+2, and -1 (= latest).
func interestingMinors(all bool) []int {
	mx := maxMinor()
	set := map[int]bool{0: true, mx + 1: true, mx + 2: true, -1: true}
	if all {
		for i := 0; i <= mx+2; i++ {
			set[i] = true
		}
	}
	for _, r := range shippedRevs() {
		set[r.Minor] = true
		if r.Minor > 0 {
			set[r.Minor-1] = true
		}
	}
	out := []int{}
	for k := range set {
		out = append(out, k)
	}
	sort.Ints(out)
	return out
}

func minorJSON(m int) any {
	if m < 0 {
		return "latest"
	}
	return []int{1, m}
}

type evalObs struct {
	pc     PodCase
	valid  bool
	level  string
	minor  int
	goRes  []RevResult
	lean   []RevResult
	leanOK bool
	std    []RevResult // the Standard's own evaluator (published tables), when asked for
	hasStd bool
	// what the library's own aggregation makes of this evaluation's results (the text users see)
	aggAllowed           bool
	aggReason, aggDetail string
}

var withStd bool

// policySweep evaluates n generated pods at both levels and the chosen versions on the real evaluator and on the model.
func policySweep(c *Ctx, n int, invalidEvery int, allMinors bool, perPodMinors int, f func(o evalObs), podf func(pc PodCase, valid bool, proj J)) {
	r := NewRng(c.Seed)
	ev := newRecEvaluator()
	minors := interestingMinors(allMinors)
	const chunk = 100
	cat := catalogPods()
	n += len(cat)
	extra := extraCatalogPods() // evaluated after everything else: the generated stream stays what it was
	for base := 0; base < n+len(extra); base += chunk {
		var ops, stdOps []J
		var obs []evalObs
		for i := base; i < base+chunk && i < n+len(extra); i++ {
			var pc PodCase
			if i >= n {
				pc = extra[i-n]
				c.Tag("stream.catalogExtra")
			} else if i < len(cat) {
				pc = cat[i]
				c.Tag("stream.catalog")
			} else if invalidEvery > 0 && i%invalidEvery == invalidEvery-1 {
				pc = genInvalidPod(r.Fork(), i)
				c.Tag("stream.invalid")
			} else {
				pc = genPod(r.Fork(), i)
				c.Tag("stream.main")
			}
			c.Tag("base." + pc.Base)
			for _, a := range pc.Atoms {
				c.Tag("atom." + a)
			}
			valid := apiValid(&pc.Pod.Spec)
			if valid {
				c.Tag("apiValid")
			} else {
				c.Tag("apiInvalid")
			}
			proj := projectPod(&pc.Pod.ObjectMeta, &pc.Pod.Spec)
			if podf != nil {
				podf(pc, valid, proj)
			}
			ms := minors
			if pc.FewMinors && len(minors) > 7 {
				ms = []int{-1}
				seen := map[int]bool{-1: true}
				for k := 0; k < 6; k++ {
					if m := minors[(i*5+k*(len(minors)/6+1))%len(minors)]; !seen[m] {
						seen[m] = true
						ms = append(ms, m)
					}
				}
			}
			if i >= len(cat) && i < n && perPodMinors > 0 && perPodMinors < len(minors) {
				ms = nil
				for _, k := range r.Perm(len(minors))[:perPodMinors] {
					ms = append(ms, minors[k])
				}
			}
			for _, lvl := range []string{"baseline", "restricted"} {
				for _, m := range ms {
					goRes, raw := ev.Eval(mkLV(lvl, m), pc.Pod)
					agg := policy.AggregateCheckResults(raw)
					ops = append(ops, J{"op": "evalPod", "level": lvl, "version": minorJSON(m), "relax": false, "pod": proj})
					obs = append(obs, evalObs{pc: pc, valid: valid, level: lvl, minor: m, goRes: goRes, aggAllowed: agg.Allowed, aggReason: agg.ForbiddenReason(), aggDetail: agg.ForbiddenDetail()})
					if withStd {
						stdOps = append(stdOps, J{"op": "stdEval", "level": lvl, "version": minorJSON(m), "pod": proj})
					}
				}
			}
		}
		outs := c.Lean(ops)
		var stdOuts []J
		if withStd {
			stdOuts = c.Lean(stdOps)
		}
		for k := range obs {
			_, isErr := outs[k]["driverError"]
			obs[k].lean = leanResults(outs[k])
			obs[k].leanOK = !isErr
			if withStd {
				obs[k].std = leanResults(stdOuts[k])
				obs[k].hasStd = true
			}
			c.Eval(1)
			f(obs[k])
		}
	}
}

func verName(level string, minor int) string {
	if minor < 0 {
		return level + ":latest"
	}
	return fmt.Sprintf("%s:v1.%d", level, minor)
}

func bits(rs []RevResult) string {
	var b strings.Builder
	for _, r := range rs {
		b.WriteString(r.Rev)
		if r.Allowed {
			b.WriteString("+ ")
		} else {
			b.WriteString("- ")
		}
	}
	return b.String()
}

// ---------------------------------------------------------------- C02

func runC02(c *Ctx) {
	withStd = true
	defer func() { withStd = false }()
	n, per := 3000, 10
	if c.Thorough {
		n, per = 20000, 0
	}
	revs := shippedRevs()
	// per-revision differential, so that one faulty check is not masked by another
	var revOps []J
	var revGo []policy.CheckResult
	var revIn []J
	flush := func() {
		outs := c.Lean(revOps)
		for i, o := range outs {
			c.Eval(1)
			la, _ := o["allowed"].(bool)
			if _, bad := o["error"]; bad {
				c.Disagree(Finding{Desc: "revision has no model function: " + fmt.Sprint(revIn[i]["id"], "@", revIn[i]["minor"]), Input: revIn[i]})
				continue
			}
			if la != revGo[i].Allowed {
				c.Disagree(Finding{Desc: fmt.Sprintf("checkRev %v@%v: Go allowed=%v, model allowed=%v", revIn[i]["id"], revIn[i]["minor"], revGo[i].Allowed, la), Input: revIn[i], Go: revGo[i], Lean: o})
			}
		}
		revOps, revGo, revIn = nil, nil, nil
	}
	policySweep(c, n, 10, c.Thorough, per, func(o evalObs) {
		ga := allAllowed(o.goRes)
		if !o.leanOK {
			return
		}
		if ga {
			c.Tag("verdict." + o.level + ".allowed")
		} else {
			c.Tag("verdict." + o.level + ".denied")
		}
		if bits(o.goRes) != bits(o.lean) {
			f := Finding{Desc: fmt.Sprintf("evalPod %s: per-check verdicts differ: Go [%s] model [%s]", verName(o.level, o.minor), bits(o.goRes), bits(o.lean)),
				Input: J{"level": o.level, "minor": o.minor, "pod": o.pc.Pod, "atoms": o.pc.Atoms}}
			c.Disagree(f)
		}
		sa := allAllowed(o.std)
		if o.valid && ga != sa {
			// the Standard's own evaluator (published tables, version thresholds written from the Standard; proved equal to the
			// model and to Std.baseline / Std.restricted while the obligations hold): a property violation
			c.Violate(Finding{Desc: fmt.Sprintf("API-valid pod: evaluator says allowed=%v but the Pod Security Standard at %s says allowed=%v", ga, verName(o.level, o.minor), sa),
				Key: "verdict", Input: J{"level": o.level, "minor": o.minor, "pod": o.pc.Pod}, Go: bits(o.goRes), Lean: bits(o.std)})
		}
	}, func(pc PodCase, valid bool, proj J) {
		nBad, nGood := 0, 0
		for _, rv := range revs {
			g := rv.Fn(&pc.Pod.ObjectMeta, &pc.Pod.Spec)
			if g.Allowed {
				nGood++
			} else {
				nBad++
			}
			in := J{"op": "checkRev", "id": rv.ID, "minor": rv.Minor, "relax": false, "pod": proj}
			revOps = append(revOps, in)
			revGo = append(revGo, g)
			revIn = append(revIn, in)
		}
		if nBad > 0 && nGood > 0 {
			c.Nontrivial(proj)
		}
		c.Sample(J{"pod": proj, "atoms": pc.Atoms, "base": pc.Base})
		if len(revOps) > 4000 {
			flush()
		}
	})
	flush()
}

// ---------------------------------------------------------------- C03

func runC03(c *Ctx) {
	defer runC03Relaxed(c)
	defer c03SubsetEvaluators(c)
	n, per := 3000, 12
	if c.Thorough {
		n, per = 20000, 0
	}
	type key struct {
		pod   string
		minor int
	}
	baseAllowed := map[key]bool{}
	policySweep(c, n, 12, c.Thorough, per, func(o evalObs) {
		ga := allAllowed(o.goRes)
		k := key{o.pc.Pod.Name, o.minor}
		if o.level == "baseline" { // baseline is evaluated before restricted for the same (pod, version)
			baseAllowed[k] = ga
		} else {
			b := baseAllowed[k]
			delete(baseAllowed, k)
			if ga {
				c.Tag("restricted.allowed")
				c.Nontrivial(J{"p": o.pc.Pod.Name, "m": o.minor})
			}
			if o.valid && ga && !b {
				c.Violate(Finding{Desc: fmt.Sprintf("API-valid pod allowed at restricted but denied at baseline at version %s", verName("", o.minor)), Key: "order",
					Input: J{"minor": o.minor, "pod": o.pc.Pod}})
			}
			if !o.valid && ga && !b {
				c.Tag("invalidPod.orderBroken(expected: hypothesis is necessary)")
			}
			if o.valid && ga {
				// the order the admission controller asks in when enforce is restricted and audit / warn are baseline: restricted
				// first, baseline right after, on the same object
				again, _ := newRecEvaluatorCached().Eval(mkLV("baseline", o.minor), o.pc.Pod)
				c.Eval(1)
				if !allAllowed(again) {
					c.Violate(Finding{Desc: fmt.Sprintf("API-valid pod allowed at restricted and, evaluated at baseline right afterwards (same object), denied at version %s", verName("", o.minor)), Key: "order-after-restricted",
						Input: J{"minor": o.minor, "pod": o.pc.Pod}, Go: bits(again)})
				}
			}
		}
		if o.leanOK && ga != allAllowed(o.lean) {
			c.Disagree(Finding{Desc: fmt.Sprintf("verdict bit differs at %s: Go %v model %v", verName(o.level, o.minor), ga, allAllowed(o.lean)),
				Input: J{"level": o.level, "minor": o.minor, "pod": o.pc.Pod}})
		}
	}, func(pc PodCase, valid bool, proj J) {
		c.Sample(J{"pod": proj, "atoms": pc.Atoms})
		// privileged runs nothing
		ev := newRecEvaluatorCached()
		for _, m := range []int{0, 25, -1} {
			rs, raw := ev.Eval(mkLV("privileged", m), pc.Pod)
			c.Eval(1)
			if len(rs) != 0 || len(raw) != 0 {
				c.Violate(Finding{Desc: "privileged level produced check results", Key: "privileged", Input: J{"pod": pc.Pod}})
			}
		}
	})
}

// runC03Relaxed: the level order with the administrator's user-namespace opt-in switched on (it waives the same three controls
// at both levels, so the order must survive it), pods with hostUsers false / true / unset
func runC03Relaxed(c *Ctx) {
	r := NewRng(c.Seed + 303)
	ev := newRecEvaluator()
	minors := interestingMinors(false)
	cat := catalogPods()
	n := sizes(c, 1500, 12000)
	policy.RelaxPolicyForUserNamespacePods(true)
	defer policy.RelaxPolicyForUserNamespacePods(false)
	var ops []J
	var gos [][]RevResult
	var ins []J
	for i := 0; i < n; i++ {
		var p *corev1.Pod
		if i%2 == 0 {
			p = cat[r.Intn(len(cat))].Pod.DeepCopy()
		} else {
			p = genPod(r.Fork(), 3000000+i).Pod
		}
		p.Spec.HostUsers = []*bool{bp(false), bp(false), bp(false), nil, bp(true)}[i%5]
		m := minors[i%len(minors)]
		valid := apiValid(&p.Spec)
		b, _ := ev.Eval(mkLV("baseline", m), p)
		rs, _ := ev.Eval(mkLV("restricted", m), p)
		c.Eval(2)
		c.Tag("c03.relaxed")
		if valid && allAllowed(rs) && !allAllowed(b) {
			c.Violate(Finding{Desc: fmt.Sprintf("with the user-namespace opt-in on, an API-valid pod is allowed at restricted but denied at baseline at version %s", verName("", m)), Key: "order-relaxed",
				Input: J{"minor": m, "relaxPolicyForUserNamespacePods": true, "pod": p}, Go: J{"baseline": bits(b), "restricted": bits(rs)}})
		}
		proj := projectPod(&p.ObjectMeta, &p.Spec)
		for k, l := range []string{"baseline", "restricted"} {
			ops = append(ops, J{"op": "evalPod", "level": l, "version": minorJSON(m), "relax": true, "pod": proj})
			gos = append(gos, [][]RevResult{b, rs}[k])
			ins = append(ins, J{"level": l, "minor": m, "relax": true, "pod": p})
		}
	}
	policy.RelaxPolicyForUserNamespacePods(false)
	for k, o := range c.Lean(ops) {
		if lr := leanResults(o); allAllowed(lr) != allAllowed(gos[k]) {
			c.Disagree(Finding{Desc: "verdict with the opt-in on differs from the model (relax = true)", Input: ins[k], Go: bits(gos[k]), Lean: bits(lr)})
		}
	}
}

var cachedRecEv *recEvaluator

func newRecEvaluatorCached() *recEvaluator {
	if cachedRecEv == nil {
		cachedRecEv = newRecEvaluator()
	}
	return cachedRecEv
}

// ---------------------------------------------------------------- C13

func fixedOrder() []string {
	var b, r []string
	for _, ch := range policy.DefaultChecks() {
		if string(ch.Level) == "restricted" {
			r = append(r, string(ch.ID))
		} else {
			b = append(b, string(ch.ID))
		}
	}
	sort.Strings(b)
	sort.Strings(r)
	return append(b, r...)
}

func runC13(c *Ctx) {
	withStd = true
	defer func() { withStd = false }()
	n, per := 3000, 8
	if c.Thorough {
		n, per = 20000, 0
	}
	order := fixedOrder()
	pos := map[string]int{}
	for i, id := range order {
		pos[id] = i
	}
	revs := shippedRevs()
	var revOps []J
	var revGo []policy.CheckResult
	var revPods []*corev1.Pod
	flush := func() {
		outs := c.Lean(revOps)
		for i, o := range outs {
			c.Eval(1)
			if _, bad := o["error"]; bad {
				c.Disagree(Finding{Desc: "revision has no model function", Input: revOps[i]})
				continue
			}
			g := revGo[i]
			la, _ := o["allowed"].(bool)
			lr, _ := o["reason"].(string)
			ld, _ := o["detail"].(string)
			if la != g.Allowed || lr != g.ForbiddenReason || ld != g.ForbiddenDetail {
				c.Disagree(Finding{Desc: fmt.Sprintf("checkRev %v@%v: message bytes differ", revOps[i]["id"], revOps[i]["minor"]), Input: revOps[i], Go: g, Lean: o})
			}
			if !g.Allowed {
				// direct oracle on the real code: the detail names offenders only, and at least one
				offs := map[string]bool{}
				nOff := 0
				for _, k := range []string{"containers", "containers2", "volumes"} {
					if arr, ok := o["offenders"].(map[string]any)[k].([]any); ok {
						for _, x := range arr {
							offs[x.(string)] = true
							nOff++
						}
					}
				}
				kind, _ := o["objects"].(string) // "containers" | "volumes" | ""
				if kind != "" && la == g.Allowed {
					names := []string{}
					if kind == "containers" {
						visit(&revPods[i].Spec, func(ct *corev1.Container) { names = append(names, ct.Name) })
					} else {
						for _, v := range revPods[i].Spec.Volumes {
							names = append(names, v.Name)
						}
					}
					named := 0
					for _, nm := range names {
						if namesQuoted(g.ForbiddenDetail, nm) {
							named++
							if !offs[nm] {
								c.Violate(Finding{Desc: fmt.Sprintf("%v@%v names compliant %s %q in %q", revOps[i]["id"], revOps[i]["minor"], kind, nm, g.ForbiddenDetail), Key: "names-compliant", Input: revOps[i], Go: g})
							}
						}
					}
					if nOff > 0 && named == 0 {
						c.Violate(Finding{Desc: fmt.Sprintf("%v@%v names no offending %s in %q", revOps[i]["id"], revOps[i]["minor"], kind, g.ForbiddenDetail), Key: "names-none", Input: revOps[i], Go: g})
					}
				}
			}
		}
		revOps, revGo, revPods = nil, nil, nil
	}
	policySweep(c, n, 15, c.Thorough, per, func(o evalObs) {
		seen := map[string]bool{}
		last := -1
		nfail := 0
		for _, r := range o.goRes {
			id := strings.Split(r.Rev, "@")[0]
			p, ok := pos[id]
			if !ok || p <= last {
				c.Violate(Finding{Desc: fmt.Sprintf("checks not in the fixed order at %s: %s", verName(o.level, o.minor), bits(o.goRes)), Key: "order", Input: J{"pod": o.pc.Pod}})
			}
			last = p
			if r.Allowed {
				continue
			}
			nfail++
			if r.Reason == "" || r.Reason == policy.UnknownForbiddenReason {
				c.Violate(Finding{Desc: fmt.Sprintf("%s denies with empty/placeholder reason at %s", r.Rev, verName(o.level, o.minor)), Key: "empty-reason", Input: J{"pod": o.pc.Pod}})
			}
			if seen[r.Reason] {
				c.Violate(Finding{Desc: fmt.Sprintf("reason %q listed twice at %s", r.Reason, verName(o.level, o.minor)), Key: "duplicate-reason", Input: J{"level": o.level, "minor": o.minor, "pod": o.pc.Pod}})
			}
			seen[r.Reason] = true
		}
		if nfail >= 2 {
			c.Nontrivial(J{"p": o.pc.Pod.Name, "l": o.level, "m": o.minor})
			c.Tag("multiViolation")
		}
		// "lists each violated control": the controls the Standard's own evaluator finds violated on this pod are exactly the
		// ones the real evaluator reports (a control must not fall silent because another one also fires)
		if o.hasStd && o.valid && o.leanOK {
			want, got := map[string]bool{}, map[string]bool{}
			for _, r := range o.std {
				if !r.Allowed {
					want[strings.Split(r.Rev, "@")[0]] = true
				}
			}
			for _, r := range o.goRes {
				if !r.Allowed {
					got[strings.Split(r.Rev, "@")[0]] = true
				}
			}
			for id := range want {
				if !got[id] {
					c.Violate(Finding{Desc: fmt.Sprintf("violated control %s is not listed at %s (reported: %s)", id, verName(o.level, o.minor), bits(o.goRes)), Key: "control-missing",
						Input: J{"level": o.level, "minor": o.minor, "pod": o.pc.Pod}, Go: bits(o.goRes), Lean: bits(o.std)})
				}
			}
			for id := range got {
				if !want[id] {
					c.Violate(Finding{Desc: fmt.Sprintf("control %s is listed at %s although the pod does not violate it", id, verName(o.level, o.minor)), Key: "control-spurious",
						Input: J{"level": o.level, "minor": o.minor, "pod": o.pc.Pod}, Go: bits(o.goRes), Lean: bits(o.std)})
				}
			}
		}
		// the aggregate text (what a denial, a warning, an audit annotation carries): each violated control once, in the order
		// of the results, "reason (detail)" joined by ", " — written here from the per-control results, nothing else
		{
			var reasons, parts []string
			for _, r := range o.goRes {
				if r.Allowed {
					continue
				}
				reasons = append(reasons, r.Reason)
				if r.Detail != "" {
					parts = append(parts, r.Reason+" ("+r.Detail+")")
				} else {
					parts = append(parts, r.Reason)
				}
			}
			if o.aggAllowed != (nfail == 0) || o.aggReason != strings.Join(reasons, ", ") || o.aggDetail != strings.Join(parts, ", ") {
				c.Violate(Finding{Desc: fmt.Sprintf("the aggregate message at %s is not the list of this pod's violated controls: %s", verName(o.level, o.minor), trunc(o.aggDetail, 400)), Key: "aggregate-text",
					Input: J{"level": o.level, "minor": o.minor, "pod": o.pc.Pod}, Go: J{"aggregateDetail": trunc(o.aggDetail, 2000), "aggregateReason": o.aggReason}, Lean: trunc(strings.Join(parts, ", "), 2000)})
			}
		}
		if o.leanOK && canon(o.goRes) != canon(o.lean) {
			c.Disagree(Finding{Desc: fmt.Sprintf("evalPod %s: reason/detail bytes differ", verName(o.level, o.minor)), Input: J{"level": o.level, "minor": o.minor, "pod": o.pc.Pod}, Go: o.goRes, Lean: o.lean})
		}
	}, func(pc PodCase, valid bool, proj J) {
		for _, rv := range revs {
			g := rv.Fn(&pc.Pod.ObjectMeta, &pc.Pod.Spec)
			revOps = append(revOps, J{"op": "checkRev", "id": rv.ID, "minor": rv.Minor, "relax": false, "pod": proj})
			revGo = append(revGo, g)
			revPods = append(revPods, pc.Pod)
		}
		c.Sample(J{"pod": proj, "atoms": pc.Atoms})
		if len(revOps) > 4000 {
			flush()
		}
	})
	flush()
	// the same texts where users see them: denial message, warning, audit annotation (policies whose modes coincide share
	// one cached aggregate result, which is then formatted more than once)
	k := AdmitKnobs{FaultPct: 0, SynPct: 0, SubPct: 0}
	admitSweep(c, sizes(c, 1500, 30000), k, "allowed message warnings audit", "message warnings audit", func(a *AdmitCase, g AdmitOut) {
		texts := []string{}
		if g.Message != nil {
			texts = append(texts, *g.Message)
		}
		if g.AnnAudit != nil {
			texts = append(texts, *g.AnnAudit)
		}
		if a.Res != "namespaces" {
			texts = append(texts, g.Warnings...)
		}
		for _, t := range texts {
			if strings.Contains(t, policy.UnknownForbiddenReason) {
				c.Violate(Finding{Desc: "placeholder reason in a user-facing message: " + t, Key: "placeholder-in-message", Input: a.opJSON()})
			}
			if i := strings.Index(t, `": `); i >= 0 {
				c.Tag("c13.messageChecked")
				if strings.Count(t, ") (") > 0 {
					c.Violate(Finding{Desc: "a control's detail is repeated in a user-facing message: " + t, Key: "detail-repeated", Input: a.opJSON()})
				}
			}
		}
	}, func(r *Rng, a *AdmitCase) {
		// the same level at DIFFERENT versions in two or three modes, and a pod whose verdict depends on the version: each
		// message must list the controls violated at the version it names
		if a.Res != "namespaces" && a.Obj.Pod != nil && r.Chance(1, 4) {
			lv := pick(r, []string{"baseline", "restricted"})
			vs := []string{"latest", "v1.33", "v1.32", "v1.31", "v1.30", "v1.28", "v1.26", "v1.24", "v1.22", "v1.21", "v1.18", "v1.7"}
			a.NSLabels = map[string]string{api.EnforceLevelLabel: pick(r, []string{lv, lv, "privileged", "baseline"}), api.EnforceVersionLabel: pick(r, vs),
				api.AuditLevelLabel: lv, api.AuditVersionLabel: pick(r, vs), api.WarnLevelLabel: lv, api.WarnVersionLabel: pick(r, vs)}
			vp := versionSensitivePod(r, a.Obj.Pod.Name)
			vp.Namespace = a.Obj.Pod.Namespace
			a.Obj.Pod = vp
			if a.Old.Pod != nil {
				old := vp.DeepCopy()
				old.Spec.Containers[0].Image = "previous"
				a.Old.Pod = old
			}
			a.Tags = append(a.Tags, "c13.versionSensitive")
			return
		}
		// make enforce / audit / warn coincide often
		if a.Res != "namespaces" && r.Chance(2, 3) {
			lv := pick(r, []string{"baseline", "restricted"})
			v := pick(r, []string{"latest", "v1.25", "v1.0"})
			a.NSLabels = map[string]string{api.EnforceLevelLabel: lv, api.EnforceVersionLabel: v}
			if r.Bool() {
				a.NSLabels[api.AuditLevelLabel], a.NSLabels[api.AuditVersionLabel] = lv, v
			}
			if r.Bool() {
				a.NSLabels[api.WarnLevelLabel], a.NSLabels[api.WarnVersionLabel] = lv, v
			}
			if r.Chance(1, 3) {
				a.NSLabels[api.EnforceLevelLabel] = "privileged"
			}
		}
	})
	// directed: values the messages echo verbatim (capability names, procMount, sysctl names, SELinux fields, profile types)
	// that contain a control character, a quote or a non-ASCII rune, in a pod that violates further controls listed AFTER the
	// one that echoes the value; audit and warn share one policy, enforce is privileged (so there is a warning): the warning
	// and the audit annotation list the same controls, the text is the model's byte for byte
	admitSweep(c, sizes(c, 200, 3000), AdmitKnobs{FaultPct: 0, SynPct: 0, SubPct: 0}, "allowed message warnings audit", "message warnings audit", func(a *AdmitCase, g AdmitOut) {
		if a.Res == "namespaces" || g.AnnAudit == nil || len(g.Warnings) != 1 {
			return
		}
		c.Tag("c13.oddValues")
		// both texts are `would violate PodSecurity "<lv>": <list>`: same policy, so the same list
		wi, ai := strings.Index(g.Warnings[0], `": `), strings.Index(*g.AnnAudit, `": `)
		if wi >= 0 && ai >= 0 && g.Warnings[0][wi:] != (*g.AnnAudit)[ai:] {
			c.Violate(Finding{Desc: "warn and audit share one policy, yet the warning and the audit annotation list different things", Key: "warning-differs-from-audit", Input: a.opJSON(),
				Go: J{"warning": g.Warnings[0], "auditAnnotation": *g.AnnAudit}})
		}
	}, func(r *Rng, a *AdmitCase) {
		if a.Res == "namespaces" || a.Obj.Pod == nil {
			return
		}
		odd := pick(r, []string{"NET_ADMIN\nSYS_TIME", "NET\tRAW", "SYS_\rADMIN", "A\x01B", "CAP \"X\"", "CAP_é", "\x7fDEL", "A\vB\fC"})
		p := a.Obj.Pod
		t := true
		p.Spec.OS, p.Spec.HostUsers = nil, nil
		p.Spec.Containers = []corev1.Container{
			{Name: "first", Image: "i", SecurityContext: &corev1.SecurityContext{Capabilities: &corev1.Capabilities{Add: []corev1.Capability{corev1.Capability(odd)}}}},
			{Name: "side", Image: "i", SecurityContext: &corev1.SecurityContext{Privileged: &t}}}
		p.Spec.InitContainers, p.Spec.EphemeralContainers = nil, nil
		p.Spec.HostNetwork = true
		switch r.Intn(3) {
		case 0:
			pm := corev1.ProcMountType(odd)
			p.Spec.Containers[0].SecurityContext.ProcMount = &pm
		case 1:
			p.Spec.SecurityContext = &corev1.PodSecurityContext{Sysctls: []corev1.Sysctl{{Name: odd, Value: "1"}}}
		default:
			p.Spec.SecurityContext = &corev1.PodSecurityContext{SELinuxOptions: &corev1.SELinuxOptions{Type: odd}}
		}
		if a.Old.Pod != nil {
			old := p.DeepCopy()
			old.Spec.Containers[0].Image = "previous"
			a.Old.Pod = old
		}
		a.ExNS, a.ExUsers, a.ExRC = nil, nil, nil
		lv, v := pick(r, []string{"baseline", "restricted"}), pick(r, []string{"latest", "v1.25", "v1.0"})
		a.NSLabels = map[string]string{api.EnforceLevelLabel: "privileged", api.AuditLevelLabel: lv, api.AuditVersionLabel: v, api.WarnLevelLabel: lv, api.WarnVersionLabel: v}
		a.Tags = append(a.Tags, "c13.oddValueThenMoreControls")
	})
	// the warnings of a namespace update: every existing pod's violated controls, pods of one controller violating different
	// controls, with the real evaluator (the reference is the model's dry run)
	kn := AdmitKnobs{Kind: "ns", FaultPct: 0, SynPct: 0, SubPct: 0, Pods: func(r *Rng) []*corev1.Pod {
		ps := genPopulation(r, 2+r.Intn(10), []string{"exrc"})
		for _, p := range ps { // make the violations of the members of a group differ
			switch r.Intn(5) {
			case 0:
				p.Spec.HostPID = true
			case 1:
				p.Spec.Containers[0].Ports = []corev1.ContainerPort{{ContainerPort: 80, HostPort: 80}}
			case 2:
				p.Spec.Volumes = []corev1.Volume{{Name: "hp", VolumeSource: corev1.VolumeSource{HostPath: &corev1.HostPathVolumeSource{Path: "/"}}}}
			}
		}
		return ps
	}}
	admitSweep(c, sizes(c, 500, 10000), kn, "allowed code warnings", "allowed code warnings", nil, func(r *Rng, a *AdmitCase) {
		nsMutate(r, a)
		a.NS, a.User = "ns", "u"
		a.Name = a.NS
		if a.Obj.Kind == "namespace" {
			a.Obj.NSName = a.NS
		}
		if a.Old.Kind == "namespace" {
			a.Old.NSName = a.NS
		}
	})
}

// namesQuoted: `"name"` occurs in the text as a quoted list item (not inside an escaped or key="value" rendering).
func namesQuoted(text, name string) bool {
	q := `"` + name + `"`
	for i := 0; ; {
		k := strings.Index(text[i:], q)
		if k < 0 {
			return false
		}
		k += i
		if k == 0 || (text[k-1] != '\\' && text[k-1] != '=') {
			return true
		}
		i = k + 1
	}
}

// ---------------------------------------------------------------- C14

// c14WidePods: the catalogue's wide pods (16 … 40 containers, several controls violated) and long-message pods (up to 250
// containers), each evaluated a dozen times on one evaluator: the same results in the same order every time (whatever an
// implementation does with many containers — batching, parallel checks — the order of the results is the order of the checks)
func c14WidePods(c *Ctx) {
	ev, err := policy.NewEvaluator(policy.DefaultChecks())
	if err != nil {
		return
	}
	for _, pc := range catalogPods() {
		if len(pc.Atoms) == 0 || !(strings.HasPrefix(pc.Atoms[0], "cat.wide") || strings.HasPrefix(pc.Atoms[0], "cat.longMessage") || strings.HasPrefix(pc.Atoms[0], "cat.many")) {
			continue
		}
		p := pc.Pod
		for _, lv := range []api.LevelVersion{mkLV("restricted", -1), mkLV("baseline", 24)} {
			first := ev.EvaluatePod(lv, &p.ObjectMeta, &p.Spec)
			for rep := 0; rep < 12; rep++ {
				again := ev.EvaluatePod(lv, &p.ObjectMeta, &p.Spec)
				c.Eval(1)
				if !reflect.DeepEqual(first, again) {
					n := len(p.Spec.Containers) + len(p.Spec.InitContainers) + len(p.Spec.EphemeralContainers)
					c.Violate(Finding{Desc: fmt.Sprintf("a pod with %d containers evaluated again at %s gives the results in another order (or other results)", n, lv.String()), Key: "nondeterministic-wide-pod",
						Input: J{"level": string(lv.Level), "version": lv.Version.String(), "containers": n, "atoms": pc.Atoms, "pod": p}, Go: J{"first": first, "again": again}})
					break
				}
			}
		}
		c.Tag("c14.widePods")
	}
}

func runC14(c *Ctx) {
	runC14InformerCache(c)
	runC14AdmissionVerbose(c)
	defer c14WidePods(c)
	n := 600
	if c.Thorough {
		n = 8000
	}
	r := NewRng(c.Seed)
	ev, err := policy.NewEvaluator(policy.DefaultChecks())
	if err != nil {
		panic(err)
	}
	minors := interestingMinors(false)
	var ops []J
	var want []string
	var ins []J
	for i := 0; i < n; i++ {
		pc := genPod(r.Fork(), i)
		p := pc.Pod
		// make sure map iteration order matters: several offending annotations / capabilities / ports / profile types
		if p.Annotations == nil {
			p.Annotations = map[string]string{}
		}
		for q := 0; q < 2+r.Intn(4); q++ {
			p.Annotations[fmt.Sprintf("container.apparmor.security.beta.kubernetes.io/c%d", r.Intn(9))] = pick(r, []string{"unconfined", "bad", "localhost/x", "a\"b"})
		}
		if r.Bool() {
			p.Annotations["seccomp.security.alpha.kubernetes.io/pod"] = "unconfined"
			p.Annotations["container.seccomp.security.alpha.kubernetes.io/"+p.Spec.Containers[0].Name] = "bad"
		}
		for j := range p.Spec.Containers {
			ct := &p.Spec.Containers[j]
			if ct.SecurityContext == nil {
				ct.SecurityContext = &corev1.SecurityContext{}
			}
			ct.SecurityContext.Capabilities = &corev1.Capabilities{Add: []corev1.Capability{"SYS_ADMIN", "NET_RAW", "BPF", "NET_ADMIN"}[:1+r.Intn(4)], Drop: []corev1.Capability{"ALL"}}
			if r.Bool() { // an allowed capability in front of the forbidden ones
				ct.SecurityContext.Capabilities.Add = append([]corev1.Capability{"NET_BIND_SERVICE"}, ct.SecurityContext.Capabilities.Add...)
			}
			// several DISTINCT forbidden values of every kind a message lists as a set: their order in the text must be fixed
			if i%2 == 0 {
				ct.SecurityContext.SeccompProfile = &corev1.SeccompProfile{Type: []corev1.SeccompProfileType{"Unconfined", "Other", "runtimedefault", "Local"}[(j+i)%4]}
				pm := []corev1.ProcMountType{"Unmasked", "Unmasked2", "default"}[(j+i)%3]
				ct.SecurityContext.ProcMount = &pm
				ct.SecurityContext.SELinuxOptions = &corev1.SELinuxOptions{Type: []string{"spc_t", "container_x", "Container_t"}[(j+i)%3], User: "u"}
				ct.SecurityContext.AppArmorProfile = &corev1.AppArmorProfile{Type: []corev1.AppArmorProfileType{"Unconfined", "unconfined", "RuntimeDefaultX"}[(j+i)%3]}
			}
			ct.Ports = append(ct.Ports, corev1.ContainerPort{HostPort: int32(10 + r.Intn(90))}, corev1.ContainerPort{HostPort: int32(100 + r.Intn(900))})
		}
		if i%2 == 0 {
			p.Spec.Volumes = append(p.Spec.Volumes, corev1.Volume{Name: "v-nfs", VolumeSource: corev1.VolumeSource{NFS: &corev1.NFSVolumeSource{Server: "s", Path: "/"}}},
				corev1.Volume{Name: "v-hp", VolumeSource: corev1.VolumeSource{HostPath: &corev1.HostPathVolumeSource{Path: "/"}}},
				corev1.Volume{Name: "v-git", VolumeSource: corev1.VolumeSource{GitRepo: &corev1.GitRepoVolumeSource{Repository: "r"}}},
				corev1.Volume{Name: "v-rbd", VolumeSource: corev1.VolumeSource{RBD: &corev1.RBDVolumeSource{}}})
			if p.Spec.SecurityContext == nil {
				p.Spec.SecurityContext = &corev1.PodSecurityContext{}
			}
			p.Spec.SecurityContext.Sysctls = append(p.Spec.SecurityContext.Sysctls, corev1.Sysctl{Name: "kernel.msgmax", Value: "1"}, corev1.Sysctl{Name: "net.core.somaxconn", Value: "1"}, corev1.Sysctl{Name: "kernel.sem", Value: "1"})
			p.Spec.SecurityContext.SeccompProfile = &corev1.SeccompProfile{Type: "Unconfined2"}
		}
		// every slice of the pod gets spare capacity (as slices of objects that share a backing array have)
		padSlices(reflect.ValueOf(p).Elem())
		cp := p.DeepCopy()
		m := pick(r, minors)
		lvl := pick(r, []string{"baseline", "restricted"})
		lv := mkLV(lvl, m)
		first := ev.EvaluatePod(lv, &p.ObjectMeta, &p.Spec)
		c.Eval(1)
		c.Nontrivial(J{"p": i})
		ok := true
		// the long-lived evaluator (it has by now evaluated other pods at other levels and versions) against one constructed
		// for this evaluation alone
		if fev, err := policy.NewEvaluator(policy.DefaultChecks()); err == nil {
			if alone := fev.EvaluatePod(lv, &p.ObjectMeta, &p.Spec); !reflect.DeepEqual(first, alone) {
				ok = false
				c.Violate(Finding{Desc: "an evaluator that has evaluated other pods, levels and versions before answers differently from a freshly constructed one", Key: "nondeterministic-history",
					Input: J{"level": lvl, "minor": m, "pod": cp}, Go: J{"longLived": first, "fresh": alone}})
			}
			c.Eval(1)
		}
		// the text of one evaluation, rendered more than once (as the admission controller does when two modes share a policy):
		// the same bytes every time, and reading the message leaves the result as it was
		{
			agg := policy.AggregateCheckResults(first)
			snapshot := policy.AggregateCheckResults(first)
			d1, r1 := agg.ForbiddenDetail(), agg.ForbiddenReason()
			d2, r2 := agg.ForbiddenDetail(), agg.ForbiddenReason()
			d3 := agg.ForbiddenDetail()
			c.Eval(1)
			if d1 != d2 || d2 != d3 || r1 != r2 || !reflect.DeepEqual(agg, snapshot) {
				ok = false
				c.Violate(Finding{Desc: "rendering the message of one evaluation twice gives different text (or changes the result it is rendered from)", Key: "message-not-stable",
					Input: J{"level": lvl, "minor": m, "pod": cp}, Go: J{"detailFirst": trunc(d1, 600), "detailSecond": trunc(d2, 600), "reasonFirst": r1, "reasonSecond": r2}})
			}
		}
		for rep := 0; rep < 8; rep++ {
			again := ev.EvaluatePod(lv, &p.ObjectMeta, &p.Spec)
			c.Eval(1)
			if !reflect.DeepEqual(first, again) {
				ok = false
				c.Violate(Finding{Desc: "repeated evaluation of the same pod gave different results", Key: "nondeterministic", Input: J{"level": lvl, "minor": m, "pod": cp}, Go: J{"first": first, "again": again}})
				break
			}
		}
		var wg sync.WaitGroup
		var mu sync.Mutex
		// every 8th pod: a freshly constructed evaluator whose very first evaluations (of this version) happen at once
		cev := ev
		if i%8 == 0 {
			if cev, err = policy.NewEvaluator(policy.DefaultChecks()); err != nil {
				panic(err)
			}
			c.Tag("c14.freshEvaluatorConcurrentFirstUse")
		}
		start := make(chan struct{})
		for g := 0; g < 16; g++ {
			wg.Add(1)
			go func() {
				defer wg.Done()
				defer func() {
					if rec := recover(); rec != nil {
						mu.Lock()
						if ok {
							ok = false
							c.Violate(Finding{Desc: fmt.Sprintf("concurrent evaluation panicked: %v", rec), Key: "panic-concurrent", Input: J{"level": lvl, "minor": m, "pod": cp}})
						}
						mu.Unlock()
					}
				}()
				<-start
				again := cev.EvaluatePod(lv, &p.ObjectMeta, &p.Spec)
				if !reflect.DeepEqual(first, again) {
					mu.Lock()
					if ok {
						ok = false
						c.Violate(Finding{Desc: "concurrent evaluation of the same pod gave different results", Key: "nondeterministic-concurrent", Input: J{"level": lvl, "minor": m, "pod": cp}})
					}
					mu.Unlock()
				}
			}()
		}
		close(start)
		wg.Wait()
		c.Eval(16)
		if i%8 == 0 { // and what the evaluator says afterwards, once the burst is over
			if after := cev.EvaluatePod(lv, &p.ObjectMeta, &p.Spec); !reflect.DeepEqual(first, after) && ok {
				ok = false
				c.Violate(Finding{Desc: "an evaluator whose first evaluations ran concurrently answers differently from one used sequentially", Key: "nondeterministic-concurrent", Input: J{"level": lvl, "minor": m, "pod": cp}, Go: J{"sequential": first, "afterBurst": after}})
			}
		}
		if !reflect.DeepEqual(p, cp) {
			c.Violate(Finding{Desc: "evaluation modified the pod", Key: "mutated", Input: J{"level": lvl, "minor": m, "pod": cp}, Go: p})
		}
		if touched := spareTouched(reflect.ValueOf(p).Elem(), "pod"); len(touched) > 0 {
			c.Violate(Finding{Desc: fmt.Sprintf("evaluation wrote into the backing array of a slice of the pod, past the slice's length (memory of the caller, which other objects may share): %v", touched), Key: "mutated-spare-capacity",
				Input: J{"level": lvl, "minor": m, "pod": cp, "note": "every slice of the pod has two zero elements of spare capacity"}, Go: touched})
		}
		// correspondence: the model, fed two different iteration orders of the annotation map, must give Go's bytes
		res := []RevResult{}
		for _, x := range first {
			res = append(res, RevResult{Allowed: x.Allowed, Reason: x.ForbiddenReason, Detail: x.ForbiddenDetail})
		}
		for _, rev := range []bool{false, true} {
			in := J{"op": "evalPod", "level": lvl, "version": minorJSON(m), "relax": false, "pod": projectPodOrd(&cp.ObjectMeta, &cp.Spec, rev)}
			ops = append(ops, in)
			ins = append(ins, J{"level": lvl, "minor": m, "pod": cp, "reverseAnnotations": rev})
			want = append(want, canon(res))
		}
		c.Sample(J{"level": lvl, "minor": m, "annotations": cp.Annotations})
	}
	outs := c.Lean(ops)
	for i, o := range outs {
		c.Eval(1)
		lr := leanResults(o)
		for k := range lr {
			lr[k].Rev = ""
		}
		if canon(lr) != want[i] {
			c.Disagree(Finding{Desc: "evalPod bytes differ from the model", Input: ins[i], Go: want[i], Lean: lr})
		}
	}
}

// ---------------------------------------------------------------- C19

// switchProbe: is the user-namespace relaxation in effect right now? (observed through the public evaluator only: a pod with
// hostUsers=false and runAsUser=0 passes the runAsUser control iff it is)
func switchProbe(ev *recEvaluator) bool {
	p := &corev1.Pod{Spec: corev1.PodSpec{HostUsers: bp(false), SecurityContext: &corev1.PodSecurityContext{RunAsUser: ip(0)},
		Containers: []corev1.Container{{Name: "c", Image: "i"}}}}
	rs, _ := ev.Eval(mkLV("restricted", -1), p)
	for _, r := range rs {
		if strings.HasPrefix(r.Rev, "runAsUser@") {
			return r.Allowed
		}
	}
	return false
}

func runC19(c *Ctx) {
	runC19Admission(c)
	defer c19SwitchSurvivesOtherCalls(c)
	n := 1500
	if c.Thorough {
		n = 20000
	}
	r := NewRng(c.Seed)
	// the administrator's switch over call histories: after any sequence of setter calls the relaxation is what the LAST call
	// said (all sequences up to length 5, then random longer ones)
	{
		ev := newRecEvaluator()
		var seqs [][]bool
		for l := 0; l <= 5; l++ {
			for m := 0; m < 1<<l; m++ {
				s := make([]bool, l)
				for k := range s {
					s[k] = m&(1<<k) != 0
				}
				seqs = append(seqs, s)
			}
		}
		for i := 0; i < sizes(c, 100, 2000); i++ {
			s := make([]bool, 6+r.Intn(20))
			for k := range s {
				s[k] = r.Chance(2, 3)
			}
			seqs = append(seqs, s)
		}
		var ops []J
		var got []bool
		for _, s := range seqs {
			// back to the start-of-process state: the only way the public API offers is the setter itself; a history-dependent
			// switch is then caught by the sequences that follow
			policy.RelaxPolicyForUserNamespacePods(false)
			if switchProbe(ev) {
				for k := 0; k < 64 && switchProbe(ev); k++ { // drain whatever the implementation accumulated, so that one failure is not reported 2000 times
					policy.RelaxPolicyForUserNamespacePods(false)
				}
			}
			for _, b := range s {
				policy.RelaxPolicyForUserNamespacePods(b)
			}
			on := switchProbe(ev)
			c.Eval(1)
			ops = append(ops, J{"op": "switch", "calls": s})
			got = append(got, on)
			want := len(s) > 0 && s[len(s)-1]
			if on != want {
				c.Violate(Finding{Desc: fmt.Sprintf("after the calls RelaxPolicyForUserNamespacePods%v the relaxation is %v, but the administrator's last call said %v", s, on, want),
					Key: "switch-history", Input: J{"calls": s}})
			}
			if len(s) >= 2 {
				c.Nontrivial(s)
			}
		}
		policy.RelaxPolicyForUserNamespacePods(false)
		for k, o := range c.Lean(ops) {
			if lo, _ := o["on"].(bool); lo != got[k] {
				c.Disagree(Finding{Desc: "switch after a call history differs from the model", Input: ops[k], Go: got[k], Lean: o})
			}
		}
		c.Tag(fmt.Sprintf("switch.sequences=%d", len(seqs)))
	}
	revs := shippedRevs()
	waived := map[string]bool{"runAsNonRoot": true, "runAsUser": true, "procMount": true}
	defer policy.RelaxPolicyForUserNamespacePods(false)
	// whole evaluations with the relaxation on, through ONE long-lived evaluator, baseline and restricted at the same version in
	// both orders: every control other than the three waived ones applies unchanged (compared with the model's evaluation with
	// relax = true, and with the same evaluation with the relaxation off)
	{
		ev := newRecEvaluator()
		minors := interestingMinors(false)
		var eops []J
		var egot [][]RevResult
		var ein []J
		nn := sizes(c, 250, 4000)
		for i := 0; i < nn; i++ {
			pc := genPod(r.Fork(), 1000000+i)
			p := pc.Pod
			p.Spec.HostUsers = []*bool{bp(false), bp(false), nil, bp(true)}[i%4]
			m := minors[i%len(minors)]
			levels := []string{"baseline", "restricted"}
			if i%2 == 1 {
				levels = []string{"restricted", "baseline"}
			}
			policy.RelaxPolicyForUserNamespacePods(false)
			off := map[string][]RevResult{}
			for _, l := range levels {
				off[l], _ = ev.Eval(mkLV(l, m), p)
			}
			policy.RelaxPolicyForUserNamespacePods(true)
			for _, l := range levels {
				on, _ := ev.Eval(mkLV(l, m), p)
				c.Eval(1)
				in := J{"level": l, "minor": m, "order": levels, "pod": p.DeepCopy()}
				eops = append(eops, J{"op": "evalPod", "level": l, "version": minorJSON(m), "relax": true, "pod": projectPod(&p.ObjectMeta, &p.Spec)})
				egot = append(egot, on)
				ein = append(ein, in)
				relaxedPod := p.Spec.HostUsers != nil && !*p.Spec.HostUsers
				if len(on) != len(off[l]) {
					c.Violate(Finding{Desc: fmt.Sprintf("opting in changes which controls run at %s (%d results, %d without the opt-in)", verName(l, m), len(on), len(off[l])), Key: "on-changes-controls", Input: in, Go: J{"on": bits(on), "off": bits(off[l])}})
					continue
				}
				for k := range on {
					id := strings.Split(on[k].Rev, "@")[0]
					if relaxedPod && waived[id] && !on[k].Allowed {
						c.Violate(Finding{Desc: fmt.Sprintf("after opting in, control %s at %s is not waived for a pod that sets hostUsers=false (%s)", on[k].Rev, verName(l, m), on[k].Reason), Key: "not-waived-in-evaluation", Input: in, Go: J{"on": bits(on), "off": bits(off[l])}})
						break
					}
					if on[k].Rev != off[l][k].Rev || (!(relaxedPod && waived[id]) && !reflect.DeepEqual(on[k], off[l][k])) {
						c.Violate(Finding{Desc: fmt.Sprintf("with the opt-in, control %s at %s is answered differently (hostUsers=%v), although it is not one of the three waived controls of a hostUsers=false pod", on[k].Rev, verName(l, m), p.Spec.HostUsers), Key: "on-affects-other-controls", Input: in, Go: J{"on": bits(on), "off": bits(off[l])}})
						break
					}
				}
			}
			policy.RelaxPolicyForUserNamespacePods(false)
		}
		for k, o := range c.Lean(eops) {
			if lr := leanResults(o); bits(lr) != bits(egot[k]) {
				c.Disagree(Finding{Desc: "whole evaluation with the relaxation on differs from the model (relax = true)", Input: ein[k], Go: bits(egot[k]), Lean: bits(lr)})
			}
		}
		c.Tag(fmt.Sprintf("c19.wholeEvaluations=%d", len(eops)))
	}
	var ops []J
	var gos []policy.CheckResult
	for i := 0; i < n; i++ {
		pc := genPod(r.Fork(), i)
		p := pc.Pod
		type key struct {
			relax bool
			hu    int
		}
		for _, rv := range revs {
			res := map[key]policy.CheckResult{}
			for _, relax := range []bool{false, true} {
				policy.RelaxPolicyForUserNamespacePods(relax)
				for hu, hv := range []*bool{nil, bp(true), bp(false)} {
					p.Spec.HostUsers = hv
					g := rv.Fn(&p.ObjectMeta, &p.Spec)
					res[key{relax, hu}] = g
					c.Eval(1)
					ops = append(ops, J{"op": "checkRev", "id": rv.ID, "minor": rv.Minor, "relax": relax, "pod": projectPod(&p.ObjectMeta, &p.Spec)})
					gos = append(gos, g)
				}
			}
			policy.RelaxPolicyForUserNamespacePods(false)
			off := res[key{false, 0}]
			in := J{"id": rv.ID, "minor": rv.Minor, "pod": p.DeepCopy()}
			for hu := 0; hu < 3; hu++ {
				if !reflect.DeepEqual(res[key{false, hu}], off) {
					c.Violate(Finding{Desc: fmt.Sprintf("%s@%d: with the relaxation off, hostUsers changes the result", rv.ID, rv.Minor), Key: "off-depends-on-hostUsers", Input: in})
				}
			}
			for hu := 0; hu < 2; hu++ {
				if !reflect.DeepEqual(res[key{true, hu}], off) {
					c.Violate(Finding{Desc: fmt.Sprintf("%s@%d: relaxation on, hostUsers not false, but the result differs from relaxation off", rv.ID, rv.Minor), Key: "on-affects-others", Input: in})
				}
			}
			on := res[key{true, 2}]
			if waived[rv.ID] {
				if !on.Allowed {
					c.Violate(Finding{Desc: fmt.Sprintf("%s@%d: not waived for hostUsers=false with the relaxation on", rv.ID, rv.Minor), Key: "not-waived", Input: in})
				}
				if !off.Allowed {
					c.Tag("relaxed." + rv.ID)
					c.Nontrivial(J{"p": i, "r": rv.ID})
				}
			} else if !reflect.DeepEqual(on, off) {
				c.Violate(Finding{Desc: fmt.Sprintf("%s@%d: changed by the user-namespace relaxation but is not one of the three waived controls", rv.ID, rv.Minor), Key: "extra-waived", Input: in})
			}
		}
		if i < 3 {
			c.Sample(J{"pod": projectPod(&p.ObjectMeta, &p.Spec)})
		}
		if len(ops) > 6000 || i == n-1 {
			outs := c.Lean(ops)
			for k, o := range outs {
				la, _ := o["allowed"].(bool)
				if _, bad := o["error"]; bad {
					c.Disagree(Finding{Desc: "revision has no model function", Input: ops[k]})
				} else if la != gos[k].Allowed {
					c.Disagree(Finding{Desc: fmt.Sprintf("checkRev %v@%v relax=%v: Go allowed=%v model allowed=%v", ops[k]["id"], ops[k]["minor"], ops[k]["relax"], gos[k].Allowed, la), Input: ops[k], Go: gos[k], Lean: o})
				}
			}
			ops, gos = nil, nil
		}
	}
}

package main

import (
	"reflect"
	"sort"
	"strings"

	corev1 "k8s.io/api/core/v1"
	metav1 "k8s.io/apimachinery/pkg/apis/meta/v1"
)

// Projection of a pod onto the model's vocabulary. It must not drop a field the checks read
// (guarded by the read-set fact F4 produced by factx).

type J = map[string]any

func optBool(b *bool) any {
	if b == nil {
		return nil
	}
	return *b
}

func hostProcessCode(w *corev1.WindowsSecurityContextOptions) any {
	if w == nil {
		return 0
	}
	if w.HostProcess == nil {
		return 1
	}
	if !*w.HostProcess {
		return 2
	}
	return 3
}

func projSELinux(o *corev1.SELinuxOptions) any {
	if o == nil {
		return nil
	}
	return J{"type": o.Type, "user": o.User, "role": o.Role}
}

func projSC(sc *corev1.SecurityContext) any {
	if sc == nil {
		return nil
	}
	out := J{
		"privileged":   optBool(sc.Privileged),
		"ape":          optBool(sc.AllowPrivilegeEscalation),
		"runAsNonRoot": optBool(sc.RunAsNonRoot),
		"seLinux":      projSELinux(sc.SELinuxOptions),
		"hostProcess":  hostProcessCode(sc.WindowsOptions),
	}
	if sc.Capabilities != nil {
		add := []string{}
		for _, c := range sc.Capabilities.Add {
			add = append(add, string(c))
		}
		drop := []string{}
		for _, c := range sc.Capabilities.Drop {
			drop = append(drop, string(c))
		}
		out["caps"] = J{"add": add, "drop": drop}
	}
	if sc.ProcMount != nil {
		out["procMount"] = string(*sc.ProcMount)
	}
	if sc.RunAsUser != nil {
		out["runAsUser"] = *sc.RunAsUser
	}
	if sc.SeccompProfile != nil {
		out["seccomp"] = string(sc.SeccompProfile.Type)
	}
	if sc.AppArmorProfile != nil {
		out["appArmor"] = string(sc.AppArmorProfile.Type)
	}
	return out
}

func projContainer(c *corev1.Container) J {
	ports := []int{}
	for _, p := range c.Ports {
		ports = append(ports, int(p.HostPort))
	}
	return J{"name": c.Name, "image": c.Image, "hostPorts": ports, "sc": projSC(c.SecurityContext)}
}

func projPodSC(sc *corev1.PodSecurityContext) any {
	if sc == nil {
		return nil
	}
	out := J{
		"runAsNonRoot": optBool(sc.RunAsNonRoot),
		"seLinux":      projSELinux(sc.SELinuxOptions),
		"hostProcess":  hostProcessCode(sc.WindowsOptions),
	}
	if sc.RunAsUser != nil {
		out["runAsUser"] = *sc.RunAsUser
	}
	if sc.SeccompProfile != nil {
		out["seccomp"] = string(sc.SeccompProfile.Type)
	}
	if sc.AppArmorProfile != nil {
		out["appArmor"] = string(sc.AppArmorProfile.Type)
	}
	names := []string{}
	for _, s := range sc.Sysctls {
		names = append(names, s.Name)
	}
	out["sysctls"] = names
	return out
}

// volumeSources lists the json names of the non-nil source fields of a volume.
func volumeSources(v *corev1.Volume) []string {
	out := []string{}
	rv := reflect.ValueOf(v.VolumeSource)
	rt := rv.Type()
	for i := 0; i < rt.NumField(); i++ {
		f := rv.Field(i)
		if f.Kind() == reflect.Ptr && !f.IsNil() {
			name := strings.Split(rt.Field(i).Tag.Get("json"), ",")[0]
			out = append(out, name)
		}
	}
	return out
}

// annPairs renders a Go map as a key-sorted list of pairs (or reversed, to present another iteration order).
func annPairs(m map[string]string, reverse bool) [][]string {
	keys := make([]string, 0, len(m))
	for k := range m {
		keys = append(keys, k)
	}
	sort.Strings(keys)
	if reverse {
		for i, j := 0, len(keys)-1; i < j; i, j = i+1, j-1 {
			keys[i], keys[j] = keys[j], keys[i]
		}
	}
	out := make([][]string, 0, len(keys))
	for _, k := range keys {
		out = append(out, []string{k, m[k]})
	}
	return out
}

func projectPod(meta *metav1.ObjectMeta, spec *corev1.PodSpec) J {
	return projectPodOrd(meta, spec, false)
}

func projectPodOrd(meta *metav1.ObjectMeta, spec *corev1.PodSpec, reverseAnn bool) J {
	out := J{
		"ann":         annPairs(meta.Annotations, reverseAnn),
		"hostNetwork": spec.HostNetwork,
		"hostPID":     spec.HostPID,
		"hostIPC":     spec.HostIPC,
		"hostUsers":   optBool(spec.HostUsers),
		"sc":          projPodSC(spec.SecurityContext),
	}
	if spec.OS != nil {
		out["os"] = string(spec.OS.Name)
	}
	ini := []J{}
	for i := range spec.InitContainers {
		ini = append(ini, projContainer(&spec.InitContainers[i]))
	}
	ctr := []J{}
	for i := range spec.Containers {
		ctr = append(ctr, projContainer(&spec.Containers[i]))
	}
	eph := []J{}
	for i := range spec.EphemeralContainers {
		eph = append(eph, projContainer((*corev1.Container)(&spec.EphemeralContainers[i].EphemeralContainerCommon)))
	}
	vols := []J{}
	for i := range spec.Volumes {
		vols = append(vols, J{"name": spec.Volumes[i].Name, "sources": volumeSources(&spec.Volumes[i])})
	}
	out["init"], out["ctrs"], out["eph"], out["vols"] = ini, ctr, eph, vols
	return out
}

// apiValid is the hypothesis of C02/C03: at most one source per volume; no Linux-only security
// fields on os=windows pods.
func apiValid(spec *corev1.PodSpec) bool {
	for i := range spec.Volumes {
		if len(volumeSources(&spec.Volumes[i])) > 1 {
			return false
		}
	}
	if spec.OS != nil && spec.OS.Name == corev1.Windows {
		if spec.SecurityContext != nil && spec.SecurityContext.SeccompProfile != nil {
			return false
		}
		ok := true
		visit(spec, func(c *corev1.Container) {
			if c.SecurityContext != nil && (c.SecurityContext.SeccompProfile != nil || c.SecurityContext.Capabilities != nil || c.SecurityContext.AllowPrivilegeEscalation != nil) {
				ok = false
			}
		})
		return ok
	}
	return true
}

func visit(spec *corev1.PodSpec, f func(*corev1.Container)) {
	for i := range spec.InitContainers {
		f(&spec.InitContainers[i])
	}
	for i := range spec.Containers {
		f(&spec.Containers[i])
	}
	for i := range spec.EphemeralContainers {
		f((*corev1.Container)(&spec.EphemeralContainers[i].EphemeralContainerCommon))
	}
}

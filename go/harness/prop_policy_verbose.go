package main

import (
	"context"
	"fmt"
	"reflect"

	"github.com/go-logr/logr/funcr"
	admissionv1 "k8s.io/api/admission/v1"
	corev1 "k8s.io/api/core/v1"
	"k8s.io/apimachinery/pkg/runtime"
	"k8s.io/apimachinery/pkg/runtime/schema"
	"k8s.io/klog/v2"
	"k8s.io/pod-security-admission/admission"
	admissionapi "k8s.io/pod-security-admission/admission/api"
	"k8s.io/pod-security-admission/api"
)

// runC14AdmissionVerbose: "evaluating a pod never modifies it" also when the evaluation is asked for through the admission
// controller, and whatever the operator's log level is. Pods and workload objects whose containers carry everything a
// container can carry beside its security context (environment with literal values and references, arguments, mounts, probes,
// resources) go through Validate with a request logger at verbosity 0, 5 and 10; the object handed in must be deep-equal to
// its copy afterwards, and the answer must not depend on the verbosity.
func runC14AdmissionVerbose(c *Ctx) {
	r := NewRng(c.Seed + 1415)
	n := sizes(c, 120, 2000)
	nsLabels := map[string]string{api.EnforceLevelLabel: "restricted", api.AuditLevelLabel: "baseline", api.WarnLevelLabel: "restricted", api.WarnVersionLabel: "v1.24"}
	adm := &admission.Admission{
		Configuration: &admissionapi.PodSecurityConfiguration{Defaults: admissionapi.PodSecurityDefaults{Enforce: "privileged", EnforceVersion: "latest", Audit: "privileged", AuditVersion: "latest", Warn: "privileged", WarnVersion: "latest"}},
		Evaluator:     realEvaluator, Metrics: &recorder{}, PodSpecExtractor: admission.DefaultPodSpecExtractor{},
		NamespaceGetter: nsByName{"team": nsLabels}, PodLister: clusterLister{}}
	if err := adm.CompleteConfiguration(); err != nil {
		panic(err)
	}
	dress := func(ct *corev1.Container, k int) {
		ct.Env = append(ct.Env, corev1.EnvVar{Name: "PASSWORD", Value: fmt.Sprintf("s3cr3t-%d", k)}, corev1.EnvVar{Name: "EMPTY"},
			corev1.EnvVar{Name: "FROM", ValueFrom: &corev1.EnvVarSource{FieldRef: &corev1.ObjectFieldSelector{FieldPath: "metadata.name"}}})
		ct.EnvFrom = append(ct.EnvFrom, corev1.EnvFromSource{Prefix: "P_", ConfigMapRef: &corev1.ConfigMapEnvSource{LocalObjectReference: corev1.LocalObjectReference{Name: "cm"}}})
		ct.Args = append(ct.Args, "--token=abc", "--v=2")
		ct.Command = append(ct.Command, "/bin/app")
		ct.VolumeMounts = append(ct.VolumeMounts, corev1.VolumeMount{Name: "data", MountPath: "/data", SubPath: "x"})
		ct.WorkingDir, ct.TerminationMessagePath = "/w", "/dev/termination-log"
	}
	for i := 0; i < n; i++ {
		pc := genPod(r.Fork(), i)
		p := pc.Pod
		p.Namespace = "team"
		for j := range p.Spec.Containers {
			dress(&p.Spec.Containers[j], j)
		}
		for j := range p.Spec.InitContainers {
			dress(&p.Spec.InitContainers[j], 100+j)
		}
		for j := range p.Spec.EphemeralContainers {
			ec := corev1.Container(p.Spec.EphemeralContainers[j].EphemeralContainerCommon)
			dress(&ec, 200+j)
			p.Spec.EphemeralContainers[j].EphemeralContainerCommon = corev1.EphemeralContainerCommon(ec)
		}
		p.Labels = map[string]string{"app": "x"}
		var obj runtime.Object = p
		res, kind := "pods", schema.GroupVersionKind{Version: "v1", Kind: "Pod"}
		if i%3 == 2 {
			ck := controllerKinds[i%len(controllerKinds)]
			obj = wrapController(ck, p, false)
			res = ck
			av, k := kindOf(ck)
			gv, _ := schema.ParseGroupVersion(av)
			kind = gv.WithKind(k)
		}
		padSlices(reflect.ValueOf(obj).Elem())
		snap := obj.DeepCopyObject()
		var answers []string
		for _, verbosity := range []int{0, 5, 10} {
			logger := funcr.New(func(prefix, args string) {}, funcr.Options{Verbosity: verbosity})
			ctx := klog.NewContext(context.Background(), logger)
			at := &api.AttributesRecord{Name: p.Name, Namespace: "team", Kind: kind, Resource: schema.GroupVersionResource{Group: groupOf(res), Version: "v1", Resource: res},
				Operation: admissionv1.Create, Object: obj, Username: "u"}
			resp := adm.Validate(ctx, at)
			c.Eval(1)
			answers = append(answers, canon(projectResponse(resp, nil, nil, nil)))
			if !reflect.DeepEqual(obj, snap) {
				c.Violate(Finding{Desc: fmt.Sprintf("a %s CREATE handled with a request logger at verbosity %d leaves the submitted object changed", res, verbosity), Key: "object-modified-by-admission",
					Input: J{"resource": res, "logVerbosity": verbosity, "namespaceLabels": nsLabels, "object": snap}, Go: J{"after": obj}})
				obj = snap.DeepCopyObject()
				break
			}
			if what := spareTouched(reflect.ValueOf(obj).Elem(), "object"); len(what) > 0 {
				c.Violate(Finding{Desc: fmt.Sprintf("a %s CREATE handled at log verbosity %d wrote past the end of a slice of the submitted object: %v", res, verbosity, what), Key: "object-spare-capacity-written",
					Input: J{"resource": res, "logVerbosity": verbosity, "object": snap}})
				break
			}
		}
		for k := 1; k < len(answers); k++ {
			if answers[k] != answers[0] {
				c.Violate(Finding{Desc: "the answer to a request depends on the verbosity of the request's logger", Key: "answer-depends-on-verbosity", Input: J{"resource": res, "object": snap}, Go: answers})
				break
			}
		}
		c.Tag("c14.admissionVerbose")
	}
}

package main

import (
	"context"
	"fmt"
	"reflect"
	"sync"

	admissionv1 "k8s.io/api/admission/v1"
	corev1 "k8s.io/api/core/v1"
	corev1listers "k8s.io/client-go/listers/core/v1"
	"k8s.io/client-go/tools/cache"
	compbasemetrics "k8s.io/component-base/metrics"
	"k8s.io/pod-security-admission/admission"
	admissionapi "k8s.io/pod-security-admission/admission/api"
	"k8s.io/pod-security-admission/api"
	"k8s.io/pod-security-admission/metrics"
)

// runC14InformerCache: the repository's informer-backed PodLister and lister-backed NamespaceGetter hand the controller the
// very objects an informer cache holds. A namespace update (its dry run evaluates every cached pod), repeated and from several
// goroutines at once, must leave every cached object exactly as it was — including the memory just past the length of each
// of its slices — and must report what a controller over private copies of the same pods reports.
func runC14InformerCache(c *Ctx) {
	r := NewRng(c.Seed + 1414)
	rounds := sizes(c, 6, 60)
	for round := 0; round < rounds; round++ {
		podIndexer := cache.NewIndexer(cache.MetaNamespaceKeyFunc, cache.Indexers{cache.NamespaceIndex: cache.MetaNamespaceIndexFunc})
		nsIndexer := cache.NewIndexer(cache.MetaNamespaceKeyFunc, cache.Indexers{})
		var cached []*corev1.Pod
		seen := map[string]bool{}
		for i := 0; i < 3+r.Intn(8); i++ {
			var p *corev1.Pod
			if i%2 == 0 {
				p = genPod(r.Fork(), round*100+i).Pod
			} else {
				p = genPopPod(r, i, []string{"exrc"})
			}
			p.Namespace = "team"
			p.Name = fmt.Sprintf("%s-%d", p.Name, i)
			if seen[p.Name] {
				continue
			}
			seen[p.Name] = true
			padSlices(reflect.ValueOf(p).Elem())
			podIndexer.Add(p)
			cached = append(cached, p)
		}
		nsObj := nsObject("team", map[string]string{api.EnforceLevelLabel: "privileged", api.WarnLevelLabel: "baseline"}, 3)
		nsIndexer.Add(nsObj)
		var snap []*corev1.Pod
		for _, p := range cached {
			snap = append(snap, p.DeepCopy())
		}
		nsSnap := nsObj.DeepCopy()
		mk := func(lister admission.PodLister) *admission.Admission {
			// the recorder a deployed webhook has (Setup wires exactly this one): evaluations from several goroutines go through it
			rec := metrics.NewPrometheusRecorder(api.MajorMinorVersion(1, 30))
			rec.MustRegister(compbasemetrics.NewKubeRegistry().MustRegister)
			adm := &admission.Admission{
				Configuration: &admissionapi.PodSecurityConfiguration{Defaults: admissionapi.PodSecurityDefaults{Enforce: "privileged", EnforceVersion: "latest", Audit: "privileged", AuditVersion: "latest", Warn: "privileged", WarnVersion: "latest"},
					Exemptions: admissionapi.PodSecurityExemptions{RuntimeClasses: []string{"exrc"}}},
				Evaluator: realEvaluator, Metrics: rec, PodSpecExtractor: admission.DefaultPodSpecExtractor{},
				NamespaceGetter: admission.NamespaceGetterFromListerAndClient(corev1listers.NewNamespaceLister(nsIndexer), nil), PodLister: lister}
			if err := adm.CompleteConfiguration(); err != nil {
				panic(err)
			}
			return adm
		}
		private := clusterLister{}
		for _, p := range snap {
			private["team"] = append(private["team"], p.DeepCopy())
		}
		shared := mk(admission.PodListerFromInformer(corev1listers.NewPodLister(podIndexer)))
		ref := mk(private)
		var reqs []*AdmitCase
		for _, lvl := range []string{"baseline", "restricted"} {
			for _, ver := range []string{"", "v1.0", "v1.24", "latest"} {
				labels := map[string]string{api.EnforceLevelLabel: lvl}
				if ver != "" {
					labels[api.EnforceVersionLabel] = ver
				}
				reqs = append(reqs, &AdmitCase{Res: "namespaces", Op: admissionv1.Update, Name: "team", NS: "team", User: "u", ExpireAfter: -1,
					Obj: ObjSpec{Kind: "namespace", NSName: "team", Labels: labels}, Old: ObjSpec{Kind: "namespace", NSName: "team", Labels: map[string]string{}}})
			}
		}
		// pod requests in the cached namespace read the cached namespace object (its labels: enforce privileged, warn baseline)
		for k := 0; k < 6; k++ {
			reqs = append(reqs, &AdmitCase{Res: "pods", Op: []admissionv1.Operation{admissionv1.Create, admissionv1.Update}[k%2], Name: fmt.Sprintf("new-%d", k), NS: "team", User: "u", ExpireAfter: -1,
				Obj: ObjSpec{Kind: "pod", Pod: genPod(r.Fork(), 7+k).Pod}, Old: ObjSpec{Kind: "pod", Pod: &corev1.Pod{Spec: corev1.PodSpec{Containers: []corev1.Container{{Name: "x", Image: "old"}}}}}})
		}
		want := make([]*admissionv1.AdmissionResponse, len(reqs))
		for i, a := range reqs {
			want[i] = ref.Validate(context.Background(), a.attributes()).DeepCopy()
		}
		var wg sync.WaitGroup
		var mu sync.Mutex
		for g := 0; g < 6; g++ {
			wg.Add(1)
			go func(g int) {
				defer wg.Done()
				for k := range reqs {
					i := (k + g) % len(reqs)
					got := shared.Validate(context.Background(), reqs[i].attributes()).DeepCopy()
					mu.Lock()
					c.Eval(1)
					if got.Allowed != want[i].Allowed || canon(got.Warnings) != canon(want[i].Warnings) || canon(got.AuditAnnotations) != canon(want[i].AuditAnnotations) {
						c.Violate(Finding{Desc: "a controller reading the informer cache answers differently from one reading private copies of the same objects", Key: "informer-cache-answer",
							Input: J{"request": reqs[i].opJSON()["req"], "cachedPods": len(cached)}, Go: J{"informerBacked": got, "privateCopies": want[i]}})
					}
					mu.Unlock()
				}
			}(g)
		}
		wg.Wait()
		c.Tag("c14.informerCacheRounds")
		for i, p := range cached {
			if !reflect.DeepEqual(p, snap[i]) {
				c.Violate(Finding{Desc: "a pod held by the informer cache was modified by the dry run of a namespace update", Key: "informer-cache-mutated", Input: J{"pod": snap[i]}, Go: p})
			}
			if touched := spareTouched(reflect.ValueOf(p).Elem(), "pod"); len(touched) > 0 {
				c.Violate(Finding{Desc: fmt.Sprintf("the dry run of a namespace update wrote past the length of a slice of a pod held by the informer cache: %v", touched), Key: "informer-cache-mutated-spare", Input: J{"pod": snap[i]}, Go: touched})
			}
		}
		if !reflect.DeepEqual(nsObj, nsSnap) {
			c.Violate(Finding{Desc: "the namespace object held by the informer cache was modified", Key: "informer-cache-ns-mutated", Input: J{"namespace": nsSnap}, Go: nsObj})
		}
	}
}

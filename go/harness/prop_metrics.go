package main

import (
	"encoding/json"
	"fmt"
	"sort"
	"strings"
	"sync"

	admissionv1 "k8s.io/api/admission/v1"
	"k8s.io/apimachinery/pkg/runtime/schema"
	compbasemetrics "k8s.io/component-base/metrics"
	"k8s.io/pod-security-admission/api"
	"k8s.io/pod-security-admission/metrics"
)

type metricEvent struct {
	kind     string
	decision string
	level    string
	minor    int // -1 latest
	mode     string
	fatal    bool
	op       string
	group    string
	resource string
	sub      string
}

func (e metricEvent) json() J {
	return J{"kind": e.kind, "decision": e.decision, "level": e.level, "version": minorJSON(e.minor), "mode": e.mode, "fatal": e.fatal,
		"rop": e.op, "group": e.group, "resource": e.resource, "sub": e.sub}
}

func (e metricEvent) attrs() api.Attributes {
	return &api.AttributesRecord{Operation: admissionv1.Operation(e.op), Resource: schema.GroupVersionResource{Group: e.group, Version: "v1", Resource: e.resource}, Subresource: e.sub}
}

// gather: the three counter vectors of a recorder as label-tuple -> value
func gather(reg compbasemetrics.KubeRegistry) (map[string]map[string]int, error) {
	mfs, err := reg.Gather()
	if err != nil {
		return nil, err
	}
	order := map[string][]string{
		"pod_security_evaluations_total": {"decision", "policy_level", "policy_version", "mode", "request_operation", "resource", "subresource"},
		"pod_security_exemptions_total":  {"request_operation", "resource", "subresource"},
		"pod_security_errors_total":      {"fatal", "request_operation", "resource", "subresource"},
	}
	out := map[string]map[string]int{}
	for _, mf := range mfs {
		names, ok := order[mf.GetName()]
		if !ok {
			continue
		}
		m := map[string]int{}
		for _, metric := range mf.Metric {
			vals := map[string]string{}
			for _, lp := range metric.Label {
				vals[lp.GetName()] = lp.GetValue()
			}
			var tuple []string
			for _, n := range names {
				tuple = append(tuple, vals[n])
			}
			if v := int(metric.Counter.GetValue()); v != 0 {
				m[canon(tuple)] = v
			}
		}
		out[mf.GetName()] = m
	}
	return out, nil
}

func leanCounts(j any) map[string]int {
	m := map[string]int{}
	arr, _ := j.([]any)
	for _, e := range arr {
		p := e.([]any)
		if v := int(p[1].(float64)); v != 0 {
			m[canon(p[0])] = v
		}
	}
	return m
}

// runC18Recorder: the real PrometheusRecorder fed from 16 goroutines with Reset barriers, gathered totals vs the model's;
// and the policy_version label of every recorded series is latest / future / a version not newer than the server's.
func runC18Recorder(c *Ctx) {
	// the recorder as the webhook server wires it (metrics.NewPrometheusRecorder(api.GetAPIVersion())): the server version is a
	// concrete major.minor (hypothesis of C18_label_finite), so user-chosen versions cannot each become a series of their own
	sv := api.GetAPIVersion()
	c.Eval(1)
	if sv.Latest() {
		c.Tag("serverVersion.latest")
	} else {
		c.Tag("serverVersion.concrete")
	}
	{
		rec := metrics.NewPrometheusRecorder(sv)
		reg := compbasemetrics.NewKubeRegistry()
		rec.MustRegister(reg.MustRegister)
		const chosen = 40
		for i := 0; i < chosen; i++ {
			e := metricEvent{op: "CREATE", resource: "pods", kind: "eval", decision: "allow", level: "baseline", minor: 100000 + i, mode: "enforce"}
			rec.RecordEvaluation(metrics.Decision(e.decision), mkLV(e.level, e.minor), metrics.Mode(e.mode), e.attrs())
			c.Eval(1)
		}
		got, err := gather(reg)
		labels := map[string]bool{}
		if err == nil {
			for tuple := range got["pod_security_evaluations_total"] {
				var t []string
				json.Unmarshal([]byte(tuple), &t)
				if len(t) > 2 {
					labels[t[2]] = true
				}
			}
		}
		if err != nil || len(labels) > 2 || sv.Latest() {
			var ls []string
			for l := range labels {
				ls = append(ls, l)
			}
			sort.Strings(ls)
			c.Violate(Finding{Desc: fmt.Sprintf("recorder wired as the server does (api.GetAPIVersion() = %s): %d namespaces pinned to %d distinct versions newer than any release created %d distinct policy_version values (want only latest / future)", sv.String(), chosen, chosen, len(labels)),
				Key: "server-wired-unbounded", Input: J{"serverVersion": sv.String(), "policy_version_values": ls}})
		}
	}
	rounds := sizes(c, 12, 120)
	r := NewRng(c.Seed + 1818)
	for round := 0; round < rounds; round++ {
		serverMinor := pick(r, []int{0, 1, 25, 32, 33, 40})
		rec := metrics.NewPrometheusRecorder(api.MajorMinorVersion(1, serverMinor))
		reg := compbasemetrics.NewKubeRegistry()
		rec.MustRegister(reg.MustRegister)
		var all []J
		phases := 1 + r.Intn(3)
		for ph := 0; ph < phases; ph++ {
			n := 200 + r.Intn(2000)
			evs := make([]metricEvent, n)
			for i := range evs {
				e := metricEvent{op: pick(r, []string{"CREATE", "UPDATE", "CREATE", "UPDATE", "DELETE", "CONNECT"}), sub: pick(r, []string{"", "", "", "status", "ephemeralcontainers"})}
				switch r.Intn(4) {
				case 0:
					e.group, e.resource = "", "pods"
				case 1:
					e.group, e.resource = "apps", "deployments"
				case 2:
					e.group, e.resource = "", "namespaces"
				default:
					e.group, e.resource = "apps", "pods" // a pods resource of another group is a controller
				}
				switch r.Intn(6) {
				case 0:
					e.kind = "exempt"
				case 1:
					e.kind, e.fatal = "error", r.Bool()
				default:
					e.kind = "eval"
					e.decision = pick(r, []string{"allow", "deny"})
					e.level = pick(r, validLevels)
					e.minor = pick(r, []int{-1, 0, 1, 7, 25, 31, 32, 33, 34, 41, 100, 9999, 123456789})
					e.mode = pick(r, []string{"enforce", "audit", "warn"})
				}
				evs[i] = e
			}
			// record concurrently
			var wg sync.WaitGroup
			for g := 0; g < 16; g++ {
				wg.Add(1)
				go func(g int) {
					defer wg.Done()
					for i := g; i < len(evs); i += 16 {
						e := evs[i]
						switch e.kind {
						case "exempt":
							rec.RecordExemption(e.attrs())
						case "error":
							rec.RecordError(e.fatal, e.attrs())
						default:
							rec.RecordEvaluation(metrics.Decision(e.decision), mkLV(e.level, e.minor), metrics.Mode(e.mode), e.attrs())
						}
					}
				}(g)
			}
			wg.Wait()
			c.Eval(n)
			for _, e := range evs {
				all = append(all, e.json())
			}
			got, err := gather(reg)
			if err != nil {
				c.Violate(Finding{Desc: "gathering metrics failed: " + err.Error(), Key: "gather"})
				return
			}
			out := c.Lean([]J{{"op": "metricCounts", "server": []int{1, serverMinor}, "events": all}})[0]
			want := map[string]map[string]int{"pod_security_evaluations_total": leanCounts(out["evaluations"]), "pod_security_exemptions_total": leanCounts(out["exemptions"]), "pod_security_errors_total": leanCounts(out["errors"])}
			for name, w := range want {
				g := got[name]
				if g == nil {
					g = map[string]int{}
				}
				if canon(g) != canon(w) {
					var diffs []string
					keys := map[string]bool{}
					for k := range g {
						keys[k] = true
					}
					for k := range w {
						keys[k] = true
					}
					for k := range keys {
						if g[k] != w[k] {
							diffs = append(diffs, fmt.Sprintf("%s: recorded %d, expected %d", k, g[k], w[k]))
						}
					}
					sort.Strings(diffs)
					if len(diffs) > 5 {
						diffs = diffs[:5]
					}
					c.Violate(Finding{Desc: fmt.Sprintf("%s after %d concurrent recordings (server v1.%d, %d resets): %s", name, len(all), serverMinor, ph, strings.Join(diffs, "; ")), Key: "metric-counts",
						Input: J{"server": serverMinor, "events": len(all), "phase": ph}})
				}
			}
			// bounded label, directly on what was gathered
			for k := range got["pod_security_evaluations_total"] {
				parts := strings.Split(strings.Trim(k, "[]"), ",")
				v := strings.Trim(parts[2], `"`)
				ok := v == "latest" || v == "future"
				if strings.HasPrefix(v, "v1.") {
					var m int
					if _, err := fmt.Sscanf(v, "v1.%d", &m); err == nil && m <= serverMinor {
						ok = true
					}
				}
				if !ok {
					c.Violate(Finding{Desc: fmt.Sprintf("policy_version label %q recorded by a server at v1.%d", v, serverMinor), Key: "metric-unbounded-label", Input: J{"series": k}})
				}
			}
			c.Tag("recorder.phase")
			if ph == phases-1 {
				// recording that overlaps a Reset: afterwards (no further reset) every series must again count exactly
				stop := make(chan struct{})
				var wg2 sync.WaitGroup
				for g := 0; g < 8; g++ {
					wg2.Add(1)
					go func(g int) {
						defer wg2.Done()
						for i := 0; ; i++ {
							select {
							case <-stop:
								return
							default:
							}
							e := evs[(g*131+i)%len(evs)]
							switch e.kind {
							case "exempt":
								rec.RecordExemption(e.attrs())
							case "error":
								rec.RecordError(e.fatal, e.attrs())
							default:
								rec.RecordEvaluation(metrics.Decision(e.decision), mkLV(e.level, e.minor), metrics.Mode(e.mode), e.attrs())
							}
						}
					}(g)
				}
				for k := 0; k < 200; k++ {
					rec.Reset()
				}
				close(stop)
				wg2.Wait()
				before, _ := gather(reg)
				var tail []J
				for i := 0; i < 400 && i < len(evs); i++ {
					e := evs[i]
					switch e.kind {
					case "exempt":
						rec.RecordExemption(e.attrs())
					case "error":
						rec.RecordError(e.fatal, e.attrs())
					default:
						rec.RecordEvaluation(metrics.Decision(e.decision), mkLV(e.level, e.minor), metrics.Mode(e.mode), e.attrs())
					}
					tail = append(tail, e.json())
				}
				c.Eval(len(tail))
				after, _ := gather(reg)
				out := c.Lean([]J{{"op": "metricCounts", "server": []int{1, serverMinor}, "events": tail}})[0]
				wantTail := map[string]map[string]int{"pod_security_evaluations_total": leanCounts(out["evaluations"]), "pod_security_exemptions_total": leanCounts(out["exemptions"]), "pod_security_errors_total": leanCounts(out["errors"])}
				for name, w := range wantTail {
					for k, v := range w {
						if d := after[name][k] - before[name][k]; d != v {
							c.Violate(Finding{Desc: fmt.Sprintf("%s %s: %d recordings after resets that overlapped recording, but the exposed series grew by %d", name, k, v, d), Key: "metric-lost-after-reset",
								Input: J{"server": serverMinor, "series": k}})
							break
						}
					}
				}
				c.Tag("recorder.resetOverlap")
			}
			if ph < phases-1 {
				rec.Reset()
				all = append(all, J{"kind": "reset"})
				got, _ := gather(reg)
				for name, m := range got {
					if len(m) != 0 {
						c.Violate(Finding{Desc: name + " not zero after Reset", Key: "metric-reset"})
					}
				}
			}
		}
	}
}

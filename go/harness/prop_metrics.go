package main

func runC18Recorder(c *Ctx) {}

package main

import (
	"context"
	"fmt"
	"reflect"
	"strings"
	"time"

	admissionv1 "k8s.io/api/admission/v1"
	corev1 "k8s.io/api/core/v1"
	metav1 "k8s.io/apimachinery/pkg/apis/meta/v1"
	"k8s.io/apimachinery/pkg/runtime/schema"
	"k8s.io/apimachinery/pkg/types"
	"k8s.io/pod-security-admission/admission"
	admissionapi "k8s.io/pod-security-admission/admission/api"
	"k8s.io/pod-security-admission/api"
	"k8s.io/pod-security-admission/policy"
)

func init() {
	props["C01"] = runC01
	props["C06"] = runC06
	props["C07"] = runC07
	props["C08"] = runC08
	props["C09"] = runC09
	props["C10"] = runC10
	props["C11"] = runC11
	props["C12"] = runC12
	props["C18"] = runC18
}

func plainAllowed(g AdmitOut) bool {
	return g.Allowed && g.Code == 0 && len(g.Warnings) == 0 && g.AnnExempt == nil && !g.AnnError && g.AnnEnforce == nil && g.AnnAudit == nil
}

func pathTag(a *AdmitCase, g AdmitOut) string {
	t := "resp."
	switch {
	case g.Panic != "":
		t += "panic"
	case !g.Allowed:
		t += fmt.Sprintf("denied%d", g.Code)
	case g.AnnExempt != nil:
		t += "exempt." + *g.AnnExempt
	case plainAllowed(g):
		t += "plainAllowed"
	default:
		t += "allowed"
		if len(g.Warnings) > 0 {
			t += "+warn"
		}
		if g.AnnAudit != nil {
			t += "+audit"
		}
		if g.AnnError {
			t += "+error"
		}
		if g.AnnEnforce != nil {
			t += "+enforced"
		}
	}
	return t
}

// admitSweep: n generated cases through the real Admission.Validate and through the model; `full` is the projection
// compared for correspondence, `decisive` the observables the property determines uniquely (a difference there is a
// violation with the case as its replay).
// histGroup: how many consecutive generated requests share one configuration (and, in the history pass, one controller)
const histGroup = 16

func admitSweep(c *Ctx, n int, k AdmitKnobs, full, decisive string, extra func(a *AdmitCase, g AdmitOut), mutate func(r *Rng, a *AdmitCase)) {
	r := NewRng(c.Seed)
	const chunk = 400
	for base := 0; base < n; base += chunk {
		var cases []*AdmitCase
		var gos []AdmitOut
		var ops []J
		for i := base; i < base+chunk && i < n; i++ {
			kk := k
			if i%histGroup != 0 && len(cases) > 0 {
				kk.Shared = cases[len(cases)-(i%histGroup)]
			}
			a := genAdmitCase(r.Fork(), i, kk)
			if mutate != nil {
				mutate(r, a)
				if kk.Shared != nil { // the mutation may not change what the group shares
					a.ExNS, a.ExUsers, a.ExRC = kk.Shared.ExNS, kk.Shared.ExUsers, kk.Shared.ExRC
				}
			}
			g := a.runGo()
			c.Eval(1)
			for _, t := range a.Tags {
				c.Tag(t)
			}
			c.Tag(pathTag(a, g))
			if g.Panic != "" {
				c.Violate(Finding{Desc: "Validate panicked: " + g.Panic, Key: "panic", Input: a.opJSON()})
			}
			if !plainAllowed(g) {
				c.Nontrivial(a.opJSON())
			}
			if extra != nil && !g.ClockHit {
				extra(a, g)
			}
			if i%8 == 3 && !g.ClockHit && g.Panic == "" {
				// every eighth case once more with the evaluator unwrapped (see plainEvaluatorAgrees)
				plainEvaluatorAgrees(c, a, g)
			}
			cases = append(cases, a)
			gos = append(gos, g)
			ops = append(ops, a.opJSON())
			if i < 2 {
				c.Sample(J{"request": a.opJSON()["req"], "cfg": a.opJSON()["cfg"], "goResponse": g})
			}
		}
		// history: every group of requests again through ONE long-lived controller (in order, then in reverse order); a response
		// may depend on the request, the configuration and what the request's own dependencies return — not on earlier requests
		for g0 := 0; g0+1 < len(cases); g0 += histGroup {
			g1 := g0 + histGroup
			if g1 > len(cases) {
				g1 = len(cases)
			}
			group := cases[g0:g1]
			fwd := make([]int, len(group))
			for j := range fwd {
				fwd[j] = j
			}
			rev := make([]int, len(group))
			for j := range rev {
				rev[j] = len(group) - 1 - j
			}
			for pass, order := range [][]int{fwd, append(append([]int{}, fwd...), rev...)} {
				hist := runHistory(group, order)
				for j := range group {
					c.Eval(1)
					fresh := gos[g0+j]
					if fresh.Panic != "" || hist[j].Panic != "" {
						continue
					}
					if fresh.ClockHit || hist[j].ClockHit {
						c.Tag("skipped.wallClock") // the machine was too slow for the controller's real one-second budget
						continue
					}
					if d := diffAdmit(fresh, hist[j], strings.ReplaceAll(full, "timeout", "")); len(d) > 0 {
						c.Violate(Finding{Desc: fmt.Sprintf("the response depends on earlier requests to the same controller (request %d of a group of %d, pass %d): %s", j+1, len(group), pass+1, strings.Join(d, "; ")),
							Key: "history:" + strings.SplitN(d[0], ":", 2)[0], Input: ops[g0+j], Go: J{"afterEarlierRequests": hist[j], "alone": fresh}})
						break
					}
				}
			}
		}
		outs := c.Lean(ops)
		for i, o := range outs {
			if _, bad := o["driverError"]; bad {
				continue
			}
			if gos[i].Panic != "" {
				continue
			}
			if gos[i].ClockHit {
				c.Tag("skipped.wallClock")
				continue
			}
			l := leanAdmit(o)
			if d := diffAdmit(gos[i], l, decisive); len(d) > 0 {
				c.Violate(Finding{Desc: strings.Join(d, "; "), Key: strings.SplitN(d[0], ":", 2)[0], Input: ops[i], Go: gos[i], Lean: l})
			} else if d := diffAdmit(gos[i], l, full); len(d) > 0 {
				c.Disagree(Finding{Desc: strings.Join(d, "; "), Input: ops[i], Go: gos[i], Lean: l})
			}
		}
	}
}

func sizes(c *Ctx, q, t int) int {
	if c.Thorough {
		return t
	}
	return q
}

const fullProj = "allowed code causes message warnings ann audit metrics evalCalls listCalls"

// effective policy, computed independently of the admission code
func effectivePolicy(a *AdmitCase) (api.Policy, int) {
	p, errs := api.PolicyToEvaluate(a.NSLabels, defaultsPolicy(a.Defaults))
	return p, len(errs)
}

func inList(s string, l []string) bool {
	if s == "" {
		return false
	}
	for _, x := range l {
		if x == s {
			return true
		}
	}
	return false
}

var ignoredSubs = map[string]bool{"exec": true, "attach": true, "binding": true, "eviction": true, "log": true, "portforward": true, "proxy": true, "status": true}

func evalOf(a *AdmitCase, lv api.LevelVersion, p *corev1.Pod) policy.AggregateCheckResult {
	if a.Syn {
		return policy.AggregateCheckResults(synVerdict(a.Salt, lv, p.Name))
	}
	return policy.AggregateCheckResults(realEvaluator.EvaluatePod(lv, &p.ObjectMeta, &p.Spec))
}

// significant: the property's own description of a security-relevant update
func significant(newP, oldP *corev1.Pod) bool {
	if len(newP.Spec.Containers) != len(oldP.Spec.Containers) || len(newP.Spec.InitContainers) != len(oldP.Spec.InitContainers) {
		return true
	}
	for i := range newP.Spec.Containers {
		if newP.Spec.Containers[i].Image != oldP.Spec.Containers[i].Image {
			return true
		}
	}
	for i := range newP.Spec.InitContainers {
		if newP.Spec.InitContainers[i].Image != oldP.Spec.InitContainers[i].Image {
			return true
		}
	}
	for _, e := range newP.Spec.EphemeralContainers {
		found := false
		for _, o := range oldP.Spec.EphemeralContainers {
			if o.Name == e.Name {
				found = true
				if o.Image != e.Image {
					return true
				}
				break
			}
		}
		if !found {
			return true
		}
	}
	return false
}

// ---------------------------------------------------------------- C01

func runC01(c *Ctx) {
	n := sizes(c, 3000, 60000)
	k := AdmitKnobs{Kind: "pod", FaultPct: 3, SynPct: 30, SubPct: 15}
	admitSweep(c, n, k, "allowed code message ann", "allowed code ann", func(a *AdmitCase, g AdmitOut) {
		if a.Res != "pods" || a.NSErr || a.Obj.Kind != "pod" || ignoredSubs[a.Sub] || inList(a.NS, a.ExNS) || inList(a.User, a.ExUsers) {
			return
		}
		if a.Op == admissionv1.Update && (a.Old.Kind != "pod" || !significant(a.Obj.Pod, a.Old.Pod)) {
			return
		}
		if a.Obj.Pod.Spec.RuntimeClassName != nil && inList(*a.Obj.Pod.Spec.RuntimeClassName, a.ExRC) {
			return
		}
		pol, _ := effectivePolicy(a)
		want := evalOf(a, pol.Enforce, a.Obj.Pod).Allowed
		c.Tag("c01.eligible")
		if !apiValid(&a.Obj.Pod.Spec) {
			c.Tag("c01.apiInvalidPod")
		}
		in := a.opJSON()
		if g.Allowed != want {
			c.Violate(Finding{Desc: fmt.Sprintf("pod request allowed=%v but the enforce policy %s says allowed=%v", g.Allowed, pol.Enforce.String(), want), Key: "verdict", Input: in, Go: g})
		}
		if !g.Allowed {
			if g.Code != 403 || g.Reason != "Forbidden" || !strings.Contains(g.RawMessage, `"`+pol.Enforce.String()+`"`) {
				c.Violate(Finding{Desc: fmt.Sprintf("policy denial is not a 403 Forbidden naming %s: code=%d reason=%s message=%q", pol.Enforce.String(), g.Code, g.Reason, g.RawMessage), Key: "status", Input: in})
			}
		}
		if g.AnnEnforce == nil {
			c.Violate(Finding{Desc: "evaluated pod request has no enforce-policy annotation", Key: "annotation", Input: in, Go: g})
		} else if pol.Enforce.Level == api.LevelPrivileged {
			if !strings.HasPrefix(*g.AnnEnforce, "privileged:") {
				c.Violate(Finding{Desc: "enforce-policy annotation does not name the enforced level: " + *g.AnnEnforce, Key: "annotation", Input: in})
			}
		} else if *g.AnnEnforce != pol.Enforce.String() {
			c.Violate(Finding{Desc: fmt.Sprintf("enforce-policy annotation %q, enforced policy %q", *g.AnnEnforce, pol.Enforce.String()), Key: "annotation", Input: in})
		}
	}, func(r *Rng, a *AdmitCase) {
		// one version in all three modes with different levels (enforce below warn / audit and the other way round), and pods on
		// which the levels disagree in every possible way — including pods the API server would refuse (os=windows with Linux-only
		// fields), for which restricted does NOT imply baseline: the verdict is the ENFORCE policy's, whatever the others say
		if a.Obj.Pod != nil && a.Syn == false && r.Chance(1, 5) {
			v := pick(r, []string{"latest", "v1.32", "v1.29", "v1.26", "v1.25", "v1.24", "v1.22", "v1.19"})
			lv := func() string {
				return pick(r, []string{"baseline", "restricted", "baseline", "restricted", "privileged"})
			}
			a.NSLabels = map[string]string{api.EnforceLevelLabel: lv(), api.EnforceVersionLabel: v, api.AuditLevelLabel: lv(), api.AuditVersionLabel: v, api.WarnLevelLabel: lv(), api.WarnVersionLabel: v}
			base := versionSensitivePod(r, a.Obj.Pod.Name)
			base.Namespace = a.Obj.Pod.Namespace
			sc := base.Spec.Containers[0].SecurityContext
			if sc == nil {
				sc = &corev1.SecurityContext{}
				base.Spec.Containers[0].SecurityContext = sc
			}
			switch r.Intn(6) {
			case 0:
				base.Spec.OS = &corev1.PodOS{Name: "windows"}
				sc.Capabilities = &corev1.Capabilities{Add: []corev1.Capability{"NET_ADMIN"}, Drop: []corev1.Capability{"ALL"}}
			case 1:
				base.Spec.OS = &corev1.PodOS{Name: "windows"}
				sc.SeccompProfile = &corev1.SeccompProfile{Type: "Unconfined"}
			case 2:
				base.Spec.OS = &corev1.PodOS{Name: "windows"}
				sc.AllowPrivilegeEscalation = bp(true)
			case 3:
				sc.Capabilities = &corev1.Capabilities{Add: []corev1.Capability{"CHOWN"}, Drop: []corev1.Capability{"ALL"}} // baseline yes, restricted no
			case 4:
				base.Spec.HostNetwork = true // neither
			}
			a.Obj.Pod = base
			if a.Old.Pod != nil {
				old := base.DeepCopy()
				old.Spec.Containers[0].Image = "previous"
				a.Old.Pod = old
			}
			a.Tags = append(a.Tags, "c01.sameVersionDifferentLevels")
		}
		// the model judges with the Standard's own evaluator whenever the pods involved are API-valid
		ok := a.Obj.Pod == nil || apiValid(&a.Obj.Pod.Spec)
		a.StdOracle = ok && !a.Syn
	})
	runC01History(c)
	// the same, end to end: pod reviews as an API server sends them (also one newer than this build: fields it does not know,
	// a repeated key) through the webhook handler; verdict, status and enforce-policy annotation must be the library's for
	// the typed pod
	ns, newAdm := webhookFixture()
	webhookMixed(c, sizes(c, 400, 8000), "pod", ns, newAdm)
}

// mutable cluster: namespaces are relabelled between requests, as an administrator would (metadata.generation does not
// change on a label edit; the UID stays)
type relabelNS struct {
	labels map[string]map[string]string
}

func (n *relabelNS) GetNamespace(ctx context.Context, name string) (*corev1.Namespace, error) {
	l, ok := n.labels[name]
	if !ok {
		return nil, fmt.Errorf("not found")
	}
	cp := map[string]string{}
	for k, v := range l {
		cp[k] = v
	}
	return &corev1.Namespace{ObjectMeta: metav1.ObjectMeta{Name: name, UID: types.UID("uid-" + name), Generation: 1, Labels: cp}}, nil
}

// runC01History: ONE long-lived Admission, a history of pod requests interleaved with namespace relabelling; every verdict
// must follow the labels the namespace has at that moment.
func runC01History(c *Ctx) {
	r := NewRng(c.Seed + 101)
	histories := sizes(c, 30, 400)
	for h := 0; h < histories; h++ {
		ns := &relabelNS{labels: map[string]map[string]string{"n0": {}, "n1": {}, "n2": {}}}
		defaults := genDefaults(r)
		adm := &admission.Admission{
			Configuration: &admissionapi.PodSecurityConfiguration{Defaults: defaults},
			Evaluator:     realEvaluator, Metrics: &recorder{}, PodSpecExtractor: admission.DefaultPodSpecExtractor{}, NamespaceGetter: ns, PodLister: &fakeLister{}}
		if err := adm.CompleteConfiguration(); err != nil {
			panic(err)
		}
		for step := 0; step < 40; step++ {
			name := pick(r, []string{"n0", "n1", "n2"})
			if r.Chance(1, 3) {
				ns.labels[name] = genLabels(r)
				c.Tag("history.relabel")
			}
			pc := genPod(r.Fork(), step)
			if catCache == nil {
				catCache = catalogPods()
			}
			if r.Bool() {
				pc = PodCase{Pod: catCache[r.Intn(len(catCache))].Pod.DeepCopy()}
			}
			a := &AdmitCase{Defaults: defaults, Res: "pods", Op: admissionv1.Create, Name: "p", NS: name, User: "u", Obj: ObjSpec{Kind: "pod", Pod: pc.Pod}, NSLabels: ns.labels[name]}
			resp := adm.Validate(context.Background(), a.attributes())
			c.Eval(1)
			pol, _ := effectivePolicy(a)
			want := evalOf(a, pol.Enforce, pc.Pod).Allowed
			if resp.Allowed != want {
				c.Violate(Finding{Desc: fmt.Sprintf("step %d of a request history on one controller: allowed=%v but the namespace's current labels resolve to %s, which says allowed=%v", step, resp.Allowed, pol.Enforce.String(), want),
					Key: "verdict-history", Input: J{"history": h, "step": step, "namespace": name, "labels": ns.labels[name], "pod": pc.Pod}})
			}
			if ann, ok := resp.AuditAnnotations[api.EnforcedPolicyAnnotationKey]; ok && pol.Enforce.Level != api.LevelPrivileged && ann != pol.Enforce.String() {
				c.Violate(Finding{Desc: fmt.Sprintf("step %d: enforce-policy annotation %q, current labels resolve to %q", step, ann, pol.Enforce.String()), Key: "annotation-history", Input: J{"history": h, "step": step}})
			}
		}
	}
}

// ---------------------------------------------------------------- C06

func runC06(c *Ctx) {
	defer c06StructuredNames(c)
	defer c06EmptyNamespaceThroughWebhook(c)
	n := sizes(c, 4000, 80000)
	k := AdmitKnobs{FaultPct: 3, SynPct: 70, SubPct: 10, ExemptHeavy: true}
	extra := c06Oracle(c)
	admitSweep(c, n, k, "allowed ann evalCalls metrics", "allowed ann nEvalCalls", extra, nil)
	// namespace updates that do run the dry run, over populations with exempt-runtime-class members inside controller groups
	kn := AdmitKnobs{Kind: "ns", FaultPct: 0, SynPct: 70, SubPct: 0, ExemptHeavy: true, Pods: func(r *Rng) []*corev1.Pod { return genPopulation(r, r.Intn(13), []string{"alpha", "exrc", "beta"}) }}
	admitSweep(c, n/4, kn, "allowed ann evalCalls metrics", "allowed ann nEvalCalls", extra, func(r *Rng, a *AdmitCase) {
		nsMutate(r, a)
		if !inList("exrc", a.ExRC) && r.Chance(2, 3) {
			a.ExRC = append(a.ExRC, "exrc")
		}
		if r.Chance(1, 2) { // keep the namespace and the user out of the exemption lists so that the dry run is reached
			a.NS, a.User = "ns", "u"
			a.Name = a.NS
			if a.Obj.Kind == "namespace" {
				a.Obj.NSName = a.NS
			}
			if a.Old.Kind == "namespace" {
				a.Old.NSName = a.NS
			}
		}
	})
}

func c06Oracle(c *Ctx) func(a *AdmitCase, g AdmitOut) {
	return func(a *AdmitCase, g AdmitOut) {
		in := a.opJSON()
		if a.Res == "namespaces" {
			if g.AnnExempt != nil {
				c.Violate(Finding{Desc: "namespace request carries an exempt annotation", Key: "exempt-ns-request", Input: in})
			}
			// dry run skips exactly the pods with an exempt runtime class: evaluated names ⊆ non-exempt pods
			exempt := map[string]int{}
			total := map[string]int{}
			for _, p := range a.Pods {
				total[p.Name]++
				if p.Spec.RuntimeClassName != nil && inList(*p.Spec.RuntimeClassName, a.ExRC) {
					exempt[p.Name]++
				}
			}
			calls := map[string]int{}
			for _, cl := range g.EvalCalls {
				calls[cl[strings.LastIndex(cl, "/")+1:]]++
			}
			for nm, k := range calls {
				if k > total[nm]-exempt[nm] {
					c.Violate(Finding{Desc: fmt.Sprintf("dry run evaluated pod %q which has an exempt runtime class", nm), Key: "dryrun-exempt-evaluated", Input: in})
				}
			}
			if g.ListCalls == 1 && !a.ListErr && a.ExpireAfter < 0 && len(a.Pods) < 3000 {
				for nm, t := range total {
					if calls[nm] != t-exempt[nm] {
						c.Violate(Finding{Desc: fmt.Sprintf("dry run evaluated pod %q %d times, expected %d (non-exempt pods of that name)", nm, calls[nm], t-exempt[nm]), Key: "dryrun-skipped", Input: in})
					}
				}
			}
			return
		}
		pods := a.Res == "pods"
		ignored := (pods && ignoredSubs[a.Sub]) || (!pods && a.Sub != "")
		nsMatch, userMatch := inList(a.NS, a.ExNS), inList(a.User, a.ExUsers)
		var rc *string
		if a.Obj.Pod != nil && (a.Obj.Kind == "pod" || (a.Obj.Kind == "controller" && !a.Obj.NoTemplate)) {
			rc = a.Obj.Pod.Spec.RuntimeClassName
		}
		rcMatch := rc != nil && inList(*rc, a.ExRC)
		if g.AnnExempt != nil {
			c.Tag("c06.exempted." + *g.AnnExempt)
			ok := (*g.AnnExempt == "namespace" && nsMatch) || (*g.AnnExempt == "user" && userMatch) || (*g.AnnExempt == "runtimeClass" && rcMatch)
			if !ok {
				c.Violate(Finding{Desc: fmt.Sprintf("request marked exempt by %q but that dimension does not match exactly (ns=%q user=%q rc=%v lists=%v/%v/%v)", *g.AnnExempt, a.NS, a.User, rc, a.ExNS, a.ExUsers, a.ExRC), Key: "exempt-without-match", Input: in})
			}
			if !g.Allowed || len(g.EvalCalls) != 0 {
				c.Violate(Finding{Desc: "exempt request was denied or evaluated", Key: "exempt-evaluated", Input: in})
			}
		}
		if !ignored && (nsMatch || userMatch) {
			if g.AnnExempt == nil || !g.Allowed || len(g.EvalCalls) != 0 {
				c.Violate(Finding{Desc: "request with an exactly matching namespace/user exemption was not exempted", Key: "match-not-exempt", Input: in, Go: g})
			}
		}
		if !nsMatch && !userMatch && !rcMatch && g.AnnExempt != nil {
			c.Violate(Finding{Desc: "no exemption matches but the request is exempt", Key: "exempt-without-match", Input: in})
		}
	}
}

// ---------------------------------------------------------------- C07

func runC07(c *Ctx) {
	n := sizes(c, 4000, 80000)
	k := AdmitKnobs{FaultPct: 60, SynPct: 60, SubPct: 10}
	extra := c07Oracle(c)
	admitSweep(c, n, k, "allowed code ann evalCalls warnings metrics", "allowed ann", extra, nil)
	// namespace updates that run the dry run, cancelled at every position (also while compliant pods are being evaluated)
	kn := AdmitKnobs{Kind: "ns", FaultPct: 10, SynPct: 60, SubPct: 0, Pods: func(r *Rng) []*corev1.Pod { return genPopulation(r, r.Intn(11), []string{"exrc"}) }}
	admitSweep(c, n/4, kn, "allowed code ann evalCalls warnings metrics", "allowed ann", extra, func(r *Rng, a *AdmitCase) {
		nsMutate(r, a)
		if len(a.Pods) > 0 && r.Chance(2, 3) {
			a.ExpireAfter = r.Intn(len(a.Pods) + 1)
		}
	})
	runRealListerFaults(c)
	runC07Getter(c)
}

func c07Oracle(c *Ctx) func(a *AdmitCase, g AdmitOut) {
	return func(a *AdmitCase, g AdmitOut) {
		in := a.opJSON()
		switch {
		case a.Res == "pods":
			if ignoredSubs[a.Sub] || inList(a.NS, a.ExNS) || inList(a.User, a.ExUsers) {
				return
			}
			pol, nerr := effectivePolicy(a)
			if a.NSErr {
				if g.Allowed {
					c.Violate(Finding{Desc: "namespace lookup failed but the pod request was admitted", Key: "fail-open", Input: in})
				}
				return
			}
			if nerr == 0 && pol.FullyPrivileged() {
				return
			}
			objBad := a.Obj.Kind != "pod"
			oldBad := a.Op == admissionv1.Update && a.Old.Kind != "pod"
			if (objBad || oldBad) && g.Allowed {
				c.Violate(Finding{Desc: "object / old object undecodable or of the wrong type, but the pod request was admitted", Key: "fail-open", Input: in, Go: g})
			}
			if !objBad && !oldBad && nerr > 0 {
				evaluated := len(g.EvalCalls) > 0 || g.AnnExempt != nil
				insig := a.Op == admissionv1.Update && !significant(a.Obj.Pod, a.Old.Pod)
				if !insig && !evaluated {
					c.Violate(Finding{Desc: "malformed namespace labels: request neither evaluated nor exempt", Key: "labels-skip", Input: in, Go: g})
				}
				if len(g.EvalCalls) > 0 && !g.AnnError {
					c.Violate(Finding{Desc: "evaluated under malformed labels without an error annotation", Key: "labels-no-error-annotation", Input: in, Go: g})
				}
				if len(g.EvalCalls) > 0 {
					c.Tag("c07.evaluatedUnderBadLabels")
				}
			}
		case a.Res == "namespaces":
			if a.Sub != "" {
				return
			}
			if a.Obj.Kind != "namespace" {
				if g.Allowed {
					c.Violate(Finding{Desc: "undecodable namespace body admitted", Key: "ns-fail-open", Input: in})
				}
				return
			}
			if a.Op == admissionv1.Update && a.Old.Kind != "namespace" {
				if g.Allowed {
					c.Violate(Finding{Desc: "undecodable old namespace body admitted", Key: "ns-fail-open", Input: in})
				}
				return
			}
			if g.ListCalls > 0 && !g.Allowed {
				c.Violate(Finding{Desc: "namespace update blocked after the dry run started", Key: "ns-blocked", Input: in})
			}
			if g.ListCalls > 0 && a.ListErr && (len(g.Warnings) != 1 || !strings.Contains(g.Warnings[0], "failed to list pods")) {
				c.Violate(Finding{Desc: "pod listing failed but is not reported as a warning", Key: "ns-list-warning", Input: in, Go: g})
			}
			if g.ListCalls == 1 && !a.ListErr && a.ExpireAfter >= 0 && len(g.EvalCalls) > a.ExpireAfter {
				// the request was cancelled from inside evaluator call number ExpireAfter (0-based)
				c.Tag("c07.cancelledDuringDryRun")
				if len(g.EvalCalls) > a.ExpireAfter+1 {
					c.Violate(Finding{Desc: fmt.Sprintf("the request was cancelled during evaluation %d of the dry run, but the dry run went on to evaluate %d pods (the update is held up)", a.ExpireAfter+1, len(g.EvalCalls)),
						Key: "ns-cancel-ignored", Input: in, Go: g})
				}
				evaluable := 0
				for _, p := range a.Pods {
					if p.Spec.RuntimeClassName == nil || !inList(*p.Spec.RuntimeClassName, a.ExRC) {
						evaluable++
					}
				}
				reported := false
				for _, w := range g.Warnings {
					reported = reported || strings.Contains(w, "only checked against the first")
				}
				if a.ExpireAfter+1 < evaluable && evaluable <= 3000 && !reported {
					c.Violate(Finding{Desc: fmt.Sprintf("the dry run was cancelled after %d of %d pods but no warning says so", a.ExpireAfter+1, evaluable), Key: "ns-cancel-not-reported", Input: in, Go: g})
				}
			}
		default:
			if !g.Allowed {
				c.Violate(Finding{Desc: "pod-controller request denied", Key: "controller-denied", Input: in})
			}
			if a.Sub != "" || inList(a.NS, a.ExNS) || inList(a.User, a.ExUsers) {
				return
			}
			if a.NSErr && !g.AnnError {
				c.Violate(Finding{Desc: "namespace lookup failed for a controller request but no error annotation", Key: "controller-no-error-annotation", Input: in})
			}
			if !a.NSErr {
				pol, nerr := effectivePolicy(a)
				quiet := nerr == 0 && pol.Warn.Level == api.LevelPrivileged && pol.Audit.Level == api.LevelPrivileged
				if !quiet && a.Obj.Kind != "controller" && a.Obj.Kind != "pod" && !g.AnnError {
					c.Violate(Finding{Desc: "controller object undecodable / of unknown type but no error annotation", Key: "controller-no-error-annotation", Input: in, Go: g})
				}
			}
		}
	}
}

// ---------------------------------------------------------------- C08

func runC08(c *Ctx) {
	defer c08RealNamespaceGetters(c)
	defer c08FutureVersions(c)
	// end to end: mixed reviews (pods and controllers, with and without subresources, many in flight, one after another on
	// kept-alive connections) through the webhook handler; warnings and audit annotations must be the library's
	{
		ns, newAdm := webhookFixture()
		webhookMixed(c, sizes(c, 480, 8000), "", ns, newAdm)
	}
	n := sizes(c, 4000, 80000)
	k := AdmitKnobs{FaultPct: 0, SynPct: 50, SubPct: 5}
	r2 := NewRng(c.Seed + 77)
	c08Oracle = func(a *AdmitCase, g AdmitOut) {
		c08Check(c, NewRng(c.Seed+78), a, g)
		if len(a.Name)%4 == 0 {
			plainEvaluatorAgrees(c, a, g)
		}
	}
	// a second, directed sweep when the first is done (see the end of this function): pods that MEET restricted and VIOLATE
	// baseline at the same version — os=windows pods from v1.25 on, with a capability or seccomp setting the restricted
	// revisions exempt and the baseline controls (overridden at restricted) do not — under every assignment of restricted /
	// baseline to the three modes at one version: a result for one level says nothing about another level
	defer func() {
		admitSweep(c, sizes(c, 240, 4000), AdmitKnobs{FaultPct: 0, SynPct: 0, SubPct: 0}, "allowed warnings audit evalCalls", "allowed nwarnings auditPresence", c08Oracle, func(r *Rng, a *AdmitCase) {
			if a.Obj.Pod == nil {
				return
			}
			p := a.Obj.Pod
			p.Spec.OS = &corev1.PodOS{Name: corev1.Windows}
			p.Spec.SecurityContext = &corev1.PodSecurityContext{RunAsNonRoot: bp(true)}
			p.Spec.HostNetwork, p.Spec.HostPID, p.Spec.HostIPC, p.Spec.Volumes, p.Annotations, p.Spec.HostUsers = false, false, false, nil, nil, nil
			p.Spec.InitContainers, p.Spec.EphemeralContainers = nil, nil
			p.Spec.Containers = []corev1.Container{{Name: "w", Image: "img", SecurityContext: &corev1.SecurityContext{}}}
			switch r.Intn(3) {
			case 0:
				p.Spec.Containers[0].SecurityContext.Capabilities = &corev1.Capabilities{Add: []corev1.Capability{"SYS_ADMIN"}}
			case 1:
				p.Spec.Containers[0].SecurityContext.SeccompProfile = &corev1.SeccompProfile{Type: "Unconfined"}
			default:
				p.Spec.Containers[0].SecurityContext.Capabilities = &corev1.Capabilities{Add: []corev1.Capability{"NET_RAW"}, Drop: []corev1.Capability{"ALL"}}
			}
			a.Old, a.Op = ObjSpec{}, admissionv1.Create
			a.ExNS, a.ExUsers, a.ExRC = nil, nil, nil
			ver := pick(r, []string{"latest", "v1.25", "v1.30", "v1.24"})
			lv := [][3]string{{"restricted", "baseline", "baseline"}, {"restricted", "restricted", "baseline"}, {"restricted", "baseline", "restricted"}, {"privileged", "restricted", "baseline"}, {"baseline", "restricted", "baseline"}}[r.Intn(5)]
			a.NSLabels = map[string]string{api.EnforceLevelLabel: lv[0], api.AuditLevelLabel: lv[1], api.WarnLevelLabel: lv[2], api.EnforceVersionLabel: ver, api.AuditVersionLabel: ver, api.WarnVersionLabel: ver}
			a.Tags = append(a.Tags, "c08.windowsMeetsRestrictedViolatesBaseline")
		})
	}()
	admitSweep(c, n, k, "allowed warnings audit evalCalls", "allowed nwarnings auditPresence", func(a *AdmitCase, g AdmitOut) {
		c08Check(c, r2, a, g)
	}, nil)
}

// c08Oracle: the property's own words on one answer (used by the directed sweep)
var c08Oracle func(a *AdmitCase, g AdmitOut)

func c08Check(c *Ctx, r2 *Rng, a *AdmitCase, g AdmitOut) {
	{
		if a.Res == "namespaces" || a.Res == "configmaps" {
			return
		}
		in := a.opJSON()
		pods := a.Res == "pods"
		if (pods && ignoredSubs[a.Sub]) || (!pods && a.Sub != "") || inList(a.NS, a.ExNS) || inList(a.User, a.ExUsers) || a.NSErr {
			return
		}
		var p *corev1.Pod
		if a.Obj.Kind == "pod" || (a.Obj.Kind == "controller" && !a.Obj.NoTemplate) {
			p = a.Obj.Pod
		}
		if p == nil || (p.Spec.RuntimeClassName != nil && inList(*p.Spec.RuntimeClassName, a.ExRC)) {
			return
		}
		if pods && a.Op == admissionv1.Update && (a.Old.Kind != "pod" || !significant(p, a.Old.Pod)) {
			return
		}
		pol, nerr := effectivePolicy(a)
		if pods && nerr == 0 && pol.FullyPrivileged() {
			return
		}
		if !pods && nerr == 0 && pol.Warn.Level == api.LevelPrivileged && pol.Audit.Level == api.LevelPrivileged {
			return
		}
		c.Tag("c08.evaluated")
		if pol.Enforce == pol.Audit || pol.Enforce == pol.Warn || pol.Audit == pol.Warn {
			c.Tag("c08.sharedEvaluation")
		}
		wantWarn := g.Allowed && !evalOf(a, pol.Warn, p).Allowed
		wantAudit := !evalOf(a, pol.Audit, p).Allowed
		if (len(g.Warnings) > 0) != wantWarn {
			c.Violate(Finding{Desc: fmt.Sprintf("warning present=%v but (allowed and violates warn policy %s)=%v", len(g.Warnings) > 0, pol.Warn.String(), wantWarn), Key: "warn-iff", Input: in, Go: g})
		}
		if wantWarn && len(g.Warnings) > 0 && !strings.Contains(g.Warnings[0], `"`+pol.Warn.String()+`"`) {
			c.Violate(Finding{Desc: "warning does not name the warn policy " + pol.Warn.String() + ": " + g.Warnings[0], Key: "warn-names", Input: in})
		}
		if (g.AnnAudit != nil) != wantAudit {
			c.Violate(Finding{Desc: fmt.Sprintf("audit-violations present=%v but violates audit policy %s=%v", g.AnnAudit != nil, pol.Audit.String(), wantAudit), Key: "audit-iff", Input: in, Go: g})
		}
		if wantAudit && g.AnnAudit != nil && !strings.Contains(*g.AnnAudit, `"`+pol.Audit.String()+`"`) {
			c.Violate(Finding{Desc: "audit annotation does not name the audit policy " + pol.Audit.String(), Key: "audit-names", Input: in})
		}
		// non-blocking: change only audit / warn labels, the verdict must not move
		b := *a
		b.NSLabels = map[string]string{}
		for kk, v := range a.NSLabels {
			b.NSLabels[kk] = v
		}
		for _, kk := range []string{api.AuditLevelLabel, api.WarnLevelLabel} {
			b.NSLabels[kk] = pick(r2, validLevels)
		}
		for _, kk := range []string{api.AuditVersionLabel, api.WarnVersionLabel} {
			b.NSLabels[kk] = pick(r2, validVersions)
		}
		if _, hasE := a.NSLabels[api.EnforceLevelLabel]; !hasE {
			// keep enforce exactly as resolved (warn-follows-enforce does not touch enforce)
		}
		g2 := b.runGo()
		c.Eval(1)
		if g2.Allowed != g.Allowed {
			c.Violate(Finding{Desc: "changing only the audit/warn labels changed the verdict", Key: "blocking", Input: J{"a": in, "b": b.opJSON()}})
		}
	}
}

// ---------------------------------------------------------------- C09

// c09Resources: the extractor's own account of which resources carry a pod template (what a host admission plugin registers
// for) must be the eight workload kinds and pods, must agree between HasPodSpec and PodSpecResources, and every resource it
// names must be one whose objects ExtractPodSpec finds the template in — otherwise such a controller is "looked at" without
// its template ever being judged.
func c09Resources(c *Ctx) {
	ex := admission.DefaultPodSpecExtractor{}
	want := map[schema.GroupResource]bool{{Resource: "pods"}: true}
	for _, k := range controllerKinds {
		want[schema.GroupResource{Group: groupOf(k), Resource: k}] = true
	}
	listed := map[schema.GroupResource]bool{}
	for _, gr := range ex.PodSpecResources() {
		if listed[gr] {
			c.Violate(Finding{Desc: "PodSpecResources lists a resource twice: " + gr.String(), Key: "resources-duplicate", Input: J{"resource": gr.String()}})
		}
		listed[gr] = true
	}
	probe := []schema.GroupResource{{Resource: "namespaces"}, {Resource: "configmaps"}, {Group: "extensions", Resource: "deployments"}, {Group: "", Resource: "deployments"},
		{Group: "apps", Resource: "pods"}, {Group: "batch", Resource: "deployments"}, {Group: "apps", Resource: "jobs"}, {Group: "apps", Resource: "Deployments"}, {Resource: "pods/status"}, {}}
	for gr := range want {
		probe = append(probe, gr)
	}
	for gr := range listed {
		probe = append(probe, gr)
	}
	for _, gr := range probe {
		c.Eval(1)
		if has := ex.HasPodSpec(gr); has != want[gr] || listed[gr] != want[gr] {
			c.Violate(Finding{Desc: fmt.Sprintf("resource %q: HasPodSpec=%v, listed by PodSpecResources=%v, but it %s one of pods and the eight workload kinds", gr.String(), has, listed[gr], map[bool]string{true: "is", false: "is not"}[want[gr]]),
				Key: "resources-table", Input: J{"group": gr.Group, "resource": gr.Resource}})
		}
	}
	p := &corev1.Pod{ObjectMeta: metav1.ObjectMeta{Name: "t", Labels: map[string]string{"a": "b"}}, Spec: corev1.PodSpec{HostNetwork: true, Containers: []corev1.Container{{Name: "c", Image: "i"}}}}
	for _, k := range controllerKinds {
		c.Eval(1)
		m, s, err := ex.ExtractPodSpec(wrapController(k, p, false))
		if err != nil || m == nil || s == nil || !reflect.DeepEqual(*m, p.ObjectMeta) || !reflect.DeepEqual(*s, p.Spec) {
			c.Violate(Finding{Desc: fmt.Sprintf("ExtractPodSpec does not return the template of a %s object (err=%v)", k, err), Key: "extract-template", Input: J{"resource": k}})
		}
	}
	c.Tag("c09.resourcesTable")
}

func runC09(c *Ctx) {
	c09Resources(c)
	// the same, end to end: controller reviews as an API server sends them (also one newer than this build: fields it does
	// not know) through the webhook handler; the answer must carry what the library reports for the typed object
	ns, newAdm := webhookFixture()
	webhookMixed(c, sizes(c, 320, 6000), "ctl", ns, newAdm)
	n := sizes(c, 3000, 60000)
	k := AdmitKnobs{Kind: "ctl", FaultPct: 5, SynPct: 40, SubPct: 10}
	oracle := func(a *AdmitCase, g AdmitOut) {
		in := a.opJSON()
		if !g.Allowed {
			c.Violate(Finding{Desc: "pod-controller request denied", Key: "controller-denied", Input: in, Go: g})
		}
		if a.Sub != "" && !plainAllowed(g) {
			c.Violate(Finding{Desc: "controller subresource request produced findings", Key: "subresource-findings", Input: in, Go: g})
		}
		if a.Obj.Kind != "controller" || a.NSErr || a.Sub != "" {
			return
		}
		if a.Obj.NoTemplate && !(g.AnnExempt != nil) && (len(g.Warnings) > 0 || g.AnnAudit != nil) {
			c.Violate(Finding{Desc: "object without a template produced findings", Key: "no-template-findings", Input: in})
		}
		pol, nerr := effectivePolicy(a)
		if nerr == 0 && pol.Warn.Level == api.LevelPrivileged && pol.Audit.Level == api.LevelPrivileged && (len(g.Warnings) > 0 || g.AnnAudit != nil) {
			c.Violate(Finding{Desc: "warn and audit both privileged but the controller request produced findings", Key: "privileged-findings", Input: in})
		}
		for _, cl := range g.EvalCalls {
			lv := cl[:strings.LastIndex(cl, "/")]
			if lv == pol.Enforce.String() && lv != pol.Audit.String() && lv != pol.Warn.String() {
				c.Violate(Finding{Desc: "enforce policy applied to a controller: " + cl, Key: "enforce-applied", Input: in})
			}
		}
		if a.Obj.NoTemplate || inList(a.NS, a.ExNS) || inList(a.User, a.ExUsers) {
			return
		}
		// the equivalent bare pod, in a namespace with the same policy except enforce = privileged
		b := *a
		b.Res = "pods"
		b.Op = admissionv1.Create
		b.Obj = ObjSpec{Kind: "pod", Pod: a.Obj.Pod}
		b.Old = ObjSpec{}
		b.NSLabels = map[string]string{}
		for kk, v := range a.NSLabels {
			b.NSLabels[kk] = v
		}
		b.NSLabels[api.EnforceLevelLabel] = "privileged"
		delete(b.NSLabels, api.EnforceVersionLabel)
		// pin warn so that "warn follows enforce" cannot differ between the two namespaces
		b.NSLabels[api.WarnLevelLabel] = string(pol.Warn.Level)
		b.NSLabels[api.WarnVersionLabel] = pol.Warn.Version.String()
		a2 := *a
		a2.NSLabels = map[string]string{}
		for kk, v := range a.NSLabels {
			a2.NSLabels[kk] = v
		}
		a2.NSLabels[api.WarnLevelLabel] = string(pol.Warn.Level)
		a2.NSLabels[api.WarnVersionLabel] = pol.Warn.Version.String()
		ga := a2.runGo()
		gb := b.runGo()
		c.Eval(2)
		if nerr == 0 && (canon(ga.Warnings) != canon(gb.Warnings) || sptr(ga.AnnAudit) != sptr(gb.AnnAudit)) {
			c.Violate(Finding{Desc: fmt.Sprintf("controller %s reports different findings than the equivalent bare pod: warnings %q vs %q, audit %s vs %s", a.Res, ga.Warnings, gb.Warnings, sptr(ga.AnnAudit), sptr(gb.AnnAudit)), Key: "findings-differ", Input: J{"controller": a2.opJSON(), "pod": b.opJSON()}})
		}
		c.Tag("c09.comparedWithBarePod")
	}
	admitSweep(c, n, k, "allowed code warnings audit ann evalCalls metrics", "allowed code nwarnings auditPresence", oracle, nil)
	// directed: templates of an unusual SHAPE — no containers at all (neither regular nor init nor ephemeral) while the violation
	// sits outside the container lists (host namespaces, a hostPath volume, pod-level settings, annotations); a template is a
	// template however little it contains
	admitSweep(c, sizes(c, 200, 3000), AdmitKnobs{Kind: "ctl", FaultPct: 0, SynPct: 0, SubPct: 0}, "allowed code warnings audit ann evalCalls metrics", "allowed code nwarnings auditPresence", oracle, func(r *Rng, a *AdmitCase) {
		if a.Obj.Kind != "controller" || a.Obj.Pod == nil || a.Obj.NoTemplate {
			return
		}
		p := a.Obj.Pod
		p.Spec.Containers, p.Spec.InitContainers, p.Spec.EphemeralContainers = nil, nil, nil
		switch r.Intn(4) {
		case 0:
			p.Spec.HostNetwork = true
		case 1:
			p.Spec.Volumes = []corev1.Volume{{Name: "host", VolumeSource: corev1.VolumeSource{HostPath: &corev1.HostPathVolumeSource{Path: "/"}}}}
		case 2:
			p.Spec.SecurityContext = &corev1.PodSecurityContext{Sysctls: []corev1.Sysctl{{Name: "kernel.msgmax", Value: "1"}}}
		default:
			p.Annotations = map[string]string{"seccomp.security.alpha.kubernetes.io/pod": "unconfined", "container.apparmor.security.beta.kubernetes.io/x": "unconfined"}
		}
		if a.Old.Kind == "controller" && a.Old.Pod != nil {
			a.Old.Pod = p.DeepCopy()
		}
		a.Tags = append(a.Tags, "c09.templateWithoutContainers")
	})
}

// ---------------------------------------------------------------- C10

// c10Sequences: significance must be judged from the two pods of THIS request. Directed sequences in one process: an update
// that is significant because of its ephemeral containers (the stored pod already has one, the submitted pod has one more, or
// another image), followed by an update of ANOTHER pod that adds an ephemeral container with the very name and image the
// first stored pod had — and the same with init / regular containers. The second update adds a container: it must be
// evaluated like a create of the submitted pod (here: denied, the pod is privileged in a namespace enforcing restricted).
func c10Sequences(c *Ctx) {
	priv := true
	mkPod := func(name string, eph ...[2]string) *corev1.Pod {
		p := &corev1.Pod{ObjectMeta: metav1.ObjectMeta{Name: name, Namespace: "team"}, Spec: corev1.PodSpec{Containers: []corev1.Container{{Name: "main", Image: "app:1", SecurityContext: &corev1.SecurityContext{Privileged: &priv}}}}}
		for _, e := range eph {
			p.Spec.EphemeralContainers = append(p.Spec.EphemeralContainers, corev1.EphemeralContainer{EphemeralContainerCommon: corev1.EphemeralContainerCommon{Name: e[0], Image: e[1]}})
		}
		return p
	}
	mk := func(newP, oldP *corev1.Pod, op admissionv1.Operation) *AdmitCase {
		a := &AdmitCase{Res: "pods", Op: op, Name: newP.Name, NS: "team", User: "u", ExpireAfter: -1,
			Defaults: admissionapi.PodSecurityDefaults{Enforce: "privileged", EnforceVersion: "latest", Audit: "privileged", AuditVersion: "latest", Warn: "privileged", WarnVersion: "latest"},
			NSLabels: map[string]string{api.EnforceLevelLabel: "restricted"}, Obj: ObjSpec{Kind: "pod", Pod: newP}}
		if oldP != nil {
			a.Old = ObjSpec{Kind: "pod", Pod: oldP}
		}
		return a
	}
	for round := 0; round < 12; round++ {
		n, img := fmt.Sprintf("debugger-%d", round%3), fmt.Sprintf("busybox:%d", round%2)
		var first *AdmitCase
		switch round % 3 {
		case 0: // the stored pod has the ephemeral container; the submitted one has a second one
			first = mk(mkPod("first", [2]string{n, img}, [2]string{"other", "x"}), mkPod("first", [2]string{n, img}), admissionv1.Update)
		case 1: // the stored pod has it; the submitted one has it with another image
			first = mk(mkPod("first", [2]string{n, img + "-new"}), mkPod("first", [2]string{n, img}), admissionv1.Update)
		default: // two stored ones, one replaced
			first = mk(mkPod("first", [2]string{n, img}, [2]string{"other", "y"}), mkPod("first", [2]string{n, img}, [2]string{"gone", "y"}), admissionv1.Update)
		}
		first.runGo()
		second := mk(mkPod("second", [2]string{n, img}), mkPod("second"), admissionv1.Update)
		got := second.runGo()
		want := mk(mkPod("second", [2]string{n, img}), nil, admissionv1.Create).runGo()
		c.Eval(3)
		c.Tag("c10.sequence")
		if d := diffAdmit(got, want, "allowed code message ann evalCalls"); len(d) > 0 {
			c.Violate(Finding{Desc: "an update that adds an ephemeral container is not evaluated like a create when it follows an update of another pod whose stored pod had an ephemeral container of that name and image: " + strings.Join(d, "; "),
				Key: "significant-after-other-update", Input: J{"firstRequest": first.opJSON()["req"], "secondRequest": second.opJSON()["req"]}, Go: J{"second": got, "createOfTheSamePod": want}})
		}
	}
}

func runC10(c *Ctx) {
	defer c10Sequences(c)
	defer c10FaultedUpdates(c)
	n := sizes(c, 4000, 80000)
	k := AdmitKnobs{Kind: "pod", FaultPct: 0, SynPct: 50, SubPct: 45}
	admitSweep(c, n, k, "allowed code warnings audit ann evalCalls metrics", "allowed nEvalCalls", func(a *AdmitCase, g AdmitOut) {
		in := a.opJSON()
		if a.Obj.Kind != "pod" || a.NSErr {
			return
		}
		if a.Op == admissionv1.Update && a.Old.Kind == "pod" && !ignoredSubs[a.Sub] {
			sig := significant(a.Obj.Pod, a.Old.Pod)
			if !sig {
				c.Tag("c10.insignificant")
				if !g.Allowed {
					c.Violate(Finding{Desc: "update that leaves containers and images unchanged was denied", Key: "insignificant-denied", Input: in, Go: g})
				}
			} else {
				c.Tag("c10.significant")
				b := *a
				b.Op = admissionv1.Create
				b.Old = ObjSpec{}
				gb := b.runGo()
				c.Eval(1)
				if d := diffAdmit(g, gb, "allowed code message warnings audit ann evalCalls"); len(d) > 0 {
					c.Violate(Finding{Desc: "significant update not evaluated like a create: " + strings.Join(d, "; "), Key: "significant-not-create", Input: in})
				}
			}
		}
		if a.Sub != "" && !ignoredSubs[a.Sub] {
			b := *a
			b.Sub = ""
			gb := b.runGo()
			c.Eval(1)
			c.Tag("c10.subresourceCompared")
			if d := diffAdmit(g, gb, "allowed code message warnings audit ann evalCalls"); len(d) > 0 {
				c.Violate(Finding{Desc: fmt.Sprintf("subresource %q not evaluated like the main resource: %s", a.Sub, strings.Join(d, "; ")), Key: "subresource-differs", Input: in})
			}
		}
	}, nil)
}

// ---------------------------------------------------------------- C11 / C12

func popGen(maxN int, big bool) func(r *Rng) []*corev1.Pod {
	return func(r *Rng) []*corev1.Pod {
		n := r.Intn(maxN + 1)
		if big && r.Chance(1, 12) {
			n = pick(r, []int{2999, 3000, 3001, 3100})
		}
		var ps []*corev1.Pod
		exrc := []string{"alpha", "exrc"}
		if r.Bool() {
			return genPopulation(r, n, exrc)
		}
		for j := 0; j < n; j++ {
			ps = append(ps, genPopPod(r, j, exrc))
		}
		return ps
	}
}

func nsMutate(r *Rng, a *AdmitCase) {
	// make the dry run likely: valid, different enforce labels
	if r.Chance(3, 5) {
		a.Op = admissionv1.Update
		a.Sub = ""
		nl := map[string]string{api.EnforceLevelLabel: pick(r, []string{"baseline", "restricted"})}
		if r.Bool() {
			nl[api.EnforceVersionLabel] = pick(r, validVersions[:8])
		}
		ol := map[string]string{}
		if r.Bool() {
			ol[api.EnforceLevelLabel] = pick(r, validLevels)
		}
		if r.Bool() {
			ol[api.EnforceVersionLabel] = pick(r, validVersions[:8])
		}
		if r.Chance(1, 5) { // a malformed label the update does not touch (byte for byte the same on both sides), next to the change of enforce
			k := pick(r, []string{api.AuditLevelLabel, api.AuditVersionLabel, api.WarnLevelLabel, api.WarnVersionLabel, api.EnforceVersionLabel})
			v := pick(r, []string{"1.24", "Restricted", "next", "", "v1.x"})
			nl[k], ol[k] = v, v
			a.Tags = append(a.Tags, "ns.sameMalformedLabelBothSides")
		}
		if a.Obj.Kind == "namespace" {
			a.Obj.Labels = nl
		}
		if a.Old.Kind == "namespace" || a.Old.Kind == "" {
			a.Old = ObjSpec{Kind: "namespace", NSName: a.Obj.NSName, Labels: ol}
		}
	}
}

func runC11(c *Ctx) {
	runRealListerHistory(c)
	n := sizes(c, 2500, 40000)
	k := AdmitKnobs{Kind: "ns", FaultPct: 8, SynPct: 70, SubPct: 3, Pods: popGen(14, c.Thorough)}
	r2 := NewRng(c.Seed + 5)
	admitSweep(c, n, k, "allowed code causes warnings evalCalls listCalls ann", "allowed code causes warnings listCalls", func(a *AdmitCase, g AdmitOut) {
		in := a.opJSON()
		if a.Sub != "" || a.Obj.Kind != "namespace" {
			return
		}
		d := defaultsPolicy(a.Defaults)
		newP, newE := api.PolicyToEvaluate(a.Obj.Labels, d)
		invalid := false
		switch a.Op {
		case admissionv1.Create:
			invalid = len(newE) > 0
		case admissionv1.Update:
			if a.Old.Kind != "namespace" {
				return
			}
			_, oldE := api.PolicyToEvaluate(a.Old.Labels, d)
			invalid = len(newE) > 0 && (len(oldE) == 0 || newE.ToAggregate().Error() != oldE.ToAggregate().Error())
		default:
			return
		}
		if invalid != !g.Allowed {
			c.Violate(Finding{Desc: fmt.Sprintf("namespace %s allowed=%v but labels invalid(new vs old)=%v", a.Op, g.Allowed, invalid), Key: "ns-validity", Input: in, Go: g})
		}
		if !g.Allowed && (g.Code != 422 || g.Reason != "Invalid") {
			c.Violate(Finding{Desc: fmt.Sprintf("namespace rejection is not 422 Invalid: %d %s", g.Code, g.Reason), Key: "ns-status", Input: in})
		}
		if a.Op != admissionv1.Update || invalid {
			return
		}
		oldP, _ := api.PolicyToEvaluate(a.Old.Labels, d)
		mustRun := newP.Enforce != oldP.Enforce && newP.Enforce.Level != api.LevelPrivileged &&
			!(newP.Enforce.Version == oldP.Enforce.Version && api.CompareLevels(newP.Enforce.Level, oldP.Enforce.Level) <= 0) && !inList(a.NS, a.ExNS)
		if mustRun != (g.ListCalls == 1) {
			c.Violate(Finding{Desc: fmt.Sprintf("dry run ran=%v, the rule says %v (old %s -> new %s)", g.ListCalls == 1, mustRun, oldP.Enforce.String(), newP.Enforce.String()), Key: "dryrun-when", Input: in})
		}
		if !mustRun {
			// whenever the dry run is skipped for a non-exempt namespace no existing pod can newly violate (real evaluator, API-valid pods)
			if !inList(a.NS, a.ExNS) && newP.Enforce != oldP.Enforce {
				for _, p := range a.Pods {
					if !apiValid(&p.Spec) {
						continue
					}
					o := policy.AggregateCheckResults(realEvaluator.EvaluatePod(oldP.Enforce, &p.ObjectMeta, &p.Spec)).Allowed
					nw := policy.AggregateCheckResults(realEvaluator.EvaluatePod(newP.Enforce, &p.ObjectMeta, &p.Spec)).Allowed
					c.Eval(1)
					if o && !nw {
						c.Violate(Finding{Desc: fmt.Sprintf("dry run skipped (%s -> %s) but pod %s newly violates", oldP.Enforce.String(), newP.Enforce.String(), p.Name), Key: "skip-unsound", Input: in})
					}
				}
			}
			return
		}
		c.Tag("c11.dryRun")
		if a.ListErr || a.ExpireAfter >= 0 {
			return
		}
		// reference grouping, written from the property statement
		want := referenceWarnings(a, newP.Enforce, len(a.Pods)+1)
		if canon(want) != canon(g.Warnings) {
			c.Violate(Finding{Desc: fmt.Sprintf("dry-run warnings %q, reference %q", g.Warnings, want), Key: "dryrun-warnings", Input: in})
		}
		// order independence: permute the listing
		b := *a
		b.Pods = make([]*corev1.Pod, len(a.Pods))
		for i, j := range r2.Perm(len(a.Pods)) {
			b.Pods[i] = a.Pods[j]
		}
		gb := b.runGo()
		c.Eval(1)
		if len(a.Pods) <= 3000 && canon(gb.Warnings) != canon(g.Warnings) {
			c.Violate(Finding{Desc: "dry-run warnings depend on the listing order", Key: "order-dependent", Input: J{"a": in, "b": b.opJSON()}})
		}
	}, nsMutate)
}

// referenceWarnings: the warnings the property describes for the first `checked` prioritised pods.
func referenceWarnings(a *AdmitCase, lv api.LevelVersion, _ int) []string {
	var first, rest []*corev1.Pod
	seen := map[string]bool{}
	for _, p := range a.Pods {
		if p.Spec.RuntimeClassName != nil && inList(*p.Spec.RuntimeClassName, a.ExRC) {
			continue
		}
		owner := ""
		for _, o := range p.OwnerReferences {
			if o.Controller != nil && *o.Controller {
				owner = string(o.UID)
				break
			}
		}
		hasCtl := false
		for _, o := range p.OwnerReferences {
			if o.Controller != nil && *o.Controller {
				hasCtl = true
			}
		}
		if !hasCtl {
			first = append(first, p)
		} else if seen[owner] {
			rest = append(rest, p)
		} else {
			seen[owner] = true
			first = append(first, p)
		}
	}
	prio := append(first, rest...)
	total := len(prio)
	checked := total
	if checked > 3000 {
		checked = 3000
	}
	if a.ExpireAfter >= 0 && a.ExpireAfter+1 < checked {
		checked = a.ExpireAfter + 1
	}
	type grp struct {
		first string
		n     int
	}
	groups := map[string]*grp{}
	for _, p := range prio[:checked] {
		r := evalOf(a, lv, p)
		if r.Allowed {
			continue
		}
		w := r.ForbiddenReason()
		g := groups[w]
		if g == nil {
			groups[w] = &grp{first: p.Name, n: 1}
		} else {
			g.n++
			if p.Name < g.first {
				g.first = p.Name
			}
		}
	}
	out := []string{}
	if checked < total {
		out = append(out, fmt.Sprintf("new PodSecurity enforce level only checked against the first %d of %d existing pods", checked, total))
	}
	if len(groups) > 0 {
		out = append(out, fmt.Sprintf("existing pods in namespace %q violate the new PodSecurity enforce level %q", a.Obj.NSName, lv.String()))
	}
	var lines []string
	for w, g := range groups {
		switch g.n {
		case 1:
			lines = append(lines, fmt.Sprintf("%s: %s", g.first, w))
		case 2:
			lines = append(lines, fmt.Sprintf("%s (and 1 other pod): %s", g.first, w))
		default:
			lines = append(lines, fmt.Sprintf("%s (and %d other pods): %s", g.first, g.n-1, w))
		}
	}
	sortStrings(lines)
	return append(out, lines...)
}

func sortStrings(s []string) {
	for i := 1; i < len(s); i++ {
		for j := i; j > 0 && s[j] < s[j-1]; j-- {
			s[j], s[j-1] = s[j-1], s[j]
		}
	}
}

func runC12(c *Ctx) {
	runC12Webhook(c)
	runC12ListTime(c)
	c12OverlappingDryRuns(c)
	runRealListerHistory(c)
	n := sizes(c, 1500, 20000)
	k := AdmitKnobs{Kind: "ns", FaultPct: 0, SynPct: 85, SubPct: 0, Pods: popGen(12, true)}
	admitSweep(c, n, k, "allowed warnings evalCalls listCalls timeout", "allowed warnings nEvalCalls listCalls timeout", func(a *AdmitCase, g AdmitOut) {
		in := a.opJSON()
		if g.ListCalls != 1 || a.Obj.Kind != "namespace" || a.ListErr {
			return
		}
		c.Tag("c12.dryRun")
		if len(g.EvalCalls) > 3000 {
			c.Violate(Finding{Desc: fmt.Sprintf("dry run evaluated %d pods", len(g.EvalCalls)), Key: "cap", Input: in})
		}
		if len(a.Pods) >= 2999 {
			c.Tag("c12.capRegion")
		}
		if !g.HadDeadline {
			c.Violate(Finding{Desc: "pod listing called without a deadline", Key: "no-deadline", Input: in})
		} else {
			lim := time.Second
			if a.Remaining != 0 && a.Remaining/2 < lim {
				lim = a.Remaining / 2
			}
			if time.Duration(g.ListTimeout) > lim+5*time.Millisecond {
				c.Violate(Finding{Desc: fmt.Sprintf("dry-run deadline %v exceeds min(1s, remaining/2)=%v", time.Duration(g.ListTimeout), lim), Key: "timeout", Input: in})
			}
		}
		d := defaultsPolicy(a.Defaults)
		newP, _ := api.PolicyToEvaluate(a.Obj.Labels, d)
		want := referenceWarnings(a, newP.Enforce, 0)
		if a.ExpireAfter >= 0 {
			c.Tag("c12.expiry")
		}
		if canon(want) != canon(g.Warnings) {
			c.Violate(Finding{Desc: fmt.Sprintf("dry-run warnings %q, reference (cut at the same pod) %q", g.Warnings, want), Key: "cutoff-warnings", Input: in})
		}
	}, func(r *Rng, a *AdmitCase) {
		nsMutate(r, a)
		a.ListErr = false
		if len(a.Pods) > 0 && r.Chance(1, 2) {
			a.ExpireAfter = r.Intn(len(a.Pods) + 2)
			if len(a.Pods) > 2000 {
				a.ExpireAfter = pick(r, []int{0, 1, 1500, 2998, 2999, 3000, 3001})
			}
		}
	})
}

// ---------------------------------------------------------------- C18 (admission part)

func runC18(c *Ctx) {
	// counted when and only when REPORTED: through the webhook handler (the last place where what is reported is decided), for
	// the classes of user a control plane really has — the answer must carry every warning the library decided on
	defer func() {
		saved := mixedUsers
		mixedUsers = []string{"system:kube-controller-manager", "system:serviceaccount:kube-system:replicaset-controller", "system:node:node-1", "system:serviceaccount:team:builder", "system:admin"}
		ns, newAdm := webhookFixture()
		webhookMixed(c, sizes(c, 360, 6000), "", ns, newAdm)
		mixedUsers = saved
	}()
	n := sizes(c, 4000, 80000)
	k := AdmitKnobs{FaultPct: 15, SynPct: 60, SubPct: 12}
	admitSweep(c, n, k, "allowed ann audit metrics nwarnings", "metrics", func(a *AdmitCase, g AdmitOut) {
		in := a.opJSON()
		cnt := map[string]int{}
		for _, m := range g.Metrics {
			cnt[strings.Join(strings.Split(m, "/")[:1], "")]++
			if strings.HasSuffix(m, "/enforce") {
				cnt["enforce"]++
				dec := strings.Split(m, "/")[1]
				if (dec == "allow") != g.Allowed {
					c.Violate(Finding{Desc: "enforce evaluation metric " + m + " does not match the response", Key: "metric-decision", Input: in, Go: g})
				}
			}
			if strings.HasSuffix(m, "/audit") {
				cnt["audit"]++
			}
			if strings.HasSuffix(m, "/warn") {
				cnt["warn"]++
			}
		}
		if a.Res == "namespaces" {
			if len(g.Metrics) != 0 {
				c.Violate(Finding{Desc: "namespace request recorded metrics", Key: "ns-metrics", Input: in})
			}
			return
		}
		if (g.AnnEnforce != nil) != (cnt["enforce"] == 1) || cnt["enforce"] > 1 {
			c.Violate(Finding{Desc: fmt.Sprintf("enforce evaluations recorded: %d, enforce-policy annotation present: %v", cnt["enforce"], g.AnnEnforce != nil), Key: "metric-enforce-once", Input: in, Go: g})
		}
		if (g.AnnExempt != nil) != (cnt["exempt"] == 1) || cnt["exempt"] > 1 {
			c.Violate(Finding{Desc: fmt.Sprintf("exemptions recorded: %d, exempt annotation present: %v", cnt["exempt"], g.AnnExempt != nil), Key: "metric-exempt-once", Input: in, Go: g})
		}
		if g.AnnError != (cnt["error"] == 1) || cnt["error"] > 1 {
			c.Violate(Finding{Desc: fmt.Sprintf("errors recorded: %d, error annotation present: %v", cnt["error"], g.AnnError), Key: "metric-error-once", Input: in, Go: g})
		}
		if (g.AnnAudit != nil) != (cnt["audit"] == 1) {
			c.Violate(Finding{Desc: fmt.Sprintf("audit denials recorded: %d, audit annotation present: %v", cnt["audit"], g.AnnAudit != nil), Key: "metric-audit", Input: in, Go: g})
		}
		if (len(g.Warnings) > 0) != (cnt["warn"] == 1) {
			c.Violate(Finding{Desc: fmt.Sprintf("warn denials recorded: %d, warnings: %d", cnt["warn"], len(g.Warnings)), Key: "metric-warn", Input: in, Go: g})
		}
		if plainAllowed(g) && len(g.Metrics) != 0 {
			c.Violate(Finding{Desc: "ignored request recorded metrics", Key: "metric-ignored", Input: in, Go: g})
		}
	}, nil)
	runC18Recorder(c)
	c18RecordBeforeRegister(c)
}

package main

import (
	"bytes"
	"context"
	"encoding/json"
	"fmt"
	"io"
	"net/http"
	"net/http/httptest"
	"strings"
	"sync"

	admissionv1 "k8s.io/api/admission/v1"
	authenticationv1 "k8s.io/api/authentication/v1"
	corev1 "k8s.io/api/core/v1"
	metav1 "k8s.io/apimachinery/pkg/apis/meta/v1"
	"k8s.io/apimachinery/pkg/runtime"
	"k8s.io/apimachinery/pkg/types"
	"k8s.io/pod-security-admission/admission"
	admissionapi "k8s.io/pod-security-admission/admission/api"
	"k8s.io/pod-security-admission/cmd/webhook/server"
)

func init() { props["C16"] = runC16 }

// namespace labels by namespace name, for the webhook runs
type nsByName map[string]map[string]string

func (n nsByName) GetNamespace(ctx context.Context, name string) (*corev1.Namespace, error) {
	l, ok := n[name]
	if !ok {
		return nil, fmt.Errorf("namespace %q not found", name)
	}
	return &corev1.Namespace{ObjectMeta: metav1.ObjectMeta{Name: name, Labels: l}}, nil
}

type reviewCase struct {
	uid         string
	ns          string
	pod         *corev1.Pod
	op          admissionv1.Operation
	old         *corev1.Pod
	user        string
	wantAllowed bool
}

func rawOf(o runtime.Object, kind string) runtime.RawExtension {
	b, err := json.Marshal(o)
	if err != nil {
		panic(err)
	}
	// add apiVersion/kind textually (a round trip through map[string]any would lose int64 precision)
	b = append([]byte(`{"apiVersion":"v1","kind":"`+kind+`",`), b[1:]...)
	return runtime.RawExtension{Raw: b}
}

func (rc *reviewCase) body() []byte {
	req := &admissionv1.AdmissionRequest{
		UID:       types.UID(rc.uid),
		Kind:      metav1.GroupVersionKind{Version: "v1", Kind: "Pod"},
		Resource:  metav1.GroupVersionResource{Version: "v1", Resource: "pods"},
		Name:      rc.pod.Name,
		Namespace: rc.ns,
		Operation: rc.op,
		UserInfo:  authenticationv1.UserInfo{Username: rc.user},
		Object:    rawOf(rc.pod, "Pod"),
	}
	if rc.old != nil {
		req.OldObject = rawOf(rc.old, "Pod")
	}
	rv := &admissionv1.AdmissionReview{TypeMeta: metav1.TypeMeta{APIVersion: "admission.k8s.io/v1", Kind: "AdmissionReview"}, Request: req}
	b, _ := json.Marshal(rv)
	return b
}

func runC16(c *Ctx) {
	clients, per := 16, 150
	if c.Thorough {
		per = 2500
	}
	r := NewRng(c.Seed)
	namespaces := nsByName{
		"priv":       {},
		"restricted": {"pod-security.kubernetes.io/enforce": "restricted"},
		"baseline":   {"pod-security.kubernetes.io/enforce": "baseline", "pod-security.kubernetes.io/warn": "restricted"},
		"exns":       {"pod-security.kubernetes.io/enforce": "restricted"},
		"badlabels":  {"pod-security.kubernetes.io/enforce": "bogus"},
	}
	newAdm := func() *admission.Admission {
		adm := &admission.Admission{
			Configuration: &admissionapi.PodSecurityConfiguration{
				Defaults:   admissionapi.PodSecurityDefaults{Enforce: "privileged", EnforceVersion: "latest", Audit: "privileged", AuditVersion: "latest", Warn: "privileged", WarnVersion: "latest"},
				Exemptions: admissionapi.PodSecurityExemptions{Namespaces: []string{"exns"}, Usernames: []string{"exuser"}, RuntimeClasses: []string{"exrc"}}},
			Evaluator: realEvaluator, Metrics: &recorder{}, PodSpecExtractor: admission.DefaultPodSpecExtractor{},
			NamespaceGetter: namespaces, PodLister: &fakeLister{},
		}
		if err := adm.CompleteConfiguration(); err != nil {
			panic(err)
		}
		return adm
	}
	runC16Mixed(c, namespaces, func(lister admission.PodLister) *admission.Admission {
		adm := newAdm()
		adm.PodLister = lister
		return adm
	})
	runC16Docs(c, func() *server.Server { return server.NewServerForVerif(newAdm()) })
	srv := server.NewServerForVerif(newAdm())
	ts := httptest.NewServer(http.HandlerFunc(srv.HandleValidate))
	defer ts.Close()

	// ---- well-formed reviews, many in flight
	var cases [][]*reviewCase
	nsNames := []string{"priv", "priv", "priv", "restricted", "baseline", "exns", "badlabels"}
	for cl := 0; cl < clients; cl++ {
		var cs []*reviewCase
		for i := 0; i < per; i++ {
			pc := genPod(r.Fork(), cl*per+i)
			if catCache == nil {
				catCache = catalogPods()
			}
			if r.Chance(1, 3) {
				pc = PodCase{Pod: catCache[r.Intn(len(catCache))].Pod.DeepCopy()}
			}
			rc := &reviewCase{uid: fmt.Sprintf("uid-%d-%d", cl, i) + oddUIDTail(i), ns: pick(r, nsNames), pod: pc.Pod, op: admissionv1.Create, user: pick(r, []string{"u", "u", "u", "exuser"})}
			rc.pod.Namespace = rc.ns
			if r.Chance(1, 4) {
				rc.op = admissionv1.Update
				rc.old, _ = mutateForUpdate(r, rc.pod)
			}
			// the admission library's own decision, by a fresh controller, request handled alone
			a := &AdmitCase{Res: "pods", Op: rc.op, Name: rc.pod.Name, NS: rc.ns, User: rc.user, Obj: ObjSpec{Kind: "pod", Pod: rc.pod}}
			if rc.old != nil {
				a.Old = ObjSpec{Kind: "pod", Pod: rc.old}
			}
			resp := newAdm().Validate(context.Background(), a.attributes())
			rc.wantAllowed = resp.Allowed
			cs = append(cs, rc)
		}
		cases = append(cases, cs)
	}
	type result struct {
		rc      *reviewCase
		status  int
		uid     string
		allowed bool
		hasResp bool
		err     string
	}
	uidMismatch, verdictMismatch := 0, 0
	burst := func(phase string) {
		results := make([][]result, clients)
		var wg sync.WaitGroup
		for cl := 0; cl < clients; cl++ {
			wg.Add(1)
			go func(cl int) {
				defer wg.Done()
				client := &http.Client{}
				for _, rc := range cases[cl] {
					res := result{rc: rc}
					resp, err := client.Post(ts.URL, "application/json", bytes.NewReader(rc.body()))
					if err != nil {
						res.err = err.Error()
					} else {
						b, _ := io.ReadAll(resp.Body)
						resp.Body.Close()
						res.status = resp.StatusCode
						var rv admissionv1.AdmissionReview
						if json.Unmarshal(b, &rv) == nil && rv.Response != nil {
							res.hasResp = true
							res.uid = string(rv.Response.UID)
							res.allowed = rv.Response.Allowed
						}
					}
					results[cl] = append(results[cl], res)
				}
			}(cl)
		}
		wg.Wait()
		for cl := range results {
			for _, res := range results[cl] {
				c.Eval(1)
				c.Nontrivial(res.rc.uid)
				c.Tag("ns." + res.rc.ns)
				in := J{"uid": res.rc.uid, "namespace": res.rc.ns, "operation": res.rc.op, "user": res.rc.user, "concurrentClients": clients}
				if res.err != "" || res.status != 200 || !res.hasResp {
					c.Violate(Finding{Desc: fmt.Sprintf("well-formed review not answered with 200 + response: status=%d err=%s", res.status, res.err), Key: "wellformed-not-200", Input: in})
					continue
				}
				if res.uid != res.rc.uid {
					uidMismatch++
					if uidMismatch <= 3 {
						c.Violate(Finding{Desc: fmt.Sprintf("response.uid %q does not equal the request uid %q (%d clients in flight)", res.uid, res.rc.uid, clients), Key: "uid-mismatch", Input: in})
					}
				}
				if res.allowed != res.rc.wantAllowed {
					verdictMismatch++
					if verdictMismatch <= 3 {
						in["pod"] = res.rc.pod
						in["old"] = res.rc.old
						c.Violate(Finding{Desc: fmt.Sprintf("webhook verdict allowed=%v, admission library decision allowed=%v", res.allowed, res.rc.wantAllowed), Key: "verdict-mismatch", Input: in})
					}
				}
			}
		}
	}
	burst("first")
	// the caller's ?timeout= (how long the API server is prepared to wait) is no part of a review's well-formedness: whatever it
	// says — long, zero, negative, a nanosecond, not a duration at all — a well-formed pod review is answered 200 with its own
	// uid and the library's verdict
	for ti, tv := range []string{"30s", "10s", "1s", "1ms", "1ns", "0s", "0", "-5s", "bogus", "5", "1h", "1.5s", "999999h"} {
		for k := 0; k < 6; k++ {
			rc := cases[(ti+k)%clients][(ti*7+k)%len(cases[0])]
			resp, err := http.Post(ts.URL+"?timeout="+tv, "application/json", bytes.NewReader(rc.body()))
			c.Eval(1)
			c.Tag("timeoutParam." + tv)
			in := J{"uid": rc.uid, "namespace": rc.ns, "operation": rc.op, "timeoutQuery": tv}
			if err != nil {
				c.Violate(Finding{Desc: "well-formed review with ?timeout=" + tv + ": no HTTP answer: " + err.Error(), Key: "timeout-param-no-answer", Input: in})
				continue
			}
			b, _ := io.ReadAll(resp.Body)
			resp.Body.Close()
			var rv admissionv1.AdmissionReview
			if resp.StatusCode != 200 || json.Unmarshal(b, &rv) != nil || rv.Response == nil || string(rv.Response.UID) != rc.uid || rv.Response.Allowed != rc.wantAllowed {
				in["pod"] = rc.pod
				c.Violate(Finding{Desc: fmt.Sprintf("well-formed review sent with ?timeout=%s is not answered with 200, its own uid and the library's verdict (allowed=%v): status %d, body %s", tv, rc.wantAllowed, resp.StatusCode, trunc(string(b), 300)),
					Key: "timeout-param-changes-answer", Input: in})
			}
		}
	}
	c.Hist["uidMismatches"] = uidMismatch
	c.Hist["verdictMismatches"] = verdictMismatch
	c.Sample(J{"review": json.RawMessage(cases[0][0].body())})

	// ---- malformed reviews: each must be answered with an HTTP error status, never an allow, without crashing
	good := cases[0][0].body()
	big := func(n int) []byte {
		pad := strings.Repeat("x", n)
		b, _ := json.Marshal(map[string]any{"apiVersion": "admission.k8s.io/v1", "kind": "AdmissionReview", "pad": pad})
		return b
	}
	exact := big(0)
	type mal struct {
		name, ctype string
		body        []byte
		nilBody     bool
		streamed    bool // sent without a Content-Length (chunked), as a client that streams the body does
		// model inputs
		size                                 int
		decodes, v1review, hasRequest, empty bool
	}
	mk := func(name, ctype string, body []byte, decodes, v1review, hasRequest bool) mal {
		return mal{name: name, ctype: ctype, body: body, size: len(body), decodes: decodes, v1review: v1review, hasRequest: hasRequest, empty: len(body) == 0}
	}
	v1beta1 := bytes.Replace(good, []byte("admission.k8s.io/v1"), []byte("admission.k8s.io/v1beta1"), 1)
	otherKind := bytes.Replace(good, []byte(`"kind":"AdmissionReview"`), []byte(`"kind":"Pod","apiVersion":"v1"`), 1)
	malformed := []mal{
		mk("empty body", "application/json", nil, false, false, false),
		mk("text/plain", "text/plain", good, true, true, true),
		mk("no content type", "", good, true, true, true),
		mk("application/yaml", "application/yaml", good, true, true, true),
		mk("application/xml", "application/xml", good, true, true, true),
		// media types that merely begin with "application/json" are other formats (RFC 7464 JSON text sequences, RFC 9535, ...)
		mk("application/json-seq", "application/json-seq", good, true, true, true),
		mk("application/jsonpath", "application/jsonpath", good, true, true, true),
		mk("application/json5", "application/json5", good, true, true, true),
		mk("application/jsonlines", "application/jsonlines", good, true, true, true),
		mk("application/json-patch+json", "application/json-patch+json", good, true, true, true),
		mk("application/vnd.kubernetes.protobuf", "application/vnd.kubernetes.protobuf", good, true, true, true),
		mk("application/x-www-form-urlencoded", "application/x-www-form-urlencoded", good, true, true, true),
		mk("not json", "application/json", []byte("this is not json"), false, false, false),
		mk("truncated json", "application/json", good[:len(good)/2], false, false, false),
		mk("json array", "application/json", []byte("[]"), false, false, false),
		mk("v1beta1 review", "application/json", v1beta1, false, false, true),
		mk("other kind", "application/json", otherKind, true, false, false),
		mk("review without request", "application/json", []byte(`{"apiVersion":"admission.k8s.io/v1","kind":"AdmissionReview"}`), true, true, false),
		mk("empty object", "application/json", []byte(`{}`), true, true, false),
		mk("request null", "application/json", []byte(`{"apiVersion":"admission.k8s.io/v1","kind":"AdmissionReview","request":null}`), true, true, false),
		mk("3MiB exactly", "application/json", big(3*1024*1024-len(exact)), true, true, false),
		mk("3MiB + 1", "application/json", big(3*1024*1024-len(exact)+1), true, true, false),
		mk("4MiB", "application/json", big(4*1024*1024), true, true, false),
	}
	// an otherwise perfectly good review, padded with trailing white space to the limit and beyond: only its size is wrong.
	// Sent once with a Content-Length and once streamed (chunked, length unknown to the server when the handler starts).
	padded := func(n int) []byte {
		return append(append([]byte{}, good...), bytes.Repeat([]byte(" "), n-len(good))...)
	}
	for _, sz := range []struct {
		name string
		n    int
	}{{"3MiB", 3 * 1024 * 1024}, {"3MiB + 1", 3*1024*1024 + 1}, {"3MiB + 64KiB", 3*1024*1024 + 65536}} {
		m := mk("good review padded to "+sz.name, "application/json", padded(sz.n), true, true, true)
		malformed = append(malformed, m)
		m.name += " (streamed)"
		m.streamed = true
		malformed = append(malformed, m)
	}
	// media types that are not JSON, with parameters — well-formed, and malformed in the ways a media-type parser reports as
	// "only the parameters are wrong" (a parser's error path is no licence to skip the comparison of the type itself)
	for _, ct := range []string{"text/plain; charset=utf-8", "text/plain; charset", "application/yaml; =x", `text/plain; charset="utf-8`, "application/vnd.kubernetes.protobuf;;",
		"application/xml; q", "application/yaml; charset=utf-8; charset=ascii", "text/json; charset", "application/x-json; a=b; c"} {
		malformed = append(malformed, mk("non-JSON type with parameters: "+ct, ct, good, true, true, true))
	}
	var ops []J
	for _, m := range malformed {
		ops = append(ops, J{"op": "webhookClassify", "empty": m.empty, "size": m.size, "contentType": m.ctype, "decodes": m.decodes, "v1review": m.v1review, "hasRequest": m.hasRequest})
	}
	outs := c.Lean(ops)
	for i, m := range malformed {
		c.Eval(1)
		c.Tag("malformed." + m.name)
		var rd io.Reader = bytes.NewReader(m.body)
		if m.streamed {
			rd = struct{ io.Reader }{rd} // hides the length: net/http sends it chunked
		}
		req, _ := http.NewRequest("POST", ts.URL, rd)
		if m.ctype != "" {
			req.Header.Set("Content-Type", m.ctype)
		}
		resp, err := (&http.Client{}).Do(req)
		in := J{"class": m.name, "contentType": m.ctype, "bodyBytes": len(m.body)}
		if len(m.body) < 300 {
			in["body"] = string(m.body)
		}
		if err != nil {
			c.Violate(Finding{Desc: fmt.Sprintf("malformed review (%s): no HTTP answer at all: %v", m.name, err), Key: "malformed-no-status:" + m.name, Input: in})
			continue
		}
		b, _ := io.ReadAll(resp.Body)
		resp.Body.Close()
		var rv admissionv1.AdmissionReview
		allowed := json.Unmarshal(b, &rv) == nil && rv.Response != nil && rv.Response.Allowed
		if resp.StatusCode < 400 || allowed {
			c.Violate(Finding{Desc: fmt.Sprintf("malformed review (%s) answered with status %d allowed=%v", m.name, resp.StatusCode, allowed), Key: "malformed-accepted:" + m.name, Input: in})
		}
		want, _ := outs[i]["status"].(float64)
		if int(want) != resp.StatusCode {
			c.Disagree(Finding{Desc: fmt.Sprintf("malformed review (%s): HTTP status %d, model %d", m.name, resp.StatusCode, int(want)), Input: in})
		}
	}
	// the same small malformed reviews again, each sent straight after a well-formed one (same client, same connection, and
	// once more from a fresh connection): what the handler did for the previous review must not make it accept this one
	keep := &http.Client{}
	for round := 0; round < 6; round++ {
		for i, m := range malformed {
			if len(m.body) > 4096 {
				continue
			}
			cl := keep
			if round%2 == 1 {
				cl = &http.Client{}
			}
			prev := cases[(round+i)%len(cases)][i%len(cases[0])]
			if resp, err := cl.Post(ts.URL, "application/json", bytes.NewReader(prev.body())); err == nil {
				io.Copy(io.Discard, resp.Body)
				resp.Body.Close()
			}
			req, _ := http.NewRequest("POST", ts.URL, bytes.NewReader(m.body))
			if m.ctype != "" {
				req.Header.Set("Content-Type", m.ctype)
			}
			resp, err := cl.Do(req)
			c.Eval(2)
			c.Tag("malformed.afterGood")
			in := J{"class": m.name, "contentType": m.ctype, "body": string(m.body), "sentAfter": J{"uid": prev.uid, "review": json.RawMessage(prev.body())}}
			if err != nil {
				c.Violate(Finding{Desc: fmt.Sprintf("malformed review (%s) sent after a well-formed one: no HTTP answer at all: %v", m.name, err), Key: "malformed-no-status:" + m.name, Input: in})
				continue
			}
			b, _ := io.ReadAll(resp.Body)
			resp.Body.Close()
			var rv admissionv1.AdmissionReview
			allowed := json.Unmarshal(b, &rv) == nil && rv.Response != nil && rv.Response.Allowed
			want, _ := outs[i]["status"].(float64)
			if resp.StatusCode < 400 || allowed {
				c.Violate(Finding{Desc: fmt.Sprintf("malformed review (%s) sent after a well-formed one answered with status %d allowed=%v", m.name, resp.StatusCode, allowed), Key: "malformed-accepted-after-good:" + m.name, Input: in})
			} else if int(want) != resp.StatusCode {
				c.Disagree(Finding{Desc: fmt.Sprintf("malformed review (%s) sent after a well-formed one: HTTP status %d, model %d", m.name, resp.StatusCode, int(want)), Input: in})
			}
		}
	}
	// just under the limit the same padded review is well-formed and must be answered like the unpadded one
	for _, streamed := range []bool{false, true} {
		var rd io.Reader = bytes.NewReader(padded(3*1024*1024 - 1))
		if streamed {
			rd = struct{ io.Reader }{rd}
		}
		req, _ := http.NewRequest("POST", ts.URL, rd)
		req.Header.Set("Content-Type", "application/json")
		resp, err := (&http.Client{}).Do(req)
		c.Eval(1)
		ok := false
		if err == nil {
			b, _ := io.ReadAll(resp.Body)
			resp.Body.Close()
			var rv admissionv1.AdmissionReview
			ok = resp.StatusCode == 200 && json.Unmarshal(b, &rv) == nil && rv.Response != nil && string(rv.Response.UID) == cases[0][0].uid && rv.Response.Allowed == cases[0][0].wantAllowed
		}
		if !ok {
			c.Violate(Finding{Desc: fmt.Sprintf("well-formed review of 3MiB-1 bytes (streamed=%v) not answered with 200, its own uid and the library's verdict", streamed), Key: "under-limit-rejected", Input: J{"bodyBytes": 3*1024*1024 - 1, "streamed": streamed}})
		}
	}
	// and whatever the malformed and oversized requests left behind must not reach the reviews that follow them
	burst("after the malformed and oversized requests")
	c.Hist["uidMismatches"] = uidMismatch
	c.Hist["verdictMismatches"] = verdictMismatch
	// the handler is still alive afterwards
	resp, err := http.Post(ts.URL, "application/json", bytes.NewReader(good))
	if err != nil || resp.StatusCode != 200 {
		c.Violate(Finding{Desc: "handler does not answer a well-formed review after the malformed ones", Key: "handler-dead"})
	}
}

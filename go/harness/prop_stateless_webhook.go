package main

import (
	"bytes"
	"context"
	"fmt"
	"io"
	"net/http"
	"net/http/httptest"
	"runtime"
	"sync"

	admissionv1 "k8s.io/api/admission/v1"
	"k8s.io/pod-security-admission/admission"
	admissionapi "k8s.io/pod-security-admission/admission/api"
	"k8s.io/pod-security-admission/cmd/webhook/server"
)

// slowReader hands the body over in small pieces and yields between them, so that the bodies of requests in flight are read
// in an interleaved way
type slowReader struct {
	r     io.Reader
	chunk int
}

func (s *slowReader) Read(p []byte) (int, error) {
	if len(p) > s.chunk {
		p = p[:s.chunk]
	}
	runtime.Gosched()
	return s.r.Read(p)
}

// runC15Webhook: the same independence one layer up, at the webhook handler: after an oversized and a malformed request, 16
// goroutines send reviews whose bodies are read interleaved; every answer (status and body bytes) must equal the answer a
// freshly constructed server gives to that review alone.
func runC15Webhook(c *Ctx) {
	r := NewRng(c.Seed + 1515)
	namespaces := nsByName{"priv": {}, "restricted": {"pod-security.kubernetes.io/enforce": "restricted"},
		"baseline": {"pod-security.kubernetes.io/enforce": "baseline", "pod-security.kubernetes.io/warn": "restricted", "pod-security.kubernetes.io/audit": "restricted"}}
	newSrv := func() *server.Server {
		adm := &admission.Admission{
			Configuration: &admissionapi.PodSecurityConfiguration{Defaults: admissionapi.PodSecurityDefaults{Enforce: "privileged", EnforceVersion: "latest", Audit: "privileged", AuditVersion: "latest", Warn: "privileged", WarnVersion: "latest"}},
			Evaluator:     realEvaluator, Metrics: &recorder{}, PodSpecExtractor: admission.DefaultPodSpecExtractor{}, NamespaceGetter: namespaces, PodLister: clusterLister{}}
		if err := adm.CompleteConfiguration(); err != nil {
			panic(err)
		}
		return server.NewServerForVerif(adm)
	}
	call := func(srv *server.Server, body []byte, slow bool) (int, string) {
		var rd io.Reader = bytes.NewReader(body)
		if slow {
			rd = &slowReader{r: rd, chunk: 256}
		}
		req := httptest.NewRequest("POST", "/", rd).WithContext(context.Background())
		req.Header.Set("Content-Type", "application/json")
		rec := httptest.NewRecorder()
		func() {
			defer func() {
				if p := recover(); p != nil {
					rec.Code = -1
				}
			}()
			srv.HandleValidate(rec, req)
		}()
		return rec.Code, rec.Body.String()
	}
	n := sizes(c, 160, 1600)
	type item struct {
		body   []byte
		code   int
		answer string
		desc   J
	}
	items := make([]*item, n)
	for i := range items {
		a := genAdmitCase(r.Fork(), i, AdmitKnobs{Kind: "pod", FaultPct: 0, SynPct: 0, SubPct: 5})
		a.NS = pick(r, []string{"priv", "restricted", "baseline", "baseline"})
		a.User = "u"
		a.Obj.Pod.Namespace = a.NS
		it := &item{body: a.review(fmt.Sprintf("c15-%d", i), 0), desc: J{"uid": fmt.Sprintf("c15-%d", i), "namespace": a.NS, "operation": a.Op, "tags": a.Tags}}
		it.code, it.answer = call(newSrv(), it.body, false)
		items[i] = it
	}
	shared := newSrv()
	// what came before: a request at the size limit, one well beyond it, an undecodable one
	for _, sz := range []int{3 * 1024 * 1024, 3*1024*1024 + 70000} {
		big := append(append([]byte{}, items[0].body...), bytes.Repeat([]byte(" "), sz-len(items[0].body))...)
		call(shared, big, false)
	}
	call(shared, []byte("{not json"), false)
	got := make([]struct {
		code int
		body string
	}, n)
	var wg sync.WaitGroup
	for g := 0; g < 16; g++ {
		wg.Add(1)
		go func(g int) {
			defer wg.Done()
			for i := g; i < n; i += 16 {
				got[i].code, got[i].body = call(shared, items[i].body, true)
			}
		}(g)
	}
	wg.Wait()
	shown := 0
	for i, it := range items {
		c.Eval(1)
		c.Tag("c15.webhook")
		if got[i].code != it.code || got[i].body != it.answer {
			shown++
			if shown <= 3 {
				var rv admissionv1.AdmissionReview
				_ = rv
				c.Violate(Finding{Desc: "webhook answer to a review sent after oversized requests and overlapping with other reviews differs from a fresh server's answer to the same review alone",
					Key: "webhook-depends-on-other-requests", Input: it.desc, Go: J{"overlapped": J{"status": got[i].code, "body": trunc(got[i].body, 400)}, "alone": J{"status": it.code, "body": trunc(it.answer, 400)}}})
			}
		}
	}
	_ = http.StatusOK
}

func trunc(s string, n int) string {
	if len(s) > n {
		return s[:n] + "..."
	}
	return s
}

package main

import (
	"bytes"
	"context"
	"encoding/json"
	"fmt"
	"io"
	"net/http"
	"net/http/httptest"
	"sync"

	admissionv1 "k8s.io/api/admission/v1"
	authenticationv1 "k8s.io/api/authentication/v1"
	metav1 "k8s.io/apimachinery/pkg/apis/meta/v1"
	"k8s.io/apimachinery/pkg/runtime"
	"k8s.io/apimachinery/pkg/types"
	"k8s.io/pod-security-admission/admission"
	admissionapi "k8s.io/pod-security-admission/admission/api"
	"k8s.io/pod-security-admission/cmd/webhook/server"
)

// kindOf: the API kind and apiVersion of the objects of a resource
func kindOf(res string) (apiVersion, kind string) {
	switch res {
	case "pods":
		return "v1", "Pod"
	case "namespaces":
		return "v1", "Namespace"
	case "podtemplates":
		return "v1", "PodTemplate"
	case "replicationcontrollers":
		return "v1", "ReplicationController"
	case "replicasets":
		return "apps/v1", "ReplicaSet"
	case "deployments":
		return "apps/v1", "Deployment"
	case "statefulsets":
		return "apps/v1", "StatefulSet"
	case "daemonsets":
		return "apps/v1", "DaemonSet"
	case "jobs":
		return "batch/v1", "Job"
	case "cronjobs":
		return "batch/v1", "CronJob"
	}
	return "v1", "ConfigMap"
}

func rawTyped(o runtime.Object, apiVersion, kind string, future bool) runtime.RawExtension {
	b, err := json.Marshal(o)
	if err != nil {
		panic(err)
	}
	head := []byte(`{"apiVersion":"` + apiVersion + `","kind":"` + kind + `"`)
	if future { // fields a newer API server knows and this build does not: at the top level and inside spec
		head = append(head, []byte(`,"futureTopLevelField":{"a":1}`)...)
		if bytes.Contains(b, []byte(`"spec":{}`)) {
			b = bytes.Replace(b, []byte(`"spec":{}`), []byte(`"spec":{"futureSpecField":"x"}`), 1)
		} else {
			b = bytes.Replace(b, []byte(`"spec":{`), []byte(`"spec":{"futureSpecField":"x",`), 1)
		}
	}
	if len(b) > 2 {
		head = append(head, ',')
	}
	raw := append(head, b[1:]...)
	if future && len(raw)%2 == 0 { // a key stated twice with the same value (legal JSON; the last one counts)
		raw = append(raw[:len(raw)-1], []byte(`,"kind":"`+kind+`"}`)...)
	}
	return runtime.RawExtension{Raw: raw}
}

// review: the AdmissionReview the API server would send for this case (subResource and requestSubResource both carry the
// subresource, requestKind / requestResource repeat kind / resource, as kube-apiserver does without conversion)
func (a *AdmitCase) review(uid string, noise int) []byte {
	apiVersion, kind := kindOf(a.Res)
	gv := metav1.GroupVersionKind{Group: groupOf(a.Res), Version: "v1", Kind: kind}
	gvr := metav1.GroupVersionResource{Group: groupOf(a.Res), Version: "v1", Resource: a.Res}
	switch a.AttrNoise { // the same attributes as attributes() hands the library directly
	case 1:
		gvr.Version = "v1beta1"
	case 2:
		gv = metav1.GroupVersionKind{Group: "apps", Version: "v1", Kind: "Deployment"}
	case 3:
		gv.Version = "v2"
	}
	req := &admissionv1.AdmissionRequest{UID: types.UID(uid), Kind: gv, Resource: gvr, SubResource: a.Sub, RequestKind: &gv, RequestResource: &gvr, RequestSubResource: a.Sub,
		Name: a.Name, Namespace: a.NS, Operation: a.Op, UserInfo: authenticationv1.UserInfo{Username: a.User}}
	if noise%2 == 1 { // request fields no property mentions
		t := true
		req.DryRun = &t
		req.UserInfo.UID = "user-uid"
		req.UserInfo.Groups = []string{"system:masters", "system:authenticated", "exuser", "exns"}
		req.UserInfo.Extra = map[string]authenticationv1.ExtraValue{"scopes": {"exuser"}}
		req.Options = runtime.RawExtension{Raw: []byte(`{"apiVersion":"meta.k8s.io/v1","kind":"CreateOptions","fieldManager":"kubectl"}`)}
	}
	future := noise%3 == 2
	enc := func(o ObjSpec) runtime.RawExtension {
		switch o.Kind {
		case "err":
			return runtime.RawExtension{Raw: []byte(`{"apiVersion":"` + apiVersion + `","kind":"` + kind + `","spec":"not an object","metadata":7}`)}
		case "nil", "":
			return runtime.RawExtension{}
		case "other":
			return runtime.RawExtension{Raw: []byte(`{"apiVersion":"v1","kind":"ConfigMap","metadata":{"name":"cm"}}`)}
		case "pod":
			return rawTyped(o.runtimeObject(), "v1", "Pod", future)
		case "namespace":
			return rawTyped(o.runtimeObject(), "v1", "Namespace", future)
		}
		av, k := kindOf(o.CtlKind)
		return rawTyped(o.runtimeObject(), av, k, future)
	}
	req.Object = enc(a.Obj)
	req.OldObject = enc(a.Old)
	rv := &admissionv1.AdmissionReview{TypeMeta: metav1.TypeMeta{APIVersion: "admission.k8s.io/v1", Kind: "AdmissionReview"}, Request: req}
	b, err := json.Marshal(rv)
	if err != nil {
		panic("harness: review does not serialise: " + err.Error())
	}
	return b
}

// runC16Mixed: reviews for every kind of request the library distinguishes (pods with and without subresources, the eight
// controller kinds, namespaces with a pod population, unknown resources; creates, updates, deletes; undecodable and absent
// objects), through the real handler over HTTP, many in flight. The answer must carry the request's uid and the library's
// whole decision for the equivalent attributes: allowed, status, warnings, audit annotations.
func runC16Mixed(c *Ctx, namespaces nsByName, newAdm func(lister admission.PodLister) *admission.Admission) {
	webhookMixed(c, sizes(c, 1200, 20000), "", namespaces, newAdm)
}

// webhookFixture: the namespaces and the controller configuration of the webhook runs
func webhookFixture() (nsByName, func(lister admission.PodLister) *admission.Admission) {
	namespaces := nsByName{
		"priv":       {},
		"restricted": {"pod-security.kubernetes.io/enforce": "restricted"},
		"baseline":   {"pod-security.kubernetes.io/enforce": "baseline", "pod-security.kubernetes.io/warn": "restricted", "pod-security.kubernetes.io/audit": "restricted"},
		"exns":       {"pod-security.kubernetes.io/enforce": "restricted"},
		"badlabels":  {"pod-security.kubernetes.io/enforce": "bogus", "pod-security.kubernetes.io/warn": "baseline"},
	}
	return namespaces, func(lister admission.PodLister) *admission.Admission {
		adm := &admission.Admission{
			Configuration: &admissionapi.PodSecurityConfiguration{
				Defaults:   admissionapi.PodSecurityDefaults{Enforce: "privileged", EnforceVersion: "latest", Audit: "privileged", AuditVersion: "latest", Warn: "privileged", WarnVersion: "latest"},
				Exemptions: admissionapi.PodSecurityExemptions{Namespaces: []string{"exns"}, Usernames: []string{"exuser"}, RuntimeClasses: []string{"exrc"}}},
			Evaluator: realEvaluator, Metrics: &recorder{}, PodSpecExtractor: admission.DefaultPodSpecExtractor{},
			NamespaceGetter: namespaces, PodLister: lister,
		}
		if err := adm.CompleteConfiguration(); err != nil {
			panic(err)
		}
		return adm
	}
}

// oddUIDTail: a uid is an opaque string chosen by the API server's caller; every fourth review carries characters that text
// formats treat specially (control characters with and without a short JSON escape, DEL, quotes, backslashes, markup, non-ASCII,
// a rune beyond the BMP, a non-printable one)
func oddUIDTail(i int) string {
	if i%4 != 3 {
		return ""
	}
	tails := []string{"\v", "\a", "\x1f", "\x7f", "\t\n", "\"q\"", "\\b", "<&>", "é世", "\U0001F600", "\U000E0001", "\x00", "\u2028", "%s%d", " "}
	return "-" + tails[(i/4)%len(tails)]
}

// mixedUsers: who sends the mixed reviews (five entries: a phase may substitute other user classes of the same number)
var mixedUsers = []string{"u", "u", "exuser", "exns", "Exuser"}

// webhookMixed: n reviews of the given kind ("" = every kind) through the real handler from 16 clients
func webhookMixed(c *Ctx, n int, kind string, namespaces nsByName, newAdm func(lister admission.PodLister) *admission.Admission) {
	r := NewRng(c.Seed + 1616)
	pods := clusterLister{}
	nsNames := mixedNamespaces
	for _, ns := range nsNames {
		for k := r.Intn(6); k > 0; k-- {
			pods[ns] = append(pods[ns], genPopPod(r, k, []string{"exrc"}))
		}
	}
	srv := server.NewServerForVerif(newAdm(pods))
	ts := httptest.NewServer(http.HandlerFunc(srv.HandleValidate))
	defer ts.Close()
	type item struct {
		a      *AdmitCase
		uid    string
		body   []byte
		want   AdmitOut
		got    AdmitOut
		gotUID string
		status int
		err    string
	}
	items := make([]*item, n)
	for i := range items {
		a := genAdmitCase(r.Fork(), i, AdmitKnobs{Kind: kind, FaultPct: 12, SynPct: 0, SubPct: 25})
		a.NS = pick(r, nsNames)
		a.User = pick(r, mixedUsers)
		a.ExpireAfter, a.Remaining, a.NSErr, a.ListErr = -1, 0, false, false
		if a.Res == "namespaces" {
			a.Name = a.NS
			if a.Obj.Kind == "namespace" {
				a.Obj.NSName = a.NS
			}
			if a.Old.Kind == "namespace" {
				a.Old.NSName = a.NS
			}
		}
		if a.Obj.Pod != nil {
			a.Obj.Pod.Namespace = a.NS
			if a.Obj.Pod.Spec.RuntimeClassName != nil && r.Chance(1, 2) {
				rc := "exrc"
				a.Obj.Pod.Spec.RuntimeClassName = &rc
			}
		}
		if a.Obj.Kind == "other" || a.Old.Kind == "other" || a.Obj.Kind == "nil" || a.Old.Kind == "nil" {
			// the typed side hands the library a ConfigMap / nothing; so does the decoded side
		}
		uid := fmt.Sprintf("mixed-%d", i) + oddUIDTail(i)
		it := &item{a: a, uid: uid, body: a.review(uid, i)}
		func() {
			defer func() {
				if rec := recover(); rec != nil {
					it.want.Panic = fmt.Sprint(rec)
				}
			}()
			it.want = projectResponse(newAdm(pods).Validate(context.Background(), a.attributes()), nil, nil, nil)
		}()
		items[i] = it
		for _, t := range a.Tags {
			c.Tag("mixed." + t)
		}
	}
	var wg sync.WaitGroup
	const clients = 16
	for cl := 0; cl < clients; cl++ {
		wg.Add(1)
		go func(cl int) {
			defer wg.Done()
			client := &http.Client{}
			for i := cl; i < len(items); i += clients {
				it := items[i]
				resp, err := client.Post(ts.URL, "application/json", bytes.NewReader(it.body))
				if err != nil {
					it.err = err.Error()
					continue
				}
				b, _ := io.ReadAll(resp.Body)
				resp.Body.Close()
				it.status = resp.StatusCode
				var rv admissionv1.AdmissionReview
				if json.Unmarshal(b, &rv) == nil && rv.Response != nil {
					it.gotUID = string(rv.Response.UID)
					it.got = projectResponse(rv.Response, nil, nil, nil)
				} else {
					it.err = "no response in the answer: " + string(b[:min(len(b), 200)])
				}
			}
		}(cl)
	}
	wg.Wait()
	shown := map[string]int{}
	for _, it := range items {
		c.Eval(1)
		in := J{"uid": it.uid, "resource": it.a.Res, "subresource": it.a.Sub, "operation": it.a.Op, "namespace": it.a.NS, "user": it.a.User, "object": it.a.Obj.Kind, "oldObject": it.a.Old.Kind, "tags": it.a.Tags}
		if len(it.body) < 6000 {
			in["review"] = json.RawMessage(it.body)
		}
		report := func(key, desc string, g, w any) {
			shown[key]++
			if shown[key] <= 3 {
				c.Violate(Finding{Desc: desc, Key: key, Input: in, Go: J{"webhook": g, "library": w}})
			}
		}
		if it.want.Panic != "" {
			continue // the library itself panics on this input: C07's business
		}
		if it.err != "" || it.status != 200 {
			report("mixed-not-200", fmt.Sprintf("well-formed %s review not answered with 200 + response: status=%d %s", it.a.Res, it.status, it.err), nil, nil)
			continue
		}
		if it.gotUID != it.uid {
			report("uid-mismatch", fmt.Sprintf("response.uid %q does not equal the request uid %q", it.gotUID, it.uid), nil, nil)
		}
		g, w := it.got, it.want
		proj := func(o AdmitOut) J {
			return J{"allowed": o.Allowed, "code": o.Code, "reason": o.Reason, "message": o.RawMessage, "warnings": o.Warnings, "exempt": o.AnnExempt, "error": o.AnnError, "enforce": o.AnnEnforce, "audit": o.AnnAudit, "causes": o.Causes, "extra": o.ExtraAnn}
		}
		if canon(proj(g)) != canon(proj(w)) {
			key := "decision-mismatch"
			if g.Allowed != w.Allowed {
				key = "verdict-mismatch"
			}
			report(key, fmt.Sprintf("webhook answer for a %s %s request differs from the admission library's decision for the same request", it.a.Op, it.a.Res), proj(g), proj(w))
		}
		c.Nontrivial(it.uid)
	}
	c.Hist["mixed.reviews"] = len(items)
}

package main

import (
	"fmt"
	"strings"
	"time"

	admissionv1 "k8s.io/api/admission/v1"
	corev1 "k8s.io/api/core/v1"
	metav1 "k8s.io/apimachinery/pkg/apis/meta/v1"
	"k8s.io/apimachinery/pkg/types"
	admissionapi "k8s.io/pod-security-admission/admission/api"
)

// names shared between the three exemption lists and the request, so that cross-list matches can happen
var namePool = []string{"alpha", "beta", "gamma", "exns", "exuser", "exrc",
	// long but legal names: 63, 64 and 100 bytes (user names are unbounded, runtime class names go up to 253)
	"n63-" + strings.Repeat("a", 59), "system:serviceaccount:" + strings.Repeat("b", 42), "rc100." + strings.Repeat("c", 94)}

func nearMiss(r *Rng, s string) string {
	switch r.Intn(6) {
	case 0:
		return s[:len(s)-1] // prefix
	case 1:
		return s + "2" // extension
	case 2:
		b := []byte(s)
		b[0] -= 32
		return string(b) // case
	case 3:
		return ""
	case 4:
		return " " + s
	default:
		return s + " "
	}
}

func subset(r *Rng, pool []string) []string {
	out := []string{}
	for _, x := range pool {
		if r.Chance(1, 3) {
			out = append(out, x)
		} else if r.Chance(1, 9) {
			// an entry that only resembles a name requests use: surrounding white space (a YAML block scalar keeps its newline),
			// another case, a trailing dot or slash (printable ASCII and the named escapes only: the texts that quote
			// names are compared byte for byte, and the model's %q covers that alphabet). User names may be any string; an entry matches the request value that EQUALS it
			out = append(out, pick(r, []string{x + "\n", " " + x, x + " ", "\t" + x, strings.ToUpper(x[:1]) + x[1:], x + ".", x + "/"}))
		}
	}
	if r.Chance(1, 8) {
		out = append(out, "")
	}
	if r.Chance(1, 5) { // lists of particular lengths (around powers of two), padded with names nothing else uses, in no particular order
		n := pick(r, []int{3, 4, 5, 7, 8, 9, 15, 16, 17, 31, 32, 33, 64, 65})
		for k := 0; len(out) < n; k++ {
			out = append(out, fmt.Sprintf("%s-filler-%d", pick(r, []string{"zz", "aa", "mm", "Zz", "0"}), r.Intn(1000)*100+k))
		}
		perm := r.Perm(len(out))
		shuffled := make([]string, len(out))
		for i, j := range perm {
			shuffled[i] = out[j]
		}
		out = shuffled
	}
	return out
}

func pickName(r *Rng, list []string, neutral string) string {
	switch {
	case r.Chance(3, 5):
		return neutral
	case r.Chance(1, 2) && len(list) > 0:
		return pick(r, list) // exact entry
	case r.Chance(1, 2):
		return nearMiss(r, pick(r, namePool))
	default:
		return pick(r, namePool) // maybe an entry of another list
	}
}

func genDefaults(r *Rng) admissionapi.PodSecurityDefaults {
	if r.Chance(1, 3) {
		return admissionapi.PodSecurityDefaults{Enforce: "privileged", EnforceVersion: "latest", Audit: "privileged", AuditVersion: "latest", Warn: "privileged", WarnVersion: "latest"}
	}
	lv := func() string { return pick(r, validLevels) }
	vv := func() string {
		return pick(r, []string{"latest", "latest", "v1.0", "v1.7", "v1.25", "v1.26", "v1.32", "v1.40"})
	}
	return admissionapi.PodSecurityDefaults{Enforce: lv(), EnforceVersion: vv(), Audit: lv(), AuditVersion: vv(), Warn: lv(), WarnVersion: vv()}
}

var catCache []PodCase

type AdmitKnobs struct {
	Kind        string // "pod" | "ctl" | "ns" | "" (mixed)
	FaultPct    int    // % of cases with a dependency fault
	SynPct      int    // % with the synthetic evaluator
	SubPct      int    // % with a subresource
	ExemptHeavy bool
	Pods        func(r *Rng) []*corev1.Pod // population for namespace requests
	Shared      *AdmitCase                 // when set: take configuration and evaluator from this case (requests of one group go to one controller)
}

func mutateForUpdate(r *Rng, p *corev1.Pod) (*corev1.Pod, string) {
	old := p.DeepCopy()
	switch r.Intn(16) {
	case 0:
		return old, "identical"
	case 14:
		// the multiset of images stays, their assignment to containers changes: two containers of one list exchange images,
		// or one takes an image another container of the stored pod already uses (in its own list or in another one)
		lists := []*[]corev1.Container{&old.Spec.Containers, &old.Spec.InitContainers}
		l := lists[r.Intn(2)]
		if len(*l) == 0 {
			l = lists[0]
		}
		if len(*l) >= 2 {
			i := r.Intn(len(*l) - 1)
			if (*l)[i].Image != (*l)[i+1].Image {
				if r.Bool() {
					(*l)[i].Image, (*l)[i+1].Image = (*l)[i+1].Image, (*l)[i].Image
					return old, "images-exchanged"
				}
				(*l)[i].Image = (*l)[i+1].Image
				return old, "image-taken-from-neighbour"
			}
		}
		// a single regular container: borrow an init or ephemeral container's image
		if len(old.Spec.InitContainers) > 0 && old.Spec.InitContainers[0].Image != old.Spec.Containers[0].Image {
			old.Spec.Containers[0].Image = old.Spec.InitContainers[0].Image
			return old, "image-taken-from-neighbour"
		}
		if len(old.Spec.EphemeralContainers) > 0 && old.Spec.EphemeralContainers[0].Image != old.Spec.Containers[0].Image {
			old.Spec.Containers[0].Image = old.Spec.EphemeralContainers[0].Image
			return old, "image-taken-from-neighbour"
		}
		return old, "identical"
	case 15:
		// ephemeral containers: names exchanged with the images staying in place, or an image another one already uses
		if n := len(old.Spec.EphemeralContainers); n >= 2 {
			e := old.Spec.EphemeralContainers
			if e[0].Image != e[1].Image {
				if r.Bool() {
					e[0].Image, e[1].Image = e[1].Image, e[0].Image
					return old, "ephemeral-images-exchanged"
				}
				e[0].Image = e[1].Image
				return old, "image-ephemeral"
			}
		}
		return old, "identical"
	case 11:
		// the same image spelled differently: still another string, still an image change
		cs := [][]corev1.Container{old.Spec.Containers, old.Spec.InitContainers}[r.Intn(2)]
		if len(cs) == 0 {
			cs = old.Spec.Containers
		}
		c := &cs[r.Intn(len(cs))]
		if c.Image == "" {
			c.Image = "img"
			return old, "image-container"
		}
		switch r.Intn(6) {
		case 0:
			c.Image += ":latest"
		case 1:
			c.Image = "docker.io/library/" + c.Image
		case 2:
			c.Image = strings.ToUpper(c.Image[:1]) + c.Image[1:]
		case 3:
			c.Image += "@sha256:0000000000000000000000000000000000000000000000000000000000000000"
		case 4:
			c.Image += " "
		default:
			c.Image = strings.TrimSuffix(c.Image, ":latest") + ":v1"
		}
		return old, "image-respelled"
	case 12:
		// only spec.hostUsers differs between the stored and the submitted pod: not an image, not the container set
		old.Spec.HostUsers = pick(r, []*bool{nil, bp(true), bp(false)})
		if p.Spec.HostUsers == nil && old.Spec.HostUsers == nil {
			old.Spec.HostUsers = bp(false)
		}
		return old, "hostUsers-only"
	case 13:
		// fields of the stored pod no property mentions differ: node assignment, service account, tolerations, resources
		old.Spec.NodeName, old.Spec.ServiceAccountName = "node-7", "other-sa"
		old.Spec.Tolerations = append(old.Spec.Tolerations, corev1.Toleration{Key: "k", Operator: corev1.TolerationOpExists})
		old.Spec.Containers[0].Resources.Limits = corev1.ResourceList{}
		old.Status.Phase = corev1.PodPending
		return old, "insignificant-spec-fields"
	case 9:
		// the boundary between the init list and the regular list moves; the images, read init-then-regular, line up as before
		if n := len(old.Spec.InitContainers); n > 0 {
			moved := old.Spec.InitContainers[n-1]
			old.Spec.InitContainers = old.Spec.InitContainers[:n-1]
			old.Spec.Containers = append([]corev1.Container{moved}, old.Spec.Containers...)
			return old, "init-regular-boundary-moved"
		}
		if n := len(old.Spec.Containers); n > 1 {
			moved := old.Spec.Containers[0]
			old.Spec.Containers = old.Spec.Containers[1:]
			old.Spec.InitContainers = append(old.Spec.InitContainers, moved)
			return old, "init-regular-boundary-moved"
		}
		return old, "identical"
	case 10:
		// one list grows and another shrinks by one container (same images elsewhere)
		if n := len(old.Spec.EphemeralContainers); n > 0 {
			e := old.Spec.EphemeralContainers[n-1]
			old.Spec.EphemeralContainers = old.Spec.EphemeralContainers[:n-1]
			old.Spec.Containers = append(old.Spec.Containers, corev1.Container{Name: e.Name, Image: e.Image})
			return old, "ephemeral-regular-boundary-moved"
		}
		old.Spec.InitContainers = append(old.Spec.InitContainers, old.Spec.Containers[len(old.Spec.Containers)-1])
		if len(old.Spec.Containers) > 1 {
			old.Spec.Containers = old.Spec.Containers[:len(old.Spec.Containers)-1]
			return old, "init-regular-boundary-moved"
		}
		return old, "init-removed"
	case 1:
		old.Labels = map[string]string{"x": "y"}
		old.Finalizers = []string{"f"}
		return old, "metadata-only"
	case 2:
		old.Spec.Containers[0].Image = "other"
		return old, "image-container"
	case 3:
		if len(old.Spec.InitContainers) > 0 {
			old.Spec.InitContainers[len(old.Spec.InitContainers)-1].Image = "other"
			return old, "image-init"
		}
		old.Spec.InitContainers = append(old.Spec.InitContainers, corev1.Container{Name: "newinit", Image: "i"})
		return old, "init-removed"
	case 4:
		if len(old.Spec.EphemeralContainers) > 0 {
			old.Spec.EphemeralContainers[0].Image = "other"
			return old, "image-ephemeral"
		}
		return old, "identical"
	case 5:
		if len(old.Spec.EphemeralContainers) > 0 {
			old.Spec.EphemeralContainers = old.Spec.EphemeralContainers[1:]
			return old, "ephemeral-added"
		}
		old.Spec.EphemeralContainers = append(old.Spec.EphemeralContainers, corev1.EphemeralContainer{EphemeralContainerCommon: corev1.EphemeralContainerCommon{Name: "gone", Image: "i"}})
		return old, "ephemeral-removed"
	case 6:
		old.Spec.Containers = append(old.Spec.Containers, corev1.Container{Name: "extra", Image: "i"})
		return old, "container-removed"
	case 7:
		if len(old.Spec.EphemeralContainers) > 1 {
			old.Spec.EphemeralContainers[0], old.Spec.EphemeralContainers[1] = old.Spec.EphemeralContainers[1], old.Spec.EphemeralContainers[0]
			return old, "ephemeral-reordered"
		}
		if len(old.Spec.EphemeralContainers) == 1 {
			old.Spec.EphemeralContainers[0].Name = "renamed"
			return old, "ephemeral-renamed"
		}
		return old, "identical"
	default:
		// security-relevant field changed but no image / container set change
		if old.Spec.SecurityContext == nil {
			old.Spec.SecurityContext = &corev1.PodSecurityContext{}
		}
		old.Spec.HostNetwork = !old.Spec.HostNetwork
		return old, "security-field-only"
	}
}

var subresources = []string{"exec", "attach", "binding", "eviction", "log", "portforward", "proxy", "status", "ephemeralcontainers", "resize", "Status", "unknownsub", "scale", "exec2"}

func genAdmitCase(r *Rng, i int, k AdmitKnobs) *AdmitCase {
	a := &AdmitCase{Defaults: genDefaults(r), ExpireAfter: -1, Salt: r.Intn(1000)}
	tag := func(t string) { a.Tags = append(a.Tags, t) }
	if r.Chance(1, 4) && !k.ExemptHeavy {
		a.ExNS, a.ExUsers, a.ExRC = []string{}, []string{}, []string{}
	} else {
		a.ExNS, a.ExUsers, a.ExRC = subset(r, namePool), subset(r, namePool), subset(r, namePool)
	}
	if k.Shared != nil { // a request to the same controller as the group's first request: same configuration, same evaluator
		a.Defaults, a.ExNS, a.ExUsers, a.ExRC, a.Salt = k.Shared.Defaults, k.Shared.ExNS, k.Shared.ExUsers, k.Shared.ExRC, k.Shared.Salt
	}
	a.NS = pickName(r, a.ExNS, "ns")
	a.User = pickName(r, a.ExUsers, "u")
	if side := NewRng(uint64(i)*7919 + 13); a.User == "u" && side.Chance(1, 3) { // a side stream: the case's other choices stay what they were
		r := side
		// the classes of user an API server really sees: controllers' service accounts (what creates the pods of a workload),
		// nodes, administrators, an anonymous request
		a.User = pick(r, []string{"system:serviceaccount:kube-system:replicaset-controller", "system:serviceaccount:kube-system:job-controller", "system:serviceaccount:team:builder",
			"system:node:node-1", "system:admin", "kubernetes-admin", "system:anonymous", "system:kube-controller-manager"})
	}
	a.Name = fmt.Sprintf("obj-%d", i)
	a.Syn = r.Intn(100) < k.SynPct
	if k.Shared != nil {
		a.Syn = k.Shared.Syn
	}
	a.NSLabels = genLabels(r)
	a.Op = admissionv1.Create
	if r.Chance(2, 5) {
		a.Op = admissionv1.Update
	}
	if r.Chance(1, 40) {
		a.Op = pick(r, []admissionv1.Operation{admissionv1.Delete, admissionv1.Connect})
	}
	if r.Intn(100) < k.SubPct {
		a.Sub = pick(r, subresources)
	}
	kind := k.Kind
	if kind == "" {
		kind = pick(r, []string{"pod", "pod", "pod", "ctl", "ctl", "ns", "unknown"})
	}
	pc := genPod(r.Fork(), i)
	if r.Chance(1, 4) { // a catalogue pod: compliant but for one field set to one catalogued value
		if catCache == nil {
			catCache = catalogPods()
		}
		pc = PodCase{Pod: catCache[r.Intn(len(catCache))].Pod.DeepCopy(), Base: "catalog"}
	}
	pod := pc.Pod
	pod.Name = a.Name
	if kind != "ns" && a.Op == admissionv1.Create && r.Chance(1, 12) { // created from generateName: the request and the object have no name yet
		a.Name, pod.Name, pod.GenerateName = "", "", "gen-"
		tag("name.generated")
	}
	if r.Chance(1, 4) { // request attributes no property mentions: the API version of the resource, the kind
		a.AttrNoise = 1 + r.Intn(3)
	}
	if r.Chance(1, 3) || k.ExemptHeavy {
		rc := pickName(r, a.ExRC, "rc")
		pod.Spec.RuntimeClassName = &rc
		if r.Chance(1, 6) {
			pod.Spec.RuntimeClassName = nil
		}
	}
	fault := r.Intn(100) < k.FaultPct
	faultSite := -1
	if fault {
		faultSite = r.Intn(5)
	}
	switch kind {
	case "pod":
		a.Res = "pods"
		a.Obj = ObjSpec{Kind: "pod", Pod: pod}
		if a.Op == admissionv1.Update {
			old, how := mutateForUpdate(r, pod)
			tag("update." + how)
			a.Old = ObjSpec{Kind: "pod", Pod: old}
		}
	case "ctl":
		a.Res = pick(r, controllerKinds)
		a.Obj = ObjSpec{Kind: "controller", Pod: pod, CtlKind: a.Res}
		if r.Chance(1, 3) {
			a.Obj.OuterMeta = true
			tag("ctl.outerMeta")
		}
		if a.Res == "replicationcontrollers" && r.Chance(1, 4) {
			a.Obj.NoTemplate = true
			tag("ctl.noTemplate")
		}
		if a.Op == admissionv1.Update {
			a.Old = a.Obj
		}
		tag("ctl." + a.Res)
	case "unknown":
		a.Res = "configmaps"
		a.Obj = ObjSpec{Kind: "other"}
	case "ns":
		a.Res = "namespaces"
		a.Name = a.NS
		newL := genLabels(r)
		a.Obj = ObjSpec{Kind: "namespace", NSName: pick(r, []string{a.NS, a.NS, "othername"}), Labels: newL}
		if a.Op == admissionv1.Update {
			oldL := genLabels(r)
			switch r.Intn(8) {
			case 0:
				oldL = newL
			case 1: // same errors, different valid labels
				oldL = map[string]string{}
				for kk, v := range newL {
					oldL[kk] = v
				}
				oldL["unrelated2"] = "z"
			case 2, 3, 4: // related error sets: the old labels are the new ones with several labels broken, or the other way
				// round (subset / superset / overlapping sets of invalid labels, the kept ones byte for byte)
				base := map[string]string{}
				for kk, v := range newL {
					base[kk] = v
				}
				broken := map[string]string{}
				for kk, v := range base {
					broken[kk] = v
				}
				for i, kk := range labelKeys {
					if r.Chance(1, 2) {
						if i%2 == 0 {
							broken[kk] = pick(r, malformedLevels)
						} else {
							broken[kk] = pick(r, malformedVersions)
						}
					}
				}
				tag("ns.relatedErrors")
				if r.Bool() {
					oldL = broken // the update repairs some labels and leaves the other invalid ones as they were
				} else {
					oldL, newL = base, broken
					a.Obj.Labels = newL
				}
				if r.Chance(1, 2) { // and one more label both sides agree on being invalid
					kk := pick(r, labelKeys)
					nl := map[string]string{}
					for k2, v := range newL {
						nl[k2] = v
					}
					newL = nl
					oldL[kk], newL[kk] = "bogus", "bogus"
					a.Obj.Labels = newL
				}
			}
			a.Old = ObjSpec{Kind: "namespace", NSName: a.Obj.NSName, Labels: oldL}
		}
		if k.Pods != nil {
			a.Pods = k.Pods(r)
		} else {
			n := r.Intn(9)
			if r.Bool() {
				a.Pods = genPopulation(r, n, a.ExRC)
			} else {
				for j := 0; j < n; j++ {
					a.Pods = append(a.Pods, genPopPod(r, j, a.ExRC))
				}
			}
		}
		for _, p := range a.Pods {
			podStatusNoise(r, p)
		}
		if r.Chance(1, 4) && len(a.Pods) > 0 {
			a.ExpireAfter = r.Intn(len(a.Pods) + 2)
		}
		if r.Chance(1, 5) {
			a.Remaining = pick(r, []time.Duration{200 * time.Millisecond, 1900 * time.Millisecond, 2 * time.Second, 2100 * time.Millisecond, 10 * time.Second, 3 * time.Second})
		}
		if r.Chance(1, 30) {
			a.Remaining = 1 // the request's deadline has already passed when it arrives
			tag("deadline.alreadyPassed")
		}
	}
	// the request's own context: already cancelled, or its deadline already passed, when the request arrives (no property makes
	// a verdict, a warning or an annotation depend on that; only the dry run may be cut short)
	if kind != "ns" && r.Chance(1, 14) {
		if r.Bool() {
			a.CtxCancelled = true
			tag("ctx.cancelled")
		} else {
			a.Remaining = 1
			tag("deadline.alreadyPassed")
		}
	} else if kind == "ns" && r.Chance(1, 40) {
		a.CtxCancelled = true
		tag("ctx.cancelled")
	}
	// metadata no property mentions: equal / different generations and resource versions on the object and the old object
	if r.Chance(2, 3) {
		a.Obj.MetaGen = pick(r, []int64{0, 1, 1, 2, 7})
		a.Obj.MetaRV = pick(r, []string{"", "41", "42"})
		if a.Op == admissionv1.Update {
			a.Old.MetaGen, a.Old.MetaRV = a.Obj.MetaGen, pick(r, []string{a.Obj.MetaRV, "40"})
			if r.Chance(1, 3) {
				a.Old.MetaGen = pick(r, []int64{0, 1, 6})
			}
			if a.Old.MetaGen == a.Obj.MetaGen && a.Obj.MetaGen != 0 {
				tag("meta.sameGeneration")
			}
			if a.Old.MetaGen%2 == 1 && a.Obj.MetaGen%2 == 1 && a.Old.MetaRV != "" && a.Obj.MetaRV != "" {
				tag("meta.bothTerminating")
			}
		}
	}
	// the looked-up namespace object outside its labels: terminating, long-lived with annotations, ...
	if r.Chance(1, 3) {
		a.NSMeta = 1 + r.Intn(4)
		tag(fmt.Sprintf("nsMeta.%d", a.NSMeta))
	}
	switch faultSite {
	case 0:
		a.NSErr = true
		a.NSErrKind = r.Intn(len(nsErrKinds))
		tag("fault.nsLookup")
		tag("fault.nsLookup." + nsErrKinds[a.NSErrKind])
	case 1:
		a.Obj = ObjSpec{Kind: "err"}
		tag("fault.objDecode")
	case 2:
		if kind == "ctl" {
			a.Obj = ObjSpec{Kind: "other"}
		} else {
			a.Obj = ObjSpec{Kind: pick(r, []string{"other", "nil", "namespace", "pod", "controller", "controller"}), Pod: pod, NSName: "x"}
			if (kind == "pod" && a.Obj.Kind == "pod") || (kind == "ns" && a.Obj.Kind == "namespace") {
				a.Obj.Kind = "other"
			}
			if a.Obj.Kind == "controller" { // an object of a workload kind where a pod / a namespace is expected
				a.Obj.CtlKind = pick(r, controllerKinds)
				a.Obj.NoTemplate = a.Obj.CtlKind == "replicationcontrollers" && r.Bool()
				tag("fault.objType.workload")
			}
		}
		tag("fault.objType")
	case 3:
		if a.Op == admissionv1.Update {
			a.Old = ObjSpec{Kind: "err"}
			tag("fault.oldDecode")
		}
	case 4:
		if a.Op == admissionv1.Update {
			if kind == "ctl" {
				a.Old = ObjSpec{Kind: "other"}
			} else {
				a.Old = ObjSpec{Kind: pick(r, []string{"other", "nil", "controller"})}
				if a.Old.Kind == "controller" {
					a.Old.Pod, a.Old.CtlKind = pod.DeepCopy(), pick(r, controllerKinds)
					a.Old.NoTemplate = a.Old.CtlKind == "replicationcontrollers" && r.Bool()
					tag("fault.oldType.workload")
				}
			}
			tag("fault.oldType")
		}
		if kind == "ns" {
			a.ListErr = true
			tag("fault.list")
		}
	}
	tag("kind." + kind)
	tag("op." + string(a.Op))
	if a.Sub != "" {
		tag("sub")
	}
	if a.Syn {
		tag("ev.syn")
	} else {
		tag("ev.real")
	}
	return a
}

// genPopPod: a pod of an existing population (namespace dry run)
// podStatusNoise: the part of an existing pod no property mentions — its status (phase, reason, conditions, container statuses)
// and where it runs. A finished, evicted or unschedulable pod still exists in the namespace.
func podStatusNoise(r *Rng, p *corev1.Pod) {
	if !r.Chance(2, 5) {
		return
	}
	p.Status.Phase = pick(r, []corev1.PodPhase{corev1.PodPending, corev1.PodRunning, corev1.PodSucceeded, corev1.PodFailed, corev1.PodUnknown, corev1.PodSucceeded, corev1.PodFailed})
	switch p.Status.Phase {
	case corev1.PodFailed:
		p.Status.Reason = pick(r, []string{"Evicted", "NodeLost", "DeadlineExceeded", ""})
		p.Status.Message = "The node was low on resource: memory."
	case corev1.PodSucceeded:
		p.Status.ContainerStatuses = []corev1.ContainerStatus{{Name: "c", State: corev1.ContainerState{Terminated: &corev1.ContainerStateTerminated{ExitCode: 0, Reason: "Completed"}}}}
	case corev1.PodRunning:
		p.Status.Conditions = []corev1.PodCondition{{Type: corev1.PodReady, Status: corev1.ConditionTrue}}
		p.Status.PodIP, p.Status.HostIP = "10.0.0.7", "192.168.1.4"
		p.Status.QOSClass = corev1.PodQOSBestEffort
	case corev1.PodPending:
		p.Status.Conditions = []corev1.PodCondition{{Type: corev1.PodScheduled, Status: corev1.ConditionFalse, Reason: corev1.PodReasonUnschedulable}}
	}
}

func genPopPod(r *Rng, j int, exRC []string) *corev1.Pod {
	name := pick(r, []string{"pod", "p", "a", "z", "web", "db"}) + fmt.Sprintf("-%d", r.Intn(50))
	if r.Chance(1, 6) {
		name = pick(r, []string{"a", "A", "a-", "a0", "b", "aa"})
	}
	p := &corev1.Pod{ObjectMeta: metav1.ObjectMeta{Name: name, Namespace: "ns"}, Spec: corev1.PodSpec{Containers: []corev1.Container{{Name: "c", Image: "i"}}}}
	if r.Chance(1, 2) {
		t := true
		p.OwnerReferences = []metav1.OwnerReference{{UID: types.UID(fmt.Sprintf("owner-%d", r.Intn(3))), Controller: &t}}
		if r.Chance(1, 5) {
			f := false
			p.OwnerReferences[0].Controller = &f // an owner that is not the controller
		}
	}
	if r.Chance(1, 4) {
		rc := pickName(r, exRC, "rc")
		p.Spec.RuntimeClassName = &rc
	}
	if r.Chance(1, 3) {
		p.Spec.HostNetwork = true
	}
	if r.Chance(1, 3) {
		p.Spec.Containers[0].SecurityContext = &corev1.SecurityContext{Privileged: bp(true)}
	}
	if r.Chance(1, 3) {
		wellKnownMeta(r, &p.ObjectMeta)
	}
	return p
}

// genPopulation: an existing-pod population built from motifs rather than independent pods: groups of 1-4 pods owned by one
// controller whose members differ in runtime class (exempt / not) and in compliance, in every order (exempt member first,
// compliant member first, violating member first), pods without an owner, name clashes — then left in motif order or
// shuffled. What a dry run reports must not depend on which member of a group comes first.
func genPopulation(r *Rng, n int, exRC []string) []*corev1.Pod {
	var ps []*corev1.Pod
	owner := 0
	for len(ps) < n {
		size := 1 + r.Intn(4)
		if size > n-len(ps) {
			size = n - len(ps)
		}
		owned := r.Chance(2, 3)
		owner++
		// member kinds: e = exempt runtime class, c = compliant, v = violating
		kinds := make([]byte, size)
		for i := range kinds {
			kinds[i] = "ecvv"[r.Intn(4)]
		}
		if size >= 2 && r.Chance(1, 2) {
			kinds[0] = "ecv"[r.Intn(3)]
			kinds[1] = "vce"[r.Intn(3)]
		}
		for i, k := range kinds {
			p := genPopPod(r, len(ps), nil)
			p.Spec.HostNetwork, p.Spec.RuntimeClassName = false, nil
			p.Spec.Containers[0].SecurityContext = nil
			p.OwnerReferences = nil
			if owned {
				t := true
				p.OwnerReferences = []metav1.OwnerReference{{UID: types.UID(fmt.Sprintf("ctl-%d", owner)), Controller: &t}}
			}
			switch k {
			case 'e':
				rc := "rc"
				if len(exRC) > 0 {
					rc = pick(r, exRC)
				}
				p.Spec.RuntimeClassName = &rc
				if r.Bool() {
					p.Spec.HostNetwork = true
				}
			case 'v':
				if r.Chance(1, 3) { // a violation that lives in the metadata only: the spec equals a compliant sibling's
					p.Annotations = map[string]string{"container.apparmor.security.beta.kubernetes.io/c": "unconfined"}
				} else if r.Bool() {
					p.Spec.HostNetwork = true
				} else {
					p.Spec.Containers[0].SecurityContext = &corev1.SecurityContext{Privileged: bp(true)}
				}
				if r.Chance(1, 5) {
					rc := pickName(r, exRC, "rc") // maybe a near miss of an exempt class
					p.Spec.RuntimeClassName = &rc
				}
			}
			_ = i
			ps = append(ps, p)
		}
	}
	if r.Chance(1, 2) {
		perm := r.Perm(len(ps))
		out := make([]*corev1.Pod, len(ps))
		for i, j := range perm {
			out[i] = ps[j]
		}
		ps = out
	}
	return ps
}

package main

import (
	"context"
	"encoding/json"
	"fmt"
	"net/http"
	"net/http/httptest"
	"sort"
	"strings"

	admissionv1 "k8s.io/api/admission/v1"
	corev1 "k8s.io/api/core/v1"
	metav1 "k8s.io/apimachinery/pkg/apis/meta/v1"
	"k8s.io/client-go/kubernetes"
	corev1listers "k8s.io/client-go/listers/core/v1"
	"k8s.io/client-go/rest"
	"k8s.io/client-go/tools/cache"
	compbasemetrics "k8s.io/component-base/metrics"
	"k8s.io/pod-security-admission/admission"
	admissionapi "k8s.io/pod-security-admission/admission/api"
	"k8s.io/pod-security-admission/api"
	"k8s.io/pod-security-admission/metrics"
	"k8s.io/pod-security-admission/policy"
	pstest "k8s.io/pod-security-admission/test"
)

// Directed phases added after round 14 of the seeded changes (DESIGN 12.22). Each runs after, or apart from, the generated
// streams of its property; none of them draws from an existing generator.

// c03SubsetEvaluators: the order of the levels on evaluators built from a SUBSET of the shipped checks (every baseline check,
// and none / one / some / all of the restricted ones) at old and new versions. For every such evaluator the restricted list is
// the baseline list minus what a present restricted check overrides, plus the restricted checks present — so an API-valid pod
// allowed at restricted is allowed at baseline, whichever restricted checks the evaluator was given.
func c03SubsetEvaluators(c *Ctx) {
	var baseline, restricted []policy.Check
	for _, ch := range policy.DefaultChecks() {
		if ch.Level == api.LevelRestricted {
			restricted = append(restricted, ch)
		} else {
			baseline = append(baseline, ch)
		}
	}
	type subset struct {
		name   string
		checks []policy.Check
	}
	subsets := []subset{{"baseline checks only", baseline}}
	for _, rc := range restricted {
		subsets = append(subsets, subset{"baseline checks + " + string(rc.ID), append(append([]policy.Check{}, baseline...), rc)})
	}
	var late []policy.Check // the restricted checks whose first revision is later than v1.0
	for _, rc := range restricted {
		if len(rc.Versions) > 0 && rc.Versions[0].MinimumVersion != api.MajorMinorVersion(1, 0) {
			late = append(late, rc)
		}
	}
	subsets = append(subsets, subset{"baseline checks + the restricted checks introduced after v1.0", append(append([]policy.Check{}, baseline...), late...)})
	cat := catalogPods()
	minors := []int{0, 1, 7, 8, 18, 19, 21, 22, 24, 25, 31, 32, -1}
	shown := 0
	var ops, ins []J
	var gos [][]RevResult
	for si, s := range subsets {
		// the subset's checks, each revision reporting what it returned (as newRecEvaluator does for the full set)
		var log []RevResult
		var keep []string
		checks := make([]policy.Check, len(s.checks))
		for i, ch := range s.checks {
			keep = append(keep, string(ch.ID))
			checks[i] = ch
			checks[i].Versions = append([]policy.VersionedCheck{}, ch.Versions...)
			for j := range checks[i].Versions {
				name := fmt.Sprintf("%s@%d", ch.ID, checks[i].Versions[j].MinimumVersion.Minor())
				fn := checks[i].Versions[j].CheckPod
				checks[i].Versions[j].CheckPod = func(m *metav1.ObjectMeta, sp *corev1.PodSpec) policy.CheckResult {
					r := fn(m, sp)
					log = append(log, RevResult{Rev: name, Allowed: r.Allowed, Reason: r.ForbiddenReason, Detail: r.ForbiddenDetail})
					return r
				}
			}
		}
		ev, err := policy.NewEvaluator(checks)
		if err != nil {
			c.Violate(Finding{Desc: "an evaluator cannot be built from " + s.name + ": " + err.Error(), Key: "subset-evaluator-refused", Input: s.name})
			continue
		}
		// correspondence: the model's evaluator for the same subset (driver op evalSubset, the function C03_order_every_subset is
		// about) runs the same revisions in the same order with the same verdicts — on a sample of (version, pod)
		for k, pc := range cat {
			if (k+si)%23 != 0 || !apiValid(&pc.Pod.Spec) {
				continue
			}
			m := minors[(k/23+si)%len(minors)]
			for _, l := range []string{"baseline", "restricted"} {
				log = log[:0]
				ev.EvaluatePod(mkLV(l, m), &pc.Pod.ObjectMeta, &pc.Pod.Spec)
				c.Eval(1)
				gos = append(gos, append([]RevResult{}, log...))
				ops = append(ops, J{"op": "evalSubset", "keep": keep, "level": l, "version": minorJSON(m), "relax": false, "pod": projectPod(&pc.Pod.ObjectMeta, &pc.Pod.Spec)})
				ins = append(ins, J{"checks": s.name, "level": l, "minor": m, "atoms": pc.Atoms, "pod": pc.Pod})
			}
		}
		for _, m := range minors {
			for _, pc := range cat {
				p := pc.Pod
				if !apiValid(&p.Spec) {
					continue
				}
				rr := policy.AggregateCheckResults(ev.EvaluatePod(mkLV("restricted", m), &p.ObjectMeta, &p.Spec))
				rb := policy.AggregateCheckResults(ev.EvaluatePod(mkLV("baseline", m), &p.ObjectMeta, &p.Spec))
				c.Eval(2)
				if rr.Allowed && !rb.Allowed {
					if shown++; shown <= 5 {
						c.Violate(Finding{Desc: fmt.Sprintf("evaluator built from %s: an API-valid pod is allowed at restricted and denied at baseline (%s) at version %s", s.name, rb.ForbiddenReason(), verName("", m)), Key: "order-subset-evaluator",
							Input: J{"checks": s.name, "minor": m, "atoms": pc.Atoms, "pod": p}})
					}
				}
			}
		}
		c.Tag("c03.subsetEvaluator")
	}
	for k, o := range c.Lean(ops) {
		if lr := leanResults(o); bits(lr) != bits(gos[k]) {
			c.Disagree(Finding{Desc: "an evaluator built from a subset of the checks runs other revisions, or gets other verdicts, than the model's evaluator for that subset", Input: ins[k], Go: bits(gos[k]), Lean: bits(lr)})
		}
	}
}

// newPlainAdmission: a controller as an embedder assembles it, with the given defaults and namespaces
func newPlainAdmission(d admissionapi.PodSecurityDefaults, ex admissionapi.PodSecurityExemptions, getter admission.NamespaceGetter, lister admission.PodLister) *admission.Admission {
	adm := &admission.Admission{
		Configuration: &admissionapi.PodSecurityConfiguration{Defaults: d, Exemptions: ex},
		Evaluator:     realEvaluator, Metrics: &recorder{}, PodSpecExtractor: admission.DefaultPodSpecExtractor{}, NamespaceGetter: getter, PodLister: lister}
	if err := adm.CompleteConfiguration(); err != nil {
		panic(err)
	}
	return adm
}

// c05LongLivedController: label maps resolved one after another by ONE controller (as the webhook does for the life of the
// process): pairs of maps that hold the same keys and the same values, assigned differently; the same map again; maps that
// differ in one value only. Every resolution must be the fail-safe rule's for that map and the controller's defaults, whatever
// was resolved before.
func c05LongLivedController(c *Ctx) {
	r := NewRng(c.Seed + 514)
	defaultsList := []admissionapi.PodSecurityDefaults{
		{Enforce: "privileged", EnforceVersion: "latest", Audit: "privileged", AuditVersion: "latest", Warn: "privileged", WarnVersion: "latest"},
		{Enforce: "baseline", EnforceVersion: "v1.25", Audit: "restricted", AuditVersion: "latest", Warn: "baseline", WarnVersion: "v1.20"},
	}
	keys := []string{api.EnforceLevelLabel, api.EnforceVersionLabel, api.AuditLevelLabel, api.AuditVersionLabel, api.WarnLevelLabel, api.WarnVersionLabel}
	for _, d := range defaultsList {
		adm := newPlainAdmission(d, admissionapi.PodSecurityExemptions{}, nsByName{}, clusterLister{})
		dp := defaultsPolicy(d)
		resolve := func(labels map[string]string, after []map[string]string) {
			p, errs := adm.PolicyToEvaluate(labels)
			es := [][]string{}
			for _, e := range errs {
				es = append(es, []string{strings.TrimSuffix(strings.TrimPrefix(e.Field, "metadata.labels["), "]"), fmt.Sprint(e.BadValue)})
			}
			want := specPolicyGo(labels, dp)
			c.Eval(1)
			if canon(polJSON(want.p)) != canon(polJSON(p)) || canon(want.errs) != canon(es) {
				c.Violate(Finding{Desc: fmt.Sprintf("a long-lived controller resolves labels to %s with errors %v; the fail-safe rule says %s with errors %v", canon(polJSON(p)), es, canon(polJSON(want.p)), want.errs), Key: "policy-after-history",
					Input: J{"labels": labels, "defaults": polJSON(dp), "resolvedBeforeOnTheSameController": after}})
			}
		}
		var directed [][2]map[string]string
		directed = append(directed,
			[2]map[string]string{{api.EnforceLevelLabel: "baseline", api.WarnLevelLabel: "restricted"}, {api.EnforceLevelLabel: "restricted", api.WarnLevelLabel: "baseline"}},
			[2]map[string]string{{api.EnforceLevelLabel: "restricted", api.AuditLevelLabel: "privileged"}, {api.EnforceLevelLabel: "privileged", api.AuditLevelLabel: "restricted"}},
			[2]map[string]string{{api.EnforceVersionLabel: "v1.20", api.AuditVersionLabel: "v1.25", api.EnforceLevelLabel: "restricted"}, {api.EnforceVersionLabel: "v1.25", api.AuditVersionLabel: "v1.20", api.EnforceLevelLabel: "restricted"}},
			[2]map[string]string{{api.AuditLevelLabel: "baseline", api.WarnLevelLabel: "bogus"}, {api.AuditLevelLabel: "bogus", api.WarnLevelLabel: "baseline"}},
			[2]map[string]string{{api.EnforceLevelLabel: "baseline", api.EnforceVersionLabel: "latest"}, {api.EnforceLevelLabel: "latest", api.EnforceVersionLabel: "baseline"}},
			[2]map[string]string{{api.EnforceLevelLabel: "restricted"}, {api.EnforceLevelLabel: "baseline"}},
			[2]map[string]string{{api.EnforceLevelLabel: "restricted", "team": "a"}, {api.EnforceLevelLabel: "restricted", "team": "b"}},
		)
		n := sizes(c, 300, 4000)
		for i := 0; i < n+len(directed); i++ {
			var m1, m2 map[string]string
			if i < len(directed) {
				m1, m2 = directed[i][0], directed[i][1]
			} else {
				// a random map and a rotation of its values over its pod-security keys
				m1 = genLabels(r)
				var ks []string
				for _, k := range keys {
					if _, ok := m1[k]; ok {
						ks = append(ks, k)
					}
				}
				m2 = map[string]string{}
				for k, v := range m1 {
					m2[k] = v
				}
				for j, k := range ks {
					m2[k] = m1[ks[(j+1)%len(ks)]]
				}
			}
			resolve(m1, nil)
			resolve(m2, []map[string]string{m1})
			resolve(m1, []map[string]string{m1, m2})
		}
		c.Tag("c05.longLivedController")
	}
}

// mixedNamespaces: where the mixed reviews go (six entries: a phase may substitute others of the same number)
var mixedNamespaces = []string{"priv", "restricted", "baseline", "exns", "badlabels", "missing"}

// c06EmptyNamespaceThroughWebhook: "empty values never match" on the path requests really take — decoded from a review by
// api.RequestAttributes: requests that name NO namespace, on a controller that exempts the namespace called "default" (what an
// empty namespace is sometimes taken to mean elsewhere in Kubernetes). The webhook's answer must be the library's for the same
// attributes stated directly.
func c06EmptyNamespaceThroughWebhook(c *Ctx) {
	namespaces := nsByName{
		"default":    {"pod-security.kubernetes.io/enforce": "restricted"},
		"restricted": {"pod-security.kubernetes.io/enforce": "restricted"},
		"exns":       {"pod-security.kubernetes.io/enforce": "restricted"},
		"":           {"pod-security.kubernetes.io/enforce": "restricted", "pod-security.kubernetes.io/warn": "restricted"},
	}
	newAdm := func(lister admission.PodLister) *admission.Admission {
		return newPlainAdmission(admissionapi.PodSecurityDefaults{Enforce: "baseline", EnforceVersion: "latest", Audit: "restricted", AuditVersion: "latest", Warn: "restricted", WarnVersion: "latest"},
			admissionapi.PodSecurityExemptions{Namespaces: []string{"default", "exns"}, Usernames: []string{"exuser"}, RuntimeClasses: []string{"exrc"}}, namespaces, lister)
	}
	savedNS, savedUsers := mixedNamespaces, mixedUsers
	mixedNamespaces = []string{"", "default", "", "exns", "restricted", ""}
	mixedUsers = []string{"u", "u", "exuser", "", "default"}
	defer func() { mixedNamespaces, mixedUsers = savedNS, savedUsers }()
	webhookMixed(c, sizes(c, 360, 6000), "", namespaces, newAdm)
	c.Tag("c06.emptyNamespaceThroughWebhook")
}

// fakeAPIServer: an API server that knows the given namespaces (GET /api/v1/namespaces/<name>) and no pods
func fakeAPIServer(namespaces map[string]map[string]string) *httptest.Server {
	return httptest.NewServer(http.HandlerFunc(func(w http.ResponseWriter, r *http.Request) {
		w.Header().Set("Content-Type", "application/json")
		parts := strings.Split(strings.Trim(r.URL.Path, "/"), "/")
		switch {
		case len(parts) == 4 && parts[2] == "namespaces":
			if l, ok := namespaces[parts[3]]; ok {
				json.NewEncoder(w).Encode(&corev1.Namespace{TypeMeta: metav1.TypeMeta{Kind: "Namespace", APIVersion: "v1"}, ObjectMeta: metav1.ObjectMeta{Name: parts[3], Labels: l}})
				return
			}
			w.WriteHeader(404)
			json.NewEncoder(w).Encode(&metav1.Status{TypeMeta: metav1.TypeMeta{Kind: "Status", APIVersion: "v1"}, Status: "Failure", Reason: metav1.StatusReasonNotFound, Code: 404,
				Message: fmt.Sprintf("namespaces %q not found", parts[3]), Details: &metav1.StatusDetails{Name: parts[3], Kind: "namespaces"}})
		case len(parts) == 5 && parts[4] == "pods":
			json.NewEncoder(w).Encode(&corev1.PodList{TypeMeta: metav1.TypeMeta{Kind: "PodList", APIVersion: "v1"}})
		default:
			w.WriteHeader(404)
		}
	}))
}

// c08RealNamespaceGetters: audit and warn findings with the repository's own namespace getters in front of an API server —
// client only; informer cache that holds the namespace; informer cache that has not seen it yet (the getter then asks the API
// server). Pods and controllers whose object violates the namespace's audit / warn policy (which differs from the defaults)
// must get the answer they get when the same labels are handed over directly.
func c08RealNamespaceGetters(c *Ctx) {
	labels := map[string]map[string]string{
		"team-a": {api.AuditLevelLabel: "baseline", api.WarnLevelLabel: "restricted", api.WarnVersionLabel: "v1.25"},
		"team-b": {api.EnforceLevelLabel: "baseline", api.AuditLevelLabel: "restricted", api.AuditVersionLabel: "v1.24", api.WarnLevelLabel: "baseline"},
		"team-c": {api.EnforceLevelLabel: "privileged", api.AuditLevelLabel: "privileged", api.WarnLevelLabel: "privileged"},
	}
	ts := fakeAPIServer(labels)
	defer ts.Close()
	cs, err := kubernetes.NewForConfig(&rest.Config{Host: ts.URL, QPS: -1})
	if err != nil {
		c.Disagree(Finding{Desc: "cannot build a clientset for the fake API server: " + err.Error()})
		return
	}
	defaultsList := []admissionapi.PodSecurityDefaults{
		{Enforce: "privileged", EnforceVersion: "latest", Audit: "privileged", AuditVersion: "latest", Warn: "privileged", WarnVersion: "latest"},
		{Enforce: "privileged", EnforceVersion: "latest", Audit: "restricted", AuditVersion: "latest", Warn: "restricted", WarnVersion: "latest"},
	}
	mkPod := func(name, ns string, kind int) *corev1.Pod {
		p := &corev1.Pod{ObjectMeta: metav1.ObjectMeta{Name: name, Namespace: ns}, Spec: corev1.PodSpec{Containers: []corev1.Container{{Name: "c", Image: "i"}}}}
		switch kind {
		case 1:
			p.Spec.HostNetwork = true
		case 2:
			t := true
			p.Spec.Containers[0].SecurityContext = &corev1.SecurityContext{Privileged: &t}
		}
		return p
	}
	for di, d := range defaultsList {
		for _, variant := range []string{"client", "lister(has it)+client", "lister(has not seen it)+client"} {
			var getter admission.NamespaceGetter
			switch variant {
			case "client":
				getter = admission.NamespaceGetterFromClient(cs)
			default:
				idx := cache.NewIndexer(cache.MetaNamespaceKeyFunc, cache.Indexers{})
				idx.Add(&corev1.Namespace{ObjectMeta: metav1.ObjectMeta{Name: "elsewhere"}})
				if variant == "lister(has it)+client" {
					for n, l := range labels {
						idx.Add(&corev1.Namespace{ObjectMeta: metav1.ObjectMeta{Name: n, Labels: l}})
					}
				}
				getter = admission.NamespaceGetterFromListerAndClient(corev1listers.NewNamespaceLister(idx), cs)
			}
			real := newPlainAdmission(d, admissionapi.PodSecurityExemptions{}, getter, clusterLister{})
			direct := newPlainAdmission(d, admissionapi.PodSecurityExemptions{}, nsByName(labels), clusterLister{})
			for _, ns := range []string{"team-a", "team-b", "team-c"} {
				for kind := 0; kind < 3; kind++ {
					for _, res := range []string{"pods", "deployments", "jobs", "replicationcontrollers", "cronjobs"} {
						for _, op := range []admissionv1.Operation{admissionv1.Create, admissionv1.Update} {
							name := fmt.Sprintf("o-%d", kind)
							a := &AdmitCase{Res: res, Op: op, Name: name, NS: ns, User: "u", ExpireAfter: -1}
							if res == "pods" {
								a.Obj = ObjSpec{Kind: "pod", Pod: mkPod(name, ns, kind)}
								if op == admissionv1.Update {
									old := mkPod(name, ns, kind)
									old.Spec.Containers[0].Image = "previous"
									a.Old = ObjSpec{Kind: "pod", Pod: old}
								}
							} else {
								a.Obj = ObjSpec{Kind: "controller", CtlKind: res, Pod: mkPod(name, ns, kind)}
								if op == admissionv1.Update {
									a.Old = ObjSpec{Kind: "controller", CtlKind: res, Pod: mkPod(name, ns, 0)}
								}
							}
							got := projectResponse(real.Validate(context.Background(), a.attributes()), nil, nil, nil)
							want := projectResponse(direct.Validate(context.Background(), a.attributes()), nil, nil, nil)
							c.Eval(2)
							c.Tag("c08.realGetter." + variant)
							if d := diffAdmit(got, want, "allowed code message warnings audit ann"); len(d) > 0 {
								c.Violate(Finding{Desc: fmt.Sprintf("%s %s in a namespace reached through the repository's %s getter is answered differently than with the same labels handed over directly: %s", op, res, variant, strings.Join(d, "; ")),
									Key: "real-getter-differs:" + variant, Input: J{"getter": variant, "namespace": ns, "namespaceLabelsAtTheAPIServer": labels[ns], "defaults": di, "request": a.opJSON()},
									Go: J{"withRealGetter": J{"allowed": got.Allowed, "warnings": got.Warnings, "audit": got.AnnAudit, "error": got.AnnError}, "direct": J{"allowed": want.Allowed, "warnings": want.Warnings, "audit": want.AnnAudit, "error": want.AnnError}}})
							}
							// the property itself, where it is unconditional: violating object, non-privileged audit policy => audit annotation
							if kind > 0 && ns != "team-c" && got.AnnAudit == nil && got.Code < 500 {
								c.Violate(Finding{Desc: fmt.Sprintf("%s %s: the object violates the namespace's audit policy and the answer carries no audit annotation (%s getter)", op, res, variant), Key: "audit-missing-real-getter:" + variant,
									Input: J{"getter": variant, "namespace": ns, "namespaceLabelsAtTheAPIServer": labels[ns], "request": a.opJSON()}})
							}
						}
					}
				}
			}
		}
	}
}

// c10FaultedUpdates: "is evaluated in full like a create" when something fails on the way: the namespace lookup fails, or the
// namespace's labels do not parse — a pod update that adds a container (ephemeral, through the main resource or through the
// ephemeralcontainers subresource) or changes an image gets what the create of the same pod gets, error included.
func c10FaultedUpdates(c *Ctx) {
	admitSweep(c, sizes(c, 300, 5000), AdmitKnobs{Kind: "pod", FaultPct: 0, SynPct: 0, SubPct: 0}, "allowed code warnings audit ann evalCalls metrics", "allowed code", func(a *AdmitCase, g AdmitOut) {
		if a.Obj.Kind != "pod" || a.Old.Kind != "pod" || a.Op != admissionv1.Update || !significant(a.Obj.Pod, a.Old.Pod) {
			return
		}
		b := *a
		b.Op = admissionv1.Create
		b.Old = ObjSpec{}
		b.Sub = ""
		gb := b.runGo()
		c.Eval(1)
		c.Tag("c10.faultedUpdate")
		if d := diffAdmit(g, gb, "allowed code message warnings audit ann evalCalls"); len(d) > 0 {
			c.Violate(Finding{Desc: "with a failing namespace lookup / unparsable labels, a significant update is not answered like a create: " + strings.Join(d, "; "), Key: "faulted-update-not-create", Input: a.opJSON(),
				Go: J{"update": J{"allowed": g.Allowed, "code": g.Code}, "create": J{"allowed": gb.Allowed, "code": gb.Code}}})
		}
	}, func(r *Rng, a *AdmitCase) {
		if a.Obj.Pod == nil {
			return
		}
		a.Op = admissionv1.Update
		a.Sub = pick(r, []string{"", "ephemeralcontainers", ""})
		p := a.Obj.Pod
		if len(p.Spec.Containers) == 0 {
			p.Spec.Containers = []corev1.Container{{Name: "main", Image: "img"}}
		}
		old := p.DeepCopy()
		t := true
		switch r.Intn(4) {
		case 0, 1: // the update only adds an ephemeral container (a privileged debug container)
			p.Spec.EphemeralContainers = append(p.Spec.EphemeralContainers, corev1.EphemeralContainer{EphemeralContainerCommon: corev1.EphemeralContainerCommon{Name: fmt.Sprintf("debug-%d", len(p.Spec.EphemeralContainers)), Image: "busybox",
				SecurityContext: &corev1.SecurityContext{Privileged: &t}}})
		case 2: // an image changes
			p.Spec.Containers[0].Image += "-next"
		default: // a regular container is added
			p.Spec.Containers = append(p.Spec.Containers, corev1.Container{Name: "added", Image: "img", SecurityContext: &corev1.SecurityContext{Privileged: &t}})
			a.Sub = ""
		}
		a.Old = ObjSpec{Kind: "pod", Pod: old}
		a.ExNS, a.ExUsers, a.ExRC = nil, nil, nil
		switch r.Intn(3) {
		case 0, 1:
			a.NSErr = true
			a.NSErrKind = r.Intn(len(nsErrKinds))
		default:
			a.NSLabels = map[string]string{api.EnforceLevelLabel: "bogus", api.EnforceVersionLabel: pick(r, []string{"v1.25", "vv", "latest"})}
		}
		a.Tags = append(a.Tags, "c10.faultedUpdate")
	})
}

// c17Layouts: the same document in the layouts a file really comes in — YAML indented as a whole (a heredoc, a templated
// manifest), with a document marker, with blank lines and trailing blanks, with CRLF line ends; JSON framed by white space — loads
// like the plain text; and an input of white space only states no kind and no version: it is not a PodSecurityConfiguration
// (only the EMPTY input stands for the all-defaults document).
func c17Layouts(c *Ctx) {
	docs := []*objVal{}
	for _, av := range apiVersions {
		docs = append(docs, &objVal{fields: [][2]any{{"apiVersion", av}, {"kind", "PodSecurityConfiguration"}}})
		docs = append(docs, &objVal{fields: [][2]any{{"apiVersion", av}, {"kind", "PodSecurityConfiguration"},
			{"defaults", &objVal{fields: [][2]any{{"enforce", "baseline"}, {"enforce-version", "v1.25"}, {"warn", "restricted"}}}},
			{"exemptions", &objVal{fields: [][2]any{{"namespaces", []any{"kube-system", "build"}}, {"usernames", []any{"admin"}}}}}}})
	}
	for _, d := range docs {
		yt := strings.TrimPrefix(renderYAML(d, ""), "\n")
		jt := renderJSON(d)
		want := goLoad([]byte(yt))
		if !want.OK {
			continue // the generated sweep reports this
		}
		indent := func(s, by string) string {
			lines := strings.Split(strings.TrimRight(s, "\n"), "\n")
			for i := range lines {
				lines[i] = by + lines[i]
			}
			return strings.Join(lines, "\n") + "\n"
		}
		layouts := []struct{ name, text string }{
			{"YAML indented by two blanks", indent(yt, "  ")},
			{"YAML indented by four blanks", indent(yt, "    ")},
			{"YAML after a document marker", "---\n" + yt},
			{"YAML after blank lines", "\n\n" + yt},
			{"YAML followed by blank lines and blanks", yt + "\n  \n"},
			{"YAML with CRLF line ends", strings.ReplaceAll(yt, "\n", "\r\n")},
			{"YAML after a comment", "# pod security configuration\n" + yt},
			{"JSON framed by white space", "\n  " + jt + "  \n"},
			{"JSON after a tab", "\t" + jt},
		}
		for _, l := range layouts {
			got := goLoad([]byte(l.text))
			c.Eval(1)
			c.Tag("c17.layout." + l.name)
			if canon(got) != canon(want) {
				c.Violate(Finding{Desc: fmt.Sprintf("the same document as %s loads differently than as plain YAML", l.name), Key: "layout:" + l.name, Input: J{"text": l.text, "plain": yt}, Go: J{"layout": got, "plain": want}})
			}
		}
	}
	for _, ws := range []string{"\n", " ", "\r\n", "\t", "  \n\n", "\n\n\n"} {
		got := goLoad([]byte(ws))
		c.Eval(1)
		c.Tag("c17.whitespaceOnly")
		if got.OK {
			c.Violate(Finding{Desc: fmt.Sprintf("an input of white space only (%q, %d bytes: not empty, and no PodSecurityConfiguration of any version) is accepted", ws, len(ws)), Key: "whitespace-only-accepted", Input: J{"data": ws}, Go: got})
		}
	}
}

// c20AfterSwitchHistory: the published fixtures describe the default configuration. After an administrator's process has had
// the user-namespace relaxation switched on and off again, the default configuration is what is in force: every fixture once
// more, on the long-lived evaluator and on a fresh one.
func c20AfterSwitchHistory(c *Ctx, ev *recEvaluator, fx []pstest.VerifFixture) {
	policy.RelaxPolicyForUserNamespacePods(true)
	policy.RelaxPolicyForUserNamespacePods(false)
	fresh := newRecEvaluator()
	for _, f := range fx {
		if f.Pod.Spec.HostUsers == nil && f.Minor%8 != 0 {
			continue // every fixture that sets hostUsers, and a sample of the others
		}
		fixtureProperty(c, ev, f, []int{f.Minor}, " (after the user-namespace relaxation was switched on and off again; long-lived evaluator)")
		fixtureProperty(c, fresh, f, []int{f.Minor}, " (after the user-namespace relaxation was switched on and off again; fresh evaluator)")
	}
	c.Tag("c20.afterSwitchHistory")
}

// ---- round 15

// c08FutureVersions: audit and warn policies pinned to a version NEWER than the newest the library knows (v1.33, v1.99, …: legal,
// and what a namespace labelled for a newer cluster carries) — they are judged with the newest checks, so a violating pod or
// controller is warned about and annotated exactly as at `latest`; the model's answer decides.
func c08FutureVersions(c *Ctx) {
	oracle := func(a *AdmitCase, g AdmitOut) {
		c08Oracle(a, g)
		plainEvaluatorAgrees(c, a, g)
	}
	admitSweep(c, sizes(c, 300, 5000), AdmitKnobs{FaultPct: 0, SynPct: 0, SubPct: 0}, "allowed warnings audit evalCalls", "allowed nwarnings auditPresence", oracle, func(r *Rng, a *AdmitCase) {
		if a.Res == "namespaces" || a.Obj.Pod == nil {
			return
		}
		future := pick(r, []string{"v1.33", "v1.34", "v1.99", "v1.1000", "v1.123456"})
		lv := pick(r, []string{"baseline", "restricted"})
		a.NSLabels = map[string]string{api.EnforceLevelLabel: pick(r, []string{"privileged", "baseline"}), api.AuditLevelLabel: lv, api.AuditVersionLabel: future,
			api.WarnLevelLabel: pick(r, []string{"baseline", "restricted"}), api.WarnVersionLabel: pick(r, []string{future, "v1.40", "latest"})}
		if r.Chance(1, 3) {
			a.Obj.Pod.Spec.HostNetwork = true
		}
		a.ExNS, a.ExUsers, a.ExRC = nil, nil, nil
		a.Tags = append(a.Tags, "c08.futureVersion")
	})
}

// c18RecordBeforeRegister: a recorder that is used before it is registered (an embedder that builds the controller first and
// wires the registry afterwards; a request arriving during start-up). What is recorded before registration has nowhere to go;
// everything recorded AFTER registration must be counted — including the label combinations the recorder pre-resolves.
func c18RecordBeforeRegister(c *Ctx) {
	for _, serverMinor := range []int{25, 32, 40} {
		rec := metrics.NewPrometheusRecorder(api.MajorMinorVersion(1, serverMinor))
		early := []metricEvent{
			{op: "CREATE", resource: "pods", kind: "eval", decision: "deny", level: "restricted", minor: -1, mode: "enforce"},
			{op: "CREATE", resource: "pods", kind: "eval", decision: "allow", level: "privileged", minor: -1, mode: "enforce"},
			{op: "CREATE", resource: "pods", kind: "exempt"},
			{op: "UPDATE", group: "apps", resource: "deployments", kind: "exempt"},
			{op: "CREATE", resource: "pods", kind: "error", fatal: true},
		}
		record := func(e metricEvent) {
			switch e.kind {
			case "exempt":
				rec.RecordExemption(e.attrs())
			case "error":
				rec.RecordError(e.fatal, e.attrs())
			default:
				rec.RecordEvaluation(metrics.Decision(e.decision), mkLV(e.level, e.minor), metrics.Mode(e.mode), e.attrs())
			}
		}
		for _, e := range early {
			record(e)
		}
		reg := compbasemetrics.NewKubeRegistry()
		rec.MustRegister(reg.MustRegister)
		var late []metricEvent
		for _, op := range []string{"CREATE", "UPDATE"} {
			for _, res := range [][2]string{{"", "pods"}, {"apps", "deployments"}} {
				for rep := 0; rep < 3; rep++ {
					late = append(late, metricEvent{op: op, group: res[0], resource: res[1], kind: "eval", decision: "allow", level: "privileged", minor: -1, mode: "enforce"})
					late = append(late, metricEvent{op: op, group: res[0], resource: res[1], kind: "exempt"})
				}
				late = append(late, metricEvent{op: op, group: res[0], resource: res[1], kind: "eval", decision: "deny", level: "restricted", minor: 25, mode: "enforce"})
				late = append(late, metricEvent{op: op, group: res[0], resource: res[1], kind: "eval", decision: "deny", level: "baseline", minor: -1, mode: "warn"})
				late = append(late, metricEvent{op: op, group: res[0], resource: res[1], kind: "error", fatal: false})
			}
		}
		var all []J
		for _, e := range late {
			record(e)
			all = append(all, e.json())
		}
		c.Eval(len(early) + len(late))
		got, err := gather(reg)
		if err != nil {
			c.Violate(Finding{Desc: "gathering metrics failed: " + err.Error(), Key: "gather"})
			return
		}
		out := c.Lean([]J{{"op": "metricCounts", "server": []int{1, serverMinor}, "events": all}})[0]
		want := map[string]map[string]int{"pod_security_evaluations_total": leanCounts(out["evaluations"]), "pod_security_exemptions_total": leanCounts(out["exemptions"]), "pod_security_errors_total": leanCounts(out["errors"])}
		for name, w := range want {
			g := got[name]
			if g == nil {
				g = map[string]int{}
			}
			if canon(g) != canon(w) {
				var diffs []string
				for k, n := range w {
					if g[k] != n {
						diffs = append(diffs, fmt.Sprintf("%s: recorded %d, expected %d", k, g[k], n))
					}
				}
				for k, n := range g {
					if _, ok := w[k]; !ok {
						diffs = append(diffs, fmt.Sprintf("%s: recorded %d, expected 0", k, n))
					}
				}
				sort.Strings(diffs)
				if len(diffs) > 5 {
					diffs = diffs[:5]
				}
				c.Violate(Finding{Desc: fmt.Sprintf("%s: a recorder that had been used before it was registered does not count what is recorded after registration: %s", name, strings.Join(diffs, "; ")), Key: "record-before-register:" + name,
					Input: J{"server": serverMinor, "recordedBeforeRegistration": len(early), "recordedAfterRegistration": all}})
			}
		}
		c.Tag("c18.recordBeforeRegister")
	}
}

// runGoPlain: the case once more with the evaluator handed to the controller exactly as policy.NewEvaluator returns it — not
// inside the harness's recording wrapper, which hides whatever else the evaluator's type offers (optional interfaces a controller
// may probe for). Only for cases that use the shipped checks and no injected expiry.
func (a *AdmitCase) runGoPlain() (out AdmitOut) {
	a.normalize()
	rec := &recorder{}
	lister := &fakeLister{pods: a.Pods, err: a.ListErr}
	ctx, cancel := context.WithCancel(context.Background())
	defer cancel()
	a.cancelRequest = cancel
	adm := newAdmission(a, realEvaluator, rec, lister)
	defer func() {
		if r := recover(); r != nil {
			out.Panic = fmt.Sprint(r)
		}
	}()
	return projectResponse(adm.Validate(ctx, a.attributes()), rec.ev, nil, lister)
}

// plainEvaluatorAgrees: what the controller answers must not depend on whether its evaluator is wrapped
func plainEvaluatorAgrees(c *Ctx, a *AdmitCase, g AdmitOut) {
	if a.Syn || a.ExpireAfter >= 0 || a.Remaining != 0 || a.CtxCancelled || a.Res == "namespaces" {
		return
	}
	gp := a.runGoPlain()
	c.Eval(1)
	c.Tag("plainEvaluator.compared")
	if d := diffAdmit(g, gp, "allowed code message warnings audit ann metrics"); len(d) > 0 {
		c.Violate(Finding{Desc: "with the evaluator exactly as policy.NewEvaluator returns it (not wrapped), the controller answers differently: " + strings.Join(d, "; "), Key: "plain-evaluator-differs", Input: a.opJSON(),
			Go: J{"wrapped": J{"allowed": g.Allowed, "warnings": g.Warnings, "audit": g.AnnAudit}, "plain": J{"allowed": gp.Allowed, "warnings": gp.Warnings, "audit": gp.AnnAudit}}})
	}
}

package main

import (
	"context"
	"encoding/json"
	"go/ast"
	"go/parser"
	"go/token"
	"os"
	"path/filepath"
	"reflect"
	"regexp"
	"runtime"
	"sort"
	"strconv"
	"strings"

	admissionv1 "k8s.io/api/admission/v1"
	corev1 "k8s.io/api/core/v1"
	metav1 "k8s.io/apimachinery/pkg/apis/meta/v1"
	"k8s.io/apimachinery/pkg/runtime/schema"
	"k8s.io/pod-security-admission/admission"
	admissionapi "k8s.io/pod-security-admission/admission/api"
	"k8s.io/pod-security-admission/api"
	"k8s.io/pod-security-admission/policy"
)

// factsDump: the run-time facts the fact extractor cannot get from source alone (reflection on the registered checks,
// the allow-list values after package initialisation through the verif hook, corev1 constants and json names).
func init() {
	props["FACTS-DUMP"] = func(c *Ctx) {
		type rev struct {
			Major, Minor int
			Latest       bool
			Overrides    []string
			Func         string
		}
		type chk struct {
			ID, Level string
			Revs      []rev
		}
		dump := func(cs []policy.Check) []chk {
			out := []chk{}
			for _, c := range cs {
				k := chk{ID: string(c.ID), Level: string(c.Level)}
				for _, v := range c.Versions {
					mv := v.MinimumVersion
					name := runtime.FuncForPC(reflect.ValueOf(v.CheckPod).Pointer()).Name()
					ov := []string{}
					for _, o := range v.OverrideCheckIDs {
						ov = append(ov, string(o))
					}
					k.Revs = append(k.Revs, rev{mv.Major(), mv.Minor(), mv.Latest(), ov, name[strings.LastIndex(name, ".")+1:]})
				}
				out = append(out, k)
			}
			return out
		}
		jsonName := map[string]string{}
		vt := reflect.TypeOf(corev1.VolumeSource{})
		for i := 0; i < vt.NumField(); i++ {
			jsonName[vt.Field(i).Name] = strings.Split(vt.Field(i).Tag.Get("json"), ",")[0]
		}
		// F2 (volumes): the volume-source table of the restricted volume-types control, recovered by running the registered check
		// on every volume with one source set and with every pair of sources set (the source kinds are a finite set, so this
		// is the whole table, however the function is written)
		volumeProbe := map[string]any{}
		{
			var fn policy.CheckPodFn
			for _, ck := range policy.DefaultChecks() {
				if ck.ID == "restrictedVolumes" && len(ck.Versions) > 0 {
					fn = ck.Versions[0].CheckPod
				}
			}
			if fn == nil {
				volumeProbe["error"] = "no registered check with ID restrictedVolumes"
			} else {
				quoted := regexp.MustCompile(`"([^"]*)"$`)
				probe := func(fields ...int) (bool, string) {
					vs := reflect.New(vt).Elem()
					for _, i := range fields {
						vs.Field(i).Set(reflect.New(vt.Field(i).Type.Elem()))
					}
					pod := &corev1.Pod{Spec: corev1.PodSpec{Volumes: []corev1.Volume{{Name: "v", VolumeSource: vs.Interface().(corev1.VolumeSource)}}}}
					r := fn(&pod.ObjectMeta, &pod.Spec)
					name := ""
					if m := quoted.FindStringSubmatch(r.ForbiddenDetail); m != nil {
						name = m[1]
					}
					return r.Allowed, name
				}
				_, def := probe()
				var allowed []string
				var bad []int
				nameOf := map[int]string{}
				var problems []string
				for i := 0; i < vt.NumField(); i++ {
					ok, name := probe(i)
					switch {
					case ok:
						allowed = append(allowed, jsonName[vt.Field(i).Name])
					case name != def:
						bad = append(bad, i)
						nameOf[i] = name
					}
				}
				first := func(i, j int) bool { _, n := probe(i, j); return n == nameOf[i] }
				sort.SliceStable(bad, func(x, y int) bool { return first(bad[x], bad[y]) && !(nameOf[bad[x]] == nameOf[bad[y]]) })
				for x := range bad {
					for y := x + 1; y < len(bad); y++ {
						if _, n := probe(bad[x], bad[y]); n != nameOf[bad[x]] {
							problems = append(problems, "no fixed precedence between "+nameOf[bad[x]]+" and "+nameOf[bad[y]])
						}
					}
				}
				for i := 0; i < vt.NumField(); i++ {
					if ok, _ := probe(i); ok {
						for _, b := range bad {
							if ok2, _ := probe(i, b); !ok2 {
								problems = append(problems, "allowed source "+vt.Field(i).Name+" does not take precedence over "+nameOf[b])
							}
						}
					}
				}
				sort.Strings(allowed)
				var pairs [][2]string
				for _, b := range bad {
					pairs = append(pairs, [2]string{jsonName[vt.Field(b).Name], nameOf[b]})
				}
				volumeProbe["allowed"], volumeProbe["bad"], volumeProbe["default"], volumeProbe["problems"] = allowed, pairs, def, problems
			}
		}
		// F7 (admission tables), read off the running code rather than off the shape of a declaration: the resources the
		// default extractor knows (its exported accessor), and the pod subresources the controller ignores — every string literal
		// of package admission's source and every pod subresource Kubernetes has is tried as the subresource of a CREATE of a
		// privileged pod in a namespace that enforces restricted: "ignored" = allowed without the evaluator being asked
		var podSpecResources []string
		for _, gr := range (admission.DefaultPodSpecExtractor{}).PodSpecResources() {
			alias := map[string]string{"": "corev1", "apps": "appsv1", "batch": "batchv1"}[gr.Group]
			if alias == "" {
				alias = gr.Group
			}
			podSpecResources = append(podSpecResources, alias+"/"+gr.Resource)
		}
		sort.Strings(podSpecResources)
		candidates := map[string]bool{}
		for _, s := range []string{"exec", "attach", "binding", "eviction", "log", "portforward", "proxy", "status", "ephemeralcontainers", "resize", "scale", "token", "approval", "finalize", "logs", "Status", "STATUS", "status/", "exec2", "x"} {
			candidates[s] = true
		}
		if files, err := filepath.Glob(repoDir() + "/admission/*.go"); err == nil {
			for _, f := range files {
				if strings.HasSuffix(f, "_test.go") {
					continue
				}
				if af, err := parser.ParseFile(token.NewFileSet(), f, nil, 0); err == nil {
					ast.Inspect(af, func(n ast.Node) bool {
						if bl, ok := n.(*ast.BasicLit); ok && bl.Kind == token.STRING {
							if v, err := strconv.Unquote(bl.Value); err == nil && v != "" && len(v) < 40 && !strings.ContainsAny(v, " %\n") {
								candidates[v] = true
							}
						}
						return true
					})
				}
			}
		}
		var ignoredSubs []string
		{
			t := true
			pod := &corev1.Pod{ObjectMeta: metav1.ObjectMeta{Name: "p", Namespace: "team"}, Spec: corev1.PodSpec{Containers: []corev1.Container{{Name: "c", Image: "i", SecurityContext: &corev1.SecurityContext{Privileged: &t}}}}}
			for s := range candidates {
				calls := 0
				adm := &admission.Admission{
					Configuration: &admissionapi.PodSecurityConfiguration{Defaults: admissionapi.PodSecurityDefaults{Enforce: "privileged", EnforceVersion: "latest", Audit: "privileged", AuditVersion: "latest", Warn: "privileged", WarnVersion: "latest"}},
					Evaluator:     countingEvaluator{realEvaluator, &calls}, Metrics: &recorder{}, PodSpecExtractor: admission.DefaultPodSpecExtractor{},
					NamespaceGetter: nsByName{"team": {"pod-security.kubernetes.io/enforce": "restricted"}}, PodLister: clusterLister{}}
				if err := adm.CompleteConfiguration(); err != nil {
					continue
				}
				resp := adm.Validate(context.Background(), &api.AttributesRecord{Name: "p", Namespace: "team", Resource: schema.GroupVersionResource{Version: "v1", Resource: "pods"}, Subresource: s,
					Operation: admissionv1.Create, Object: pod, Username: "u"})
				if resp.Allowed && calls == 0 {
					ignoredSubs = append(ignoredSubs, s)
				}
			}
			sort.Strings(ignoredSubs)
		}
		out := map[string]any{
			"podSpecResources":       podSpecResources,
			"ignoredPodSubresources": ignoredSubs,
			"volumeProbe":            volumeProbe,
			"default":                dump(policy.DefaultChecks()),
			"experimental":           dump(policy.ExperimentalChecks()),
			"tables":                 policy.VerifTables(),
			"consts": map[string]string{
				"procMountDefault":     string(corev1.DefaultProcMount),
				"windows":              string(corev1.Windows),
				"appArmorAnnKeyPrefix": corev1.DeprecatedAppArmorBetaContainerAnnotationKeyPrefix,
			},
			"volumeJSONNames": jsonName,
		}
		b, _ := json.MarshalIndent(out, "", " ")
		os.WriteFile(verifDir()+"/work/facts_dump.json", b, 0o644)
	}
}

// countingEvaluator counts evaluations
type countingEvaluator struct {
	policy.Evaluator
	n *int
}

func (e countingEvaluator) EvaluatePod(lv api.LevelVersion, m *metav1.ObjectMeta, sp *corev1.PodSpec) []policy.CheckResult {
	*e.n++
	return e.Evaluator.EvaluatePod(lv, m, sp)
}

package main

import (
	"encoding/json"
	"os"
	"reflect"
	"regexp"
	"runtime"
	"sort"
	"strings"

	corev1 "k8s.io/api/core/v1"
	"k8s.io/pod-security-admission/policy"
)

// factsDump: the run-time facts the fact extractor cannot get from source alone (reflection on the registered checks,
// the allow-list values after package initialisation through the verif hook, corev1 constants and json names).
func init() {
	props["FACTS-DUMP"] = func(c *Ctx) {
		type rev struct {
			Major, Minor int
			Latest       bool
			Overrides    []string
			Func         string
		}
		type chk struct {
			ID, Level string
			Revs      []rev
		}
		dump := func(cs []policy.Check) []chk {
			out := []chk{}
			for _, c := range cs {
				k := chk{ID: string(c.ID), Level: string(c.Level)}
				for _, v := range c.Versions {
					mv := v.MinimumVersion
					name := runtime.FuncForPC(reflect.ValueOf(v.CheckPod).Pointer()).Name()
					ov := []string{}
					for _, o := range v.OverrideCheckIDs {
						ov = append(ov, string(o))
					}
					k.Revs = append(k.Revs, rev{mv.Major(), mv.Minor(), mv.Latest(), ov, name[strings.LastIndex(name, ".")+1:]})
				}
				out = append(out, k)
			}
			return out
		}
		jsonName := map[string]string{}
		vt := reflect.TypeOf(corev1.VolumeSource{})
		for i := 0; i < vt.NumField(); i++ {
			jsonName[vt.Field(i).Name] = strings.Split(vt.Field(i).Tag.Get("json"), ",")[0]
		}
		// F2 (volumes): the volume-source table of the restricted volume-types control, recovered by running the registered check
		// on every volume with one source set and with every pair of sources set (the source kinds are a finite set, so this
		// is the whole table, however the function is written)
		volumeProbe := map[string]any{}
		{
			var fn policy.CheckPodFn
			for _, ck := range policy.DefaultChecks() {
				if ck.ID == "restrictedVolumes" && len(ck.Versions) > 0 {
					fn = ck.Versions[0].CheckPod
				}
			}
			if fn == nil {
				volumeProbe["error"] = "no registered check with ID restrictedVolumes"
			} else {
				quoted := regexp.MustCompile(`"([^"]*)"$`)
				probe := func(fields ...int) (bool, string) {
					vs := reflect.New(vt).Elem()
					for _, i := range fields {
						vs.Field(i).Set(reflect.New(vt.Field(i).Type.Elem()))
					}
					pod := &corev1.Pod{Spec: corev1.PodSpec{Volumes: []corev1.Volume{{Name: "v", VolumeSource: vs.Interface().(corev1.VolumeSource)}}}}
					r := fn(&pod.ObjectMeta, &pod.Spec)
					name := ""
					if m := quoted.FindStringSubmatch(r.ForbiddenDetail); m != nil {
						name = m[1]
					}
					return r.Allowed, name
				}
				_, def := probe()
				var allowed []string
				var bad []int
				nameOf := map[int]string{}
				var problems []string
				for i := 0; i < vt.NumField(); i++ {
					ok, name := probe(i)
					switch {
					case ok:
						allowed = append(allowed, jsonName[vt.Field(i).Name])
					case name != def:
						bad = append(bad, i)
						nameOf[i] = name
					}
				}
				first := func(i, j int) bool { _, n := probe(i, j); return n == nameOf[i] }
				sort.SliceStable(bad, func(x, y int) bool { return first(bad[x], bad[y]) && !(nameOf[bad[x]] == nameOf[bad[y]]) })
				for x := range bad {
					for y := x + 1; y < len(bad); y++ {
						if _, n := probe(bad[x], bad[y]); n != nameOf[bad[x]] {
							problems = append(problems, "no fixed precedence between "+nameOf[bad[x]]+" and "+nameOf[bad[y]])
						}
					}
				}
				for i := 0; i < vt.NumField(); i++ {
					if ok, _ := probe(i); ok {
						for _, b := range bad {
							if ok2, _ := probe(i, b); !ok2 {
								problems = append(problems, "allowed source "+vt.Field(i).Name+" does not take precedence over "+nameOf[b])
							}
						}
					}
				}
				sort.Strings(allowed)
				var pairs [][2]string
				for _, b := range bad {
					pairs = append(pairs, [2]string{jsonName[vt.Field(b).Name], nameOf[b]})
				}
				volumeProbe["allowed"], volumeProbe["bad"], volumeProbe["default"], volumeProbe["problems"] = allowed, pairs, def, problems
			}
		}
		out := map[string]any{
			"volumeProbe":  volumeProbe,
			"default":      dump(policy.DefaultChecks()),
			"experimental": dump(policy.ExperimentalChecks()),
			"tables":       policy.VerifTables(),
			"consts": map[string]string{
				"procMountDefault":     string(corev1.DefaultProcMount),
				"windows":              string(corev1.Windows),
				"appArmorAnnKeyPrefix": corev1.DeprecatedAppArmorBetaContainerAnnotationKeyPrefix,
			},
			"volumeJSONNames": jsonName,
		}
		b, _ := json.MarshalIndent(out, "", " ")
		os.WriteFile(verifDir()+"/work/facts_dump.json", b, 0o644)
	}
}

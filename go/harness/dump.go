package main

import (
	"encoding/json"
	"os"
	"reflect"
	"runtime"
	"strings"

	corev1 "k8s.io/api/core/v1"
	"k8s.io/pod-security-admission/policy"
)

// factsDump: the run-time facts the fact extractor cannot get from source alone (reflection on the registered checks,
// the allow-list values after package initialisation through the verif hook, corev1 constants and json names).
func init() {
	props["FACTS-DUMP"] = func(c *Ctx) {
		type rev struct {
			Major, Minor int
			Latest       bool
			Overrides    []string
			Func         string
		}
		type chk struct {
			ID, Level string
			Revs      []rev
		}
		dump := func(cs []policy.Check) []chk {
			out := []chk{}
			for _, c := range cs {
				k := chk{ID: string(c.ID), Level: string(c.Level)}
				for _, v := range c.Versions {
					mv := v.MinimumVersion
					name := runtime.FuncForPC(reflect.ValueOf(v.CheckPod).Pointer()).Name()
					ov := []string{}
					for _, o := range v.OverrideCheckIDs {
						ov = append(ov, string(o))
					}
					k.Revs = append(k.Revs, rev{mv.Major(), mv.Minor(), mv.Latest(), ov, name[strings.LastIndex(name, ".")+1:]})
				}
				out = append(out, k)
			}
			return out
		}
		jsonName := map[string]string{}
		vt := reflect.TypeOf(corev1.VolumeSource{})
		for i := 0; i < vt.NumField(); i++ {
			jsonName[vt.Field(i).Name] = strings.Split(vt.Field(i).Tag.Get("json"), ",")[0]
		}
		out := map[string]any{
			"default":      dump(policy.DefaultChecks()),
			"experimental": dump(policy.ExperimentalChecks()),
			"tables":       policy.VerifTables(),
			"consts": map[string]string{
				"procMountDefault":     string(corev1.DefaultProcMount),
				"windows":              string(corev1.Windows),
				"appArmorAnnKeyPrefix": corev1.DeprecatedAppArmorBetaContainerAnnotationKeyPrefix,
			},
			"volumeJSONNames": jsonName,
		}
		b, _ := json.MarshalIndent(out, "", " ")
		os.WriteFile(verifDir()+"/work/facts_dump.json", b, 0o644)
	}
}

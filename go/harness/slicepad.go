package main

import (
	"fmt"
	"reflect"
)

// padSlices re-houses every non-empty slice reachable from v in a backing array with two spare (zero) elements past its
// length: the value is unchanged for every reader, but code that appends to it in place, or re-slices it beyond its length,
// now writes into memory the caller still owns (as when several objects share one backing array). spareTouched finds such
// writes afterwards.
func padSlices(v reflect.Value) {
	switch v.Kind() {
	case reflect.Ptr, reflect.Interface:
		if !v.IsNil() {
			padSlices(v.Elem())
		}
	case reflect.Struct:
		for i := 0; i < v.NumField(); i++ {
			if v.Type().Field(i).IsExported() {
				padSlices(v.Field(i))
			}
		}
	case reflect.Slice:
		if v.Len() == 0 || !v.CanSet() {
			return
		}
		if v.Type().Elem().Kind() != reflect.Uint8 {
			nv := reflect.MakeSlice(v.Type(), v.Len(), v.Len()+2)
			reflect.Copy(nv, v)
			v.Set(nv)
		}
		for i := 0; i < v.Len(); i++ {
			padSlices(v.Index(i))
		}
	}
}

// spareTouched: the paths of padded slices whose spare elements are no longer zero
func spareTouched(v reflect.Value, path string) []string {
	var out []string
	switch v.Kind() {
	case reflect.Ptr, reflect.Interface:
		if !v.IsNil() {
			out = append(out, spareTouched(v.Elem(), path)...)
		}
	case reflect.Struct:
		for i := 0; i < v.NumField(); i++ {
			if v.Type().Field(i).IsExported() {
				out = append(out, spareTouched(v.Field(i), path+"."+v.Type().Field(i).Name)...)
			}
		}
	case reflect.Slice:
		if v.Len() == 0 {
			return nil
		}
		if v.Cap() > v.Len() {
			full := v.Slice(0, v.Cap())
			for i := v.Len(); i < v.Cap(); i++ {
				if !full.Index(i).IsZero() {
					out = append(out, fmt.Sprintf("%s[%d] (past len %d)", path, i, v.Len()))
				}
			}
		}
		for i := 0; i < v.Len(); i++ {
			out = append(out, spareTouched(v.Index(i), fmt.Sprintf("%s[%d]", path, i))...)
		}
	}
	return out
}

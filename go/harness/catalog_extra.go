package main

import (
	"fmt"

	corev1 "k8s.io/api/core/v1"
)

// extraCatalogPods: atoms added after the catalogue was frozen (its size feeds random choices elsewhere). They are evaluated
// by the policy sweeps AFTER the generated pods, so nothing that was generated before changes.
func extraCatalogPods() []PodCase {
	cat := catalogPods()
	base := func() *corev1.Pod { return cat[0].Pod.DeepCopy() }
	var out []PodCase
	add := func(name string, f func(p *corev1.Pod)) {
		p := base()
		// start from the plain restricted-compliant pod: undo whatever atom the first catalogue pod carries
		p.Spec.SecurityContext = &corev1.PodSecurityContext{RunAsNonRoot: bp(true), SeccompProfile: &corev1.SeccompProfile{Type: "RuntimeDefault"}}
		for i := range p.Spec.InitContainers {
			p.Spec.InitContainers[i].SecurityContext = compliantSC()
		}
		for i := range p.Spec.Containers {
			p.Spec.Containers[i].SecurityContext = compliantSC()
		}
		for i := range p.Spec.EphemeralContainers {
			p.Spec.EphemeralContainers[i].SecurityContext = compliantSC()
		}
		p.Spec.HostNetwork, p.Spec.HostPID, p.Spec.HostIPC, p.Spec.Volumes, p.Annotations = false, false, false, nil, nil
		f(p)
		p.Name = fmt.Sprintf("xcat-%d", len(out))
		out = append(out, PodCase{Pod: p, Base: "catalog", Atoms: []string{"xcat." + name}})
	}
	// seccomp profiles of type Localhost with every shape of localhostProfile (absent, empty, set), at the pod level with the
	// containers leaving the field unset and the other way round, and the same for the other profile types carrying a stray
	// localhostProfile: the name of the profile is no input of any control
	for _, typ := range []corev1.SeccompProfileType{"Localhost", "RuntimeDefault", "Unconfined"} {
		for _, lp := range []*string{nil, sp(""), sp("profiles/audit.json")} {
			typ, lp := typ, lp
			tag := "nil"
			if lp != nil {
				tag = fmt.Sprintf("%q", *lp)
			}
			add(fmt.Sprintf("pod.seccomp=%s.localhostProfile=%s", typ, tag), func(p *corev1.Pod) {
				p.Spec.SecurityContext.SeccompProfile = &corev1.SeccompProfile{Type: typ, LocalhostProfile: lp}
			})
			add(fmt.Sprintf("ctr.seccomp=%s.localhostProfile=%s", typ, tag), func(p *corev1.Pod) {
				p.Spec.SecurityContext.SeccompProfile = nil
				for i := range p.Spec.InitContainers {
					p.Spec.InitContainers[i].SecurityContext.SeccompProfile = &corev1.SeccompProfile{Type: typ, LocalhostProfile: lp}
				}
				for i := range p.Spec.Containers {
					p.Spec.Containers[i].SecurityContext.SeccompProfile = &corev1.SeccompProfile{Type: typ, LocalhostProfile: lp}
				}
				for i := range p.Spec.EphemeralContainers {
					p.Spec.EphemeralContainers[i].SecurityContext.SeccompProfile = &corev1.SeccompProfile{Type: typ, LocalhostProfile: lp}
				}
			})
			add(fmt.Sprintf("mixed.seccomp=%s.localhostProfile=%s", typ, tag), func(p *corev1.Pod) {
				p.Spec.SecurityContext.SeccompProfile = &corev1.SeccompProfile{Type: typ, LocalhostProfile: lp}
				p.Spec.Containers[0].SecurityContext.SeccompProfile = &corev1.SeccompProfile{Type: "RuntimeDefault"}
			})
		}
	}
	// the same for AppArmor profiles (field-based)
	for _, typ := range []corev1.AppArmorProfileType{"Localhost", "RuntimeDefault", "Unconfined"} {
		for _, lp := range []*string{nil, sp(""), sp("my-profile")} {
			typ, lp := typ, lp
			add(fmt.Sprintf("pod.appArmor=%s.localhostProfile", typ), func(p *corev1.Pod) {
				p.Spec.SecurityContext.AppArmorProfile = &corev1.AppArmorProfile{Type: typ, LocalhostProfile: lp}
			})
			add(fmt.Sprintf("ctr.appArmor=%s.localhostProfile", typ), func(p *corev1.Pod) {
				p.Spec.Containers[0].SecurityContext.AppArmorProfile = &corev1.AppArmorProfile{Type: typ, LocalhostProfile: lp}
			})
		}
	}
	// seccomp alpha annotations that are present with an empty value, and with surrounding white space
	for _, v := range []string{"", " ", "runtime/default ", " runtime/default", "localhost/", "localhost/ "} {
		v := v
		add(fmt.Sprintf("ann.seccomp.pod=%q", v), func(p *corev1.Pod) {
			p.Annotations = map[string]string{"seccomp.security.alpha.kubernetes.io/pod": v}
		})
		add(fmt.Sprintf("ann.seccomp.ctr=%q", v), func(p *corev1.Pod) {
			p.Annotations = map[string]string{"container.seccomp.security.alpha.kubernetes.io/" + p.Spec.Containers[0].Name: v}
		})
		add(fmt.Sprintf("ann.apparmor.ctr=%q", v), func(p *corev1.Pod) {
			p.Annotations = map[string]string{"container.apparmor.security.beta.kubernetes.io/" + p.Spec.Containers[0].Name: v}
		})
	}
	return out
}

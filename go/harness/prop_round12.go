package main

import (
	"context"
	"fmt"
	"strings"
	"sync"
	"time"

	admissionv1 "k8s.io/api/admission/v1"
	corev1 "k8s.io/api/core/v1"
	metav1 "k8s.io/apimachinery/pkg/apis/meta/v1"
	"k8s.io/pod-security-admission/admission"
	admissionapi "k8s.io/pod-security-admission/admission/api"
	"k8s.io/pod-security-admission/api"
	"k8s.io/pod-security-admission/policy"
)

var allPrivilegedDefaults = admissionapi.PodSecurityDefaults{Enforce: "privileged", EnforceVersion: "latest", Audit: "privileged", AuditVersion: "latest", Warn: "privileged", WarnVersion: "latest"}

// c19SwitchSurvivesOtherCalls: the administrator's opt-in is changed by the administrator's setter and by nothing else. After
// the setter call, other things the library is asked to do — constructing evaluators (the shipped checks, a caller's checks, a
// set that is refused), listing the checks, evaluating other pods — leave it as it was: a pod with hostUsers=false that is
// non-compliant only in a waived control is allowed exactly when the administrator opted in, on an evaluator built earlier.
func c19SwitchSurvivesOtherCalls(c *Ctx) {
	f, zero := false, int64(0)
	waived := &corev1.Pod{ObjectMeta: metav1.ObjectMeta{Name: "userns"}, Spec: corev1.PodSpec{HostUsers: &f,
		SecurityContext: &corev1.PodSecurityContext{SeccompProfile: &corev1.SeccompProfile{Type: "RuntimeDefault"}},
		Containers: []corev1.Container{{Name: "c", Image: "i", SecurityContext: &corev1.SecurityContext{AllowPrivilegeEscalation: bp(false),
			Capabilities: &corev1.Capabilities{Drop: []corev1.Capability{"ALL"}}, RunAsUser: &zero}}}}}
	defer policy.RelaxPolicyForUserNamespacePods(false)
	before, err := policy.NewEvaluator(policy.DefaultChecks())
	if err != nil {
		return
	}
	allowed := func() bool {
		return policy.AggregateCheckResults(before.EvaluatePod(api.LevelVersion{Level: api.LevelRestricted, Version: api.LatestVersion()}, &waived.ObjectMeta, &waived.Spec)).Allowed
	}
	steps := []struct {
		name string
		do   func()
	}{
		{"nothing", func() {}},
		{"policy.NewEvaluator(policy.DefaultChecks())", func() { policy.NewEvaluator(policy.DefaultChecks()) }},
		{"policy.NewEvaluator(one caller-supplied check)", func() {
			policy.NewEvaluator([]policy.Check{{ID: "x", Level: api.LevelBaseline, Versions: []policy.VersionedCheck{{MinimumVersion: api.MajorMinorVersion(1, 0),
				CheckPod: func(*metav1.ObjectMeta, *corev1.PodSpec) policy.CheckResult { return policy.CheckResult{Allowed: true} }}}}})
		}},
		{"policy.NewEvaluator(a set that is refused)", func() { policy.NewEvaluator([]policy.Check{{ID: "x", Level: "bogus"}}) }},
		{"policy.DefaultChecks() and policy.ExperimentalChecks()", func() { policy.DefaultChecks(); policy.ExperimentalChecks() }},
		{"evaluating other pods at other levels", func() {
			before.EvaluatePod(api.LevelVersion{Level: api.LevelBaseline, Version: api.MajorMinorVersion(1, 20)}, &metav1.ObjectMeta{}, &corev1.PodSpec{})
			before.EvaluatePod(api.LevelVersion{Level: api.LevelPrivileged, Version: api.LatestVersion()}, &metav1.ObjectMeta{}, &corev1.PodSpec{})
		}},
	}
	for _, on := range []bool{true, false, true} {
		policy.RelaxPolicyForUserNamespacePods(on)
		for _, st := range steps {
			st.do()
			c.Eval(1)
			c.Tag("c19.switchSurvives")
			if got := allowed(); got != on {
				c.Violate(Finding{Desc: fmt.Sprintf("after RelaxPolicyForUserNamespacePods(%v) and then %s, a hostUsers=false pod that only runs as uid 0 is allowed=%v at restricted:latest (the administrator's last call said %v)", on, st.name, got, on),
					Key: "switch-changed-by-other-call", Input: J{"administratorsCall": on, "thenCalled": st.name, "pod": waived}})
				policy.RelaxPolicyForUserNamespacePods(on)
			}
		}
	}
}

// c06StructuredNames: exemption entries that have an inner structure (e-mail addresses, service accounts, subdomains) next to
// request values that differ from them only where that structure might be thought not to matter: the case of a domain, a
// trailing dot, the case of a segment. An entry exempts the value that EQUALS it and no other.
func c06StructuredNames(c *Ctx) {
	type pair struct{ entry, near string }
	pairs := []pair{{"ci-bot@example.com", "ci-bot@Example.com"}, {"ci-bot@example.com", "ci-bot@EXAMPLE.COM"}, {"ci-bot@example.com", "CI-BOT@example.com"},
		{"ci-bot@example.com", "ci-bot@example.com."}, {"ci-bot@example.com", "ci-bot+x@example.com"}, {"system:serviceaccount:ci:deployer", "system:serviceaccount:CI:deployer"},
		{"system:serviceaccount:ci:deployer", "system:serviceaccount:ci:deployer "}, {"system:serviceaccount:ci:deployer", "system:serviceaccounts:ci"},
		{"oidc:alice", "OIDC:alice"}, {"https://issuer.example/alice", "https://issuer.example/alice/"}, {"kube-system", "kube-system."}, {"kube-system", "Kube-System"},
		{"gvisor.example.com", "gvisor.Example.com"}, {"alice", "alice@example.com"}, {"alice@example.com", "alice"}}
	t := true
	pod := func(rc string) *corev1.Pod {
		p := &corev1.Pod{ObjectMeta: metav1.ObjectMeta{Name: "p", Namespace: "team"}, Spec: corev1.PodSpec{Containers: []corev1.Container{{Name: "c", Image: "i", SecurityContext: &corev1.SecurityContext{Privileged: &t}}}}}
		if rc != "" {
			p.Spec.RuntimeClassName = &rc
		}
		return p
	}
	for _, pr := range pairs {
		for _, dim := range []string{"user", "namespace", "runtimeClass"} {
			for _, val := range []string{pr.near, pr.entry} {
				a := &AdmitCase{Res: "pods", Op: admissionv1.Create, Name: "p", NS: "team", User: "someone", ExpireAfter: -1, Defaults: allPrivilegedDefaults,
					NSLabels: map[string]string{api.EnforceLevelLabel: "restricted"}, Obj: ObjSpec{Kind: "pod", Pod: pod("")}}
				switch dim {
				case "user":
					a.ExUsers, a.User = []string{pr.entry}, val
				case "namespace":
					a.ExNS, a.NS = []string{pr.entry}, val
					a.Obj.Pod.Namespace = val
				default:
					a.ExRC = []string{pr.entry}
					a.Obj.Pod = pod(val)
				}
				g := a.runGo()
				c.Eval(1)
				c.Tag("c06.structuredNames")
				exempt := g.AnnExempt != nil
				if exempt != (val == pr.entry) || (exempt && (!g.Allowed || len(g.EvalCalls) > 0)) || (!exempt && g.Allowed) {
					c.Violate(Finding{Desc: fmt.Sprintf("exemption entry %q for %s, request value %q: exempt=%v allowed=%v evaluations=%d (an entry exempts exactly the value equal to it)", pr.entry, dim, val, exempt, g.Allowed, len(g.EvalCalls)),
						Key: "exemption-not-exact", Input: J{"dimension": dim, "entry": pr.entry, "requestValue": val}, Go: g})
				}
			}
		}
	}
}

// c12OverlappingDryRuns: two updates of the same namespace to the same policy, overlapping in time, on one controller. The
// first has no deadline of its own and its dry run is slow (it will be cut at the one-second budget); the second arrives a
// little later with 300 ms left. Each dry run is bounded by ITS request: the second one is answered within its own deadline
// (plus scheduling slack), says how far it got, and was given a lister deadline of at most half of what it had left.
func c12OverlappingDryRuns(c *Ctx) {
	r := NewRng(c.Seed + 1214)
	var pods []*corev1.Pod
	for i := 0; i < 120; i++ {
		p := genPopPod(r, i, nil)
		p.Name = fmt.Sprintf("p-%03d", i)
		p.OwnerReferences = nil
		p.Spec.HostNetwork = true
		pods = append(pods, p)
	}
	type dl struct {
		mu   sync.Mutex
		seen []time.Duration // time from the listing call to the deadline it was given
	}
	var seen dl
	lister := listerFunc(func(ctx context.Context, ns string) ([]*corev1.Pod, error) {
		if d, ok := ctx.Deadline(); ok {
			seen.mu.Lock()
			seen.seen = append(seen.seen, time.Until(d))
			seen.mu.Unlock()
		}
		return append([]*corev1.Pod{}, pods...), nil
	})
	ev := &slowEvaluator{Evaluator: realEvaluator, per: 20 * time.Millisecond}
	adm := &admission.Admission{Configuration: &admissionapi.PodSecurityConfiguration{Defaults: allPrivilegedDefaults}, Evaluator: ev, Metrics: &recorder{},
		PodSpecExtractor: admission.DefaultPodSpecExtractor{}, NamespaceGetter: nsByName{"team-a": {}}, PodLister: lister}
	if err := adm.CompleteConfiguration(); err != nil {
		panic(err)
	}
	mk := func() *AdmitCase {
		return &AdmitCase{Res: "namespaces", Op: admissionv1.Update, Name: "team-a", NS: "team-a", User: "u", ExpireAfter: -1,
			Obj: ObjSpec{Kind: "namespace", NSName: "team-a", Labels: map[string]string{api.EnforceLevelLabel: "baseline"}},
			Old: ObjSpec{Kind: "namespace", NSName: "team-a", Labels: map[string]string{}}}
	}
	var wg sync.WaitGroup
	wg.Add(1)
	go func() { defer wg.Done(); adm.Validate(context.Background(), mk().attributes()) }()
	time.Sleep(60 * time.Millisecond)
	const remaining = 300 * time.Millisecond
	ctx, cancel := context.WithTimeout(context.Background(), remaining)
	began := time.Now()
	resp := adm.Validate(ctx, mk().attributes())
	took := time.Since(began)
	cancel()
	wg.Wait()
	c.Eval(2)
	c.Tag("c12.overlappingDryRuns")
	in := J{"pods": len(pods), "eachEvaluationTakes": "20ms", "firstRequest": "no deadline, started 60 ms earlier", "secondRequestDeadlineIn": remaining.String()}
	if took > remaining+350*time.Millisecond {
		c.Violate(Finding{Desc: fmt.Sprintf("a namespace update with %v left was answered after %v: its dry run was not bounded by its own deadline (another update of the same namespace was in flight)", remaining, took.Round(time.Millisecond)),
			Key: "dry-run-bounded-by-another-request", Input: in, Go: J{"warnings": resp.Warnings, "listerDeadlines": fmt.Sprint(seen.seen)}})
	}
	partial := false
	for _, w := range resp.Warnings {
		if strings.Contains(w, "only checked against the first") {
			partial = true
		}
	}
	if !partial && took <= remaining+350*time.Millisecond {
		c.Violate(Finding{Desc: "a dry run that cannot have evaluated 120 slow pods within its budget does not say that it stopped early", Key: "overlap-not-honest", Input: in, Go: resp.Warnings})
	}
}

type listerFunc func(ctx context.Context, ns string) ([]*corev1.Pod, error)

func (f listerFunc) ListPods(ctx context.Context, ns string) ([]*corev1.Pod, error) {
	return f(ctx, ns)
}

package main

import (
	"fmt"
	"strings"

	admissionv1 "k8s.io/api/admission/v1"
	corev1 "k8s.io/api/core/v1"
	"k8s.io/pod-security-admission/api"
	"k8s.io/pod-security-admission/policy"
)

// runC19Admission: the property's frame condition seen from the admission controller. With the relaxation off, and — with it
// on — for every pod that does not itself set hostUsers=false, a request must be answered exactly like its twin in which
// spec.hostUsers is unset on the submitted and on the stored pod: creates, and updates in which hostUsers is the only
// difference, one of several differences, or no difference at all.
func runC19Admission(c *Ctx) {
	r := NewRng(c.Seed + 1919)
	defer policy.RelaxPolicyForUserNamespacePods(false)
	hu := []*bool{nil, bp(true), bp(false)}
	name := func(b *bool) string {
		if b == nil {
			return "unset"
		}
		return fmt.Sprint(*b)
	}
	n := sizes(c, 60, 900)
	for i := 0; i < n; i++ {
		base := genAdmitCase(r.Fork(), i, AdmitKnobs{Kind: "pod", FaultPct: 0, SynPct: 0, SubPct: 0})
		base.Op = pick(r, []admissionv1.Operation{admissionv1.Create, admissionv1.Update, admissionv1.Update})
		base.NSLabels = map[string]string{api.EnforceLevelLabel: pick(r, []string{"baseline", "restricted"}), api.WarnLevelLabel: "restricted", api.AuditLevelLabel: pick(r, []string{"baseline", "restricted"})}
		base.ExNS, base.ExUsers, base.ExRC = nil, nil, nil
		base.NSErr, base.CtxCancelled, base.Remaining, base.ExpireAfter = false, false, 0, -1
		pod := base.Obj.Pod
		if base.Op == admissionv1.Update {
			old, how := pod.DeepCopy(), "identical"
			if r.Bool() {
				old, how = mutateForUpdate(r, pod)
			}
			base.Old = ObjSpec{Kind: "pod", Pod: old}
			base.Tags = append(base.Tags, "update."+how)
		} else {
			base.Old = ObjSpec{}
		}
		for _, relax := range []bool{false, true} {
			policy.RelaxPolicyForUserNamespacePods(relax)
			mk := func(newHU, oldHU *bool) *AdmitCase {
				a := *base
				p := pod.DeepCopy()
				p.Spec.HostUsers = newHU
				a.Obj = ObjSpec{Kind: "pod", Pod: p}
				if base.Op == admissionv1.Update {
					o := base.Old.Pod.DeepCopy()
					o.Spec.HostUsers = oldHU
					a.Old = ObjSpec{Kind: "pod", Pod: o}
				}
				return &a
			}
			twin := mk(nil, nil).runGo()
			for _, nh := range hu {
				for _, oh := range hu {
					if (nh == nil && oh == nil) || (base.Op != admissionv1.Update && oh != nil) {
						continue
					}
					if relax && nh != nil && !*nh {
						continue // a pod that sets hostUsers=false after the opt-in: the three waivers may legitimately apply
					}
					a := mk(nh, oh)
					got := a.runGo()
					c.Eval(1)
					c.Tag(fmt.Sprintf("c19.admission.relax=%v", relax))
					if got.Panic != "" || twin.Panic != "" {
						continue
					}
					if d := diffAdmit(got, twin, "allowed code message warnings ann audit evalCalls metrics"); len(d) > 0 {
						c.Violate(Finding{Desc: fmt.Sprintf("relaxation %s: a pod %s with spec.hostUsers %s (stored pod: %s) is answered differently from the same request with hostUsers unset: %s",
							map[bool]string{false: "off", true: "on"}[relax], base.Op, name(nh), name(oh), strings.Join(d, "; ")), Key: "hostUsers-changes-admission",
							Input: J{"relaxation": relax, "operation": base.Op, "hostUsers": name(nh), "storedHostUsers": name(oh), "namespaceLabels": base.NSLabels, "request": a.opJSON()["req"]}, Go: J{"got": got, "withHostUsersUnset": twin}})
					}
				}
			}
		}
		policy.RelaxPolicyForUserNamespacePods(false)
		c.Nontrivial(J{"c19adm": i})
	}
	_ = corev1.Pod{}
}

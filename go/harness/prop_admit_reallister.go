package main

import (
	"context"
	"encoding/json"
	"fmt"
	"net/http"
	"net/http/httptest"
	"strconv"
	"strings"

	admissionv1 "k8s.io/api/admission/v1"
	corev1 "k8s.io/api/core/v1"
	metav1 "k8s.io/apimachinery/pkg/apis/meta/v1"
	"k8s.io/client-go/kubernetes"
	"k8s.io/client-go/rest"
	"k8s.io/pod-security-admission/admission"
	admissionapi "k8s.io/pod-security-admission/admission/api"
	"k8s.io/pod-security-admission/api"
)

// runRealListerHistory: the repository's own client-backed PodLister (and NamespaceGetter) behind one long-lived controller:
// the same namespace update, dry run included, several times in a row; every answer must equal the answer of a freshly
// constructed controller with fresh lister to that request alone. The population has exempt-runtime-class pods listed before
// non-exempt ones and two pods of one controller, so that anything kept from an earlier listing shows.
func runRealListerHistory(c *Ctx) {
	r := NewRng(c.Seed + 1212)
	rounds := sizes(c, 4, 40)
	for round := 0; round < rounds; round++ {
		pods := genPopulation(r, 3+r.Intn(9), []string{"exrc"})
		rc := "exrc"
		lead := genPopPod(r, 0, nil)
		lead.Name, lead.Spec.RuntimeClassName = "aa-exempt-first", &rc
		pods = append([]*corev1.Pod{lead}, pods...)
		pageCap := 1 + r.Intn(4)
		ts := httptest.NewServer(http.HandlerFunc(func(w http.ResponseWriter, rq *http.Request) {
			w.Header().Set("Content-Type", "application/json")
			parts := strings.Split(strings.Trim(rq.URL.Path, "/"), "/")
			switch {
			case len(parts) == 4 && parts[2] == "namespaces":
				json.NewEncoder(w).Encode(&corev1.Namespace{TypeMeta: metav1.TypeMeta{Kind: "Namespace", APIVersion: "v1"}, ObjectMeta: metav1.ObjectMeta{Name: parts[3]}})
			case len(parts) == 5 && parts[4] == "pods":
				// like an API server: everything at once when no limit is asked for; otherwise pages of at most min(limit, pageCap)
				// items with a continue token while pods remain (a server may return fewer items than the limit)
				pl := &corev1.PodList{TypeMeta: metav1.TypeMeta{Kind: "PodList", APIVersion: "v1"}}
				start, _ := strconv.Atoi(rq.URL.Query().Get("continue"))
				end := len(pods)
				if lim, err := strconv.Atoi(rq.URL.Query().Get("limit")); err == nil && lim > 0 {
					if lim > pageCap {
						lim = pageCap
					}
					if start+lim < end {
						end = start + lim
						pl.Continue = strconv.Itoa(end)
					}
				}
				for _, p := range pods[start:end] {
					pl.Items = append(pl.Items, *p)
				}
				json.NewEncoder(w).Encode(pl)
			default:
				w.WriteHeader(404)
			}
		}))
		cs, err := kubernetes.NewForConfig(&rest.Config{Host: ts.URL, QPS: -1})
		if err != nil {
			ts.Close()
			return
		}
		mk := func() *admission.Admission {
			adm := &admission.Admission{
				Configuration: &admissionapi.PodSecurityConfiguration{Defaults: admissionapi.PodSecurityDefaults{Enforce: "privileged", EnforceVersion: "latest", Audit: "privileged", AuditVersion: "latest", Warn: "privileged", WarnVersion: "latest"},
					Exemptions: admissionapi.PodSecurityExemptions{RuntimeClasses: []string{"exrc"}}},
				Evaluator: realEvaluator, Metrics: &recorder{}, PodSpecExtractor: admission.DefaultPodSpecExtractor{},
				NamespaceGetter: admission.NamespaceGetterFromClient(cs), PodLister: admission.PodListerFromClient(cs)}
			if err := adm.CompleteConfiguration(); err != nil {
				panic(err)
			}
			return adm
		}
		level := pick(r, []string{"baseline", "restricted"})
		a := &AdmitCase{Res: "namespaces", Op: admissionv1.Update, Name: "team-a", NS: "team-a", User: "u", ExpireAfter: -1,
			Obj: ObjSpec{Kind: "namespace", NSName: "team-a", Labels: map[string]string{api.EnforceLevelLabel: level}},
			Old: ObjSpec{Kind: "namespace", NSName: "team-a", Labels: map[string]string{}}}
		// the reference: the same controller configuration over an in-memory lister holding exactly the pods the API server has
		ref := mk()
		ref.PodLister = clusterLister{"team-a": pods}
		alone := ref.Validate(context.Background(), a.attributes()).DeepCopy()
		shared := mk()
		for k := 0; k < 3; k++ {
			got := shared.Validate(context.Background(), a.attributes()).DeepCopy()
			c.Eval(1)
			c.Tag("realLister.request")
			if got.Allowed != alone.Allowed || canon(got.Warnings) != canon(alone.Warnings) {
				names := []string{}
				for _, p := range pods {
					names = append(names, p.Name)
				}
				c.Violate(Finding{Desc: fmt.Sprintf("client-backed pod lister: request %d of the same namespace update to one controller is answered differently from a controller whose lister holds the same pods in memory", k+1),
					Key: "lister-history", Input: J{"newEnforce": level, "podsAsListed": names, "exemptRuntimeClasses": []string{"exrc"}},
					Go: J{"clientBackedLister": got.Warnings, "inMemoryLister": alone.Warnings, "serverPageCap": pageCap}})
				break
			}
		}
		ts.Close()
	}
}

package main

import (
	"context"
	"encoding/json"
	"fmt"
	"net/http"
	"net/http/httptest"
	"strconv"
	"strings"

	admissionv1 "k8s.io/api/admission/v1"
	corev1 "k8s.io/api/core/v1"
	metav1 "k8s.io/apimachinery/pkg/apis/meta/v1"
	"k8s.io/client-go/kubernetes"
	"k8s.io/client-go/rest"
	"k8s.io/pod-security-admission/admission"
	admissionapi "k8s.io/pod-security-admission/admission/api"
	"k8s.io/pod-security-admission/api"
)

// runRealListerHistory: the repository's own client-backed PodLister (and NamespaceGetter) behind one long-lived controller:
// the same namespace update, dry run included, several times in a row; every answer must equal the answer of a freshly
// constructed controller with fresh lister to that request alone. The population has exempt-runtime-class pods listed before
// non-exempt ones and two pods of one controller, so that anything kept from an earlier listing shows.
func runRealListerHistory(c *Ctx) {
	r := NewRng(c.Seed + 1212)
	rounds := sizes(c, 4, 40)
	for round := 0; round < rounds; round++ {
		pods := genPopulation(r, 3+r.Intn(9), []string{"exrc"})
		rc := "exrc"
		lead := genPopPod(r, 0, nil)
		lead.Name, lead.Spec.RuntimeClassName = "aa-exempt-first", &rc
		pods = append([]*corev1.Pod{lead}, pods...)
		pageCap := 1 + r.Intn(4)
		ts := httptest.NewServer(http.HandlerFunc(func(w http.ResponseWriter, rq *http.Request) {
			w.Header().Set("Content-Type", "application/json")
			parts := strings.Split(strings.Trim(rq.URL.Path, "/"), "/")
			switch {
			case len(parts) == 4 && parts[2] == "namespaces":
				json.NewEncoder(w).Encode(&corev1.Namespace{TypeMeta: metav1.TypeMeta{Kind: "Namespace", APIVersion: "v1"}, ObjectMeta: metav1.ObjectMeta{Name: parts[3]}})
			case len(parts) == 5 && parts[4] == "pods":
				// like an API server: everything at once when no limit is asked for; otherwise pages of at most min(limit, pageCap)
				// items with a continue token while pods remain (a server may return fewer items than the limit)
				pl := &corev1.PodList{TypeMeta: metav1.TypeMeta{Kind: "PodList", APIVersion: "v1"}}
				start, _ := strconv.Atoi(rq.URL.Query().Get("continue"))
				end := len(pods)
				if lim, err := strconv.Atoi(rq.URL.Query().Get("limit")); err == nil && lim > 0 {
					if lim > pageCap {
						lim = pageCap
					}
					if start+lim < end {
						end = start + lim
						pl.Continue = strconv.Itoa(end)
					}
				}
				for _, p := range pods[start:end] {
					pl.Items = append(pl.Items, *p)
				}
				json.NewEncoder(w).Encode(pl)
			default:
				w.WriteHeader(404)
			}
		}))
		cs, err := kubernetes.NewForConfig(&rest.Config{Host: ts.URL, QPS: -1})
		if err != nil {
			ts.Close()
			return
		}
		mk := func() *admission.Admission {
			adm := &admission.Admission{
				Configuration: &admissionapi.PodSecurityConfiguration{Defaults: admissionapi.PodSecurityDefaults{Enforce: "privileged", EnforceVersion: "latest", Audit: "privileged", AuditVersion: "latest", Warn: "privileged", WarnVersion: "latest"},
					Exemptions: admissionapi.PodSecurityExemptions{RuntimeClasses: []string{"exrc"}}},
				Evaluator: realEvaluator, Metrics: &recorder{}, PodSpecExtractor: admission.DefaultPodSpecExtractor{},
				NamespaceGetter: admission.NamespaceGetterFromClient(cs), PodLister: admission.PodListerFromClient(cs)}
			if err := adm.CompleteConfiguration(); err != nil {
				panic(err)
			}
			return adm
		}
		level := pick(r, []string{"baseline", "restricted"})
		a := &AdmitCase{Res: "namespaces", Op: admissionv1.Update, Name: "team-a", NS: "team-a", User: "u", ExpireAfter: -1,
			Obj: ObjSpec{Kind: "namespace", NSName: "team-a", Labels: map[string]string{api.EnforceLevelLabel: level}},
			Old: ObjSpec{Kind: "namespace", NSName: "team-a", Labels: map[string]string{}}}
		// the reference: the same controller configuration over an in-memory lister holding exactly the pods the API server has
		ref := mk()
		ref.PodLister = clusterLister{"team-a": pods}
		alone := ref.Validate(context.Background(), a.attributes()).DeepCopy()
		shared := mk()
		for k := 0; k < 3; k++ {
			got := shared.Validate(context.Background(), a.attributes()).DeepCopy()
			c.Eval(1)
			c.Tag("realLister.request")
			if got.Allowed != alone.Allowed || canon(got.Warnings) != canon(alone.Warnings) {
				names := []string{}
				for _, p := range pods {
					names = append(names, p.Name)
				}
				c.Violate(Finding{Desc: fmt.Sprintf("client-backed pod lister: request %d of the same namespace update to one controller is answered differently from a controller whose lister holds the same pods in memory", k+1),
					Key: "lister-history", Input: J{"newEnforce": level, "podsAsListed": names, "exemptRuntimeClasses": []string{"exrc"}},
					Go: J{"clientBackedLister": got.Warnings, "inMemoryLister": alone.Warnings, "serverPageCap": pageCap}})
				break
			}
		}
		ts.Close()
	}
}

// runRealListerFaults: the client-backed PodLister against an API server that starts failing at the k-th LIST request of one
// dry run (k = 1, 2, 3; a 500, a 410 for an expired continue token, or a dropped connection) and pages whenever a limit is asked
// for. The property as oracle: a listing that failed — at whatever request — never blocks the update and is reported as the
// "failed to list pods" warning; a listing none of whose requests failed is judged like the same pods held in memory.
func runRealListerFaults(c *Ctx) {
	r := NewRng(c.Seed + 707)
	rounds := sizes(c, 6, 60)
	for round := 0; round < rounds; round++ {
		pods := genPopulation(r, 3+r.Intn(12), []string{"exrc"})
		// the violating pods sit at the end of the listing, where a listing cut short would lose them
		tail := genPopPod(r, 0, nil)
		tail.Name, tail.Spec.HostNetwork = "zz-violating-last", true
		pods = append(pods, tail)
		pageCap := 1 + r.Intn(4)
		failFrom := 1 + round%3
		flavour := round % 4
		listReqs, failed := 0, 0
		ts := httptest.NewServer(http.HandlerFunc(func(w http.ResponseWriter, rq *http.Request) {
			w.Header().Set("Content-Type", "application/json")
			parts := strings.Split(strings.Trim(rq.URL.Path, "/"), "/")
			switch {
			case len(parts) == 4 && parts[2] == "namespaces":
				json.NewEncoder(w).Encode(&corev1.Namespace{TypeMeta: metav1.TypeMeta{Kind: "Namespace", APIVersion: "v1"}, ObjectMeta: metav1.ObjectMeta{Name: parts[3]}})
			case len(parts) == 5 && parts[4] == "pods":
				listReqs++
				if listReqs >= failFrom {
					failed++
					switch flavour {
					case 0:
						w.WriteHeader(500)
						json.NewEncoder(w).Encode(&metav1.Status{TypeMeta: metav1.TypeMeta{Kind: "Status", APIVersion: "v1"}, Status: "Failure", Reason: metav1.StatusReasonInternalError, Code: 500, Message: "etcd unavailable"})
					case 1:
						w.WriteHeader(410)
						json.NewEncoder(w).Encode(&metav1.Status{TypeMeta: metav1.TypeMeta{Kind: "Status", APIVersion: "v1"}, Status: "Failure", Reason: metav1.StatusReasonExpired, Code: 410, Message: "the continue token has expired"})
					case 2:
						w.WriteHeader(429)
						json.NewEncoder(w).Encode(&metav1.Status{TypeMeta: metav1.TypeMeta{Kind: "Status", APIVersion: "v1"}, Status: "Failure", Reason: metav1.StatusReasonTooManyRequests, Code: 429, Message: "slow down"})
					default:
						if hj, ok := w.(http.Hijacker); ok {
							if conn, _, err := hj.Hijack(); err == nil {
								conn.Close()
								return
							}
						}
						w.WriteHeader(503)
					}
					return
				}
				pl := &corev1.PodList{TypeMeta: metav1.TypeMeta{Kind: "PodList", APIVersion: "v1"}}
				start, _ := strconv.Atoi(rq.URL.Query().Get("continue"))
				end := len(pods)
				if lim, err := strconv.Atoi(rq.URL.Query().Get("limit")); err == nil && lim > 0 {
					if lim > pageCap {
						lim = pageCap
					}
					if start+lim < end {
						end = start + lim
						pl.Continue = strconv.Itoa(end)
					}
				}
				for _, p := range pods[start:end] {
					pl.Items = append(pl.Items, *p)
				}
				json.NewEncoder(w).Encode(pl)
			default:
				w.WriteHeader(404)
			}
		}))
		cs, err := kubernetes.NewForConfig(&rest.Config{Host: ts.URL, QPS: -1})
		if err != nil {
			ts.Close()
			return
		}
		mk := func() *admission.Admission {
			adm := &admission.Admission{
				Configuration: &admissionapi.PodSecurityConfiguration{Defaults: admissionapi.PodSecurityDefaults{Enforce: "privileged", EnforceVersion: "latest", Audit: "privileged", AuditVersion: "latest", Warn: "privileged", WarnVersion: "latest"},
					Exemptions: admissionapi.PodSecurityExemptions{RuntimeClasses: []string{"exrc"}}},
				Evaluator: realEvaluator, Metrics: &recorder{}, PodSpecExtractor: admission.DefaultPodSpecExtractor{},
				NamespaceGetter: admission.NamespaceGetterFromClient(cs), PodLister: admission.PodListerFromClient(cs)}
			if err := adm.CompleteConfiguration(); err != nil {
				panic(err)
			}
			return adm
		}
		level := pick(r, []string{"baseline", "restricted"})
		a := &AdmitCase{Res: "namespaces", Op: admissionv1.Update, Name: "team-a", NS: "team-a", User: "u", ExpireAfter: -1,
			Obj: ObjSpec{Kind: "namespace", NSName: "team-a", Labels: map[string]string{api.EnforceLevelLabel: level}},
			Old: ObjSpec{Kind: "namespace", NSName: "team-a", Labels: map[string]string{}}}
		ref := mk()
		ref.PodLister = clusterLister{"team-a": pods}
		alone := ref.Validate(context.Background(), a.attributes()).DeepCopy()
		got := mk().Validate(context.Background(), a.attributes()).DeepCopy()
		ts.Close()
		c.Eval(1)
		c.Tag(fmt.Sprintf("realLister.fault@%d/%d", failFrom, flavour))
		names := []string{}
		for _, p := range pods {
			names = append(names, p.Name)
		}
		in := J{"newEnforce": level, "podsAsListed": names, "serverPageCap": pageCap, "serverFailsFromListRequest": failFrom, "failure": []string{"500", "410 expired", "429", "connection closed"}[flavour], "listRequestsSeen": listReqs, "listRequestsFailed": failed}
		if !got.Allowed {
			c.Violate(Finding{Desc: "a namespace update is blocked because listing its pods failed", Key: "ns-blocked-by-list", Input: in, Go: got})
			continue
		}
		if failed > 0 {
			if len(got.Warnings) != 1 || !strings.Contains(got.Warnings[0], "failed to list pods") {
				c.Violate(Finding{Desc: fmt.Sprintf("the API server failed LIST request %d of the dry run's pod listing, and the update is answered without the \"failed to list pods\" warning", failFrom),
					Key: "list-failure-unreported", Input: in, Go: J{"warnings": got.Warnings, "warningsWithAllPodsInMemory": alone.Warnings}})
			}
		} else if canon(got.Warnings) != canon(alone.Warnings) {
			c.Violate(Finding{Desc: "client-backed pod lister, no request failed: the update is answered differently from a controller whose lister holds the same pods in memory",
				Key: "lister-differs", Input: in, Go: J{"clientBackedLister": got.Warnings, "inMemoryLister": alone.Warnings}})
		}
	}
}

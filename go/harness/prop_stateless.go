package main

import (
	"bytes"
	"context"
	"encoding/json"
	"fmt"
	"os"
	"os/exec"
	"reflect"
	"strings"
	"sync"
	"time"

	admissionv1 "k8s.io/api/admission/v1"
	corev1 "k8s.io/api/core/v1"
	"k8s.io/pod-security-admission/admission"
	admissionapi "k8s.io/pod-security-admission/admission/api"
	"k8s.io/pod-security-admission/api"
	"k8s.io/pod-security-admission/metrics"
)

func init() { props["C15"] = runC15 }

type clusterLister map[string][]*corev1.Pod

func (c clusterLister) ListPods(ctx context.Context, ns string) ([]*corev1.Pod, error) {
	src := c[ns]
	out := make([]*corev1.Pod, len(src))
	copy(out, src)
	return out, nil
}

// runC15: many requests through ONE Admission (sequentially, then from 16 goroutines, under the race detector), each
// response compared deeply with the response a freshly constructed controller gives to that request handled alone.
func runC15(c *Ctx) {
	runC15RealDeps(c)
	runC15Webhook(c)
	runFaultHistories(c)
	batches, per := 40, 48
	if c.Thorough {
		batches = 600
	}
	r := NewRng(c.Seed)
	var mops []J
	type mref struct {
		b, i int
		got  AdmitOut
		desc J
	}
	var mrefs []mref
	for b := 0; b < batches; b++ {
		bt := c15Batch(r, b, per)
		namespaces, pods, mk, reqs, descs := bt.namespaces, bt.pods, bt.mk, bt.reqs, bt.descs
		// solo: a fresh controller per request
		solo := make([]*admissionv1.AdmissionResponse, per)
		for i, at := range reqs {
			solo[i] = mk(&recorder{}).Validate(context.Background(), at).DeepCopy()
		}
		// "alone" can only be staged inside this process, which has by now handled thousands of requests: state kept at
		// package level would be in both answers. The model is the reference that has no history at all: every answer is also
		// compared with it (what differs is then re-asked of a fresh process, see below).
		for i, a := range bt.cases {
			if a.Res == "namespaces" || a.Obj.Kind == "err" || a.Old.Kind == "err" {
				continue // the model's world for these needs the lister's population / decode faults: covered by the sweeps of C07, C11
			}
			a.NSLabels = namespaces[a.NS]
			_, known := namespaces[a.NS]
			a.NSErr = !known
			a.ExNS, a.ExUsers, a.ExRC, a.Defaults = bt.exNS, bt.exUsers, bt.exRC, bt.defaults
			a.Pods = pods[a.NS]
			mops = append(mops, a.opJSON())
			mrefs = append(mrefs, mref{b, i, projectResponse(solo[i], nil, nil, nil), descs[i]})
		}
		shared := mk(&recorder{})
		check := func(i int, got *admissionv1.AdmissionResponse, mode string) {
			c.Eval(1)
			if !reflect.DeepEqual(got, solo[i]) {
				c.Violate(Finding{Desc: fmt.Sprintf("response differs from the response of a fresh controller handling the request alone (%s, request %d of the batch)", mode, i), Key: "depends-on-history",
					Input: J{"batch": b, "index": i, "request": descs[i]}, Go: J{"got": got, "alone": solo[i]}})
			}
		}
		// sequential history, random order, twice
		for round := 0; round < 2; round++ {
			for _, i := range r.Perm(per) {
				check(i, shared.Validate(context.Background(), reqs[i]).DeepCopy(), "sequential")
			}
		}
		// concurrent
		var wg sync.WaitGroup
		got := make([][]*admissionv1.AdmissionResponse, 16)
		for g := 0; g < 16; g++ {
			wg.Add(1)
			order := r.Perm(per)
			go func(g int, order []int) {
				defer wg.Done()
				got[g] = make([]*admissionv1.AdmissionResponse, per)
				for _, i := range order {
					got[g][i] = shared.Validate(context.Background(), reqs[i]).DeepCopy()
				}
			}(g, order)
		}
		wg.Wait()
		for g := 0; g < 16; g++ {
			for i := 0; i < per; i++ {
				check(i, got[g][i], "concurrent")
			}
		}
		for i := 0; i < per; i++ {
			c.Nontrivial(J{"b": b, "i": i})
			if solo[i].Allowed {
				c.Tag("allowed")
			} else {
				c.Tag("denied")
			}
			if _, ok := solo[i].AuditAnnotations["error"]; ok {
				c.Tag("errorAnnotation")
			}
		}
		if b == 0 {
			c.Sample(descs[0])
		}
	}
	// a few requests of the last batch are always re-asked of a fresh process (whether or not the model objects)
	for _, i := range []int{0, 7, 13, 21, 30, 41} {
		last := batches - 1
		var ref *mref
		for k := range mrefs {
			if mrefs[k].b == last && mrefs[k].i == i {
				ref = &mrefs[k]
			}
		}
		if ref == nil {
			continue
		}
		fresh, err := c15AskFreshProcess(c, last, i)
		c.Eval(1)
		c.Tag("c15.freshProcessReplays")
		if err != nil {
			c.Note("fresh-process replay failed: " + err.Error())
			continue
		}
		if fd := diffAdmit(ref.got, fresh, "allowed code message warnings ann audit"); len(fd) > 0 {
			c.Violate(Finding{Desc: "a request handled by this process after many others (by a freshly constructed controller) is answered differently from the same request handled first thing by a fresh process: " + strings.Join(fd, "; "),
				Key: "depends-on-process-history", Input: J{"batch": last, "index": i, "request": ref.desc, "replayAlone": fmt.Sprintf("VERIF_C15_PICK=%d,%d bin/harness -prop C15-ALONE -seed %d", last, i, c.Seed)},
				Go: J{"afterHistory": ref.got, "freshProcess": fresh}})
		}
	}
	// the history-free reference
	asked := 0
	for k, o := range c.Lean(mops) {
		l := leanAdmit(o)
		m := mrefs[k]
		c.Tag("c15.comparedWithModel")
		d := diffAdmit(m.got, l, "allowed code message warnings ann audit")
		if len(d) == 0 {
			continue
		}
		// does the very same request get another answer from a process that has handled nothing else?
		if asked < 6 {
			asked++
			if fresh, err := c15AskFreshProcess(c, m.b, m.i); err == nil {
				if fd := diffAdmit(m.got, fresh, "allowed code message warnings ann audit"); len(fd) > 0 {
					c.Violate(Finding{Desc: "a request handled by this process after many others (by a freshly constructed controller) is answered differently from the same request handled first thing by a fresh process: " + strings.Join(fd, "; "),
						Key: "depends-on-process-history", Input: J{"batch": m.b, "index": m.i, "request": m.desc, "replayAlone": fmt.Sprintf("VERIF_C15_PICK=%d,%d bin/harness -prop C15-ALONE -seed %d", m.b, m.i, c.Seed)},
						Go: J{"afterHistory": m.got, "freshProcess": fresh, "model": l}})
					continue
				}
			} else {
				c.Note("fresh-process replay failed: " + err.Error())
			}
		}
		c.Disagree(Finding{Desc: "admission response differs from the model: " + strings.Join(d, "; "), Input: m.desc, Go: m.got, Lean: l})
	}
}

type c15BatchT struct {
	namespaces          nsByName
	pods                clusterLister
	defaults            admissionapi.PodSecurityDefaults
	exNS, exUsers, exRC []string
	mk                  func(rec metrics.Recorder) *admission.Admission
	cases               []*AdmitCase
	reqs                []*attrs
	descs               []J
}

// c15Batch: a small cluster and the requests sent to it (a deterministic function of the generator state: a fresh process
// given the same seed regenerates the same batches)
func c15Batch(r *Rng, b, per int) *c15BatchT {
	bt := &c15BatchT{namespaces: nsByName{}, pods: clusterLister{}}
	nsNames := []string{"n0", "n1", "n2", "n3", "n4", "exns"}
	for _, n := range nsNames {
		l := genLabels(r)
		if r.Chance(1, 3) { // several namespaces with the same effective policy, one of them with a fail-open typo
			l = map[string]string{api.EnforceLevelLabel: pick(r, []string{"baseline", "restricted", "privileged"})}
			if r.Bool() {
				l[api.WarnLevelLabel] = "basline"
			}
		}
		bt.namespaces[n] = l
		for k := r.Intn(5); k > 0; k-- {
			bt.pods[n] = append(bt.pods[n], genPopPod(r, k, []string{"exrc"}))
		}
	}
	bt.defaults = genDefaults(r)
	bt.exNS, bt.exUsers, bt.exRC = []string{"exns"}, []string{"exuser"}, []string{"exrc"}
	bt.mk = func(rec metrics.Recorder) *admission.Admission {
		adm := &admission.Admission{
			Configuration: &admissionapi.PodSecurityConfiguration{Defaults: bt.defaults, Exemptions: admissionapi.PodSecurityExemptions{Namespaces: bt.exNS, Usernames: bt.exUsers, RuntimeClasses: bt.exRC}},
			Evaluator:     realEvaluator, Metrics: rec, PodSpecExtractor: admission.DefaultPodSpecExtractor{}, NamespaceGetter: bt.namespaces, PodLister: bt.pods}
		if err := adm.CompleteConfiguration(); err != nil {
			panic(err)
		}
		return adm
	}
	for i := 0; i < per; i++ {
		a := genAdmitCase(r.Fork(), b*per+i, AdmitKnobs{FaultPct: 5, SynPct: 0, SubPct: 8})
		a.NS = pick(r, append(nsNames, "missing"))
		if a.Res == "namespaces" {
			a.Name = a.NS
			if a.Obj.Kind == "namespace" {
				a.Obj.NSName = a.NS
			}
		}
		if a.Obj.Pod != nil {
			a.Obj.Pod.Namespace = a.NS
		}
		a.NSErr, a.CtxCancelled, a.Remaining, a.ExpireAfter = false, false, 0, -1
		bt.cases = append(bt.cases, a)
		bt.reqs = append(bt.reqs, a.attributes())
		bt.descs = append(bt.descs, J{"request": a.opJSON()["req"], "namespaceLabels": bt.namespaces[a.NS]})
	}
	return bt
}

// c15AskFreshProcess: the harness binary, started anew, regenerates batch b and handles request i — and nothing else
func c15AskFreshProcess(c *Ctx, b, i int) (AdmitOut, error) {
	cmd := exec.Command(os.Args[0], "-prop", "C15-ALONE", "-seed", fmt.Sprint(c.Seed), "-tier", c.Tier)
	cmd.Env = append(os.Environ(), fmt.Sprintf("VERIF_C15_PICK=%d,%d", b, i))
	var out bytes.Buffer
	cmd.Stdout = &out
	if err := cmd.Run(); err != nil {
		return AdmitOut{}, err
	}
	var rep struct {
		Samples []AdmitOut `json:"samples"`
	}
	if err := json.Unmarshal(out.Bytes(), &rep); err != nil || len(rep.Samples) != 1 {
		return AdmitOut{}, fmt.Errorf("fresh process gave no answer: %v", err)
	}
	return rep.Samples[0], nil
}

func init() {
	props["C15-ALONE"] = func(c *Ctx) {
		var b, i int
		if _, err := fmt.Sscanf(os.Getenv("VERIF_C15_PICK"), "%d,%d", &b, &i); err != nil {
			panic("VERIF_C15_PICK=<batch>,<index> expected")
		}
		r := NewRng(c.Seed)
		var bt *c15BatchT
		for k := 0; k <= b; k++ {
			bt = c15Batch(r, k, 48)
			if k < b { // the generator state the parent had after batch k: two rounds of Perm and sixteen more
				for round := 0; round < 18; round++ {
					r.Perm(48)
				}
			}
		}
		resp := bt.mk(&recorder{}).Validate(context.Background(), bt.reqs[i])
		c.Samples = append(c.Samples, projectResponse(resp, nil, nil, nil))
	}
}

// runFaultHistories: one long-lived controller that first suffers the same fault several times in a row (pod listing fails,
// namespace lookup fails, object undecodable, request already cancelled, dry run cancelled half-way) and then serves ordinary
// requests of every kind: each of those must be answered as by a fresh controller — a failed request leaves nothing behind
// (no slot of a limiter, no half-filled cache, no sticky error).
func runFaultHistories(c *Ctx) {
	r := NewRng(c.Seed + 1516)
	rounds := sizes(c, 16, 96)
	for round := 0; round < rounds; round++ {
		lead := genAdmitCase(r.Fork(), round, AdmitKnobs{Kind: "ns", FaultPct: 0, SynPct: 0, SubPct: 0, ExemptHeavy: false,
			Pods: func(r *Rng) []*corev1.Pod { return genPopulation(r, 2+r.Intn(6), []string{"exrc"}) }})
		lead.ExNS, lead.ExUsers = []string{"exns"}, []string{"exuser"}
		mkNS := func(i int, fault string) *AdmitCase {
			a := genAdmitCase(r.Fork(), 1000+i, AdmitKnobs{Kind: "ns", FaultPct: 0, SynPct: 0, SubPct: 0, Shared: lead,
				Pods: func(r *Rng) []*corev1.Pod { return genPopulation(r, 2+r.Intn(6), []string{"exrc"}) }})
			a.Op, a.Sub, a.NS, a.User, a.Name = admissionv1.Update, "", "team", "u", "team"
			a.Obj = ObjSpec{Kind: "namespace", NSName: "team", Labels: map[string]string{api.EnforceLevelLabel: pick(r, []string{"baseline", "restricted"})}}
			a.Old = ObjSpec{Kind: "namespace", NSName: "team", Labels: map[string]string{}}
			a.ExpireAfter, a.Remaining, a.CtxCancelled, a.ListErr, a.NSErr = -1, 0, false, false, false
			switch fault {
			case "listErr":
				a.ListErr = true
			case "cancelledHalfWay":
				a.ExpireAfter = 1
			case "cancelled":
				a.CtxCancelled = true
			case "objErr":
				a.Obj = ObjSpec{Kind: "err"}
			case "deadlinePassed":
				a.Remaining = 1
			case "shortDeadline":
				a.Remaining = pick(r, []time.Duration{60 * time.Millisecond, 200 * time.Millisecond, 800 * time.Millisecond})
			}
			return a
		}
		mkPod := func(i int, kind, fault string) *AdmitCase {
			a := genAdmitCase(r.Fork(), 2000+i, AdmitKnobs{Kind: kind, FaultPct: 0, SynPct: 0, SubPct: 0, Shared: lead})
			a.NS, a.User, a.Sub = "team", "u", ""
			a.NSLabels = map[string]string{api.EnforceLevelLabel: "baseline", api.WarnLevelLabel: "restricted", api.AuditLevelLabel: "restricted"}
			a.ExpireAfter, a.Remaining, a.CtxCancelled, a.NSErr = -1, 0, false, false
			switch fault {
			case "nsErr":
				a.NSErr, a.NSErrKind = true, r.Intn(len(nsErrKinds))
			case "objErr":
				a.Obj = ObjSpec{Kind: "err"}
			case "cancelled":
				a.CtxCancelled = true
			}
			return a
		}
		fault := []string{"listErr", "deadlinePassed", "shortDeadline", "cancelledHalfWay", "cancelled", "objErr", "nsErr", "listErr"}[round%8]
		var group []*AdmitCase
		group = append(group, lead)
		nFaults := 4 + r.Intn(5)
		for i := 0; i < nFaults; i++ {
			switch fault {
			case "nsErr":
				group = append(group, mkPod(i, pick(r, []string{"pod", "ctl"}), fault))
			case "objErr", "cancelled":
				if r.Bool() {
					group = append(group, mkPod(i, pick(r, []string{"pod", "ctl"}), fault))
				} else {
					group = append(group, mkNS(i, fault))
				}
			default:
				group = append(group, mkNS(i, fault))
			}
		}
		first := len(group)
		group = append(group, mkNS(100, ""), mkPod(101, "pod", ""), mkPod(102, "ctl", ""), mkNS(103, ""))
		order := make([]int, len(group))
		for i := range order {
			order[i] = i
		}
		hist := runHistory(group, order)
		c.Tag("faultHistory." + fault)
		for j := first; j < len(group); j++ {
			fresh := group[j].runGo()
			c.Eval(1)
			if fresh.Panic != "" || hist[j].Panic != "" || fresh.ClockHit || hist[j].ClockHit {
				continue
			}
			if d := diffAdmit(fresh, hist[j], "allowed code causes message warnings ann audit evalCalls listCalls metrics timeout"); len(d) > 0 {
				c.Violate(Finding{Desc: fmt.Sprintf("after %d requests that failed the same way (%s), an ordinary %s request to the same controller is answered differently from the request alone on a fresh controller: %s", nFaults, fault, group[j].Res, strings.Join(d, "; ")),
					Key: "depends-on-failed-requests", Input: J{"fault": fault, "failedRequests": nFaults, "request": group[j].opJSON()["req"]}, Go: J{"afterTheFailures": hist[j], "alone": fresh}})
				break
			}
		}
	}
}

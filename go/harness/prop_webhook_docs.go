package main

import (
	"bytes"
	"encoding/json"
	"fmt"
	"io"
	"net/http"
	"net/http/httptest"
	"strings"

	admissionv1 "k8s.io/api/admission/v1"
	"k8s.io/pod-security-admission/cmd/webhook/server"
)

// runC16Docs: request bodies that are JSON objects, generated as trees of top-level members — the members the decoder looks
// at (apiVersion, kind, request, response) in every spelling of case, with every type of value, repeated, in any order, next to
// members it ignores — rendered as JSON text and posted to the real handler. The HTTP status must be the model's
// (`Review.status`), and, in the property's own words: an answer that is not an HTTP error is a review response carrying the
// uid of a request the body really contained.
func runC16Docs(c *Ctx, newSrv func() *server.Server) {
	r := NewRng(c.Seed + 1617)
	n := sizes(c, 1500, 40000)
	ts := httptest.NewServer(http.HandlerFunc(newSrv().HandleValidate))
	defer ts.Close()
	type member struct {
		K, T, S string
		text    string // the JSON text of the value
	}
	avPool := []string{"admission.k8s.io/v1", "admission.k8s.io/v1", "admission.k8s.io/v1beta1", "v1", "", "/", "admission.k8s.io/", "admission.k8s.io", "/v1", "a/b/c", "apps/v1", "admission.k8s.io/v2", "Admission.k8s.io/v1", "admission.k8s.io/V1", "admission.k8s.io//v1", " admission.k8s.io/v1"}
	kindPool := []string{"AdmissionReview", "AdmissionReview", "", "Pod", "admissionreview", "AdmissionReviewList", "Deployment", "Status", "AdmissionReview "}
	goodReq := `{"uid":"doc-uid","kind":{"group":"","version":"v1","kind":"Pod"},"resource":{"group":"","version":"v1","resource":"pods"},"name":"p","namespace":"priv","operation":"CREATE","userInfo":{"username":"u"},"object":{"apiVersion":"v1","kind":"Pod","metadata":{"name":"p","namespace":"priv"},"spec":{"containers":[{"name":"c","image":"i"}]}}}`
	other := []string{"7", "true", "[]", "[{}]", "1.5", "false"}
	strMember := func(k, s string) member {
		b, _ := json.Marshal(s)
		return member{K: k, T: "str", S: s, text: string(b)}
	}
	spell := func(k string) string {
		switch r.Intn(6) {
		case 0:
			return strings.ToUpper(k)
		case 1:
			return strings.ToLower(k)
		case 2:
			return strings.ToUpper(k[:1]) + k[1:]
		default:
			return k
		}
	}
	gen := func() []member {
		var ms []member
		for k := r.Intn(6); k >= 0; k-- {
			switch r.Intn(9) {
			case 0, 1:
				key := spell("apiVersion")
				switch r.Intn(8) {
				case 0:
					ms = append(ms, member{K: key, T: "null", text: "null"})
				case 1:
					ms = append(ms, member{K: key, T: "other", text: pick(r, other)})
				case 2:
					ms = append(ms, member{K: key, T: "obj", text: "{}"})
				default:
					ms = append(ms, strMember(key, pick(r, avPool)))
				}
			case 2, 3:
				key := spell("kind")
				switch r.Intn(8) {
				case 0:
					ms = append(ms, member{K: key, T: "null", text: "null"})
				case 1:
					ms = append(ms, member{K: key, T: "other", text: pick(r, other)})
				default:
					ms = append(ms, strMember(key, pick(r, kindPool)))
				}
			case 4, 5, 6:
				key := "request"
				if r.Chance(1, 5) {
					key = spell(key)
				}
				switch r.Intn(10) {
				case 0:
					ms = append(ms, member{K: key, T: "null", text: "null"})
				case 1:
					ms = append(ms, member{K: key, T: "other", text: pick(r, other)})
				case 2:
					ms = append(ms, strMember(key, "request"))
				case 3:
					ms = append(ms, member{K: key, T: "objBad", text: pick(r, []string{`{"uid":7}`, `{"dryRun":"yes"}`, `{"userInfo":"me"}`, `{"kind":"Pod"}`, `{"operation":5}`})})
				case 4:
					ms = append(ms, member{K: key, T: "obj", text: "{}"})
				default:
					ms = append(ms, member{K: key, T: "obj", text: goodReq})
				}
			case 7:
				key := "response"
				if r.Chance(1, 5) {
					key = spell(key)
				}
				switch r.Intn(6) {
				case 0:
					ms = append(ms, member{K: key, T: "null", text: "null"})
				case 1:
					ms = append(ms, member{K: key, T: "other", text: pick(r, other)})
				case 2:
					ms = append(ms, member{K: key, T: "objBad", text: pick(r, []string{`{"allowed":"yes"}`, `{"uid":{}}`, `{"warnings":"w"}`})})
				case 3:
					ms = append(ms, strMember(key, "ok"))
				default:
					ms = append(ms, member{K: key, T: "obj", text: pick(r, []string{`{}`, `{"uid":"stale","allowed":true}`})})
				}
			default:
				ms = append(ms, member{K: pick(r, []string{"metadata", "spec", "status", "futureField", "items", "Request2"}), T: pick(r, []string{"obj", "other", "str", "null"}), text: pick(r, []string{"{}", "7", `"x"`, "null", `{"name":"n"}`})})
				ms[len(ms)-1].T = map[byte]string{'{': "obj", '7': "other", '"': "str", 'n': "null"}[ms[len(ms)-1].text[0]]
			}
		}
		// most documents should get past kind detection: often put a plain good head in front
		if r.Chance(1, 2) {
			ms = append([]member{strMember("apiVersion", "admission.k8s.io/v1"), strMember("kind", "AdmissionReview")}, ms...)
		}
		return ms
	}
	// framing: JSON text may be surrounded by white space (RFC 8259: ws value ws); a well-formed review stays one
	for _, lead := range []string{"", " ", "\n", "\t", "\r\n", "   \n\t "} {
		for _, trail := range []string{"", "\n", " \r\n"} {
			body := lead + `{"apiVersion":"admission.k8s.io/v1","kind":"AdmissionReview","request":` + goodReq + `}` + trail
			resp, err := http.Post(ts.URL, "application/json", bytes.NewReader([]byte(body)))
			c.Eval(1)
			c.Tag("docs.framing")
			status, uid := -1, ""
			if err == nil {
				raw, _ := io.ReadAll(resp.Body)
				resp.Body.Close()
				status = resp.StatusCode
				var rv admissionv1.AdmissionReview
				if json.Unmarshal(raw, &rv) == nil && rv.Response != nil {
					uid = string(rv.Response.UID)
				}
			}
			if status != 200 || uid != "doc-uid" {
				c.Violate(Finding{Desc: fmt.Sprintf("a well-formed v1 review with white space around the JSON text (%q before, %q after) is answered with status %d, uid %q", lead, trail, status, uid),
					Key: "wellformed-framed-rejected", Input: J{"leadingBytes": lead, "trailingBytes": trail, "body": body}})
			}
		}
	}
	var ops []J
	type obs struct {
		body   string
		status int
		uid    string
		gotRev bool
	}
	var all []obs
	// directed documents first: the corners of kind detection and of the request test
	obj := func(k, text string) member { return member{K: k, T: "obj", text: text} }
	null := func(k string) member { return member{K: k, T: "null", text: "null"} }
	directed := [][]member{
		{obj("request", "{}")},
		{strMember("apiVersion", "admission.k8s.io/"), obj("request", "{}")},
		{strMember("apiVersion", "/"), obj("request", "{}")},
		{strMember("apiVersion", "/v1"), obj("request", "{}")},
		{strMember("apiVersion", "admission.k8s.io"), obj("request", "{}")},
		{strMember("apiVersion", "admission.k8s.io/v1"), obj("request", "{}")},
		{strMember("apiversion", "admission.k8s.io/v1beta1"), obj("request", "{}")},
		{strMember("KIND", "AdmissionReview"), obj("request", "{}")},
		{strMember("KIND", "Pod"), obj("request", "{}")},
		{strMember("kind", "Pod"), null("kind"), obj("request", "{}")},
		{strMember("kind", "Pod"), strMember("Kind", "AdmissionReview"), obj("request", "{}")},
		{strMember("kind", "AdmissionReview"), strMember("kInd", ""), obj("request", "{}")},
		{null("request"), obj("request", "{}")},
		{obj("request", "{}"), null("request")},
		{obj("Request", "{}")},
		{obj("request", "{}"), obj("Request", `{"uid":7}`)},
		{obj("request", "{}"), member{K: "request", T: "other", text: "7"}},
		{member{K: "request", T: "other", text: "[]"}, obj("request", "{}")},
		{obj("request", "{}"), member{K: "response", T: "other", text: "7"}},
		{obj("request", "{}"), member{K: "Response", T: "other", text: "7"}},
		{obj("request", "{}"), member{K: "response", T: "objBad", text: `{"allowed":"yes"}`}},
		{obj("request", goodReq), obj("response", `{"uid":"stale","allowed":true}`)},
		{member{K: "apiVersion", T: "other", text: "7"}, obj("request", "{}")},
		{member{K: "APIVERSION", T: "obj", text: "{}"}, obj("request", "{}")},
		{strMember("apiVersion", "a/b/c"), obj("request", "{}")},
		{strMember("apiVersion", "apps/"), strMember("kind", "AdmissionReview"), obj("request", "{}")},
		{},
	}
	// malformed in ways only the full decoder notices, around a request for a SUBRESOURCE of a workload (the plainest request
	// there is: the library answers it with a bare allow) — it is the review that must be well-formed, whatever it asks about
	subReq := `{"uid":"doc-uid","kind":{"group":"autoscaling","version":"v1","kind":"Scale"},"resource":{"group":"apps","version":"v1","resource":"deployments"},"subResource":"scale","requestKind":{"group":"autoscaling","version":"v1","kind":"Scale"},"requestResource":{"group":"apps","version":"v1","resource":"deployments"},"requestSubResource":"scale","name":"web","namespace":"priv","operation":"UPDATE","userInfo":{"username":"u"},"object":{"apiVersion":"autoscaling/v1","kind":"Scale","metadata":{"name":"web","namespace":"priv"},"spec":{"replicas":3}}}`
	subReqBad := strings.Replace(subReq, `"operation":"UPDATE"`, `"operation":7`, 1)
	late := [][]member{ // sent after the generated documents (the generated stream stays what it was)
		[]member{strMember("apiVersion", "admission.k8s.io/v1beta1"), strMember("kind", "AdmissionReview"), obj("request", subReq)},
		[]member{strMember("apiVersion", "v1"), strMember("kind", "ConfigMap"), obj("request", subReq)},
		[]member{strMember("apiVersion", "admission.k8s.io/v1"), strMember("kind", "AdmissionReview"), obj("Request", subReq)},
		[]member{strMember("apiVersion", "admission.k8s.io/v1"), strMember("kind", "AdmissionReview"), member{K: "request", T: "objBad", text: subReqBad}},
		[]member{strMember("apiVersion", "admission.k8s.io/v1"), strMember("kind", "AdmissionReview"), obj("request", subReq), member{K: "response", T: "other", text: "7"}},
		[]member{strMember("apiVersion", "apps/v1"), strMember("kind", "Deployment"), obj("request", subReq)},
		[]member{strMember("apiVersion", "admission.k8s.io/v1"), strMember("kind", "AdmissionReview"), obj("request", subReq)},
	}
	isDirected := func(i int) bool { return i < len(directed) || i >= n+len(directed) }
	for i := 0; i < n+len(directed)+len(late); i++ {
		var ms []member
		switch {
		case i < len(directed):
			ms = directed[i]
		case i < n+len(directed):
			ms = gen()
		default:
			ms = late[i-n-len(directed)]
		}
		var b strings.Builder
		b.WriteString(pick(r, []string{"{", " {", "{\n", "\t{ "}))
		var doc []J
		for k, m := range ms {
			if k > 0 {
				b.WriteString(",")
			}
			kb, _ := json.Marshal(m.K)
			b.Write(kb)
			b.WriteString(":")
			b.WriteString(m.text)
			doc = append(doc, J{"k": m.K, "t": m.T, "s": m.S})
		}
		b.WriteString("}")
		body := b.String()
		resp, err := http.Post(ts.URL, "application/json", bytes.NewReader([]byte(body)))
		o := obs{body: body}
		if err != nil {
			o.status = -1
		} else {
			raw, _ := io.ReadAll(resp.Body)
			resp.Body.Close()
			o.status = resp.StatusCode
			var rv admissionv1.AdmissionReview
			if json.Unmarshal(raw, &rv) == nil && rv.Response != nil {
				o.gotRev, o.uid = true, string(rv.Response.UID)
			}
		}
		c.Eval(1)
		c.Tag(fmt.Sprintf("docs.status.%d", o.status))
		if isDirected(i) {
			c.Tag(fmt.Sprintf("docs.directed.%s -> %d", body, o.status))
		}
		all = append(all, o)
		ops = append(ops, J{"op": "review", "doc": doc})
		// the property's own words
		hasGoodReq := strings.Contains(body, `"request":`+goodReq) || strings.Contains(body, `"request":`+subReq)
		hasEmptyReq := strings.Contains(body, `"request":{}`)
		switch {
		case o.status == -1:
			c.Violate(Finding{Desc: "a JSON-object body got no HTTP answer at all (handler crashed?)", Key: "docs-no-answer", Input: J{"body": body}})
		case o.status < 400 && !(o.gotRev && ((hasGoodReq && o.uid == "doc-uid") || (hasEmptyReq && o.uid == ""))):
			c.Violate(Finding{Desc: fmt.Sprintf("a body answered with status %d does not carry a response with the uid of a request it contained", o.status), Key: "docs-answer-without-request", Input: J{"body": body}, Go: J{"responseUID": o.uid, "hasResponse": o.gotRev}})
		case o.status < 400 && o.status != 200:
			c.Violate(Finding{Desc: fmt.Sprintf("a review answered with status %d (neither 200 nor an error)", o.status), Key: "docs-odd-status", Input: J{"body": body}})
		}
		if o.status == 200 {
			c.Nontrivial(body)
		}
	}
	outs := c.Lean(ops)
	for i, o := range all {
		want, _ := outs[i]["status"].(float64)
		if isDirected(i) && int(want) >= 400 && o.status != -1 && o.status < 400 {
			// the directed documents are malformed by construction (another apiVersion / kind, a misspelt or ill-typed request)
			c.Violate(Finding{Desc: fmt.Sprintf("a review that is not a well-formed v1 AdmissionReview with a request is answered with status %d", o.status), Key: "malformed-document-accepted", Input: J{"body": o.body}})
		}
		if int(want) != o.status && o.status != -1 {
			c.Disagree(Finding{Desc: fmt.Sprintf("review document: HTTP status %d, model %d", o.status, int(want)), Input: J{"body": o.body, "doc": ops[i]["doc"]}})
		}
	}
}

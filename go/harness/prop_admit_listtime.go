package main

import (
	"context"
	"fmt"
	"sync"
	"time"

	admissionv1 "k8s.io/api/admission/v1"
	corev1 "k8s.io/api/core/v1"
	metav1 "k8s.io/apimachinery/pkg/apis/meta/v1"
	"k8s.io/pod-security-admission/admission"
	admissionapi "k8s.io/pod-security-admission/admission/api"
	"k8s.io/pod-security-admission/api"
	"k8s.io/pod-security-admission/policy"
)

// slowLister answers after a delay (within the deadline it is given) and remembers that deadline.
type slowLister struct {
	pods     []*corev1.Pod
	delay    time.Duration
	deadline time.Time
	hadDL    bool
	called   time.Time
	fired    chan time.Time
}

func (l *slowLister) ListPods(ctx context.Context, ns string) ([]*corev1.Pod, error) {
	l.called = time.Now()
	l.deadline, l.hadDL = ctx.Deadline()
	if l.hadDL {
		// a timer of our own for the same instant: when it really fires tells how late timers are on this machine right now
		l.fired = make(chan time.Time, 1)
		go func(at time.Time) {
			t := time.NewTimer(time.Until(at))
			<-t.C
			l.fired <- time.Now()
		}(l.deadline)
	}
	select {
	case <-time.After(l.delay):
	case <-ctx.Done():
		return nil, ctx.Err()
	}
	return append([]*corev1.Pod{}, l.pods...), nil
}

// slowEvaluator takes a fixed time per pod and remembers when each evaluation began.
type slowEvaluator struct {
	policy.Evaluator
	per    time.Duration
	mu     sync.Mutex
	starts []time.Time
}

func (e *slowEvaluator) EvaluatePod(lv api.LevelVersion, m *metav1.ObjectMeta, s *corev1.PodSpec) []policy.CheckResult {
	e.mu.Lock()
	e.starts = append(e.starts, time.Now())
	e.mu.Unlock()
	time.Sleep(e.per)
	return e.Evaluator.EvaluatePod(lv, m, s)
}

// runC12ListTime: the one budget of the dry run covers the listing AND the evaluations. A lister that uses up most of the
// budget (and still succeeds) leaves the evaluations only the rest: no evaluation may begin long after the deadline the lister
// was given. Scheduling delays can let one evaluation slip past the deadline on a busy machine; two that begin more than
// 300 ms after it cannot be explained that way.
func runC12ListTime(c *Ctx) {
	type tc struct {
		remaining time.Duration // 0: no request deadline
		listFor   time.Duration
		per       time.Duration
	}
	cases := []tc{{0, 700 * time.Millisecond, 100 * time.Millisecond}, {1200 * time.Millisecond, 420 * time.Millisecond, 60 * time.Millisecond}}
	if c.Thorough {
		cases = append(cases, tc{0, 900 * time.Millisecond, 50 * time.Millisecond}, tc{600 * time.Millisecond, 200 * time.Millisecond, 40 * time.Millisecond}, tc{0, 300 * time.Millisecond, 150 * time.Millisecond})
	}
	r := NewRng(c.Seed + 1213)
	for _, t := range cases {
		var pods []*corev1.Pod
		for i := 0; i < 40; i++ {
			p := genPopPod(r, i, nil)
			p.Name = fmt.Sprintf("p-%02d", i)
			p.OwnerReferences = nil
			p.Spec.HostNetwork = i%2 == 0
			pods = append(pods, p)
		}
		l := &slowLister{pods: pods, delay: t.listFor}
		ev := &slowEvaluator{Evaluator: realEvaluator, per: t.per}
		adm := &admission.Admission{
			Configuration: &admissionapi.PodSecurityConfiguration{Defaults: admissionapi.PodSecurityDefaults{Enforce: "privileged", EnforceVersion: "latest", Audit: "privileged", AuditVersion: "latest", Warn: "privileged", WarnVersion: "latest"}},
			Evaluator:     ev, Metrics: &recorder{}, PodSpecExtractor: admission.DefaultPodSpecExtractor{},
			NamespaceGetter: nsByName{"team-a": {}}, PodLister: l}
		if err := adm.CompleteConfiguration(); err != nil {
			panic(err)
		}
		a := &AdmitCase{Res: "namespaces", Op: admissionv1.Update, Name: "team-a", NS: "team-a", User: "u", ExpireAfter: -1,
			Obj: ObjSpec{Kind: "namespace", NSName: "team-a", Labels: map[string]string{api.EnforceLevelLabel: "baseline"}},
			Old: ObjSpec{Kind: "namespace", NSName: "team-a", Labels: map[string]string{}}}
		ctx, cancel := context.Background(), func() {}
		if t.remaining > 0 {
			ctx, cancel = context.WithTimeout(ctx, t.remaining)
		}
		began := time.Now()
		resp := adm.Validate(ctx, a.attributes())
		took := time.Since(began)
		cancel()
		c.Eval(1)
		c.Tag("c12.listTime")
		budget := time.Second
		if t.remaining > 0 && t.remaining/2 < budget {
			budget = t.remaining / 2
		}
		in := J{"requestDeadlineIn": t.remaining.String(), "budget": budget.String(), "listingTakes": t.listFor.String(), "eachEvaluationTakes": t.per.String(), "pods": len(pods)}
		if !l.hadDL {
			c.Violate(Finding{Desc: "pod listing called without a deadline", Key: "no-deadline", Input: in})
			continue
		}
		// "long after the deadline" is measured from when a timer set for the deadline really fired on this machine
		ref := l.deadline
		select {
		case f := <-l.fired:
			if f.After(ref) {
				ref = f
			}
		case <-time.After(5 * time.Second):
			ref = time.Now()
		}
		late, startsMs := 0, []int64{}
		for _, s := range ev.starts {
			startsMs = append(startsMs, s.Sub(l.called).Milliseconds())
			if s.After(ref.Add(300 * time.Millisecond)) {
				late++
			}
		}
		if late >= 2 {
			c.Violate(Finding{Desc: fmt.Sprintf("the dry run's budget was %v (deadline given to the lister: %v after it was called); after a listing that took %v, %d evaluations began more than 300 ms after that deadline; the whole request took %v",
				budget, l.deadline.Sub(l.called).Round(time.Millisecond), t.listFor, late, took.Round(time.Millisecond)),
				Key: "budget-restarted-after-listing", Input: in, Go: J{"evaluationStartsMsAfterListCall": startsMs, "warnings": resp.Warnings}})
		}
	}
}

package main

// splitmix64: every random choice of the harness derives from one state seeded by VERIF_SEED.
type Rng struct{ s uint64 }

func NewRng(seed uint64) *Rng { return &Rng{s: seed*0x9E3779B97F4A7C15 + 0x1234567} }

func (r *Rng) U64() uint64 {
	r.s += 0x9E3779B97F4A7C15
	z := r.s
	z = (z ^ (z >> 30)) * 0xBF58476D1CE4E5B9
	z = (z ^ (z >> 27)) * 0x94D049BB133111EB
	return z ^ (z >> 31)
}

func (r *Rng) Intn(n int) int {
	if n <= 0 {
		return 0
	}
	return int(r.U64() % uint64(n))
}

func (r *Rng) Bool() bool { return r.U64()&1 == 1 }

// Chance returns true with probability num/den.
func (r *Rng) Chance(num, den int) bool { return r.Intn(den) < num }

func (r *Rng) Perm(n int) []int {
	p := make([]int, n)
	for i := range p {
		p[i] = i
	}
	for i := n - 1; i > 0; i-- {
		j := r.Intn(i + 1)
		p[i], p[j] = p[j], p[i]
	}
	return p
}

func (r *Rng) Fork() *Rng { return &Rng{s: r.U64()} }

func pick[T any](r *Rng, xs []T) T { return xs[r.Intn(len(xs))] }

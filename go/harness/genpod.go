package main

import (
	"fmt"

	corev1 "k8s.io/api/core/v1"
	"k8s.io/apimachinery/pkg/api/resource"
	metav1 "k8s.io/apimachinery/pkg/apis/meta/v1"
	"k8s.io/apimachinery/pkg/types"
)

func bp(b bool) *bool     { return &b }
func ip(i int64) *int64   { return &i }
func sp(s string) *string { return &s }

// value catalogues: every listed value, a near miss of each kind (case, prefix, suffix, trailing space), unlisted values
var capUniverse = []string{"AUDIT_WRITE", "CHOWN", "DAC_OVERRIDE", "FOWNER", "FSETID", "KILL", "MKNOD", "NET_BIND_SERVICE", "SETFCAP", "SETGID", "SETPCAP", "SETUID", "SYS_CHROOT",
	"NET_RAW", "SYS_ADMIN", "NET_ADMIN", "ALL", "all", "All", "CAP_CHOWN", "net_bind_service", "", "NET_BIND_SERVICE ", "NET_BIND", "SYS_CHROOT2", "BPF"}
var seccompTypes = []corev1.SeccompProfileType{"RuntimeDefault", "Localhost", "Unconfined", "", "runtimedefault", "Other", "RuntimeDefault ", "Local"}
var appArmorTypes = []corev1.AppArmorProfileType{"RuntimeDefault", "Localhost", "Unconfined", "", "localhost", "RuntimeDefaultX", "unconfined"}
var selTypes = []string{"", "container_t", "container_init_t", "container_kvm_t", "container_engine_t", "spc_t", "container_t ", "Container_t", "container_x", "container_engine"}
var sysctlNames = []string{"kernel.shm_rmid_forced", "net.ipv4.ip_local_port_range", "net.ipv4.tcp_syncookies", "net.ipv4.ping_group_range", "net.ipv4.ip_unprivileged_port_start",
	"net.ipv4.ip_local_reserved_ports", "net.ipv4.tcp_keepalive_time", "net.ipv4.tcp_fin_timeout", "net.ipv4.tcp_keepalive_intvl", "net.ipv4.tcp_keepalive_probes",
	"net.ipv4.tcp_rmem", "net.ipv4.tcp_wmem", "kernel.msgmax", "net.core.somaxconn", "", "net.ipv4.tcp_rmem ", "kernel.shm_rmid_force", "NET.IPV4.TCP_SYNCOOKIES", "net.ipv4.tcp_mem",
	// other spellings of allowed names (the slash form is accepted by API validation): on no published list
	"net/ipv4/tcp_syncookies", "kernel/shm_rmid_forced", "net/ipv4.ip_local_port_range", "net.ipv4/ping_group_range", "net.ipv4.tcp-syncookies", ".kernel.shm_rmid_forced", "kernel.shm_rmid_forced."}
var annVals = []string{"runtime/default", "docker/default", "localhost/foo", "localhost/", "unconfined", "", "Runtime/default", "localhost", "runtime/default ", "docker/defaultx", "a\"b", "a\\b", "x\ty", "é"}
var procMounts = []corev1.ProcMountType{"Default", "Unmasked", "", "default", "Default ", "Unmasked2"}
var hostPortVals = []int32{0, 0, 0, 80, 8080, 9, 100, 65535, 1, -1}
var runAsUserVals = []*int64{nil, ip(0), ip(1), ip(1000), ip(-1), ip(9223372036854775807)}
var ctrNames = []string{"a", "b", "a-b", "pod", "al-l", "container", "c1", "c2", "init", "eph", "x", "containers", "b-a", "a1"}

var volSources = []func() corev1.VolumeSource{
	func() corev1.VolumeSource { return corev1.VolumeSource{EmptyDir: &corev1.EmptyDirVolumeSource{}} },
	func() corev1.VolumeSource {
		return corev1.VolumeSource{HostPath: &corev1.HostPathVolumeSource{Path: "/"}}
	},
	func() corev1.VolumeSource {
		return corev1.VolumeSource{Secret: &corev1.SecretVolumeSource{SecretName: "s"}}
	},
	func() corev1.VolumeSource {
		return corev1.VolumeSource{NFS: &corev1.NFSVolumeSource{Server: "s", Path: "/"}}
	},
	func() corev1.VolumeSource { return corev1.VolumeSource{} },
	func() corev1.VolumeSource { return corev1.VolumeSource{ConfigMap: &corev1.ConfigMapVolumeSource{}} },
	func() corev1.VolumeSource {
		return corev1.VolumeSource{Image: &corev1.ImageVolumeSource{Reference: "x"}}
	},
	func() corev1.VolumeSource { return corev1.VolumeSource{CSI: &corev1.CSIVolumeSource{Driver: "d"}} },
	func() corev1.VolumeSource { return corev1.VolumeSource{DownwardAPI: &corev1.DownwardAPIVolumeSource{}} },
	func() corev1.VolumeSource { return corev1.VolumeSource{Ephemeral: &corev1.EphemeralVolumeSource{}} },
	func() corev1.VolumeSource {
		return corev1.VolumeSource{PersistentVolumeClaim: &corev1.PersistentVolumeClaimVolumeSource{ClaimName: "c"}}
	},
	func() corev1.VolumeSource { return corev1.VolumeSource{Projected: &corev1.ProjectedVolumeSource{}} },
	func() corev1.VolumeSource {
		return corev1.VolumeSource{GCEPersistentDisk: &corev1.GCEPersistentDiskVolumeSource{PDName: "p"}}
	},
	func() corev1.VolumeSource {
		return corev1.VolumeSource{AWSElasticBlockStore: &corev1.AWSElasticBlockStoreVolumeSource{VolumeID: "v"}}
	},
	func() corev1.VolumeSource {
		return corev1.VolumeSource{GitRepo: &corev1.GitRepoVolumeSource{Repository: "r"}}
	},
	func() corev1.VolumeSource { return corev1.VolumeSource{ISCSI: &corev1.ISCSIVolumeSource{}} },
	func() corev1.VolumeSource { return corev1.VolumeSource{Glusterfs: &corev1.GlusterfsVolumeSource{}} },
	func() corev1.VolumeSource { return corev1.VolumeSource{RBD: &corev1.RBDVolumeSource{}} },
	func() corev1.VolumeSource { return corev1.VolumeSource{FlexVolume: &corev1.FlexVolumeSource{}} },
	func() corev1.VolumeSource { return corev1.VolumeSource{Cinder: &corev1.CinderVolumeSource{}} },
	func() corev1.VolumeSource { return corev1.VolumeSource{CephFS: &corev1.CephFSVolumeSource{}} },
	func() corev1.VolumeSource { return corev1.VolumeSource{Flocker: &corev1.FlockerVolumeSource{}} },
	func() corev1.VolumeSource { return corev1.VolumeSource{FC: &corev1.FCVolumeSource{}} },
	func() corev1.VolumeSource { return corev1.VolumeSource{AzureFile: &corev1.AzureFileVolumeSource{}} },
	func() corev1.VolumeSource {
		return corev1.VolumeSource{VsphereVolume: &corev1.VsphereVirtualDiskVolumeSource{}}
	},
	func() corev1.VolumeSource { return corev1.VolumeSource{Quobyte: &corev1.QuobyteVolumeSource{}} },
	func() corev1.VolumeSource { return corev1.VolumeSource{AzureDisk: &corev1.AzureDiskVolumeSource{}} },
	func() corev1.VolumeSource {
		return corev1.VolumeSource{PhotonPersistentDisk: &corev1.PhotonPersistentDiskVolumeSource{}}
	},
	func() corev1.VolumeSource { return corev1.VolumeSource{PortworxVolume: &corev1.PortworxVolumeSource{}} },
	func() corev1.VolumeSource { return corev1.VolumeSource{ScaleIO: &corev1.ScaleIOVolumeSource{}} },
	func() corev1.VolumeSource { return corev1.VolumeSource{StorageOS: &corev1.StorageOSVolumeSource{}} },
}

type PodCase struct {
	Pod   *corev1.Pod
	Base  string
	Atoms []string
	// FewMinors: evaluate at a round-robin sample of the interesting versions instead of all of them (large deterministic families)
	FewMinors bool
}

// scAtoms: one atom sets one modelled container-level field to one value class.
func scAtom(r *Rng, sc *corev1.SecurityContext) string {
	switch r.Intn(11) {
	case 0:
		sc.Privileged = pick(r, []*bool{nil, bp(true), bp(false)})
		return "c.privileged"
	case 1:
		sc.AllowPrivilegeEscalation = pick(r, []*bool{nil, bp(true), bp(false)})
		return "c.ape"
	case 2:
		if r.Chance(1, 5) {
			sc.Capabilities = nil
			return "c.caps=nil"
		}
		c := &corev1.Capabilities{}
		if sc.Capabilities != nil && r.Bool() {
			c = sc.Capabilities
		}
		for k := r.Intn(3); k > 0; k-- {
			c.Add = append(c.Add, corev1.Capability(pick(r, capUniverse)))
		}
		for k := r.Intn(3); k > 0; k-- {
			c.Drop = append(c.Drop, corev1.Capability(pick(r, capUniverse)))
		}
		sc.Capabilities = c
		return "c.caps"
	case 3:
		pm := pick(r, procMounts)
		sc.ProcMount = &pm
		return "c.procMount"
	case 4:
		sc.RunAsNonRoot = pick(r, []*bool{nil, bp(true), bp(false)})
		return "c.runAsNonRoot"
	case 5:
		sc.RunAsUser = pick(r, runAsUserVals)
		return "c.runAsUser"
	case 6:
		if r.Chance(1, 5) {
			sc.SeccompProfile = nil
			return "c.seccomp=nil"
		}
		sc.SeccompProfile = &corev1.SeccompProfile{Type: pick(r, seccompTypes)}
		return "c.seccomp"
	case 7:
		sc.AppArmorProfile = &corev1.AppArmorProfile{Type: pick(r, appArmorTypes)}
		return "c.appArmor"
	case 8:
		sc.SELinuxOptions = &corev1.SELinuxOptions{Type: pick(r, selTypes), User: pick(r, []string{"", "", "u"}), Role: pick(r, []string{"", "", "r"}), Level: pick(r, []string{"", "s0"})}
		return "c.seLinux"
	case 9:
		sc.WindowsOptions = &corev1.WindowsSecurityContextOptions{HostProcess: pick(r, []*bool{nil, bp(true), bp(false)})}
		return "c.windowsOptions"
	default:
		sc.ReadOnlyRootFilesystem = bp(r.Bool()) // not mentioned by the standard
		sc.RunAsGroup = ip(int64(r.Intn(3)))
		return "c.noise"
	}
}

func compliantSC() *corev1.SecurityContext {
	return &corev1.SecurityContext{AllowPrivilegeEscalation: bp(false), Capabilities: &corev1.Capabilities{Drop: []corev1.Capability{"ALL"}}}
}

func noiseContainer(r *Rng, c *corev1.Container) {
	if r.Chance(1, 3) {
		c.Env = []corev1.EnvVar{{Name: "X", Value: "y"}}
	}
	if r.Chance(1, 4) {
		c.Command = []string{"/bin/sh", "-c", "true"}
	}
	if r.Chance(1, 4) {
		c.Resources.Limits = corev1.ResourceList{corev1.ResourceCPU: resource.MustParse("1")}
	}
	if r.Chance(1, 4) {
		c.VolumeMounts = []corev1.VolumeMount{{Name: "v0", MountPath: "/m"}}
	}
}

// podNoise randomises fields of the pod that the Pod Security Standards do not mention.
func podNoise(r *Rng, p *corev1.Pod) {
	if r.Chance(1, 3) {
		wellKnownMeta(r, &p.ObjectMeta)
	}
	if r.Chance(1, 2) {
		p.Labels = map[string]string{"app": "x", "kubernetes.io/os": pick(r, []string{"windows", "linux"})}
		p.Spec.NodeName = "n1"
		p.Spec.ServiceAccountName = "sa"
	}
	if r.Chance(1, 3) {
		p.Spec.NodeSelector = map[string]string{"kubernetes.io/os": pick(r, []string{"windows", "linux", "Windows"}), "beta.kubernetes.io/os": pick(r, []string{"windows", "linux"})}
	}
	if r.Chance(1, 4) {
		p.Spec.Tolerations = []corev1.Toleration{{Key: "os", Value: "windows", Effect: corev1.TaintEffectNoSchedule}}
		p.Spec.PriorityClassName = "system-node-critical"
		p.Spec.SchedulerName = "s"
	}
	if r.Chance(1, 4) {
		p.Spec.AutomountServiceAccountToken = bp(r.Bool())
		p.Spec.ShareProcessNamespace = bp(r.Bool())
		p.Spec.EnableServiceLinks = bp(r.Bool())
		p.Spec.Hostname = "h"
		p.Spec.Subdomain = "s"
		p.Spec.DNSPolicy = pick(r, []corev1.DNSPolicy{corev1.DNSClusterFirst, corev1.DNSDefault, corev1.DNSClusterFirstWithHostNet})
		p.Spec.RestartPolicy = pick(r, []corev1.RestartPolicy{corev1.RestartPolicyAlways, corev1.RestartPolicyNever})
		p.Spec.SetHostnameAsFQDN = bp(r.Bool())
	}
	if r.Chance(1, 5) {
		p.Spec.HostAliases = []corev1.HostAlias{{IP: "127.0.0.1", Hostnames: []string{"x"}}}
		p.Spec.ImagePullSecrets = []corev1.LocalObjectReference{{Name: "s"}}
		p.Spec.TerminationGracePeriodSeconds = ip(int64(r.Intn(3)))
		p.Spec.ActiveDeadlineSeconds = ip(5)
	}
	if r.Chance(1, 5) {
		if p.Annotations == nil {
			p.Annotations = map[string]string{}
		}
		p.Annotations["kubernetes.io/os"] = "windows"
		p.Annotations["example.com/privileged"] = "true"
		p.Finalizers = []string{"x"}
		p.GenerateName = "gen-"
	}
	visit(&p.Spec, func(c *corev1.Container) {
		if r.Chance(1, 5) {
			c.TTY, c.Stdin = r.Bool(), r.Bool()
			c.WorkingDir = "/w"
			c.ImagePullPolicy = corev1.PullAlways
			c.TerminationMessagePath = "/dev/termination-log"
			c.Args = []string{"--privileged"}
		}
		if c.SecurityContext != nil && r.Chance(1, 5) {
			if c.SecurityContext.SeccompProfile != nil && c.SecurityContext.SeccompProfile.Type == "Localhost" {
				c.SecurityContext.SeccompProfile.LocalhostProfile = sp("p.json")
			}
			if c.SecurityContext.AppArmorProfile != nil && c.SecurityContext.AppArmorProfile.Type == "Localhost" {
				c.SecurityContext.AppArmorProfile.LocalhostProfile = sp("prof")
			}
			if c.SecurityContext.WindowsOptions != nil {
				c.SecurityContext.WindowsOptions.RunAsUserName = sp("ContainerAdministrator")
			}
			if c.SecurityContext.SELinuxOptions != nil {
				c.SecurityContext.SELinuxOptions.Level = "s0:c1,c2"
			}
		}
	})
}

// genPod builds a pod from a skeleton, a base (compliant at restricted / baseline-only / bare) and a list of atoms.
func genPod(r *Rng, i int) PodCase {
	pc := PodCase{}
	base := pick(r, []string{"restricted", "restricted", "restricted", "baseline", "bare", "windows"})
	pc.Base = base
	p := &corev1.Pod{ObjectMeta: metav1.ObjectMeta{Name: fmt.Sprintf("pod-%d", i), Namespace: "ns"}}
	if r.Chance(1, 2) { // identity metadata, shared by many different pods: it says nothing about the content
		p.UID, p.ResourceVersion, p.Generation = "1b4e28ba-2fa1-11d2-883f-0016d3cca427", pick(r, []string{"4711", "4711", "4712"}), 3
	}
	perm := r.Perm(len(ctrNames))
	k := 0
	next := func() string { k++; return ctrNames[perm[k-1]] }
	mk := func(name string) corev1.Container {
		c := corev1.Container{Name: name, Image: "img-" + name}
		if base == "restricted" {
			c.SecurityContext = compliantSC()
		} else if base == "baseline" && r.Bool() {
			c.SecurityContext = &corev1.SecurityContext{}
		}
		noiseContainer(r, &c)
		return c
	}
	for n := r.Intn(3); n > 0; n-- {
		p.Spec.InitContainers = append(p.Spec.InitContainers, mk(next()))
	}
	for n := 1 + r.Intn(3); n > 0; n-- {
		p.Spec.Containers = append(p.Spec.Containers, mk(next()))
	}
	for n := r.Intn(3); n > 0; n-- {
		c := mk(next())
		p.Spec.EphemeralContainers = append(p.Spec.EphemeralContainers, corev1.EphemeralContainer{EphemeralContainerCommon: corev1.EphemeralContainerCommon{
			Name: c.Name, Image: c.Image, SecurityContext: c.SecurityContext, Env: c.Env, Command: c.Command}})
	}
	if base == "restricted" {
		p.Spec.SecurityContext = &corev1.PodSecurityContext{RunAsNonRoot: bp(true), SeccompProfile: &corev1.SeccompProfile{Type: "RuntimeDefault"}}
	} else if base == "windows" {
		p.Spec.OS = &corev1.PodOS{Name: corev1.Windows}
		p.Spec.SecurityContext = &corev1.PodSecurityContext{RunAsNonRoot: bp(true)}
	} else if r.Bool() {
		p.Spec.SecurityContext = &corev1.PodSecurityContext{}
	}

	containerAt := func(j int) *corev1.SecurityContext {
		var scp **corev1.SecurityContext
		ni, nc := len(p.Spec.InitContainers), len(p.Spec.Containers)
		switch {
		case j < ni:
			scp = &p.Spec.InitContainers[j].SecurityContext
		case j < ni+nc:
			scp = &p.Spec.Containers[j-ni].SecurityContext
		default:
			scp = &p.Spec.EphemeralContainers[j-ni-nc].SecurityContext
		}
		if *scp == nil {
			*scp = &corev1.SecurityContext{}
		}
		return *scp
	}
	total := len(p.Spec.InitContainers) + len(p.Spec.Containers) + len(p.Spec.EphemeralContainers)
	natoms := pick(r, []int{0, 1, 1, 1, 2, 2, 3, 4, 6})
	for n := 0; n < natoms; n++ {
		var a string
		switch r.Intn(14) {
		case 0, 1, 2, 3, 4:
			a = scAtom(r, containerAt(r.Intn(total)))
		case 5:
			j := r.Intn(total)
			ni, nc := len(p.Spec.InitContainers), len(p.Spec.Containers)
			ports := []corev1.ContainerPort{}
			for q := 1 + r.Intn(3); q > 0; q-- {
				ports = append(ports, corev1.ContainerPort{ContainerPort: int32(1000 + r.Intn(10)), HostPort: pick(r, hostPortVals)})
			}
			switch {
			case j < ni:
				p.Spec.InitContainers[j].Ports = ports
			case j < ni+nc:
				p.Spec.Containers[j-ni].Ports = ports
			default:
				p.Spec.EphemeralContainers[j-ni-nc].Ports = ports
			}
			a = "c.ports"
		case 6:
			j := r.Intn(total)
			ni, nc := len(p.Spec.InitContainers), len(p.Spec.Containers)
			switch {
			case j < ni:
				p.Spec.InitContainers[j].SecurityContext = nil
			case j < ni+nc:
				p.Spec.Containers[j-ni].SecurityContext = nil
			default:
				p.Spec.EphemeralContainers[j-ni-nc].SecurityContext = nil
			}
			a = "c.sc=nil"
		case 7, 8:
			if p.Spec.SecurityContext == nil {
				p.Spec.SecurityContext = &corev1.PodSecurityContext{}
			}
			psc := p.Spec.SecurityContext
			switch r.Intn(8) {
			case 0:
				psc.RunAsNonRoot = pick(r, []*bool{nil, bp(true), bp(false)})
				a = "p.runAsNonRoot"
			case 1:
				psc.RunAsUser = pick(r, runAsUserVals)
				a = "p.runAsUser"
			case 2:
				if r.Chance(1, 3) {
					psc.SeccompProfile = nil
				} else {
					psc.SeccompProfile = &corev1.SeccompProfile{Type: pick(r, seccompTypes)}
				}
				a = "p.seccomp"
			case 3:
				psc.AppArmorProfile = &corev1.AppArmorProfile{Type: pick(r, appArmorTypes)}
				a = "p.appArmor"
			case 4:
				psc.SELinuxOptions = &corev1.SELinuxOptions{Type: pick(r, selTypes), User: pick(r, []string{"", "", "u"}), Role: pick(r, []string{"", "", "r"})}
				a = "p.seLinux"
			case 5:
				psc.WindowsOptions = &corev1.WindowsSecurityContextOptions{HostProcess: pick(r, []*bool{nil, bp(true), bp(false)})}
				a = "p.windowsOptions"
			case 6:
				for q := 1 + r.Intn(3); q > 0; q-- {
					psc.Sysctls = append(psc.Sysctls, corev1.Sysctl{Name: pick(r, sysctlNames), Value: "1"})
				}
				a = "p.sysctls"
			default:
				psc.FSGroup = ip(int64(r.Intn(3))) // not mentioned by the standard
				psc.SupplementalGroups = []int64{0}
				a = "p.noise"
			}
		case 9:
			switch r.Intn(3) {
			case 0:
				p.Spec.HostNetwork = r.Chance(2, 3)
				a = "hostNetwork"
			case 1:
				p.Spec.HostPID = r.Chance(2, 3)
				a = "hostPID"
			default:
				p.Spec.HostIPC = r.Chance(2, 3)
				a = "hostIPC"
			}
		case 10:
			p.Spec.HostUsers = pick(r, []*bool{nil, bp(true), bp(false)})
			a = "hostUsers"
		case 11:
			p.Spec.OS = pick(r, []*corev1.PodOS{nil, {Name: "linux"}, {Name: "windows"}, {Name: "Windows"}, {Name: ""}, {Name: "windows "}})
			a = "os"
		case 12:
			if p.Annotations == nil {
				p.Annotations = map[string]string{}
			}
			cn := p.Spec.Containers[0].Name
			if len(p.Spec.InitContainers) > 0 && r.Bool() {
				cn = p.Spec.InitContainers[0].Name
			}
			if len(p.Spec.EphemeralContainers) > 0 && r.Chance(1, 3) {
				cn = p.Spec.EphemeralContainers[0].Name
			}
			keys := []string{"seccomp.security.alpha.kubernetes.io/pod", "container.seccomp.security.alpha.kubernetes.io/" + cn, "container.seccomp.security.alpha.kubernetes.io/nosuch",
				"container.apparmor.security.beta.kubernetes.io/" + cn, "container.apparmor.security.beta.kubernetes.io/zz", "container.apparmor.security.beta.kubernetes.io/",
				"container.apparmor.security.beta.kubernetes.io", "other", "seccomp.security.alpha.kubernetes.io/pod2", "Container.apparmor.security.beta.kubernetes.io/x"}
			for q := 1 + r.Intn(3); q > 0; q-- {
				p.Annotations[pick(r, keys)] = pick(r, annVals)
			}
			a = "annotations"
		default:
			for q := 1 + r.Intn(3); q > 0; q-- {
				vs := pick(r, volSources)()
				if r.Chance(1, 6) { // always use the common ones often
					vs = volSources[r.Intn(8)]()
				}
				p.Spec.Volumes = append(p.Spec.Volumes, corev1.Volume{Name: fmt.Sprintf("v%d", len(p.Spec.Volumes)), VolumeSource: vs})
			}
			a = "volumes"
		}
		pc.Atoms = append(pc.Atoms, a)
	}
	// noise on fields the standard does not mention (the projection drops them; a verdict must not depend on them)
	podNoise(r, p)
	// admission-only fields
	if r.Chance(1, 6) {
		p.Spec.RuntimeClassName = pick(r, []*string{nil, sp("exrc"), sp("exr"), sp("EXRC"), sp("")})
	}
	if r.Chance(1, 4) {
		t := true
		p.OwnerReferences = []metav1.OwnerReference{{UID: types.UID(fmt.Sprintf("owner-%d", r.Intn(4))), Controller: &t}}
	}
	pc.Pod = p
	return pc
}

// genInvalidPod: the separately tagged malformed stream (API-invalid pods: multi-source volumes, Linux fields on
// windows pods, duplicate container names).
func genInvalidPod(r *Rng, i int) PodCase {
	pc := genPod(r, i)
	p := pc.Pod
	switch r.Intn(3) {
	case 0:
		vs := pick(r, volSources)()
		vs.HostPath = &corev1.HostPathVolumeSource{Path: "/"}
		if r.Bool() {
			vs.EmptyDir = &corev1.EmptyDirVolumeSource{}
		}
		p.Spec.Volumes = append(p.Spec.Volumes, corev1.Volume{Name: "multi", VolumeSource: vs})
		pc.Atoms = append(pc.Atoms, "invalid.multiSourceVolume")
	case 1:
		p.Spec.OS = &corev1.PodOS{Name: corev1.Windows}
		sc := &corev1.SecurityContext{}
		scAtom(r, sc)
		sc.Capabilities = &corev1.Capabilities{Add: []corev1.Capability{corev1.Capability(pick(r, capUniverse))}}
		p.Spec.Containers[0].SecurityContext = sc
		pc.Atoms = append(pc.Atoms, "invalid.linuxFieldsOnWindows")
	default:
		c := p.Spec.Containers[0]
		c.SecurityContext = &corev1.SecurityContext{}
		scAtom(r, c.SecurityContext)
		p.Spec.Containers = append(p.Spec.Containers, c)
		pc.Atoms = append(pc.Atoms, "invalid.duplicateName")
	}
	return pc
}

// versionSensitivePod: an otherwise restricted-compliant pod whose verdict (or message) at a level changes between two
// policy versions — it uses something a later version allows, requires or exempts
func versionSensitivePod(r *Rng, name string) *corev1.Pod {
	c := corev1.Container{Name: "c", Image: "i", SecurityContext: compliantSC()}
	p := &corev1.Pod{ObjectMeta: metav1.ObjectMeta{Name: name, Namespace: "ns"}, Spec: corev1.PodSpec{Containers: []corev1.Container{c},
		SecurityContext: &corev1.PodSecurityContext{RunAsNonRoot: bp(true), SeccompProfile: &corev1.SeccompProfile{Type: "RuntimeDefault"}}}}
	n := 1 + r.Intn(2)
	for k := 0; k < n; k++ {
		switch r.Intn(10) {
		case 0:
			p.Spec.SecurityContext.Sysctls = append(p.Spec.SecurityContext.Sysctls, corev1.Sysctl{Name: "net.ipv4.ip_local_reserved_ports", Value: "1"}) // allowed from v1.27
		case 1:
			p.Spec.SecurityContext.Sysctls = append(p.Spec.SecurityContext.Sysctls, corev1.Sysctl{Name: "net.ipv4.tcp_keepalive_time", Value: "1"}) // v1.29
		case 2:
			p.Spec.SecurityContext.Sysctls = append(p.Spec.SecurityContext.Sysctls, corev1.Sysctl{Name: "net.ipv4.tcp_rmem", Value: "1"}) // v1.32
		case 3:
			p.Spec.Containers[0].SecurityContext.SELinuxOptions = &corev1.SELinuxOptions{Type: "container_engine_t"} // v1.31
		case 4:
			p.Spec.OS = &corev1.PodOS{Name: "windows"} // restricted exempts windows pods from three controls from v1.25
			p.Spec.SecurityContext.SeccompProfile = nil
			p.Spec.Containers[0].SecurityContext = &corev1.SecurityContext{}
		case 5:
			p.Spec.Containers[0].SecurityContext.Capabilities = nil // restricted requires drop ALL from v1.22
		case 6:
			p.Spec.Containers[0].SecurityContext.RunAsUser = ip(0) // restricted forbids from v1.23
		case 7:
			p.Spec.Containers[0].SecurityContext.AllowPrivilegeEscalation = nil // restricted requires false from v1.8
		case 8:
			p.Spec.SecurityContext.SeccompProfile = nil // restricted requires a profile from v1.19
		default:
			p.Annotations = map[string]string{"seccomp.security.alpha.kubernetes.io/pod": "unconfined"} // judged until v1.18 only
		}
	}
	return p
}

// wellKnownMeta: labels and annotations that other components attach to pods and that no property mentions; nothing a
// verdict, a message or the dry run's order may depend on
func wellKnownMeta(r *Rng, m *metav1.ObjectMeta) {
	ann := map[string]string{"kubernetes.io/config.mirror": "2d0f2c7a", "kubernetes.io/config.source": "file", "kubernetes.io/config.seen": "2024-01-01T00:00:00Z",
		"kubectl.kubernetes.io/default-container": "c", "cluster-autoscaler.kubernetes.io/safe-to-evict": "false", "kubectl.kubernetes.io/restartedAt": "2024-01-01T00:00:00Z",
		"pod-security.kubernetes.io/enforce": "privileged", "pod-security.kubernetes.io/exempt": "true", "kubernetes.io/psp": "privileged"}
	lab := map[string]string{"pod-template-hash": "5d4f8c7b9", "controller-revision-hash": "web-7c9f", "statefulset.kubernetes.io/pod-name": "web-0", "job-name": "j",
		"app.kubernetes.io/name": "x", "pod-security.kubernetes.io/enforce": "privileged", "pod-security.kubernetes.io/enforce-version": "v1.0", "tier": "control-plane"}
	for k, v := range ann {
		if r.Chance(1, 6) {
			if m.Annotations == nil {
				m.Annotations = map[string]string{}
			}
			m.Annotations[k] = v
		}
	}
	for k, v := range lab {
		if r.Chance(1, 6) {
			if m.Labels == nil {
				m.Labels = map[string]string{}
			}
			m.Labels[k] = v
		}
	}
}
